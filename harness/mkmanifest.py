"""Regenerates /verif/MANIFEST.json from harness/props.py (run after editing the registry)."""
import json

from harness.core import VERIF
from harness.props import PROPS

ALL = [f"C{n:02d}" for n in range(1, 21)]
BASE = "cd /repo && /venv/bin/python -m pytest -ra -q -p no:cacheprovider --timeout=900 --continue-on-collection-errors"


def main():
    checks = []
    for pid in ALL:
        if pid not in PROPS:
            continue
        sp = PROPS[pid]
        checks.append(
            {
                "property_id": pid,
                "quick_cmd": f"bin/check {pid} --tier quick",
                "thorough_cmd": f"bin/check {pid} --tier thorough",
                "evidence_file": f"/verif/evidence/{pid}.json",
                "replay_cmd_template": f"bin/check {pid} --replay {{path}}",
                "engine": "coq-model+correspondence",
                "level_claimed": {
                    "category": "proof",
                    "text": sp.get("level_text", "Theorems in coq/theories/Props/%s.v about the Gallina model, proved for all inputs; the model is tied to /repo by the correspondence suites %s evaluated inside Coq on every run." % (pid, sp["suites"])),
                    "design_ref": sp.get("design_ref", f"DESIGN.md section 8, {pid}"),
                },
                "level_note": sp.get("level_note", "Trusted: Coq kernel + vm_compute, the hand-written model (tied by correspondence on finitely many cases), the Python harness; floats idealised as exact rationals on a dyadic input domain."),
                "technique": sp.get("technique", "Coq proof about an executable model + in-Coq differential correspondence against /repo"),
            }
        )
    m = {
        "version": 1,
        "setup_cmd": "cd /verif/coq && coq_makefile -f _CoqProject -o Makefile && timeout 3000 make -j16",
        "hooks": {
            "guard": "ROBOTOOLS_VERIF",
            "enable": "no hooks are needed: every observable used by the checks is public API of robotools; the guard name is reserved",
            "baseline_off_cmd": BASE,
            "source_commits": [],
            "add_only": True,
        },
        "engines": [
            {
                "name": "coq-model+correspondence",
                "path": "bin/check",
                "serves_properties": [c["property_id"] for c in checks],
                "kind_free_text": "Coq 8.16.1 development (coq/theories: Model, Proofs, Props) + Python harness that runs /repo and evaluates the model inside Coq (vm_compute) on the same cases",
            }
        ],
        "checks": checks,
        "notes": "See DESIGN.md. Fixes to /repo are separate `fix:` commits recorded in known_findings.json.",
        "not_applicable": [
            {"property_id": pid, "reason": "check not built yet in this round (model + theorems planned in DESIGN.md section 8); not a claim that the technique cannot apply"}
            for pid in ALL
            if pid not in PROPS
        ],
    }
    (VERIF / "MANIFEST.json").write_text(json.dumps(m, indent=1) + "\n")
    print("claimed:", [c["property_id"] for c in checks])


if __name__ == "__main__":
    main()
