from harness.suites.pure import WellsSuite

SUITE = WellsSuite()
