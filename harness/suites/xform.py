from harness.suites.pure import XformSuite

SUITE = XformSuite()
