from harness.suites.pure import PcolSuite

SUITE = PcolSuite()
