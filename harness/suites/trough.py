"""Suite `trough`: robotools.utils.get_trough_wells  (serves C19)."""
import random

from harness.core import carr, cres, cstr, clist, cz, errcode, np_arg


def wells_arg(rng, k, shape):
    ws = [f"{chr(65 + r)}{rng.randint(1, 12):02d}" for r in range(k)]
    if shape == "list":
        return {"shape": "list", "v": ws}
    if shape == "2d_col":  # like trough.wells[:, [c]]
        return {"shape": "2d", "v": [[w] for w in ws]}
    if shape == "2d":  # like trough.wells of a multi-column trough: k rows x 2 columns
        return {"shape": "2d", "v": [[w, f"{w[0]}{int(w[1:]) + 12:02d}"] for w in ws]}
    raise ValueError(shape)


class TroughSuite:
    name = "trough"
    module = "harness.suites.trough"
    coq_module = "CheckTrough"
    rule = (
        "exhaustive grid n in 0..N x len in 1..26 x {list, 2-D column slice, 2-D two-column array}, plus scalar "
        "well, rejected calls (negative n, float n, bool-free non-int n, empty wells); non-trivial = accepted call "
        "with n > len(wells) (at least one wrap-around); distinct = distinct (n, wells, shape)"
    )

    def gen(self, tier, seed):
        rng = random.Random(seed)
        nmax = 80 if tier == "quick" else 200
        cases = []
        for k in range(1, 27):
            for n in range(0, nmax + 1):
                for shape in ("list", "2d_col", "2d"):
                    if shape != "list" and (n + k) % (3 if tier == "quick" else 1):
                        continue
                    cases.append({"n": n, "wells": wells_arg(rng, k, shape)})
        for n in (0, 1, 5):
            cases.append({"n": n, "wells": {"shape": "scalar", "v": "A01"}})
        big = [1000, 1999, 2000, 4097] if tier == "quick" else [1000, 1999, 2000, 4097, 10000, 65537]
        for n in big:
            for k in (1, 7, 8, 26):
                cases.append({"n": n, "wells": wells_arg(rng, k, "list")})
        # rejected calls
        for k in (1, 3, 8):
            for n in (-1, -7, -1000):
                cases.append({"n": n, "wells": wells_arg(rng, k, "list")})
            for n in ("2.0", "0.5", "str:3", "none"):
                cases.append({"n": n, "wells": wells_arg(rng, k, "list")})
        for n in (0, 1, 4, -1):
            cases.append({"n": n, "wells": {"shape": "list", "v": []}})
        # numpy scalars as n, and several calls re-using one and the same list object
        for k in (1, 4, 8):
            for n in ("npfloat:2.5", "npfloat:3.0", "npint:3", "npfloat32:3.5"):
                cases.append({"n": n, "wells": wells_arg(rng, k, "list")})
        for k in (2, 3, 4, 8):
            for seq in ([k + 2, 2 * k + 1, 3], [1, k + 1, 4 * k + 3], [0, 3 * k, k], [2 * k - 1, 2 * k + 1]):
                cases.append({"n": seq[0], "more": seq[1:], "wells": wells_arg(rng, k, rng.choice(["list", "list", "2d_col"]))})
        # collections that name a well several times, or in no particular order: the i-th result is the (i mod len)-th given
        for ws in (["A01", "B01", "A01"], ["A01", "A01"], ["C01", "A01", "B01", "A01", "C01"], ["H01", "G01", "F01"], ["B02", "A02", "B02", "A02"],
                   ["A01", "B01", "C01", "D01", "A01", "B01", "C01", "D01"]):
            for n in (0, 1, len(ws) - 1, len(ws), len(ws) + 1, 2 * len(ws) + 1, 17):
                cases.append({"n": n, "wells": {"shape": "list", "v": list(ws)}})
        cases.append({"n": 5, "wells": {"shape": "2d", "v": [["B01", "A01"], ["A01", "B01"]]}})
        # 2-D collections given as nested Python lists / tuples instead of arrays (read column-major all the same)
        for k in (2, 3, 8):
            for n in (0, 1, k, 2 * k, 2 * k + 1, 5 * k):
                for shape in ("2d_col", "2d"):
                    w = wells_arg(rng, k, shape)
                    cases.append({"n": n, "wells": dict(w, nested=rng.choice(["list", "tuple"]))})
        # the caller changes the returned list in place, then asks again (same n, same wells)
        for k in (1, 3, 8):
            for seq in ([k + 2, k + 2, k + 2], [2 * k, 3, 2 * k, 3], [5, 0, 5]):
                cases.append({"n": seq[0], "more": seq[1:], "mutate": True, "wells": wells_arg(rng, k, rng.choice(["list", "2d_col", "2d"]))})
        return cases

    @staticmethod
    def _n(case):
        n = case["n"]
        if isinstance(n, int):
            return n
        if n == "none":
            return None
        if n.startswith("str:"):
            return n[4:]
        if n.startswith("np"):
            import numpy

            kind, val = n.split(":")
            return {"npfloat": numpy.float64, "npfloat32": numpy.float32, "npint": numpy.int64}[kind](float(val))
        if n == "bool":
            return True
        return float(n)

    def run(self, case):
        import copy

        import robotools

        wells = np_arg(case["wells"])
        if case["wells"].get("nested") and case["wells"]["shape"] == "2d":
            wells = [list(r) for r in case["wells"]["v"]] if case["wells"]["nested"] == "list" else tuple(tuple(r) for r in case["wells"]["v"])
        original = copy.deepcopy(wells)

        def one(n):
            try:
                out = robotools.get_trough_wells(n, wells)
                res = {"err": None, "val": [str(w) for w in out], "is_list": isinstance(out, list),
                       "flat": all(isinstance(w, str) for w in out)}
                # the caller owns the returned list: whatever is done to it must not show in later results
                if isinstance(out, list) and case.get("mutate"):
                    out.reverse()
                    out.append("Z99")
                    del out[:1]
                return res
            except Exception as e:
                return {"err": errcode(e), "exc": type(e).__name__}

        first = one(self._n(case))
        first["more"] = [one(n) for n in case.get("more", [])]
        same = (wells == original) if isinstance(wells, (list, tuple, str)) else bool((wells == original).all())
        first["argument_unchanged"] = bool(same)
        return first

    def emit(self, case, obs):
        def cn(n):
            return f"(PInt {cz(n)})" if isinstance(n, int) and not isinstance(n, bool) else "PNotInt"

        out = lambda o: cres(o, lambda v: clist([cstr(w) for w in v]))
        calls = [(case["n"], obs)] + list(zip(case.get("more", []), obs.get("more", [])))
        return "{| c_ws := %s; c_calls := %s |}" % (carr(case["wells"], cstr), clist([f"({cn(n)}, {out(o)})" for n, o in calls]))

    def nontrivial(self, case, obs):
        if obs.get("err") or not isinstance(case["n"], int):
            return False
        w = case["wells"]
        k = 1 if w["shape"] == "scalar" else (len(w["v"]) if w["shape"] == "list" else sum(len(r) for r in w["v"]))
        return case["n"] > k

    def kind(self, case, obs):
        if obs.get("err"):
            return "rejected:" + obs.get("exc", "?")
        return "ok:" + case["wells"]["shape"]

    # ---- oracle for C19, written from the property text (independent of the model)
    def oracle_C19(self, case, obs):
        bad = self._oracle_one(case, case["n"], obs)
        for n, o in zip(case.get("more", []), obs.get("more", [])):
            bad += [f"later call n={n}: " + b if False else b for b in self._oracle_one(case, n, o)]
        if obs.get("argument_unchanged") is False:
            bad.append("argument: the call changed the well collection it was given")
        return bad[:5]

    def _oracle_one(self, case, nraw, obs):
        bad = []
        n = self._n({"n": nraw})
        w = case["wells"]
        if w["shape"] == "scalar":
            flat = [w["v"]]
        elif w["shape"] == "list":
            flat = list(w["v"])
        else:
            rows = w["v"]
            flat = [rows[r][c] for c in range(len(rows[0]) if rows else 0) for r in range(len(rows))]
        must_reject = (not isinstance(n, int)) or n < 0 or len(flat) == 0
        if must_reject:
            if not obs.get("err"):
                bad.append("reject: negative/non-integer n or empty wells was accepted")
            return bad
        if obs.get("err"):
            bad.append(f"accept: valid call raised {obs.get('exc')}")
            return bad
        out = obs["val"]
        if len(out) != n:
            bad.append(f"length: returned {len(out)} wells for n={n}")
        for i, x in enumerate(out):
            if x != flat[i % len(flat)]:
                bad.append(f"cycle: out[{i}]={x} but wells[{i} mod {len(flat)}]={flat[i % len(flat)]}")
                break
        if not obs.get("is_list"):
            bad.append("type: result is not a list")
        if obs.get("flat") is False:
            bad.append("type: the result's elements are not well IDs")
        return bad


SUITE = TroughSuite()
