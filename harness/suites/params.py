from harness.suites.cmdsuites import ParamsSuite

SUITE = ParamsSuite()
