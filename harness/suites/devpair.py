"""Suite `devpair` (C16): the same device-independent program on EvoWorklist, FluentWorklist and BaseWorklist."""
import random
from fractions import Fraction

from harness.suites import progbase, proggen
from harness.suites.progoracles import flatF, num, prev_lw


class DevPairSuite:
    name = "devpair"
    module = "harness.suites.devpair"
    coq_module = "CheckProg"
    counts = {"quick": 150, "thorough": 5000}
    rule = (
        "random device-independent programs (families mixed/transfer/fault as in suite prog, wash_scheme None excluded), each "
        "executed on EvoWorklist, FluentWorklist and BaseWorklist in one case; the three executions are also compared with the "
        "model one by one; non-trivial = program with a trough-addressing record and at least one rejected call or split volume"
    )

    def gen(self, tier, seed):
        rng = random.Random(seed * 31 + 5)
        cases = []
        for i in range(self.counts[tier]):
            fam = rng.choice(["mixed", "transfer", "fault", "mixed"])
            base = proggen.gen_program(rng, fam)
            for dev in ("evo", "fluent", "base"):
                c = dict(base)
                c["dev"] = dev
                cases.append(c)
        return cases

    def run(self, case):
        out = {}
        for dev in ("evo", "fluent", "base"):
            c = dict(case)
            c["dev"] = dev
            out[dev] = progbase.run_program(c)
            if out[dev].get("drop"):
                return {"drop": out[dev]["drop"]}
        if case["dev"] == "evo" and len(case["ops"]) >= 2:
            # the same labware objects used first by a worklist of one device type, then by one of the other type
            m = len(case["ops"]) // 2
            for name, d1, d2 in (("evo_then_fluent", "evo", "fluent"), ("fluent_then_evo", "fluent", "evo")):
                c = dict(case, dev=d1, switch_at=m, switch_dev=d2)
                r = progbase.run_program(c)
                if not r.get("drop"):
                    out[name] = {"m": m, "steps": [{"exc": s["exc"], "recs": s["recs"], "vols": [l["vols"] for l in s["lw"]]} for s in r["steps"]]}
        return {"runs": out, "steps": out[case["dev"]]["steps"]}

    def emit(self, case, obs):
        return progbase.emit_program(case, obs["runs"][case["dev"]])

    def nontrivial(self, case, obs):
        o = obs["runs"]["evo"]
        troughs = {s["name"] for s in case["labware"] if s["kind"] == "trough"}
        recs = [r for st in o["steps"] for r in st["recs"]]
        addr = any(r[:2] in ("A;", "D;", "R;") and r.split(";")[1] in troughs for r in recs)
        return addr and (any(st["exc"] for st in o["steps"]) or "B;" in recs)

    def kind(self, case, obs):
        o = obs["runs"][case["dev"]]
        errs = [s["exc"] for s in o["steps"] if s["exc"]]
        return f"{case.get('family')}:{case['dev']}:" + ("ok" if not errs else errs[-1])

    def oracle_C16(self, case, obs):
        if case["dev"] != "evo":
            return []  # every base program appears three times; judge it once
        bad = []
        e, f, b = obs["runs"]["evo"], obs["runs"]["fluent"], obs["runs"]["base"]
        L = case["labware"]
        troughs = {s["name"] for s in L if s["kind"] == "trough"}
        for i, (op, se, sf, sb) in enumerate(zip(case["ops"], e["steps"], f["steps"], b["steps"])):
            k = op["op"]
            if (se["exc"] is None) != (sf["exc"] is None):
                bad.append(f"outcome: call {i} ({k}) is {'accepted' if se['exc'] is None else 'rejected with ' + se['exc']} on EVO but {'accepted' if sf['exc'] is None else 'rejected with ' + sf['exc']} on Fluent")
                break
            special = ("VolumeOverflowError", "VolumeUnderflowError", "InvalidOperationError")
            if (se["exc"] in special or sf["exc"] in special) and se["exc"] != sf["exc"]:
                bad.append(f"error-class: call {i} ({k}) raises {se['exc']} on EVO but {sf['exc']} on Fluent")
            for j in range(len(L)):
                if se["lw"][j]["vols"] != sf["lw"][j]["vols"]:
                    bad.append(f"volumes: after call {i} ({k}) the volumes of {L[j]['name']} differ between the devices")
                if se["lw"][j]["labels"] != sf["lw"][j]["labels"]:
                    bad.append(f"history: after call {i} ({k}) the histories of {L[j]['name']} differ between the devices")
            if se["comp"] != sf["comp"]:
                bad.append(f"composition: after call {i} ({k}) compositions differ between the devices")
            if len(se["recs"]) != len(sf["recs"]):
                bad.append(f"records: call {i} ({k}) appended {len(se['recs'])} records on EVO and {len(sf['recs'])} on Fluent")
            else:
                for re_, rf in zip(se["recs"], sf["recs"]):
                    if re_ == rf:
                        continue
                    fe, ff = re_.split(";"), rf.split(";")
                    ok = fe[0] == ff[0] and (len(fe) == len(ff) or (fe[0] == "R" and len(fe) >= 16 and len(ff) >= 16 and fe[6] in troughs))
                    if ok and fe[0] in ("A", "D"):
                        diff = [x for x in range(len(fe)) if fe[x] != ff[x]]
                        ok = diff == [4] and fe[1] in troughs
                    elif ok and fe[0] == "R":
                        diff = [x for x in range(16) if fe[x] != ff[x]]
                        if fe[6] not in troughs and fe[16:] != ff[16:]:
                            diff.append(16)
                        allowed = set()
                        if fe[1] in troughs:
                            allowed |= {4, 5}
                        if fe[6] in troughs:
                            allowed |= {9, 10} | set(range(16, len(fe)))
                        ok = set(diff) <= allowed
                    else:
                        ok = False
                    if not ok:
                        bad.append(f"records: call {i} ({k}): {re_!r} on EVO vs {rf!r} on Fluent differ in more than a trough position")
                        break
            # generic base type: refuses instead of guessing
            if any(r[:2] in ("A;", "D;", "R;") for r in sb["recs"]):
                bad.append(f"base: call {i} ({k}) on a BaseWorklist emitted a pipetting record {sb['recs']}")
            if k == "transfer" and sb["exc"] != "CompatibilityError":
                bad.append(f"base: transfer on a BaseWorklist raised {sb['exc']} instead of CompatibilityError")
            same_start = i == 0 or all(b["steps"][i - 1]["lw"][j]["vols"] == e["steps"][i - 1]["lw"][j]["vols"] for j in range(len(L)))
            if same_start and k in ("aspirate", "dispense", "distribute") and se["exc"] is None and any(r[:2] in ("A;", "D;", "R;") for r in se["recs"]):
                if sb["exc"] != "TypeError":
                    bad.append(f"base: {k} on a BaseWorklist raised {sb['exc']} where device-specific numbering is needed")
            if bad:
                break
        # a worklist's records depend on its own device type only, not on which worklist used the labware before
        for name, second in (("evo_then_fluent", f), ("fluent_then_evo", e)):
            sw = obs["runs"].get(name)
            if bad or not sw:
                continue
            m = sw["m"]
            for i in range(m, len(case["ops"])):
                op, ss, sp = case["ops"][i], sw["steps"][i], second["steps"][i]
                if op["op"] not in ("aspirate", "dispense", "transfer", "distribute"):
                    continue
                before_equal = [l["vols"] for l in second["steps"][i - 1]["lw"]] == sw["steps"][i - 1]["vols"] if i > 0 else True
                if not before_equal:
                    break
                if ss["exc"] != sp["exc"] or ss["recs"] != sp["recs"] or ss["vols"] != [l["vols"] for l in sp["lw"]]:
                    bad.append(f"switch: call {i} ({op['op']}) run by a {name.split('_')[-1]} worklist after a worklist of the other type had used the same labware gives {ss['recs'][:2]} ({ss['exc']}) instead of {sp['recs'][:2]} ({sp['exc']})")
                    break
        if not bad and e.get("final") and f.get("final"):
            if e["final"]["hist"] != f["final"]["hist"]:
                bad.append("history: final histories differ between the devices")
        return bad[:5]


SUITE = DevPairSuite()
