"""Suites `params` (C09, C10) and `evocmd` (C13, C10): programs of direct record-emitting calls."""
import itertools
import math
import random
from fractions import Fraction

from harness.suites import progbase, proggen
from harness.suites.proggen import fs, wid
from harness.suites.prog import ProgBaseSuite
from harness.suites.progoracles import ORACLES_PARAMS, ORACLES_EVOCMD

PRINTABLE = [chr(c) for c in list(range(0x20, 0x7F)) + list(range(0xA1, 0xAD)) + list(range(0xAE, 0x100))]


def rtext(rng, n=None, semi=0.0):
    n = rng.choice([0, 1, 3, 8, 20, 31, 32, 33, 40]) if n is None else n
    s = "".join(rng.choice(PRINTABLE) for _ in range(n)).replace(";", ":")
    if semi and rng.random() < semi and n > 0:
        i = rng.randrange(n)
        s = s[:i] + ";" + s[i + 1:]
    return s


TIPSYMS = [["i", n] for n in range(1, 9)] + [["t", n] for n in range(1, 9)]
LIQS = ["", "Water", "Water_FD_AspZmax-1", "DMSO free"]


def chunks(seq, n):
    for i in range(0, len(seq), n):
        yield seq[i:i + n]


def wlcfg(rng, mv=None):
    wl = {"max_volume": mv or rng.choice(["950", "200", "1000", "12.5"]), "max_int": False, "auto_split": True, "diti_mode": rng.random() < 0.25}
    r = rng.random()
    if r < 0.2 and "/" not in wl["max_volume"]:
        wl["max_np"] = rng.choice(["float64", "0d", "0d"] + (["int64"] if "." not in wl["max_volume"] else []))
    elif r < 0.3:
        wl["diti_repr"] = rng.choice(["int", "npbool"])
    return wl


class ParamsSuite(ProgBaseSuite):
    name = "params"
    module = "harness.suites.params"
    rule = (
        "direct calls of aspirate_well/dispense_well/reagent_distribution/comment/wash/decontaminate/flush/commit/set_diti: "
        "all tip sequences of length <= 3 over the 16 tip symbols (quick: length <= 2 plus a sample of length 3), all 255 tip "
        "subsets in sorted/reversed/duplicated order, invalid tip members; text fields over printable Latin-1 of length 0..40 "
        "with ';' injected, non-str values; volumes at 0 / max_volume / 7158278 and beyond, NaN, inf, negative, None; positions "
        "int / negative / non-int; R record ranges, exclusion lists in/out of range, duplicated, unsorted, multi_disp reduction; "
        "non-trivial = program in which at least one call appended a record and one call was refused; distinct = distinct case JSON"
    )

    def gen(self, tier, seed):
        rng = random.Random(seed + 77)
        ops = []
        # ---- tips, exhaustive parts
        seqs = [[a] for a in TIPSYMS] + [[a, b] for a in TIPSYMS for b in TIPSYMS]
        triples = [[a, b, c] for a in TIPSYMS for b in TIPSYMS for c in TIPSYMS]
        seqs += triples if tier == "thorough" else rng.sample(triples, 400)
        for sq in seqs:
            ops.append({"op": rng.choice(["aspirate_well", "dispense_well"]), "rack_label": "P", "position": 1, "volume": "10", "kw": {"tip": {"many": sq}}})
        for m in range(1, 256):
            sub = [n + 1 for n in range(8) if (m >> n) & 1]
            for order in (sub, sub[::-1], sub + sub[:1]):
                ops.append({"op": "aspirate_well", "rack_label": "P", "position": 1, "volume": "10",
                            "kw": {"tip": {"many": [[rng.choice("it"), n] for n in order], "tuple": rng.random() < 0.3}}})
        for e in TIPSYMS + [["any"], ["i", 0], ["i", 9], ["i", -1], ["i", 128], ["o", "float:1.0"], ["o", "none"], ["o", "str:1"]]:
            ops.append({"op": "aspirate_well", "rack_label": "P", "position": 1, "volume": "10", "kw": {"tip": {"one": e}}})
        for bad in (["any"], ["i", 0], ["i", 9], ["o", "float:2.0"], ["o", "str:3"], ["o", "none"]):
            for pre in ([], [["i", 1]], [["t", 8], ["i", 2]]):
                ops.append({"op": "dispense_well", "rack_label": "P", "position": 1, "volume": "10", "kw": {"tip": {"many": pre + [bad]}}})
        ops.append({"op": "aspirate_well", "rack_label": "P", "position": 1, "volume": "10", "kw": {"tip": {"many": []}}})
        # collections of other iterable types, and long collections (more than eight entries necessarily repeat tips)
        for m in (3, 129, 255, 90):
            sub = [n + 1 for n in range(8) if (m >> n) & 1]
            for kind in ("set", "frozenset", "dictkeys", "tuple"):
                rep = rng.choice("it")
                ops.append({"op": rng.choice(["aspirate_well", "dispense_well"]), "rack_label": "P", "position": 1, "volume": "10",
                            # (one representation per hashed collection: Tip.T4 == 8, so {Tip.T4, 8} is a one-element set)
                            "kw": {"tip": {"many": [["i" if kind == "array" else rep, n] for n in sub], "as": kind}}})
        for ln in (9, 12, 16, 24):
            ops.append({"op": "aspirate_well", "rack_label": "P", "position": 1, "volume": "10",
                        "kw": {"tip": {"many": [[rng.choice("it"), rng.randint(1, 8)] for _ in range(ln)]}}})
        # ---- A / D fields
        n = 500 if tier == "quick" else 15000
        vols = ["0", "1/8", "25/2", "200", "950", "951", "1000", "7158278", "7158279", "1/1024", "12345/8", "-1", "-1/1024", "nan", "inf", "-inf",
                "1/16384", "1/1048576", "3/65536",  # below 1e-4: must still be written as plain decimals
                {"bad": "none"}, {"bad": "str"}, {"int": 5}, {"int": 0}, {"int": 2000},
                # just above each worklist max_volume used by wlcfg (closer than the two-decimal rounding of the record)
                fs(Fraction(950) + Fraction(1, 1024)), fs(Fraction(200) + Fraction(1, 512)), fs(Fraction(1000) + Fraction(3, 1024)), fs(Fraction(25, 2) + Fraction(1, 1024))]
        for _ in range(n):
            kw = {}
            for f in ("liquid_class", "rack_id", "tube_id", "rack_type", "forced_rack_type"):
                r = rng.random()
                if r < 0.45:
                    kw[f] = rtext(rng, semi=0.12)
                elif r < 0.5:
                    kw[f] = {"notstr": rng.choice(["none", "int", "bytes"])}
            if rng.random() < 0.3:
                kw["tip"] = rng.choice([{"one": rng.choice(TIPSYMS)}, {"many": rng.sample(TIPSYMS, 3)}, {"one": ["any"]}])
            lab = rtext(rng, semi=0.1) if rng.random() < 0.9 else {"notstr": rng.choice(["none", "int"])}
            pos = rng.choice([0, 1, 1, 5, 96, 384, 10000, -1, -7, {"notint": "float:2.0"}, {"notint": "float:1.5"}, {"notint": "none"}, {"notint": "str:4"}])
            ops.append({"op": rng.choice(["aspirate_well", "dispense_well"]), "rack_label": lab, "position": pos,
                        "volume": rng.choice(vols) if rng.random() < 0.6 else fs(Fraction(rng.randrange(0, 1 << 20), 1 << rng.choice([0, 1, 3, 6, 10]))), "kw": kw})
        # ---- R records
        for _ in range(n // 2):
            ds, de = rng.randrange(1, 97), rng.randrange(1, 97)
            if rng.random() < 0.8 and ds > de:
                ds, de = de, ds
            ex = None
            r = rng.random()
            if r < 0.4 and de >= ds:
                ex = [rng.randrange(ds, de + 1) for _ in range(rng.choice([0, 1, 2, 5]))]
            elif r < 0.5:
                ex = [rng.randrange(0, 120) for _ in range(rng.choice([1, 3]))]
            op = {"op": "reagent", "src_label": rtext(rng, semi=0.05), "src_start": rng.choice([1, 1, 5, 9, 0, -1, {"notint": "float:8.5"}]),
                  "src_end": rng.choice([8, 8, 4, 16, {"notint": "float:8.0"}]), "dst_label": rtext(rng, semi=0.05), "dst_start": ds, "dst_end": de,
                  "volume": rng.choice(vols[:12] + [{"int": 50}, {"int": 300}]), "exclude": ex}
            if rng.random() < 0.6:
                op["multi_disp"] = rng.choice([1, 2, 6, 12, 100, 0, -1, -3])
            if rng.random() < 0.4:
                op["diti_reuse"] = rng.choice([1, 2, 8, 0, -1])
            if rng.random() < 0.5:
                op["liquid_class"] = rtext(rng, semi=0.15)
            if rng.random() < 0.4:
                op["direction"] = rng.choice(["left_to_right", "right_to_left", "up", ""])
            for f in ("src_rack_id", "src_rack_type", "dst_rack_id", "dst_rack_type"):
                if rng.random() < 0.25:
                    op[f] = rtext(rng, semi=0.15)
            ops.append(op)
        # ---- mostly valid R records: exclusion lists across digit boundaries, multi_disp reduction
        for _ in range(n // 4):
            ds = rng.choice([1, 3, 7, 8, 9, 95])
            de = ds + rng.choice([2, 5, 9, 30])
            k = rng.choice([0, 1, 2, 3, 6])
            ex = rng.sample(range(ds, de + 1), min(k, de - ds + 1))
            if rng.random() < 0.3:
                ex = ex + ex[:1]
            v = rng.choice(["10", "25/2", "50", "200", "475", {"int": 30}, {"int": 400}, "1/64", "0"])
            op = {"op": "reagent", "src_label": rng.choice(["T", "water", "µ-trough"]), "src_start": rng.choice([1, 5, 9]), "src_end": rng.choice([8, 12, 16]),
                  "dst_label": rng.choice(["P", "MTP 1"]), "dst_start": ds, "dst_end": de, "volume": v, "exclude": ex if rng.random() < 0.9 else None,
                  "multi_disp": rng.choice([1, 2, 6, 12, 100]), "diti_reuse": rng.choice([1, 3]), "liquid_class": rng.choice(LIQS),
                  "direction": rng.choice(["left_to_right", "right_to_left"])}
            if op["exclude"] and rng.random() < 0.12:
                # an entry that is not a well number (truncating or parsing it would silently exclude another well)
                op["exclude"] = list(op["exclude"])
                op["exclude"][rng.randrange(len(op["exclude"]))] = {"bad": rng.choice(["float:%d.5" % (ds + 1), "str:%d" % (ds + 1), "none", "float:%d.0" % (ds + 1), "float:%d.0" % ds])}
            elif op["exclude"] and rng.random() < 0.4:
                op["exclude_type"] = rng.choice(["tuple", "set", "iter", "gen"])
                if op["exclude_type"] == "set":
                    op["exclude"] = list(dict.fromkeys(op["exclude"]))  # a set holds each well once: that is the argument
            ops.append(op)
        # ---- multi-line comments with the separator in a later line (nothing may be appended before the refusal)
        for first in ("step one", "a", "µL"):
            for later in ("bad;line", ";", "x ; y"):
                ops.append({"op": "comment", "text": first + "\n" + later})
                ops.append({"op": "comment", "text": first + "\nfine\n" + later + "\nafter"})
        # ---- simple emitters
        for _ in range(n // 2):
            r = rng.random()
            if r < 0.35:
                lines = [rtext(rng, semi=0.08) for _ in range(rng.choice([1, 1, 2, 3]))]
                ops.append({"op": "comment", "text": rng.choice(["\n".join(lines), " " + lines[0] + "  ", "", None, "\n", " \n x \n",
                                                                "\t" + lines[0], lines[0] + "\r\n" + lines[-1] + "\r\n", "\t", "\u00a0" + lines[0] + "\u00a0", "a\u0085\nb\x0b",
                                                                "Step 1\n \nStep 2", "a\n\t\nb\n\n\nc", " \n \n"])})
            elif r < 0.6:
                ops.append({"op": "wash", "scheme": rng.choice([1, 2, 3, 4, 0, 5, -1, {"other": "float2"}, {"other": "str"}, {"other": "none"}])})
            elif r < 0.7:
                ops.append({"op": "decon"})
            elif r < 0.78:
                ops.append({"op": "flush"})
            elif r < 0.88:
                ops.append({"op": "commit"})
            else:
                ops.append({"op": "set_diti", "i": rng.choice([1, 2, 3, 10, 0, -1, -3])})
        rng.shuffle(ops)
        cases = []
        for grp in chunks(ops, 12):
            for dev in ("evo", "fluent"):
                cases.append({"dev": dev, "wl": wlcfg(random.Random(len(cases) // 2 + seed)), "labware": [], "ops": grp, "family": "params"})
        # ---- multi-dispense counts at the boundary: max_volume / volume just below an integer (the count must be floored, not
        # rounded). Integer volumes (no float formatting involved) and a worklist max_volume just below k * volume.
        for v, kq in ((475, 2), (100, 2), (250, 4), (50, 4), (125, 8), (1, 5)):
            for e in (13, 16, 20):
                mvq = Fraction(v * kq) - Fraction(1, 1 << e)
                ops_b = []
                for md in (kq, kq + 1, 12, 100, kq - 1):
                    ops_b.append({"op": "reagent", "src_label": "T", "src_start": 1, "src_end": 8, "dst_label": "P", "dst_start": 1, "dst_end": 12,
                                  "volume": {"int": v}, "exclude": None, "multi_disp": md, "diti_reuse": 1, "liquid_class": "Water", "direction": "left_to_right"})
                for dev in ("evo", "fluent"):
                    cases.append({"dev": dev, "wl": wlcfg(random.Random(e), fs(mvq)), "labware": [], "ops": ops_b, "family": "params"})
        # ---- max_volume re-assigned between calls (oracle-only): every call is judged by the value in force when it runs
        for m1, m2, v in (("950", "200", 300), ("200", "950", 300), ("1000", "375/2", 190), ("50", "500", 75)):
            def rg(vol, md=6):
                return {"op": "reagent", "src_label": "T", "src_start": 1, "src_end": 8, "dst_label": "P", "dst_start": 1, "dst_end": 12,
                        "volume": {"int": vol}, "exclude": None, "multi_disp": md, "diti_reuse": 1, "liquid_class": "Water", "direction": "left_to_right"}
            ops_r = [{"op": "aspirate_well", "rack_label": "P", "position": 1, "volume": str(v), "kw": {}}, rg(v), {"op": "set_max", "v": m2},
                     {"op": "aspirate_well", "rack_label": "P", "position": 1, "volume": str(v), "kw": {}},
                     {"op": "dispense_well", "rack_label": "P", "position": 2, "volume": fs(Fraction(m2) + Fraction(1, 8)), "kw": {}},
                     {"op": "dispense_well", "rack_label": "P", "position": 2, "volume": m2, "kw": {}}, rg(v), rg(v // 3, 100)]
            for dev in ("evo", "fluent"):
                cases.append({"dev": dev, "wl": {"max_volume": m1, "max_int": False, "auto_split": True, "diti_mode": False}, "labware": [], "ops": ops_r, "family": "params"})
        return cases

    def nontrivial(self, case, obs):
        steps = obs.get("steps", [])
        return any(s["recs"] for s in steps) and any(s["exc"] for s in steps)

    def kind(self, case, obs):
        from collections import Counter

        c = Counter((op["op"], "raised" if st["exc"] else "ok") for op, st in zip(case["ops"], obs.get("steps", [])))
        top = c.most_common(1)
        return f"{top[0][0][0]}:{top[0][0][1]}" if top else "empty"


class EvoCmdSuite(ProgBaseSuite):
    name = "evocmd"
    module = "harness.suites.evocmd"
    rule = (
        "evo_aspirate/evo_dispense/evo_wash on plates and troughs: wells within one column / across columns, ascending, "
        "descending, repeated; tips ascending / any order / repeated / ints and Tip members / Tip.Any / invalid; scalar and "
        "per-tip volumes incl. NaN, negative, above max_volume; grid 0..68, site 0..129, arm -1..2; every evo_wash parameter at "
        "both bounds +-1; non-trivial = program with an accepted multi-well command; distinct = distinct case JSON"
    )

    def gen(self, tier, seed):
        rng = random.Random(seed + 99)
        rng_int = random.Random(seed + 9901)  # separate stream (all-int volume lists): the other draws stay as they were
        cases = []
        n = 260 if tier == "quick" else 6000
        for i in range(n):
            specs = proggen.gen_labware(rng, n=rng.choice([1, 2]))
            sh = proggen.Shadow(specs)
            wl = wlcfg(rng, rng.choice(["950", "950", "200", "50"]))
            wl["diti_mode"] = False
            ops = []
            for _ in range(rng.choice([2, 4, 6])):
                k = rng.randrange(len(specs))
                R, C = sh.rows_ids(k), sh.cols(k)
                r = rng.random()
                if r < 0.8:
                    col = rng.randrange(C)
                    nw = rng.randint(1, min(8, R))
                    rows = sorted(rng.sample(range(R), nw))
                    tips = sorted(rng.sample(range(1, 9), nw))
                    mode = rng.random()
                    if mode < 0.06:
                        rng.shuffle(rows)
                    elif mode < 0.1:
                        rng.shuffle(tips)
                    elif mode < 0.13 and nw > 1:
                        rows[1] = rows[0]
                    elif mode < 0.16 and nw > 1:
                        tips[1] = tips[0]
                    same_perm = None
                    if 0.16 <= mode < 0.22 and nw > 1:
                        # wells, tips (and below: volumes) permuted by one and the same permutation: a "matching" but not ascending call
                        same_perm = list(range(nw))
                        rng.shuffle(same_perm)
                        rows = [rows[j] for j in same_perm]
                        tips = [tips[j] for j in same_perm]
                    wells = [wid(rr, col) for rr in rows]
                    if rng.random() < 0.04 and C > 1 and nw > 1:
                        wells[-1] = wid(rows[-1], (col + 1) % C)
                    elif rng.random() < 0.06 and C > 1 and nw > 2:
                        # ascending ids from two columns whose first and last well share a column
                        j = rng.randrange(1, nw - 1)
                        wells[j] = wid(rows[j], (col + 1) % C)
                    asp = rng.random() < 0.5
                    vols = []
                    for w in wells:
                        cur = sh.vol(k, w)
                        lim = (cur - sh.mn(k)) if asp else (sh.mx(k) - cur)
                        lim = min(lim / max(1, nw), Fraction(wl["max_volume"]))
                        vols.append(proggen.dy(rng, lim, e=rng.choice([0, 1, 2, 3])) if lim > 0 else Fraction(0))
                    if rng.random() < 0.05:
                        vols[rng.randrange(nw)] = rng.choice([Fraction(wl["max_volume"]) + 1, Fraction(-1)])
                    if rng.random() < 0.3:
                        vol = {"t": "scalar", "v": fs(min(vols))}
                        vv = [min(vols)] * nw
                    else:
                        vol = {"t": "list", "v": [fs(v) for v in vols]}
                        vv = vols
                        if all(v.denominator == 1 for v in vols) and rng_int.random() < (0.4 if nw > 1 else 0.2):
                            # per-tip volumes as a list of Python ints (about a tenth of the lists): numpy keeps the array
                            # integer and the command text shows "5" instead of "5.0"; same numbers for the shadow
                            vol = {"t": "list", "v": [{"int": int(v)} for v in vols]}
                    if rng.random() < 0.04:
                        vol = {"t": "scalar", "v": rng.choice(["nan", "inf", {"bad": "none"}])}
                    (sh.remove if asp else sh.add)(k, wells, vv)
                    te = [[rng.choice("it"), t] for t in tips]
                    if rng.random() < 0.05:
                        te[rng.randrange(nw)] = rng.choice([["any"], ["i", 0], ["i", 9], ["o", "float:1.0"]])
                    wa = {"shape": "list", "v": wells}
                    if nw == 1 and rng.random() < 0.4:
                        wa = {"shape": "scalar", "v": wells[0]}
                    elif nw in (2, 4, 6, 8) and rng.random() < 0.12:
                        # the wells of the column as a 2-D array (read column-major, like every well argument)
                        wa = {"shape": "2d", "v": [[wells[c * 2 + r_] for c in range(nw // 2)] for r_ in range(2)]}
                    elif nw in (3, 6) and rng.random() < 0.08:
                        wa = {"shape": "2d", "v": [[wells[c * 3 + r_] for c in range(nw // 3)] for r_ in range(3)]}
                    op = {"op": "evo_asp" if asp else "evo_disp", "lw": k, "wells": wa,
                          "grid": rng.choice([1, 67, 0, 68, {"notint": "float:3.0"}]) if rng.random() < 0.1 else rng.randint(1, 67),
                          "site": rng.choice([1, 128, 0, 129, {"notint": "none"}]) if rng.random() < 0.1 else rng.randint(1, 128),
                          "tips": te, "volume": vol, "lc": rng.choice(["Water", "Water_DispZmax", "", "a;b", {"notstr": "none"}, "Water free dispense 0123456789 ABCDEF", "L" * 32, "L" * 33, "Ethanol 70% (v/v) µ-dispense"]) if rng.random() < 0.25 else "Water free dispense",
                          "arm": rng.choice([0, 0, 0, 1, 1, 0, 1, 0, 0, 1, 0, 0, 2, -1, {"notint": "float:1.0"}, {"notint": "float:0.0"}]), "label": rng.choice(proggen.LABELS[:10])}
                    if not asp:
                        op["comps"] = proggen.gen_comps(rng, nw)
                    ops.append(op)
                else:
                    a = {"tips": [[rng.choice("it"), t] for t in rng.sample(range(1, 9), rng.randint(1, 8))],
                         "waste": [rng.choice([1, 67, 20, 20, 20, 20, 0, 68]), rng.choice([1, 128, 3, 3, 3, 3, 0, 129])],
                         "cleaner": [rng.choice([1, 67, 20, 20, 20]), rng.choice([1, 128, 2, 2, 129])]}
                    if rng.random() < 0.15:
                        a["tips"].append(rng.choice([a["tips"][0], ["any"], ["i", 9], ["o", "float:1.0"]]))
                    bounds = {"waste_delay": (0, 1000), "cleaner_delay": (0, 1000), "airgap": (0, 100), "airgap_speed": (1, 1000),
                              "retract_speed": (1, 100), "fastwash": (0, 1), "low_volume": (0, 1)}
                    for f, (lo, hi) in bounds.items():
                        if rng.random() < 0.35:
                            a[f] = rng.choice([lo, hi, lo, hi, (lo + hi) // 2, (lo + hi) // 2, lo - 1, hi + 1, {"notint": "float:1.0"}])
                    for f in ("waste_vol", "cleaner_vol"):
                        if rng.random() < 0.4:
                            a[f] = rng.choice(["0", "100", "3", "5/2", "13/4", "7/2", "25", {"int": 4}, {"int": 0}, "101", "-1/2", "nan", {"int": 101}, {"bad": "str"}])
                    if rng.random() < 0.3:
                        a["arm"] = rng.choice([0, 1, 0, 1, 0, 1, 2, -1])
                    ops.append({"op": "evo_wash", "args": a})
            cases.append({"dev": "evo", "wl": wl, "labware": specs, "ops": ops, "family": "evocmd"})
        # the same tip twice in different representations, and tips whose numbers descend while their mask values ascend
        for tps in ([["i", 3], ["t", 3]], [["t", 3], ["i", 3]], [["i", 5], ["t", 4]], [["t", 2], ["i", 2]], [["i", 4], ["t", 3]]):
            specs = [{"kind": "plate", "name": "P", "rows": 8, "cols": 3, "min": "0", "max": "2000", "init": {"shape": "scalar", "v": "1000"}}]
            ops = [{"op": "evo_asp", "lw": 0, "wells": {"shape": "list", "v": ["A01", "B01"]}, "grid": 10, "site": 2, "tips": tps,
                    "volume": {"t": "list", "v": ["10", "41/2"]}, "lc": "Water", "arm": 0, "label": None}]
            cases.append({"dev": "evo", "wl": wlcfg(random.Random(4), "950"), "labware": specs, "ops": ops, "family": "evocmd"})
        # per-tip volumes that are not a flat list of numbers (oracle-only: the model has no such argument)
        for kind in ("nested", "tuple"):
            for asp in (True, False):
                specs = [{"kind": "plate", "name": "P", "rows": 8, "cols": 3, "min": "0", "max": "2000", "init": {"shape": "scalar", "v": "1000"}}]
                ops = [{"op": "evo_asp" if asp else "evo_disp", "lw": 0, "wells": {"shape": "list", "v": ["A01", "B01", "C01"]}, "grid": 10, "site": 2,
                        "tips": [["i", 1], ["i", 2], ["i", 3]], "volume": {"t": kind, "v": ["10", "41/2", "121/4"]}, "lc": "Water free dispense", "arm": 0, "label": None}]
                if not asp:
                    ops[0]["comps"] = None
                cases.append({"dev": "evo", "wl": wlcfg(random.Random(3), "950"), "labware": specs, "ops": ops, "family": "evocmd"})
        return cases

    def nontrivial(self, case, obs):
        for op, st in zip(case["ops"], obs.get("steps", [])):
            if op["op"] in ("evo_asp", "evo_disp") and not st["exc"] and op["wells"]["shape"] == "list" and len(op["wells"]["v"]) > 1:
                return True
        return False


for _pid, _fn in ORACLES_PARAMS.items():
    setattr(ParamsSuite, f"oracle_{_pid}", staticmethod(_fn))
for _pid, _fn in ORACLES_EVOCMD.items():
    setattr(EvoCmdSuite, f"oracle_{_pid}", staticmethod(_fn))
