from harness.suites.pure import SaveSuite

SUITE = SaveSuite()
