"""Suites over the pure helpers; Coq side: Corr/CheckPure.v.
pvol (C06), pcol (C18), wells (C08), ctor (C20), sel (C12), xform (C15), save (C17)."""
from __future__ import annotations

import itertools
import math
import random
import re
from fractions import Fraction

from harness.core import CaseError, carr, cbool, clist, copt, cq, cres, cstr, cz, errcode, np_arg, to_float, frac_str
from harness.suites import progbase
from harness.suites.proggen import fs, wid

M63 = (1 << 63) - 1


def fr(x):
    return Fraction(x)


def fro(x):
    """exact Fraction of a float/int result ("nan" / "inf" / "-inf" for non-finite values)"""
    x = float(x) if not isinstance(x, int) else x
    if isinstance(x, float) and (x != x or abs(x) == float("inf")):
        return repr(x)
    return frac_str(Fraction(x))


# =========================================================================== pvol


class PvolSuite:
    name = "pvol"
    module = "harness.suites.pvol"
    coq_module = "CheckPure"
    exhaustive = True
    rule = (
        "grid v = k/8 (k = 0..K) x max_volume in integer and non-integer sets, plus v = j*max_volume +- 2^-10; "
        "cases where float ceil differs from exact ceil are dropped and counted; non-trivial = v >= max_volume (a split happens)"
    )

    def gen(self, tier, seed):
        K = 3000 if tier == "quick" else 24000
        ms_int = ["1", "2", "3", "7", "50", "200", "950", "1000"]
        ms_frac = ["1/2", "3/4", "5/2", "1901/2", "97/8"]
        cases = []
        cap = 40 if tier == "quick" else 150  # bound on the number of steps (size of the expected literal)
        for m in ms_int:
            for k in range(0, min(K, 8 * cap * int(m)) + 1):
                cases.append({"v": fs(Fraction(k, 8)), "m": m, "m_int": k % 2 == 0})
        kf = 500 if tier == "quick" else 6000
        for m in ms_frac:
            for k in range(0, min(kf, int(8 * cap * Fraction(m))) + 1):
                cases.append({"v": fs(Fraction(k, 8)), "m": m})
        for m in ms_int + ms_frac:
            for j in range(1, 40 if tier == "quick" else 400):
                for d in (Fraction(-1, 1024), Fraction(0), Fraction(1, 1024)):
                    cases.append({"v": fs(Fraction(m) * j + d), "m": m})
        rng = random.Random(seed)
        for _ in range(300 if tier == "quick" else 5000):
            m = Fraction(rng.randrange(1, 1 << 14), 1 << rng.choice([0, 1, 3, 6]))
            v = Fraction(rng.randrange(0, 1 << 22), 1 << rng.choice([0, 2, 5, 10]))
            if v > cap * m:
                v = v % (cap * m)
            cases.append({"v": fs(v), "m": fs(m)})
        return cases

    def run(self, case):
        from robotools.worklists.utils import partition_volume

        v = to_float(case["v"])
        m = int(case["m"]) if case.get("m_int") else to_float(case["m"])
        if v >= m and v > 0:
            n_f = math.ceil(v / m)
            n_x = math.ceil(Fraction(v) / Fraction(m))
            if n_f != n_x or math.ceil(v / n_f) != math.ceil(Fraction(v) / n_x):
                return {"drop": "rounding"}
        try:
            out = partition_volume(v, max_volume=m)
            return {"err": None, "val": [fro(x) for x in out]}
        except Exception as e:
            return {"err": errcode(e), "exc": type(e).__name__}

    def emit(self, case, obs):
        if obs.get("err"):
            return f"(KPvol {cq(case['v'])} {cq(case['m'])} [{cq(-1)}; {cq(-1)}; {cq(-1)}])"
        return f"(KPvol {cq(case['v'])} {cq(case['m'])} {clist([cq(x) for x in obs['val']])})"

    def nontrivial(self, case, obs):
        return fr(case["v"]) >= fr(case["m"])

    def kind(self, case, obs):
        if obs.get("err"):
            return "raised:" + obs["exc"]
        return f"steps={min(len(obs['val']), 5)}{'+' if len(obs['val']) > 5 else ''}:" + ("intM" if fr(case["m"]).denominator == 1 else "fracM")

    def oracle_C06(self, case, obs):
        v, m = fr(case["v"]), fr(case["m"])
        if obs.get("err"):
            return [f"helper: partition_volume({v}, max_volume={m}) raised {obs['exc']}"]
        out = [fr(x) for x in obs["val"]]
        bad = []
        if v == 0:
            if out:
                bad.append("count: steps emitted for v = 0")
            return bad
        want = max(1, math.ceil(v / m))
        if len(out) != want:
            bad.append(f"count: {len(out)} steps for v={v}, max_volume={m}; expected {want}")
        if any(not (0 < x <= m) for x in out):
            bad.append(f"bounds: a step outside (0, {m}]: {[str(x) for x in out][:6]}")
        if sum(out) != v:
            bad.append(f"sum: steps add up to {sum(out)} instead of {v}")
        return bad


# =========================================================================== pcol


def rand_triples(rng, n, ties_ok=True):
    rows = rng.choice([2, 4, 8, 26])
    cols = rng.choice([1, 2, 3, 12, 99])
    out = []
    for _ in range(n):
        s = wid(rng.randrange(rows), rng.randrange(cols))
        d = wid(rng.randrange(rows), rng.randrange(cols))
        out.append([s, d, fs(Fraction(rng.randrange(0, 4000), rng.choice([1, 1, 2, 8])))])
    # zero volumes are triples like any other (a whole column of them still forms a group)
    z = rng.random()
    if z < 0.25:
        for t in out:
            if rng.random() < 0.3:
                t[2] = "0"
    elif z < 0.32 and out:
        col = out[0][0][1:]
        for t in out:
            if t[0][1:] == col or t[1][1:] == col:
                t[2] = "0"
    return out


class PcolSuite:
    name = "pcol"
    module = "harness.suites.pcol"
    coq_module = "CheckPure"
    rule = (
        "random triple lists of length 0..40 (rows A..Z, columns 1..99, repeated wells), both modes and invalid mode names; "
        "all permutations of short lists; optimize_partition_by on all trough/plate combinations x mode names; cases where "
        "numpy's default argsort differs from a stable sort (ties in groups > 16) are dropped; "
        "non-trivial = at least two groups and one group with at least two triples"
    )

    def gen(self, tier, seed):
        rng = random.Random(seed + 5)
        cases = []
        n = 1500 if tier == "quick" else 30000
        for i in range(n):
            k = rng.choice([0, 1, 2, 3, 5, 8, 12, 20, 40])
            mode = rng.choice(["source", "destination", "source", "destination", "auto", "src", ""])
            cases.append({"k": "pcol", "mode": mode, "triples": rand_triples(rng, k)})
            if i % 6 == 0:
                # the arguments are typed Iterable: tuples, arrays and one-shot iterators / generators are legal
                cases.append({"k": "pcol", "mode": rng.choice(["source", "destination"]), "triples": rand_triples(rng, max(k, 2)),
                              "argtype": rng.choice(["tuple", "iter", "gen", "array", "map"])})
        base = rand_triples(random.Random(seed + 6), 5)
        for perm in itertools.permutations(base):
            for mode in ("source", "destination"):
                cases.append({"k": "pcol", "mode": mode, "triples": [list(t) for t in perm]})
        for st in (True, False):
            for dt in (True, False):
                for mode in ("auto", "source", "destination", "Source", "dest", "", "automatic"):
                    cases.append({"k": "opt", "src_trough": st, "dst_trough": dt, "mode": mode})
                    if mode in ("auto", "source", "destination"):
                        cases.append({"k": "opt", "src_trough": st, "dst_trough": dt, "mode": mode, "via_labware": True})
                        # a trough is a trough whatever its number of virtual rows; a plate may have a single row
                        cases.append({"k": "opt", "src_trough": st, "dst_trough": dt, "mode": mode, "vrows": 1})
                        cases.append({"k": "opt", "src_trough": st, "dst_trough": dt, "mode": mode, "vrows": 1, "via_labware": True})
                        cases.append({"k": "opt", "src_trough": st, "dst_trough": dt, "mode": mode, "vrows": 8, "prows": 1})
        return cases

    def run(self, case):
        import numpy
        import robotools
        from robotools.worklists.utils import optimize_partition_by, partition_by_column

        if case["k"] == "opt":
            import warnings

            warnings.simplefilter("ignore")
            vr = case.get("vrows", 4)
            if case.get("via_labware"):
                mk = lambda tr, nm: (robotools.Labware(nm, 1, 2, virtual_rows=vr, min_volume=0, max_volume=100) if tr
                                     else robotools.Labware(nm, 4, 2, min_volume=0, max_volume=100))
            else:
                mk = lambda tr, nm: (robotools.Trough(nm, vr, 2, min_volume=0, max_volume=100) if tr
                                     else robotools.Labware(nm, case.get("prows", 4), 2, min_volume=0, max_volume=100))
            try:
                out = optimize_partition_by(mk(case["src_trough"], "s"), mk(case["dst_trough"], "d"), case["mode"], "lbl")
                return {"err": None, "val": out}
            except Exception as e:
                return {"err": errcode(e), "exc": type(e).__name__}
        tr = case["triples"]
        srcs = [t[0] for t in tr]
        dsts = [t[1] for t in tr]
        vols = [to_float(t[2]) for t in tr]
        # tie guard: numpy's default argsort is not stable for groups > 16
        if case["mode"] in ("source", "destination"):
            keyside = srcs if case["mode"] == "source" else dsts
            groups = {}
            for w in keyside:
                groups.setdefault(w[1:], []).append(w)
            for g in groups.values():
                if list(numpy.argsort(g)) != list(numpy.argsort(g, kind="stable")):
                    return {"drop": "argsort-ties"}
        how = case.get("argtype", "list")
        conv = {"list": list, "tuple": tuple, "iter": iter, "gen": lambda x: (y for y in x), "array": numpy.array, "map": lambda x: map(lambda y: y, x)}[how]
        try:
            out = partition_by_column(conv(srcs), conv(dsts), conv(vols), case["mode"])
            return {"err": None, "val": [[[str(s), str(d), fro(v)] for s, d, v in zip(*g)] for g in out]}
        except Exception as e:
            return {"err": errcode(e), "exc": type(e).__name__}

    @staticmethod
    def _triple(t):
        return f"({cstr(t[0])}, {cstr(t[1])}, {cq(t[2])})"

    def emit(self, case, obs):
        if case["k"] == "opt":
            return f"(KOpt {cbool(case['src_trough'])} {cbool(case['dst_trough'])} {cstr(case['mode'])} {cres(obs, cstr)})"
        out = cres(obs, lambda v: clist([clist([self._triple(t) for t in g]) for g in v]))
        return f"(KPcol {cstr(case['mode'])} {clist([self._triple(t) for t in case['triples']])} {out})"

    def nontrivial(self, case, obs):
        if case["k"] == "opt" or obs.get("err"):
            return False
        return len(obs["val"]) >= 2 and any(len(g) >= 2 for g in obs["val"])

    def kind(self, case, obs):
        if obs.get("err"):
            return f"{case['k']}:raised:{obs['exc']}"
        return f"{case['k']}:{case['mode'] if case['k'] == 'opt' else 'ok'}"

    def oracle_C18(self, case, obs):
        bad = []
        if case["k"] == "opt":
            m = case["mode"]
            if m not in ("auto", "source", "destination"):
                return [] if obs.get("err") else [f"mode: invalid mode name {m!r} accepted"]
            if obs.get("err"):
                return [f"mode: valid mode {m!r} raised {obs['exc']}"]
            want = m if m != "auto" else ("destination" if case["src_trough"] and not case["dst_trough"] else "source")
            return [] if obs["val"] == want else [f"auto: chose {obs['val']} expected {want}"]
        m = case["mode"]
        tr = [(t[0], t[1], fr(t[2])) for t in case["triples"]]
        if m not in ("source", "destination"):
            if tr and not obs.get("err"):
                bad.append(f"mode: invalid mode {m!r} accepted")
            return bad
        if obs.get("err"):
            return [f"mode: valid call raised {obs['exc']}"]
        groups = [[(t[0], t[1], fr(t[2])) for t in g] for g in obs["val"]]
        side = 0 if m == "source" else 1
        flat = sorted(t for g in groups for t in g)
        if flat != sorted(tr):
            bad.append("multiset: groups do not contain exactly the input triples")
        keys = []
        for g in groups:
            cols = {t[side][1:] for t in g}
            if len(cols) != 1:
                bad.append(f"column: a group spans columns {sorted(cols)}")
            keys.append(g[0][side][1:] if g else "")
            ids = [t[side] for t in g]
            if ids != sorted(ids):
                bad.append(f"row-order: group not ascending by row: {ids}")
        if keys != sorted(keys) or len(set(keys)) != len(keys):
            bad.append(f"group-order: column keys not strictly ascending: {keys}")
        return bad


# =========================================================================== wells


BAD_IDS = ["A1", "A001", "a01", "AB01", "", "01", "A", "A01 ", " A01", "A0", "A00", "AA", "B-1", "[01", "@01", "A1O"]


class WellsSuite:
    name = "wells"
    module = "harness.suites.wells"
    coq_module = "CheckPure"
    exhaustive = True
    rule = (
        "geometries: plates rows x columns and troughs virtual_rows x columns on a grid (thorough: all rows 1..26 x columns "
        "1..120 plates and 1..26 x 1..24 troughs), every well of each: id table, index map, positions attribute, EVO and "
        "Fluent get_well_position; malformed and out-of-range ids on each geometry; make_well_array/make_well_index_dict; "
        "non-trivial = geometry with more than one row id and more than one column"
    )

    def gen(self, tier, seed):
        cases = []
        if tier == "quick":
            rows = [1, 2, 3, 4, 6, 8, 12, 16, 25, 26]
            cols = [1, 2, 3, 7, 9, 10, 11, 12, 24, 99, 100, 120]
            trows = [1, 2, 4, 8, 26]
            tcols = [1, 2, 3, 10, 24]
        else:
            rows = list(range(1, 27))
            cols = list(range(1, 121))
            trows = list(range(1, 27))
            tcols = list(range(1, 25))
        for r in rows:
            for c in cols:
                cases.append({"k": "geom", "trough": False, "rows": r, "cols": c})
        for r in trows:
            for c in tcols:
                cases.append({"k": "geom", "trough": True, "rows": r, "cols": c})
                if (r + c) % 2 == 0:
                    cases.append({"k": "geom", "trough": True, "rows": r, "cols": c, "via_labware": True})
        rng = random.Random(seed + 1)
        geoms = [(False, 8, 12), (False, 1, 1), (False, 26, 99), (False, 4, 100), (True, 4, 2), (True, 1, 1), (True, 8, 12), (False, 2, 3)]
        for tr, r, c in geoms:
            ids = list(BAD_IDS)
            ids += [wid(r, 0), wid(0, c), wid(r - 1, c), wid(25, 0), f"A{c + 1}", f"{chr(65 + r - 1)}{c:03d}", wid(r - 1, c - 1), "A01"]
            ids += [f"{chr(rng.randrange(33, 127))}{rng.randrange(0, 130):02d}" for _ in range(20)]
            for i in ids:
                cases.append({"k": "bad", "trough": tr, "rows": r, "cols": c, "id": i})
        for r, c in [(1, 1), (2, 3), (8, 12), (16, 24), (26, 99), (27, 2), (30, 1), (3, 100)]:
            cases.append({"k": "arr", "R": r, "C": c})
            cases.append({"k": "arr", "R": r, "C": c, "mutate_first": True})
        return cases

    @staticmethod
    def _mk(case):
        import robotools

        if case["trough"] and case.get("via_labware"):
            import warnings

            with warnings.catch_warnings():
                warnings.simplefilter("ignore")
                return robotools.Labware("T", 1, case["cols"], virtual_rows=case["rows"], min_volume=0, max_volume=10)
        if case["trough"]:
            return robotools.Trough("T", case["rows"], case["cols"], min_volume=0, max_volume=10)
        return robotools.Labware("P", case["rows"], case["cols"], min_volume=0, max_volume=10)

    def run(self, case):
        import robotools
        from robotools import transform
        from robotools.evotools.utils import get_well_position as evo_pos
        from robotools.fluenttools.utils import get_well_position as fl_pos

        if case["k"] == "arr":
            if case.get("mutate_first"):
                a0 = transform.make_well_array(case["R"], case["C"])
                d0 = transform.make_well_index_dict(case["R"], case["C"])
                if a0.size:
                    a0[...] = "Z99"
                for k_ in list(d0):
                    d0[k_] = (99, 99)
                d0["junk"] = (0, 0)
            arr = transform.make_well_array(case["R"], case["C"])
            d = transform.make_well_index_dict(case["R"], case["C"])
            return {"wells": [[str(x) for x in row] for row in arr], "keys": [[k, list(v)] for k, v in d.items()]}
        try:
            lw = self._mk(case)
        except Exception as e:
            return {"ctor_error": type(e).__name__}

        def call(f, w):
            try:
                return {"err": None, "val": int(f(lw, w))}
            except Exception as e:
                return {"err": errcode(e), "exc": type(e).__name__}

        if case["k"] == "bad":
            w = case["id"]
            idx = lw.indices.get(w)
            # operations naming this id: must raise without emitting a record iff the id is unknown
            ops = {}
            for dev, cls in (("evo", robotools.EvoWorklist), ("fluent", robotools.FluentWorklist)):
                for opn in ("aspirate", "dispense", "transfer_src", "transfer_dst", "transfer_bcast_dst", "transfer_bcast_src",
                            "aspirate_second", "distribute", "distribute_second", "aspirate_zero", "dispense_zero"):
                    wl = cls()
                    lw2 = self._mk(case)
                    other = robotools.Labware("O", 2, 2, min_volume=0, max_volume=1000, initial_volumes=100)
                    tr = robotools.Trough("R", 2, 1, min_volume=0, max_volume=1000, initial_volumes=500)
                    try:
                        if opn == "aspirate":
                            lw2._volumes[:] = 5
                            wl.aspirate(lw2, [w], 1)
                        elif opn == "dispense":
                            wl.dispense(lw2, [w], 1)
                        elif opn == "transfer_src":
                            lw2._volumes[:] = 5
                            wl.transfer(lw2, [w], other, ["A01"], 1)
                        elif opn == "transfer_dst":
                            wl.transfer(other, ["A01"], lw2, [w], 1)
                        elif opn == "transfer_bcast_dst":  # one source, several destinations, the unknown id not first
                            wl.transfer(other, "A01", lw2, ["A01", w], 1)
                        elif opn == "transfer_bcast_src":  # several sources, one destination
                            lw2._volumes[:] = 5
                            wl.transfer(lw2, ["A01", w], other, "B02", 1)
                        elif opn == "aspirate_second":
                            lw2._volumes[:] = 5
                            wl.aspirate(lw2, ["A01", w], 1)
                        elif opn == "aspirate_zero":  # the unknown id carries a zero volume
                            lw2._volumes[:] = 5
                            wl.aspirate(lw2, ["A01", w], [1, 0])
                        elif opn == "dispense_zero":
                            wl.dispense(lw2, [w, "A01"], [0, 1])
                        elif opn == "distribute_second":
                            wl.distribute(tr, 0, lw2, ["A01", w], volume=1)
                        else:
                            wl.distribute(tr, 0, lw2, [w], volume=1)
                        ops[f"{dev}.{opn}"] = {"raised": None, "recs": len(wl)}
                    except Exception as e:
                        ops[f"{dev}.{opn}"] = {"raised": type(e).__name__, "recs": len(wl)}
            return {"idx": list(idx) if idx is not None else None, "evo": call(evo_pos, w), "fluent": call(fl_pos, w), "ops": ops}
        tbl = []
        wells = [[str(x) for x in row] for row in lw.wells]
        import warnings

        with warnings.catch_warnings():
            warnings.simplefilter("ignore")
            positions = lw.positions
        raised = []
        for row in wells:
            for w in row:
                r, c = lw.indices[w]
                pe, pf = call(evo_pos, w), call(fl_pos, w)
                for dev, o in (("evo", pe), ("fluent", pf)):
                    if o["err"]:
                        raised.append(f"{dev}: get_well_position raised {o['exc']} for the valid id {w}")
                tbl.append([w, int(r), int(c), int(positions.get(w, -1)), pe["val"] if not pe["err"] else -1, pf["val"] if not pf["err"] else -1])
        return {"wells": wells, "tbl": tbl, "raised": raised[:5], "n_rows": lw.n_rows, "n_columns": lw.n_columns, "shape": list(lw.shape),
                "nkeys": len(lw.indices), "npos": len(positions), "vshape": list(lw.volumes.shape)}

    def emit(self, case, obs):
        if case["k"] == "arr":
            return (f"(KWellArr {case['R']} {case['C']} {clist([clist([cstr(w) for w in row]) for row in obs['wells']])} "
                    f"{clist(['(%s, (%d, %d))' % (cstr(k), v[0], v[1]) for k, v in obs['keys']])})")
        tr = cbool(case["trough"])
        if obs.get("ctor_error"):
            return f"(KGeom {tr} {case['rows']} {case['cols']} [] [])"  # never equal to the model's tables of a valid geometry
        if case["k"] == "bad":
            idx = copt(obs["idx"], lambda v: f"({v[0]}, {v[1]})")
            return (f"(KBadId {tr} {case['rows']} {case['cols']} {cstr(case['id'])} {idx} "
                    f"{cres(obs['evo'], cz)} {cres(obs['fluent'], cz)})")
        wells = clist([clist([cstr(w) for w in row]) for row in obs["wells"]])
        tbl = clist(["(%s, (%d, %d), %d, %d, %d)" % (cstr(t[0]), t[1], t[2], t[3], t[4], t[5]) for t in obs["tbl"]])
        return f"(KGeom {tr} {case['rows']} {case['cols']} {wells} {tbl})"

    def nontrivial(self, case, obs):
        return case["k"] == "geom" and case["rows"] > 1 and case["cols"] > 1 and not obs.get("ctor_error")

    def kind(self, case, obs):
        if case["k"] == "geom":
            return "geom:" + ("trough" if case["trough"] else "plate")
        return case["k"]

    def oracle_C08(self, case, obs):
        bad = []
        if obs.get("ctor_error"):
            return [f"geometry: a valid geometry ({case['rows']} {'virtual ' if case['trough'] else ''}rows x {case['cols']} columns) was refused with {obs['ctor_error']}: no mapping exists for it"]
        if case["k"] == "arr":
            R, C = min(case["R"], 26), case["C"]
            want = [[wid(r, c) for c in range(C)] for r in range(R)]
            if obs["wells"] != want:
                bad.append("helpers: make_well_array differs from the closed form")
            if {k: tuple(v) for k, v in obs["keys"]} != {wid(r, c): (r, c) for r in range(R) for c in range(C)}:
                bad.append("helpers: make_well_index_dict differs from the closed form")
            return bad
        R, C, tr = case["rows"], case["cols"], case["trough"]
        if case["k"] == "bad":
            w = case["id"]
            valid = len(w) >= 3 and w[0].isalpha() and w[0].isupper() and w[0].isascii() and w[1:].isdigit() and w[1:].isascii() \
                and (ord(w[0]) - 65) < R and 1 <= int(w[1:]) <= C and w == wid(ord(w[0]) - 65, int(w[1:]) - 1)
            if valid != (obs["idx"] is not None):
                bad.append(f"indices: membership of {w!r} in indices is {obs['idx'] is not None}")
            if not valid:
                # id <-> position is a bijection on the labware's wells: an id that is not a well has no position
                # (only ids that denote a cell OUTSIDE the grid are judged: a lenient spelling of an existing well, like
                # 'A1' for 'A01', is not a statement about the numbering)
                m = re.fullmatch(r"([A-Z])(\d+)", w) if w.isascii() else None
                outside = m is not None and (ord(m.group(1)) - 65 >= R or not (1 <= int(m.group(2)) <= C))
                col_outside = m is not None and not (1 <= int(m.group(2)) <= C)
                for dev in ("evo", "fluent"):
                    # the Fluent numbering of a trough is 1 + column index "whatever virtual row is named"
                    if (col_outside if (dev == "fluent" and tr) else outside) and not obs[dev].get("err"):
                        bad.append(f"helper: {dev} get_well_position returned {obs[dev]['val']} for {w!r}, which lies outside the {R}x{C} grid")
                for name, o in obs["ops"].items():
                    if o["raised"] is None:
                        bad.append(f"unknown-id: {name} with unknown id {w!r} did not raise")
                    elif o["recs"] != 0:
                        bad.append(f"unknown-id: {name} with unknown id {w!r} raised {o['raised']} but left {o['recs']} record(s)")
            return bad[:4]
        nids = R
        bad += list(obs.get("raised", []))
        want_wells = [[wid(r, c) for c in range(C)] for r in range(nids)]
        if obs["wells"] != want_wells:
            bad.append("tables: wells differs from the closed form")
        if obs["n_rows"] != nids or obs["n_columns"] != C or obs["shape"] != [nids, C]:
            bad.append("tables: n_rows/n_columns/shape inconsistent")
        if obs["nkeys"] != nids * C or obs["npos"] != nids * C:
            bad.append("tables: indices/positions do not have one entry per id")
        if obs["vshape"] != ([1, C] if tr else [R, C]):
            bad.append("tables: volume array shape")
        seen_e, seen_f = set(), set()
        for w, r, c, pa, pe, pf in obs["tbl"]:
            rr, cc = ord(w[0]) - 65, int(w[1:]) - 1
            if (r, c) != ((0, cc) if tr else (rr, cc)):
                bad.append(f"indices: {w} -> {(r, c)}")
            if pe != 1 + cc * R + rr or pa != pe:
                bad.append(f"evo: {w} -> {pe} (positions attribute {pa}), expected {1 + cc * R + rr}")
            wantf = 1 + cc if tr else 1 + cc * R + rr
            if pf != wantf:
                bad.append(f"fluent: {w} -> {pf}, expected {wantf}")
            seen_e.add(pe)
            seen_f.add(pf)
            if len(bad) > 3:
                break
        if not bad:
            if seen_e != set(range(1, R * C + 1)):
                bad.append("bijection: EVO positions are not a bijection onto 1..R*C")
            if seen_f != (set(range(1, C + 1)) if tr else set(range(1, R * C + 1))):
                bad.append("bijection: Fluent positions are not onto the expected range")
        return bad


# =========================================================================== ctor


def ctor_specs(rng, tier):
    specs = []
    # valid and invalid plates
    sizes = [1, 2, 3, 8, 16, 26, 27, 40, 0, -1, {"notint": "float:2.0"}, {"notint": "float:2.5"}, {"notint": "none"}, {"notint": "str:3"}]
    n = 600 if tier == "quick" else 12000
    for _ in range(n):
        good = rng.random() < 0.55
        rows = rng.choice(sizes if rng.random() < 0.3 and not good else [1, 2, 3, 4, 8])
        cols = rng.choice(sizes + [99, 120] if rng.random() < 0.3 and not good else [1, 2, 3, 5, 12])
        mn = rng.choice(["0", "0", "5", "5/2"] if good else ["0", "0", "5", "5/2", "-1", "nan", "100"])
        mx = rng.choice(["100", "250", "10000", "25/2"] if good else ["100", "250", "10000", "25/2", "0", "5", "nan"])
        r_ok = rows if isinstance(rows, int) and 0 < rows <= 40 else 2
        c_ok = cols if isinstance(cols, int) and 0 < cols <= 120 else 2
        mxv = Fraction(mx) if mx != "nan" else Fraction(100)
        mode = rng.choice(["none", "scalar", "list", "2d"] if good else ["none", "scalar", "list", "2d", "badlist", "bad2d", "nan", "neg", "big", "inf"])

        def val():
            if rng.random() < 0.06:
                return rng.choice(["1/1073741824", "1/1099511627776", "1/1024"])
            return fs(Fraction(rng.randrange(0, int(max(1, mxv)) * 8 + 1), 8)) if rng.random() < 0.7 else "0"

        if r_ok * c_ok > 300:
            mode = rng.choice(["none", "scalar"])
        if mode == "none":
            init = None
        elif mode == "scalar":
            init = {"shape": "scalar", "v": val()}
        elif mode == "list":
            init = {"shape": "list", "v": [val() for _ in range(r_ok * c_ok)]}
        elif mode == "2d":
            init = {"shape": "2d", "v": [[val() for _ in range(c_ok)] for _ in range(r_ok)]}
        elif mode == "badlist":
            init = {"shape": "list", "v": [val() for _ in range(r_ok * c_ok + rng.choice([-1, 1, 2]))]}
            if not init["v"]:
                init["v"] = ["1", "2", "3"]
        elif mode == "bad2d":
            init = {"shape": "2d", "v": [[val() for _ in range(c_ok + 1)] for _ in range(r_ok)]}
        else:
            v = [val() for _ in range(r_ok * c_ok)]
            v[rng.randrange(len(v))] = {"nan": "nan", "neg": "-1/8", "big": fs(mxv + Fraction(1, 8)), "inf": "inf"}[mode]
            init = {"shape": "list", "v": v}
        spec = {"kind": "plate", "name": rng.choice(["P", "plate 1", "µP"]), "rows": rows, "cols": cols, "min": mn, "max": mx, "init": init}
        if rng.random() < (0.08 if good else 0.25):
            spec["vrows"] = rng.choice([1, 4, 8, 26, 27, 30, 0, -2, {"notint": "float:2.5"}, {"notint": "float:2.0"}])
        if rng.random() < 0.35:
            nm = {}
            if good and init is not None:
                flat = [init["v"]] * (r_ok * c_ok) if init["shape"] == "scalar" else (init["v"] if init["shape"] == "list" else [x for row in init["v"] for x in row])
                for _ in range(rng.choice([1, 2, 3])):
                    rr, cc = rng.randrange(r_ok), rng.randrange(c_ok)
                    if Fraction(flat[rr * c_ok + cc]) > 0:
                        nm[wid(rr, cc)] = rng.choice(["glc", "water", None])
                    else:
                        nm[wid(rr, cc)] = None
            else:
                for _ in range(rng.choice([1, 2, 3])):
                    nm[wid(rng.randrange(r_ok + 1), rng.randrange(c_ok + 1))] = rng.choice(["glc", "water", None])
            spec["names"] = nm
        specs.append(spec)
    for _ in range(n // 2):
        good = rng.random() < 0.55
        cols = rng.choice([1, 2, 3, 4, 12, 24] if good else [1, 2, 3, 4, 12, 24, 0, -1, {"notint": "float:2.0"}, {"notint": "float:2.5"}])
        vrows = rng.choice([1, 2, 4, 8, 26] if good else [1, 2, 4, 8, 26, 27, 30, 0, -1, {"notint": "float:2.5"}, {"notint": "none"}])
        c_ok = cols if isinstance(cols, int) and cols > 0 else 2
        mx = rng.choice(["1000", "10000", "25/2"] if good else ["1000", "10000", "25/2", "nan"])
        mxv = Fraction(mx) if mx != "nan" else Fraction(100)
        mode = rng.choice(["none", "scalar", "list", "list"] if good else ["none", "scalar", "list", "list", "badlist", "2d", "nan", "neg", "big"])

        def val():
            if rng.random() < 0.06:
                return rng.choice(["1/1073741824", "1/1099511627776", "1/1024"])
            return fs(Fraction(rng.randrange(0, int(mxv) * 8 + 1), 8)) if rng.random() < 0.7 else "0"

        if mode == "none":
            init = None
        elif mode == "scalar":
            init = {"shape": "scalar", "v": val()}
        elif mode == "list":
            init = {"shape": "list", "v": [val() for _ in range(c_ok)]}
        elif mode == "badlist":
            init = {"shape": "list", "v": [val() for _ in range(c_ok + rng.choice([1, 2]))]}
        elif mode == "2d":
            init = {"shape": "2d", "v": [[val() for _ in range(c_ok)]]}
        else:
            v = [val() for _ in range(c_ok)]
            v[rng.randrange(len(v))] = {"nan": "nan", "neg": "-1/8", "big": fs(mxv + Fraction(1, 8))}[mode]
            init = {"shape": "list", "v": v}
        spec = {"kind": "trough", "name": rng.choice(["T", "water", "stock µ"]), "vrows": vrows, "cols": cols,
                "min": rng.choice(["0", "0", "5"] if good else ["0", "0", "100", "-5", "nan"]), "max": mx, "init": init}
        r = rng.random()
        if good:
            r = r * 0.3 if r < 0.5 else 1.0
        if r < 0.3:
            if good and init is not None and init["shape"] != "2d":
                flat = [init["v"]] * c_ok if init["shape"] == "scalar" else init["v"]
                spec["column_names"] = [rng.choice(["a", "b", None]) if Fraction(v) > 0 else None for v in flat]
            elif good:
                spec["column_names"] = [None] * c_ok
            else:
                spec["column_names"] = [rng.choice(["a", "b", None]) for _ in range(c_ok)]
        elif r < 0.4:
            spec["column_names"] = "single"
        elif r < 0.5:
            spec["column_names"] = [rng.choice(["a", None]) for _ in range(c_ok + 1)] if rng.random() < 0.7 else []
        specs.append(spec)
    specs.append({"kind": "trough", "name": "T", "vrows": {"notint": "none"}, "cols": 2, "min": "0", "max": "100", "init": None})
    # initial volumes in a narrow float type, one of them above a max_volume that the narrow type cannot tell from it
    specs.append({"kind": "plate", "name": "P", "rows": 1, "cols": 2, "min": "0", "max": "104857599/1048576", "init": {"shape": "list", "v": ["100", "5"]}, "init_dtype": "float32"})
    specs.append({"kind": "plate", "name": "P", "rows": 1, "cols": 2, "min": "0", "max": "4003/4", "init": {"shape": "list", "v": ["1001", "5"]}, "init_dtype": "float16"})
    specs.append({"kind": "trough", "name": "T", "vrows": 4, "cols": 2, "min": "0", "max": "104857599/1048576", "init": {"shape": "list", "v": ["5", "100"]}, "init_dtype": "float32"})
    specs.append({"kind": "plate", "name": "P", "rows": 1, "cols": 2, "min": "0", "max": "100", "init": {"shape": "list", "v": ["100", "5"]}, "init_dtype": "float32"})
    # per-column initial volumes of the wrong length, the one-element list included (only a scalar is broadcast)
    for cols_ in (2, 3, 4):
        for n_ in (1, cols_ - 1, cols_ + 1):
            specs.append({"kind": "trough", "name": "T", "vrows": 4, "cols": cols_, "min": "0", "max": "1000", "init": {"shape": "list", "v": ["100"] * n_}})
            specs.append({"kind": "trough", "name": "T", "vrows": 2, "cols": cols_, "min": "0", "max": "1000", "init": {"shape": "list", "v": ["50"] * n_}, "via_labware": True})
    # otherwise valid troughs whose per-column name list has the wrong length, the empty list included
    for cols_ in (1, 2, 3):
        for cn in ([], [None] * (cols_ + 1), ["a"] * (cols_ - 1) if cols_ > 1 else ["a", "b"]):
            specs.append({"kind": "trough", "name": "T", "vrows": 4, "cols": cols_, "min": "0", "max": "1000",
                          "init": {"shape": "scalar", "v": "100"}, "column_names": list(cn)})
    return specs


class CtorSuite:
    name = "ctor"
    module = "harness.suites.ctor"
    coq_module = "CheckPure"
    rule = (
        "random Labware(...) and Trough(...) specifications: sizes valid / 0 / negative / > 26 / non-integer, limits incl. NaN, "
        "initial volumes as none / scalar / flat list / 2-D / wrong size / NaN / negative / above max / inf, virtual_rows on "
        "plates, component and column names incl. names for empty or unknown wells; non-trivial = accepted specification with "
        "at least two wells and a non-empty well"
    )

    def gen(self, tier, seed):
        rng = random.Random(seed + 3)
        return [{"spec": s} for s in ctor_specs(rng, tier)]

    def run(self, case):
        import warnings

        warnings.simplefilter("ignore")
        try:
            if case["spec"].get("init_dtype"):
                import numpy

                arr0 = numpy.array(np_arg(case["spec"]["init"], to_float), dtype=float)
                narrow = arr0.astype(case["spec"]["init_dtype"])
                if not (narrow.astype(float) == arr0).all():
                    raise CaseError("initial volumes not representable in " + case["spec"]["init_dtype"])
                lw = progbase.build_labware(case["spec"], shared=narrow)
            else:
                lw = progbase.build_labware(case["spec"])
        except CaseError:
            raise
        except Exception as e:
            return {"err": errcode(e), "exc": type(e).__name__}
        vols = progbase.vols_obs(lw)
        # the labware owns its state: built from a float64 ndarray, it neither aliases the caller's array nor a sibling built from it
        independent = None
        init = case["spec"].get("init")
        if init is not None and init["shape"] != "scalar":
            import numpy

            try:
                arr = numpy.array(np_arg(init, to_float), dtype=float)
                a = progbase.build_labware(case["spec"], shared=arr)
                b = progbase.build_labware(case["spec"], shared=arr)
                before = progbase.vols_obs(a)
                arr += 1.0
                w0 = str(b.wells[0][0])
                room = float(b.max_volume) - float(b.volumes.flatten()[0])
                if room >= 0.5:
                    b.add(w0, 0.5)
                independent = (progbase.vols_obs(a) == before and progbase.vols_obs(a) == vols
                               and [fro(x) for x in a.history[0][1].flatten().tolist()] == vols and len(a.history) == 1)
            except Exception as e:
                independent = f"raised {type(e).__name__}"
        # the default component name belongs to the well: it does not depend on which OTHER wells happen to be filled
        names_stable = None
        spec0 = case["spec"]
        if init is not None and init["shape"] != "scalar" and not spec0.get("names") and not spec0.get("column_names") and not spec0.get("init_dtype"):
            try:
                flat = init["v"] if init["shape"] == "list" else [x for row in init["v"] for x in row]
                if len(flat) >= 2 and any(Fraction(x) > 0 for x in flat) and any(Fraction(x) == 0 for x in flat):
                    fill = "1/1024"
                    full = {"shape": init["shape"], "v": ([x if Fraction(x) > 0 else fill for x in init["v"]] if init["shape"] == "list"
                                                          else [[x if Fraction(x) > 0 else fill for x in row] for row in init["v"]])}
                    lwf = progbase.build_labware(dict(spec0, init=full))
                    cf = progbase.comp_obs(lwf)
                    c0 = progbase.comp_obs(lw)
                    name_of = lambda comp: {j: nm for nm, ent in (comp or {}).items() for j, f in ent if f == 1.0}
                    n0, nf = name_of(c0), name_of(cf)
                    names_stable = all(nf.get(j) == nm for j, nm in n0.items())
            except Exception as e:
                names_stable = None
        return {
            "err": None,
            "names_stable": names_stable,
            "independent": independent,
            "wells": [[str(x) for x in row] for row in lw.wells],
            "keys": [[k, [int(v[0]), int(v[1])]] for k, v in lw.indices.items()],
            "vshape": list(lw._volumes.shape),
            "min": fro(lw.min_volume), "max": fro(lw.max_volume),
            "vols": vols,
            "hist": [[lab, [fro(x) for x in arr.flatten().tolist()]] for lab, arr in lw.history],
            "comp": progbase.comp_obs(lw),
            "is_trough": bool(lw.is_trough), "n_rows": lw.n_rows, "n_columns": lw.n_columns,
            "vrows": lw.virtual_rows,
        }

    def emit(self, case, obs):
        spec = progbase.e_lwspec(case["spec"])
        if obs.get("err"):
            return f"(KCtor {spec} (Err {obs['err']}))"
        den, nums = progbase.e_vols(obs["vols"])
        hist = clist(["(%s, (%d, %s))" % ((copt(lab, cstr),) + progbase.e_vols(vs)) for lab, vs in obs["hist"]])
        o = ("{| co_wells := %s; co_keys := %s; co_shape_vol := (%d, %d); co_min := %s; co_max := %s; co_vols := (%d, %s); "
             "co_hist := %s; co_comp := %s; co_is_trough := %s; co_nrows := %d; co_ncols := %d |}"
             % (clist([clist([cstr(w) for w in row]) for row in obs["wells"]]),
                clist(["(%s, (%d, %d))" % (cstr(k), v[0], v[1]) for k, v in obs["keys"]]),
                obs["vshape"][0], obs["vshape"][1], cq(progbase._fr(obs["min"])), cq(progbase._fr(obs["max"])), den, nums, hist,
                progbase.e_compobs(obs["comp"]), cbool(obs["is_trough"]), obs["n_rows"], obs["n_columns"]))
        return f"(KCtor {spec} (Ok {o}))"

    def nontrivial(self, case, obs):
        return not obs.get("err") and len(obs["vols"]) >= 2 and any(v not in ("nan", "inf", "-inf") and Fraction(v) > 0 for v in obs["vols"])

    def kind(self, case, obs):
        return case["spec"]["kind"] + ":" + (obs.get("exc") or "ok")

    def oracle_C05(self, case, obs):
        if not obs.get("err") and obs.get("names_stable") is False:
            return ["naming: the default component name of a filled well changes when other (empty) wells of the labware are filled too"]
        return []

    def oracle_C02(self, case, obs):
        """no accepted labware starts with a well outside [0, max_volume]"""
        if obs.get("err"):
            return []
        bad = []
        mx = obs["max"]
        for j, v in enumerate(obs["vols"]):
            if v in ("nan", "inf", "-inf"):
                bad.append(f"finite: accepted labware starts with a non-finite volume in well {j}")
            elif Fraction(v) < 0:
                bad.append(f"negative: accepted labware starts with {v} in well {j}")
            elif mx not in ("nan", "inf", "-inf") and Fraction(v) > Fraction(mx):
                bad.append(f"max: accepted labware starts with {v} in well {j}, above max_volume {mx}")
        return bad[:3]

    def oracle_C20(self, case, obs):
        if not obs.get("err") and obs.get("independent") not in (None, True):
            return ["history: the labware shares state with the array it was built from (or with a sibling built from the same array): "
                    f"after the caller changed the array / the sibling was pipetted, volumes or the initial history entry changed ({obs['independent']})"]
        return self._oracle_C20(case, obs)

    def _oracle_C20(self, case, obs):
        s = case["spec"]
        bad = []
        plate = s["kind"] == "plate"

        def isint(x):
            return isinstance(x, int) and not isinstance(x, bool)

        def num(x):
            return None if x in ("nan", "inf", "-inf", None) else Fraction(x)

        rows = s["rows"] if plate else 1
        cols = s["cols"]
        vrows = s.get("vrows")
        must = []  # reasons why the specification is unrepresentable
        if not isint(rows) or rows < 1:
            must.append("rows")
        elif rows > 26:
            must.append("rows>26")
        if not isint(cols) or cols < 1:
            must.append("cols")
        if vrows is not None:
            if not isint(vrows) or vrows < 1:
                must.append("virtual_rows")
            elif vrows > 26:
                must.append("virtual_rows>26")
            if plate and isint(rows) and rows != 1:
                must.append("virtual rows on multi-row labware")
        mn, mx = num(s["min"]), num(s["max"])
        if s["min"] in ("nan",) or s["max"] in ("nan",) or mn is None or mx is None or mn < 0 or not (mn < mx):
            must.append("limits")
        init = s.get("init")
        flat = None
        if not must or must == ["limits"]:
            n = (rows if plate else 1) * cols if isint(rows) and isint(cols) else None
            if init is None:
                flat = ["0"] * n
            elif init["shape"] == "scalar":
                flat = [init["v"]] * n
            elif init["shape"] == "list":
                flat = list(init["v"])
            else:
                flat = [x for row in init["v"] for x in row]
                if not plate:
                    must.append("2-D initial volumes for a trough")
            if len(flat) != n:
                must.append("wrong number of initial volumes")
            elif any(v in ("nan", "inf", "-inf") for v in flat):
                must.append("non-finite initial volume")
            elif any(Fraction(v) < 0 for v in flat):
                must.append("negative initial volume")
            elif mx is not None and any(Fraction(v) > mx for v in flat):
                must.append("initial volume above max_volume")
        names_problem = False
        if not must and flat is not None:
            if plate:
                for k, v in (s.get("names") or {}).items():
                    ok = len(k) == 3 and 0 <= ord(k[0]) - 65 < rows and k[1:].isdigit() and 1 <= int(k[1:]) <= cols
                    if not ok:
                        names_problem = True
                    elif v is not None and Fraction(flat[(ord(k[0]) - 65) * cols + int(k[1:]) - 1]) == 0:
                        names_problem = True
            else:
                cn = s.get("column_names")
                if cn is not None:
                    cl = [cn] if isinstance(cn, str) else cn
                    if len(cl) != cols:
                        names_problem = True
                    elif any(nm is not None and Fraction(v) == 0 for nm, v in zip(cl, flat)):
                        names_problem = True
            if names_problem:
                must.append("names")
        if must:
            if not obs.get("err"):
                bad.append(f"reject: unrepresentable specification accepted ({must[0]})")
            elif obs["exc"] != "ValueError":
                bad.append(f"valueerror: unrepresentable specification ({must[0]}) raised {obs['exc']} instead of ValueError")
            return bad
        if obs.get("err"):
            return [f"accept: valid specification raised {obs['exc']}"]
        # WF predicate on the constructed object
        nids = vrows if vrows is not None else rows
        if not plate:
            nids = s["vrows"]
        want_wells = [[wid(r, c) for c in range(cols)] for r in range(nids)]
        if obs["wells"] != want_wells:
            bad.append("grid: well-id array does not describe rows x columns")
        real_rows = 1 if (not plate or vrows is not None) else rows
        if obs["vshape"] != [real_rows, cols]:
            bad.append(f"grid: volume array has shape {obs['vshape']}")
        km = {k: tuple(v) for k, v in obs["keys"]}
        want_km = {wid(r, c): ((0, c) if real_rows == 1 and nids != real_rows or (not plate) or vrows is not None else (r, c)) for r in range(nids) for c in range(cols)}
        if km != want_km:
            bad.append("grid: index map does not describe the same grid")
        if [Fraction(v) for v in obs["vols"]] != [Fraction(v) for v in flat]:
            bad.append("layout: initial volumes are not laid out as given")
        if not (0 <= Fraction(obs["min"]) < Fraction(obs["max"])):
            bad.append("limits: 0 <= min_volume < max_volume violated")
        if len(obs["hist"]) != 1 or obs["hist"][0][0] != "initial" or [Fraction(v) for v in obs["hist"][0][1]] != [Fraction(v) for v in flat]:
            bad.append("history: not exactly the initial state")
        comp = obs["comp"]
        for i, v in enumerate(flat):
            present = [(k, f) for k, ent in comp.items() for j, f in ent if j == i]
            if Fraction(v) > 0:
                if len(present) != 1 or present[0][1] != 1:
                    bad.append(f"composition: non-empty well {i} does not have exactly one 100 % component")
                    break
            elif present:
                bad.append(f"composition: empty well {i} has a component")
                break
        return bad


# =========================================================================== sel


def decode_selection(s):
    """EVOware rule, written from the manual's description (independent of the encoder)."""
    cols, rows = int(s[0:2], 16), int(s[2:4], 16)
    bits = []
    for ch in s[4:]:
        v = ord(ch) - 48
        if not 0 <= v < 128:
            return None
        bits += [(v >> k) & 1 for k in range(7)]
    n = rows * cols
    # exactly ceil(n / 7) payload characters: EVOware reads a fixed-length string for the geometry named in the header
    if len(s) - 4 != -(-n // 7) or len(bits) < n or any(bits[n:]):
        return None
    sel = [[bits[c * rows + r] for c in range(cols)] for r in range(rows)]
    return rows, cols, sel, len(s)


class SelSuite:
    name = "sel"
    module = "harness.suites.sel"
    coq_module = "CheckPure"
    exhaustive = True
    rule = (
        "every geometry with rows*cols <= N x every subset of wells (N = 9 quick, 14 thorough); all single-well and full "
        "selections of rows 1..26 x cols 1..48; random subsets of larger geometries incl. dimensions up to 255; "
        "evo_make_selection_array on well lists; to_hex 0..4100; non-trivial = at least 8 wells (more than one payload character) "
        "and a non-empty proper subset"
    )

    def gen(self, tier, seed):
        rng = random.Random(seed + 9)
        cases = []
        N = 9 if tier == "quick" else 14
        for r in range(1, N + 1):
            for c in range(1, N // r + 1):
                n = r * c
                for m in range(1 << n):
                    cases.append({"k": "sel", "rows": r, "cols": c, "bits": m})
        step_r = range(1, 27) if tier == "thorough" else [1, 2, 7, 8, 16, 26]
        step_c = range(1, 49) if tier == "thorough" else [1, 2, 7, 12, 24, 48]
        for r in step_r:
            for c in step_c:
                n = r * c
                cases.append({"k": "sel", "rows": r, "cols": c, "bits": 0})
                cases.append({"k": "sel", "rows": r, "cols": c, "bits": (1 << n) - 1})
                for i in ({0, n - 1, n // 2, 6, 7} if tier == "quick" else range(n)):
                    if 0 <= i < n:
                        cases.append({"k": "sel", "rows": r, "cols": c, "bits": 1 << i})
        for _ in range(400 if tier == "quick" else 20000):
            r, c = rng.randrange(1, 27), rng.randrange(1, 49)
            if rng.random() < 0.1:
                r, c = rng.randrange(1, 256), rng.randrange(1, 12)
            cases.append({"k": "sel", "rows": r, "cols": c, "bits": rng.getrandbits(r * c)})
        for _ in range(200 if tier == "quick" else 3000):
            r, c = rng.randrange(1, 27), rng.randrange(1, 25)
            k = rng.randrange(0, min(9, r * c + 1))
            ws = [wid(rng.randrange(r), rng.randrange(c)) for _ in range(k)]
            shape = rng.choice(["list", "scalar", "2d"])
            if shape == "scalar" and k >= 1:
                a = {"shape": "scalar", "v": ws[0]}
            elif shape == "2d" and k >= 2 and k % 2 == 0:
                a = {"shape": "2d", "v": [ws[: k // 2], ws[k // 2:]]}
            else:
                a = {"shape": "list", "v": ws}
            if rng.random() < 0.1 and a["shape"] == "list":
                a["v"] = a["v"] + [rng.choice([wid(r, 0), wid(0, c), "A1", "x"])]
            cases.append({"k": "arr", "rows": r, "cols": c, "wells": a})
        # the last row letter and the last column of the extreme geometries
        for r, c in ((26, 1), (26, 12), (25, 3), (1, 24), (16, 24), (26, 24)):
            for ws in ([wid(r - 1, 0)], [wid(r - 1, c - 1), wid(0, 0)], [wid(r - 1, c - 1), wid(max(0, r - 2), c - 1), wid(0, c - 1)]):
                cases.append({"k": "arr", "rows": r, "cols": c, "wells": {"shape": "list", "v": ws}})
        for n in list(range(0, 300)) + [4095, 4096, 65535, 1 << 20]:
            cases.append({"k": "hex", "n": n})
        return cases

    @staticmethod
    def _sel(case):
        r, c, m = case["rows"], case["cols"], case["bits"]
        # bit i of m <-> well (row i % r, column i // r)  (column-major)
        return [[(m >> (cc * r + rr)) & 1 for cc in range(c)] for rr in range(r)]

    def run(self, case):
        import numpy
        from robotools.evotools import commands
        from robotools.evotools.utils import to_hex

        if case["k"] == "hex":
            return {"val": to_hex(case["n"])}
        if case["k"] == "arr":
            try:
                a = commands.evo_make_selection_array(case["rows"], case["cols"], np_arg(case["wells"]))
                return {"err": None, "val": [int(x) for x in a.flatten("F")], "shape": list(a.shape)}
            except Exception as e:
                return {"err": errcode(e), "exc": type(e).__name__}
        sel = numpy.array(self._sel(case))
        s = commands.evo_get_selection(case["rows"], case["cols"], sel)
        return {"val": s}

    def emit(self, case, obs):
        if case["k"] == "hex":
            return f"(KHex {case['n']} {cstr(obs['val'])})"
        if case["k"] == "arr":
            out = "None" if obs.get("err") else "(Some %s)" % clist([cbool(x) for x in obs["val"]])
            return f"(KSelArr {case['rows']} {case['cols']} {carr(case['wells'], cstr)} {out})"
        r, c, m = case["rows"], case["cols"], case["bits"]
        n = r * c
        if n > 14 and m == (1 << n) - 1:
            return f"(KSelAll {r} {c} {cstr(obs['val'])})"
        if n > 14 and m and m & (m - 1) == 0:
            return f"(KSelOne {r} {c} {m.bit_length() - 1} {cstr(obs['val'])})"
        bits = clist([cbool((m >> i) & 1) for i in range(n)])
        return f"(KSel {r} {c} {bits} {cstr(obs['val'])})"

    def nontrivial(self, case, obs):
        if case["k"] != "sel":
            return False
        n = case["rows"] * case["cols"]
        return n >= 8 and 0 < case["bits"] < (1 << n) - 1

    def kind(self, case, obs):
        if case["k"] == "sel":
            n = case["rows"] * case["cols"]
            return "sel:" + ("<=14" if n <= 14 else "large")
        return case["k"] + (":raised" if obs.get("err") else "")

    def oracle_C12(self, case, obs):
        if case["k"] == "hex":
            return [] if obs["val"] == ("%X" % case["n"]) else [f"hex: to_hex({case['n']}) = {obs['val']}"]
        if case["k"] == "arr":
            r, c = case["rows"], case["cols"]
            w = case["wells"]
            flat = [w["v"]] if w["shape"] == "scalar" else (w["v"] if w["shape"] == "list" else [x for row in w["v"] for x in row])
            known = all(len(x) >= 3 and x[0].isascii() and x[0].isupper() and x[1:].isascii() and x[1:].isdigit() and ord(x[0]) - 65 < r
                        and 1 <= int(x[1:]) <= c and x == wid(ord(x[0]) - 65, int(x[1:]) - 1) for x in flat)
            if not known:
                return [] if obs.get("err") else ["array: unknown well id accepted"]
            if obs.get("err"):
                return [f"array: valid wells raised {obs['exc']}"]
            want = [1 if wid(rr, cc) in flat else 0 for cc in range(c) for rr in range(r)]
            return [] if obs["val"] == want and obs["shape"] == [r, c] else ["array: selection array does not mark exactly the listed wells"]
        r, c = case["rows"], case["cols"]
        s = obs["val"]
        bad = []
        if len(s) != 4 + -(-(r * c) // 7):
            bad.append(f"length: {len(s)} characters for {r}x{c}")
        d = decode_selection(s) if len(s) >= 4 else None
        if d is None:
            bad.append("decode: string is not decodable (bad character or non-zero padding bits)")
        else:
            rows, cols, sel, _ = d
            if (rows, cols) != (r, c):
                bad.append(f"dimensions: decoded {rows}x{cols}")
            elif sel != self._sel(case):
                bad.append("decode: decoded selection differs from the selected wells")
        return bad


# =========================================================================== xform


class XformSuite:
    name = "xform"
    module = "harness.suites.xform"
    coq_module = "CheckPure"
    rule = (
        "rotator: all shapes up to 8x12 (quick) / 16x24 (thorough), all wells, 1-D and 2-D and scalar arguments; shifter: all "
        "shape_A <= shape_B <= 4x6 (quick) / 6x8 (thorough) with every anchor incl. rejected ones; randomizer: shapes x seeds x "
        "3 modes, lookup table read from the object, 0-d/1-D/2-D inputs; construction of the table from the recorded RNG draws on 13 "
        "(16) shapes incl. raising ones; non-trivial = accepted call on at least two wells"
    )

    def gen(self, tier, seed):
        rng = random.Random(seed + 21)
        cases = []
        RM, CM = (8, 12) if tier == "quick" else (16, 24)
        for R in range(1, RM + 1):
            for C in range(1, CM + 1):
                if tier == "quick" and (R * C) % 3 == 2 and R > 2:
                    continue
                allw = {"shape": "2d", "v": [[wid(r, c) for c in range(C)] for r in range(R)]}
                for d in ("cw", "ccw"):
                    cases.append({"k": d, "R": R, "C": C, "wells": allw})
                    cases.append({"k": d, "R": R, "C": C, "wells": {"shape": "list", "v": [wid(rng.randrange(R), rng.randrange(C)) for _ in range(3)]}})
                    cases.append({"k": d, "R": R, "C": C, "wells": {"shape": "2d", "v": [[wid(r, c) for r in range(R)][::-1] for c in range(C)]}})
                cases.append({"k": "cw", "R": R, "C": C, "wells": {"shape": "scalar", "v": wid(R - 1, C - 1)}})
                if (R + C) % 4 == 0:
                    cases.append({"k": "cw", "R": R, "C": C, "wells": allw, "other_first": True})
                    cases.append({"k": "ccw", "R": R, "C": C, "wells": {"shape": "list", "v": [wid(0, 0), wid(R - 1, 0), wid(0, C - 1)]}, "other_first": True})
                if R > 1 and C > 1:
                    for d in ("cw", "ccw"):
                        cases.append({"k": d, "R": R, "C": C, "wells": allw, "fortran": True})
                cases.append({"k": "ccw", "R": R, "C": C, "wells": {"shape": "list", "v": [wid(R, 0)]}})
        if tier == "quick":
            # the standard large formats and shapes beyond 8 x 12 (the portrait plate of a rotation has as many rows as columns)
            for R, C in [(16, 24), (8, 24), (1, 24), (2, 17), (16, 1), (3, 20), (12, 18), (16, 13)]:
                allw = {"shape": "2d", "v": [[wid(r, c) for c in range(C)] for r in range(R)]}
                for d in ("cw", "ccw"):
                    cases.append({"k": d, "R": R, "C": C, "wells": allw})
                    cases.append({"k": d, "R": R, "C": C, "wells": {"shape": "list", "v": [wid(R - 1, C - 1), wid(0, C - 1), wid(R - 1, 0)]}})
            cases.append({"k": "shift", "A": [8, 12], "B": [16, 24], "anchor": "I13", "wells": {"shape": "list", "v": ["A01", "H12", "D07"]}})
            cases.append({"k": "unshift", "A": [8, 12], "B": [16, 24], "anchor": "I13", "wells": {"shape": "list", "v": ["I13", "P24"]}})
        RB, CB = (4, 6) if tier == "quick" else (6, 8)
        for rb in range(1, RB + 1):
            for cb in range(1, CB + 1):
                for ra in range(1, rb + 2):
                    for ca in range(1, cb + 2):
                        for ar in range(rb + 1):
                            for ac in range(cb + 1):
                                if tier == "quick" and (ra + ca + ar + ac + rb + cb) % 3:
                                    continue
                                anchor = wid(ar, ac)
                                allw = {"shape": "2d", "v": [[wid(r, c) for c in range(ca)] for r in range(ra)]}
                                cases.append({"k": "shift", "A": [ra, ca], "B": [rb, cb], "anchor": anchor, "wells": allw})
                                if ra > 1 and ca > 1:
                                    cases.append({"k": "shift", "A": [ra, ca], "B": [rb, cb], "anchor": anchor, "wells": allw, "fortran": True})
                                # unsorted, repeated, column-major and reversed arguments
                                flat = [wid(r, c) for r in range(ra) for c in range(ca)]
                                pick = [rng.choice(flat) for _ in range(rng.choice([2, 3, 5]))]
                                cases.append({"k": "shift", "A": [ra, ca], "B": [rb, cb], "anchor": anchor, "wells": {"shape": "list", "v": pick}})
                                cases.append({"k": "shift", "A": [ra, ca], "B": [rb, cb], "anchor": anchor,
                                              "wells": {"shape": "2d", "v": [[wid(r, c) for r in range(ra)] for c in range(ca)]}})
                                cases.append({"k": "shift", "A": [ra, ca], "B": [rb, cb], "anchor": anchor, "wells": {"shape": "list", "v": flat[::-1]}})
                                if ra + ar <= rb and ca + ac <= cb and ar < rb and ac < cb:
                                    img = {"shape": "2d", "v": [[wid(r + ar, c + ac) for c in range(ca)] for r in range(ra)]}
                                    cases.append({"k": "unshift", "A": [ra, ca], "B": [rb, cb], "anchor": anchor, "wells": img})
                                    cases.append({"k": "unshift", "A": [ra, ca], "B": [rb, cb], "anchor": anchor,
                                                  "wells": {"shape": "scalar", "v": wid(ar, ac)}})
                                    imgs = [wid(r + ar, c + ac) for r in range(ra) for c in range(ca)]
                                    cases.append({"k": "unshift", "A": [ra, ca], "B": [rb, cb], "anchor": anchor,
                                                  "wells": {"shape": "list", "v": [rng.choice(imgs) for _ in range(3)] + imgs[::-1][:2]}})
                                    # wells of B outside the image of shift (above / left of the anchor, below / right of the area)
                                    outside = [wid(r, c) for r in range(rb) for c in range(cb) if wid(r, c) not in imgs]
                                    for w_out in rng.sample(outside, min(3, len(outside))):
                                        cases.append({"k": "unshift", "A": [ra, ca], "B": [rb, cb], "anchor": anchor,
                                                      "wells": {"shape": "list", "v": [imgs[0], w_out]}})
                                    if outside:
                                        cases.append({"k": "unshift", "A": [ra, ca], "B": [rb, cb], "anchor": anchor,
                                                      "wells": {"shape": "scalar", "v": outside[0]}})
        nseeds = 4 if tier == "quick" else 40
        for R, C in [(1, 1), (2, 3), (4, 6), (8, 12), (3, 1), (1, 5)] + ([(16, 24)] if tier == "thorough" else []):
            for sd in range(nseeds):
                for mode in ("full", "row", "column"):
                    allw = {"shape": "2d", "v": [[wid(r, c) for c in range(C)] for r in range(R)]}
                    for k in ("rand", "derand"):
                        cases.append({"k": k, "R": R, "C": C, "seed": sd, "mode": mode, "wells": allw})
                        cases.append({"k": k, "R": R, "C": C, "seed": sd, "mode": mode,
                                      "wells": {"shape": "list", "v": [wid(rng.randrange(R), rng.randrange(C)) for _ in range(4)]}})
                        cases.append({"k": k, "R": R, "C": C, "seed": sd, "mode": mode, "wells": {"shape": "scalar", "v": wid(R - 1, 0)}})
        # construction of the lookup table from the arrays numpy's generator returned (recorded by the runner)
        shapes = [(1, 1), (2, 3), (3, 2), (4, 6), (8, 12), (3, 1), (1, 5), (26, 2), (27, 2), (30, 1), (2, 100), (0, 3), (3, 0)]
        if tier == "thorough":
            shapes += [(16, 24), (8, 24), (26, 12)]
        for R, C in shapes:
            for sd in range(nseeds):
                for mode in ("full", "row", "column"):
                    cases.append({"k": "randctor", "R": R, "C": C, "seed": sd * 7 + 1, "mode": mode})
        return cases

    def run(self, case):
        import numpy
        from robotools import transform

        k = case["k"]
        out = {}
        if k == "randctor":
            from unittest import mock

            calls = []

            class Recording(numpy.random.RandomState):
                def permutation(self, x):
                    res = super().permutation(x)
                    calls.append(([str(v) for v in numpy.asarray(x).flatten().tolist()], [str(v) for v in numpy.asarray(res).flatten().tolist()]))
                    return res

            try:
                with mock.patch.object(transform.numpy.random, "RandomState", Recording):
                    rnd = transform.WellRandomizer((case["R"], case["C"]), case["seed"], mode=case["mode"])
                rnd2 = transform.WellRandomizer((case["R"], case["C"]), case["seed"], mode=case["mode"])
                return {"err": None, "requests": [c[0] for c in calls], "draws": [c[1] for c in calls],
                        "lookup": [[str(a), str(b)] for a, b in rnd.lookup.items()],
                        "reverse_ok": {str(b): str(a) for a, b in rnd.lookup.items()} == {str(a): str(b) for a, b in rnd.lookup_reverse.items()},
                        "same_seed_same_lookup": [[str(a), str(b)] for a, b in rnd2.lookup.items()] == [[str(a), str(b)] for a, b in rnd.lookup.items()]}
            except Exception as e:
                return {"err": errcode(e), "exc": type(e).__name__, "draws": [c[1] for c in calls]}
        arg = np_arg(case["wells"])
        if case.get("fortran"):
            arg = numpy.asfortranarray(arg)  # same values and shape, column-major memory layout
        try:
            if k in ("cw", "ccw"):
                rot = transform.WellRotator((case["R"], case["C"]))
                if case.get("other_first"):
                    # one rotator object serves both directions, in any order of use
                    (rot.rotate_ccw if k == "cw" else rot.rotate_cw)(arg)
                    (rot.rotate_cw if k == "cw" else rot.rotate_ccw)(arg)
                res = (rot.rotate_cw if k == "cw" else rot.rotate_ccw)(arg)
            elif k in ("shift", "unshift"):
                sh = transform.WellShifter(tuple(case["A"]), tuple(case["B"]), case["anchor"])
                res = (sh.shift if k == "shift" else sh.unshift)(arg)
            else:
                rnd = transform.WellRandomizer((case["R"], case["C"]), case["seed"], mode=case["mode"])
                rnd2 = transform.WellRandomizer((case["R"], case["C"]), case["seed"], mode=case["mode"])
                out["lookup"] = [[a, str(b)] for a, b in rnd.lookup.items()]
                out["same_seed_same_lookup"] = {a: str(b) for a, b in rnd.lookup.items()} == {a: str(b) for a, b in rnd2.lookup.items()}
                res = (rnd.randomize_wells if k == "rand" else rnd.derandomize_wells)(arg)
            res = numpy.asarray(res)
            out.update({"err": None, "shape": list(res.shape), "val": [None if x is None else str(x) for x in res.flatten().tolist()]})
        except Exception as e:
            out.update({"err": errcode(e), "exc": type(e).__name__})
        return out

    @staticmethod
    def _reshape(flat, a):
        if a["shape"] == "scalar":
            return {"shape": "scalar", "v": flat[0]}
        if a["shape"] == "list":
            return {"shape": "list", "v": flat}
        c = len(a["v"][0])
        return {"shape": "2d", "v": [flat[i * c:(i + 1) * c] for i in range(len(a["v"]))]}

    def emit(self, case, obs):
        k = case["k"]
        if k == "randctor":
            mode = {"full": 0, "row": 1, "column": 2}[case["mode"]]
            draws = clist([clist([cstr(w) for w in d]) for d in obs.get("draws", [])])
            out = "(Err %s)" % obs["err"] if obs.get("err") else "(Ok %s)" % clist([f"({cstr(a)}, {cstr(b)})" for a, b in obs["lookup"]])
            return f"(KRandCtor {mode} {case['R']} {case['C']} {draws} {out})"
        a = carr(case["wells"], cstr)
        if k == "cw":
            call = f"(XCw {case['R']} {case['C']} {a})"
        elif k == "ccw":
            call = f"(XCcw {case['R']} {case['C']} {a})"
        elif k in ("shift", "unshift"):
            call = f"({'XShift' if k == 'shift' else 'XUnshift'} {case['A'][0]} {case['A'][1]} {case['B'][0]} {case['B'][1]} {cstr(case['anchor'])} {a})"
        else:
            tbl = clist([f"({cstr(x)}, {cstr(y)})" for x, y in obs.get("lookup", [])])
            call = f"({'XRand' if k == 'rand' else 'XDerand'} {tbl} {a})"
        if obs.get("err"):
            return f"(KXf {call} (Err {obs['err']}))"
        out = carr(self._reshape(obs["val"], case["wells"]), lambda x: copt(x, cstr))
        return f"(KXf {call} (Ok {out}))"

    def nontrivial(self, case, obs):
        if case["k"] == "randctor":
            return not obs.get("err") and len(obs["lookup"]) >= 2
        return not obs.get("err") and len(obs["val"]) >= 2

    def kind(self, case, obs):
        if case["k"] == "randctor":
            return "randctor:" + case["mode"] + ":" + (obs.get("exc") or "ok")
        return case["k"] + ":" + (obs.get("exc") or case["wells"]["shape"])

    def oracle_C15(self, case, obs):
        k = case["k"]
        if k == "randctor":
            R, C = case["R"], case["C"]
            if obs.get("err"):
                # shapes the plate helpers cannot represent (more rows than letters in row mode, no rows) may be refused
                return [] if (R > 26 or R == 0 or C == 0) else [f"accept: WellRandomizer(({R}, {C}), mode={case['mode']!r}) raised {obs['exc']}"]
            bad = []
            lk = dict(obs["lookup"])
            allw = {wid(r, c) for r in range(min(R, 26)) for c in range(C)}
            if set(lk) != allw or set(lk.values()) != allw or len(obs["lookup"]) != len(allw):
                bad.append("permutation: lookup is not a permutation of the plate")
            if case["mode"] == "row" and any(a[0] != b[0] for a, b in lk.items()):
                bad.append("row-mode: a well left its row")
            if case["mode"] == "column" and any(a[1:] != b[1:] for a, b in lk.items()):
                bad.append("column-mode: a well left its column")
            if not obs["same_seed_same_lookup"]:
                bad.append("seed: two constructions with one seed differ")
            if not obs["reverse_ok"]:
                bad.append("inverse: lookup_reverse is not the inverse of lookup")
            return bad
        w = case["wells"]
        flat = [w["v"]] if w["shape"] == "scalar" else (list(w["v"]) if w["shape"] == "list" else [x for row in w["v"] for x in row])
        shape = [] if w["shape"] == "scalar" else ([len(w["v"])] if w["shape"] == "list" else [len(w["v"]), len(w["v"][0])])
        rc = lambda x: (ord(x[0]) - 65, int(x[1:]) - 1)
        bad = []
        if k in ("cw", "ccw"):
            R, C = case["R"], case["C"]
            inside = all(rc(x)[0] < R and rc(x)[1] < C for x in flat)
            if not inside:
                return [] if obs.get("err") else ["domain: well outside the plate accepted"]
            if obs.get("err"):
                return [f"accept: rotation raised {obs['exc']}"]
            want = [wid(rc(x)[1], R - 1 - rc(x)[0]) if k == "cw" else wid(C - 1 - rc(x)[1], rc(x)[0]) for x in flat]
            if obs["val"] != want:
                bad.append(f"geometry: {k} maps {flat[:3]} to {obs['val'][:3]}")
        elif k in ("shift", "unshift"):
            (ra, ca), (rb, cb) = case["A"], case["B"]
            ar, ac = rc(case["anchor"])
            fits = ar < rb and ac < cb and ra + ar <= rb and ca + ac <= cb
            if not fits:
                return [] if obs.get("err") else ["refuse: shifter accepted a source plate that does not fit"]
            if k == "unshift" and any(not (ar <= rc(x)[0] < ar + ra and ac <= rc(x)[1] < ac + ca) for x in flat):
                # shift and unshift are mutually inverse bijections: a well that no well is shifted to has no pre-image
                return [] if obs.get("err") else [f"inverse: unshift accepted a well outside the shifted area and returned {obs['val'][:3]}"]
            if obs.get("err"):
                return [f"accept: valid shift raised {obs['exc']}"]
            want = [wid(rc(x)[0] + ar, rc(x)[1] + ac) if k == "shift" else wid(rc(x)[0] - ar, rc(x)[1] - ac) for x in flat]
            if obs["val"] != want:
                bad.append(f"offset: {k} maps {flat[:3]} to {obs['val'][:3]}")
        else:
            R, C = case["R"], case["C"]
            if obs.get("err"):
                return [f"accept: {k} raised {obs['exc']} on a {w['shape']} argument"]
            lk = dict(obs["lookup"])
            allw = {wid(r, c) for r in range(R) for c in range(C)}
            if set(lk) != allw or set(lk.values()) != allw:
                bad.append("permutation: lookup is not a permutation of the plate")
            if case["mode"] == "row" and any(a[0] != b[0] for a, b in lk.items()):
                bad.append("row-mode: a well left its row")
            if case["mode"] == "column" and any(a[1:] != b[1:] for a, b in lk.items()):
                bad.append("column-mode: a well left its column")
            if not obs["same_seed_same_lookup"]:
                bad.append("seed: two constructions with one seed differ")
            inv = {b: a for a, b in lk.items()}
            want = [lk.get(x) if k == "rand" else inv.get(x) for x in flat]
            if obs["val"] != want:
                bad.append("inverse: result is not the (inverse) lookup of the argument")
        if not obs.get("err") and obs["shape"] != shape:
            bad.append(f"shape: result shape {obs['shape']} for argument shape {shape}")
        return bad


# =========================================================================== save


RECS = ["A;plate;;;1;;12.50;;;;", "D;plate;;;2;;12.50;Water;;4;", "W1;", "W;", "WD;", "F;", "B;", "C;µL transfer", "C;hello world",
        "S;2", "R;T;;;1;4;P;;;1;3;50.0;;1;1;0", 'B;Aspirate(3,"Water","10.0","5.5",0,0,0,0,0,0,0,0,0,0,38,1,1,"0C0830",0,0);', "C;ÄÖÜ ß ÿ", ""]


class SaveSuite:
    name = "save"
    module = "harness.suites.save"
    coq_module = "CheckPure"
    rule = (
        "record lists of length 0..50 over all record types incl. Latin-1 comments; file absent / shorter / longer before; path as "
        "str or Path; names with .gwl, upper case, without extension, .gwl elsewhere in the name; save twice; the same object saving / "
        "re-entering twice with a foreign write to the file in between; long worklists (999..4100 records); `with` block incl. "
        "exit by exception and __enter__ on a non-empty worklist; non-trivial = at least two records written"
    )

    def gen(self, tier, seed):
        rng = random.Random(seed + 31)
        cases = []
        for i in range(160 if tier == "quick" else 4000):
            n = rng.choice([0, 1, 1, 2, 3, 5, 10, 50])
            if i % 20 == 7:
                n = rng.choice([999, 1000, 1001, 1002, 1500, 2049, 4100, 256, 512, 1024, 255, 257])  # long worklists, block sizes
            recs = [rng.choice(RECS[:-1]) for _ in range(n)]
            name = rng.choice(["out.gwl", "out.gwl", "OUT.GWL", "a b.Gwl", "out.gwl", "run 7.gwl", "µ.gwl", "a..gwl", "..gwl",
                               "out.txt", "out", "gwl", "x.gwl.txt", "my.gwl.bak", ".gwl", "a.gwl.", "agwl",
                               # the extension is that of the last path component
                               "sub/out.gwl", "sub/.gwl", "sub.gwl/out", "sub.gwl/out.txt", "a/b/c.GWL", "./x.gwl", "sub.gwl/.gwl", "d.d/run.gwl"])
            if i % 9 == 4 and n:
                # a record with a line break inside (not a well-formed record: only the model/code tie is checked, see oracle)
                recs[rng.randrange(len(recs))] = rng.choice(["C;two\nlines", "C;cr\rinside", "C;crlf\r\ninside", "\n", "C;end\n"])
            cases.append({"recs": recs, "name": name, "pre": rng.choice([None, "short", "long"]), "aspath": rng.random() < 0.5,
                          "via": rng.choice(["save", "save", "with", "with_exc", "twice", "with_save_other", "resave_foreign", "reenter_foreign"])})
        # record counts around powers of two (block-wise writers)
        for n in (127, 128, 129, 255, 256, 257, 511, 512, 513, 1024, 2048):
            cases.append({"recs": [RECS[j % 3] for j in range(n)], "name": "blocks.gwl", "pre": "long" if n % 2 else None, "aspath": False,
                          "via": "save" if n % 3 else "with"})
        return cases

    def run(self, case):
        import pathlib
        import shutil
        import tempfile

        import robotools

        d = tempfile.mkdtemp(prefix="verif_save_", dir="/var/tmp")
        try:
            p = pathlib.Path(d) / case["name"]
            p.parent.mkdir(parents=True, exist_ok=True)
            if case["pre"] == "short":
                p.write_bytes(b"x")
            elif case["pre"] == "long":
                p.write_bytes(b"OLD;" * 5000 + b"\r\nTAIL")
            arg = p if case["aspath"] else str(p)
            exc = None
            entered_empty = None
            try:
                if case["via"] in ("save", "twice"):
                    wl = robotools.EvoWorklist()
                    wl.extend(case["recs"])
                    if case["via"] == "twice":
                        wl2 = robotools.EvoWorklist()
                        wl2.extend(["C;previous"] * 60)
                        wl2.save(arg)
                    wl.save(arg)
                elif case["via"] == "resave_foreign":
                    # the same object saves twice to the same path; in between someone else replaced the file
                    wl = robotools.EvoWorklist()
                    wl.extend(case["recs"])
                    wl.save(arg)
                    p.write_bytes(b"C;written by someone else\r\nW1;" * (1 + len(case["recs"]) % 3))
                    wl.save(arg)
                elif case["via"] == "reenter_foreign":
                    wl = robotools.FluentWorklist(arg)
                    with wl as w:
                        w.extend(case["recs"])
                    p.write_bytes(b"C;written by someone else\r\nW1;" * (1 + len(case["recs"]) % 3))
                    with wl as w:
                        entered_empty = len(w) == 0
                        w.extend(case["recs"])
                else:
                    wl = robotools.FluentWorklist(arg)
                    wl.append("C;stale")
                    propagated = False
                    try:
                        with wl as w:
                            entered_empty = len(w) == 0
                            w.extend(case["recs"])
                            if case["via"] == "with_save_other":
                                other = pathlib.Path(d) / "snapshot.gwl"
                                w.save(other)
                                w.append("C;after the snapshot")
                            if case["via"] == "with_exc":
                                raise KeyError("boom")
                    except KeyError:
                        propagated = True
            except Exception as e:
                exc = e
            content = p.read_bytes().decode("latin-1") if p.exists() else None
            other_content = None
            if case["via"] == "with_save_other":
                op_ = pathlib.Path(d) / "snapshot.gwl"
                other_content = op_.read_bytes().decode("latin-1") if op_.exists() else None
            return {"other_content": other_content, "err": errcode(exc), "exc": type(exc).__name__ if exc else None, "content": content,
                    "shown": str(wl), "entered_empty": entered_empty,
                    "readback": content.split("\r\n") if content is not None else None,
                    "filepath_ok": (wl.filepath == p) if case["via"].startswith("with") else None,
                    "same_as_repr": str(wl) == repr(wl),
                    "propagated": (propagated if case["via"] == "with_exc" else None)}
        finally:
            shutil.rmtree(d, ignore_errors=True)

    def emit(self, case, obs):
        if case["via"] == "with_save_other":
            case = dict(case, recs=case["recs"] + ["C;after the snapshot"])
            obs = dict(obs, shown="\n".join(case["recs"]))
        pre = {None: None, "short": "x", "long": "OLD;" * 5000 + "\r\nTAIL"}[case["pre"]]
        if case["via"] in ("with", "with_exc", "reenter_foreign"):
            # the with-block state machine of the model (wl_init / wl_enter / wl_append / wl_exit) against the file the library left
            stale = [] if case["via"] == "reenter_foreign" else ["C;stale"]
            return (f"(KWith {cstr(case['name'])} {clist([cstr(r) for r in stale])} {clist([cstr(r) for r in case['recs']])} "
                    f"{cbool(case['via'] == 'with_exc')} {cbool(case['via'] == 'reenter_foreign')} {copt(pre, cstr)} {copt(obs['content'], cstr)} "
                    f"{cbool(bool(obs.get('err')))})")
        content = obs["content"]
        # the model starts from "no file"; a refused save leaves the old content, which the model does not carry
        if obs.get("err") and content == pre:
            content = None
        return (f"(KSave {cstr(case['name'])} {clist([cstr(r) for r in case['recs']])} {copt(content, cstr)} "
                f"{clist([cstr(r) for r in (obs['readback'] or [])]) if not obs.get('err') else '[]'} {cstr(obs['shown'])})")

    def nontrivial(self, case, obs):
        return not obs.get("err") and len(case["recs"]) >= 2

    def kind(self, case, obs):
        return case["via"] + ":" + (obs.get("exc") or "ok")

    def oracle_C02(self, case, obs):
        """an error raised by an operation inside a `with` block reaches the caller (the block writes the file, it does not
        swallow the exception)"""
        if case["via"] == "with_exc" and obs.get("propagated") is False and not obs.get("err"):
            return ["raise: an exception raised inside the with block of a worklist did not reach the caller"]
        return []

    def oracle_C03(self, case, obs):
        return self.oracle_C02(case, obs)

    def oracle_C01(self, case, obs):
        """the file the robot executes holds the emitted records, one per line, nothing lost or merged"""
        if obs.get("err") or any("\n" in r or "\r" in r for r in case["recs"]):
            return []
        recs_final = case["recs"] + (["C;after the snapshot"] if case["via"] == "with_save_other" else [])
        if obs["readback"] != (recs_final if recs_final else [""]):
            return [f"file: the saved file holds {len(obs['readback'] or [])} lines for {len(recs_final)} emitted records, or different ones"]
        return []

    def oracle_C17(self, case, obs):
        bad = []
        if any("\n" in r or "\r" in r for r in case["recs"]):
            return []  # a record with a line break inside is not a record of the format; outside the property's domain
        parts = [c for c in case["name"].split("/") if c not in ("", ".")]
        base, dot, ext = (parts[-1] if parts else "").rpartition(".")
        name_ok = bool(dot) and base != "" and ext.lower() == "gwl"  # a leading dot starts a hidden file, not an extension
        pre = {None: None, "short": "x", "long": "OLD;" * 5000 + "\r\nTAIL"}[case["pre"]]
        if not name_ok:
            if not obs.get("err"):
                bad.append("name: file name without .gwl accepted")
            if obs["content"] != pre:
                bad.append("name: refused save changed the file")
            return bad
        if obs.get("err"):
            return [f"accept: save raised {obs['exc']}"]
        recs_final = case["recs"] + (["C;after the snapshot"] if case["via"] == "with_save_other" else [])
        if case["via"] == "with_save_other":
            if obs["other_content"] != "\r\n".join(case["recs"]):
                bad.append("content: the file written by save() inside the with block is not the records at that moment")
            if obs["content"] != "\r\n".join(recs_final):
                bad.append("content: leaving the with block did not write the records to the path given at construction")
            return bad
        want = "\r\n".join(case["recs"])
        if obs["content"] != want:
            bad.append("content: file is not exactly the records joined by CRLF")
        if obs["readback"] != (case["recs"] if case["recs"] else [""]):
            bad.append("readback: splitting the file at CRLF does not return the records")
        if obs["shown"] != "\n".join(case["recs"]):
            bad.append("str: string conversion differs from the records")
        if obs["entered_empty"] is False:
            bad.append("enter: the with block did not start from an empty worklist")
        return bad
