"""Generators of programs (cases for Corr/CheckProg.v).  Pure Python, independent of the code under
test: a small shadow of the volumes guides the choice of mostly-valid arguments."""
from __future__ import annotations

import random
from fractions import Fraction

LABELS = [None, None, "", "step", "fill up", "dilute 1:10", "first", "last", "mix  ", "add 10% glycerol", "line1\nline2", "µL transfer", "a;b",
          "\tindented", "dos line\r\nnext\r", "nbsp\u00a0"]
LIQ = ["", "Water", "Water_FD_AspZmax-1", "DMSO free"]


def dy(rng, hi, e=None, lo=0):
    """dyadic rational in [lo, hi): k / 2^e"""
    if e is None:
        e = rng.choice([0, 0, 0, 1, 2, 3, 10])
    k = rng.randrange(int(lo * (1 << e)), max(int(lo * (1 << e)) + 1, int(hi * (1 << e))))
    return Fraction(k, 1 << e)


def small_rel(x):
    """a step of about 2^-17 of x (below a relative tolerance of 1e-5, above the two-decimal record resolution for
    large x), on the 2^-10 grid"""
    return max(Fraction(1, 1024), Fraction(int(Fraction(x) * 1024 / (1 << 17)), 1024))


def tiny(x):
    """a very small step that is still exactly representable on top of x in binary64"""
    bl = max(1, int(abs(Fraction(x))).bit_length())
    return Fraction(1, 1 << max(0, 44 - bl))


def fs(x):
    x = Fraction(x)
    return str(x.numerator) if x.denominator == 1 else f"{x.numerator}/{x.denominator}"


def wid(r, c):
    return f"{chr(65 + r)}{c + 1:02d}"


class Shadow:
    def __init__(self, specs):
        self.specs = specs
        self.v = []
        for s in specs:
            rows = 1 if s["kind"] == "trough" else s["rows"]
            cols = s["cols"]
            init = s.get("init")
            if init is None:
                flat = [Fraction(0)] * (rows * cols)
            elif init["shape"] == "scalar":
                flat = [Fraction(init["v"])] * (rows * cols)
            elif init["shape"] == "list":
                flat = [Fraction(x) for x in init["v"]]
            else:
                flat = [Fraction(x) for row in init["v"] for x in row]
            self.v.append(flat)

    def rows_ids(self, k):
        s = self.specs[k]
        return s["vrows"] if s["kind"] == "trough" else s["rows"]

    def cols(self, k):
        return self.specs[k]["cols"]

    def idx(self, k, well):
        s = self.specs[k]
        r, c = ord(well[0]) - 65, int(well[1:]) - 1
        return c if s["kind"] == "trough" else r * s["cols"] + c

    def vol(self, k, well):
        return self.v[k][self.idx(k, well)]

    def mn(self, k):
        return Fraction(self.specs[k]["min"])

    def mx(self, k):
        return Fraction(self.specs[k]["max"])

    def remove(self, k, wells, vols):
        v = list(self.v[k])
        for w, x in zip(wells, vols):
            i = self.idx(k, w)
            if v[i] - x < self.mn(k):
                return False
            v[i] -= x
        self.v[k] = v
        return True

    def add(self, k, wells, vols):
        v = list(self.v[k])
        for w, x in zip(wells, vols):
            i = self.idx(k, w)
            if v[i] + x > self.mx(k):
                return False
            v[i] += x
        self.v[k] = v
        return True

    def wells(self, k):
        return [wid(r, c) for c in range(self.cols(k)) for r in range(self.rows_ids(k))]


def gen_labware(rng, n=None, big=False):
    n = n or rng.choice([1, 2, 2, 3, 3, 4])
    specs = []
    names = rng.sample(["plate", "MTP", "stocks", "water", "DWP-2", "src", "dst", "Tubes 1", "µ-plate", "buffer", "glc_40%"], n)
    for i in range(n):
        kind = rng.choice(["plate", "plate", "trough"])
        if i == 0 and n > 1:
            kind = "trough" if rng.random() < 0.5 else "plate"
        mx = Fraction(rng.choice([100, 250, 300, 1000, 2500, 10000, 100000, "12.5", "950.5"]))
        mn = Fraction(rng.choice([0, 0, 0, 5, 10, "2.5"]))
        if mx >= 10000 and rng.random() < 0.4:
            mn = mx / 10
        if mn >= mx:
            mn = Fraction(0)
        if kind == "plate":
            rows = rng.choice([1, 2, 3, 4, 7, 8] if not big else [8, 16, 26])
            cols = rng.choice([1, 2, 3, 4, 6, 7] if not big else [12, 24, 99, 100])
            mode = rng.choice(["none", "scalar", "list", "2d", "2d"])
            fill = 0.7
            if big:
                mode, fill = rng.choice(["none", "list", "2d"]), 0.03
            if mode == "none":
                init = None
            elif mode == "scalar":
                init = {"shape": "scalar", "v": fs(dy(rng, mx))}
            elif mode == "list":
                init = {"shape": "list", "v": [fs(dy(rng, mx) if rng.random() < fill else 0) for _ in range(rows * cols)]}
            else:
                init = {"shape": "2d", "v": [[fs(dy(rng, mx) if rng.random() < fill else 0) for _ in range(cols)] for _ in range(rows)]}
            spec = {"kind": "plate", "name": names[i], "rows": rows, "cols": cols, "min": fs(mn), "max": fs(mx), "init": init}
            # a few explicit component names for non-empty wells
            if init is not None and rng.random() < 0.4:
                sh = Shadow([spec])
                nm = {}
                for r in range(rows):
                    for c in range(cols):
                        if sh.v[0][r * cols + c] > 0 and rng.random() < 0.4:
                            nm[wid(r, c)] = rng.choice(["glc", "water", "acid", "NaCl 1M", None])
                if nm:
                    spec["names"] = nm
        else:
            vrows = rng.choice([1, 2, 4, 8] if not big else [8, 16, 26])
            cols = rng.choice([1, 1, 2, 3, 7] if not big else [4, 12, 24])
            mode = rng.choice(["scalar", "list", "list"])
            if mode == "scalar":
                init = {"shape": "scalar", "v": fs(dy(rng, mx))}
            else:
                init = {"shape": "list", "v": [fs(dy(rng, mx) if rng.random() < 0.8 else 0) for _ in range(cols)]}
            spec = {"kind": "trough", "name": names[i], "vrows": vrows, "cols": cols, "min": fs(mn), "max": fs(mx), "init": init}
            if rng.random() < 0.3:
                sh = Shadow([spec])
                spec["column_names"] = [rng.choice(["water", "stock", None]) if sh.v[0][c] > 0 else None for c in range(cols)]
            elif rng.random() < 0.2 and mode == "list":
                spec["via_labware"] = True
        specs.append(spec)
    # two labware built from one and the same float array object (the runner passes the identical ndarray)
    if n >= 2 and rng.random() < 0.15:
        a, b = rng.sample(range(n), 2)
        src = specs[a]
        if src.get("init") is not None and src["init"]["shape"] != "scalar":
            twin = dict(src)
            twin["name"] = specs[b]["name"]
            twin["share_init_with"] = a
            twin.pop("names", None)
            twin.pop("column_names", None)
            if b > a:
                specs[b] = twin
    return specs


def gen_wl(rng):
    mv = rng.choice(["950", "950", "200", "50", "1000", "12.5", "950.5", "7"])
    wl = {"max_volume": mv, "max_int": "." not in mv and rng.random() < 0.5, "auto_split": rng.random() < 0.8, "diti_mode": rng.random() < 0.2}
    r = rng.random()
    if r < 0.12:
        # the options given as numpy scalars / truthy ints instead of Python float / bool
        # (no float32: since NumPy 2 a Python float divided by a float32 scalar is computed in float32, which an exact model
        # cannot follow; integer and float64 scalars and 0-d arrays keep binary64 arithmetic)
        wl["max_np"] = rng.choice(["int64", "int32", "0d"] if wl["max_int"] else ["float64", "0d"])
    elif r < 0.2:
        wl["diti_repr"] = rng.choice(["int", "npbool"])
        wl["diti_mode"] = rng.random() < 0.7
    return wl


def shape_wells(rng, wells):
    """present a flat (column-major) list of wells as scalar / list / 2-D array"""
    n = len(wells)
    if n == 1 and rng.random() < 0.5:
        return {"shape": "scalar", "v": wells[0]}
    for r in (2, 3, 4):
        if n % r == 0 and n > r and rng.random() < 0.3:
            c = n // r
            return {"shape": "2d", "v": [[wells[j * r + i] for j in range(c)] for i in range(r)]}
    return {"shape": "list", "v": list(wells)}


def shape_vols(rng, vols, like=None):
    n = len(vols)
    if n and all(v == vols[0] for v in vols) and rng.random() < 0.5:
        return {"shape": "scalar", "v": fs(vols[0])}
    if like is not None and like["shape"] == "2d" and rng.random() < 0.7:
        r = len(like["v"])
        c = n // r
        return {"shape": "2d", "v": [[fs(vols[j * r + i]) for j in range(c)] for i in range(r)]}
    return {"shape": "list", "v": [fs(v) for v in vols]}


def pick_wells(rng, sh, k, n=None, repeats=True):
    ws = sh.wells(k)
    n = n or rng.choice([1, 1, 2, 3, 4, 6])
    if repeats and rng.random() < 0.3:
        return [rng.choice(ws) for _ in range(n)]
    n = min(n, len(ws))
    if rng.random() < 0.4:
        # a column-wise block (typical use)
        start = rng.randrange(len(ws) - n + 1)
        return ws[start : start + n]
    return rng.sample(ws, n)


def gen_kw(rng):
    if rng.random() < 0.6:
        return None
    kw = {}
    if rng.random() < 0.7:
        kw["liquid_class"] = rng.choice(LIQ)
    if rng.random() < 0.4:
        kw["tip"] = rng.choice([{"one": ["i", rng.randint(1, 8)]}, {"one": ["t", rng.randint(1, 8)]},
                                {"many": [["i", rng.randint(1, 8)], ["t", rng.randint(1, 8)]]}, {"one": ["any"]}])
    if rng.random() < 0.2:
        kw["rack_id"] = rng.choice(["12345", "BC-0001"])
    if rng.random() < 0.15:
        kw["rack_type"] = "96 Well Microplate"
    if rng.random() < 0.1:
        kw["tube_id"] = "T7"
    if rng.random() < 0.1:
        kw["forced_rack_type"] = "forced"
    return kw


def tips_like_wells(rng, kw, n):
    """sometimes: a tip collection with exactly as many (distinct) members as wells - still ONE mask for every record"""
    if 2 <= n <= 8 and rng.random() < 0.15:
        kw = dict(kw or {})
        kw["tip"] = {"many": [[rng.choice("it"), t] for t in rng.sample(range(1, 9), n)]}
    return kw


def gen_remove_like(rng, sh, k, valid=True):
    """wells + volumes that the labware can give (mostly)"""
    wells = pick_wells(rng, sh, k)
    vols = []
    tmp = {}
    for w in wells:
        i = sh.idx(k, w)
        cur = tmp.get(i, sh.v[k][i])
        avail = cur - sh.mn(k)
        if avail <= 0 or rng.random() < 0.1:
            x = Fraction(0)
        elif rng.random() < 0.1:
            x = avail  # exactly down to min_volume
        else:
            x = dy(rng, avail)
        if not valid and rng.random() < 0.5:
            x = avail + rng.choice([tiny(sh.mx(k)), small_rel(sh.mn(k)), Fraction(1), Fraction(1000)])
            if x < 0:
                x = Fraction(1)
        tmp[i] = cur - x
        vols.append(x)
    return wells, vols


def gen_add_like(rng, sh, k, valid=True):
    wells = pick_wells(rng, sh, k)
    vols = []
    tmp = {}
    for w in wells:
        i = sh.idx(k, w)
        cur = tmp.get(i, sh.v[k][i])
        room = sh.mx(k) - cur
        if room <= 0 or rng.random() < 0.1:
            x = Fraction(0)
        elif rng.random() < 0.1:
            x = room
        else:
            x = dy(rng, room)
        if not valid and rng.random() < 0.5:
            x = max(Fraction(0), room) + rng.choice([tiny(sh.mx(k)), small_rel(sh.mx(k)), Fraction(1), Fraction(1000)])
        tmp[i] = cur + x
        vols.append(x)
    return wells, vols


def gen_comps(rng, n):
    if rng.random() < 0.5:
        return None
    out = []
    for _ in range(n):
        r = rng.random()
        if r < 0.2:
            out.append(None)
        elif r < 0.6:
            out.append({rng.choice(["water", "glc", "acid"]): "1"})
        else:
            a = rng.choice(["1/4", "1/2", "3/8"])
            out.append({"water": a, "glc": fs(1 - Fraction(a))})
    return out


def op_add(rng, sh, k, valid=True):
    wells, vols = gen_add_like(rng, sh, k, valid)
    sh.add(k, wells, vols)
    wa = shape_wells(rng, wells)
    return {"op": "add", "lw": k, "wells": wa, "vols": shape_vols(rng, vols, wa), "label": rng.choice(LABELS[:10]), "comps": gen_comps(rng, len(wells))}


def op_remove(rng, sh, k, valid=True):
    wells, vols = gen_remove_like(rng, sh, k, valid)
    sh.remove(k, wells, vols)
    wa = shape_wells(rng, wells)
    return {"op": "remove", "lw": k, "wells": wa, "vols": shape_vols(rng, vols, wa), "label": rng.choice(LABELS[:10])}


def op_aspirate(rng, sh, k, valid=True):
    wells, vols = gen_remove_like(rng, sh, k, valid)
    sh.remove(k, wells, vols)
    wa = shape_wells(rng, wells)
    return {"op": "aspirate", "lw": k, "wells": wa, "vols": shape_vols(rng, vols, wa), "label": rng.choice(LABELS), "kw": tips_like_wells(rng, gen_kw(rng), len(wells))}


def op_dispense(rng, sh, k, valid=True):
    wells, vols = gen_add_like(rng, sh, k, valid)
    sh.add(k, wells, vols)
    wa = shape_wells(rng, wells)
    return {"op": "dispense", "lw": k, "wells": wa, "vols": shape_vols(rng, vols, wa), "label": rng.choice(LABELS),
            "comps": gen_comps(rng, len(wells)), "kw": tips_like_wells(rng, gen_kw(rng), len(wells))}


def op_transfer(rng, sh, ks, kd, valid=True, wl=None):
    n = rng.choice([1, 2, 3, 4, 6, 8])
    sw = pick_wells(rng, sh, ks, n)
    n = len(sw)
    dw = pick_wells(rng, sh, kd, n, repeats=True)
    while len(dw) < n:
        dw.append(rng.choice(sh.wells(kd)))
    vols = []
    stmp, dtmp = {}, {}
    for s, d in zip(sw, dw):
        si, di = sh.idx(ks, s), sh.idx(kd, d)
        scur = stmp.get(si, sh.v[ks][si])
        if ks == kd:
            dcur = stmp.get(di, sh.v[kd][di])
        else:
            dcur = dtmp.get(di, sh.v[kd][di])
        avail = min(scur - sh.mn(ks), sh.mx(kd) - dcur)
        if ks == kd and si == di:
            avail = scur - sh.mn(ks)
        if wl is not None:
            # keep the number of split steps per triple small (rational mixing chains grow quickly)
            avail = min(avail, Fraction(wl["max_volume"]) * rng.choice([1, 2, 3, 8]))
        if avail <= 0 or rng.random() < 0.12:
            x = Fraction(0)
        elif rng.random() < 0.1:
            x = avail
        else:
            x = dy(rng, avail)
        if not valid and rng.random() < 0.4:
            x = max(Fraction(0), avail) + rng.choice([tiny(max(sh.mx(ks), sh.mx(kd))), small_rel(sh.mx(kd)), small_rel(sh.mn(ks)), Fraction(1), Fraction(500)])
        stmp[si] = scur - x
        if ks == kd:
            stmp[di] = stmp.get(di, sh.v[kd][di]) + x
        else:
            dtmp[di] = dcur + x
        vols.append(x)
    for i, v in stmp.items():
        sh.v[ks][i] = v
    for i, v in dtmp.items():
        sh.v[kd][i] = v
    # argument shapes: broadcast singletons
    swa = shape_wells(rng, sw)
    dwa = shape_wells(rng, dw)
    if len(set(sw)) == 1 and rng.random() < 0.6:
        swa = {"shape": rng.choice(["scalar", "list"]), "v": sw[0]}
        if swa["shape"] == "list":
            swa["v"] = [sw[0]]
    if len(set(dw)) == 1 and rng.random() < 0.6:
        dwa = {"shape": "scalar", "v": dw[0]}
    op = {"op": "transfer", "src": ks, "swells": swa, "dst": kd, "dwells": dwa, "vols": shape_vols(rng, vols, swa if swa["shape"] == "2d" else dwa),
          "label": rng.choice(LABELS), "kw": gen_kw(rng)}
    r = rng.random()
    if r < 0.6:
        op["ws"] = rng.choice([1, 2, 3, 4, "flush", "reuse"])
    if rng.random() < 0.5:
        op["pb"] = rng.choice(["auto", "source", "destination"])
    return op


def op_distribute(rng, sh, ks, kd, valid=True, wl=None):
    col = rng.randrange(sh.cols(ks))
    n = rng.choice([1, 2, 3, 4, 6, 8])
    ws = sh.wells(kd)
    dw = rng.sample(ws, min(n, len(ws)))
    src = wid(0, col)
    avail = sh.vol(ks, src) - sh.mn(ks)
    room = min(sh.mx(kd) - sh.vol(kd, w) for w in dw)
    per = min(avail / len(dw), room)
    per = Fraction(int(per * 64), 64)
    if wl is not None:
        per = min(per, Fraction(wl["max_volume"]))
    if per <= 0 or rng.random() < 0.08:
        x = Fraction(0)
    else:
        x = dy(rng, min(per, 1 << 19), e=rng.choice([0, 0, 1, 3, 6]))
    if not valid and rng.random() < 0.5:
        x = max(Fraction(0), per) + rng.choice([Fraction(1, 64), Fraction(1), Fraction(500)])
    if x.denominator == 1 and rng.random() < 0.4:
        vol = {"int": int(x)}
    else:
        vol = fs(x)
    if sh.remove(ks, [src], [x * len(dw)]):
        sh.add(kd, dw, [x] * len(dw))
    op = {"op": "distribute", "src": ks, "col": col, "dst": kd, "dwells": shape_wells(rng, dw), "volume": vol}
    if rng.random() < 0.5:
        op["label"] = rng.choice([l for l in LABELS if l is not None])
    if rng.random() < 0.4:
        op["multi_disp"] = rng.choice([1, 2, 6, 12])
    if rng.random() < 0.3:
        op["diti_reuse"] = rng.choice([1, 2, 5])
    if rng.random() < 0.3:
        op["liquid_class"] = rng.choice(LIQ)
    if rng.random() < 0.2:
        op["direction"] = rng.choice(["left_to_right", "right_to_left"])
    if rng.random() < 0.15:
        op["src_rack_id"] = "S-1"
        op["dst_rack_type"] = "96 Well"
    return op


def simple_wl_op(rng):
    r = rng.random()
    if r < 0.3:
        return {"op": "comment", "text": rng.choice(["hello", "two\nlines", "  padded  ", "", None, "µ-step", "\n\n", "x;y"])}
    if r < 0.5:
        return {"op": "wash", "scheme": rng.choice([1, 2, 3, 4, 4, 0, 5])}
    if r < 0.6:
        return {"op": "decon"}
    if r < 0.7:
        return {"op": "flush"}
    if r < 0.85:
        return {"op": "commit"}
    return {"op": "set_diti", "i": rng.choice([1, 2, 3])}


def troughs(specs):
    return [k for k, s in enumerate(specs) if s["kind"] == "trough"]


def gen_drain_program(rng):
    """wells are emptied exactly (min_volume 0) and refilled with a different liquid, then used as a source"""
    rows, cols = rng.choice([(2, 3), (3, 2), (4, 2)])
    vols = [[fs(rng.choice([40, 60, 100, 125])) for _ in range(cols)] for _ in range(rows)]
    plate = {"kind": "plate", "name": rng.choice(["plate", "µ-plate", "DWP-2"]), "rows": rows, "cols": cols, "min": "0", "max": "1000",
             "init": {"shape": "2d", "v": vols}}
    tr = {"kind": "trough", "name": rng.choice(["water", "buffer"]), "vrows": rng.choice([2, 4]), "cols": 2, "min": "0", "max": "5000",
          "init": {"shape": "list", "v": ["300", "2000"]}}
    specs = [plate, tr]
    wl = {"max_volume": rng.choice(["950", "50", "200", "25/2"]), "max_int": False, "auto_split": True, "diti_mode": rng.random() < 0.2}
    sh = Shadow(specs)
    ws = sh.wells(0)
    a, b, c, d = rng.sample(ws, 4)
    ops = []

    def tr_op(src, sw, dst, dw, v, lab):
        return {"op": "transfer", "src": src, "swells": {"shape": "list", "v": [sw]}, "dst": dst, "dwells": {"shape": "list", "v": [dw]},
                "vols": {"shape": "list", "v": [fs(v)]}, "label": lab, "ws": rng.choice([1, "flush", "reuse"])}
    va = sh.vol(0, a)
    ops.append(tr_op(0, a, 0, b, va, "drain"))            # a is now exactly empty
    sh.remove(0, [a], [va]); sh.add(0, [b], [va])
    if rng.random() < 0.5:
        ops.append(tr_op(0, c, 0, a, Fraction(30), "refill"))
        sh.remove(0, [c], [Fraction(30)]); sh.add(0, [a], [Fraction(30)])
    else:
        ops.append(tr_op(1, "A01", 0, a, Fraction(75), "refill from trough"))
        sh.remove(1, ["A01"], [Fraction(75)]); sh.add(0, [a], [Fraction(75)])
    ops.append(tr_op(0, a, 0, d, Fraction(10), "pass on"))
    if rng.random() < 0.5:
        # use up a whole trough column by distribute, then refill it and distribute again
        ops.append({"op": "distribute", "src": 1, "col": 0, "dst": 0, "dwells": {"shape": "list", "v": [b, d][: rng.choice([1, 2])]},
                    "volume": fs(sh.vol(1, "A01") / rng.choice([1, 1])) if False else "25", "label": "dist"})
    return {"dev": "evo", "wl": wl, "labware": specs, "ops": ops, "family": "drain"}


def gen_dtype_program(rng):
    """initial volumes handed over as numpy arrays of a narrower dtype (float32 / float16 / int64, values exactly representable
    in it), limits and volumes that need the full binary64 precision: the tracking must not inherit the argument's dtype"""
    rows, cols = rng.choice([(2, 3), (2, 2), (3, 2)])
    eps = Fraction(1, 1 << rng.choice([26, 30, 34]))
    mx = Fraction(rng.choice([100, 250, 300])) + rng.choice([0, 1]) * eps
    mn = Fraction(rng.choice([0, 5, 10])) + rng.choice([0, 1]) * eps
    dtype = rng.choice(["float32", "float32", "float16", "int64"])
    vols = [[fs(rng.choice([40, 50, 60, 70, 80, 90])) for _ in range(cols)] for _ in range(rows)]
    plate = {"kind": "plate", "name": rng.choice(["plate", "MTP"]), "rows": rows, "cols": cols, "min": fs(mn), "max": fs(mx),
             "init": {"shape": "2d", "v": vols}, "init_dtype": dtype}
    tr = {"kind": "trough", "name": "waste", "vrows": 2, "cols": 2, "min": "0", "max": "100000",
          "init": {"shape": "list", "v": ["1000", "2000"]}, "init_dtype": rng.choice(["float32", "int64"])}
    specs = [plate, tr]
    wl = {"max_volume": "950", "max_int": False, "auto_split": True, "diti_mode": False}
    sh = Shadow(specs)
    ops = []
    ws = sh.wells(0)
    for w in rng.sample(ws, min(4, len(ws))):
        kind = rng.choice(["fill", "drain", "add", "transfer_in"])
        if kind == "fill":      # exactly up to max_volume
            v = mx - sh.vol(0, w)
            ops.append({"op": "add", "lw": 0, "wells": {"shape": "list", "v": [w]}, "vols": {"shape": "list", "v": [fs(v)]}, "label": "fill"})
            sh.add(0, [w], [v])
        elif kind == "drain":   # exactly down to min_volume, through the worklist
            v = sh.vol(0, w) - mn
            ops.append({"op": "transfer", "src": 0, "swells": {"shape": "list", "v": [w]}, "dst": 1, "dwells": {"shape": "list", "v": ["A01"]},
                        "vols": {"shape": "list", "v": [fs(v)]}, "label": "drain", "ws": 1})
            sh.remove(0, [w], [v]); sh.add(1, ["A01"], [v])
        elif kind == "add":
            v = Fraction(rng.choice([1, 3, 7])) + eps
            ops.append({"op": "add", "lw": 0, "wells": {"shape": "list", "v": [w]}, "vols": {"shape": "list", "v": [fs(v)]}, "label": None})
            sh.add(0, [w], [v])
        else:
            v = Fraction(rng.choice([2, 5])) + eps
            ops.append({"op": "transfer", "src": 1, "swells": {"shape": "list", "v": ["B02"]}, "dst": 0, "dwells": {"shape": "list", "v": [w]},
                        "vols": {"shape": "list", "v": [fs(v)]}, "label": "in", "ws": 1})
            sh.remove(1, ["B02"], [v]); sh.add(0, [w], [v])
    return {"dev": "evo", "wl": wl, "labware": specs, "ops": ops, "family": "dtype"}



def gen_wide_program(rng):
    """labware whose well ids have different lengths (column 100 and beyond next to a small plate): id arrays must not be
    truncated to the other labware's id width"""
    small = {"kind": "plate", "name": "src", "rows": 2, "cols": 3, "min": "0", "max": "1000", "init": {"shape": "scalar", "v": "500"}}
    cols = rng.choice([100, 101, 120])
    wide = {"kind": "plate", "name": "wide", "rows": 2, "cols": cols, "min": "0", "max": "1000", "init": None}
    order = rng.random() < 0.5
    specs = [small, wide] if order else [wide, small]
    ks, kw_ = (0, 1) if order else (1, 0)
    wl = {"max_volume": "950", "max_int": False, "auto_split": True, "diti_mode": False}
    far = [wid(r, c) for r in range(2) for c in (cols - 1, cols - 2, 99, 9, 0)]
    ops = []
    for _ in range(3):
        d = rng.sample(far, rng.choice([1, 2, 3]))
        sw = [wid(rng.randrange(2), rng.randrange(3)) for _ in d]
        vols = [fs(rng.choice([3, 5, 10, 12])) for _ in d]
        ops.append({"op": "transfer", "src": ks, "swells": {"shape": "list", "v": sw}, "dst": kw_, "dwells": {"shape": "list", "v": d},
                    "vols": {"shape": "list", "v": vols}, "label": "to the far columns", "ws": 1})
    back = rng.sample(far, 2)
    ops.append({"op": "dispense", "lw": kw_, "wells": {"shape": "list", "v": back}, "vols": {"shape": "scalar", "v": "20"}, "label": None, "kw": None})
    ops.append({"op": "transfer", "src": kw_, "swells": {"shape": "list", "v": back}, "dst": ks, "dwells": {"shape": "list", "v": ["A01", "B03"]},
                "vols": {"shape": "scalar", "v": "7"}, "label": "back", "ws": "flush"})
    return {"dev": "evo", "wl": wl, "labware": specs, "ops": ops, "family": "wide"}


def gen_dilute_program(rng):
    """serial dilutions over many orders of magnitude (1 : 1024 per step): tiny fractions are still components"""
    rows, cols = 2, 4
    plate = {"kind": "plate", "name": rng.choice(["plate", "DWP-2"]), "rows": rows, "cols": cols, "min": "0", "max": "2000", "init": {"shape": "2d", "v": [["1024", "1023", "1023", "1023"], ["1024", "1023", "1023", "1023"]]},
             "names": {"A01": "stock", "B01": "dye"}}
    tr = {"kind": "trough", "name": "water", "vrows": 2, "cols": 1, "min": "0", "max": "100000", "init": {"shape": "scalar", "v": "50000"}}
    specs = [plate, tr]
    wl = {"max_volume": rng.choice(["950", "200"]), "max_int": False, "auto_split": True, "diti_mode": False}
    ops = []
    for c in range(cols - 1):
        ops.append({"op": "transfer", "src": 0, "swells": {"shape": "list", "v": [wid(0, c), wid(1, c)]}, "dst": 0,
                    "dwells": {"shape": "list", "v": [wid(0, c + 1), wid(1, c + 1)]}, "vols": {"shape": "scalar", "v": "1"}, "label": f"1:1024 step {c + 1}", "ws": 1})
    # pass the most dilute wells on once more, and top up with water
    ops.append({"op": "transfer", "src": 1, "swells": {"shape": "list", "v": ["A01", "B01"]}, "dst": 0, "dwells": {"shape": "list", "v": [wid(0, cols - 1), wid(1, cols - 1)]},
                "vols": {"shape": "scalar", "v": "100"}, "label": "top up", "ws": 1})
    ops.append({"op": "transfer", "src": 0, "swells": {"shape": "list", "v": [wid(0, cols - 1)]}, "dst": 0, "dwells": {"shape": "list", "v": [wid(1, cols - 1)]},
                "vols": {"shape": "list", "v": ["64"]}, "label": "merge", "ws": 1})
    return {"dev": "evo", "wl": wl, "labware": specs, "ops": ops, "family": "dilute"}



def gen_twins_program(rng):
    """two different labware objects with the same name and geometry (e.g. two plates of one type both called "plate"):
    they are two labware, not one - transfers between equal well ids, histories, compositions"""
    kind = rng.choice(["plate", "plate", "trough"])
    name = rng.choice(["plate", "MTP", "stocks"])
    if kind == "plate":
        a = {"kind": "plate", "name": name, "rows": 2, "cols": 3, "min": "0", "max": "1000", "init": {"shape": "2d", "v": [["200", "300", "0"], ["120", "0", "50"]]}}
        b = {"kind": "plate", "name": name, "rows": 2, "cols": 3, "min": "0", "max": "1000", "init": {"shape": "2d", "v": [["100", "0", "80"], ["0", "60", "50"]]}}
        ws = ["A01", "B01", "A02", "B03"]
    else:
        a = {"kind": "trough", "name": name, "vrows": 2, "cols": 2, "min": "0", "max": "5000", "init": {"shape": "list", "v": ["900", "400"]}}
        b = {"kind": "trough", "name": name, "vrows": 2, "cols": 2, "min": "0", "max": "5000", "init": {"shape": "list", "v": ["100", "700"]}}
        ws = ["A01", "B01", "A02", "B02"]
    third = {"kind": "plate", "name": "other", "rows": 2, "cols": 2, "min": "0", "max": "500", "init": {"shape": "scalar", "v": "40"}}
    specs = [a, b, third]
    wl = {"max_volume": rng.choice(["950", "50", "25/2"]), "max_int": False, "auto_split": True, "diti_mode": False}
    ops = []
    w = rng.choice(ws[:2])
    ops.append({"op": "transfer", "src": 0, "swells": {"shape": "list", "v": [w]}, "dst": 1, "dwells": {"shape": "list", "v": [w]},
                "vols": {"shape": "list", "v": [rng.choice(["30", "60", "100"])]}, "label": rng.choice(["same id, other labware", None, ""]), "ws": 1})
    ops.append({"op": "transfer", "src": 0, "swells": {"shape": "list", "v": ws[:2]}, "dst": 1, "dwells": {"shape": "list", "v": ws[:2]},
                "vols": {"shape": "list", "v": ["20", "35"]}, "label": "pairwise", "ws": rng.choice([1, "flush"])})
    ops.append({"op": "aspirate", "lw": 1, "wells": {"shape": "list", "v": [w]}, "vols": {"shape": "list", "v": ["5"]}, "label": None, "kw": None})
    ops.append({"op": "transfer", "src": 1, "swells": {"shape": "list", "v": [w]}, "dst": 0, "dwells": {"shape": "list", "v": [w]},
                "vols": {"shape": "list", "v": ["10"]}, "label": "back", "ws": 1})
    ops.append({"op": "transfer", "src": 0, "swells": {"shape": "list", "v": [w]}, "dst": 0, "dwells": {"shape": "list", "v": [w]},
                "vols": {"shape": "list", "v": ["15"]}, "label": "really the same well", "ws": 1})
    return {"dev": "evo", "wl": wl, "labware": specs, "ops": ops, "family": "twins"}



def gen_retune_program(rng):
    """the worklist's max_volume is re-assigned between calls (other tips / syringe): every later call is judged by the value
    in force when it runs.  Oracle-only (the model has no such operation)."""
    plate = {"kind": "plate", "name": "plate", "rows": 2, "cols": 3, "min": "0", "max": "5000", "init": {"shape": "scalar", "v": "2500"}}
    tr = {"kind": "trough", "name": "water", "vrows": 2, "cols": 1, "min": "0", "max": "100000", "init": {"shape": "scalar", "v": "50000"}}
    m1, m2 = rng.choice([("950", "200"), ("200", "950"), ("1000", "375/2"), ("375/2", "1000"), ("50", "500")])
    wl = {"max_volume": m1, "max_int": False, "auto_split": rng.random() < 0.7, "diti_mode": False}
    v = rng.choice(["300", "375", "750", "190"])

    def tr_op():
        return {"op": "transfer", "src": 1, "swells": {"shape": "list", "v": ["A01"]}, "dst": 0, "dwells": {"shape": "list", "v": ["A01"]},
                "vols": {"shape": "list", "v": [v]}, "label": None, "ws": 1}
    ops = [tr_op(), {"op": "set_max", "v": m2}, tr_op(),
           {"op": "transfer", "src": 1, "swells": {"shape": "list", "v": ["B01"]}, "dst": 0, "dwells": {"shape": "list", "v": ["B02"]},
            "vols": {"shape": "list", "v": [fs(Fraction(m2) + Fraction(1, 8))]}, "label": "just above the new limit", "ws": 1},
           {"op": "set_max", "v": m1}, tr_op()]
    return {"dev": "evo", "wl": wl, "labware": [plate, tr], "ops": ops, "family": "retune"}


def gen_program(rng, family, nops=None):
    if family == "retune":
        return gen_retune_program(rng)
    if family == "twins":
        return gen_twins_program(rng)
    if family == "wide":
        return gen_wide_program(rng)
    if family == "dilute":
        return gen_dilute_program(rng)
    if family == "drain":
        return gen_drain_program(rng)
    if family == "dtype":
        return gen_dtype_program(rng)
    specs = gen_labware(rng, big=(family == "big"))
    wl = gen_wl(rng)
    sh = Shadow(specs)
    nops = nops or rng.choice([2, 4, 6, 8, 10])
    ops = []
    n = len(specs)
    for i in range(nops):
        last = i == nops - 1
        valid = not (family == "fault" and last) and rng.random() < 0.93
        k = rng.randrange(n)
        k2 = rng.randrange(n)
        r = rng.random()
        if family == "lwops":
            r2 = rng.random()
            if r2 < 0.45:
                ops.append(op_add(rng, sh, k, valid))
            elif r2 < 0.9:
                ops.append(op_remove(rng, sh, k, valid))
            else:
                ops.append({"op": "condense", "lw": k, "n": rng.choice([1, 1, 2]), "label": rng.choice(["last", "first", "merged", None]), "explicit_label": True})
            continue
        if family == "transfer" or (family in ("mixed", "fault", "big") and r < 0.4):
            ops.append(op_transfer(rng, sh, k, k2, valid, wl))
        elif r < 0.5 and troughs(specs):
            ops.append(op_distribute(rng, sh, rng.choice(troughs(specs)), k2, valid, wl))
        elif r < 0.62:
            ops.append(op_aspirate(rng, sh, k, valid))
        elif r < 0.74:
            ops.append(op_dispense(rng, sh, k, valid))
        elif r < 0.80:
            ops.append(op_add(rng, sh, k, valid))
        elif r < 0.86:
            ops.append(op_remove(rng, sh, k, valid))
        else:
            ops.append(simple_wl_op(rng))
    if family == "fault":
        ops[-1] = make_fault(rng, ops[-1], specs, sh, wl)
    return {"dev": "evo", "wl": wl, "labware": specs, "ops": ops, "family": family}


def make_fault(rng, op, specs, sh, wl):
    """turn the last call into one that is refused somewhere in the middle"""
    r = rng.random()
    k = op["op"]
    if k in ("transfer", "aspirate", "dispense", "add", "remove") and r < 0.25:
        # unknown well id at a random position
        field = {"transfer": rng.choice(["swells", "dwells"])}.get(k, "wells")
        a = op[field]
        bad = rng.choice(["A1", "A001", "a01", "AB01", "Z99", "", "01", "H13x"])
        if a["shape"] == "scalar":
            a["v"] = bad
        elif a["shape"] == "list" and a["v"]:
            a["v"][rng.randrange(len(a["v"]))] = bad
        elif a["shape"] == "2d":
            row = rng.choice(a["v"])
            row[rng.randrange(len(row))] = bad
        return op
    if k == "transfer" and r < 0.33:
        # broadcast one side and hide an unknown id behind valid ones on the other
        side, other = rng.choice([("dwells", "swells"), ("swells", "dwells")])
        lw_side = op["dst"] if side == "dwells" else op["src"]
        lw_other = op["src"] if side == "dwells" else op["dst"]
        ws = sh.wells(lw_side)
        n = rng.choice([2, 3, 4])
        lst = [rng.choice(ws) for _ in range(n)]
        lst[rng.randrange(1, n)] = rng.choice(["A1", "A001", "a01", "AB01", "Z99", "H13x"])
        op[side] = {"shape": "list", "v": lst}
        op[other] = {"shape": rng.choice(["scalar", "list"]), "v": sh.wells(lw_other)[0]}
        if op[other]["shape"] == "list":
            op[other]["v"] = [op[other]["v"]]
        op["vols"] = {"shape": "scalar", "v": "1"}
        return op
    if k == "transfer" and r < 0.45:
        op["ws"] = rng.choice([0, 5, {"other": "float2"}, {"other": "str"}])
        return op
    if k == "transfer" and r < 0.55:
        op["pb"] = rng.choice(["sources", "column", ""])
        return op
    if k == "transfer" and r < 0.65:
        # incompatible lengths in every pattern (a, a, b), (a, b, b), (a, b, a), (a, b, c); none of them 1
        pat = rng.choice([(3, 3, 2), (2, 3, 3), (3, 2, 3), (2, 3, 4), (4, 4, 3), (2, 2, 3)])
        sw, dw = sh.wells(op["src"]), sh.wells(op["dst"])
        op["swells"] = {"shape": "list", "v": [sw[j % len(sw)] for j in range(pat[0])]}
        op["dwells"] = {"shape": "list", "v": [dw[j % len(dw)] for j in range(pat[1])]}
        op["vols"] = {"shape": "list", "v": ["1", "2", "1/2", "3"][: pat[2]]}
        return op
    if k == "transfer" and r < 0.75:
        a = op["vols"]
        if a["shape"] == "list" and a["v"]:
            a["v"][rng.randrange(len(a["v"]))] = rng.choice(["-5", "-1/2"])
        elif a["shape"] == "scalar":
            a["v"] = "-3"
        return op
    if k in ("transfer", "aspirate", "dispense") and r < 0.9:
        kw = dict(op.get("kw") or {})
        kw[rng.choice(["liquid_class", "rack_id", "tube_id", "rack_type", "forced_rack_type"])] = rng.choice(["a;b", "x" * 33, {"notstr": "none"}])
        if rng.random() < 0.3:
            kw["tip"] = rng.choice([{"one": ["i", 0]}, {"one": ["i", 9]}, {"many": [["i", 1], ["any"]]}, {"one": ["o", "float:1.5"]}])
        op["kw"] = kw
        return op
    return op


def with_devices(case, devs=("evo", "fluent")):
    out = []
    for d in devs:
        c = dict(case)
        c["dev"] = d
        out.append(c)
    return out


# --------------------------------------------------------------------------- bounded-exhaustive small scope


def small_alphabet():
    """a fixed alphabet of calls on a 2x2 plate P (index 0) and a 2-virtual-row, 2-column trough T (index 1), chosen at the
    boundaries: exactly at a limit, one unit beyond, partial effects, splits, same well, virtual rows, zero volumes"""
    sc = lambda v: {"shape": "scalar", "v": v}
    ls = lambda v: {"shape": "list", "v": v}
    half = {"water": "1/2", "glc": "1/2"}
    A = []
    A.append({"op": "add", "lw": 0, "wells": sc("A01"), "vols": sc("50"), "label": "to max"})
    A.append({"op": "add", "lw": 0, "wells": sc("A01"), "vols": sc("51"), "label": None})
    A.append({"op": "add", "lw": 0, "wells": ls(["A02", "B01"]), "vols": ls(["10", "1"]), "label": "partial", "comps": [half, None]})
    A.append({"op": "add", "lw": 0, "wells": ls(["A02", "A02"]), "vols": sc("0"), "label": "", "comps": [{"water": "1"}, {"glc": "1"}]})
    A.append({"op": "remove", "lw": 0, "wells": sc("B02"), "vols": sc("0"), "label": "at min"})
    A.append({"op": "remove", "lw": 0, "wells": ls(["B01", "B02"]), "vols": ls(["50", "1"]), "label": "partial"})
    A.append({"op": "remove", "lw": 1, "wells": ls(["A01", "B01"]), "vols": ls(["75", "75"]), "label": "alias"})
    A.append({"op": "aspirate", "lw": 0, "wells": sc("A01"), "vols": sc("40"), "label": "max step"})
    A.append({"op": "aspirate", "lw": 0, "wells": ls(["A01", "B01"]), "vols": ls(["5", "41"]), "label": "too big", "kw": {"liquid_class": "Water"}})
    A.append({"op": "aspirate", "lw": 0, "wells": ls(["A01", "B01"]), "vols": ls(["10", "95"]), "label": None})
    A.append({"op": "dispense", "lw": 0, "wells": sc("A02"), "vols": sc("40"), "label": "d", "comps": [half], "kw": {"tip": {"many": [["i", 1], ["t", 3]]}}})
    A.append({"op": "dispense", "lw": 0, "wells": ls(["A02", "B01"]), "vols": ls(["5", "1"]), "label": None})
    A.append({"op": "dispense", "lw": 1, "wells": ls(["B02", "A02"]), "vols": sc("30"), "label": "trough", "comps": [{"acid": "1"}, {"acid": "1"}]})
    A.append({"op": "transfer", "src": 1, "swells": sc("A01"), "dst": 0, "dwells": sc("A02"), "vols": sc("90"), "label": "split"})
    A.append({"op": "transfer", "src": 0, "swells": sc("A01"), "dst": 0, "dwells": sc("A01"), "vols": sc("20"), "label": "mix", "ws": "reuse"})
    A.append({"op": "transfer", "src": 0, "swells": ls(["A01", "B01"]), "dst": 0, "dwells": ls(["B01", "A01"]), "vols": ls(["30", "30"]), "label": "swap", "ws": "flush"})
    A.append({"op": "transfer", "src": 1, "swells": ls(["A01", "B01"]), "dst": 0, "dwells": ls(["A02", "B02"]), "vols": sc("10"), "label": "first", "pb": "destination"})
    A.append({"op": "transfer", "src": 0, "swells": sc("B01"), "dst": 1, "dwells": sc("B02"), "vols": sc("95"), "label": "underflows midway", "ws": 2})
    A.append({"op": "transfer", "src": 0, "swells": ls(["A01", "B01"]), "dst": 1, "dwells": sc("A02"), "vols": ls(["0", "0"]), "label": "nothing"})
    A.append({"op": "transfer", "src": 0, "swells": {"shape": "2d", "v": [["A01", "A02"], ["B01", "B02"]]}, "dst": 1,
              "dwells": {"shape": "2d", "v": [["A01", "A02"], ["B01", "B02"]]}, "vols": {"shape": "2d", "v": [["1", "0"], ["2", "0"]]}, "label": None, "ws": 5})
    A.append({"op": "distribute", "src": 1, "col": 0, "dst": 0, "dwells": ls(["A02", "B02"]), "volume": "20", "label": "dist"})
    A.append({"op": "distribute", "src": 1, "col": 1, "dst": 0, "dwells": ls(["A02"]), "volume": {"int": 5}})
    A.append({"op": "distribute", "src": 1, "col": 0, "dst": 0, "dwells": ls(["A01", "B01"]), "volume": "20", "multi_disp": 6})
    A.append({"op": "distribute", "src": 1, "col": 0, "dst": 1, "dwells": ls(["A02", "B02"]), "volume": "10", "label": "self"})
    A.append({"op": "distribute", "src": 1, "col": 0, "dst": 0, "dwells": ls(["A02"]), "volume": "41"})
    A.append({"op": "comment", "text": "note"})
    A.append({"op": "wash", "scheme": 3})
    A.append({"op": "commit"})
    A.append({"op": "set_diti", "i": 2})
    A.append({"op": "condense", "lw": 0, "n": 2, "label": "merged", "explicit_label": True})
    return A


def small_labware():
    return [{"kind": "plate", "name": "P", "rows": 2, "cols": 2, "min": "10", "max": "100",
             "init": {"shape": "2d", "v": [["50", "0"], ["100", "10"]]}, "names": {"A01": "glc"}},
            {"kind": "trough", "name": "T", "vrows": 2, "cols": 2, "min": "0", "max": "200", "init": {"shape": "list", "v": ["150", "0"]}}]


def gen_length_programs():
    """every pattern of incompatible argument lengths (none of them 1) x plate / trough as source and destination:
    only singletons are broadcast, whatever the labware"""
    out = []
    bad = [(["A01", "B01"], ["A01", "B01", "C01"], ["10", "20", "30"]), (["A01", "B01"], ["A02", "B02", "C02", "D02"], "25"),
           (["A01", "B01", "C01"], ["A01", "B01"], ["10", "20", "30"]), (["A01", "B01", "C01", "D01"], ["A03", "B03"], "15"),
           (["A01", "B01", "C01"], ["A01", "B01", "C01"], ["10", "20"]), (["A01", "B01"], ["A01", "B01"], ["10", "20", "30", "40"])]

    def mk(kind, name, filled):
        if kind == "plate":
            return {"kind": "plate", "name": name, "rows": 4, "cols": 3, "min": "0", "max": "10000", "init": {"shape": "scalar", "v": "5000" if filled else "0"}}
        return {"kind": "trough", "name": name, "vrows": 4, "cols": 3, "min": "0", "max": "100000", "init": {"shape": "scalar", "v": "50000" if filled else "0"}}
    for sk in ("plate", "trough"):
        for dk in ("plate", "trough"):
            ops = []
            for sw, dw, vols in bad:
                ops.append({"op": "transfer", "src": 0, "swells": {"shape": "list", "v": sw}, "dst": 1, "dwells": {"shape": "list", "v": dw},
                            "vols": {"shape": "scalar", "v": vols} if isinstance(vols, str) else {"shape": "list", "v": vols}, "label": None, "ws": 1})
            # and one compatible call at the end (the singleton is broadcast)
            ops.append({"op": "transfer", "src": 0, "swells": {"shape": "list", "v": ["A01"]}, "dst": 1, "dwells": {"shape": "list", "v": ["A01", "B01", "C01"]},
                        "vols": {"shape": "list", "v": ["10", "20", "30"]}, "label": None, "ws": 1})
            out.append({"dev": "evo", "wl": {"max_volume": "950", "max_int": False, "auto_split": True, "diti_mode": False},
                        "labware": [mk(sk, "src", True), mk(dk, "dst", False)], "ops": ops, "family": "lengths"})
    # limits are exact: a hair beyond max_volume / below min_volume (far less than 1e-5 of the limit) is refused
    for dev_ in ("evo",):
        pl = {"kind": "plate", "name": "P", "rows": 2, "cols": 2, "min": "10", "max": "1000", "init": {"shape": "scalar", "v": "990"}}
        tr = {"kind": "trough", "name": "T", "vrows": 2, "cols": 1, "min": "1000", "max": "100000", "init": {"shape": "scalar", "v": "50000"}}
        ops = [{"op": "dispense", "lw": 0, "wells": {"shape": "list", "v": ["A01"]}, "vols": {"shape": "list", "v": ["1281/128"]}, "label": None, "comps": None, "kw": None},
               {"op": "transfer", "src": 1, "swells": {"shape": "list", "v": ["A01"]}, "dst": 0, "dwells": {"shape": "list", "v": ["B01"]}, "vols": {"shape": "list", "v": ["10241/1024"]}, "label": None, "ws": 1},
               {"op": "aspirate", "lw": 0, "wells": {"shape": "list", "v": ["A02"]}, "vols": {"shape": "list", "v": ["1003521/1024"]}, "label": None, "kw": None},
               {"op": "transfer", "src": 1, "swells": {"shape": "list", "v": ["B01"]}, "dst": 0, "dwells": {"shape": "list", "v": ["B02"]}, "vols": {"shape": "list", "v": ["10"]}, "label": None, "ws": 1},
               {"op": "add", "lw": 0, "wells": {"shape": "list", "v": ["A02"]}, "vols": {"shape": "list", "v": ["641/64"]}, "label": None, "comps": None},
               {"op": "remove", "lw": 1, "wells": {"shape": "list", "v": ["A01"]}, "vols": {"shape": "list", "v": ["6271489/128"]}, "label": None}]
        for k_, op_ in enumerate(ops):
            out.append({"dev": dev_, "wl": {"max_volume": "950", "max_int": False, "auto_split": True, "diti_mode": False},
                        "labware": [pl, tr], "ops": [op_], "family": "lengths"})
    # a single step a hair above the worklist's max_volume (closer than any tolerance worth having), and ids in other spellings
    big = {"kind": "plate", "name": "P", "rows": 2, "cols": 2, "min": "0", "max": "5000", "init": {"shape": "scalar", "v": "2000"}}
    for mv_, v_ in (("950", "121601/128"), ("200", "25601/128"), ("25/2", "1601/128")):
        for op_ in ({"op": "aspirate", "lw": 0, "wells": {"shape": "list", "v": ["A01"]}, "vols": {"shape": "list", "v": [v_]}, "label": None, "kw": None},
                    {"op": "dispense", "lw": 0, "wells": {"shape": "list", "v": ["B02"]}, "vols": {"shape": "list", "v": [v_]}, "label": None, "comps": None, "kw": None}):
            out.append({"dev": "evo", "wl": {"max_volume": mv_, "max_int": False, "auto_split": False, "diti_mode": False}, "labware": [big], "ops": [op_], "family": "lengths"})
    for bad_id in ("B1", "B001", "b01", "C01", "A3"):
        for side in ("dwells", "swells"):
            op_ = {"op": "transfer", "src": 0, "swells": {"shape": "list", "v": ["A01"]}, "dst": 1, "dwells": {"shape": "list", "v": ["A02"]},
                   "vols": {"shape": "list", "v": ["10"]}, "label": None, "ws": 1}
            op_[side] = {"shape": "list", "v": [bad_id]}
            out.append({"dev": "evo", "wl": {"max_volume": "950", "max_int": False, "auto_split": True, "diti_mode": False},
                        "labware": [big, dict(big, name="Q")], "ops": [op_], "family": "lengths"})
    # the special families also with fixed seeds of their own (independent of the main random stream, so that what they
    # pin stays pinned when other generators change)
    import random as _random

    for k_ in range(8):
        for fn in (gen_drain_program, gen_dtype_program, gen_dilute_program, gen_twins_program, gen_wide_program):
            out.append(fn(_random.Random(1000 + k_)))
    # troughs created through the base class, several virtual rows and columns, addressed through every row, on both devices;
    # distribute from a column other than the first
    vt = {"kind": "trough", "name": "water", "vrows": 4, "cols": 3, "min": "0", "max": "100000", "init": {"shape": "list", "v": ["30000", "20000", "10000"]}, "via_labware": True}
    tt = {"kind": "trough", "name": "stocks", "vrows": 8, "cols": 3, "min": "0", "max": "100000", "init": {"shape": "list", "v": ["30000", "20000", "10000"]}}
    pp = {"kind": "plate", "name": "MTP", "rows": 4, "cols": 3, "min": "0", "max": "5000", "init": {"shape": "scalar", "v": "100"}}
    for src_ in (vt, tt):
        ops = [{"op": "transfer", "src": 0, "swells": {"shape": "list", "v": ["B02", "D03", "A01", "C02"]}, "dst": 1, "dwells": {"shape": "list", "v": ["A01", "B02", "C03", "D01"]},
                "vols": {"shape": "list", "v": ["10", "20", "30", "40"]}, "label": "rows", "ws": 1},
               {"op": "distribute", "src": 0, "col": 1, "dst": 1, "dwells": {"shape": "list", "v": ["A02", "B02", "C01"]}, "volume": "15", "label": "from column 2"},
               {"op": "distribute", "src": 0, "col": 2, "dst": 1, "dwells": {"shape": "list", "v": ["D03"]}, "volume": "25", "label": "from column 3"},
               {"op": "aspirate", "lw": 0, "wells": {"shape": "list", "v": ["D02", "A03"]}, "vols": {"shape": "list", "v": ["5", "7"]}, "label": None, "kw": None}]
        out.append({"dev": "evo", "wl": {"max_volume": "950", "max_int": False, "auto_split": True, "diti_mode": False},
                    "labware": [src_, pp], "ops": ops, "family": "lengths"})
    # reagent distributions whose volume is just above max_volume / k: the multi-dispense count must be floored to k - 1
    for mv, vols in (("950", ["7601/16", "1267/4", "3801/16", "475", "1901/4"]), ("200", ["1601/16", "401/8", "100"])):
        ops = [{"op": "distribute", "src": 0, "col": 0, "dst": 1, "dwells": {"shape": "list", "v": ["A01", "B01", "C01"]}, "volume": v,
                "multi_disp": md, "label": "md"} for v in vols for md in (6, 2)]
        out.append({"dev": "evo", "wl": {"max_volume": mv, "max_int": False, "auto_split": True, "diti_mode": False},
                    "labware": [mk("trough", "src", True), mk("plate", "dst", False)], "ops": ops, "family": "lengths"})
    return out


def gen_small_programs(length, autosplit=True, diti=False, sample=None, rng=None):
    import itertools

    A = small_alphabet()
    seqs = itertools.product(range(len(A)), repeat=length)
    if sample is not None:
        seqs = [tuple(rng.randrange(len(A)) for _ in range(length)) for _ in range(sample)]
    for idx in seqs:
        import copy

        yield {"dev": "evo", "wl": {"max_volume": "40", "max_int": True, "auto_split": autosplit, "diti_mode": diti},
               "labware": small_labware(), "ops": [copy.deepcopy(A[i]) for i in idx], "family": "small%d" % length}
