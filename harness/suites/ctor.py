from harness.suites.pure import CtorSuite

SUITE = CtorSuite()
