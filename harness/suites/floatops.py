"""Suite `floatops` (oracle only, no Coq side): direct and worklist-level additions/removals with NON-dyadic decimal
volumes and limits, huge and infinite values.  The Gallina model idealises floats as exact rationals, so these
inputs are outside the domain on which model and code can be compared; the C02 oracle is evaluated directly on what
the real code did with them (limits respected on the stored floats, offending well left bit-identical)."""
import random

from harness.core import errcode


class FloatOpsSuite:
    name = "floatops"
    module = "harness.suites.floatops"
    coq_module = None
    rule = (
        "oracle-only stream: plates and troughs with decimal (non-dyadic) min/max/initial volumes; single- and multi-well "
        "add/remove/aspirate/dispense/transfer with decimal volumes chosen to land exactly on, one rounding step beyond, and far "
        "beyond the limits, plus 1e18, 1e300 and inf; non-trivial = call whose exact result lies within 1e-9 of a limit or "
        "that is rejected with a volume violation"
    )

    def gen(self, tier, seed):
        rng = random.Random(seed + 1234)
        cases = []
        n = 600 if tier == "quick" else 20000
        decs = [0.1, 0.2, 0.3, 0.4, 0.7, 1.04, 0.66, 1.1, 2.2, 3.3, 0.05, 0.15, 12.34, 99.99, 0.30000000000000004]
        for _ in range(n):
            mn = rng.choice([0.0, 0.1, 0.3, 1.7, 5.05])
            mx = mn + rng.choice([1.6, 1.7, 10.1, 100.3, 249.9, 250.0])
            init = min(mx, max(0.0, round(rng.uniform(mn, mx), rng.choice([1, 2, 3, 17]))))  # rounding must not leave [0, max]
            trough = rng.random() < 0.3
            ops = []
            cur = init
            for _k in range(rng.choice([1, 2, 3, 5])):
                kind = rng.choice(["add", "remove", "aspirate", "dispense", "transfer"])
                r = rng.random()
                if kind in ("add", "dispense"):
                    room = mx - cur
                    v = room if r < 0.3 else (room + rng.choice([1e-16, 1e-13, 0.1]) if r < 0.45 else (rng.choice(decs) if r < 0.8 else rng.choice([1e18, 1e300, float("inf")])))
                else:
                    avail = cur - mn
                    v = avail if r < 0.3 else (avail + rng.choice([1e-16, 1e-13, 0.1]) if r < 0.45 else (rng.choice(decs) if r < 0.8 else rng.choice([1e18, 1e300, float("inf")])))
                v = abs(v)
                ops.append({"op": kind, "v": repr(v)})
                # optimistic shadow (only to steer the generator)
                if kind in ("add", "dispense") and cur + v <= mx:
                    cur += v
                elif kind in ("remove", "aspirate") and cur - v >= mn:
                    cur -= v
            cases.append({"min": repr(mn), "max": repr(mx), "init": repr(init), "trough": trough, "ops": ops})
        return cases

    def run(self, case):
        import numpy
        import robotools

        mn, mx, init = float(case["min"]), float(case["max"]), float(case["init"])
        if case["trough"]:
            lw = robotools.Trough("T", 4, 2, min_volume=mn, max_volume=mx, initial_volumes=init)
            other = robotools.Trough("O", 4, 2, min_volume=0, max_volume=1e6, initial_volumes=5e5)
            well, well2 = "C02", "A01"
        else:
            lw = robotools.Labware("P", 2, 3, min_volume=mn, max_volume=mx, initial_volumes=init)
            other = robotools.Labware("O", 2, 3, min_volume=0, max_volume=1e6, initial_volumes=5e5)
            well, well2 = "B02", "A01"
        wl = robotools.EvoWorklist(max_volume=1e7, auto_split=False)
        steps = []
        for op in case["ops"]:
            v = float(op["v"])
            before = lw.volumes.copy()
            exc = None
            try:
                k = op["op"]
                if k == "add":
                    lw.add(well, v)
                elif k == "remove":
                    lw.remove(well, v)
                elif k == "aspirate":
                    wl.aspirate(lw, [well2, well], [0, v])
                elif k == "dispense":
                    wl.dispense(lw, [well2, well], [0, v])
                else:
                    wl.transfer(lw, well, other, well2, v)
            except Exception as e:
                exc = e
            after = lw.volumes
            idx = lw.indices[well]
            steps.append({
                "exc": type(exc).__name__ if exc else None,
                "before": float(before[idx]), "after": float(after[idx]),
                "same_bits": bool(before[idx].tobytes() == after[idx].tobytes()),
                "others_unchanged": bool(numpy.array_equal(numpy.delete(before.flatten(), numpy.ravel_multi_index(idx, before.shape)),
                                                           numpy.delete(after.flatten(), numpy.ravel_multi_index(idx, after.shape)), equal_nan=True)),
                "min_all": float(numpy.nanmin(after)) if not numpy.isnan(after).all() else float("nan"),
                "max_all": float(numpy.nanmax(after)) if not numpy.isnan(after).all() else float("nan"),
                "any_nan": bool(numpy.isnan(after).any()),
            })
        return {"steps": steps, "err": None}

    def emit(self, case, obs):
        raise NotImplementedError

    def nontrivial(self, case, obs):
        mn, mx = float(case["min"]), float(case["max"])
        return any(s["exc"] in ("VolumeOverflowError", "VolumeUnderflowError") or abs(s["after"] - mn) < 1e-9 or abs(s["after"] - mx) < 1e-9 for s in obs["steps"])

    def kind(self, case, obs):
        excs = [s["exc"] for s in obs["steps"] if s["exc"]]
        return ("trough:" if case["trough"] else "plate:") + (excs[-1] if excs else "ok")

    def oracle_C02(self, case, obs):
        bad = []
        mn, mx = float(case["min"]), float(case["max"])
        for i, (op, st) in enumerate(zip(case["ops"], obs["steps"])):
            k = op["op"]
            adding = k in ("add", "dispense")
            if st["any_nan"]:
                bad.append(f"finite: call {i} ({k} {op['v']}) left NaN in the labware")
                continue
            if st["min_all"] < 0:
                bad.append(f"negative: call {i} ({k} {op['v']}) left a negative volume {st['min_all']!r}")
            if st["exc"] is None:
                if adding and st["after"] > mx:
                    bad.append(f"max: call {i} ({k} {op['v']}) returned normally and left the well at {st['after']!r} above max_volume {mx!r}")
                if not adding and st["after"] < mn:
                    bad.append(f"min: call {i} ({k} {op['v']}) returned normally and left the well at {st['after']!r} below min_volume {mn!r}")
            else:
                want = "VolumeOverflowError" if adding else "VolumeUnderflowError"
                if st["exc"] in ("VolumeOverflowError", "VolumeUnderflowError"):
                    if st["exc"] != want:
                        bad.append(f"error-class: call {i} ({k}) raised {st['exc']}")
                    if not st["same_bits"]:
                        bad.append(f"offending-unchanged: call {i} ({k} {op['v']}) was rejected with {st['exc']} but changed the well from {st['before']!r} to {st['after']!r}")
            if not st["others_unchanged"]:
                bad.append(f"frame: call {i} ({k}) changed other wells")
        return bad[:5]


SUITE = FloatOpsSuite()
