from harness.suites.pure import SelSuite

SUITE = SelSuite()
