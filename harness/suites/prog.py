"""Suite `prog`: whole programs on EvoWorklist / FluentWorklist / BaseWorklist (serves C01-C07, C09, C11, C16)."""
import random

from harness.suites import progbase, proggen
from harness.suites.progoracles import ORACLES


class ProgBaseSuite:
    name = "prog"
    module = "harness.suites.prog"
    coq_module = "CheckProg"
    families = (("mixed", 0.25), ("transfer", 0.26), ("fault", 0.22), ("lwops", 0.06), ("drain", 0.04), ("dtype", 0.04), ("wide", 0.02), ("dilute", 0.02), ("twins", 0.03), ("retune", 0.03), ("big", 0.03))
    counts = {"quick": 220, "thorough": 6000}
    devices = ("evo", "fluent", "base")
    rule = (
        "random programs (1-4 plates/troughs, 2-10 calls of add/remove/aspirate/dispense/transfer/distribute/"
        "comment/wash/flush/commit/decontaminate/set_diti) from families mixed/transfer/fault/lwops/drain/dtype (initial volumes as float32/float16/int arrays)/wide (column >= 100 next to a small plate)/dilute (1:1024 series)/twins (two labware objects with one name and geometry)/retune (max_volume re-assigned between calls; oracle-only)/big, every program "
        "run on EvoWorklist and FluentWorklist (and one in five on BaseWorklist); volumes dyadic, chosen against a shadow "
        "of the volumes so that most calls succeed, the fault family ends with a call refused at a chosen sub-step; "
        "plus EVERY pair of calls from a fixed 30-call boundary-value alphabet on a 2x2 plate and a 2x2 trough (thorough: also without "
        "auto_split, and 6000 sampled triples); "
        "non-trivial = at least one call appended a record and at least one call changed a labware; distinct = distinct case JSON"
    )

    def gen(self, tier, seed):
        rng = random.Random(seed * 7919 + 11)
        n = self.counts[tier]
        cases = []
        for i in range(n):
            r = rng.random()
            acc = 0
            fam = self.families[-1][0]
            for f, p in self.families:
                acc += p
                if r < acc:
                    fam = f
                    break
            base = proggen.gen_program(rng, fam)
            devs = ["evo", "fluent"] + (["base"] if i % 5 == 0 else [])
            devs = [d for d in devs if d in self.devices]
            cases += proggen.with_devices(base, devs)
        for base in proggen.gen_length_programs():
            cases += proggen.with_devices(base, [d for d in ("evo", "fluent") if d in self.devices])
        # bounded-exhaustive small scope: every pair of calls from a fixed boundary-value alphabet (thorough: both
        # split settings, and a sample of triples)
        for base in proggen.gen_small_programs(2, autosplit=True):
            cases += proggen.with_devices(base, ["evo", "fluent"] if len(cases) % 3 == 0 else ["evo"])
        if tier == "thorough":
            for base in proggen.gen_small_programs(2, autosplit=False):
                cases += proggen.with_devices(base, ["fluent"])
            for base in proggen.gen_small_programs(3, sample=6000, rng=rng):
                cases += proggen.with_devices(base, ["evo", "fluent"])
        return cases

    def run(self, case):
        return progbase.run_program(case)

    def emit(self, case, obs):
        return progbase.emit_program(case, obs)

    def nontrivial(self, case, obs):
        steps = obs.get("steps", [])
        if not steps:
            return False
        rec = any(s["recs"] for s in steps)
        init = obs["initial"]
        changed = any(s["lw"][k]["vols"] != init[k]["vols"] for s in steps for k in range(len(init)))
        return rec and changed

    def kind(self, case, obs):
        errs = [s["exc"] for s in obs.get("steps", []) if s["exc"]]
        return f"{case.get('family')}:{case['dev']}:" + ("ok" if not errs else errs[-1])


class ProgSuite(ProgBaseSuite):
    pass


for _pid, _fn in ORACLES.items():
    setattr(ProgSuite, f"oracle_{_pid}", staticmethod(_fn))

SUITE = ProgSuite()
