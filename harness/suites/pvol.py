from harness.suites.pure import PvolSuite

SUITE = PvolSuite()
