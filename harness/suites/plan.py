"""Suite `plan`: DilutionPlan.__init__ and .to_worklist (serves C14).  Coq side: CheckPure.KPlan / KToWl."""
import math
import random
from fractions import Fraction

from harness.core import carr, cbool, clist, copt, cq, cstr, cz, errcode, frac_str, to_float
from harness.suites import progbase
from harness.suites.proggen import fs, wid

TWO40 = 1 << 40
EPS = Fraction(1, 1 << 30)


def near_half(x):
    return abs((x - Fraction(1, 2)) - math.floor(x - Fraction(1, 2)) - 0) < EPS or abs(math.ceil(x - Fraction(1, 2)) - (x - Fraction(1, 2))) < EPS


def near_int(x):
    return abs(x - round(x)) < EPS


def rint(x):
    f = math.floor(x)
    d = x - f
    if d < Fraction(1, 2):
        return f
    if d > Fraction(1, 2):
        return f + 1
    return f if f % 2 == 0 else f + 1


def exact_plan(ideal_cols, stock, vmax, min_transfer):
    """Independent re-computation in exact arithmetic (also used by the oracle).
    Returns (instructions, x, boundary_hit)."""
    C = len(ideal_cols)
    instr, xs, hit = [], [], False
    for c in range(C):
        args = [vmax[c] * t / stock for t in ideal_cols[c]]
        hit |= any(near_half(a) for a in args)
        vt = [rint(a) for a in args]
        if all(v >= min_transfer for v in vt):
            instr.append((c, 0, None, vt))
            xs.append([Fraction(v) / vmax[c] * stock for v in vt])
        else:
            break
    for c in range(len(instr), C):
        for k in range(len(instr)):
            args = [vmax[c] * t / a for t, a in zip(ideal_cols[c], xs[k])]
            hit |= any(near_int(a) for a in args)
            vt = [math.ceil(a) for a in args]
            if all(v >= min_transfer for v in vt):
                instr.append((c, instr[k][1] + 1, k, vt))
                xs.append([Fraction(v) * a / vmax[c] for v, a in zip(vt, xs[k])])
                break
    return instr, xs, hit


class PlanSuite:
    name = "plan"
    module = "harness.suites.plan"
    coq_module = "CheckPure"
    rule = (
        "DilutionPlan parameter grid R 1..8 (thorough 16), C 1..12 (thorough 24), log and linear, scalar and per-column vmax, "
        "several min_transfer, invalid arguments; the float table plan.ideal_x is handed to the model; cases whose exact "
        "round/ceil argument lies within 2^-30 of a rounding boundary are dropped; a subset of the returned plans is executed "
        "with to_worklist on both devices on sufficiently large (and sometimes too small) labware; non-trivial = returned plan "
        "with at least one serially diluted column"
    )

    def gen(self, tier, seed):
        rng = random.Random(seed + 41)
        cases = []
        n = 260 if tier == "quick" else 8000
        for i in range(n):
            R = rng.choice([1, 2, 3, 4, 8] if tier == "quick" else [1, 2, 3, 4, 8, 16])
            C = rng.choice([1, 2, 3, 4, 6, 12] if tier == "quick" else [1, 2, 3, 4, 6, 12, 24])
            stock = rng.choice(["10", "20", "100", "1000", "25/2"])
            xmax = Fraction(stock) * rng.choice([1, 1, Fraction(1, 2), Fraction(3, 4), Fraction(1, 10)])
            xmin = xmax * rng.choice([Fraction(1, 2), Fraction(1, 10), Fraction(1, 100), Fraction(1, 1000), Fraction(1, 10000), Fraction(9, 10),
                                      Fraction(1, 1 << 34), Fraction(1, 1 << 40)])
            mode = rng.choice(["log", "linear", "log", "linear", "quadratic"] if rng.random() < 0.1 else ["log", "linear"])
            if rng.random() < 0.35:
                vmax = {"shape": "list", "v": [rng.choice(["1000", "950", "500", "200", "1200"]) for _ in range(C if rng.random() < 0.9 else C + 1)]}
            else:
                vmax = {"shape": "scalar", "v": rng.choice(["1000", "950", "200", "100", "1900/2", "19/2"])}
            mt = rng.choice(["1", "5", "10", "20", "50", "4"])
            if rng.random() < 0.05:
                xmax = Fraction(stock) * 2
            case = {"k": "plan", "xmin": frac_float(xmin), "xmax": frac_float(xmax), "R": R, "C": C, "stock": stock, "mode": mode, "vmax": vmax, "min_transfer": mt}
            cases.append(case)
            if i % 4 == 0 and mode in ("log", "linear"):
                for dev in ("evo", "fluent"):
                    cases.append(dict(case, k="towl", dev=dev, exec=exec_params(rng, R, C)))
        # boundary values of min_transfer: where the rows of a serially diluted column disagree about feasibility
        import math as _m

        nb = 150 if tier == "quick" else 4000
        for _ in range(nb):
            R = rng.choice([2, 3, 4, 8])
            C = rng.choice([3, 4, 6, 8, 12])
            stock = rng.choice([10, 100, 1000])
            xmax = stock * rng.choice([1, 1, 0.5])
            xmin = xmax * rng.choice([0.1, 0.01, 0.001, 0.0001])
            vmax = rng.choice([100, 200, 950, 1000])
            N = R * C
            ideal = [_m.exp(_m.log(xmax) + (_m.log(xmin) - _m.log(xmax)) * i / (N - 1)) for i in range(N)]
            cols = [[Fraction(ideal[c * R + r]) for r in range(R)] for c in range(C)]
            try:
                ins, xs, _ = exact_plan(cols, Fraction(stock), [Fraction(vmax)] * C, Fraction(1))
            except ZeroDivisionError:
                continue
            cands = set()
            for c, ds, src, vt in ins:
                if src is not None and len(set(vt)) > 1:
                    cands |= {min(vt) + 1, max(vt), max(vt) + 1}
                elif len(set(vt)) > 1:
                    cands |= {max(vt), min(vt) + 1}
            for mt in sorted(cands)[:4]:
                if mt >= 1:
                    cases.append({"k": "plan", "xmin": frac_float(Fraction(xmin)), "xmax": frac_float(Fraction(xmax)), "R": R, "C": C,
                                  "stock": str(stock), "mode": "log", "vmax": {"shape": "scalar", "v": str(vmax)}, "min_transfer": str(mt)})
        # the parameter sets of the known findings (F11a / F11b) and of the repository's own tests
        for extra in KNOWN_PARAMS:
            cases.append(dict(extra, k="plan"))
            cases.append(dict(extra, k="towl", dev="evo", exec=exec_params(random.Random(1), extra["R"], extra["C"], big=True)))
        # dilutions over more than ten orders of magnitude, executed (tiny fractions must survive composition tracking)
        for R_, C_, e_, mt_ in ((2, 12, 43, "10"), (1, 12, 40, "20"), (1, 8, 36, "50")):
            deep = {"xmin": frac_float(Fraction(1000, 1 << e_)), "xmax": "1000", "R": R_, "C": C_, "stock": "1000", "mode": "log",
                    "vmax": {"shape": "scalar", "v": "1000"}, "min_transfer": mt_}
            for dev in ("evo", "fluent"):
                cases.append(dict(deep, k="towl", dev=dev, deep=True, exec=exec_params(random.Random(e_), R_, C_, big=True)))
        for extra in LATE_LARGE:
            cases.append(dict(extra, k="plan"))
            for dev in ("evo", "fluent"):
                cases.append(dict(extra, k="towl", dev=dev, exec=exec_params(random.Random(5), extra["R"], extra["C"], big=True)))
        cases += self.bad_requests()
        return cases

    @staticmethod
    def bad_requests():
        base = {"xmin": "1/4", "xmax": "10", "R": 4, "C": 3, "stock": "20", "mode": "log", "vmax": {"shape": "scalar", "v": "1000"}, "min_transfer": "20"}
        out = []
        for f, v in (("xmin", "0"), ("xmin", "-1"), ("xmin", "nan"), ("xmax", "nan"), ("stock", "nan"), ("min_transfer", "nan"), ("xmin", "-inf"), ("stock", "inf")):
            out.append(dict(base, k="badreq", **{f: v}))
        out.append(dict(base, k="badreq", vmax={"shape": "scalar", "v": "nan"}))
        out.append(dict(base, k="badreq", mode="linear", xmin="nan"))
        out.append(dict(base, k="badreq", mode="linear", xmax="nan", stock="nan"))
        out.append(dict(base, k="badreq", R=1, C=1, xmin="nan"))
        return out

    def run(self, case):
        import numpy
        import robotools

        kw = dict(xmin=to_float(case["xmin"]), xmax=to_float(case["xmax"]), R=case["R"], C=case["C"], stock=to_float(case["stock"]),
                  mode=case["mode"], min_transfer=to_float(case["min_transfer"]))
        vm = case["vmax"]
        kw["vmax"] = to_float(vm["v"]) if vm["shape"] == "scalar" else [to_float(x) for x in vm["v"]]
        N = case["R"] * case["C"]
        if case.get("k") == "badreq":
            # requests that cannot be met (NaN anywhere, log spacing down to xmin <= 0): outside the model, judged by the oracle
            try:
                plan = robotools.DilutionPlan(**kw)
                xs = [float(v) for v in numpy.asarray(plan.x).flatten()]
                vs = [float(v) for c, ds, src, vt in plan.instructions for v in vt]
                return {"no_model": True, "err": None, "exc": None, "finite": bool(numpy.all(numpy.isfinite(xs + vs + [float(plan.v_stock), float(plan.v_diluent)])))}
            except Exception as e:
                return {"no_model": True, "err": errcode(e), "exc": type(e).__name__}
        # the ideal table as the implementation computes it (input of the model)
        try:
            if case["mode"] == "log":
                ideal = numpy.exp(numpy.linspace(numpy.log(kw["xmax"]), numpy.log(kw["xmin"]), N))
            else:
                ideal = numpy.linspace(kw["xmax"], kw["xmin"], N)
            ideal = ideal.reshape((case["R"], case["C"]), order="F")
            ideal_cols = [[frac_str(Fraction(float(x))) for x in ideal[:, c]] for c in range(case["C"])]
        except Exception:
            ideal_cols = []
        out = {"ideal": ideal_cols}
        try:
            plan = robotools.DilutionPlan(**kw)
        except Exception as e:
            out.update({"err": errcode(e), "exc": type(e).__name__})
            plan = None
        if plan is not None:
            if [[frac_str(Fraction(float(x))) for x in plan.ideal_x[:, c]] for c in range(case["C"])] != ideal_cols:
                return {"harness_error": "ideal table differs from the harness' reconstruction"}
            out.update({
                "err": None,
                "instr": [[int(c), int(ds), (-1 if src == "stock" else int(src)), [frac_str(Fraction(float(v))) for v in vt]] for c, ds, src, vt in plan.instructions],
                "x": [[float(v) for v in plan.x[:, c]] for c in range(plan.x.shape[1])],
                "x_shape": list(plan.x.shape),
                "v_stock": frac_str(Fraction(float(plan.v_stock))),
                "v_diluent": frac_str(Fraction(float(plan.v_diluent))),
                "max_steps": int(plan.max_steps),
                "vmax": [frac_str(Fraction(float(v))) for v in plan.vmax],
            })
        # rounding guard
        vmaxl = [Fraction(vm["v"])] * case["C"] if vm["shape"] == "scalar" else [Fraction(x) for x in vm["v"]]
        if ideal_cols and len(vmaxl) == case["C"] and Fraction(case["stock"]) >= Fraction(case["xmax"]) and case["mode"] in ("log", "linear"):
            ins, xs, hit = exact_plan([[Fraction(t) for t in col] for col in ideal_cols], Fraction(case["stock"]), vmaxl, Fraction(case["min_transfer"]))
            if hit and case.get("deep"):
                out["no_model"] = True  # judged by the oracle against the concentrations the plan itself reports
            elif hit:
                return {"drop": "rounding-boundary"}
            out["exact"] = {"instr": [[c, ds, (-1 if s is None else s), [int(v) for v in vt]] for c, ds, s, vt in ins],
                            "x": [[frac_str(v) for v in col] for col in xs]}
        if case["k"] == "plan" or plan is None:
            return out
        # ---- execution
        ex = dict(case["exec"])
        if ex.get("stock_exact"):
            # fill the stock column with exactly v_stock: the last transfer empties it
            lab = [dict(s) for s in ex["labware"]]
            st = lab[ex["stock"]]
            if Fraction(st["max"]) < Fraction(float(plan.v_stock)) or Fraction(float(plan.v_stock)) <= Fraction(st["min"]):
                st["max"] = frac_str(Fraction(float(plan.v_stock)) + 1)
            if st["cols"] == 1:
                st["init"] = {"shape": "scalar", "v": frac_str(Fraction(float(plan.v_stock)))}
            else:
                vals = ["0"] * st["cols"]
                vals[ex["stock_column"]] = frac_str(Fraction(float(plan.v_stock)))
                if ex["diluent"] == ex["stock"]:
                    vals[ex["diluent_column"]] = st["max"]  # the diluent column of the same trough stays full
                st["init"] = {"shape": "list", "v": vals}
            ex["labware"] = lab
        out["exec_used"] = ex
        lws = [progbase.build_labware(s) for s in ex["labware"]]
        wl = progbase.build_worklist(case["dev"], ex["wl"])
        mix_vol = min(wl.max_volume, float(plan.vmax[0]) * to_float(ex["mix_volume"]))
        for c in range(case["C"]):
            mv = min(Fraction(wl.max_volume), Fraction(float(plan.vmax[c])) * Fraction(ex["mix_volume"]))
            ratio = mv / Fraction(float(plan.vmax[c])) * 100
            if abs(ratio - math.floor(ratio) - Fraction(1, 2)) < Fraction(1, 1000):
                return {"drop": "mix-label-rounding"}
        kwargs = dict(worklist=wl, stock=lws[ex["stock"]], stock_column=ex["stock_column"], diluent=lws[ex["diluent"]],
                      diluent_column=ex["diluent_column"], dilution_plate=lws[ex["plate"]],
                      mix_threshold=to_float(ex["mix_threshold"]), mix_wash=progbase.py_scheme(ex["mix_wash"]),
                      mix_repeat=ex["mix_repeat"], mix_volume=to_float(ex["mix_volume"]))
        if ex.get("dest") is not None:
            kwargs["destination_plate"] = lws[ex["dest"]]
            kwargs["v_destination"] = to_float(ex["v_destination"])
        for f in ("lc_stock_trough", "lc_diluent_trough", "lc_mix", "lc_transfer"):
            if f in ex:
                kwargs[f] = ex[f]
        init_vols = [progbase.vols_obs(lw) for lw in lws]
        exc = None
        try:
            plan.to_worklist(**kwargs)
        except Exception as e:
            exc = e
        out["towl"] = {
            "err": errcode(exc), "exc": type(exc).__name__ if exc else None,
            "recs": [str(r) for r in wl],
            "lw": [{"vols": progbase.vols_obs(lw), "hlen": len(lw._history), "last": lw._labels[-1]} for lw in lws],
            "comp": [progbase.comp_obs(lw) for lw in lws],
            "init_vols": init_vols,
        }
        if progbase.rounding_guard_transfers(wl, lws):
            return {"drop": "rounding"}
        if exc is None:
            # the plan is a value: executing it again (other device, fresh labware of the same specification) gives the same result
            lws2 = [progbase.build_labware(s) for s in ex["labware"]]
            wl2 = progbase.build_worklist("fluent" if case["dev"] == "evo" else "evo", ex["wl"])
            kw2 = dict(kwargs, worklist=wl2, stock=lws2[ex["stock"]], diluent=lws2[ex["diluent"]], dilution_plate=lws2[ex["plate"]])
            if ex.get("dest") is not None:
                kw2["destination_plate"] = lws2[ex["dest"]]
            exc2 = None
            try:
                plan.to_worklist(**kw2)
            except Exception as e:
                exc2 = e
            out["towl2"] = {"exc": type(exc2).__name__ if exc2 else None, "msg": str(exc2)[:200] if exc2 else None,
                            "lw": [{"vols": progbase.vols_obs(lw)} for lw in lws2], "comp": [progbase.comp_obs(lw) for lw in lws2], "nrecs": len(wl2)}
        return out

    def emit(self, case, obs):
        vm = carr(case["vmax"], cq)
        ideal = clist([clist([cq(t) for t in col]) for col in obs["ideal"]])
        sg = cbool(Fraction(case["stock"]) >= Fraction(case["xmax"]))
        mo = cbool(case["mode"] in ("log", "linear"))
        if case["k"] == "plan" or obs.get("err"):
            if obs.get("err"):
                out = f"(Err {obs['err']})"
            else:
                ins = clist(["(%d, %d, %s, %s)" % (c, ds, cz(src), clist([cz(int(Fraction(v))) for v in vt])) for c, ds, src, vt in obs["instr"]])
                xs = clist([clist([cz(round(Fraction(v) * TWO40)) for v in col]) for col in obs["x"]])
                out = ("(Ok {| po_instr := %s; po_x := %s; po_v_stock := %s; po_v_diluent := %s; po_max_steps := %d |})"
                       % (ins, xs, cz(int(Fraction(obs["v_stock"]))), cq(obs["v_diluent"]), obs["max_steps"]))
            return f"(KPlan {sg} {mo} {case['R']} {case['C']} {vm} {ideal} {cq(case['stock'])} {cq(case['min_transfer'])} {out})"
        ex = obs.get("exec_used") or case["exec"]
        t = obs["towl"]
        dev = {"evo": "Evo", "fluent": "Fluent"}[case["dev"]]
        a = ("{| tw_R := nat_ %d; tw_stock := nat_ %d; tw_stock_column := nat_ %d; tw_diluent := nat_ %d; tw_diluent_column := nat_ %d; "
             "tw_plate := nat_ %d; tw_dest := %s; tw_v_destination := %s; tw_mix_threshold := %s; tw_mix_wash := %s; tw_mix_repeat := nat_ %d; "
             "tw_mix_volume := %s; tw_lc_stock := %s; tw_lc_diluent := %s; tw_lc_mix := %s; tw_lc_transfer := %s |}"
             % (case["R"], ex["stock"], ex["stock_column"], ex["diluent"], ex["diluent_column"], ex["plate"],
                copt(ex.get("dest"), lambda d: f"(nat_ {d})"), cq(ex.get("v_destination", "0")), cq(ex["mix_threshold"]),
                progbase.e_scheme(ex["mix_wash"]), ex["mix_repeat"], cq(ex["mix_volume"]),
                cstr(ex.get("lc_stock_trough", "Trough_Water_FD_AspLLT")), cstr(ex.get("lc_diluent_trough", "Trough_Water_FD_AspLLT")),
                cstr(ex.get("lc_mix", "Water_DispZmax-3_AspZmax-5")), cstr(ex.get("lc_transfer", "Water_FD_AspZmax-1"))))
        out = ("{| tw_err := %s; tw_recs := %s; tw_lw := %s; tw_comp := %s |}"
               % (copt(t["err"], str), clist([cstr(r) for r in t["recs"]]), clist([progbase.e_lwobs(o) for o in t["lw"]]),
                  clist([progbase.e_compobs(c) for c in t["comp"]])))
        return (f"(KToWl {dev} {cq(Fraction(ex['wl']['max_volume']))} {clist([progbase.e_lwspec(s) for s in ex['labware']])} {case['C']} "
                f"{vm} {ideal} {cq(case['stock'])} {cq(case['min_transfer'])} {a} {out})")

    def nontrivial(self, case, obs):
        return not obs.get("err") and any(i[1] > 0 for i in obs.get("instr", []))

    def kind(self, case, obs):
        if obs.get("err"):
            return f"{case['k']}:raised:{obs['exc']}"
        if case["k"] == "badreq":
            return "badreq:accepted"
        if case["k"] == "towl":
            return f"towl:{case['dev']}:" + (obs["towl"]["exc"] or "ok")
        return "plan:steps=%d" % obs["max_steps"]

    # ---------------------------------------------------------------- oracle, from the property text
    def oracle_C14(self, case, obs):
        bad = []
        if case.get("k") == "badreq":
            if obs.get("err") is None:
                return ["valueerror: a request that cannot be met (NaN argument or log spacing down to xmin <= 0) returned a plan"
                        + ("" if obs.get("finite") else " with non-finite volumes or concentrations")]
            if obs["exc"] != "ValueError":
                return [f"valueerror: a request that cannot be met raised {obs['exc']}"]
            return []
        if case.get("deep") and obs.get("no_model"):
            # only the execution clause, against the reported concentrations (no exact re-plan at a rounding boundary)
            t = obs.get("towl")
            if obs.get("err") or not t:
                return []
            if t["err"]:
                return [f"exec: to_worklist raised {t['exc']} on sufficiently large labware"]
            ex = obs.get("exec_used") or case["exec"]
            pc = ex["labware"][ex["plate"]]["cols"]
            ent = dict((i, f) for i, f in (t["comp"][ex["plate"]] or {}).get(ex["stock_component"], []))
            for c in range(case["C"]):
                for r in range(case["R"]):
                    want = Fraction(obs["x"][c][r])
                    got = Fraction(ent.get(r * pc + c, 0.0)) * Fraction(case["stock"])
                    if abs(got - want) > abs(want) / 1000000:
                        return [f"exec-x: tracked concentration in {wid(r, c)} is {float(got)} instead of the reported {float(want)}"]
            return []
        t2 = obs.get("towl2")
        if t2 is not None:
            t1 = obs["towl"]
            if t2["exc"] is not None:
                bad.append(f"repeat: executing the same plan a second time raised {t2['exc']}: {t2['msg']}")
            elif [l["vols"] for l in t2["lw"]] != [l["vols"] for l in t1["lw"]] or t2["comp"] != t1["comp"]:
                bad.append("repeat: executing the same plan a second time left other volumes or compositions than the first execution")
        vm = case["vmax"]
        C, R = case["C"], case["R"]
        vmaxl = [Fraction(vm["v"])] * C if vm["shape"] == "scalar" else [Fraction(x) for x in vm["v"]]
        args_ok = Fraction(case["stock"]) >= Fraction(case["xmax"]) and len(vmaxl) == C and case["mode"] in ("log", "linear")
        if not args_ok:
            if not obs.get("err"):
                bad.append("args: invalid arguments accepted")
            elif obs["exc"] != "ValueError":
                bad.append(f"valueerror: invalid arguments raised {obs['exc']}")
            return bad
        if obs.get("err"):
            if obs["exc"] != "ValueError":
                bad.append(f"valueerror: request that cannot be met raised {obs['exc']}")
            return bad
        stock = Fraction(case["stock"])
        mt = Fraction(case["min_transfer"])
        instr = obs["instr"]
        if sorted(i[0] for i in instr) != list(range(C)):
            bad.append("partial: the plan does not prepare every column exactly once")
            return bad
        xs = {}
        drawn = {}
        prepared = []
        for c, ds, src, vt in instr:
            vols = [Fraction(v) for v in vt]
            if any(v.denominator != 1 for v in vols):
                bad.append(f"whole: column {c} has a fractional transfer volume")
            if any(v < mt for v in vols):
                bad.append(f"min: column {c} has a transfer below min_transfer")
            if any(v > vmaxl[c] for v in vols):
                bad.append(f"vmax: column {c} transfers {max(vols)} into a column of vmax {vmaxl[c]}")
            if src == -1:
                if ds != 0:
                    bad.append("order: stock column with dilution steps")
                xs[c] = [v / vmaxl[c] * stock for v in vols]
            else:
                srccol = instr[src][0]
                if srccol not in prepared:
                    bad.append(f"order: column {c} is prepared from column {srccol} which is not prepared earlier")
                    return bad
                xs[c] = [v * a / vmaxl[c] for v, a in zip(vols, xs[srccol])]
                for r, v in enumerate(vols):
                    drawn[(srccol, r)] = drawn.get((srccol, r), 0) + v
            prepared.append(c)
        for (col, r), v in drawn.items():
            if v > vmaxl[col]:
                bad.append(f"budget: {v} uL drawn from column {col} row {r} which holds {vmaxl[col]}")
                break
        for k, (c, ds, src, vt) in enumerate(instr):
            for r in range(R):
                rep = Fraction(obs["x"][k][r]) if k < len(obs["x"]) else None
                want = xs[c][r]
                if rep is None or abs(rep - want) > abs(want) / (1 << 30):
                    bad.append(f"x: reported concentration of column {c} row {r} differs from the instructions")
                    break
        v_stock = sum(Fraction(v) for c, ds, src, vt in instr if src == -1 for v in vt)
        if Fraction(obs["v_stock"]) != v_stock:
            bad.append("v_stock: not the sum of the stock transfers")
        if Fraction(obs["v_diluent"]) != sum(R * v for v in vmaxl) - v_stock:
            bad.append("v_diluent: not R*sum(vmax) - v_stock")
        # execution
        if case["k"] == "towl" and "towl" in obs and case["exec"].get("sufficient"):
            t = obs["towl"]
            ex = obs.get("exec_used") or case["exec"]
            vdest = Fraction(ex.get("v_destination", "0")) if ex.get("dest") is not None else Fraction(0)
            enough = all(drawn.get((c, r), 0) + vdest <= vmaxl[c] for c in range(C) for r in range(R))
            if not enough:
                pass  # the request itself over-draws a column (budget finding or too large v_destination): not judged here
            elif t["err"]:
                bad.append(f"exec: to_worklist raised {t['exc']} on sufficiently large labware")
            else:
                plate = ex["plate"]
                pc = ex["labware"][plate]["cols"]
                comp = t["comp"][plate] or {}
                sname = ex["stock_component"]
                ent = dict((i, f) for i, f in comp.get(sname, []))
                for k, (c, ds, src, vt) in enumerate(instr):
                    for r in range(R):
                        f = Fraction(ent.get(r * pc + c, 0.0))
                        want = xs[c][r]
                        if abs(f * stock - want) > abs(want) / (1 << 28) + Fraction(1, 1 << 40):
                            bad.append(f"exec-x: tracked concentration in {wid(r, c)} is {float(f * stock)} instead of {float(want)}")
                            break
                    else:
                        continue
                    break
                used_stock = Fraction(t["init_vols"][ex["stock"]][ex["stock_column"]]) - Fraction(t["lw"][ex["stock"]]["vols"][ex["stock_column"]])
                if ex["stock"] != ex["diluent"] or ex["stock_column"] != ex["diluent_column"]:
                    if used_stock != v_stock:
                        bad.append(f"exec-stock: consumed {used_stock} of stock instead of v_stock={v_stock}")
                    used_dil = Fraction(t["init_vols"][ex["diluent"]][ex["diluent_column"]]) - Fraction(t["lw"][ex["diluent"]]["vols"][ex["diluent_column"]])
                    if used_dil > Fraction(obs["v_diluent"]):
                        bad.append(f"exec-diluent: consumed {used_dil} of diluent, more than v_diluent={obs['v_diluent']}")
        return bad[:6]


def frac_float(x):
    """a Fraction that is exactly a binary64 (nearest double of x)"""
    return frac_str(Fraction(float(x)))


# per-column vmax where a late column is much larger than the earlier ones (the stock-fed columns need not be a prefix ...)
LATE_LARGE = [
    {"xmin": "1/8", "xmax": "10", "R": 2, "C": 3, "stock": "100", "mode": "log", "vmax": {"shape": "list", "v": ["100", "100", "2000"]}, "min_transfer": "2"},
    {"xmin": "1/8", "xmax": "10", "R": 2, "C": 4, "stock": "100", "mode": "log", "vmax": {"shape": "list", "v": ["200", "100", "100", "2000"]}, "min_transfer": "2"},
    {"xmin": "1/16", "xmax": "8", "R": 1, "C": 4, "stock": "64", "mode": "log", "vmax": {"shape": "list", "v": ["100", "50", "50", "4000"]}, "min_transfer": "4"},
    {"xmin": "1/4", "xmax": "16", "R": 3, "C": 3, "stock": "128", "mode": "linear", "vmax": {"shape": "list", "v": ["150", "100", "3000"]}, "min_transfer": "3"},
]
KNOWN_PARAMS = [
    {"xmin": frac_float(Fraction("6.1")), "xmax": frac_float(Fraction("6.4")), "R": 2, "C": 2, "stock": "10", "mode": "linear",
     "vmax": {"shape": "list", "v": ["10", "5"]}, "min_transfer": "4"},
    {"xmin": frac_float(Fraction("6.4")), "xmax": "10", "R": 1, "C": 3, "stock": "1000", "mode": "log", "vmax": {"shape": "scalar", "v": "1000"}, "min_transfer": "10"},
    {"xmin": frac_float(Fraction("0.01")), "xmax": "10", "R": 8, "C": 12, "stock": "20", "mode": "log", "vmax": {"shape": "scalar", "v": "1000"}, "min_transfer": "20"},
    {"xmin": "1", "xmax": "10", "R": 2, "C": 2, "stock": "20", "mode": "linear", "vmax": {"shape": "scalar", "v": "97/10" if False else "19/2"}, "min_transfer": "1"},
]


def exec_params(rng, R, C, big=False):
    suff = big or rng.random() < 0.8
    pr = R + rng.choice([0, 0, 1, 2])
    pc = C + rng.choice([0, 0, 1])
    if pr > 26:
        pr = 26
    tmax = "100000000" if suff else rng.choice(["100000000", "3000"])
    labware = [
        {"kind": "trough", "name": "stock", "vrows": rng.choice([1, 2, 4, 8]), "cols": rng.choice([1, 2]), "min": "0", "max": tmax, "init": {"shape": "scalar", "v": tmax}},
        {"kind": "trough", "name": "water", "vrows": rng.choice([1, 3, 8]), "cols": rng.choice([1, 2]), "min": "0", "max": tmax, "init": {"shape": "scalar", "v": tmax}},
        {"kind": "plate", "name": "DWP", "rows": pr, "cols": pc, "min": "0", "max": "5000" if suff else rng.choice(["5000", "900"]), "init": None},
    ]
    ex = {"labware": labware, "stock": 0, "stock_column": rng.randrange(labware[0]["cols"]), "diluent": 1,
          "diluent_column": rng.randrange(labware[1]["cols"]), "plate": 2,
          "wl": {"max_volume": rng.choice(["950", "950", "1000", "200", "500", "25/2", "15/2", "375/2"]), "max_int": False, "auto_split": True, "diti_mode": False},
          "mix_threshold": rng.choice(["1/16", "1/32", "1/2", "0"]), "mix_wash": rng.choice([1, 2, 3, "flush", "reuse"]),
          "mix_repeat": rng.choice([0, 1, 2, 2, 3]), "mix_volume": rng.choice(["3/4", "1/2", "1/4", "7/8", "1", "1"]), "sufficient": suff,
          "stock_exact": rng.random() < 0.3}
    if rng.random() < 0.2:
        # troughs created through the base class are troughs too
        labware[rng.choice([0, 1])]["via_labware"] = True
    if rng.random() < 0.25:
        # the documented configuration: stock and diluent are two columns of ONE trough
        labware[0]["cols"] = rng.choice([2, 3])
        ex["stock_column"] = rng.randrange(labware[0]["cols"])
        ex["diluent"] = 0
        ex["diluent_column"] = (ex["stock_column"] + 1 + rng.randrange(labware[0]["cols"] - 1)) % labware[0]["cols"]
    if labware[0]["cols"] > 1 and labware[0].get("via_labware"):
        ex["stock_component"] = "stock.A%02d" % (ex["stock_column"] + 1)  # the base class names wells, not columns
    elif labware[0]["cols"] > 1:
        ex["stock_component"] = "stock.column_%02d" % (ex["stock_column"] + 1)
    else:
        ex["stock_component"] = "stock"
    if rng.random() < 0.3:
        labware.append({"kind": "plate", "name": "MTP", "rows": pr, "cols": pc, "min": "0", "max": "300", "init": None})
        ex["dest"] = 3
        ex["v_destination"] = rng.choice(["50", "25/2", "100"])
    if rng.random() < 0.3:
        ex["lc_transfer"] = "Water_FD"
        ex["lc_mix"] = "mix"
    return ex


SUITE = PlanSuite()
