"""Property oracles over implementation traces of programs (filled in below)."""
ORACLES = {}
ORACLES_PARAMS = {}
ORACLES_EVOCMD = {}
