"""Property oracles over implementation traces of programs (filled in below)."""
ORACLES = {}
