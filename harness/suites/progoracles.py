"""Property oracles over implementation traces of programs.

Each oracle is a direct, model-independent statement of one property on what the real code did
(written from the property text).  It returns a list of violated clauses `"tag: explanation"`.
The oracles are used to find concrete failing inputs; they never establish a property."""
from __future__ import annotations

import math
import re
from fractions import Fraction

from harness import gwl

WL_OPS = {"aspirate", "dispense", "transfer", "distribute", "comment", "wash", "decon", "flush", "commit", "set_diti", "set_max"}
TOL = Fraction(1, 1 << 30)


# --------------------------------------------------------------------------- helpers


def flatF(a):
    if a["shape"] == "scalar":
        return [a["v"]]
    if a["shape"] == "list":
        return list(a["v"])
    rows = a["v"]
    if not rows:
        return []
    return [rows[r][c] for c in range(len(rows[0])) for r in range(len(rows))]


def bcast(vs, n):
    return vs * n if len(vs) == 1 else vs


def spec_rows(spec):
    return spec["vrows"] if spec["kind"] == "trough" else spec["rows"]


def valid_well(spec, w):
    if not isinstance(w, str) or len(w) < 3 or not ("A" <= w[0] <= "Z") or not w[1:].isdigit() or not w[1:].isascii():
        return False
    r, c = ord(w[0]) - 65, int(w[1:]) - 1
    return r < spec_rows(spec) and 0 <= c < spec["cols"] and w == f"{w[0]}{c + 1:02d}"


def real_index(spec, w):
    r, c = ord(w[0]) - 65, int(w[1:]) - 1
    return c if spec["kind"] == "trough" else r * spec["cols"] + c


def dev_pos(dev, spec, w):
    r, c = ord(w[0]) - 65, int(w[1:]) - 1
    if spec["kind"] == "trough" and dev == "fluent":
        return 1 + c
    return 1 + c * spec_rows(spec) + r



def mv_before(case, i):
    """the worklist's max_volume in force when call i runs (the attribute may be re-assigned between calls: op set_max)"""
    mv = Fraction(case["wl"]["max_volume"])
    for op in case["ops"][:i]:
        if op["op"] == "set_max":
            mv = Fraction(op["v"])
    return mv


def num(x):
    """case number -> Fraction | None (nan/inf/bad)"""
    if isinstance(x, dict):
        if "int" in x:
            return Fraction(x["int"])
        return None
    if x in ("nan", "inf", "-inf"):
        return None
    return Fraction(x)


def vols_of(st, k):
    return [Fraction(v) for v in st["lw"][k]["vols"]]


def nonfinite(st):
    return any(v in ("nan", "inf", "-inf") for l in st["lw"] for v in l["vols"])


def prev_lw(obs, i):
    """labware observations before step i"""
    if i == 0:
        return [{"vols": x["vols"], "hlen": len(x["labels"]), "last": x["labels"][-1], "labels": x["labels"], "last_eq": True} for x in obs["initial"]]
    return obs["steps"][i - 1]["lw"]


def is_script(rec):
    return rec.startswith("B;") and len(rec) > 2


def triples_of(op):
    sw, dw, vs = flatF(op["swells"]), flatF(op["dwells"]), flatF(op["vols"])
    n = max(len(sw), len(dw), len(vs))
    sw, dw, vs = bcast(sw, n), bcast(dw, n), bcast(vs, n)
    if not (len(sw) == len(dw) == len(vs)):
        return None
    return list(zip(sw, dw, [Fraction(v) for v in vs]))


def lw_args_ok(case, op):
    """all well ids of a labware-addressing op exist"""
    k = op["op"]
    L = case["labware"]
    if k in ("add", "remove", "aspirate", "dispense"):
        return all(valid_well(L[op["lw"]], w) for w in flatF(op["wells"]))
    if k == "transfer":
        return all(valid_well(L[op["src"]], w) for w in flatF(op["swells"])) and all(valid_well(L[op["dst"]], w) for w in flatF(op["dwells"]))
    if k == "distribute":
        return all(valid_well(L[op["dst"]], w) for w in flatF(op["dwells"]))
    return True


# --------------------------------------------------------------------------- C02 / C04: shadow ledger


def expected_events(case, op):
    """list of (labware, flat index, signed volume) in application order for a successful call, or None if
    the arguments are not of the simple well-formed kind the ledger speaks about"""
    k = op["op"]
    L = case["labware"]
    if k in ("add", "remove", "aspirate", "dispense"):
        ws = flatF(op["wells"])
        vs = [num(v) for v in bcast(flatF(op["vols"]), len(ws))]
        if len(vs) != len(ws) or any(v is None or v < 0 for v in vs) or not all(valid_well(L[op["lw"]], w) for w in ws):
            return None
        sign = 1 if k in ("add", "dispense") else -1
        return [(op["lw"], real_index(L[op["lw"]], w), sign * v) for w, v in zip(ws, vs)]
    if k == "transfer":
        tr = triples_of(op)
        if tr is None or not lw_args_ok(case, op) or any(v < 0 for _, _, v in tr):
            return None
        ev = []
        for s, d, v in tr:
            ev.append((op["src"], real_index(L[op["src"]], s), -v))
            ev.append((op["dst"], real_index(L[op["dst"]], d), v))
        return ev
    if k == "distribute":
        v = num(op["volume"])
        dw = flatF(op["dwells"])
        if v is None or v < 0 or not dw or not all(valid_well(L[op["dst"]], w) for w in dw) or L[op["src"]]["kind"] != "trough" \
                or not (0 <= op["col"] < L[op["src"]]["cols"]):
            return None
        return [(op["src"], op["col"], -v * len(dw))] + [(op["dst"], real_index(L[op["dst"]], w), v) for w in dw]
    return []


def evo_events(case, op):
    """(labware, real index, signed volume) per given well of an EVO script command, in the given order; None if the
    arguments are not of the plain kind"""
    L = case["labware"]
    ws = flatF(op["wells"])
    vol = op["volume"]
    if vol["t"] not in ("scalar", "list"):
        return None
    vs = [num(vol["v"])] * len(ws) if vol["t"] == "scalar" else [num(v) for v in vol["v"]]
    if len(vs) != len(ws) or any(v is None or v < 0 for v in vs) or not all(valid_well(L[op["lw"]], w) for w in ws):
        return None
    sign = -1 if op["op"] == "evo_asp" else 1
    return [(op["lw"], real_index(L[op["lw"]], w), sign * v) for w, v in zip(ws, vs)]


def oracle_C02(case, obs):
    bad = []
    L = case["labware"]
    for i, (op, st) in enumerate(zip(case["ops"], obs["steps"])):
        if st["exc"] in ("VolumeOverflowError", "VolumeUnderflowError") and st.get("is_violation") is False:
            bad.append(f"error-class: call {i} ({op['op']}) raised {st['exc']}, which is not a VolumeViolationException")
        if nonfinite(st):
            bad.append(f"finite: a non-finite volume is stored after call {i} ({op['op']})")
            break
        for k, spec in enumerate(L):
            vs = vols_of(st, k)
            mx = Fraction(spec["max"])
            if any(v < 0 for v in vs):
                bad.append(f"negative: labware {spec['name']} has a negative volume after call {i} ({op['op']})")
            before = [Fraction(v) for v in prev_lw(obs, i)[k]["vols"]]
            for j, (a, b) in enumerate(zip(before, vs)):
                if b > a and b > mx:
                    bad.append(f"max: well {j} of {spec['name']} was raised above max_volume by call {i} ({op['op']})")
                    break
                if b < a and b < Fraction(spec["min"]) and st["exc"] is None:
                    bad.append(f"min: well {j} of {spec['name']} was taken below min_volume by call {i} ({op['op']}) which returned normally")
                    break
        if op["op"] in ("transfer", "distribute") and st["exc"] is None and case["dev"] != "base":
            ev = expected_events(case, op)
            if ev is not None:
                want = [[Fraction(v) for v in prev_lw(obs, i)[k]["vols"]] for k in range(len(L))]
                for (k, j, dv) in ev:
                    want[k][j] += dv
                over = any(want[k][j] > Fraction(L[k]["max"]) or want[k][j] < 0 for k in range(len(L)) for j in range(len(want[k])))
                if any(vols_of(st, k) != want[k] for k in range(len(L))) and over:
                    bad.append(f"swallowed: call {i} ({op['op']}) returned normally although the requested volumes violate a limit (no volume violation was raised)")
        # a distribute that the source cannot serve / a destination cannot take raises the volume-violation error
        if op["op"] == "distribute" and case["dev"] != "base" and lw_args_ok(case, op):
            ev = expected_events(case, op)
            vd = num(op["volume"])
            if ev is not None and vd is not None and 0 <= vd <= mv_before(case, i) and op["src"] != op["dst"]:
                cur = {k: [Fraction(v) for v in prev_lw(obs, i)[k]["vols"]] for k in (op["src"], op["dst"])}
                want_exc = None
                for (k, j, dv) in ev:
                    nv = cur[k][j] + dv
                    if dv < 0 and nv < Fraction(L[k]["min"]):
                        want_exc = "VolumeUnderflowError"
                        break
                    if dv >= 0 and k == op["dst"] and nv > Fraction(L[k]["max"]):
                        want_exc = "VolumeOverflowError"
                        break
                    cur[k][j] = nv
                if want_exc and st["exc"] != want_exc:
                    bad.append(f"error-class: call {i} (distribute) violates a limit but raised {st['exc']} instead of {want_exc}")
        # exact limit behaviour of the direct and single-step operations
        if op["op"] in ("add", "remove", "aspirate", "dispense"):
            ev = expected_events(case, op)
            if ev is None:
                # includes +inf volumes: must be refused with the violation error unless refused earlier
                vsx = bcast(flatF(op["vols"]), len(flatF(op["wells"])))
                if st["exc"] is None:
                    bad.append(f"reject: call {i} ({op['op']}) with invalid volumes/wells returned normally")
                continue
            k = op["lw"]
            spec = L[k]
            cur = [Fraction(v) for v in prev_lw(obs, i)[k]["vols"]]
            want_exc = None
            for (_, j, dv) in ev:
                nv = cur[j] + dv
                if dv > 0 and nv > Fraction(spec["max"]):
                    want_exc = "VolumeOverflowError"
                    break
                if dv < 0 and nv < Fraction(spec["min"]):
                    want_exc = "VolumeUnderflowError"
                    break
                if dv == 0 and op["op"] in ("add", "dispense") and nv > Fraction(spec["max"]):
                    want_exc = "VolumeOverflowError"
                    break
                if dv == 0 and op["op"] in ("remove", "aspirate") and nv < Fraction(spec["min"]):
                    want_exc = "VolumeUnderflowError"
                    break
                cur[j] = nv
            if want_exc:
                if st["exc"] != want_exc:
                    bad.append(f"error-class: call {i} ({op['op']}) violates a limit but raised {st['exc']} instead of {want_exc}")
                elif vols_of(st, k) != cur:
                    bad.append(f"offending-unchanged: after the rejected call {i} ({op['op']}) the volumes are not those just before the offending well")
            elif st["exc"] in ("VolumeOverflowError", "VolumeUnderflowError"):
                bad.append(f"spurious: call {i} ({op['op']}) raised {st['exc']} although no limit is violated")
    return bad[:6]


def oracle_C04(case, obs):
    bad = []
    L = case["labware"]
    for i, (op, st) in enumerate(zip(case["ops"], obs["steps"])):
        if op["op"] in ("evo_asp", "evo_disp") and st["exc"] is None and not nonfinite(st):
            # an accepted script command books each given volume on the well it was given for
            ws = flatF(op["wells"])
            vol = op["volume"]
            vs = [num(vol["v"])] * len(ws) if vol["t"] == "scalar" else ([num(v) for v in vol["v"]] if vol["t"] == "list" else [None])
            if len(vs) == len(ws) and all(v is not None for v in vs) and all(valid_well(L[op["lw"]], w) for w in ws):
                sign = -1 if op["op"] == "evo_asp" else 1
                want = [Fraction(v) for v in prev_lw(obs, i)[op["lw"]]["vols"]]
                for w, v in zip(ws, vs):
                    want[real_index(L[op["lw"]], w)] += sign * v
                got = vols_of(st, op["lw"])
                if got != want:
                    j = [x for x in range(len(got)) if got[x] != want[x]][0]
                    bad.append(f"ledger: after call {i} ({op['op']}) well {j} of {L[op['lw']]['name']} holds {got[j]} instead of {want[j]}")
            continue
        if op["op"] not in ("add", "remove", "aspirate", "dispense", "transfer", "distribute"):
            # no other call may change any volume
            for k in range(len(L)):
                if st["lw"][k]["vols"] != prev_lw(obs, i)[k]["vols"] and op["op"] not in ("evo_asp", "evo_disp"):
                    bad.append(f"frame: call {i} ({op['op']}) changed the volumes of {L[k]['name']}")
            continue
        if st["exc"] is not None or nonfinite(st):
            continue
        ev = expected_events(case, op)
        if ev is None:
            continue
        want = [[Fraction(v) for v in prev_lw(obs, i)[k]["vols"]] for k in range(len(L))]
        for (k, j, dv) in ev:
            want[k][j] += dv
        for k in range(len(L)):
            got = vols_of(st, k)
            if got != want[k]:
                diff = [j for j in range(len(got)) if got[j] != want[k][j]]
                touched = {j for kk, j, _ in ev if kk == k}
                tag = "ledger" if set(diff) <= touched else "frame"
                bad.append(f"{tag}: after call {i} ({op['op']}) well {diff[0]} of {L[k]['name']} holds {got[diff[0]]} instead of {want[k][diff[0]]}")
                break
    return bad[:6]


# --------------------------------------------------------------------------- C11: history


def expected_label(op, st, case):
    k = op["op"]
    if k in ("add", "remove", "aspirate", "dispense"):
        return op.get("label")
    if k == "distribute":
        return op.get("label", "")
    if k == "transfer":
        lab = op.get("label")
        n_a = sum(1 for r in st["recs"] if r.startswith("A;"))
        tr = triples_of(op) or []
        extra = n_a - sum(1 for _, _, v in tr if v > 0)
        if extra > 0:
            return f"{lab} ({extra} LVH steps)" if lab else f"{extra} LVH steps"
        return lab
    return None


def oracle_C11(case, obs):
    bad = []
    L = case["labware"]
    for i, (op, st) in enumerate(zip(case["ops"], obs["steps"])):
        before = prev_lw(obs, i)
        k = op["op"]
        for j in range(len(L)):
            lb, la = before[j]["labels"], st["lw"][j]["labels"]
            if k == "condense":
                continue
            if la[: len(lb)] != lb:
                bad.append(f"prefix: call {i} ({k}) altered or dropped earlier history entries of {L[j]['name']}: {lb} -> {la}")
        if st["exc"] is not None:
            continue
        part = []
        if k in ("add", "remove", "aspirate", "dispense", "evo_asp", "evo_disp"):
            part = [op["lw"]]
            moved = True
        elif k in ("transfer", "distribute"):
            part = sorted({op["src"], op["dst"]})
            moved = any(st["lw"][j]["vols"] != before[j]["vols"] for j in part) or any(r[:2] in ("A;", "R;") for r in st["recs"])
            if k == "distribute":
                v = num(op["volume"])
                moved = v is not None and v > 0
        else:
            moved = False
        for j in range(len(L)):
            d = st["lw"][j]["hlen"] - before[j]["hlen"]
            if k == "condense":
                continue
            if j in part and moved:
                if d != 1:
                    bad.append(f"one-entry: successful call {i} ({k}) added {d} history entries to {L[j]['name']}")
                else:
                    want = expected_label(op, st, case)
                    if k in ("evo_asp", "evo_disp"):
                        want = op.get("label")
                    if st["lw"][j]["last"] != want:
                        bad.append(f"label: call {i} ({k}) logged label {st['lw'][j]['last']!r} on {L[j]['name']}, expected {want!r}")
                if not st["lw"][j]["last_eq"]:
                    bad.append(f"newest: after call {i} ({k}) the newest history entry of {L[j]['name']} differs from its volumes")
            elif j not in part and d != 0:
                bad.append(f"foreign: call {i} ({k}) changed the history length of uninvolved labware {L[j]['name']}")
            elif j in part and not moved and d not in (0, 1):
                bad.append(f"one-entry: call {i} ({k}) that moved nothing changed the history of {L[j]['name']} by {d} entries")
    if obs.get("mutated"):
        bad.append(f"snapshot: an earlier history entry or an array obtained from `volumes` was changed later: {obs['mutated'][:3]}")
    # report lists the same entries in the same order
    fin = obs.get("final")
    if fin:
        for j, rep in enumerate(fin["report"]):
            labels = [lab for lab, _ in fin["hist"][j]]
            lines = rep.split("\n")
            if lines[0] != L[j]["name"] and not L[j]["name"].startswith(lines[0]):
                bad.append("report: does not start with the labware name")
            want = [ln for lab in labels if lab for ln in lab.split("\n")]
            namelines = L[j]["name"].count("\n") + 1
            got = [ln for ln in lines[namelines:] if ln.strip() and not re.fullmatch(r"[\[\]\d\.\seE+\-]*", ln)]
            if got != want:
                bad.append(f"report: labels in the report {got[:4]} differ from the history labels {want[:4]}")
            nblocks = sum(1 for ln in lines if ln.startswith("[["))
            if nblocks != len(labels):
                bad.append(f"report: {nblocks} state blocks for {len(labels)} history entries")
    return bad[:6]


# --------------------------------------------------------------------------- C05: ideal mixing


def oracle_C05(case, obs):
    bad = []
    L = case["labware"]
    # amounts per labware / well / component; None = well contains liquid of unknown composition
    amt = []
    vol = []
    for x in obs["initial"]:
        vs = [Fraction(v) for v in x["vols"]]
        a = [dict() for _ in vs]
        for name, ent in (x["comp"] or {}).items():
            for i, f in ent:
                a[i][name] = Fraction(f) * vs[i]
        amt.append(a)
        vol.append(vs)
    # initial naming
    for k, (spec, x) in enumerate(zip(L, obs["initial"])):
        names = {}
        for name, ent in (x["comp"] or {}).items():
            for i, f in ent:
                names.setdefault(i, []).append((name, f))
        for i, v in enumerate(vol[k]):
            if v > 0:
                if len(names.get(i, [])) != 1 or names[i][0][1] != 1:
                    bad.append(f"initial: non-empty well {i} of {spec['name']} does not start as 100 % of one component")
            elif names.get(i):
                bad.append(f"initial: empty well {i} of {spec['name']} has a component")
        multi_row = spec["kind"] == "plate" and spec["rows"] > 1
        multi_col_trough = spec["kind"] == "trough" and spec["cols"] > 1
        given = spec.get("names") or {}
        cn = spec.get("column_names")
        default_names = []
        for i, v in enumerate(vol[k]):
            if v <= 0 or i not in names:
                continue
            nm = names[i][0][0]
            if spec["kind"] == "plate":
                w = f"{chr(65 + i // spec['cols'])}{i % spec['cols'] + 1:02d}"
                g = given.get(w)
                if g is not None:
                    if nm != g:
                        bad.append(f"naming: well {w} of {spec['name']} is named {nm!r} instead of the given {g!r}")
                else:
                    default_names.append(nm)
                    if not multi_row and spec["cols"] == 1 and nm != spec["name"]:
                        bad.append(f"naming: single-well labware {spec['name']} uses component name {nm!r}")
            else:
                g = None if cn is None else (cn if isinstance(cn, str) else cn[i])
                if g is not None:
                    if nm != g:
                        bad.append(f"naming: column {i} of {spec['name']} is named {nm!r} instead of {g!r}")
                else:
                    default_names.append(nm)
                    if spec["cols"] == 1 and nm != spec["name"]:
                        bad.append(f"naming: single-well trough {spec['name']} uses component name {nm!r}")
        if (multi_row or multi_col_trough) and len(set(default_names)) != len(default_names):
            bad.append(f"naming: default component names of {spec['name']} are not pairwise distinct")
    known = [[True] * len(v) for v in vol]
    alive = True
    lastcomp = [x["comp"] for x in obs["initial"]]
    for i, (op, st) in enumerate(zip(case["ops"], obs["steps"])):
        if st["exc"] is None and not nonfinite(st):
            if op["op"] in ("transfer", "distribute"):
                def total(comps, volsrc):
                    t = {}
                    for lw in {op["src"], op["dst"]}:
                        vs = [Fraction(v) for v in volsrc[lw]["vols"]]
                        for c, ent in (comps[lw] or {}).items():
                            for j, f in ent:
                                if f == f and abs(f) != float("inf"):
                                    t[c] = t.get(c, 0) + Fraction(f) * vs[j]
                    return t
                newcomp = list(lastcomp)
                for kk, comp in st["comp"].items():
                    newcomp[int(kk)] = comp
                b, a = total(lastcomp, prev_lw(obs, i)), total(newcomp, st["lw"])
                for c in set(a) | set(b):
                    if abs(a.get(c, 0) - b.get(c, 0)) > Fraction(1, 10 ** 6) * (1 + abs(b.get(c, 0))):
                        bad.append(f"conservation: call {i} ({op['op']}) changed the total amount of {c!r} from {float(b.get(c, 0))} to {float(a.get(c, 0))}")
                        break
            if op["op"] in ("remove", "aspirate"):
                comp = st["comp"].get(str(op["lw"]))
                if comp is not None and comp != lastcomp[op["lw"]]:
                    bad.append(f"removal-neutral: call {i} ({op['op']}) changed the composition of {L[op['lw']]['name']}")
        for kk, comp in st["comp"].items():
            lastcomp[int(kk)] = comp
        # finiteness / range on everything observed
        for kk, comp in st["comp"].items():
            for name, ent in (comp or {}).items():
                for j, f in ent:
                    if f != f or abs(f) == float("inf"):
                        bad.append(f"finite: fraction of {name!r} in well {j} of {L[int(kk)]['name']} is {f} after call {i} ({op['op']})")
                    elif not (-1e-12 <= f <= 1 + 1e-12):
                        bad.append(f"range: fraction of {name!r} in well {j} of {L[int(kk)]['name']} is {f} after call {i}")
        if bad:
            break
        if not alive:
            continue
        k = op["op"]
        if st["exc"] == "VolumeOverflowError" and k in ("add", "dispense") and op.get("comps"):
            # the additions before the offending well were applied: volume AND mixture (the call is one loop over the wells)
            ev = expected_events(case, op)
            if ev is not None:
                for n_, (lw, j, dv) in enumerate(ev):
                    if vol[lw][j] + dv > Fraction(L[lw]["max"]):
                        break
                    c = op["comps"][n_]
                    vol[lw][j] += dv
                    if c is None:
                        if dv > 0:
                            known[lw][j] = False
                    else:
                        for name, f in c.items():
                            amt[lw][j][name] = amt[lw][j].get(name, 0) + Fraction(f) * dv
                        if sum(Fraction(f) for f in c.values()) != 1 and dv > 0:
                            known[lw][j] = False
                if [str(v) for v in vol[op["lw"]]] == [str(Fraction(v)) for v in st["lw"][op["lw"]]["vols"]]:
                    for kk, comp in st["comp"].items():
                        cmp_comp(bad, L[int(kk)]["name"], comp, amt[int(kk)], vol[int(kk)], known[int(kk)], f"after the rejected call {i} ({k}), in the wells filled before the offending one")
            alive = False
            continue
        if st["exc"] is not None:
            alive = False  # partial effects: the shadow stops here
            continue
        before_total = None
        if k in ("remove", "aspirate", "evo_asp"):
            ev = expected_events(case, op) if k != "evo_asp" else evo_events(case, op)
            if ev is None:
                alive = False
                continue
            for (lw, j, dv) in ev:
                old = vol[lw][j]
                new = old + dv
                if old != 0:
                    for c in amt[lw][j]:
                        amt[lw][j][c] = amt[lw][j][c] * new / old
                vol[lw][j] = new
        elif k in ("add", "dispense", "evo_disp"):
            ev = expected_events(case, op) if k != "evo_disp" else evo_events(case, op)
            if ev is None:
                alive = False
                continue
            comps = op.get("comps")
            for n_, (lw, j, dv) in enumerate(ev):
                c = comps[n_] if comps else None
                was_clean = vol[lw][j] == 0 and not amt[lw][j]
                vol[lw][j] += dv
                if c is None:
                    # untracked liquid into an empty well that never held a component: exactly "none of the named components"
                    # (booked under a pseudo-component so that it travels with later transfers)
                    if dv > 0 and not was_clean:
                        known[lw][j] = False
                    elif dv > 0:
                        amt[lw][j][UNTRACKED] = amt[lw][j].get(UNTRACKED, 0) + dv
                else:
                    for name, f in c.items():
                        amt[lw][j][name] = amt[lw][j].get(name, 0) + Fraction(f) * dv
                    if sum(Fraction(f) for f in c.values()) != 1 and dv > 0:
                        known[lw][j] = False
        elif k == "transfer":
            tr = triples_of(op)
            if tr is None or not lw_args_ok(case, op) or not exact_transfer(case, op):
                alive = False
                continue
            # wells may be source and destination at once: replay in the order of the emitted records
            for (si, di, v) in record_flows(case, op, st):
                move(amt, vol, known, op["src"], si, op["dst"], di, v)
        elif k == "distribute":
            v = num(op["volume"])
            dw = flatF(op["dwells"])
            if v is None:
                alive = False
                continue
            for w in dw:
                move(amt, vol, known, op["src"], op["col"], op["dst"], real_index(L[op["dst"]], w), v)
        # compare with the implementation where it was observed
        for kk, comp in st["comp"].items():
            lw = int(kk)
            cmp_comp(bad, L[lw]["name"], comp, amt[lw], vol[lw], known[lw], f"after call {i} ({k})")
        if before_total is not None:
            # conservation as reported by the implementation (volume x fraction over all labware)
            pass
    if alive and obs.get("final") and not bad:
        for lw, comp in enumerate(obs["final"]["comp"]):
            cmp_comp(bad, L[lw]["name"], comp, amt[lw], vol[lw], known[lw], "at the end")
    return bad[:6]


def totals(amt):
    t = {}
    for a in amt:
        for w in a:
            for c, x in w.items():
                t[c] = t.get(c, 0) + x
    return t


def move(amt, vol, known, ks, si, kd, di, v):
    old = vol[ks][si]
    if v == 0:
        return
    fr = {c: a / old for c, a in amt[ks][si].items()} if old != 0 else {}
    src_known = known[ks][si]
    for c in amt[ks][si]:
        amt[ks][si][c] = amt[ks][si][c] * (old - v) / old
    vol[ks][si] = old - v
    for c, f in fr.items():
        amt[kd][di][c] = amt[kd][di].get(c, 0) + f * v
    vol[kd][di] += v
    if not src_known:
        known[kd][di] = False


UNTRACKED = "\x00untracked"


def cmp_comp(bad, name, comp, amt, vol, known, when):
    got = {}
    for c, ent in (comp or {}).items():
        for j, f in ent:
            got.setdefault(j, {})[c] = Fraction(f)
    for j in range(len(vol)):
        if vol[j] <= 0 or not known[j]:
            continue
        want = {c: a / vol[j] for c, a in amt[j].items() if a != 0}
        untracked = want.pop(UNTRACKED, 0)
        g = got.get(j, {})
        for c in set(want) | set(g):
            # relative: a component present at 1e-10 is still a component (sums of positive terms: no cancellation in the code)
            if abs(want.get(c, 0) - g.get(c, 0)) > Fraction(1, 10 ** 14) + max(want.get(c, 0), g.get(c, 0)) / 10 ** 6:
                bad.append(f"mixing: fraction of {c!r} in well {j} of {name} is {float(g.get(c, 0))} {when}, ideal mixing gives {float(want.get(c, 0))}")
                return
        if known[j] and (want or untracked) and abs(sum(g.values()) - (1 - untracked)) > Fraction(1, 10 ** 9):
            bad.append(f"sum: fractions in well {j} of {name} sum to {float(sum(g.values()))} {when}")
            return


def exact_transfer(case, op):
    """all requested volumes (and hence all split steps) are multiples of 0.01: record volumes are exact"""
    tr = triples_of(op) or []
    mv = Fraction(case["wl"]["max_volume"])
    return all((v * 100).denominator == 1 for _, _, v in tr) and (mv * 100).denominator == 1


def record_flows(case, op, st):
    """(source real index, destination real index, volume) per A/D pair of a transfer, in emission order"""
    L = case["labware"]
    racks = {s["name"]: gwl.Rack(s["name"], s["kind"], 1 if s["kind"] == "trough" else s["rows"], s["cols"], s.get("vrows") if s["kind"] == "trough" else None,
                                 Fraction(0), Fraction(0), [Fraction(0)] * ((1 if s["kind"] == "trough" else s["rows"]) * s["cols"]), None) for s in L}
    flows = []
    recs = st["recs"]
    i = 0
    while i < len(recs):
        if recs[i].startswith("A;") and i + 1 < len(recs) and recs[i + 1].startswith("D;"):
            a, d = recs[i].split(";"), recs[i + 1].split(";")
            si = racks[L[op["src"]]["name"]].real_index(case["dev"], int(a[4]))
            di = racks[L[op["dst"]]["name"]].real_index(case["dev"], int(d[4]))
            flows.append((si, di, Fraction(a[6])))
            i += 2
        else:
            i += 1
    return flows


# --------------------------------------------------------------------------- C06 / C07: transfer structure


def oracle_C06(case, obs):
    bad = []
    L = case["labware"]
    mv = Fraction(case["wl"]["max_volume"])
    for i, (op, st) in enumerate(zip(case["ops"], obs["steps"])):
        mv = mv_before(case, i)
        k = op["op"]
        if k == "transfer":
            tr = triples_of(op)
            if tr is None:
                continue
            if case["wl"]["auto_split"]:
                if st["exc"] == "InvalidOperationError":
                    bad.append(f"never-refused: call {i}: an automatically split transfer raised InvalidOperationError")
                if st["exc"] is None and lw_args_ok(case, op):
                    # pairs per (source position, destination position)
                    pairs = {}
                    recs = st["recs"]
                    for a, d in zip(recs, recs[1:]):
                        if a.startswith("A;") and d.startswith("D;"):
                            fa, fd = a.split(";"), d.split(";")
                            pairs.setdefault((int(fa[4]), int(fd[4])), []).append(Fraction(fa[6]))
                    req = {}
                    for s, d, v in tr:
                        key = (dev_pos(case["dev"], L[op["src"]], s), dev_pos(case["dev"], L[op["dst"]], d))
                        req.setdefault(key, []).append(v)
                    for key, vs in req.items():
                        want_n = sum(max(1, math.ceil(v / mv)) for v in vs if v > 0)
                        got = pairs.get(key, [])
                        if len(got) != want_n:
                            bad.append(f"count: call {i}: {len(got)} aspirate/dispense pairs for requested volumes {[str(v) for v in vs]} with max_volume {mv}; expected {want_n}")
                        if any(not (0 <= g <= mv + Fraction(1, 200)) for g in got):
                            bad.append(f"bounds: call {i}: a step outside (0, max_volume]: {[str(g) for g in got]}")
                        if abs(sum(got) - sum(vs)) > Fraction(len(got), 200):
                            bad.append(f"sum: call {i}: pairs add up to {sum(got)} instead of {sum(vs)}")
                    if set(pairs) - set(req):
                        bad.append(f"count: call {i}: pairs between wells that were not requested")
            else:
                if st["exc"] is None and any(v > mv for _, _, v in tr):
                    bad.append(f"no-split: call {i}: step above max_volume accepted with auto_split disabled")
        if k in ("aspirate_well", "dispense_well"):
            v1 = num(op["volume"])
            if v1 is not None and v1 > mv and st["exc"] is None:
                bad.append(f"no-split: call {i} ({k}): a single step of {v1} above max_volume {mv} was accepted: {st['recs']}")
        if k in ("reagent", "distribute") and st["exc"] is None:
            for r in st["recs"]:
                if r.startswith("R;"):
                    f = r.split(";")
                    v, m = Fraction(f[11]), int(f[14])
                    asked = op.get("multi_disp", 1)
                    if v > 0 and m * v > mv:
                        bad.append(f"multi-disp: call {i}: {m} multi-dispenses of {v} exceed max_volume {mv}")
                    if asked * v <= mv and m != asked:
                        bad.append(f"multi-disp: call {i}: multi_disp reduced from {asked} to {m} although it fits")
                    if asked * v > mv and v > 0 and m != math.floor(mv / v):
                        bad.append(f"multi-disp: call {i}: multi_disp {m}, expected floor(max_volume/volume) = {math.floor(mv / v)}")
    return bad[:6]


def tip_action_record(op, case):
    ws = op.get("ws", 1)
    if ws == "reuse":
        return None
    if ws == "flush":
        return "F;"
    if case["wl"]["diti_mode"]:
        return "W;"
    if isinstance(ws, int) and 1 <= ws <= 4:
        return f"W{ws};"
    return "?"


def oracle_C07(case, obs):
    bad = []
    L = case["labware"]
    for i, (op, st) in enumerate(zip(case["ops"], obs["steps"])):
        if op["op"] == "transfer" and case["dev"] != "base" and not lw_args_ok(case, op):
            if st["exc"] is None:
                bad.append(f"unknown-id: call {i}: a transfer naming a well that does not exist was accepted")
            elif any(r[:2] in ("A;", "D;") for r in st["recs"]):
                bad.append(f"unknown-id: call {i}: a transfer naming a well that does not exist raised {st['exc']} but left {[r for r in st['recs'] if r[:2] in ('A;', 'D;')][:2]}")
    mv = Fraction(case["wl"]["max_volume"])
    for i, (op, st) in enumerate(zip(case["ops"], obs["steps"])):
        mv = mv_before(case, i)
        if op["op"] != "transfer" or case["dev"] == "base":
            continue
        tr = triples_of(op)
        vs_raw = flatF(op["vols"])
        if tr is None:
            if st["exc"] is None:
                bad.append(f"lengths: call {i}: incompatible argument lengths accepted")
            elif st["recs"]:
                bad.append(f"lengths: call {i}: rejected for incompatible lengths but left records")
            continue
        if any(v < 0 for _, _, v in tr):
            if st["exc"] is None:
                bad.append(f"negative: call {i}: negative volume accepted (silently dropped?)")
            elif st["recs"]:
                bad.append(f"negative: call {i}: rejected negative volume but left records")
            continue
        if st["exc"] is not None or not lw_args_ok(case, op):
            continue
        recs = list(st["recs"])
        # optional comment lines first
        lab = op.get("label")
        ncomment = 0
        while ncomment < len(recs) and recs[ncomment].startswith("C;"):
            ncomment += 1
        if lab:
            want_c = [f"C;{ln.strip()}" for ln in lab.split("\n") if ln.strip()]
            if recs[:ncomment] != want_c:
                bad.append(f"comment: call {i}: comment records {recs[:ncomment]} for label {lab!r}")
        elif ncomment:
            bad.append(f"comment: call {i}: comment records without a label")
        body = recs[ncomment:]
        ta = tip_action_record(op, case)
        j = 0
        flows = {}
        nsplit_groups_open = False
        while j < len(body):
            r = body[j]
            if r.startswith("A;"):
                if j + 1 >= len(body) or not body[j + 1].startswith("D;"):
                    bad.append(f"pairing: call {i}: aspirate record not immediately followed by a dispense record")
                    break
                fa, fd = r.split(";"), body[j + 1].split(";")
                if (fa[6], fa[7], fa[9]) != (fd[6], fd[7], fd[9]):
                    bad.append(f"pairing: call {i}: aspirate and dispense differ in volume / liquid class / tip mask: {r} | {body[j + 1]}")
                if fa[1] != L[op["src"]]["name"] or fd[1] != L[op["dst"]]["name"]:
                    bad.append(f"pairing: call {i}: records name racks {fa[1]!r}/{fd[1]!r}")
                flows.setdefault((int(fa[4]), int(fd[4])), []).append(Fraction(fa[6]))
                j += 2
                if ta is None:
                    if j < len(body) and (body[j].startswith("W") or body[j] == "F;"):
                        bad.append(f"tip-action: call {i}: wash/flush record although wash_scheme is 'reuse'")
                else:
                    if j >= len(body) or body[j] != ta:
                        bad.append(f"tip-action: call {i}: expected {ta} after the pair, found {body[j] if j < len(body) else None}")
                    else:
                        j += 1
            elif r == "B;":
                j += 1
            else:
                bad.append(f"grammar: call {i}: unexpected record {r!r} inside a transfer")
                break
        req = {}
        for s, d, v in tr:
            key = (dev_pos(case["dev"], L[op["src"]], s), dev_pos(case["dev"], L[op["dst"]], d))
            req[key] = req.get(key, 0) + v
        for key in set(req) | set(flows):
            got = sum(flows.get(key, []))
            if abs(got - req.get(key, 0)) > Fraction(len(flows.get(key, [])), 200):
                bad.append(f"flows: call {i}: {got} moved between positions {key} but {req.get(key, 0)} requested")
        # break records: a column group in which a volume had to be split is closed by B;, others contain none
        pb = op.get("pb", "auto")
        if pb == "auto":
            pb = "destination" if L[op["src"]]["kind"] == "trough" and L[op["dst"]]["kind"] != "trough" else "source"
        side = 0 if pb == "source" else 1
        groups = {}
        for t in tr:
            groups.setdefault(t[side][1:], []).append(t)
        pos = 0
        for key in sorted(groups):
            g = groups[key]
            if case["wl"]["auto_split"]:
                npairs = sum(max(1, math.ceil(v / mv)) for _, _, v in g if v > 0)
                gsplit = any(v > 0 and math.ceil(v / mv) > 1 for _, _, v in g)
            else:
                npairs = sum(1 for _, _, v in g if v > 0)
                gsplit = False
            seen = 0
            while pos < len(body) and seen < npairs:
                if body[pos].startswith("A;"):
                    seen += 1
                elif body[pos] == "B;" and not gsplit:
                    bad.append(f"break: call {i}: break record inside column group {key} although none of its volumes was split")
                pos += 1
            # skip the dispense / tip action of the last pair
            while pos < len(body) and not body[pos].startswith("A;") and body[pos] != "B;":
                pos += 1
            if gsplit:
                if pos >= len(body) or body[pos] != "B;":
                    bad.append(f"break: call {i}: column group {key} had a split volume but is not closed by a break record")
                else:
                    pos += 1
            elif pos < len(body) and body[pos] == "B;":
                bad.append(f"break: call {i}: break record after column group {key} although none of its volumes was split")
    return bad[:6]


# --------------------------------------------------------------------------- C01 / C03: replay


def apply_external(robot, case, obs, i, op):
    """direct labware calls are not part of the worklist: mirror their tracked effect in the replayed state"""
    k = op["lw"]
    rack = robot.racks[case["labware"][k]["name"]]
    before = [Fraction(v) for v in prev_lw(obs, i)[k]["vols"]]
    after = vols_of(obs["steps"][i], k)
    comps = op.get("comps")
    ws = flatF(op["wells"]) if "wells" in op else []
    for j, (a, b) in enumerate(zip(before, after)):
        if b < a:
            robot.take(rack, j, a - b, require_min=False)
        elif b > a:
            robot.put(rack, j, b - a, None, False, check=False)
    return


def dpos_of(case, op):
    L = case["labware"]
    return [dev_pos(case["dev"], L[op["dst"]], w) for w in flatF(op["dwells"])]


def oracle_C01(case, obs):
    if case["dev"] == "base":
        return []
    bad = []
    L = case["labware"]
    names = [s["name"] for s in L]
    if len(set(names)) != len(names):
        return []
    try:
        robot = gwl.Robot(case["dev"], gwl.racks_from_case(case, obs["initial"]))
    except gwl.GwlError:
        return []
    comp_ok = True
    for i, (op, st) in enumerate(zip(case["ops"], obs["steps"])):
        k = op["op"]
        if st["exc"] is not None or nonfinite(st):
            break
        if k in ("add", "remove", "condense"):
            if k != "condense":
                apply_external(robot, case, obs, i, op)
                comp_ok = False
            continue
        if k not in WL_OPS:
            break
        clean_targets = None
        if k in ("dispense",):
            # liquid of unknown origin: judged only when it goes into wells that are empty and never held a component
            # (then "contains none of the named components" is an exact description on both sides, and later transfers of
            # it must dilute the tracked fractions); otherwise the library's "more of what is there" has no physical reading
            rk = robot.racks[L[op["lw"]]["name"]]
            tw = [real_index(L[op["lw"]], w) for w in flatF(op["wells"]) if valid_well(L[op["lw"]], w)]
            if op.get("comps") is None and lw_args_ok(case, op) and all(rk.vol[j] == 0 and not rk.amt[j] and rk.known[j] for j in tw):
                clean_targets = (rk, tw)
            else:
                comp_ok = False
        if k == "aspirate":
            # a stand-alone aspirate does not change compositions, but a volume with more than two decimals is rounded in
            # the record, so the replayed volumes (hence later fractions) are only close to the tracked ones, not equal
            if any(v is not None and (v * 100).denominator != 1 for v in (num(x) for x in flatF(op["vols"]))):
                comp_ok = False
        # addressing: the records name the rack and device-specific number of the wells the call named
        if k in ("aspirate", "dispense"):
            ws = flatF(op["wells"])
            vs = [num(v) for v in bcast(flatF(op["vols"]), len(ws))]
            want = [(L[op["lw"]]["name"], dev_pos(case["dev"], L[op["lw"]], w)) for w, v in zip(ws, vs) if v is not None and v > 0]
            got = [(r.split(";")[1], int(r.split(";")[4])) for r in st["recs"] if r[:2] in ("A;", "D;")]
            if got != want:
                bad.append(f"addressing: call {i} ({k}) emitted records for {got}, the call named {want}")
        src_bad = False
        if k == "distribute":
            for r in st["recs"]:
                if r.startswith("R;"):
                    f = r.split(";")
                    src = L[op["src"]]
                    try:
                        idx = {robot.racks[f[1]].real_index(case["dev"], p) for p in range(int(f[4]), int(f[5]) + 1)}
                    except gwl.GwlError as e:
                        idx = {"error"}
                    if idx != {op["col"]} and len(set(dpos_of(case, op))) == len(dpos_of(case, op)):
                        src_bad = True
                        bad.append(f"distribute-source: call {i}: source range {f[4]}..{f[5]} of the R record does not address column {op['col']} of trough {src['name']} in {case['dev']} numbering")
                    dpos = sorted(dev_pos(case["dev"], L[op["dst"]], w) for w in flatF(op["dwells"]))
                    rng = [p for p in range(int(f[9]), int(f[10]) + 1) if str(p) not in f[16:]]
                    if len(set(dpos)) != len(dpos):
                        src_bad = True  # outside the property's domain (positions not pairwise distinct)
                    elif rng != dpos:
                        bad.append(f"addressing: call {i}: R record addresses destination positions {rng}, the call named {dpos}")
        if src_bad:
            # the interpreter cannot execute this record; mirror the tracked effect instead
            for kk in {op["src"], op["dst"]}:
                rack = robot.racks[L[kk]["name"]]
                rack.vol = vols_of(st, kk)
            comp_ok = False
            continue
        try:
            for r in st["recs"]:
                if is_script(r):
                    raise gwl.GwlError("script command")
                robot.execute(r)
        except gwl.GwlError as e:
            bad.append(f"replay: call {i} ({k}): {e}")
            break
        if clean_targets is not None:
            for j in clean_targets[1]:
                clean_targets[0].known[j] = True
        for kk in range(len(L)):
            rack = robot.racks[L[kk]["name"]]
            tracked = vols_of(st, kk)
            for j, (a, b) in enumerate(zip(rack.vol, tracked)):
                if abs(a - b) > Fraction(rack.touch[j], 200):
                    bad.append(f"volume: after call {i} ({k}) the replayed worklist gives well {j} of {L[kk]['name']} {float(a)} but the Labware reports {float(b)}")
                    break
        if k == "transfer" and not exact_transfer(case, op):
            comp_ok = False
        if k == "distribute":
            vd = num(op["volume"])
            if vd is None or (vd * 100).denominator != 1:
                comp_ok = False
        if comp_ok and k in ("transfer", "distribute") and not bad:
            for kk, comp in st["comp"].items():
                rack = robot.racks[L[int(kk)]["name"]]
                got = {}
                for c, ent in (comp or {}).items():
                    for j, f in ent:
                        if f == f and abs(f) != float("inf"):
                            got.setdefault(j, {})[c] = Fraction(f)
                for j in range(len(rack.vol)):
                    if rack.vol[j] <= 0 or not rack.known[j]:
                        continue
                    want = rack.fractions(j)
                    g = got.get(j, {})
                    for c in set(want) | set(g):
                        if abs(want.get(c, 0) - g.get(c, 0)) > Fraction(1, 10 ** 14) + max(want.get(c, 0), g.get(c, 0)) / 10 ** 6:
                            bad.append(f"composition: after call {i} ({k}) the replayed worklist gives well {j} of {L[int(kk)]['name']} {float(want.get(c, 0))} of {c!r}, the Labware reports {float(g.get(c, 0))}")
                            break
                    if bad:
                        break
        if any(not b.startswith("distribute-source") for b in bad):
            break
    # compositions: compare at the end when every record volume was exact and all liquid is of known origin
    if not any(not b.startswith("distribute-source") for b in bad) and comp_ok and obs.get("final") and all(s["exc"] is None for s in obs["steps"]) and all(o["op"] in WL_OPS for o in case["ops"]):
        exact = True
        for op, st in zip(case["ops"], obs["steps"]):
            if op["op"] == "transfer":
                tr = triples_of(op) or []
                if any((v * 100).denominator != 1 for _, _, v in tr):
                    exact = False
                mv = Fraction(case["wl"]["max_volume"])
                if any(v >= mv for _, _, v in tr) and (mv * 100).denominator != 1:
                    exact = False
            if op["op"] == "distribute":
                v = num(op["volume"])
                if v is None:
                    exact = False
        if exact:
            for kk, comp in enumerate(obs["final"]["comp"]):
                rack = robot.racks[L[kk]["name"]]
                got = {}
                for c, ent in (comp or {}).items():
                    for j, f in ent:
                        got.setdefault(j, {})[c] = Fraction(f)
                for j in range(len(rack.vol)):
                    if rack.vol[j] <= 0 or not rack.known[j]:
                        continue
                    want = rack.fractions(j)
                    g = got.get(j, {})
                    for c in set(want) | set(g):
                        if abs(want.get(c, 0) - g.get(c, 0)) > Fraction(1, 10 ** 9):
                            bad.append(f"composition: replayed worklist gives well {j} of {L[kk]['name']} {float(want.get(c, 0))} of {c!r}, the Labware reports {float(g.get(c, 0))}")
                            break
                    if bad:
                        break
    return bad[:6]


def oracle_C03(case, obs):
    if case["dev"] == "base":
        return []
    bad = []
    L = case["labware"]
    names = [s["name"] for s in L]
    if len(set(names)) != len(names):
        return []
    mv = Fraction(case["wl"]["max_volume"])
    try:
        robot = gwl.Robot(case["dev"], gwl.racks_from_case(case, obs["initial"]), check_limits=True)
    except gwl.GwlError:
        return []
    for i, (op, st) in enumerate(zip(case["ops"], obs["steps"])):
        mv = mv_before(case, i)
        k = op["op"]
        if nonfinite(st):
            break
        if st.get("shrunk"):
            bad.append(f"worklist: call {i} ({k}) removed records from the worklist")
        for r in st["recs"]:
            if r[:2] in ("A;", "D;"):
                v = Fraction(r.split(";")[6])
                if v > mv + Fraction(1, 200):
                    bad.append(f"oversized: call {i} ({k}) emitted a pipetting step of {v} above max_volume {mv}")
            if r.startswith("R;"):
                f = r.split(";")
                try:
                    rv, rm = Fraction(f[11]), int(f[14])
                except (ValueError, IndexError):
                    rv, rm = None, None
                if rv is not None and (rv > mv or rm * rv > mv):
                    bad.append(f"oversized: call {i} ({k}) emitted a reagent distribution that aspirates {rm} x {rv} at once, above max_volume {mv}")
            if is_script(r):
                d = decode_cmd(r)
                if d is not None and any(v > mv + Fraction(1, 200) for v in d["vols"]):
                    bad.append(f"oversized: call {i} ({k}) emitted a script command with a per-tip volume of {max(d['vols'])} above max_volume {mv}")
        if k == "transfer" and not case["wl"]["auto_split"]:
            tr = triples_of(op)
            if tr and st["exc"] is None and any(v > mv for _, _, v in tr):
                bad.append(f"oversized: call {i}: step above max_volume accepted without auto_split")
            if tr and any(v > mv for _, _, v in tr) and st.get("accepted_with_split") and st["exc"] != "InvalidOperationError":
                bad.append(f"oversized-class: call {i}: a transfer whose only fault is a step above max_volume (it is accepted when splitting is allowed) raised {st['exc']} instead of InvalidOperationError")
        if k in ("add", "remove"):
            apply_external(robot, case, obs, i, op)
            continue
        if k in ("evo_asp", "evo_disp"):
            # script commands address grid/site, not rack labels (decoded by the C13 oracle); here: a step that the
            # volume checks or the argument checks refused must not be present in the worklist
            if st["exc"] is not None and any(is_script(r) for r in st["recs"]):
                bad.append(f"rejected-step: call {i} ({k}) raised {st['exc']} but its command {[r for r in st['recs'] if is_script(r)][0][:60]!r} is in the worklist")
            apply_external(robot, case, obs, i, op)
            continue
        if k == "distribute" and case["dev"] == "fluent" and L[op["src"]]["kind"] == "trough" and L[op["src"]]["vrows"] > 1:
            # F12: the source range is not executable under Fluent numbering; mirror the tracking
            for kk in {op["src"], op["dst"]}:
                robot.racks[L[kk]["name"]].vol = vols_of(st, kk)
            continue
        try:
            for r in st["recs"]:
                if is_script(r):
                    continue
                robot.execute(r)
        except gwl.GwlError as e:
            bad.append(f"replay: after call {i} ({k}{', raised ' + st['exc'] if st['exc'] else ''}) the accumulated worklist is not executable: {e}")
            break
        if st["exc"] is not None:
            # the worklist as it would be written now must still be safe (checked above); the tracked state may
            # be ahead of the records (partial effects) - resynchronise for the calls that follow
            for kk in range(len(L)):
                rack = robot.racks[L[kk]["name"]]
                rack.vol = vols_of(st, kk)
    return bad[:6]


# --------------------------------------------------------------------------- C09 / C10: records carry their arguments


def tip_mask_of(t):
    """expected mask field text for a tip argument, or 'reject'"""
    def bit(e):
        if e[0] == "i" and isinstance(e[1], int) and 1 <= e[1] <= 8:
            return 1 << (e[1] - 1)
        if e[0] == "t":
            return 1 << (e[1] - 1)
        return None
    if "one" in t:
        e = t["one"]
        if e[0] == "any":
            return ""
        b = bit(e)
        return "reject" if b is None else str(b)
    m = 0
    for e in t["many"]:
        b = bit(e)
        if b is None:
            return "reject"
        m |= b
    return str(m)


def text_bad(t, limit):
    return isinstance(t, dict) or ";" in t or (limit and len(t) > 32)


def oracle_C09(case, obs):
    bad = []
    mv = Fraction(case["wl"]["max_volume"])
    diti = case["wl"]["diti_mode"]
    all_recs = []
    for i, (op, st) in enumerate(zip(case["ops"], obs["steps"])):
        mv = mv_before(case, i)
        k = op["op"]
        recs = st["recs"]
        before = list(all_recs)
        all_recs += recs
        for r in recs:
            if is_script(r):
                continue
            try:
                d0 = gwl.parse_record(r)
                if d0.get("type") == "R":
                    ex0 = [int(x) for x in d0["exclude"]]
                    if ex0 != sorted(ex0):
                        bad.append(f"field: call {i} ({k}): the exclusion list of {r!r} is not sorted")
                    if any(not (int(d0["dst_start"]) <= x <= int(d0["dst_end"])) for x in ex0):
                        bad.append(f"field: call {i} ({k}): an excluded well of {r!r} lies outside the destination range")
            except gwl.GwlError as e:
                bad.append(f"grammar: call {i} ({k}) emitted a malformed record {r!r}: {e}")
        if st["exc"] is not None and recs and k in ("aspirate_well", "dispense_well", "reagent", "comment", "wash", "decon", "flush", "commit", "set_diti"):
            bad.append(f"append-nothing: call {i} ({k}) raised {st['exc']} but appended {recs}")
        if k in ("aspirate_well", "dispense_well"):
            kw = dict({"liquid_class": "", "tip": {"one": ["any"]}, "rack_id": "", "tube_id": "", "rack_type": "", "forced_rack_type": ""}, **(op.get("kw") or {}))
            v = num(op["volume"])
            reasons = []
            if text_bad(op["rack_label"], True):
                reasons.append("rack_label")
            if isinstance(op["position"], dict) or op["position"] < 0:
                reasons.append("position")
            if v is None or v < 0 or v > 7158278:
                reasons.append("volume")
            elif v > mv:
                reasons.append("volume>max_volume")
            if text_bad(kw["liquid_class"], False):
                reasons.append("liquid_class")
            mask = tip_mask_of(kw["tip"])
            if mask == "reject":
                reasons.append("tip")
            for f, lim in (("rack_id", True), ("tube_id", False), ("rack_type", True), ("forced_rack_type", True)):
                if text_bad(kw[f], lim):
                    reasons.append(f)
            if reasons:
                if st["exc"] is None:
                    bad.append(f"reject: call {i} ({k}) with unrepresentable {reasons[0]} was accepted: {recs}")
                continue
            if st["exc"] is not None:
                bad.append(f"accept: call {i} ({k}) with representable arguments raised {st['exc']}")
                continue
            if len(recs) != 1:
                bad.append(f"one-record: call {i} ({k}) appended {len(recs)} records")
                continue
            try:
                d = gwl.parse_record(recs[0])
            except gwl.GwlError:
                continue
            want = {"type": "A" if k == "aspirate_well" else "D", "rack_label": op["rack_label"], "rack_id": kw["rack_id"], "rack_type": kw["rack_type"],
                    "position": str(op["position"]), "tube_id": kw["tube_id"], "liquid_class": kw["liquid_class"], "tip": mask,
                    "forced_rack_type": kw["forced_rack_type"], "tip_type": ""}
            for f, w in want.items():
                if d.get(f) != w:
                    bad.append(f"field: call {i} ({k}): field {f} decodes to {d.get(f)!r}, argument was {w!r}")
            if abs(Fraction(d["volume"]) - v) > Fraction(1, 200):
                bad.append(f"field: call {i} ({k}): volume {d['volume']} for argument {v}")
        elif k == "reagent":
            v = num(op["volume"])
            reasons = []
            if op.get("direction", "left_to_right") not in ("left_to_right", "right_to_left"):
                reasons.append("direction")
            for f in ("src_start", "src_end", "dst_start", "dst_end"):
                if isinstance(op[f], dict) or op[f] < 0:
                    reasons.append(f)
            for f in ("diti_reuse", "multi_disp"):
                if op.get(f, 1) < 0:
                    reasons.append(f)  # not a number a worklist line can carry
            ex = op.get("exclude") or []
            if not reasons and any(isinstance(x, dict) or not (op["dst_start"] <= x <= op["dst_end"]) for x in ex):
                reasons.append("excluded well")
            for f, lim in (("src_label", True), ("dst_label", True), ("src_rack_id", True), ("src_rack_type", True), ("dst_rack_id", True), ("dst_rack_type", True), ("liquid_class", False)):
                if text_bad(op.get(f, ""), lim):
                    reasons.append(f)
            if v is None or v < 0 or v > 7158278:
                reasons.append("volume")
            elif v > mv:
                reasons.append("volume>max_volume")
            if reasons:
                if st["exc"] is None:
                    bad.append(f"reject: call {i} (reagent_distribution) with unrepresentable {reasons[0]} was accepted: {recs}")
                continue
            if st["exc"] is not None:
                bad.append(f"accept: call {i} (reagent_distribution) with representable arguments raised {st['exc']}")
                continue
            if len(recs) != 1:
                bad.append(f"one-record: call {i} (reagent_distribution) appended {len(recs)} records")
                continue
            try:
                d = gwl.parse_record(recs[0])
            except gwl.GwlError:
                continue
            md = op.get("multi_disp", 1)
            if md * v > mv and v > 0:
                md = math.floor(mv / v)
            want = {"src_label": op["src_label"], "src_id": op.get("src_rack_id", ""), "src_type": op.get("src_rack_type", ""),
                    "src_start": str(op["src_start"]), "src_end": str(op["src_end"]), "dst_label": op["dst_label"],
                    "dst_id": op.get("dst_rack_id", ""), "dst_type": op.get("dst_rack_type", ""), "dst_start": str(op["dst_start"]),
                    "dst_end": str(op["dst_end"]), "liquid_class": op.get("liquid_class", ""), "diti_reuse": str(op.get("diti_reuse", 1)),
                    "multi_disp": str(md), "direction": "0" if op.get("direction", "left_to_right") == "left_to_right" else "1",
                    "exclude": [str(x) for x in sorted(ex)]}
            for f, w in want.items():
                if d.get(f) != w:
                    bad.append(f"field: call {i} (reagent_distribution): field {f} decodes to {d.get(f)!r}, argument was {w!r}")
            # the volume is written in Python's shortest round-trip notation: read back as binary64 it is the argument
            if Fraction(d["volume"]) != v and float(d["volume"]) != float(v):
                bad.append(f"field: call {i} (reagent_distribution): volume {d['volume']} for argument {v}")
        elif k == "comment":
            t = op["text"]
            if t and ";" in t:
                if st["exc"] is None:
                    bad.append(f"reject: call {i}: comment with a separator accepted")
            elif st["exc"] is not None:
                bad.append(f"accept: call {i}: comment raised {st['exc']}")
            else:
                want = [f"C;{ln.strip()}" for ln in (t or "").split("\n") if ln.strip()]
                if recs != want:
                    bad.append(f"field: call {i}: comment {t!r} gave {recs}")
        elif k == "wash":
            s = op.get("scheme", 1)
            if diti:
                if recs != ["W;"] or st["exc"]:
                    bad.append(f"field: call {i}: wash in DiTi mode gave {recs} / {st['exc']}")
            elif isinstance(s, int) and 1 <= s <= 4:
                if recs != [f"W{s};"]:
                    bad.append(f"field: call {i}: wash({s}) gave {recs} / {st['exc']}")
            elif st["exc"] is None:
                bad.append(f"reject: call {i}: invalid wash scheme {s!r} accepted: {recs}")
        elif k == "decon":
            if diti:
                if st["exc"] is None:
                    bad.append(f"reject: call {i}: decontamination wash accepted in DiTi mode")
            elif recs != ["WD;"]:
                bad.append(f"field: call {i}: decontaminate gave {recs} / {st['exc']}")
        elif k == "flush":
            if recs != ["F;"]:
                bad.append(f"field: call {i}: flush gave {recs}")
        elif k == "commit":
            if recs != ["B;"]:
                bad.append(f"field: call {i}: commit gave {recs}")
        elif k == "set_diti":
            allowed = not before or before[-1].split(";")[0] == "B"
            if op["i"] < 0:
                if st["exc"] is None:
                    bad.append(f"reject: call {i}: negative DiTi index accepted: {recs}")
            elif allowed:
                if recs != [f"S;{op['i']}"]:
                    bad.append(f"field: call {i}: set_diti gave {recs} / {st['exc']}")
            elif st["exc"] is None:
                bad.append(f"reject: call {i}: DiTi type switch accepted after {before[-1]!r}")
        elif k in ("aspirate", "dispense", "transfer") and st["exc"] is None:
            # keyword pass-through: every A/D record carries the given liquid class / ids / mask
            kw = dict({"liquid_class": "", "tip": {"one": ["any"]}, "rack_id": "", "tube_id": "", "rack_type": "", "forced_rack_type": ""}, **(op.get("kw") or {}))
            if any(isinstance(kw[f], dict) for f in kw if f != "tip"):
                continue
            mask = tip_mask_of(kw["tip"])
            for r in recs:
                if r[:2] in ("A;", "D;"):
                    try:
                        d = gwl.parse_record(r)
                    except gwl.GwlError:
                        continue
                    for f, w in (("liquid_class", kw["liquid_class"]), ("rack_id", kw["rack_id"]), ("tube_id", kw["tube_id"]),
                                 ("rack_type", kw["rack_type"]), ("forced_rack_type", kw["forced_rack_type"]), ("tip", mask)):
                        if d.get(f) != w:
                            bad.append(f"pass-through: call {i} ({k}): field {f} is {d.get(f)!r}, keyword argument was {w!r}")
                            break
    return bad[:6]


def oracle_C10(case, obs):
    bad = []
    for i, (op, st) in enumerate(zip(case["ops"], obs["steps"])):
        k = op["op"]
        if k in ("aspirate_well", "dispense_well", "aspirate", "dispense", "transfer"):
            kw = op.get("kw") or {}
            if "tip" not in kw:
                continue
            mask = tip_mask_of(kw["tip"])
            ad = [r for r in st["recs"] if r[:2] in ("A;", "D;")]
            if mask == "reject":
                if ad and k in ("aspirate_well", "dispense_well"):
                    bad.append(f"reject: call {i} ({k}) with invalid tip {kw['tip']} appended {ad}")
                if st["exc"] is None and (k in ("aspirate_well", "dispense_well") or ad):
                    bad.append(f"reject: call {i} ({k}) with invalid tip {kw['tip']} was accepted")
                continue
            if k in ("aspirate_well", "dispense_well") and st["exc"] is not None:
                # a collection of valid tips (any iterable, any length, repeats allowed) is emitted as the OR of its members
                other = dict({"liquid_class": "", "rack_id": "", "tube_id": "", "rack_type": "", "forced_rack_type": ""}, **{f: v for f, v in kw.items() if f != "tip"})
                mvq = mv_before(case, i)
                v1 = num(op["volume"])
                plain = (not isinstance(op["rack_label"], dict) and not text_bad(op["rack_label"], True) and isinstance(op["position"], int) and op["position"] >= 0
                         and v1 is not None and 0 <= v1 <= min(mvq, 7158278)
                         and not any(isinstance(other[f], dict) or text_bad(other[f], f in ("rack_id", "rack_type", "forced_rack_type")) for f in other))
                if plain:
                    bad.append(f"accept: call {i} ({k}) with the valid tip selection {kw['tip']} raised {st['exc']}")
            for r in ad:
                if r.split(";")[9] != mask:
                    bad.append(f"mask: call {i} ({k}): tip {kw['tip']} emitted as {r.split(';')[9]!r}, expected {mask!r}")
                    break
            if k == "transfer":
                for a, d in zip(ad[::2], ad[1::2]):
                    if a.split(";")[9] != d.split(";")[9]:
                        bad.append(f"pair: call {i}: aspirate/dispense of a pair carry different masks")
        if k in ("evo_asp", "evo_disp", "evo_wash"):
            tips = op["tips"] if k != "evo_wash" else op["args"]["tips"]
            bits = []
            ok = True
            for e in tips:
                if e[0] == "i" and 1 <= e[1] <= 8:
                    bits.append(e[1] - 1)
                elif e[0] == "t":
                    bits.append(e[1] - 1)
                else:
                    ok = False
            cmds = [r for r in st["recs"] if is_script(r)]
            if not ok:
                if cmds:
                    bad.append(f"reject: call {i} ({k}) with invalid tips {tips} emitted {cmds}")
                continue
            for c in cmds:
                m = re.match(r"B;\w+\((-?\d+),", c)
                want = 0
                for b in bits:
                    want |= 1 << b
                if not m or int(m.group(1)) != want:
                    bad.append(f"mask: call {i} ({k}): tips {tips} emitted as mask {m.group(1) if m else None}, expected {want}")
    return bad[:6]


# --------------------------------------------------------------------------- C13: EVO script commands


def decode_cmd(cmd):
    m = re.fullmatch(r'B;(Aspirate|Dispense)\((-?\d+),"([^"]*)",(.*),(\d+),(\d+),1,"([^"]*)",0,(-?\d+)\);', cmd)
    if not m:
        return None
    kind, mask, lc, vols, grid, site, sel, arm = m.groups()
    slots = vols.split(",")
    if len(slots) != 12:
        return None
    tipvols = []
    for s in slots:
        s = s.strip('"')
        tipvols.append(Fraction(s))
    return {"kind": kind, "mask": int(mask), "lc": lc, "vols": tipvols, "grid": int(grid), "site": int(site), "sel": sel, "arm": int(arm)}


def oracle_C13(case, obs):
    from harness.suites.pure import decode_selection

    bad = []
    L = case["labware"]
    mv = Fraction(case["wl"]["max_volume"])
    for i, (op, st) in enumerate(zip(case["ops"], obs["steps"])):
        k = op["op"]
        if k == "evo_wash":
            a = op["args"]
            cmds = [r for r in st["recs"] if is_script(r)]
            def rng_ok(x, lo, hi):
                return isinstance(x, int) and lo <= x <= hi
            ok = rng_ok(a["waste"][0], 1, 67) and rng_ok(a["waste"][1], 1, 128) and rng_ok(a["cleaner"][0], 1, 67) and rng_ok(a["cleaner"][1], 1, 128)
            ok = ok and a.get("arm", 0) in (0, 1)
            for f, (lo, hi, dflt) in {"waste_delay": (0, 1000, 500), "cleaner_delay": (0, 1000, 500), "airgap": (0, 100, 10),
                                      "airgap_speed": (1, 1000, 70), "retract_speed": (1, 100, 30), "fastwash": (0, 1, 1), "low_volume": (0, 1, 0)}.items():
                ok = ok and rng_ok(a.get(f, dflt), lo, hi)
            for f, dflt in (("waste_vol", "3"), ("cleaner_vol", "4")):
                v = num(a.get(f, dflt))
                ok = ok and v is not None and 0 <= v <= 100
            tips_ok = all((e[0] == "i" and 1 <= e[1] <= 8) or e[0] == "t" for e in a["tips"])
            if not (ok and tips_ok):
                if st["exc"] is None:
                    bad.append(f"wash-reject: call {i}: evo_wash with an out-of-range parameter was accepted: {cmds}")
                continue
            if st["exc"] is not None:
                bad.append(f"wash-accept: call {i}: valid evo_wash raised {st['exc']}")
                continue
            m = re.fullmatch(r'B;Wash\((\d+),(\d+),(\d+),(\d+),(\d+),"([^"]*)",(\d+),"([^"]*)",(\d+),(\d+),(\d+),(\d+),(\d+),(\d+),1000,(\d+)\);', cmds[0]) if len(cmds) == 1 else None
            if not m:
                bad.append(f"wash-format: call {i}: {cmds}")
                continue
            g = m.groups()
            want = [a["waste"][0], a["waste"][1] - 1, a["cleaner"][0], a["cleaner"][1] - 1, None, a.get("waste_delay", 500), None, a.get("cleaner_delay", 500),
                    a.get("airgap", 10), a.get("airgap_speed", 70), a.get("retract_speed", 30), a.get("fastwash", 1), a.get("low_volume", 0), a.get("arm", 0)]
            for x, w in zip(g[1:], want):
                if w is not None and int(x) != w:
                    bad.append(f"wash-order: call {i}: parameter order/values differ: {cmds[0]}")
                    break
            for x, f, dflt in ((g[5], "waste_vol", "3"), (g[7], "cleaner_vol", "4")):
                if abs(Fraction(x) - num(a.get(f, dflt))) > Fraction(1, 20):
                    bad.append(f"wash-order: call {i}: {f} emitted as {x}")
            continue
        if k not in ("evo_asp", "evo_disp"):
            continue
        spec = L[op["lw"]]
        ws = flatF(op["wells"])
        tips = op["tips"]
        vol = op["volume"]
        if vol["t"] == "scalar":
            vs = [num(vol["v"])] * len(ws)
        elif vol["t"] == "list":
            vs = [num(v) for v in vol["v"]]
        else:
            vs = [None] * len(ws)  # nested lists, tuples ...: not a per-tip list of numbers
        tipn = []
        for e in tips:
            if (e[0] == "i" and 1 <= e[1] <= 8) or e[0] == "t":
                tipn.append(e[1])
            else:
                tipn.append(None)
        expressible = (
            len(ws) == len(tips) == len(vs) and all(valid_well(spec, w) for w in ws) and len({w[1:] for w in ws}) <= 1
            and all(t is not None for t in tipn) and all(a < b for a, b in zip(tipn, tipn[1:]))
            and all(ord(a[0]) < ord(b[0]) for a, b in zip(ws, ws[1:]))
            and all(v is not None and 0 <= v <= mv for v in vs)
            and isinstance(op["grid"], int) and 1 <= op["grid"] <= 67 and isinstance(op["site"], int) and 1 <= op["site"] <= 128
            and op.get("arm", 0) in (0, 1) and isinstance(op["lc"], str) and ";" not in op["lc"] and vol["t"] in ("scalar", "list")
        )
        cmds = [r for r in st["recs"] if is_script(r)]
        if not expressible:
            if cmds:
                bad.append(f"reject: call {i} ({k}) cannot be expressed as one command (wells {ws}, tips {tips}) but emitted {cmds}")
            elif st["exc"] is None:
                bad.append(f"reject: call {i} ({k}) cannot be expressed as one command but returned normally")
            continue
        if st["exc"] is not None:
            if st["exc"] not in ("VolumeOverflowError", "VolumeUnderflowError"):
                bad.append(f"accept: call {i} ({k}) is expressible but raised {st['exc']}")
            continue
        if len(cmds) != 1:
            bad.append(f"one-command: call {i} ({k}) emitted {len(cmds)} commands")
            continue
        d = decode_cmd(cmds[0])
        if d is None:
            bad.append(f"format: call {i} ({k}): {cmds[0]}")
            continue
        if d["kind"] != ("Aspirate" if k == "evo_asp" else "Dispense") or d["lc"] != op["lc"] or d["arm"] != op.get("arm", 0) \
                or d["grid"] != op["grid"] or d["site"] != op["site"] - 1:
            bad.append(f"arguments: call {i} ({k}): command names {d['kind']}/{d['lc']}/{d['arm']}/{d['grid']}/{d['site']}")
        sel = decode_selection(d["sel"])
        if sel is None:
            bad.append(f"selection: call {i}: selection string not decodable")
            continue
        rows, cols, grid, _ = sel
        if (rows, cols) != (spec_rows(spec), spec["cols"]):
            bad.append(f"selection: call {i}: dimensions {rows}x{cols}")
            continue
        selected = [(r, c) for c in range(cols) for r in range(rows) if grid[r][c]]
        seltips = [t for t in range(8) if (d["mask"] >> t) & 1]
        if len(selected) != len(seltips):
            bad.append(f"pairing: call {i}: {len(selected)} wells selected for {len(seltips)} tips")
            continue
        # EVOware: selected tips ascending serve selected wells ascending by row
        change = {}
        for (r, c), t in zip(sorted(selected), seltips):
            j = c if spec["kind"] == "trough" else r * spec["cols"] + c
            change[j] = change.get(j, 0) + d["vols"][t]
        before = [Fraction(v) for v in prev_lw(obs, i)[op["lw"]]["vols"]]
        after = vols_of(st, op["lw"])
        sign = -1 if k == "evo_asp" else 1
        for j in range(len(before)):
            tracked = (after[j] - before[j]) * sign
            if abs(tracked - change.get(j, 0)) > Fraction(len(ws), 200):
                bad.append(f"agree: call {i} ({k}): the command changes well {j} by {float(change.get(j, 0))} but the tracking applied {float(tracked)}")
                break
    return bad[:6]


def oracle_C08(case, obs):
    """addressing part of C01: every A/D record names the rack and the device-specific number of the well the call named"""
    if case["dev"] == "base":
        return []
    bad = []
    L = case["labware"]
    for i, (op, st) in enumerate(zip(case["ops"], obs["steps"])):
        k = op["op"]
        if k in ("aspirate", "dispense", "transfer", "distribute") and not lw_args_ok(case, op):
            # an operation naming a well ID that does not exist in the labware raises without emitting a record
            if st["exc"] is None:
                bad.append(f"nonexistent: call {i} ({k}) names a well that does not exist but was accepted")
            elif st["recs"]:
                bad.append(f"nonexistent: call {i} ({k}) names a well that does not exist, raised {st['exc']} but appended {st['recs'][:3]}")
            continue
        if k in ("aspirate", "dispense") and lw_args_ok(case, op):
            ws = flatF(op["wells"])
            vs = [num(v) for v in bcast(flatF(op["vols"]), len(ws))]
            if len(vs) != len(ws):
                continue
            want = [(L[op["lw"]]["name"], dev_pos(case["dev"], L[op["lw"]], w)) for w, v in zip(ws, vs) if v is not None and v > 0]
            got = [(r.split(";")[1], int(r.split(";")[4])) for r in st["recs"] if r[:2] in ("A;", "D;")]
            if got != want[: len(got)] or (st["exc"] is None and got != want):
                bad.append(f"position: call {i} ({k}) emitted records for {got}, the call named {want}")
        if k == "transfer" and st["exc"] is None and lw_args_ok(case, op):
            tr = triples_of(op) or []
            want = {(dev_pos(case["dev"], L[op["src"]], s), dev_pos(case["dev"], L[op["dst"]], d)) for s, d, v in tr if v > 0}
            recs = st["recs"]
            got = set()
            for a, d in zip(recs, recs[1:]):
                if a.startswith("A;") and d.startswith("D;"):
                    fa, fd = a.split(";"), d.split(";")
                    if fa[1] != L[op["src"]]["name"] or fd[1] != L[op["dst"]]["name"]:
                        bad.append(f"position: call {i} (transfer) names racks {fa[1]!r} / {fd[1]!r}")
                    got.add((int(fa[4]), int(fd[4])))
            if got != want:
                bad.append(f"position: call {i} (transfer) pipettes between positions {sorted(got)}, the call named {sorted(want)}")
        if k == "distribute" and st["exc"] is None:
            for r in st["recs"]:
                if r.startswith("R;"):
                    f = r.split(";")
                    dpos = sorted(dev_pos(case["dev"], L[op["dst"]], w) for w in flatF(op["dwells"]))
                    rng_ = [p for p in range(int(f[9]), int(f[10]) + 1) if str(p) not in f[16:]]
                    if len(set(dpos)) == len(dpos) and rng_ != dpos:
                        bad.append(f"position: call {i} (distribute) addresses destination positions {rng_}, the call named {dpos}")
    return bad[:5]


ORACLES = {"C08": oracle_C08, "C01": oracle_C01, "C02": oracle_C02, "C03": oracle_C03, "C04": oracle_C04, "C05": oracle_C05,
           "C06": oracle_C06, "C07": oracle_C07, "C09": oracle_C09, "C10": oracle_C10, "C11": oracle_C11}
ORACLES_PARAMS = {"C09": oracle_C09, "C10": oracle_C10, "C06": oracle_C06}
ORACLES_EVOCMD = {"C13": oracle_C13, "C10": oracle_C10, "C02": oracle_C02, "C03": oracle_C03, "C04": oracle_C04, "C05": oracle_C05}
