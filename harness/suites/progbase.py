"""Shared runner + Gallina emitter for whole programs (Coq side: Corr/CheckProg.v).

A *case* is JSON: device, worklist configuration, labware specifications, a list of API calls.
`run_program` executes it against the real robotools from /repo and returns canonical observations;
`emit_program` turns case + observations into a `CheckProg.case` term.
"""
from __future__ import annotations

import math
from fractions import Fraction

from harness.core import CaseError, carr, cbool, clist, copt, cq, cstr, cxnum, cz, errcode, np_arg, to_float, frac_str

TWO40 = 1 << 40

# --------------------------------------------------------------------------- python values from JSON


def py_text(t):
    """str | {"notstr": kind}"""
    if isinstance(t, dict):
        k = t["notstr"]
        return {"none": None, "int": 7, "float": 1.5, "bytes": b"x", "list": ["a"]}[k]
    return t


def py_int(t):
    """int | {"notint": "float:2.5" | "none" | "str:3"}"""
    if isinstance(t, dict):
        k = t["notint"]
        if k == "none":
            return None
        if k.startswith("float:"):
            return float(k[6:])
        if k.startswith("str:"):
            return k[4:]
        raise ValueError(k)
    return t


def py_vol(t):
    """number string | 'nan' | 'inf' | '-inf' | {"bad": "none"|"str"} | {"int": n}"""
    if isinstance(t, dict):
        if "int" in t:
            return int(t["int"])
        return {"none": None, "str": "abc"}[t["bad"]]
    return to_float(t)


def py_tipelem(e):
    from robotools.evotools.types import Tip

    k = e[0]
    if k == "i":
        return int(e[1])
    if k == "t":
        return [Tip.T1, Tip.T2, Tip.T3, Tip.T4, Tip.T5, Tip.T6, Tip.T7, Tip.T8][e[1] - 1]
    if k == "any":
        return Tip.Any
    if k == "o":
        v = e[1]
        if v == "none":
            return None
        if v.startswith("float:"):
            return float(v[6:])
        if v.startswith("str:"):
            return v[4:]
    raise ValueError(e)


def py_tip(t):
    if "one" in t:
        return py_tipelem(t["one"])
    seq = [py_tipelem(e) for e in t["many"]]
    kind = t.get("as") or ("tuple" if t.get("tuple") else "list")
    if kind == "list":
        return seq
    import numpy

    # any iterable of tips is a collection: tuples, sets, frozensets, dict keys, arrays
    return {"tuple": tuple, "set": set, "frozenset": frozenset, "dictkeys": lambda x: dict.fromkeys(x).keys(),
            "array": lambda x: numpy.array([int(v) for v in x])}[kind](seq)


def py_kw(kw):
    out = {}
    for k, v in (kw or {}).items():
        out[k] = py_tip(v) if k == "tip" else py_text(v)
    return out


def py_comps(cs):
    if cs is None:
        return None
    return [None if c is None else {k: to_float(v) for k, v in c.items()} for c in cs]


def py_scheme(ws):
    if isinstance(ws, dict):
        return {"none": None, "float2": 2.0, "str": "rinse"}[ws["other"]]
    return ws


# --------------------------------------------------------------------------- building the objects


def build_labware(spec, shared=None):
    """`shared`: an ndarray to be passed as initial_volumes as is (the same object another labware was built from)"""
    import robotools

    if spec["kind"] == "plate":
        kwargs = dict(min_volume=to_float(spec["min"]) if spec["min"] is not None else None,
                      max_volume=to_float(spec["max"]) if spec["max"] is not None else None)
        if spec.get("init") is not None:
            kwargs["initial_volumes"] = np_arg(spec["init"], to_float) if shared is None else shared
        if spec.get("vrows") is not None:
            kwargs["virtual_rows"] = py_int(spec["vrows"])
        if spec.get("names") is not None:
            kwargs["component_names"] = dict(spec["names"])
        return robotools.Labware(spec["name"], py_int(spec["rows"]), py_int(spec["cols"]), **kwargs)
    kwargs = dict(min_volume=to_float(spec["min"]), max_volume=to_float(spec["max"]))
    if spec.get("via_labware"):
        # a trough created through the base class: Labware(name, 1, columns, virtual_rows=N)
        if spec.get("init") is not None:
            kwargs["initial_volumes"] = np_arg(spec["init"], to_float) if shared is None else shared
        import warnings

        with warnings.catch_warnings():
            warnings.simplefilter("ignore")
            return robotools.Labware(spec["name"], 1, py_int(spec["cols"]), virtual_rows=py_int(spec["vrows"]), **kwargs)
    if spec.get("init") is not None:
        kwargs["initial_volumes"] = np_arg(spec["init"], to_float) if shared is None else shared
    if spec.get("column_names") is not None:
        kwargs["column_names"] = spec["column_names"]
    return robotools.Trough(spec["name"], py_int(spec["vrows"]), py_int(spec["cols"]), **kwargs)


def build_all_labware(specs):
    import numpy

    arrays = {}
    lws = []
    for k, s in enumerate(specs):
        shared = None
        if s.get("share_init_with") is not None:
            shared = arrays.get(s["share_init_with"])
        elif s.get("init") is not None and s["init"]["shape"] != "scalar":
            arrays[k] = numpy.array(np_arg(s["init"], to_float), dtype=float)
            if s.get("init_dtype"):
                narrow = arrays[k].astype(s["init_dtype"])
                if not (narrow.astype(float) == arrays[k]).all():
                    raise CaseError("initial volumes not representable in " + s["init_dtype"])
                arrays[k] = narrow
            shared = arrays[k]
        lws.append(build_labware(s, shared))
    return lws


def build_worklist(dev, wl):
    import robotools

    cls = {"evo": robotools.EvoWorklist, "fluent": robotools.FluentWorklist, "base": robotools.BaseWorklist}[dev]
    import numpy

    mv = wl["max_volume"]
    mv = int(mv) if wl.get("max_int") else to_float(mv)
    if wl.get("max_np"):
        # the same number as a numpy scalar / 0-d array (e.g. read from a configuration table)
        conv = {"int64": numpy.int64, "int32": numpy.int32, "float32": numpy.float32, "float64": numpy.float64, "0d": numpy.array}[wl["max_np"]]
        mv2 = conv(mv)
        if float(mv2) != float(mv):
            raise CaseError("max_volume not representable as " + wl["max_np"])
        mv = mv2
    dm = wl["diti_mode"]
    if wl.get("diti_repr") == "int":
        dm = 1 if dm else 0
    elif wl.get("diti_repr") == "npbool":
        dm = numpy.bool_(dm)
    return cls(max_volume=mv, auto_split=wl["auto_split"], diti_mode=dm)


# --------------------------------------------------------------------------- executing one call


def py_arm(x):
    """the arm argument: 0 / 1 / another int, or {"notint": "float:1.0"} for a value that is not an integer"""
    if isinstance(x, dict):
        return py_int(x)
    return x


def e_arm(x):
    """for the model an arm that is not an integer is an arm that is neither 0 nor 1 (both are refused)"""
    return cz(2) if isinstance(x, dict) else cz(x)


def py_excl(x):
    """an exclusion-list entry: an int, or {"bad": "float:3.5" | "str:12" | "none"} for something that is not a well number"""
    if isinstance(x, dict):
        kind, _, val = x["bad"].partition(":")
        return {"float": lambda: float(val), "str": lambda: val, "none": lambda: None}[kind]()
    return x


def call(op, lws, wl):
    k = op["op"]
    if k == "set_max":
        # the diluter volume is a public attribute of the worklist; it may be re-assigned between calls (other tips / syringes)
        wl.max_volume = to_float(op["v"])
        return None
    if k == "add":
        return lws[op["lw"]].add(np_arg(op["wells"]), np_arg(op["vols"], to_float), op.get("label"), compositions=py_comps(op.get("comps")))
    if k == "remove":
        return lws[op["lw"]].remove(np_arg(op["wells"]), np_arg(op["vols"], to_float), op.get("label"))
    if k == "condense":
        if op.get("label", "last") == "last" and not op.get("explicit_label"):
            return lws[op["lw"]].condense_log(op["n"])
        return lws[op["lw"]].condense_log(op["n"], label=op["label"])
    if k == "aspirate":
        return wl.aspirate(lws[op["lw"]], np_arg(op["wells"]), np_arg(op["vols"], to_float), label=op.get("label"), **py_kw(op.get("kw")))
    if k == "dispense":
        return wl.dispense(lws[op["lw"]], np_arg(op["wells"]), np_arg(op["vols"], to_float), label=op.get("label"),
                           compositions=py_comps(op.get("comps")), **py_kw(op.get("kw")))
    if k == "transfer":
        kwargs = py_kw(op.get("kw"))
        if "ws" in op:
            kwargs["wash_scheme"] = py_scheme(op["ws"])
        if "pb" in op:
            kwargs["partition_by"] = op["pb"]
        return wl.transfer(lws[op["src"]], np_arg(op["swells"]), lws[op["dst"]], np_arg(op["dwells"]),
                           np_arg(op["vols"], to_float), label=op.get("label"), **kwargs)
    if k == "distribute":
        kwargs = {}
        for f in ("diti_reuse", "multi_disp", "direction"):
            if f in op:
                kwargs[f] = op[f]
        for f in ("liquid_class", "src_rack_id", "src_rack_type", "dst_rack_id", "dst_rack_type"):
            if f in op:
                kwargs[f] = py_text(op[f])
        if "label" in op:
            kwargs["label"] = op["label"]
        return wl.distribute(lws[op["src"]], op["col"], lws[op["dst"]], np_arg(op["dwells"]), volume=py_vol(op["volume"]), **kwargs)
    if k == "comment":
        return wl.comment(op["text"])
    if k == "wash":
        return wl.wash(py_scheme(op["scheme"])) if "scheme" in op else wl.wash()
    if k == "decon":
        return wl.decontaminate()
    if k == "flush":
        return wl.flush()
    if k == "commit":
        return wl.commit()
    if k == "set_diti":
        return wl.set_diti(op["i"])
    if k in ("aspirate_well", "dispense_well"):
        kwargs = py_kw(op.get("kw"))
        fn = wl.aspirate_well if k == "aspirate_well" else wl.dispense_well
        return fn(py_text(op["rack_label"]), py_int(op["position"]), py_vol(op["volume"]), **kwargs)
    if k == "reagent":
        kwargs = {}
        for f in ("diti_reuse", "multi_disp", "direction"):
            if f in op:
                kwargs[f] = op[f]
        for f in ("liquid_class", "src_rack_id", "src_rack_type", "dst_rack_id", "dst_rack_type"):
            if f in op:
                kwargs[f] = py_text(op[f])
        if op.get("exclude") is not None:
            # exclude_wells is typed Iterable[int]: lists, tuples, sets and one-shot iterators are legal
            conv = {"list": list, "tuple": tuple, "set": set, "iter": iter, "gen": lambda x: (y for y in x)}[op.get("exclude_type", "list")]
            kwargs["exclude_wells"] = conv([py_excl(x) for x in op["exclude"]])
        return wl.reagent_distribution(py_text(op["src_label"]), py_int(op["src_start"]), py_int(op["src_end"]),
                                       py_text(op["dst_label"]), py_int(op["dst_start"]), py_int(op["dst_end"]),
                                       volume=py_vol(op["volume"]), **kwargs)
    if k in ("evo_asp", "evo_disp"):
        vol = op["volume"]
        if vol["t"] == "scalar":
            v = py_vol(vol["v"])
        elif vol["t"] == "list":
            v = [py_vol(x) for x in vol["v"]]
        elif vol["t"] == "nested":
            v = [[py_vol(x)] for x in vol["v"]]  # one-element lists instead of numbers
        else:
            v = tuple(py_vol(x) for x in vol["v"])
        kwargs = dict(arm=py_arm(op.get("arm", 0)), label=op.get("label"))
        if k == "evo_disp":
            kwargs["compositions"] = py_comps(op.get("comps"))
            fn = wl.evo_dispense
        else:
            fn = wl.evo_aspirate
        return fn(lws[op["lw"]], np_arg(op["wells"]), (py_int(op["grid"]), py_int(op["site"])),
                  [py_tipelem(e) for e in op["tips"]], v, py_text(op["lc"]), **kwargs)
    if k == "evo_wash":
        a = op["args"]
        kwargs = dict(tips=[py_tipelem(e) for e in a["tips"]],
                      waste_location=(py_int(a["waste"][0]), py_int(a["waste"][1])),
                      cleaner_location=(py_int(a["cleaner"][0]), py_int(a["cleaner"][1])))
        for f in ("arm",):
            if f in a:
                kwargs[f] = py_arm(a[f])
        for f in ("waste_vol", "cleaner_vol"):
            if f in a:
                kwargs[f] = py_vol(a[f])
        for f in ("waste_delay", "cleaner_delay", "airgap", "airgap_speed", "retract_speed", "fastwash", "low_volume"):
            if f in a:
                kwargs[f] = py_int(a[f])
        return wl.evo_wash(**kwargs)
    raise ValueError(f"unknown op {k}")


def touched(op):
    k = op["op"]
    if k in ("add", "remove", "condense", "aspirate", "dispense", "evo_asp", "evo_disp"):
        return [op["lw"]]
    if k in ("transfer", "distribute"):
        return sorted({op["src"], op["dst"]})
    return []


# --------------------------------------------------------------------------- observation


def vols_obs(lw):
    import numpy

    flat = lw._volumes.flatten().tolist()
    out = []
    for x in flat:
        if x != x or x in (float("inf"), float("-inf")):
            out.append(repr(x))
        else:
            out.append(frac_str(Fraction(x)))
    return out


def comp_obs(lw):
    out = {}
    comp = lw.composition
    if comp is None:
        return None
    for name, arr in comp.items():
        ent = []
        for i, f in enumerate(arr.flatten().tolist()):
            if f != 0:
                ent.append([i, f])
        out[name] = ent
    return out


def parse_report(lw):
    """Labware.report -> [(label or None, [tenths])] per entry, or None if numpy summarised / the text is ambiguous"""
    import re

    text = lw.report
    name = lw.name
    if not text.startswith(name):
        return None
    lines = text[len(name):].split("\n")
    if lines and lines[0] == "":
        lines = lines[1:]
    ents, i = [], 0
    while i < len(lines):
        if lines[i] == "" and i == len(lines) - 1:
            break
        lab = []
        while i < len(lines) and not lines[i].startswith("[["):
            lab.append(lines[i])
            i += 1
        if i >= len(lines):
            return None
        arr = []
        while i < len(lines):
            arr.append(lines[i])
            done = lines[i].endswith("]]")
            i += 1
            if done:
                break
        txt = " ".join(arr)
        if "..." in txt:
            return None
        nums = re.findall(r"-?\d+\.?\d*(?:[eE][-+]?\d+)?|nan|inf", txt)
        try:
            tenths = [int(round(float(x) * 10)) for x in nums]
        except (ValueError, OverflowError):
            return None
        if i < len(lines) and lines[i] == "":
            i += 1
        ents.append(["\n".join(lab) if lab else None, tenths])
    return ents


def rounding_guard(op, wl):
    """True if some ceil/floor the code computes on floats differs from the exact one (case dropped)."""
    try:
        mv = Fraction(wl.max_volume)
        if op["op"] == "transfer" and wl.auto_split:
            import numpy

            vols = np_arg(op["vols"], to_float)
            for v in numpy.array(vols).flatten().tolist():
                if not (v == v) or v <= 0 or v < wl.max_volume:
                    continue
                n_f = math.ceil(v / wl.max_volume)
                n_x = math.ceil(Fraction(v) / mv)
                if n_f != n_x:
                    return True
                if math.ceil(v / n_f) != math.ceil(Fraction(v) / n_x):
                    return True
        if op["op"] in ("reagent", "distribute"):
            v = py_vol(op["volume"])
            if isinstance(v, (int, float)) and v == v and v > 0 and v not in (float("inf"),):
                md = op.get("multi_disp", 1)
                if md * v > wl.max_volume:
                    if math.floor(wl.max_volume / v) != math.floor(mv / Fraction(v)):
                        return True
    except Exception:
        return False
    return False


def VOLUME_VIOLATION():
    import robotools

    return robotools.VolumeViolationException


def run_program(case):
    import numpy

    obs = {"steps": []}
    try:
        lws = build_all_labware(case["labware"])
    except Exception as e:
        return {"build_error": type(e).__name__, "steps": []}
    wl = build_worklist(case["dev"], case["wl"])
    captured = [[] for _ in lws]  # per labware: (array object, copy at capture)
    volcopies = []

    def capture():
        for k, lw in enumerate(lws):
            seen = {id(a) for a, _ in captured[k]}
            for a in lw._history:
                if id(a) not in seen:
                    captured[k].append((a, a.copy()))
            volcopies.append((k, lw.volumes, lw._volumes.copy()))

    capture()
    obs["initial"] = [{"vols": vols_obs(lw), "comp": comp_obs(lw), "labels": list(lw._labels)} for lw in lws]
    for i_op, op in enumerate(case["ops"]):
        if case.get("switch_at") is not None and i_op == case["switch_at"]:
            # a new worklist of another device type continues on the same labware objects
            wl = build_worklist(case["switch_dev"], case["wl"])
        if rounding_guard(op, wl):
            return {"drop": "rounding"}
        n0 = len(wl)
        exc = None
        try:
            call(op, lws, wl)
        except CaseError:
            raise
        except Exception as e:  # the code under test refused the call
            exc = e
        step = {
            "err": errcode(exc),
            "exc": type(exc).__name__ if exc is not None else None,
            "is_violation": isinstance(exc, VOLUME_VIOLATION()) if exc is not None else None,
            "recs": [str(r) for r in wl[n0:]],
            "shrunk": len(wl) < n0,
            "lw": [{"vols": vols_obs(lw), "hlen": len(lw._history), "last": lw._labels[-1] if lw._labels else None,
                    "nlabels": len(lw._labels),
                    "last_eq": bool(lw._history) and bool(numpy.array_equal(lw._history[-1], lw._volumes, equal_nan=True)),
                    "labels": list(lw._labels)} for lw in lws],
            "comp": {str(k): comp_obs(lws[k]) for k in touched(op)},
        }
        if (exc is not None and op["op"] == "transfer" and not case["wl"]["auto_split"]
                and type(exc).__name__ not in ("InvalidOperationError", "VolumeOverflowError", "VolumeUnderflowError")):
            # would the very same call be accepted by a worklist that may split?  (then its only fault is the oversized step)
            try:
                lws2 = build_all_labware(case["labware"])
                wl2 = build_worklist(case["dev"], dict(case["wl"], auto_split=True))
                for op2 in case["ops"][:i_op]:
                    try:
                        call(op2, lws2, wl2)
                    except Exception:
                        pass
                try:
                    call(op, lws2, wl2)
                    step["accepted_with_split"] = True
                except Exception:
                    step["accepted_with_split"] = False
            except Exception:
                pass
        obs["steps"].append(step)
        capture()
    if any(op["op"] == "set_max" or (op["op"] in ("evo_asp", "evo_disp") and op["volume"]["t"] not in ("scalar", "list")) for op in case["ops"]):
        obs["no_model"] = True  # re-assigning max_volume is not an operation of the model: property oracles only
    obs["final"] = {
        "hist": [[[lab, [frac_str(Fraction(x)) if x == x and abs(x) != float("inf") else repr(x) for x in arr.flatten().tolist()]]
                  for lab, arr in lw.history] for lw in lws],
        "comp": [comp_obs(lw) for lw in lws],
        "all_recs": [str(r) for r in wl],
        "report": [lw.report for lw in lws],
        "report_parsed": [parse_report(lw) for lw in lws],
    }
    # aliasing / snapshot observations (C11): captured history arrays and `volumes` copies never change
    mutated = []
    for k in range(len(lws)):
        for a, cp in captured[k]:
            if not numpy.array_equal(a, cp, equal_nan=True):
                mutated.append(["history", k])
    for k, arr, cp in volcopies:
        if not numpy.array_equal(arr, cp, equal_nan=True):
            mutated.append(["volumes", k])
    obs["mutated"] = mutated
    # entries still in the final history must be objects captured earlier, in capture order
    return obs


# --------------------------------------------------------------------------- Gallina emission


def e_text(t):
    if isinstance(t, dict):
        return "PNotStr"
    return f"(PStr {cstr(t)})"


def e_int(t):
    if isinstance(t, dict) or t is None or isinstance(t, bool):
        return "PNotInt"
    return f"(PInt {cz(t)})"


def e_pvol(t):
    if isinstance(t, dict):
        if "int" in t:
            return f"(PV (XQ {cq(t['int'])}))"
        return "PVBad"
    return f"(PV {cxnum(t)})"


def e_rvol(t):
    if isinstance(t, dict):
        if "int" in t:
            return f"(RVInt {cz(t['int'])})"
        return "RVBad"
    return f"(RVFloat {cxnum(t)})"


def e_tipelem(e):
    k = e[0]
    if k == "i":
        return f"(TInt {cz(e[1])})"
    if k == "t":
        return f"(TTip (nat_ {e[1]}))"
    if k == "any":
        return "TAny"
    return "TOther"


def e_tip(t):
    if "one" in t:
        return f"(TipOne {e_tipelem(t['one'])})"
    return f"(TipMany {clist([e_tipelem(e) for e in t['many']])})"


KW_DEFAULT = {"liquid_class": "", "tip": {"one": ["any"]}, "rack_id": "", "tube_id": "", "rack_type": "", "forced_rack_type": ""}


def e_kw(kw):
    kw = dict(KW_DEFAULT, **(kw or {}))
    return ("{| k_liquid_class := %s; k_tip := %s; k_rack_id := %s; k_tube_id := %s; k_rack_type := %s; k_forced := %s |}"
            % (e_text(kw["liquid_class"]), e_tip(kw["tip"]), e_text(kw["rack_id"]), e_text(kw["tube_id"]),
               e_text(kw["rack_type"]), e_text(kw["forced_rack_type"])))


def e_comp(c):
    return clist([f"({cstr(k)}, {cq(Fraction(to_float(v)))})" for k, v in c.items()])


def e_comps(cs):
    return copt(cs, lambda l: clist([copt(c, e_comp) for c in l]))


def e_label(l):
    return copt(l, cstr)


def e_scheme(ws):
    if isinstance(ws, dict):
        return "SNone" if ws["other"] == "none" else "SOther"
    if ws == "flush":
        return "SFlush"
    if ws == "reuse":
        return "SReuse"
    if isinstance(ws, int):
        return f"(SInt {cz(ws)})"
    return "SOther"


def e_adargs(op):
    kw = dict(KW_DEFAULT, **(op.get("kw") or {}))
    return ("{| x_rack_label := %s; x_position := %s; x_volume := %s; x_liquid_class := %s; x_tip := %s; "
            "x_rack_id := %s; x_tube_id := %s; x_rack_type := %s; x_forced := %s |}"
            % (e_text(op["rack_label"]), e_int(op["position"]), e_pvol(op["volume"]), e_text(kw["liquid_class"]),
               e_tip(kw["tip"]), e_text(kw["rack_id"]), e_text(kw["tube_id"]), e_text(kw["rack_type"]),
               e_text(kw["forced_rack_type"])))


def e_cmdargs(op):
    vol = op["volume"]
    if vol["t"] == "scalar":
        v = f"(CVScalar {e_pvol(vol['v'])})"
    elif vol["t"] == "list" and vol["v"] and all(isinstance(x, dict) and "int" in x for x in vol["v"]):
        # a list consisting only of Python ints: numpy keeps it integer and the command text shows plain integers
        v = f"(CVIntList {clist([cz(x['int']) for x in vol['v']])})"
    elif vol["t"] == "list":
        v = f"(CVList {clist([e_pvol(x) for x in vol['v']])})"
    else:
        v = "CVOther"
    return ("{| c_wells := %s; c_grid := %s; c_site := %s; c_volume := %s; c_liquid_class := %s; c_tips := %s; c_arm := %s |}"
            % (carr(op["wells"], cstr), e_int(op["grid"]), e_int(op["site"]), v, e_text(op["lc"]),
               clist([e_tipelem(e) for e in op["tips"]]), e_arm(op.get("arm", 0))))


def e_pyfi(t, default):
    if t is None:
        t = default
    if isinstance(t, dict):
        if "int" in t:
            return f"(FI_int {cz(t['int'])})"
        return "FI_other"
    return f"(FI_float {cxnum(t)})"


def e_washargs(a):
    g = lambda f, d: e_int(a.get(f, d))
    return ("{| wa_tips := %s; wa_waste_grid := %s; wa_waste_site := %s; wa_cleaner_grid := %s; wa_cleaner_site := %s; "
            "wa_arm := %s; wa_waste_vol := %s; wa_waste_delay := %s; wa_cleaner_vol := %s; wa_cleaner_delay := %s; "
            "wa_airgap := %s; wa_airgap_speed := %s; wa_retract_speed := %s; wa_fastwash := %s; wa_low_volume := %s |}"
            % (clist([e_tipelem(e) for e in a["tips"]]), e_int(a["waste"][0]), e_int(a["waste"][1]),
               e_int(a["cleaner"][0]), e_int(a["cleaner"][1]), e_arm(a.get("arm", 0)),
               e_pyfi(a.get("waste_vol"), "3"), g("waste_delay", 500), e_pyfi(a.get("cleaner_vol"), "4"),
               g("cleaner_delay", 500), g("airgap", 10), g("airgap_speed", 70), g("retract_speed", 30),
               g("fastwash", 1), g("low_volume", 0)))


def e_excl(x, op):
    """an entry that is not a well number at all is, for the model, an entry outside the destination range (both are refused)"""
    if isinstance(x, dict):
        ds = op["dst_start"]
        return cz(ds - 1 if isinstance(ds, int) and not isinstance(ds, bool) else -1)
    return cz(x)


def e_rdargs(op):
    return ("{| rd_src_label := %s; rd_src_start := %s; rd_src_end := %s; rd_dst_label := %s; rd_dst_start := %s; "
            "rd_dst_end := %s; rd_volume := %s; rd_diti_reuse := %s; rd_multi_disp := %s; rd_exclude := %s; "
            "rd_liquid_class := %s; rd_direction := %s; rd_src_id := %s; rd_src_type := %s; rd_dst_id := %s; rd_dst_type := %s |}"
            % (e_text(op["src_label"]), e_int(op["src_start"]), e_int(op["src_end"]), e_text(op["dst_label"]),
               e_int(op["dst_start"]), e_int(op["dst_end"]), e_rvol(op["volume"]), cz(op.get("diti_reuse", 1)),
               cz(op.get("multi_disp", 1)), copt(op.get("exclude"), lambda l: clist([e_excl(x, op) for x in l])),
               e_text(op.get("liquid_class", "")), cstr(op.get("direction", "left_to_right")),
               e_text(op.get("src_rack_id", "")), e_text(op.get("src_rack_type", "")),
               e_text(op.get("dst_rack_id", "")), e_text(op.get("dst_rack_type", ""))))


def e_distargs(op):
    return ("{| d_source_column := %s; d_volume := %s; d_diti_reuse := %s; d_multi_disp := %s; d_liquid_class := %s; "
            "d_label := %s; d_direction := %s; d_src_id := %s; d_src_type := %s; d_dst_id := %s; d_dst_type := %s |}"
            % (cz(op["col"]), e_rvol(op["volume"]), cz(op.get("diti_reuse", 1)), cz(op.get("multi_disp", 1)),
               e_text(op.get("liquid_class", "")), e_label(op.get("label", "")), cstr(op.get("direction", "left_to_right")),
               e_text(op.get("src_rack_id", "")), e_text(op.get("src_rack_type", "")),
               e_text(op.get("dst_rack_id", "")), e_text(op.get("dst_rack_type", ""))))


def e_op(op):
    k = op["op"]
    if k == "add":
        return f"(OAdd (nat_ {op['lw']}) {carr(op['wells'], cstr)} {carr(op['vols'], cxnum)} {e_label(op.get('label'))} {e_comps(op.get('comps'))})"
    if k == "remove":
        return f"(ORemove (nat_ {op['lw']}) {carr(op['wells'], cstr)} {carr(op['vols'], cxnum)} {e_label(op.get('label'))})"
    if k == "condense":
        return f"(OCondense (nat_ {op['lw']}) (nat_ {op['n']}) {e_label(op.get('label', 'last'))})"
    if k == "aspirate":
        return f"(OAspirate (nat_ {op['lw']}) {carr(op['wells'], cstr)} {carr(op['vols'], cxnum)} {e_label(op.get('label'))} {e_kw(op.get('kw'))})"
    if k == "dispense":
        return (f"(ODispense (nat_ {op['lw']}) {carr(op['wells'], cstr)} {carr(op['vols'], cxnum)} {e_label(op.get('label'))} "
                f"{e_comps(op.get('comps'))} {e_kw(op.get('kw'))})")
    if k == "transfer":
        return (f"(OTransfer (nat_ {op['src']}) {carr(op['swells'], cstr)} (nat_ {op['dst']}) {carr(op['dwells'], cstr)} "
                f"{carr(op['vols'], cq)} {e_label(op.get('label'))} {e_scheme(op.get('ws', 1))} {cstr(op.get('pb', 'auto'))} {e_kw(op.get('kw'))})")
    if k == "distribute":
        return f"(ODistribute (nat_ {op['src']}) (nat_ {op['dst']}) {carr(op['dwells'], cstr)} {e_distargs(op)})"
    if k == "comment":
        return f"(OComment {e_label(op['text'])})"
    if k == "wash":
        return f"(OWash {e_scheme(op.get('scheme', 1))})"
    if k == "decon":
        return "ODecon"
    if k == "flush":
        return "OFlush"
    if k == "commit":
        return "OCommit"
    if k == "set_diti":
        return f"(OSetDiti {cz(op['i'])})"
    if k == "aspirate_well":
        return f"(OAspWell {e_adargs(op)})"
    if k == "dispense_well":
        return f"(ODispWell {e_adargs(op)})"
    if k == "reagent":
        return f"(OReagent {e_rdargs(op)})"
    if k == "evo_asp":
        return f"(OEvoAsp (nat_ {op['lw']}) {e_cmdargs(op)} {e_label(op.get('label'))})"
    if k == "evo_disp":
        return f"(OEvoDisp (nat_ {op['lw']}) {e_cmdargs(op)} {e_label(op.get('label'))} {e_comps(op.get('comps'))})"
    if k == "evo_wash":
        return f"(OEvoWash {e_washargs(op['args'])})"
    raise ValueError(k)


def e_init(a):
    return copt(a, lambda x: carr(x, cxnum))


def e_lwspec(s):
    if s["kind"] == "plate":
        names = s.get("names") or {}
        return ("(LPlate {| a_name := %s; a_rows := %s; a_cols := %s; a_min := %s; a_max := %s; a_init := %s; a_vrows := %s; a_names := %s |})"
                % (cstr(s["name"]), e_int(s["rows"]), e_int(s["cols"]), cxnum(s["min"]), cxnum(s["max"]), e_init(s.get("init")),
                   copt(s.get("vrows"), e_int), clist([f"({cstr(k)}, {copt(v, cstr)})" for k, v in names.items()])))
    if s.get("via_labware"):
        return ("(LPlate {| a_name := %s; a_rows := PInt 1; a_cols := %s; a_min := %s; a_max := %s; a_init := %s; a_vrows := %s; a_names := [] |})"
                % (cstr(s["name"]), e_int(s["cols"]), cxnum(s["min"]), cxnum(s["max"]), e_init(s.get("init")), copt(s["vrows"], e_int)))
    cn = s.get("column_names")
    if cn is None:
        ccn = "CNone"
    elif isinstance(cn, str):
        ccn = f"(CStr {cstr(cn)})"
    else:
        ccn = f"(CList {clist([copt(x, cstr) for x in cn])})"
    init = s.get("init") if s.get("init") is not None else {"shape": "scalar", "v": "0"}
    return ("(LTrough {| t_name := %s; t_vrows := %s; t_cols := %s; t_min := %s; t_max := %s; t_init := %s; t_colnames := %s |})"
            % (cstr(s["name"]), e_int(s["vrows"]), e_int(s["cols"]), cxnum(s["min"]), cxnum(s["max"]), carr(init, cxnum), ccn))


SENTINEL = -(10 ** 30)  # stands for a non-finite number: no model value ever equals it


def _fr(v):
    if isinstance(v, str) and v in ("nan", "inf", "-inf"):
        return Fraction(SENTINEL)
    if isinstance(v, float) and (v != v or abs(v) == float("inf")):
        return Fraction(SENTINEL)
    return Fraction(v)


def e_vols(vs):
    frs = [_fr(v) for v in vs]
    den = 1
    for f in frs:
        den = den * f.denominator // math.gcd(den, f.denominator)
    return den, clist([cz(int(f * den)) for f in frs])


def e_lwobs(o):
    den, nums = e_vols(o["vols"])
    return "{| o_den := %d; o_nums := %s; o_hlen := %d; o_last := %s |}" % (den, nums, o["hlen"], e_label(o["last"]))


def e_compobs(c):
    items = []
    for name, ent in (c or {}).items():
        items.append(f"({cstr(name)}, {clist(['(%d, %s)' % (i, cz(round(_fr(f) * TWO40))) for i, f in ent])})")
    return clist(items)


def has_nonfinite(obs):
    for st in obs["steps"]:
        for l in st["lw"]:
            if any(v in ("nan", "inf", "-inf") for v in l["vols"]):
                return True
        for c in st["comp"].values():
            for ent in (c or {}).values():
                if any(f != f or abs(f) == float("inf") for _, f in ent):
                    return True
    return False


def emit_program(case, obs):
    dev = {"evo": "Evo", "fluent": "Fluent", "base": "BaseDev"}[case["dev"]]
    steps = []
    for op, st in zip(case["ops"], obs["steps"]):
        ex = ("{| e_err := %s; e_recs := %s; e_lw := %s; e_comp := %s |}"
              % (copt(st["err"], str), clist([cstr(r) for r in st["recs"]]), clist([e_lwobs(o) for o in st["lw"]]),
                 clist([f"({k}, {e_compobs(c)})" for k, c in st["comp"].items()])))
        steps.append(f"({e_op(op)}, {ex})")
    fin = obs["final"]
    hist = clist([clist(["(%s, (%d, %s))" % ((e_label(lab),) + e_vols(vs)) for lab, vs in h]) for h in fin["hist"]])
    def e_rep(r, h):
        # only when the parse is unambiguous: one block per history entry and the labels match the truthy labels
        if r is None or len(r) != len(h) or [x[0] for x in r] != [(lab if lab else None) for lab, _ in h]:
            return "None"
        # numpy prints with limited precision: trust the tenths only for volumes below 10^6
        if any(abs(t) > 10 ** 7 for _, ts in r for t in ts):
            return "None"
        return "(Some %s)" % clist(["(%s, %s)" % (e_label(lab), clist([cz(t) for t in ts])) for lab, ts in r])

    reps = fin.get("report_parsed") or [None] * len(fin["hist"])
    final = "{| f_hist := %s; f_comp := %s; f_report := %s |}" % (
        hist, clist([e_compobs(c) for c in fin["comp"]]), clist([e_rep(r, h) for r, h in zip(reps, fin["hist"])]))
    return ("{| p_dev := %s; p_max := %s; p_autosplit := %s; p_diti := %s; p_lw := %s; p_ops := %s; p_final := %s |}"
            % (dev, cq(Fraction(case["wl"]["max_volume"])), cbool(case["wl"]["auto_split"]), cbool(case["wl"]["diti_mode"]),
               clist([e_lwspec(s) for s in case["labware"]]), clist(steps), final))


def rounding_guard_transfers(wl, lws):
    """to_worklist only issues integer or dyadic volumes against dyadic max_volume: float ceil is exact"""
    return False
