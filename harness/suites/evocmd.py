from harness.suites.cmdsuites import EvoCmdSuite

SUITE = EvoCmdSuite()
