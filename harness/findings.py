"""Signature predicates of the known findings listed in /verif/known_findings.json.

`sig_<id>(suite_name, case, obs, clause) -> bool` decides whether a failing input (with the violated clause text the
oracle produced) is an instance of that finding.  A failing input that matches no predicate is a new violation."""
import re
from fractions import Fraction


def _call_index(clause):
    m = re.search(r"call (\d+)", clause)
    return int(m.group(1)) if m else None


def sig_F12(suite, case, obs, clause):
    """Fluent distribute: the R record's source range is written in EVO numbering."""
    i = _call_index(clause)
    if case.get("dev") != "fluent" or i is None or i >= len(case.get("ops", [])):
        return False
    op = case["ops"][i]
    if op["op"] != "distribute":
        return False
    src = case["labware"][op["src"]]
    return src["kind"] == "trough" and src["vrows"] > 1


def sig_F13(suite, case, obs, clause):
    """transfer(label="first"/"last") is logged with the label condense_log resolves for that keyword."""
    i = _call_index(clause)
    if i is None or i >= len(case.get("ops", [])):
        return False
    op = case["ops"][i]
    if op["op"] == "transfer":
        lab = op.get("label")
    elif op["op"] == "distribute" and op["src"] == op["dst"]:
        lab = op.get("label", "")
    else:
        return False
    if lab not in ("first", "last"):
        return False
    # only when no LVH note is appended (then the label is no longer the bare keyword)
    return "LVH" not in clause.split("expected")[-1]


def _plan_exact(case, obs):
    from harness.suites.plan import exact_plan

    vm = case["vmax"]
    C = case["C"]
    vmaxl = [Fraction(vm["v"])] * C if vm["shape"] == "scalar" else [Fraction(x) for x in vm["v"]]
    ideal = [[Fraction(t) for t in col] for col in obs["ideal"]]
    ins, xs, _ = exact_plan(ideal, Fraction(case["stock"]), vmaxl, Fraction(case["min_transfer"]))
    return ins, vmaxl


def sig_F11a(suite, case, obs, clause):
    """DilutionPlan: a planned transfer exceeds vmax of its target column (per-column or non-integer vmax)."""
    if suite != "plan":
        return False
    ins, vmaxl = _plan_exact(case, obs)
    return any(v > vmaxl[c] for c, ds, src, vt in ins for v in vt)


def sig_F11b(suite, case, obs, clause):
    """DilutionPlan: several columns are diluted from one source column and together draw more than it holds."""
    if suite != "plan":
        return False
    ins, vmaxl = _plan_exact(case, obs)
    drawn = {}
    for c, ds, src, vt in ins:
        if src is not None:
            col = ins[src][0]
            for r, v in enumerate(vt):
                drawn[(col, r)] = drawn.get((col, r), 0) + v
    return any(v > vmaxl[col] for (col, r), v in drawn.items())


def sig_F11c(suite, case, obs, clause):
    """executing a plan that exceeds vmax / over-draws a column fails (consequence of F11a / F11b)"""
    return sig_F11a(suite, case, obs, clause) or sig_F11b(suite, case, obs, clause)


def sig_F20(suite, case, obs, clause):
    """distribute to destination wells that share one device position (the same well twice; on a Fluent several virtual
    rows of one trough column): the R record dispenses once per position, the tracking once per named well, so a later
    accepted call can take the replayed well below min_volume (or the source column above max_volume)."""
    from harness.suites.progoracles import dev_pos, flatF

    i = _call_index(clause)
    m = re.search(r"replay takes (.+)\[(\d+)\] to (\S+) (below|above)", clause)
    if i is None or not m or "ops" not in case:
        return False
    name, j, side = m.group(1), int(m.group(2)), m.group(4)
    L = case["labware"]
    for n, (op, st) in enumerate(zip(case["ops"][: i + 1], obs["steps"])):
        if op["op"] != "distribute" or st.get("exc") is not None:
            continue
        dst = L[op["dst"]]
        ws = flatF(op["dwells"])
        pos = [dev_pos(case["dev"], dst, w) for w in ws]
        dup = {p for p in pos if pos.count(p) > 1}
        if not dup:
            continue
        real = lambda spec, w: (int(w[1:]) - 1) if spec["kind"] == "trough" else (ord(w[0]) - 65) * spec["cols"] + int(w[1:]) - 1
        if side == "below" and dst["name"] == name and j in {real(dst, w) for w, p in zip(ws, pos) if p in dup}:
            return True
        if side == "above" and L[op["src"]]["name"] == name and j == op["col"]:
            return True
    return False
