"""Signature predicates of the known findings listed in /verif/known_findings.json.

`sig_<id>(suite_name, case, obs, clause) -> bool` decides whether a failing input (with the violated clause text the
oracle produced) is an instance of that finding.  A failing input that matches no predicate is a new violation."""
import re
from fractions import Fraction


def _call_index(clause):
    m = re.search(r"call (\d+)", clause)
    return int(m.group(1)) if m else None


def sig_F12(suite, case, obs, clause):
    """Fluent distribute: the R record's source range is written in EVO numbering."""
    i = _call_index(clause)
    if case.get("dev") != "fluent" or i is None or i >= len(case.get("ops", [])):
        return False
    op = case["ops"][i]
    if op["op"] != "distribute":
        return False
    src = case["labware"][op["src"]]
    return src["kind"] == "trough" and src["vrows"] > 1


def sig_F13(suite, case, obs, clause):
    """transfer(label="first"/"last") is logged with the label condense_log resolves for that keyword."""
    i = _call_index(clause)
    if i is None or i >= len(case.get("ops", [])):
        return False
    op = case["ops"][i]
    if op["op"] == "transfer":
        lab = op.get("label")
    elif op["op"] == "distribute" and op["src"] == op["dst"]:
        lab = op.get("label", "")
    else:
        return False
    if lab not in ("first", "last"):
        return False
    # only when no LVH note is appended (then the label is no longer the bare keyword)
    return "LVH" not in clause.split("expected")[-1]


def _plan_exact(case, obs):
    from harness.suites.plan import exact_plan

    vm = case["vmax"]
    C = case["C"]
    vmaxl = [Fraction(vm["v"])] * C if vm["shape"] == "scalar" else [Fraction(x) for x in vm["v"]]
    ideal = [[Fraction(t) for t in col] for col in obs["ideal"]]
    ins, xs, _ = exact_plan(ideal, Fraction(case["stock"]), vmaxl, Fraction(case["min_transfer"]))
    return ins, vmaxl


def sig_F11a(suite, case, obs, clause):
    """DilutionPlan: a planned transfer exceeds vmax of its target column (per-column or non-integer vmax)."""
    if suite != "plan":
        return False
    ins, vmaxl = _plan_exact(case, obs)
    return any(v > vmaxl[c] for c, ds, src, vt in ins for v in vt)


def sig_F11b(suite, case, obs, clause):
    """DilutionPlan: several columns are diluted from one source column and together draw more than it holds."""
    if suite != "plan":
        return False
    ins, vmaxl = _plan_exact(case, obs)
    drawn = {}
    for c, ds, src, vt in ins:
        if src is not None:
            col = ins[src][0]
            for r, v in enumerate(vt):
                drawn[(col, r)] = drawn.get((col, r), 0) + v
    return any(v > vmaxl[col] for (col, r), v in drawn.items())


def sig_F11c(suite, case, obs, clause):
    """executing a plan that exceeds vmax / over-draws a column fails (consequence of F11a / F11b)"""
    return sig_F11a(suite, case, obs, clause) or sig_F11b(suite, case, obs, clause)
