"""Signature predicates of the known findings listed in /verif/known_findings.json.

`sig_<id>(suite_name, case, obs) -> bool` decides whether a failing input is an instance of that finding.
A failing input that matches no predicate is a new violation."""
