"""An independent interpreter of the Tecan worklist (.gwl) record format, written from the record
grammar (not from robotools' emitters, and not from the Coq model).  Used only by the property oracles.

Volumes are exact Fractions parsed from the record text.  A well holds a volume and the absolute amount of
every named component; `None` amounts mean "unknown liquid present"."""
from __future__ import annotations

import re
from fractions import Fraction


class GwlError(Exception):
    pass


class Rack:
    def __init__(self, name, kind, rows, cols, vrows, vmin, vmax, volumes, fractions):
        self.name, self.kind, self.rows, self.cols, self.vrows = name, kind, rows, cols, vrows
        self.vmin, self.vmax = vmin, vmax
        self.vol = list(volumes)  # per real well, row-major
        self.amt = [dict() for _ in self.vol]  # component -> amount
        self.known = [True] * len(self.vol)
        for name_, ent in (fractions or {}).items():
            for i, f in ent:
                self.amt[i][name_] = Fraction(f) * self.vol[i]
        self.touch = [0] * len(self.vol)

    def real_index(self, device, pos):
        """inverse of the device-specific 1-based numbering"""
        if pos < 1:
            raise GwlError(f"position {pos} < 1 on {self.name}")
        p = pos - 1
        if self.kind == "plate":
            r, c = p % self.rows, p // self.rows
            if c >= self.cols:
                raise GwlError(f"position {pos} outside {self.name}")
            return r * self.cols + c
        if device == "evo":
            c = p // self.vrows
        else:
            c = p
        if c >= self.cols:
            raise GwlError(f"position {pos} outside trough {self.name}")
        return c

    def fractions(self, i):
        v = self.vol[i]
        if v == 0:
            return {}
        return {k: a / v for k, a in self.amt[i].items() if a != 0}


class Robot:
    def __init__(self, device, racks, check_limits=False, slack=Fraction(1, 200)):
        self.device = device
        self.racks = {r.name: r for r in racks}
        if len(self.racks) != len(racks):
            raise GwlError("duplicate rack labels")
        self.check_limits = check_limits
        self.slack = slack
        self.tip = None  # (volume, {component: fraction}, known)
        self.max_step = Fraction(0)

    def _rack(self, label):
        if label not in self.racks:
            raise GwlError(f"unknown rack label {label!r}")
        return self.racks[label]

    def _limits(self, rack, i, taking):
        if not self.check_limits:
            return
        s = self.slack * max(1, rack.touch[i])
        if taking and rack.vol[i] < rack.vmin - s:
            raise GwlError(f"replay takes {rack.name}[{i}] to {float(rack.vol[i])} below min_volume {float(rack.vmin)}")
        if not taking and rack.vol[i] > rack.vmax + s:
            raise GwlError(f"replay takes {rack.name}[{i}] to {float(rack.vol[i])} above max_volume {float(rack.vmax)}")

    def take(self, rack, i, v, require_min=True):
        fr = rack.fractions(i)
        known = rack.known[i]
        old = rack.vol[i]
        rack.vol[i] = old - v
        rack.touch[i] += 1
        if old != 0:
            for k in list(rack.amt[i]):
                rack.amt[i][k] = rack.amt[i][k] * (old - v) / old
        if require_min and v > 0:
            self._limits(rack, i, True)
        if rack.vol[i] < -self.slack * rack.touch[i]:
            raise GwlError(f"replay makes {rack.name}[{i}] negative")
        return fr, known

    def put(self, rack, i, v, fr, known, check=True):
        rack.vol[i] += v
        rack.touch[i] += 1
        if fr is None:
            rack.known[i] = False
        else:
            for k, f in fr.items():
                rack.amt[i][k] = rack.amt[i].get(k, 0) + f * v
            if not known and v > 0:
                rack.known[i] = False
        if v > 0 and check:
            self._limits(rack, i, False)

    def execute(self, record: str):
        f = record.split(";")
        t = f[0]
        if t in ("A", "D"):
            if len(f) != 11:
                raise GwlError(f"{t} record with {len(f)} fields: {record!r}")
            rack = self._rack(f[1])
            if not re.fullmatch(r"\d+", f[4]):
                raise GwlError(f"bad position field {f[4]!r}")
            if not re.fullmatch(r"\d+\.\d\d", f[6]):
                raise GwlError(f"bad volume field {f[6]!r}")
            v = Fraction(f[6])
            self.max_step = max(self.max_step, v)
            i = rack.real_index(self.device, int(f[4]))
            if t == "A":
                fr, known = self.take(rack, i, v)
                self.tip = (v, fr, known)
            else:
                if self.tip is None:
                    self.put(rack, i, v, None, False)
                else:
                    self.put(rack, i, v, self.tip[1], self.tip[2])
            return (t, rack.name, i, v)
        if t == "R":
            if len(f) < 16:
                raise GwlError(f"R record with {len(f)} fields")
            src, dst = self._rack(f[1]), self._rack(f[6])
            s0, s1, d0, d1 = int(f[4]), int(f[5]), int(f[9]), int(f[10])
            v = Fraction(f[11])
            excl = [int(x) for x in f[16:]]
            srcs = {src.real_index(self.device, p) for p in range(s0, s1 + 1)}
            if len(srcs) != 1:
                raise GwlError(f"R source range {s0}..{s1} does not address one real well of {src.name} on {self.device}")
            si = srcs.pop()
            dsts = [p for p in range(d0, d1 + 1) if p not in excl]
            fr, known = src.fractions(si), src.known[si]
            self.take(src, si, v * len(dsts))
            for p in dsts:
                self.put(dst, dst.real_index(self.device, p), v, fr, known)
            return ("R", src.name, si, v, [dst.real_index(self.device, p) for p in dsts])
        if t in ("W", "W1", "W2", "W3", "W4", "WD", "F"):
            self.tip = None
            return (t,)
        if t in ("B", "C", "S"):
            return (t,)
        raise GwlError(f"unknown record type {t!r}")


def racks_from_case(case, initial):
    racks = []
    for spec, init in zip(case["labware"], initial):
        vols = [Fraction(v) for v in init["vols"]]
        if spec["kind"] == "plate":
            racks.append(Rack(spec["name"], "plate", spec["rows"], spec["cols"], None, Fraction(spec["min"]), Fraction(spec["max"]), vols, init["comp"]))
        else:
            racks.append(Rack(spec["name"], "trough", 1, spec["cols"], spec["vrows"], Fraction(spec["min"]), Fraction(spec["max"]), vols, init["comp"]))
    return racks


# --------------------------------------------------------------------------- independent record parser (C09)

AD_FIELDS = ["type", "rack_label", "rack_id", "rack_type", "position", "tube_id", "volume", "liquid_class", "tip_type", "tip", "forced_rack_type"]


def parse_record(rec: str):
    """Parse one record into a dict of fields; raises GwlError if it does not conform to the grammar."""
    if "\n" in rec or "\r" in rec:
        raise GwlError("record spans several lines")
    f = rec.split(";")
    t = f[0]
    if t in ("A", "D"):
        if len(f) != 11:
            raise GwlError(f"{t} record has {len(f)} fields instead of 11")
        d = dict(zip(AD_FIELDS, f))
        if not re.fullmatch(r"\d+", d["position"]):
            raise GwlError("position is not a non-negative integer")
        if not re.fullmatch(r"\d+\.\d\d", d["volume"]):
            raise GwlError("volume is not formatted with two decimals")
        if d["tip"] != "" and not re.fullmatch(r"\d+", d["tip"]):
            raise GwlError("tip mask is not a number")
        if d["tip_type"] != "":
            raise GwlError("tip type field not empty")
        return d
    if t == "R":
        if len(f) < 16:
            raise GwlError(f"R record has {len(f)} fields")
        names = ["type", "src_label", "src_id", "src_type", "src_start", "src_end", "dst_label", "dst_id", "dst_type", "dst_start", "dst_end",
                 "volume", "liquid_class", "diti_reuse", "multi_disp", "direction"]
        d = dict(zip(names, f[:16]))
        d["exclude"] = f[16:]
        for k in ("src_start", "src_end", "dst_start", "dst_end", "diti_reuse", "multi_disp"):
            if not re.fullmatch(r"-?\d+", d[k]):
                raise GwlError(f"{k} is not an integer: {d[k]!r}")
        if d["direction"] not in ("0", "1"):
            raise GwlError("direction is not 0/1")
        if not re.fullmatch(r"\d+(\.\d+)?", d["volume"]):
            raise GwlError(f"volume {d['volume']!r} is not a plain decimal number")
        if any(not re.fullmatch(r"\d+", x) for x in d["exclude"]):
            raise GwlError("exclusion list is not a list of integers")
        return d
    if re.fullmatch(r"W[1-4]?", t) or t in ("WD", "F", "B"):
        if len(f) != 2 or f[1] != "":
            raise GwlError(f"{t} record with trailing fields")
        return {"type": t}
    if t == "C":
        if len(f) != 2:
            raise GwlError("comment with a separator")
        return {"type": "C", "text": f[1]}
    if t == "S":
        if len(f) != 2 or not re.fullmatch(r"\d+", f[1]):
            raise GwlError("S record malformed")
        return {"type": "S", "index": f[1]}
    raise GwlError(f"unknown record type {t!r}")
