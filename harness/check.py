"""`bin/check <Cxx> [--tier quick|thorough] [--replay FILE]` — decides one property (DESIGN section 6)."""
from __future__ import annotations

import argparse
import importlib
import json
import os
import re
import sys
import time
from collections import Counter
from pathlib import Path

from harness import core
from harness.core import COQ, VERIF, WORK
from harness.props import PROPS, TRUSTED_BASE_COMMON

ALLOWED_AXIOMS: set[str] = set()  # standard-library axioms a theorem may depend on (none so far)


def load_suite(name):
    return importlib.import_module(f"harness.suites.{name}").SUITE


# --------------------------------------------------------------------------- proof side


def proof_obligations(pid: str):
    """Compile Props/<pid>.v on its own, capture every `Print Assumptions` block."""
    f = COQ / "theories" / "Props" / f"{pid}.v"
    if not f.exists():
        return {"ok": False, "why": f"{f} missing", "theorems": [], "assumptions": {}}
    src = core.strip_comments(f.read_text())
    theorems = re.findall(r"^\s*(?:Theorem|Corollary)\s+(\w+)", src, re.M)
    printed = re.findall(r"Print Assumptions\s+(\w+)\s*\.", src)
    rc, out, dt = core.run(
        ["coqc", "-Q", str(COQ / "theories"), "Robo", "-w", "-all", str(f)], 1200, cwd=COQ
    )
    res = {"ok": rc == 0, "why": out[-2000:] if rc else "", "theorems": theorems, "assumptions": {}, "coqc_s": round(dt, 1)}
    if rc != 0:
        return res
    blocks = re.split(r"(?=Closed under the global context|Axioms:)", out)
    blocks = [b.strip() for b in blocks if b.strip().startswith(("Closed under", "Axioms:"))]
    if len(blocks) != len(printed):
        res["ok"] = False
        res["why"] = f"{len(printed)} Print Assumptions commands but {len(blocks)} answers"
        return res
    for name, b in zip(printed, blocks):
        res["assumptions"][name] = b
    missing = [t for t in theorems if t not in printed]
    if missing:
        res["ok"] = False
        res["why"] = f"theorems without Print Assumptions: {missing}"
    for name, b in res["assumptions"].items():
        if b.startswith("Closed under"):
            continue
        axioms = set(re.findall(r"^(\S+)\s*:", b, re.M)) - {"Axioms"}
        if not axioms <= ALLOWED_AXIOMS:
            res["ok"] = False
            res["why"] = f"{name} depends on axioms outside the allow-list: {sorted(axioms - ALLOWED_AXIOMS)}"
    return res


# --------------------------------------------------------------------------- correspondence side


def run_suite(name: str, tier: str, seed: int, treehash: str, use_cache=True):
    suite = load_suite(name)
    cache = WORK / "cache" / f"{name}-{tier}-{seed}-{treehash[:24]}.json"
    if use_cache and cache.exists():
        r = json.loads(cache.read_text())
        r["cached"] = True
        return r
    t0 = time.time()
    cases = []
    corpus_dir = VERIF / "corpus" / name
    ncorpus = 0
    if corpus_dir.exists():
        for f in sorted(corpus_dir.glob("*.json")):
            c = json.loads(f.read_text())
            c["_corpus"] = f.name
            cases.append(c)
            ncorpus += 1
    cases += suite.gen(tier, seed)
    obs = core.run_impl(suite.module, cases)
    t_impl = time.time() - t0
    harness_errors = [(i, o["harness_error"]) for i, o in enumerate(obs) if "harness_error" in o]
    dropped = Counter()
    keep = []
    for i, (c, o) in enumerate(zip(cases, obs)):
        if "harness_error" in o:
            continue
        if o.get("drop"):
            dropped[o["drop"]] += 1
            continue
        keep.append(i)
    if suite.coq_module is None:
        # oracle-only stream (inputs outside the modelled domain, e.g. non-dyadic floats): no correspondence
        ev = {"evaluated": 0, "failing": [], "masks": {}, "errors": [], "shards": 0, "coq_s": 0.0}
    else:
        # observations marked `no_model` lie outside the modelled domain (e.g. NaN arguments): property oracle only
        mkeep = [i for i in keep if not obs[i].get("no_model")]
        terms = [suite.emit(cases[i], obs[i]) for i in mkeep]
        ev = core.eval_cases(name, suite.coq_module, terms, extra_header=getattr(suite, "extra_header", ""))
    if suite.coq_module is None:
        mkeep = keep
    failing = [mkeep[j] for j in ev["failing"]]
    fmask = {mkeep[j]: m for j, m in ev["masks"].items()}
    distinct = set()
    dist = Counter()
    for i in keep:
        dist[suite.kind(cases[i], obs[i])] += 1
        if suite.nontrivial(cases[i], obs[i]):
            distinct.add(json.dumps({k: v for k, v in cases[i].items() if not k.startswith("_")}, sort_keys=True))
    # property oracles over the implementation's behaviour
    oracle_hits = {}
    for attr in dir(suite):
        if attr.startswith("oracle_"):
            pid = attr[len("oracle_") :]
            hits = []
            fn = getattr(suite, attr)
            for i in keep:
                bad = fn(cases[i], obs[i])
                if bad:
                    hits.append({"idx": i, "clauses": bad[:5]})
            oracle_hits[pid] = hits
    samples = []
    for i in keep[:: max(1, len(keep) // 3)][:3]:
        samples.append({"case": cases[i], "impl": _short(obs[i])})
    # keep cases+observations for the failing-input search
    sdir = WORK / "suites"
    sdir.mkdir(parents=True, exist_ok=True)
    dump = sdir / f"{name}-{tier}-{seed}.jsonl"
    with open(dump, "w") as fh:
        for i in keep:
            fh.write(json.dumps({"idx": i, "case": cases[i], "obs": obs[i]}) + "\n")
    r = {
        "suite": name,
        "tier": tier,
        "seed": seed,
        "corpus_cases": ncorpus,
        "generated": len(cases) - ncorpus,
        "evaluations": ev["evaluated"] if suite.coq_module is not None else len(keep),
        "oracle_only": suite.coq_module is None,
        "distinct_nontrivial": len(distinct),
        "rule": suite.rule,
        "distribution": dict(dist.most_common(40)),
        "dropped": dict(dropped),
        "exhaustive_part": getattr(suite, "exhaustive", False),
        "failing": [{"idx": i, "case": cases[i], "impl": obs[i], "mask": fmask.get(i, 1)} for i in failing[:10]],
        "n_failing": len(failing),
        "failing_masks": [fmask.get(i, 1) for i in failing],
        "coq_errors": ev["errors"],
        "harness_errors": harness_errors[:5],
        "n_harness_errors": len(harness_errors),
        "oracle_hits": {p: h[:20] for p, h in oracle_hits.items()},
        "n_oracle_hits": {p: len(h) for p, h in oracle_hits.items()},
        "samples": samples,
        "shards": ev["shards"],
        "impl_s": round(t_impl, 1),
        "coq_s": ev["coq_s"],
        "wall_s": round(time.time() - t0, 1),
        "dump": str(dump),
        "cached": False,
    }
    cache.parent.mkdir(parents=True, exist_ok=True)
    cache.write_text(json.dumps(r))
    return r


def _short(o, n=600):
    s = json.dumps(o)
    return o if len(s) <= n else s[:n] + "..."


# --------------------------------------------------------------------------- known findings


def load_known():
    f = VERIF / "known_findings.json"
    if not f.exists():
        return []
    return json.loads(f.read_text())["findings"]


def match_known(pid, suite_name, case, obs, clauses, known):
    """A failing input is attributed to a known finding only if the finding is `known`, belongs to this
    property, its clause tag is the violated clause and its signature predicate holds of the input."""
    from harness import findings

    out = []
    for clause in clauses:
        tag = clause.split(":")[0]
        hit = None
        for k in known:
            if k["status"] != "known" or k["property"] != pid or k["clause"] != tag:
                continue
            pred = getattr(findings, "sig_" + k["id"], None)
            if pred and pred(suite_name, case, obs, clause):
                hit = k["id"]
                break
        out.append(hit)
    return out


# --------------------------------------------------------------------------- main decision


def shrink(pid, suite_name, case, clause):
    """Delta-debug a program case: drop calls (last to first) while the same clause tag of the oracle still fires."""
    if not isinstance(case, dict) or not isinstance(case.get("ops"), list) or len(case["ops"]) <= 1:
        return case, None
    suite = load_suite(suite_name)
    fn = getattr(suite, f"oracle_{pid}", None)
    if fn is None:
        return case, None
    tag = clause.split(":")[0]

    def fails(c):
        o = core.run_impl(suite.module, [c])[0]
        if "harness_error" in o or o.get("drop"):
            return None
        hits = [b for b in fn(c, o) if b.split(":")[0] == tag]
        return (o, hits[0]) if hits else None

    cur = dict(case)
    best = None
    i = len(cur["ops"]) - 1
    budget = 40
    while i >= 0 and budget > 0 and len(cur["ops"]) > 1:
        budget -= 1
        cand = dict(cur)
        cand["ops"] = cur["ops"][:i] + cur["ops"][i + 1:]
        r = fails(cand)
        if r:
            cur, best = cand, r
        i -= 1
    return (cur, best) if best else (case, None)


def write_replay(pid, payload):
    d = VERIF / "replays"
    d.mkdir(exist_ok=True)
    stamp = time.strftime("%Y%m%d-%H%M%S")
    n = len(list(d.glob(f"{pid}-{stamp}-*.json")))
    p = d / f"{pid}-{stamp}-{n}.json"
    payload = dict(payload)
    payload["how_to_replay"] = f"bin/check {pid} --replay {p}"
    p.write_text(json.dumps(payload, indent=1, default=str))
    return p


def decide(pid: str, tier: str, seed: int) -> int:
    t0 = time.time()
    spec = PROPS[pid]
    violations = []  # (replay payload, suffix)
    known_lines = []
    known = load_known()

    ok, out = core.coq_build()
    scan = core.source_scan()
    po = proof_obligations(pid) if ok else {"ok": False, "why": "build failed:\n" + out[-3000:], "theorems": [], "assumptions": {}}
    broken = []
    if not ok:
        broken.append("coq build (make) failed")
    if scan:
        broken.append("source scan: " + "; ".join(scan[:5]))
    if not po["ok"]:
        broken.append(f"Props/{pid}.v: {po['why'][-800:]}")

    chk = None
    if ok and po["ok"] and tier == "thorough":
        try:
            rc, cout, dt = core.run(["coqchk", "-silent", "-o", "-Q", str(COQ / "theories"), "Robo", f"Robo.Props.{pid}"], 3000, cwd=COQ)
            tail = cout.strip().splitlines()
            i0 = next((i for i, l in enumerate(tail) if "CONTEXT SUMMARY" in l), 0)
            chk = {"rc": rc, "seconds": round(dt, 1), "summary": tail[i0:i0 + 40]}
            if rc != 0:
                broken.append(f"coqchk failed on Props/{pid}.vo: {cout[-600:]}")
        except Exception as e:  # noqa
            chk = {"rc": None, "error": str(e)[:300]}
    th = core.tree_hash()
    suites = {}
    if ok:
        for s in spec["suites"]:
            try:
                suites[s] = run_suite(s, tier, seed, th)
            except Exception:
                import traceback

                broken.append(f"correspondence suite `{s}` could not be evaluated: {traceback.format_exc()[-1500:]}")

    # correspondence: only the kinds of observable in this property's cone count (DESIGN 5.4)
    corr_broken = []
    relevant = spec.get("mask", {})
    nrel = {}
    for s, r in suites.items():
        rel = relevant.get(s, 63)
        nrel[s] = sum(1 for m in r.get("failing_masks", []) if m & rel)
        if nrel[s] or r["coq_errors"] or r["n_harness_errors"]:
            corr_broken.append(s)

    # oracle hits (unlisted ones are violations with a concrete failing input)
    found_input = False
    for s, r in suites.items():
        for hit in r["oracle_hits"].get(pid, []):
            case, obs = _fetch(r, hit["idx"])
            attributed = match_known(pid, s, case, obs, hit["clauses"], known)
            for clause, kid in zip(hit["clauses"], attributed):
                if kid:
                    k = next(x for x in known if x["id"] == kid)
                    line = f"KNOWN-FINDING: property={pid} {kid} {k['what_fails']}"
                    if line not in known_lines:
                        known_lines.append(line)
                else:
                    found_input = True
                    if len(violations) < 3:
                        violations.append(
                            {
                                "property": pid,
                                "tier": tier,
                                "seed": seed,
                                "kind": "property-violation",
                                "suite": s,
                                "case": case,
                                "violated_clause": clause,
                                "impl_observation": obs,
                                "broken": broken + [f"correspondence:{x}" for x in corr_broken],
                            }
                        )

    # known findings whose witness is in the corpus always print their line when still failing (see above);
    # correspondence broken without an oracle hit: search further, then report no-failing-input-found
    if (corr_broken or broken) and not found_input:
        extra = targeted_search(pid, spec, tier, seed, known)
        if extra:
            found_input = True
            violations.append(extra)
    if (corr_broken or broken) and not found_input:
        first = None
        for s in corr_broken:
            r = suites[s]
            relf = [f for f in r["failing"] if f.get("mask", 1) & relevant.get(s, 63)]
            if relf:
                f = relf[0]
                suite = load_suite(s)
                term = suite.emit(f["case"], f["impl"])
                first = {
                    "suite": s,
                    "case": f["case"],
                    "impl_observation": f["impl"],
                    "model_observation": core.explain(s, suite.coq_module, term, extra_header=getattr(suite, "extra_header", "")),
                }
                break
        violations.append(
            {
                "property": pid,
                "tier": tier,
                "seed": seed,
                "kind": "no-failing-input-found",
                "broken": broken + [f"correspondence suite `{s}`: model and /repo differ on {nrel[s]} cases in the observables relevant to {pid} (mask {relevant.get(s, 63)}); errors={suites[s]['coq_errors'][:2]} {suites[s]['harness_errors'][:1]}" for s in corr_broken],
                "theorems": po["theorems"],
                "disagreement": first,
            }
        )

    # evidence
    evaluations = sum(r["evaluations"] for r in suites.values())
    distinct = sum(r["distinct_nontrivial"] for r in suites.values())
    discharged = sum(1 for t in po["theorems"] if po["assumptions"].get(t, "").startswith("Closed under") or t in po["assumptions"]) if po["ok"] else 0
    samples = []
    for t in po["theorems"][:3]:
        samples.append({"obligation": t, "print_assumptions": po["assumptions"].get(t, "")[:200]})
    for r in suites.values():
        samples += r["samples"][:2]
    ev = {
        "property_id": pid,
        "tier": tier,
        "seed": seed,
        "level": "proof",
        "coverage": {
            "obligations": max(1, len(po["theorems"])),
            "discharged": discharged,
            "checker_cmd": f"cd /verif/coq && make (full .vo build) && coqc -Q theories Robo theories/Props/{pid}.v",
            "trusted_base": TRUSTED_BASE_COMMON + spec.get("trusted", []) + [f"{t}: {a.splitlines()[0] if a else '?'}" for t, a in po["assumptions"].items()],
            "theorems": po["theorems"],
            "evaluations": evaluations,
            "distinct_nontrivial": distinct,
            "rule": " | ".join(f"{s}: {r['rule']}" for s, r in suites.items()),
            "samples": samples,
            "programs": evaluations,
            "disagreements_checked": sum(nrel.values()),
            "disagreements_other_observables": sum(r["n_failing"] for r in suites.values()) - sum(nrel.values()),
            "exhaustive": False,
            "suites": {
                s: {k: r[k] for k in ("corpus_cases", "generated", "evaluations", "oracle_only", "distinct_nontrivial", "distribution", "dropped", "n_failing", "n_oracle_hits", "shards", "impl_s", "coq_s", "wall_s", "cached", "exhaustive_part")}
                for s, r in suites.items()
            },
            "known_findings_reported": known_lines,
            "coqchk": chk,
            "explanation": spec.get("explanation", ""),
        },
        "assumptions": spec.get("assumptions", []) + ["model fidelity is established by the correspondence suites on the cases listed, not proved"],
        "wall_s": round(time.time() - t0, 1),
        "violations": len(violations),
    }
    (VERIF / "evidence").mkdir(exist_ok=True)
    (VERIF / "evidence" / f"{pid}.json").write_text(json.dumps(ev, indent=1, default=str))

    for line in known_lines:
        print(line)
    if violations:
        v0 = violations[0]
        if v0["kind"] == "property-violation" and v0.get("suite"):
            try:
                small, res = shrink(pid, v0["suite"], v0["case"], v0["violated_clause"])
                if res:
                    v0["original_case"] = v0["case"]
                    v0["case"], v0["impl_observation"], v0["violated_clause"] = small, res[0], res[1]
                    v0["minimised"] = f"{len(v0['original_case']['ops'])} -> {len(small['ops'])} calls"
            except Exception:
                pass
        for v in violations[:1]:
            p = write_replay(pid, v)
            suffix = " no-failing-input-found" if v["kind"] == "no-failing-input-found" else ""
            print(f"VIOLATION property={pid} replay={p}{suffix}")
        return 1
    print(f"OK property={pid} tier={tier} theorems={len(po['theorems'])} cases={evaluations} wall={ev['wall_s']}s")
    return 0


def _fetch(r, idx):
    with open(r["dump"]) as fh:
        for line in fh:
            d = json.loads(line)
            if d["idx"] == idx:
                return d["case"], d["obs"]
    raise KeyError(idx)


def targeted_search(pid, spec, tier, seed, known):
    """Fresh batches (other seeds) run through the real code and the property oracle only."""
    rounds = 2 if tier == "quick" else 8
    for k in range(1, rounds + 1):
        for s in spec["suites"]:
            suite = load_suite(s)
            fn = getattr(suite, f"oracle_{pid}", None)
            if fn is None:
                continue
            cases = suite.gen(tier, seed * 1000 + k * 7919 + 1)
            obs = core.run_impl(suite.module, cases)
            for c, o in zip(cases, obs):
                if "harness_error" in o or o.get("drop"):
                    continue
                bad = fn(c, o)
                if bad:
                    attributed = match_known(pid, s, c, o, bad, known)
                    for clause, kid in zip(bad, attributed):
                        if not kid:
                            return {
                                "property": pid,
                                "tier": tier,
                                "seed": seed,
                                "kind": "property-violation",
                                "suite": s,
                                "case": c,
                                "violated_clause": clause,
                                "impl_observation": o,
                                "found_by": f"targeted search round {k}",
                            }
    return None


def replay(pid, path) -> int:
    payload = json.loads(Path(path).read_text())
    s = payload.get("suite") or (payload.get("disagreement") or {}).get("suite")
    case = payload.get("case") or (payload.get("disagreement") or {}).get("case")
    if not s or case is None:
        print("replay file carries no concrete input; broken obligations:", payload.get("broken"))
        return 1
    suite = load_suite(s)
    obs = core.run_impl(suite.module, [case])[0]
    print("implementation:", json.dumps(obs)[:3000])
    fn = getattr(suite, f"oracle_{pid}", None)
    bad = fn(case, obs) if fn else []
    for b in bad:
        print("violated:", b)
    ok, out = core.coq_build()
    term = suite.emit(case, obs)
    ev = core.eval_cases(s + "_replay", suite.coq_module, [term], extra_header=getattr(suite, "extra_header", ""))
    agree = ok and not ev["failing"] and not ev["errors"]
    print("model agrees with implementation:", agree)
    if not agree:
        print(core.explain(s, suite.coq_module, term, extra_header=getattr(suite, "extra_header", "")))
    return 1 if (bad or not agree) else 0


def main():
    ap = argparse.ArgumentParser()
    ap.add_argument("pid")
    ap.add_argument("--tier", default=os.environ.get("VERIF_TIER", "quick"))
    ap.add_argument("--replay")
    a = ap.parse_args()
    seed = int(os.environ.get("VERIF_SEED", "0") or 0)
    if a.pid not in PROPS:
        print(f"unknown property {a.pid}")
        return 2
    if a.replay:
        return replay(a.pid, a.replay)
    return decide(a.pid, a.tier if a.tier in ("quick", "thorough") else "quick", seed)


if __name__ == "__main__":
    sys.exit(main())
