"""Registry: property -> correspondence suites in its cone, trusted-base notes."""
from pathlib import Path

TRUSTED_BASE_COMMON = [
    "Coq 8.16.1 kernel incl. its vm_compute virtual machine (used to evaluate the model on the generated cases and in a few finite-domain lemmas whose bound is part of the statement); no native_compute",
    "no extraction; no axioms declared by the development; Print Assumptions per theorem listed below",
    "hand-written Gallina model of the Python code (coq/theories/Model): fidelity checked by the correspondence suites only (finitely many cases per run)",
    "Python harness: generators, runner, canonicalisation (exception-class map, Fraction conversion), Gallina literal emitter, result parser; the property oracles are used only to find replays",
    "exact rationals (Q) stand for binary64 floats; generators confined to dyadic values where float arithmetic is exact, cases near a rounding boundary are dropped and counted",
]

# observable kinds of program suites (Corr/CheckProg.v): 1 outcome, 2 records, 4 volumes, 8 history, 16 composition,
# 32 construction.  A disagreement between model and code counts for a property only in the kinds it speaks about.
OUT, REC, VOL, HIS, CMP, CON = 1, 2, 4, 8, 16, 32
_ALL = {
    "C01": {"suites": ["prog", "wells", "save"], "mask": {"prog": OUT | REC | VOL | CMP | CON}},
    "C02": {"suites": ["prog", "evocmd", "ctor", "floatops", "save"], "mask": {"prog": OUT | VOL | CON, "evocmd": OUT | VOL | CON}},
    "C03": {"suites": ["prog", "evocmd", "save"], "mask": {"prog": OUT | REC | VOL | CON, "evocmd": OUT | REC | VOL | CON}},
    "C04": {"suites": ["prog", "evocmd"], "mask": {"prog": OUT | VOL | CON, "evocmd": OUT | VOL | CON}},
    "C05": {"suites": ["prog", "ctor", "evocmd"], "mask": {"prog": VOL | CMP | CON, "evocmd": VOL | CMP | CON}},
    "C06": {"suites": ["pvol", "prog", "params"], "mask": {"prog": OUT | REC, "params": OUT | REC}},
    "C07": {"suites": ["prog", "pcol"], "mask": {"prog": OUT | REC}},
    "C08": {"suites": ["wells", "prog"], "mask": {"prog": OUT | REC}},
    "C09": {"suites": ["params", "prog"], "mask": {"prog": OUT | REC, "params": OUT | REC}},
    "C10": {"suites": ["params", "evocmd", "prog"], "mask": {"params": OUT | REC, "evocmd": OUT | REC, "prog": OUT | REC}},
    "C11": {"suites": ["prog"], "mask": {"prog": OUT | HIS | CON}},
    "C12": {"suites": ["sel"]},
    "C13": {"suites": ["evocmd"], "mask": {"evocmd": OUT | REC | VOL | CON}},
    "C14": {"suites": ["plan"]},
    "C15": {"suites": ["xform"]},
    "C16": {"suites": ["devpair"]},
    "C17": {"suites": ["save"]},
    "C18": {"suites": ["pcol"]},
    "C19": {"suites": ["trough"]},
    "C20": {"suites": ["ctor", "wells"]},
}

_PROPS_DIR = Path(__file__).resolve().parent.parent / "coq" / "theories" / "Props"
# a property is claimed once its theorem file is part of the build
_PROJECT = (_PROPS_DIR.parent.parent / "_CoqProject").read_text()
PROPS = {pid: spec for pid, spec in _ALL.items() if f"theories/Props/{pid}.v" in _PROJECT and (_PROPS_DIR / f"{pid}.v").exists()}
