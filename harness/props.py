"""Registry: property -> correspondence suites in its cone, trusted-base notes."""

TRUSTED_BASE_COMMON = [
    "Coq 8.16.1 kernel incl. its vm_compute virtual machine (used to evaluate the model on the generated cases); no native_compute",
    "no extraction; no axioms declared by the development; Print Assumptions per theorem listed below",
    "hand-written Gallina model of the Python code: fidelity checked by the correspondence suites only (finitely many cases per run)",
    "Python harness: generators, runner, canonicalisation (exception-class map, Fraction conversion), Gallina literal emitter, result parser",
    "exact rationals (Q) stand for binary64 floats; generators confined to dyadic values where float arithmetic is exact",
]

PROPS = {
    "C19": {
        "suites": ["trough"],
        "trusted": ["numpy.asarray(...).flatten('F') modelled as column-major list flattening (tied by the 2-D cases)"],
        "assumptions": ["wells given as rectangular arrays of str"],
    },
}
