"""Core plumbing of the correspondence harness (DESIGN section 5).

* Coq literal emission helpers (cases files contain only Z numerals, strings and lists),
* sharding + parallel `coqc` evaluation of the model on generated cases,
* worker pool running the real code from the current /repo working tree,
* suite result cache keyed by the content of /repo, the harness and the Coq theories.
"""
from __future__ import annotations

import hashlib
import json
import os
import re
import shutil
import signal
import subprocess
import sys
import time
from concurrent.futures import ThreadPoolExecutor
from fractions import Fraction
from pathlib import Path

VERIF = Path(__file__).resolve().parent.parent
REPO = Path(os.environ.get("VERIF_REPO", "/repo"))
WORK = VERIF / "_work"
COQ = VERIF / "coq"
PY = "/venv/bin/python"
NCPU = int(os.environ.get("VERIF_JOBS", "16"))
SHARD_BYTES = 200_000

# --------------------------------------------------------------------------- literals


def cz(n: int) -> str:
    n = int(n)
    return f"({n})" if n < 0 else str(n)


def cstr(s: str) -> str:
    """Coq string term for Latin-1 text; printable ASCII as a literal, anything else as bytes."""
    if all(0x20 <= ord(ch) <= 0x7E for ch in s):
        return '"' + s.replace('"', '""') + '"'
    return "(bs [" + ";".join(str(b) for b in s.encode("latin-1")) + "])"


def clist(items) -> str:
    return "[" + "; ".join(items) + "]"


def copt(x, f) -> str:
    return "None" if x is None else f"(Some {f(x)})"


def cbool(b) -> str:
    return "true" if b else "false"


def cq(x) -> str:
    fr = Fraction(x)
    return f"(q {cz(fr.numerator)} {fr.denominator})"


def cxnum(x) -> str:
    """x: Fraction | int | float | 'nan' | 'inf' | '-inf'"""
    if isinstance(x, str):
        return {"nan": "XNaN", "inf": "XPInf", "-inf": "XNInf"}.get(x) or f"(XQ {cq(Fraction(x))})"
    if isinstance(x, float):
        if x != x:
            return "XNaN"
        if x == float("inf"):
            return "XPInf"
        if x == float("-inf"):
            return "XNInf"
    return f"(XQ {cq(x)})"


def carr(a, f) -> str:
    """a = {"shape": "scalar"|"list"|"2d", "v": ...}"""
    sh = a["shape"]
    if sh == "scalar":
        return f"(A0 {f(a['v'])})"
    if sh == "list":
        return f"(A1 {clist([f(x) for x in a['v']])})"
    return f"(A2 {clist([clist([f(x) for x in row]) for row in a['v']])})"


ERRMAP = {
    "VolumeOverflowError": "EOverflow",
    "VolumeUnderflowError": "EUnderflow",
    "InvalidOperationError": "EInvalidOp",
    "ValueError": "EValue",
    "TypeError": "ECompat",
    "CompatibilityError": "ECompat",
}


def errcode(exc: BaseException | str | None) -> str | None:
    if exc is None:
        return None
    name = exc if isinstance(exc, str) else type(exc).__name__
    return ERRMAP.get(name, "EReject")


def cres(obs, f) -> str:
    """obs = {"err": code|None, "val": ...}"""
    if obs.get("err"):
        return f"(Err {obs['err']})"
    return f"(Ok {f(obs['val'])})"


def frac_str(x) -> str:
    fr = Fraction(x)
    return str(fr.numerator) if fr.denominator == 1 else f"{fr.numerator}/{fr.denominator}"


class CaseError(Exception):
    """the generated case itself is malformed (never attributed to the code under test)"""


def to_float(s):
    """case number (str Fraction | 'nan' | 'inf' | '-inf' | int) -> Python float"""
    if isinstance(s, str) and s in ("nan", "inf", "-inf"):
        return float(s)
    fr = Fraction(s)
    f = float(fr)
    if Fraction(f) != fr:
        raise CaseError(f"case number {s} is not exactly representable in binary64")
    return f


# --------------------------------------------------------------------------- arrays for the real code


def np_arg(a, conv=lambda x: x):
    """case array -> the Python object handed to robotools (scalar, list, or 2-D numpy array)"""
    import numpy

    sh = a["shape"]
    if sh == "scalar":
        return conv(a["v"])
    if sh == "list":
        return [conv(x) for x in a["v"]]
    return numpy.array([[conv(x) for x in row] for row in a["v"]])


# --------------------------------------------------------------------------- hashing / cache


def tree_hash() -> str:
    h = hashlib.sha256()
    files = sorted((REPO / "robotools").rglob("*.py"))
    files += sorted((VERIF / "harness").rglob("*.py"))
    files += sorted((COQ / "theories").rglob("*.v"))
    files += sorted((VERIF / "corpus").rglob("*.json"))
    for f in files:
        h.update(str(f).encode())
        h.update(f.read_bytes())
    return h.hexdigest()


# --------------------------------------------------------------------------- Coq build & evaluation


def run(cmd, timeout, cwd=None, env=None):
    t0 = time.time()
    p = subprocess.run(cmd, cwd=cwd, env=env, stdout=subprocess.PIPE, stderr=subprocess.STDOUT, timeout=timeout)
    return p.returncode, p.stdout.decode("utf-8", "replace"), time.time() - t0


def coq_build(timeout=3000) -> tuple[bool, str]:
    """Full .vo build of the development (no -vos)."""
    if not (COQ / "Makefile").exists() or (COQ / "_CoqProject").stat().st_mtime > (COQ / "Makefile").stat().st_mtime:
        rc, out, _ = run(["coq_makefile", "-f", "_CoqProject", "-o", "Makefile"], 120, cwd=COQ)
        if rc != 0:
            return False, out
    try:
        rc, out, _ = run(["make", f"-j{NCPU}"], timeout, cwd=COQ)
    except subprocess.TimeoutExpired:
        return False, "make timed out"
    return rc == 0, out


FORBIDDEN = re.compile(
    r"\b(Admitted|admit|Axiom|Axioms|Parameter|Parameters|Conjecture|Admit Obligations|bypass_check|"
    r"Unset Guard Checking|Unset Positivity Checking|Unset Universe Checking|type-in-type|impredicative-set)\b"
)


def strip_comments(src: str) -> str:
    out, depth, i = [], 0, 0
    while i < len(src):
        if src.startswith("(*", i):
            depth += 1
            i += 2
        elif src.startswith("*)", i) and depth:
            depth -= 1
            i += 2
        else:
            if depth == 0:
                out.append(src[i])
            i += 1
    return "".join(out)


def source_scan() -> list[str]:
    """Forbidden declarations anywhere in the development (Variable/Hypothesis outside sections too)."""
    bad = []
    for f in sorted((COQ / "theories").rglob("*.v")):
        src = strip_comments(f.read_text())
        src = re.sub(r'"(?:[^"]|"")*"', '""', src)
        for m in FORBIDDEN.finditer(src):
            bad.append(f"{f.relative_to(COQ)}: {m.group(0)}")
        depth = 0
        for line in src.split("\n"):
            if re.match(r"\s*Section\b", line):
                depth += 1
            elif re.match(r"\s*End\b", line) and depth:
                depth -= 1
            elif depth == 0 and re.match(r"\s*(Variable|Variables|Hypothesis|Hypotheses|Context)\b", line):
                bad.append(f"{f.relative_to(COQ)}: {line.strip()} (outside a section)")
    proj = (COQ / "_CoqProject").read_text()
    for w in ("type-in-type", "impredicative-set", "-vos", "-vok"):
        if w in proj:
            bad.append(f"_CoqProject: {w}")
    return bad


HEADER = (
    "From Robo Require Import Prelude Str Case {mod}.\n"
    "Open Scope Z_scope. Open Scope string_scope. Open Scope list_scope.\n"
)


def _coqc_file(path: Path, timeout=900):
    try:
        rc, out, dt = run(["sh", "-c", "ulimit -s unlimited 2>/dev/null; exec coqc -noglob -Q \"$0\" Robo -w -all \"$1\"", str(COQ / "theories"), str(path)], timeout, cwd=path.parent)
    except subprocess.TimeoutExpired:
        return 124, "timeout", timeout
    return rc, out, dt


RESULT_RE = re.compile(r"=\s*\(\s*(\d+)\s*,\s*(\d+)\s*,\s*\[([^\]]*)\]\s*\)")
PAIR_RE = re.compile(r"\(\s*(-?\d+)\s*,\s*(-?\d+)\s*\)")


def eval_cases(suite: str, module: str, terms: list[str], check_fn="mask", extra_header="") -> dict:
    """Evaluate `mask` of `module` on every term; returns the indices where model and code differ together with
    the kinds of observable that differ (bit mask; see Corr/CheckProg.v)."""
    d = WORK / "shards" / suite
    if d.exists():
        shutil.rmtree(d)
    d.mkdir(parents=True)
    total = sum(len(t) for t in terms)
    nsh = max(1, min(len(terms), max(NCPU if len(terms) >= 4 * NCPU else 1, (total + SHARD_BYTES - 1) // SHARD_BYTES)))
    # greedy balancing by literal size (coqc time is dominated by parsing the literals)
    order = sorted(range(len(terms)), key=lambda i: -len(terms[i]))
    buckets = [[0, []] for _ in range(nsh)]
    import heapq

    heap = [(0, k) for k in range(nsh)]
    for i in order:
        sz, k = heapq.heappop(heap)
        buckets[k][1].append(i)
        heapq.heappush(heap, (sz + len(terms[i]) + 50, k))
    shards = [sorted(b[1]) for b in buckets if b[1]]
    paths = []
    for k, idxs in enumerate(shards):
        p = d / f"cases_{suite}_{k}.v"
        with open(p, "w", encoding="latin-1") as fh:
            fh.write(HEADER.format(mod=module) + extra_header)
            fh.write("Definition cases := [\n" + ";\n".join(terms[i] for i in idxs) + "\n].\n")
            fh.write(f"Eval vm_compute in (failure_masks {check_fn} cases).\n")
        paths.append((idxs, len(idxs), p))
    t0 = time.time()
    failing, evaluated, errors, masks = [], 0, [], {}
    with ThreadPoolExecutor(NCPU) as ex:
        for (start, n, p), (rc, out, dt) in zip(paths, ex.map(lambda x: _coqc_file(x[2]), paths)):
            m = RESULT_RE.search(out.replace("\n", " "))
            if rc != 0 or not m:
                errors.append(f"{p.name}: rc={rc} {out[-600:]}")
                continue
            if int(m.group(1)) != n:
                errors.append(f"{p.name}: evaluated {m.group(1)} of {n}")
            evaluated += int(m.group(1))
            nfail = int(m.group(2))
            pairs = [(int(a), int(b)) for a, b in PAIR_RE.findall(m.group(3))]
            idx = [a for a, _ in pairs]
            failing += [start[i] for i in idx]
            for a, b in pairs:
                masks[start[a]] = b
            if nfail > len(idx):
                errors.append(f"{p.name}: {nfail} disagreements, first {len(idx)} listed")
    return {"evaluated": evaluated, "failing": failing, "masks": masks, "errors": errors, "shards": len(shards), "coq_s": round(time.time() - t0, 1)}


def explain(suite: str, module: str, term: str, expr=None, extra_header="") -> str:
    """Model's own value on one case (printed by Coq) for the replay file."""
    if expr is None:
        # CheckProg: the model's own per-call outcomes / records / volumes; CheckPure / CheckTrough: the verdict only
        expr = "model_trace c" if module == "CheckProg" else "mask c"
    d = WORK / "explain"
    d.mkdir(parents=True, exist_ok=True)
    p = d / f"explain_{suite}_{os.getpid()}.v"
    with open(p, "w", encoding="latin-1") as fh:
        fh.write(HEADER.format(mod=module) + extra_header)
        fh.write(f"Definition c := {term}.\nEval vm_compute in ({expr}).\n")
    rc, out, _ = _coqc_file(p, timeout=300)
    return out.strip()[:20000]


# --------------------------------------------------------------------------- running the real code


def _worker_init():
    import warnings

    sys.path.insert(0, str(REPO))
    warnings.simplefilter("ignore")
    import logging

    logging.disable(logging.CRITICAL)


class CaseTimeout(Exception):
    pass


def _alarm(signum, frame):
    raise CaseTimeout()


def _run_one(args):
    suite_mod, case = args
    import importlib

    mod = importlib.import_module(suite_mod)
    signal.signal(signal.SIGALRM, _alarm)
    signal.alarm(60)
    try:
        return mod.SUITE.run(case)
    except CaseTimeout:
        return {"harness_error": "timeout"}
    except BaseException as e:  # a crash of the runner itself, not of the code under test
        import traceback

        return {"harness_error": traceback.format_exc()[-1500:]}
    finally:
        signal.alarm(0)


def run_impl(suite_mod: str, cases: list[dict]) -> list[dict]:
    import multiprocessing as mp

    ctx = mp.get_context("fork")
    with ctx.Pool(NCPU, initializer=_worker_init) as pool:
        return pool.map(_run_one, [(suite_mod, c) for c in cases], chunksize=max(1, len(cases) // (NCPU * 8)))
