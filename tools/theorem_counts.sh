#!/bin/sh
# per-property number of theorems / examples in Props files, and totals
cd /verif/coq/theories/Props || exit 1
t=0; e=0
for f in C*.v; do a=$(grep -c "^Theorem" $f); b=$(grep -c "^Example" $f); t=$((t+a)); e=$((e+b)); echo "$f theorems=$a examples=$b"; done
echo "total theorems=$t examples=$e"; cd .. && wc -l */*.v | tail -1
