#!/bin/sh
# tools/try_seed.sh <dir with patch.diff + demo.py> <props...> : confirm a seeded change and run checks against it
# usage: try_seed.sh /tmp/seed_out/C05 1 C05 [C01 ...]
D=$1; I=$2; shift 2
PID=$(basename $D)
WT=/tmp/seed/$PID
git -C $WT checkout -q -- . 
echo "== baseline demo (expect 0)"; (cd $WT && PYTHONPATH=$WT timeout 300 /venv/bin/python $D/demo$I.py >/dev/null 2>&1; echo "exit=$?")
git -C $WT apply $D/patch$I.diff || { echo "PATCH DOES NOT APPLY"; exit 2; }
echo "== tests with patch"; (cd $WT && timeout 600 /venv/bin/python -m pytest -q -p no:cacheprovider 2>&1 | tail -1)
echo "== demo with patch (expect 1)"; (cd $WT && PYTHONPATH=$WT timeout 300 /venv/bin/python $D/demo$I.py 2>&1 | tail -3; echo "exit=$?")
git -C $WT checkout -q -- .
echo "== checks against the change"
git -C /repo apply $D/patch$I.diff || { echo "PATCH DOES NOT APPLY TO /repo"; exit 2; }
for P in "$@"; do
  (cd /verif && timeout 1500 bin/check $P 2>&1 | grep -E "^(VIOLATION|OK|KNOWN)" | cut -c1-200)
done
git -C /repo checkout -q -- .
git -C /repo status --short | head -3
