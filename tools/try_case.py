#!/venv/bin/python
"""tools/try_case.py <suite> <cases.json> : run hand-written cases (a JSON list of case objects in the suite's format, see
_work/suites/<suite>-quick-0.jsonl for examples) through /repo AND the Coq model, and through the suite's property oracles.
Prints per case: what the library did (abridged), whether the model agrees (and the mask of differing observable kinds:
1 outcome, 2 records, 4 volumes, 8 history, 16 composition, 32 construction), and oracle verdicts.
Run as:  cd /verif && PYTHONPATH=/verif:/repo PYTHONHASHSEED=0 /venv/bin/python tools/try_case.py prog /var/tmp/mycases.json"""
import json
import os
import sys

sys.path.insert(0, "/verif")
from harness import core  # noqa: E402
from harness.check import load_suite  # noqa: E402


def main():
    name, path = sys.argv[1], sys.argv[2]
    suite = load_suite(name)
    cases = json.loads(open(path).read())
    obs = core.run_impl(suite.module, cases)
    keep = [i for i, o in enumerate(obs) if "harness_error" not in o and not o.get("drop")]
    for i, o in enumerate(obs):
        if i not in keep:
            print(f"case {i}: NOT EVALUATED: {o.get('harness_error') or o.get('drop')}"[:600])
    ev = {"failing": [], "masks": {}, "errors": []}
    mk = [i for i in keep if not obs[i].get("no_model")]
    if suite.coq_module is not None and mk:
        terms = [suite.emit(cases[i], obs[i]) for i in mk]
        ev = core.eval_cases(f"adhoc{os.getpid()}", suite.coq_module, terms, extra_header=getattr(suite, "extra_header", ""))
    failing = {mk[j]: ev["masks"].get(j, "?") for j in ev["failing"]}
    for i in keep:
        o = obs[i]
        short = json.dumps(o)[:700]
        verdicts = {}
        for attr in dir(suite):
            if attr.startswith("oracle_"):
                try:
                    bad = getattr(suite, attr)(cases[i], o)
                except Exception as e:  # noqa
                    bad = [f"oracle crashed: {e!r}"]
                if bad:
                    verdicts[attr[7:]] = bad[:2]
        agree = "n/a (oracle-only)" if (suite.coq_module is None or o.get("no_model")) else ("DIFFERS mask=%s" % failing[i] if i in failing else "agrees")
        print(f"case {i}: model {agree}; oracles: {verdicts or 'none fire'}\n   library: {short}")
    if ev["errors"]:
        print("COQ ERRORS:", ev["errors"][:2])


if __name__ == "__main__":
    main()
