#!/venv/bin/python
"""Writes seeded/SUMMARY.md from seeded/*/meta.json."""
import json
from pathlib import Path

rows = []
for d in sorted(Path("/verif/seeded").glob("C*-*")):
    m = json.loads((d / "meta.json").read_text())
    own = m["breaks_property"]
    res = m.get("check_results", {})
    det = (m.get("detail", {}).get(own) or {})
    rows.append((d.name, own, (m.get("summary") or "")[:140].replace("|", "/"), res.get(own, "not run"), (det.get("clause") or "")[:110].replace("|", "/"),
                 ", ".join(f"{k}:{v}" for k, v in sorted(res.items()) if k != own)))
out = ["# Seeded changes and the verdict of the checks", "",
       "Each change was written by an independent session that saw only the property text and a scratch worktree; it was confirmed",
       "(existing suite still 148 passed, demonstration exits 0 without and 1 with the change) and then applied to /repo, checked with",
       "`bin/check <property>` and reverted (`tools/seed_eval.py`). `violation-with-input` = VIOLATION line with a concrete failing input;",
       "`no-failing-input-found` = correspondence / proof broken but no failing input pinned; `missed` = exit 0.", "",
       "| change | property | what it does | verdict of the property's own check | violated clause (first) | other checks run |", "|---|---|---|---|---|---|"]
for r in rows:
    out.append("| " + " | ".join(r) + " |")
Path("/verif/seeded/SUMMARY.md").write_text("\n".join(out) + "\n")
print(len(rows), "changes;", sum(1 for r in rows if r[3] == "violation-with-input"), "pinned with input;", [r[0] for r in rows if r[3] != "violation-with-input"])
