#!/bin/sh
# tools/all_checks.sh [quick|thorough] : every registered check once, with timing
TIER=${1:-quick}
cd "$(dirname "$0")/.."
for P in $(python3 -c "import json; print(' '.join(c['property_id'] for c in json.load(open('MANIFEST.json'))['checks']))"); do
  S=$(date +%s)
  R=$(timeout 14000 bin/check $P --tier $TIER 2>&1 | grep -E "^(OK|VIOLATION|KNOWN)" | cut -c1-200 | tr '\n' ' ')
  echo "$P $(( $(date +%s) - S ))s $R"
done
