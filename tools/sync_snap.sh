#!/bin/sh
# copies the harness side of /verif (not the Coq development) into the built snapshot used while proofs are being edited
rsync -a --delete /verif/harness/ /var/tmp/verif_snap/harness/ && rsync -a --delete /verif/corpus/ /var/tmp/verif_snap/corpus/ && rsync -a /verif/tools/ /var/tmp/verif_snap/tools/ && cp /verif/known_findings.json /verif/MANIFEST.json /var/tmp/verif_snap/ && cp /verif/bin/check /var/tmp/verif_snap/bin/check
