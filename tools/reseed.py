#!/venv/bin/python
"""tools/reseed.py [Cxx ...] : re-applies every stored seeded change (seeded/<id>/patch.diff) to a scratch checkout of /repo's
HEAD and runs the seeded property's own check on it; prints one line per change and writes seeded/RECHECK.md.
Patches that no longer apply (a later fix: commit touched the same lines) are listed as such."""
import json
import os
import re
import subprocess
import sys
from pathlib import Path

ROOT = Path(__file__).resolve().parent.parent
SCR = f"/var/tmp/reseed_apply_{os.getpid()}"  # one scratch checkout per process: several runs may go on at once


def sh(cmd, **kw):
    p = subprocess.run(cmd, stdout=subprocess.PIPE, stderr=subprocess.STDOUT, **kw)
    return p.returncode, p.stdout.decode("utf-8", "replace")


def write_table(rows):
    (ROOT / "seeded" / "RECHECK.md").write_text(
        "# Re-check of every stored seeded change against the current checks and /repo HEAD\n\n| change | verdict | clause |\n|---|---|---|\n"
        + "\n".join(f"| {a} | {b} | {c.replace('|', '/')} |" for a, b, c in rows) + "\n")


def main():
    only = set(sys.argv[1:])
    rows = []
    for d in sorted((ROOT / "seeded").glob("C*-*")):
        pid = d.name.split("-")[0]
        if only and pid not in only:
            continue
        sh(["git", "-C", "/repo", "worktree", "remove", "--force", SCR])
        sh(["git", "-C", "/repo", "worktree", "prune"])
        sh(["git", "-C", "/repo", "worktree", "add", "--detach", SCR, "HEAD"])
        rc, out = sh(["git", "-C", SCR, "apply", str(d / "patch.diff")])
        if rc != 0:
            # a later fix: commit touched neighbouring lines: try a three-way merge of the change
            rc, out = sh(["git", "-C", SCR, "apply", "--3way", str(d / "patch.diff")])
            if rc == 0 and "<<<<<<<" in sh(["git", "-C", SCR, "diff"])[1]:
                rc = 1
        if rc != 0:
            rows.append((d.name, "patch-does-not-apply", ""))
            print(d.name, "patch-does-not-apply", flush=True)
            continue
        rc, out = sh(["bin/check", pid], cwd=str(ROOT), env=dict(os.environ, VERIF_REPO=SCR), timeout=3000)
        verdict, clause = "missed", ""
        for l in out.splitlines():
            if l.startswith("VIOLATION"):
                verdict = "no-failing-input-found" if l.rstrip().endswith("no-failing-input-found") else "violation-with-input"
                m = re.search(r"replay=(\S+)", l)
                if m and Path(m.group(1)).exists():
                    clause = (json.loads(Path(m.group(1)).read_text()).get("violated_clause") or "")[:120]
        if verdict == "missed" and (d / "demo.py").exists():
            # does the stored change still break the property on today's HEAD?  (a later fix: commit may have made it harmless)
            sh(["git", "-C", "/repo", "worktree", "remove", "--force", SCR])
            sh(["git", "-C", "/repo", "worktree", "prune"])
            sh(["git", "-C", "/repo", "worktree", "add", "--detach", SCR, "HEAD"])
            sh(["git", "-C", SCR, "apply", str(d / "patch.diff")])
            rc_demo, _ = sh(["/venv/bin/python", str(d / "demo.py")], cwd=SCR, env=dict(os.environ, PYTHONPATH=SCR), timeout=900)
            if rc_demo == 0:
                verdict, clause = "harmless-on-HEAD", "the change's own demonstration exits 0 on HEAD + patch (a later fix: commit made it harmless)"
        rows.append((d.name, verdict, clause))
        print(d.name, verdict, clause, flush=True)
        if not only:
            write_table(rows)
    sh(["git", "-C", "/repo", "worktree", "remove", "--force", SCR])
    sh(["git", "-C", "/repo", "worktree", "prune"])
    if not only:
        write_table(rows)
    bad = [r for r in rows if r[1] in ("missed",)]
    print(f"{len(rows)} changes; missed: {[r[0] for r in bad]}")


if __name__ == "__main__":
    main()
