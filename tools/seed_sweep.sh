#!/bin/sh
# tools/seed_sweep.sh <seed>... : run every registered quick check with the given seeds on the unchanged tree
cd "$(dirname "$0")/.."
for S in "$@"; do
  for P in $(python3 -c "import json; print(' '.join(c['property_id'] for c in json.load(open('MANIFEST.json'))['checks']))"); do
    R=$(VERIF_SEED=$S timeout 1800 bin/check $P 2>&1 | grep -E "^(OK|VIOLATION)" | cut -c1-160)
    echo "seed=$S $P $R"
  done
done
