#!/bin/sh
# tools/clean_build.sh : build the Coq development from scratch in a scratch copy (what setup_cmd will do on a fresh restore)
D=/var/tmp/coqclean.$$
rm -rf $D && mkdir $D && cd /verif/coq && cp -r _CoqProject theories $D/ && cd $D && find . \( -name "*.vo*" -o -name "*.glob" -o -name ".*.aux" \) -delete
coq_makefile -f _CoqProject -o Makefile >/dev/null
timeout 3000 make -j16 2>&1 | grep -v "^COQ\|Closed under" | tail -8
RC=$?
test -f $D/theories/Props/C20.vo && N=$(ls $D/theories/Props/*.vo | wc -l) || N=0
cd /; rm -rf $D
echo "clean build: $N property files compiled"
test "$N" = "20"
