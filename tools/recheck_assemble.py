#!/venv/bin/python
"""tools/recheck_assemble.py <log> [<log> ...] : builds seeded/RECHECK.md from the output of (sharded) tools/reseed.py runs."""
import re
import sys
from pathlib import Path

rows = []
for f in sys.argv[1:]:
    for line in Path(f).read_text(errors="replace").splitlines():
        m = re.match(r"^(C\d\d-(?:r\d-)?\d) (violation-with-input|no-failing-input-found|missed|patch-does-not-apply|harmless-on-HEAD)\s?(.*)$", line)
        if m:
            rows.append(m.groups())
rows.sort()
out = ["# Re-check of every stored seeded change against the current checks and /repo HEAD", "",
       "Produced by `tools/reseed.py` (one scratch checkout of /repo HEAD per change, the change applied, the seeded property's own quick",
       "check run on it). `patch-does-not-apply`: a later `fix:` commit rewrote the same lines. `harmless-on-HEAD`: the check is silent and the",
       "change's own demonstration exits 0 on HEAD + patch, i.e. a later `fix:` commit made the change harmless.", "",
       "| change | verdict | clause |", "|---|---|---|"]
out += [f"| {a} | {b} | {c.replace('|', '/')[:160]} |" for a, b, c in rows]
from collections import Counter
cnt = Counter(b for _, b, _ in rows)
out += ["", "Totals: " + ", ".join(f"{k}: {v}" for k, v in sorted(cnt.items())) + f" (of {len(rows)})"]
Path(__file__).resolve().parent.parent.joinpath("seeded", "RECHECK.md").write_text("\n".join(out) + "\n")
print(cnt)
