#!/venv/bin/python
"""tools/seed_eval.py <PID> <i> [--props C01,C02 | --all]

Confirms a seeded change delivered in /tmp/seed_out/<PID>/ (patch<i>.diff, demo<i>.py, meta<i>.json) in the scratch worktree
/tmp/seed/<PID> (tests still pass, demo exits 0 without and 1 with the change), then applies it to /repo, runs the registered
checks, reverts /repo, and stores everything under /verif/seeded/<PID>-<i>/."""
import json
import re
import shutil
import subprocess
import sys
from pathlib import Path

VERIF = Path(__import__("os").environ.get("VERIF_ROOT", "/verif"))  # where the checks run (a built copy while proofs are being edited)
STORE = Path("/verif")


def sh(cmd, cwd=None, env=None, timeout=1800):
    p = subprocess.run(cmd, cwd=cwd, env=env, shell=isinstance(cmd, str), stdout=subprocess.PIPE, stderr=subprocess.STDOUT, timeout=timeout)
    return p.returncode, p.stdout.decode("utf-8", "replace")


def main():
    pid, i = sys.argv[1], sys.argv[2]
    props = None
    if "--all" in sys.argv:
        props = "all"
    for a in sys.argv[3:]:
        if a.startswith("--props"):
            props = sys.argv[sys.argv.index(a) + 1].split(",")
    rnd = sys.argv[sys.argv.index("--round") + 1] if "--round" in sys.argv else "1"
    sfx = "" if rnd == "1" else rnd
    src = Path(f"/tmp/seed{sfx}_out/{pid}")
    wt = f"/tmp/seed{sfx}/{pid}"
    patch, demo = src / f"patch{i}.diff", src / f"demo{i}.py"
    meta = json.loads((src / f"meta{i}.json").read_text()) if (src / f"meta{i}.json").exists() else {}
    env = dict(__import__("os").environ, PYTHONPATH=wt)
    sh(["git", "-C", wt, "checkout", "-q", "--", "."])
    rc0, _ = sh(["/venv/bin/python", str(demo)], cwd=wt, env=env, timeout=600)
    rc, out = sh(["git", "-C", wt, "apply", str(patch)])
    if rc != 0:
        print("patch does not apply:", out)
        return 2
    _, tests = sh(["/venv/bin/python", "-m", "pytest", "-q", "-p", "no:cacheprovider"], cwd=wt, timeout=900)
    tests_line = tests.strip().splitlines()[-1] if tests.strip() else ""
    rc1, demo_out = sh(["/venv/bin/python", str(demo)], cwd=wt, env=env, timeout=600)
    sh(["git", "-C", wt, "checkout", "-q", "--", "."])
    confirmed = rc0 == 0 and rc1 == 1 and re.search(r"\b148 passed", tests_line) is not None and "failed" not in tests_line
    print(f"{pid}-r{rnd}-{i}: demo without={rc0} with={rc1}; tests: {tests_line}; confirmed={confirmed}")
    manifest = json.loads((VERIF / "MANIFEST.json").read_text())
    claimed = [c["property_id"] for c in manifest["checks"]]
    if props == "all":
        run_props = claimed
    elif props:
        run_props = [p for p in props if p in claimed]
    else:
        run_props = [pid] if pid in claimed else []
    results = {}
    if confirmed and run_props:
        # the change is applied to a scratch checkout of /repo's HEAD (VERIF_REPO), so that /repo itself stays untouched while
        # other checks may be running against it; equivalent to `git -C /repo apply` + `git -C /repo checkout -- .`
        scratch = "/var/tmp/seed_apply"
        sh(["git", "-C", "/repo", "worktree", "remove", "--force", scratch])
        sh(["git", "-C", "/repo", "worktree", "prune"])
        rc, out = sh(["git", "-C", "/repo", "worktree", "add", "--detach", scratch, "HEAD"])
        rc, out = sh(["git", "-C", scratch, "apply", str(patch)])
        if rc != 0:
            print("patch does not apply to /repo HEAD:", out)
            sh(["git", "-C", "/repo", "worktree", "remove", "--force", scratch])
            return 2
        cenv = dict(__import__("os").environ, VERIF_REPO=scratch)
        try:
            for p in run_props:
                rc, out = sh(["bin/check", p], cwd=str(VERIF), env=cenv, timeout=3000)
                lines = [l for l in out.splitlines() if l.startswith(("VIOLATION", "OK", "KNOWN-FINDING"))]
                verdict = "missed"
                for l in lines:
                    if l.startswith("VIOLATION"):
                        verdict = "no-failing-input-found" if l.rstrip().endswith("no-failing-input-found") else "violation-with-input"
                        m = re.search(r"replay=(\S+)", l)
                        if m and Path(m.group(1)).exists():
                            rp = json.loads(Path(m.group(1)).read_text())
                            results.setdefault("_detail", {})[p] = {"clause": rp.get("violated_clause"), "suite": rp.get("suite"), "broken": rp.get("broken")}
                results[p] = verdict
                print(f"   check {p}: exit={rc} {verdict} {(results.get('_detail', {}).get(p) or {}).get('clause') or ''}"[:300])
        finally:
            sh(["git", "-C", "/repo", "worktree", "remove", "--force", scratch])
            sh(["git", "-C", "/repo", "worktree", "prune"])
    dest = STORE / "seeded" / (f"{pid}-{i}" if rnd == "1" else f"{pid}-r{rnd}-{i}")
    if confirmed:
        dest.mkdir(parents=True, exist_ok=True)
        shutil.copy(patch, dest / "patch.diff")
        shutil.copy(demo, dest / "demo.py")
        old = json.loads((dest / "meta.json").read_text()) if (dest / "meta.json").exists() else {}
        allres = dict(old.get("check_results", {}))
        allres.update({k: v for k, v in results.items() if k != "_detail"})
        detail = dict(old.get("detail", {}))
        detail.update(results.get("_detail", {}))
        (dest / "meta.json").write_text(json.dumps({
            "breaks_property": pid,
            "summary": meta.get("summary"),
            "needs_to_manifest": meta.get("needs"),
            "files": meta.get("files"),
            "confirmed": {"demo_exit_without_change": rc0, "demo_exit_with_change": rc1, "test_suite_with_change": tests_line,
                          "how": f"git apply in scratch worktree {wt}; /venv/bin/python -m pytest -q -p no:cacheprovider; PYTHONPATH=<worktree> /venv/bin/python demo.py"},
            "check_results": allres,
            "detail": detail,
            "what_i_ran": "tools/seed_eval.py: patch.diff applied to a scratch checkout of /repo HEAD; VERIF_REPO=<scratch> bin/check <property>; scratch removed",
        }, indent=1) + "\n")
    return 0


if __name__ == "__main__":
    sys.exit(main())
