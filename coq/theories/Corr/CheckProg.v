(** Correspondence evaluator for whole programs (suites prog / lwops / params / ...). *)
From Robo Require Export Prelude Str Case Wells Utils Labware Tips Records Partition Params Worklist EvoCmd Program.

Inductive lwspec := LPlate (a : lw_args) | LTrough (a : trough_args).
Definition build (l : lwspec) : res labware :=
  match l with LPlate a => mk_labware a | LTrough a => mk_trough a end.

(** volumes as numerators over a common power-of-two denominator *)
Record lwobs := { o_den : Z; o_nums : list Z; o_hlen : Z; o_last : option string }.
Definition compobs := list (string * list (Z * Z)).   (* component -> [(flat index, round(f * 2^40))] *)

Record expect := {
  e_err : option err;
  e_recs : list string;                 (* records appended by this call *)
  e_lw : list lwobs;                    (* every labware after the call *)
  e_comp : list (Z * compobs)           (* compositions of the labware the call touched *)
}.

Record final := {
  f_hist : list (list (option string * (Z * list Z)));   (* per labware: full history *)
  f_comp : list compobs;
  f_report : list (option (list (option string * list Z)))   (* per labware: parsed report (None: not parsed) *)
}.

Record case := {
  p_dev : device; p_max : Q; p_autosplit : bool; p_diti : bool;
  p_lw : list lwspec;
  p_ops : list (op * expect);
  p_final : final
}.

Definition vols_match (den : Z) (nums : list Z) (vols : list Q) : bool :=
  list_eqb (fun n v => Qeq_bool (v * inject_Z den) (inject_Z n)) nums vols.

Definition lw_vols_match (o : lwobs) (L : labware) : bool :=
  vols_match (o_den o) (o_nums o) (lw_vols L).
Definition lw_hist_match (o : lwobs) (L : labware) : bool :=
  (Z.of_nat (length (lw_hist L)) =? o_hlen o)%Z
  && option_eqb String.eqb (o_last o) (match last_opt (lw_hist L) with Some h => fst h | None => None end).
Definition lw_match (o : lwobs) (L : labware) : bool := lw_vols_match o L && lw_hist_match o L.

Definition two40 : Q := inject_Z (2 ^ 40).
Definition frac_close (f : Q) (n : Z) : bool :=
  let x := (f * two40)%Q in Qle_bool (inject_Z (n - 1)) x && Qle_bool x (inject_Z (n + 1)).
Fixpoint sparse_get (i : Z) (l : list (Z * Z)) : Z :=
  match l with [] => 0%Z | (j, n) :: r => if (i =? j)%Z then n else sparse_get i r end.
Fixpoint arr_match_from (i : Z) (arr : list Q) (e : list (Z * Z)) : bool :=
  match arr with
  | [] => true
  | f :: r => frac_close f (sparse_get i e) && arr_match_from (i + 1)%Z r e
  end.
Definition comp_match (e : compobs) (L : labware) : bool :=
  (* every expected entry is matched by the model ... *)
  forallb (fun ke => match assoc_get (fst ke) (lw_comp L) with
                     | Some arr => arr_match_from 0%Z arr (snd ke)
                     | None => forallb (fun jn => (Z.abs (snd jn) <=? 1)%Z) (snd ke)
                     end) e
  (* ... and every component of the model is matched by the expectation *)
  && forallb (fun ka => match assoc_get (fst ka) e with
                        | Some ent => arr_match_from 0%Z (snd ka) ent
                        | None => arr_match_from 0%Z (snd ka) []
                        end) (lw_comp L).

Definition recs_since (s0 s1 : state) : list string :=
  map render (skipn (length (w_recs (st_wl s0))) (w_recs (st_wl s1))).

Definition expect_match (s0 s1 : state) (e : option err) (x : expect) : bool :=
  oerr_match e (e_err x)
  && strs_eqb (recs_since s0 s1) (e_recs x)
  && list_eqb lw_match (e_lw x) (st_lw s1)
  && forallb (fun kc => match nth_error (st_lw s1) (Z.to_nat (fst kc)) with
                        | Some L => comp_match (snd kc) L
                        | None => false
                        end) (e_comp x).

(** which kinds of observable differ after one call: 1 outcome, 2 records, 4 volumes, 8 history, 16 composition *)
Definition mismatch_kinds (s0 s1 : state) (e : option err) (x : expect) : Z :=
  ((if oerr_match e (e_err x) then 0 else 1)
   + (if strs_eqb (recs_since s0 s1) (e_recs x) then 0 else 2)
   + (if list_eqb lw_vols_match (e_lw x) (st_lw s1) then 0 else 4)
   + (if list_eqb lw_hist_match (e_lw x) (st_lw s1) then 0 else 8)
   + (if forallb (fun kc => match nth_error (st_lw s1) (Z.to_nat (fst kc)) with
                            | Some L => comp_match (snd kc) L
                            | None => false
                            end) (e_comp x) then 0 else 16))%Z.

(** index of the first call whose observation differs, and what differs there *)
Fixpoint run_check (s : state) (ops : list (op * expect)) (i : Z) : state * option (Z * Z) :=
  match ops with
  | [] => (s, None)
  | (o, x) :: r =>
      let '(s1, e) := step s o in
      let m := mismatch_kinds s s1 e x in
      if (m =? 0)%Z then run_check s1 r (i + 1)%Z else (s1, Some (i, m))
  end.

Definition hist_match (h : list (option string * (Z * list Z))) (L : labware) : bool :=
  list_eqb (fun x y => option_eqb String.eqb (fst x) (fst y) && vols_match (fst (snd x)) (snd (snd x)) (snd y))
           h (lw_hist L).

Definition final_match (f : final) (s : state) : bool :=
  list_eqb hist_match (f_hist f) (st_lw s) && list_eqb comp_match (f_comp f) (st_lw s).

Fixpoint build_all (l : list lwspec) : option (list labware) :=
  match l with
  | [] => Some []
  | x :: r => match build x, build_all r with
              | Ok L, Some Ls => Some (L :: Ls)
              | _, _ => None
              end
  end.

Definition init_state (c : case) : option state :=
  match build_all (p_lw c) with
  | Some Ls => Some {| st_lw := Ls; st_wl := init_wl (p_dev c) (p_max c) (p_autosplit c) (p_diti c) |}
  | None => None
  end.

(** verdict: None = agreement; Some (-1, 32) = construction differs; Some (i, kinds) = call i differs in the
    given kinds; Some (-2, kinds) = final histories (8) / compositions (16) differ *)
Definition verdict (c : case) : option (Z * Z) :=
  match init_state c with
  | None => Some (-1, 32)%Z
  | Some s0 =>
      match run_check s0 (p_ops c) 0%Z with
      | (_, Some im) => Some im
      | (s, None) =>
          let report_ok := list_eqb (fun r L => match r with
                                                | None => true
                                                | Some ents =>
                                                    list_eqb (fun a b => option_eqb String.eqb (fst a) (fst b)
                                                                         && list_eqb Z.eqb (snd a) (snd b))
                                                             ents (report_entries L)
                                                end) (f_report (p_final c)) (st_lw s) in
          let m := ((if list_eqb hist_match (f_hist (p_final c)) (st_lw s) && report_ok then 0 else 8)
                    + (if list_eqb comp_match (f_comp (p_final c)) (st_lw s) then 0 else 16))%Z in
          if (m =? 0)%Z then None else Some (-2, m)%Z
      end
  end.
Definition check (c : case) : bool := match verdict c with None => true | Some _ => false end.
(** kinds of observable on which model and code differ (0 = agreement) *)
Definition mask (c : case) : Z := match verdict c with None => 0%Z | Some (_, m) => m end.

(** for replays: the model's own observations *)
Definition model_trace (c : case) :=
  match init_state c with
  | None => None
  | Some s0 =>
      let '(s, errs) := run s0 (map fst (p_ops c)) in
      Some (errs, map render (w_recs (st_wl s)), map (fun L => (map Qred (lw_vols L), map fst (lw_hist L))) (st_lw s))
  end.
