(** Correspondence evaluator for the pure helpers (suites wells, ctor, pvol, pcol, sel, xform, save, plan). *)
From Robo Require Export Prelude Str Case Wells Utils Labware Tips Records Partition Params Worklist EvoCmd
  Program Transform Save Dilution CheckProg.

Definition q_eqb (a b : Q) : bool := Qeq_bool a b.
Definition triple_eqb (a b : triple) : bool :=
  String.eqb (fst (fst a)) (fst (fst b)) && String.eqb (snd (fst a)) (snd (fst b)) && q_eqb (snd a) (snd b).
Definition nat_eqbZ (n : nat) (z : Z) : bool := (Z.of_nat n =? z)%Z.
Definition res_nat_match (m : res nat) (e : res Z) : bool :=
  match m, e with
  | Ok n, Ok z => nat_eqbZ n z
  | Err a, Err b => err_match a b
  | _, _ => false
  end.
Definition opt_rc_match (m : option (nat * nat)) (e : option (Z * Z)) : bool :=
  match m, e with
  | Some (r, c), Some (r', c') => nat_eqbZ r r' && nat_eqbZ c c'
  | None, None => true
  | _, _ => false
  end.

(** [partition_by_column] with the mode as the string the caller passes *)
Definition pcol_str (mode : string) (l : list triple) : res (list (list triple)) :=
  match l with
  | [] => Ok []
  | _ => if String.eqb mode "source" then Ok (partition_by_column BySource l)
         else if String.eqb mode "destination" then Ok (partition_by_column ByDestination l)
         else Err EValue
  end.

Definition mode_name (m : pmode) : string :=
  match m with BySource => "source" | ByDestination => "destination" end.

(** observed attributes of a constructed labware *)
Record ctor_obs := {
  co_wells : list (list string);
  co_keys : list (string * (Z * Z));      (* indices, in dict order *)
  co_shape_vol : Z * Z;                    (* shape of the volume array *)
  co_min : Q; co_max : Q;
  co_vols : Z * list Z;
  co_hist : list (option string * (Z * list Z));
  co_comp : compobs;
  co_is_trough : bool;
  co_nrows : Z; co_ncols : Z
}.

Definition ctor_match (L : labware) (o : ctor_obs) : bool :=
  let g := lw_geom L in
  list_eqb strs_eqb (wells_table g) (co_wells o)
  && (length (co_keys o) =? n_row_ids g * g_cols g)%nat
  && forallb (fun kv => opt_rc_match (well_index g (fst kv)) (Some (snd kv))) (co_keys o)
  && forallb (fun row => forallb (fun w => existsb (fun kv => String.eqb (fst kv) w) (co_keys o)) row) (wells_table g)
  && nat_eqbZ (g_rows g) (fst (co_shape_vol o)) && nat_eqbZ (g_cols g) (snd (co_shape_vol o))
  && q_eqb (lw_min L) (co_min o) && q_eqb (lw_max L) (co_max o)
  && vols_match (fst (co_vols o)) (snd (co_vols o)) (lw_vols L)
  && hist_match (co_hist o) L
  && comp_match (co_comp o) L
  && Bool.eqb (is_trough g) (co_is_trough o)
  && nat_eqbZ (n_row_ids g) (co_nrows o) && nat_eqbZ (g_cols g) (co_ncols o).

Inductive xf_call :=
| XShift (ra ca rb cb : Z) (anchor : string) (a : arr string)
| XUnshift (ra ca rb cb : Z) (anchor : string) (a : arr string)
| XCw (R C : Z) (a : arr string)
| XCcw (R C : Z) (a : arr string)
| XRand (t : list (string * string)) (a : arr string)
| XDerand (t : list (string * string)) (a : arr string).

Definition arr_eqb {A B} (f : A -> B -> bool) (a : arr A) (b : arr B) : bool :=
  match a, b with
  | A0 x, A0 y => f x y
  | A1 xs, A1 ys => list_eqb f xs ys
  | A2 r1, A2 r2 => list_eqb (list_eqb f) r1 r2
  | _, _ => false
  end.

Definition xf_run (c : xf_call) : res (arr (option string)) :=
  let some := fun r => match r with Ok a => Ok (amap Some a) | Err e => Err e end in
  match c with
  | XShift ra ca rb cb anchor a =>
      match mk_shifter (nat_ ra) (nat_ ca) (nat_ rb) (nat_ cb) anchor with
      | Ok s => some (Transform.shift s a) | Err e => Err e end
  | XUnshift ra ca rb cb anchor a =>
      match mk_shifter (nat_ ra) (nat_ ca) (nat_ rb) (nat_ cb) anchor with
      | Ok s => some (Transform.unshift s a) | Err e => Err e end
  | XCw R C a => some (rotate_cw (nat_ R) (nat_ C) a)
  | XCcw R C a => some (rotate_ccw (nat_ R) (nat_ C) a)
  | XRand t a => Ok (randomize t a)
  | XDerand t a => Ok (derandomize t a)
  end.

(** expected plan: instructions (column, steps, source or -1, volumes) and x scaled by 2^40 *)
Record plan_obs := {
  po_instr : list (Z * Z * Z * list Z);
  po_x : list (list Z);
  po_v_stock : Z;
  po_v_diluent : Q;
  po_max_steps : Z
}.
Definition x_close (x : Q) (n : Z) : bool :=
  (* relative tolerance 2^-30 on concentrations *)
  let d := (x * two40 - inject_Z n)%Q in
  let tol := (Qabs (inject_Z n) / inject_Z (2 ^ 30) + 2)%Q in
  Qle_bool (Qabs d) tol.
Definition plan_match (p : dplan) (R : nat) (o : plan_obs) : bool :=
  list_eqb (fun i e => let '(c, st, src, vs) := e in
                       nat_eqbZ (i_col i) c && nat_eqbZ (i_steps i) st
                       && (match i_src i with None => (src =? -1)%Z | Some k => nat_eqbZ k src end)
                       && list_eqb Z.eqb (i_vols i) vs) (dp_instr p) (po_instr o)
  && list_eqb (list_eqb x_close) (dp_x p) (po_x o)
  && (v_stock p =? po_v_stock o)%Z
  && q_eqb (v_diluent R p) (po_v_diluent o)
  && nat_eqbZ (max_steps p) (po_max_steps o).

Record twl_obs := {
  tw_err : option err;
  tw_recs : list string;
  tw_lw : list lwobs;
  tw_comp : list compobs
}.

Inductive case :=
| KPvol (v m : Q) (out : list Q)
| KPcol (mode : string) (l : list triple) (out : res (list (list triple)))
| KOpt (src_trough dst_trough : bool) (mode : string) (out : res string)
| KGeom (g_is_trough : bool) (rows cols : Z)
        (wells : list (list string))
        (* per well, row-major over the id table: id, real index, positions attribute, EVO, Fluent *)
        (tbl : list (string * (Z * Z) * Z * Z * Z))
| KBadId (g_is_trough : bool) (rows cols : Z) (id : string)
         (in_indices : option (Z * Z)) (evo fluent : res Z)
| KWellArr (R C : Z) (wells : list (list string)) (keys : list (string * (Z * Z)))
| KSel (rows cols : Z) (sel : list bool) (out : string)
| KSelOne (rows cols : Z) (i : Z) (out : string)      (* only the i-th well (column-major) selected *)
| KSelAll (rows cols : Z) (out : string)              (* every well selected *)
| KSelArr (rows cols : Z) (wells : arr string) (out : option (list bool))
| KHex (n : Z) (out : string)
| KXf (c : xf_call) (out : res (arr (option string)))
| KWith (filename : string) (stale recs : list string) (raised : bool) (twice : bool) (old content : option string) (refused : bool)
    (* w = Worklist(filename); w.extend(stale); with w: w.extend(recs) [raise]; [with w: w.extend(recs)] -> file content *)
| KRandCtor (mode R C : Z) (draws : list (list string)) (out : res (list (string * string)))
    (* WellRandomizer((R, C), seed, mode).lookup items in insertion order; draws = what rng.permutation returned *)
| KSave (filename : string) (recs : list string) (content : option string) (readback : list string) (shown : string)
| KCtor (spec : lwspec) (out : res ctor_obs)
| KPlan (stock_ge_xmax mode_ok : bool) (R C : Z) (vmax : arr Q) (ideal : list (list Q)) (stock min_transfer : Q)
        (out : res plan_obs)
| KToWl (dev : device) (wmax : Q) (lws : list lwspec) (C : Z) (vmax : arr Q) (ideal : list (list Q))
        (stock min_transfer : Q) (a : twl_args) (out : twl_obs).

Definition geom_of (tr : bool) (rows cols : Z) : geom :=
  if tr then {| g_rows := 1; g_cols := nat_ cols; g_vrows := Some (nat_ rows) |}
  else {| g_rows := nat_ rows; g_cols := nat_ cols; g_vrows := None |}.

Definition sel_colmajor (rows cols : nat) (rowmajor : list bool) : list bool :=
  flat_map (fun c => map (fun r => nth (r * cols + c) rowmajor false) (seq 0 rows)) (seq 0 cols).

Definition check (c : case) : bool :=
  match c with
  | KPvol v m out => list_eqb q_eqb (partition_volume v m) out
  | KPcol mode l out => res_match (list_eqb (list_eqb triple_eqb)) (pcol_str mode l) out
  | KOpt s d mode out =>
      res_match String.eqb (match optimize_partition_by s d mode with Ok m => Ok (mode_name m) | Err e => Err e end) out
  | KGeom tr rows cols wells tbl =>
      let g := geom_of tr rows cols in
      list_eqb strs_eqb (wells_table g) wells
      && (length tbl =? n_row_ids g * g_cols g)%nat
      && forallb (fun t => let '(id, rc, pa, pe, pf) := t in
                           opt_rc_match (well_index g id) (Some rc)
                           && match positions_attr g id with Some p => nat_eqbZ p pa | None => false end
                           && res_nat_match (evo_position g id) (Ok pe)
                           && res_nat_match (fluent_position g id) (Ok pf)) tbl
      && list_eqb String.eqb (concat (wells_table g)) (map (fun t => fst (fst (fst (fst t)))) tbl)
  | KBadId tr rows cols id idx evo fl =>
      let g := geom_of tr rows cols in
      opt_rc_match (well_index g id) idx
      && res_nat_match (evo_position g id) evo && res_nat_match (fluent_position g id) fl
  | KWellArr R C wells keys =>
      list_eqb strs_eqb (make_well_array (nat_ R) (nat_ C)) wells
      && (length keys =? length (concat wells))%nat
      && forallb (fun kv => opt_rc_match (make_well_index (nat_ R) (nat_ C) (fst kv)) (Some (snd kv))) keys
  | KSel rows cols sel out => String.eqb (evo_get_selection (nat_ rows) (nat_ cols) sel) out
  | KSelOne rows cols i out =>
      String.eqb (evo_get_selection (nat_ rows) (nat_ cols)
                    (map (fun j => (Z.of_nat j =? i)%Z) (seq 0 (nat_ rows * nat_ cols)))) out
  | KSelAll rows cols out =>
      String.eqb (evo_get_selection (nat_ rows) (nat_ cols) (repeat true (nat_ rows * nat_ cols))) out
  | KSelArr rows cols wells out =>
      option_eqb (list_eqb Bool.eqb) (selection_array (nat_ rows) (nat_ cols) (flattenC wells)) out
  | KHex n out => String.eqb (to_hex (Z.to_N n)) out
  | KXf call out => res_match (arr_eqb (option_eqb String.eqb)) (xf_run call) out
  | KWith filename stale recs raised twice old content refused =>
      let w0 := wl_append (wl_init (Some filename)) stale in
      let w1 := wl_append (wl_enter w0) recs in
      let r1 := wl_exit w1 raised old in
      let r := if twice then wl_exit (wl_append (wl_enter w1) recs) false (fst r1) else r1 in
      (* the file afterwards, and whether leaving the block was refused (the library raises) *)
      match snd r with
      | None => option_eqb String.eqb (fst r) content && negb refused
      | Some _ => option_eqb String.eqb (fst r) content && refused
      end
  | KRandCtor mode R C draws out =>
      let m := if (mode =? 0)%Z then RFull else if (mode =? 1)%Z then RRow else RColumn in
      res_match (list_eqb (fun a b => String.eqb (fst a) (fst b) && String.eqb (snd a) (snd b)))
                (mk_rand_table m (nat_ R) (nat_ C) draws) out
      (* an accepted construction made exactly one draw per request, each as long as the request *)
      && match out with
         | Ok _ => list_eqb (fun (a b : list string) => (length a =? length b)%nat) (rand_requests m (nat_ R) (nat_ C)) draws
         | Err _ => true
         end
  | KSave filename recs content readback shown =>
      match save filename None recs with
      | (Some txt, None) => option_eqb String.eqb (Some txt) content
                            && strs_eqb (decode_file txt) readback
                            && String.eqb (str_worklist recs) shown
      | (None, Some _) => match content with None => String.eqb (str_worklist recs) shown | Some _ => false end
      | _ => false
      end
  | KCtor spec out =>
      match build spec, out with
      | Ok L, Ok o => ctor_match L o
      | Err e, Err e' => err_match e e'
      | _, _ => false
      end
  | KPlan sg mo R C vmax ideal stock mt out =>
      match dilution_plan sg mo (nat_ C) vmax ideal stock mt, out with
      | Ok p, Ok o => plan_match p (nat_ R) o
      | Err e, Err e' => err_match e e'
      | _, _ => false
      end
  | KToWl dev wmax lws C vmax ideal stock mt a out =>
      match build_all lws, dilution_plan true true (nat_ C) vmax ideal stock mt with
      | Some Ls, Ok p =>
          let s0 := {| st_lw := Ls; st_wl := init_wl dev wmax true false |} in
          let '(s, e) := to_worklist s0 a p (nat_ C) in
          oerr_match e (tw_err out)
          && strs_eqb (map render (w_recs (st_wl s))) (tw_recs out)
          && list_eqb lw_match (tw_lw out) (st_lw s)
          && list_eqb comp_match (tw_comp out) (st_lw s)
      | _, _ => false
      end
  end.

(** pure helpers have one kind of observable *)
Definition mask (c : case) : Z := if check c then 0%Z else 1%Z.
