(** Shared plumbing of the correspondence evaluators: literals helpers used by the generated
    case files (which contain only [Z] numerals, strings and lists) and the failure collector. *)
From Robo Require Import Prelude Str.

Definition q (n d : Z) : Q := Qmake n (Z.to_pos d).
Definition nat_ (z : Z) : nat := Z.to_nat z.

Fixpoint failures_from {C} (check : C -> bool) (i : Z) (cs : list C) : list Z :=
  match cs with
  | [] => []
  | c :: r => (if check c then [] else [i]) ++ failures_from check (i + 1)%Z r
  end.
(** number of cases evaluated and the indices (first 50) of those where model and code differ *)
Definition failures {C} (check : C -> bool) (cs : list C) : Z * Z * list Z :=
  let f := failures_from check 0%Z cs in
  (Z.of_nat (length cs), Z.of_nat (length f), firstn 50 f).

(** like [failures], with the kinds of differing observables per failing case *)
Fixpoint masks_from {C} (mask : C -> Z) (i : Z) (cs : list C) : list (Z * Z) :=
  match cs with
  | [] => []
  | c :: r => let m := mask c in ((if (m =? 0)%Z then [] else [(i, m)]) ++ masks_from mask (i + 1)%Z r)%list
  end.
Definition failure_masks {C} (mask : C -> Z) (cs : list C) : Z * Z * list (Z * Z) :=
  let f := masks_from mask 0%Z cs in
  (Z.of_nat (length cs), Z.of_nat (length f), firstn 50 f).

Definition list_eqb {A B} (eqb : A -> B -> bool) : list A -> list B -> bool :=
  fix go l1 l2 := match l1, l2 with
                  | [], [] => true
                  | a :: r1, b :: r2 => eqb a b && go r1 r2
                  | _, _ => false
                  end.
Definition option_eqb {A} (eqb : A -> A -> bool) (a b : option A) : bool :=
  match a, b with Some x, Some y => eqb x y | None, None => true | _, _ => false end.
Definition strs_eqb := list_eqb String.eqb.

(** expected outcome of a call as shipped by the harness: a value or an exception class *)
Definition res_match {A} (eqb : A -> A -> bool) (model : res A) (impl : res A) : bool :=
  match model, impl with
  | Ok a, Ok b => eqb a b
  | Err e, Err e' => err_match e e'
  | _, _ => false
  end.
