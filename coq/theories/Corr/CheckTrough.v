From Robo Require Export Prelude Str Case Utils.
Record case := { c_n : pyint; c_ws : arr string; c_out : res (list string) }.
Definition run (c : case) : res (list string) := get_trough_wells (c_n c) (c_ws c).
Definition check (c : case) : bool := res_match strs_eqb (run c) (c_out c).
Definition mask (c : case) : Z := if check c then 0%Z else 1%Z.
