From Robo Require Export Prelude Str Case Utils.
(** several calls with the same wells object, one after the other (the argument must not be changed by a call) *)
Record case := { c_ws : arr string; c_calls : list (pyint * res (list string)) }.
Definition run (c : case) : list (res (list string)) := map (fun p => get_trough_wells (fst p) (c_ws c)) (c_calls c).
Definition check (c : case) : bool :=
  forallb (fun p => res_match strs_eqb (get_trough_wells (fst p) (c_ws c)) (snd p)) (c_calls c).
Definition mask (c : case) : Z := if check c then 0%Z else 1%Z.
