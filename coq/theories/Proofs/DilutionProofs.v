(** Lemmas about the dilution-series planner [plan_core] / [dilution_plan] and the operations issued
    by [to_worklist] (C14). *)
From Robo Require Import Prelude Str Wells Utils Labware Tips Records Partition Params Worklist EvoCmd
  Program Dilution.
From Coq Require Import Lqa.

(* ------------------------------------------------------------------------------------------ *)
(** * list helpers *)

Lemma nth_map_lt {A B} (f : A -> B) (l : list A) (d : A) (d' : B) :
  forall r, r < length l -> nth r (map f l) d' = f (nth r l d).
Proof.
  induction l as [|a l IH]; intros r Hr; cbn [length] in Hr; [lia|].
  destruct r as [|r]; cbn [map nth]; [reflexivity|]. apply IH. lia.
Qed.

Lemma zip_len {A B} (l1 : list A) : forall (l2 : list B),
  length (zip l1 l2) = Nat.min (length l1) (length l2).
Proof.
  induction l1 as [|a l1 IH]; intros [|b l2]; cbn [zip length Nat.min]; try reflexivity.
  now rewrite IH.
Qed.

Lemma nth_zip {A B} (l1 : list A) (d1 : A) (d2 : B) : forall (l2 : list B) r,
  r < length l1 -> r < length l2 -> nth r (zip l1 l2) (d1, d2) = (nth r l1 d1, nth r l2 d2).
Proof.
  induction l1 as [|a l1 IH]; intros [|b l2] r H1 H2; cbn [length] in *; try lia.
  destruct r as [|r]; cbn [zip nth]; [reflexivity|]. apply IH; lia.
Qed.

Lemma forallb_nth {A} (f : A -> bool) (l : list A) (d : A) r :
  forallb f l = true -> r < length l -> f (nth r l d) = true.
Proof.
  intros H Hr. rewrite forallb_forall in H. apply H. now apply nth_In.
Qed.

Lemma nth_skipn_add {A} (d : A) : forall n (l : list A) j, nth j (skipn n l) d = nth (n + j) l d.
Proof.
  induction n as [|n IH]; intros l j; [reflexivity|].
  destruct l as [|a l]; cbn [skipn Nat.add nth]; [now destruct j|]. apply IH.
Qed.

Lemma nth_app_l {A} (l l' : list A) d j : j < length l -> nth j (l ++ l') d = nth j l d.
Proof. intro H. now apply app_nth1. Qed.

Lemma nth_app_here {A} (l : list A) a d : nth (length l) (l ++ [a]) d = a.
Proof. rewrite app_nth2 by lia. now rewrite Nat.sub_diag. Qed.

(* ------------------------------------------------------------------------------------------ *)
(** * the pieces of the planner, named *)

Definition dinstr : instr := {| i_col := 0; i_steps := 0; i_src := None; i_vols := [] |}.

(** all volumes reach min_transfer *)
Definition vols_ok (mt : Q) (vt : list Z) : bool := forallb (fun v => Qgeb (inject_Z v) mt) vt.
(** volumes / achieved concentrations of a column prepared from the stock *)
Definition stock_vols (stock vm : Q) (col : list Q) : list Z := map (fun x => Qrint (vm * x / stock)%Q) col.
Definition stock_x (stock vm : Q) (vt : list Z) : list Q := map (fun v => Qred (inject_Z v / vm * stock)%Q) vt.
(** volumes / achieved concentrations of a column diluted from a column with concentrations [x] *)
Definition serial_vols (vm : Q) (col x : list Q) : list Z :=
  map (fun p => Qceiling (vm * fst p / snd p)%Q) (zip col x).
Definition serial_x (vm : Q) (vt : list Z) (x : list Q) : list Q :=
  map (fun p => Qred (inject_Z (fst p) * snd p / vm)%Q) (zip vt x).

Lemma from_stock_cons c col rest vm vrest stock mt :
  from_stock c (col :: rest) (vm :: vrest) stock mt =
  if vols_ok mt (stock_vols stock vm col) then
    let '(is, xs) := from_stock (S c) rest vrest stock mt in
    ({| i_col := c; i_steps := 0; i_src := None; i_vols := stock_vols stock vm col |} :: is,
     stock_x stock vm (stock_vols stock vm col) :: xs)
  else ([], []).
Proof. reflexivity. Qed.

Lemma find_source_cons k i irest x xrest col vm mt :
  find_source k (i :: irest) (x :: xrest) col vm mt =
  if vols_ok mt (serial_vols vm col x) then Some (k, i_steps i, serial_vols vm col x)
  else find_source (S k) irest xrest col vm mt.
Proof. reflexivity. Qed.

Lemma serial_cons c col rest vm vrest mt instrs xs :
  serial c (col :: rest) (vm :: vrest) mt instrs xs =
  match find_source 0 instrs xs col vm mt with
  | Some (k, steps, vt) =>
      serial (S c) rest vrest mt
        (instrs ++ [{| i_col := c; i_steps := S steps; i_src := Some k; i_vols := vt |}])
        (xs ++ [serial_x vm vt (nth k xs [])])
  | None => serial (S c) rest vrest mt instrs xs
  end.
Proof. reflexivity. Qed.

(** what the plan says about a column prepared from the stock ... *)
Definition stock_col (stock mt : Q) (col : list Q) (vm : Q) (i : instr) (x : list Q) (c : nat) : Prop :=
  i_col i = c /\ i_steps i = 0 /\ i_src i = None /\
  i_vols i = stock_vols stock vm col /\ vols_ok mt (i_vols i) = true /\
  x = stock_x stock vm (i_vols i).

(** ... and about a column prepared by serial dilution: the source [k] is an earlier column, the
    leftmost one all of whose volumes reach min_transfer *)
Definition serial_col (mt : Q) (col : list Q) (vm : Q) (is : list instr) (xs : list (list Q)) (c : nat) : Prop :=
  i_col (nth c is dinstr) = c /\ vols_ok mt (i_vols (nth c is dinstr)) = true /\
  exists k, k < c /\ i_src (nth c is dinstr) = Some k /\
    i_steps (nth c is dinstr) = S (i_steps (nth k is dinstr)) /\
    i_vols (nth c is dinstr) = serial_vols vm col (nth k xs []) /\
    nth c xs [] = serial_x vm (i_vols (nth c is dinstr)) (nth k xs []) /\
    forall k', k' < k -> vols_ok mt (serial_vols vm col (nth k' xs [])) = false.

(* ------------------------------------------------------------------------------------------ *)
(** * stage 1 *)

Lemma from_stock_spec : forall cols vms c stock mt is xs,
  from_stock c cols vms stock mt = (is, xs) ->
  length xs = length is /\ length is <= length cols /\ length is <= length vms /\
  (forall j, j < length is ->
     stock_col stock mt (nth j cols []) (nth j vms 0%Q) (nth j is dinstr) (nth j xs []) (c + j)) /\
  (length is < length cols -> length is < length vms ->
     vols_ok mt (stock_vols stock (nth (length is) vms 0%Q) (nth (length is) cols [])) = false).
Proof.
  induction cols as [|col rest IH]; intros vms c stock mt is xs H.
  - cbn in H. inversion H; subst is xs. cbn [length].
    split; [reflexivity|]. split; [lia|]. split; [lia|]. split; [intros j Hj; lia|intros H1; lia].
  - destruct vms as [|vm vrest].
    + cbn in H. inversion H; subst is xs. cbn [length].
      split; [reflexivity|]. split; [lia|]. split; [lia|]. split; [intros j Hj; lia|intros H1 H2; lia].
    + rewrite from_stock_cons in H.
      destruct (vols_ok mt (stock_vols stock vm col)) eqn:E.
      * destruct (from_stock (S c) rest vrest stock mt) as [is0 xs0] eqn:E0.
        inversion H; subst is xs; clear H.
        destruct (IH _ _ _ _ _ _ E0) as (L1 & L2 & L3 & Hall & Hmax).
        cbn [length]. split; [lia|]. split; [lia|]. split; [lia|]. split.
        -- intros [|j] Hj; cbn [nth].
           ++ unfold stock_col. cbn [i_col i_steps i_src i_vols]. rewrite Nat.add_0_r.
              repeat split; assumption.
           ++ replace (c + S j) with (S c + j) by lia. apply Hall. lia.
        -- intros H1 H2. cbn [nth]. apply Hmax; lia.
      * inversion H; subst is xs. cbn [length nth].
        split; [reflexivity|]. split; [lia|]. split; [lia|]. split; [intros j Hj; lia|].
        intros _ _. exact E.
Qed.

(* ------------------------------------------------------------------------------------------ *)
(** * stage 2 *)

Lemma find_source_spec : forall instrs xs k0 col vm mt k steps vt,
  find_source k0 instrs xs col vm mt = Some (k, steps, vt) ->
  exists k', k = k0 + k' /\ k' < length instrs /\ k' < length xs /\
    steps = i_steps (nth k' instrs dinstr) /\ vt = serial_vols vm col (nth k' xs []) /\
    vols_ok mt vt = true /\
    forall k'', k'' < k' -> vols_ok mt (serial_vols vm col (nth k'' xs [])) = false.
Proof.
  induction instrs as [|i irest IH]; intros xs k0 col vm mt k steps vt H.
  - cbn in H. discriminate.
  - destruct xs as [|x xrest]; [cbn in H; discriminate|].
    rewrite find_source_cons in H.
    destruct (vols_ok mt (serial_vols vm col x)) eqn:E.
    + inversion H; subst k steps vt. exists 0. cbn [length nth].
      split; [lia|]. split; [lia|]. split; [lia|]. split; [reflexivity|]. split; [reflexivity|].
      split; [exact E|]. intros k'' Hk. lia.
    + destruct (IH _ _ _ _ _ _ _ _ H) as (k' & Hk & L1 & L2 & Hs & Hv & Hok & Hleft).
      exists (S k'). cbn [length nth].
      split; [lia|]. split; [lia|]. split; [lia|]. split; [exact Hs|]. split; [exact Hv|].
      split; [exact Hok|]. intros [|k''] Hlt; [exact E|]. apply Hleft. lia.
Qed.

(** lengths: at most one new column per input column *)
Lemma serial_length : forall cols vms c mt instrs xs is' xs',
  serial c cols vms mt instrs xs = (is', xs') -> length xs = length instrs ->
  length xs' = length is' /\ length instrs <= length is' /\
  length is' <= length instrs + length cols /\ length is' <= length instrs + length vms.
Proof.
  induction cols as [|col rest IH]; intros vms c mt instrs xs is' xs' H L.
  - cbn in H. inversion H; subst is' xs'. cbn [length]. lia.
  - destruct vms as [|vm vrest].
    + cbn in H. inversion H; subst is' xs'. cbn [length]. lia.
    + rewrite serial_cons in H.
      destruct (find_source 0 instrs xs col vm mt) as [[[k steps] vt]|] eqn:E.
      * apply IH in H; [|rewrite !app_length; cbn [length]; lia].
        rewrite app_length in H. cbn [length] in *. lia.
      * apply IH in H; [|exact L]. cbn [length]. lia.
Qed.

(** if no column was skipped, the accumulated columns are kept and every new column is a
    well-formed serial column *)
Lemma serial_spec : forall cols vms c mt instrs xs is' xs',
  serial c cols vms mt instrs xs = (is', xs') -> length xs = length instrs -> c = length instrs ->
  length is' = c + length cols ->
  (forall j, j < c -> nth j is' dinstr = nth j instrs dinstr /\ nth j xs' [] = nth j xs []) /\
  (forall j, j < length cols -> serial_col mt (nth j cols []) (nth j vms 0%Q) is' xs' (c + j)).
Proof.
  induction cols as [|col rest IH]; intros vms c mt instrs xs is' xs' H L Hc Hfull.
  - cbn in H. inversion H; subst is' xs'. split; [intros j Hj; split; reflexivity|].
    intros j Hj. cbn [length] in Hj. lia.
  - destruct vms as [|vm vrest].
    + cbn in H. inversion H; subst is' xs'. cbn [length] in Hfull. lia.
    + rewrite serial_cons in H.
      destruct (find_source 0 instrs xs col vm mt) as [[[k steps] vt]|] eqn:E.
      * apply find_source_spec in E.
        destruct E as (k' & Hk & K1 & K2 & Hs & Hv & Hok & Hleft). cbn [Nat.add] in Hk. subst k'.
        apply IH in H.
        -- destruct H as (Hkeep & Hnew). split.
           ++ intros j Hj. destruct (Hkeep j ltac:(lia)) as (Ha & Hb).
              rewrite Ha, Hb. rewrite !nth_app_l by lia. split; reflexivity.
           ++ intros [|j] Hj; cbn [nth].
              ** rewrite Nat.add_0_r.
                 destruct (Hkeep c ltac:(lia)) as (Ha & Hb).
                 destruct (Hkeep k ltac:(lia)) as (Hka & Hkb).
                 assert (Hxk : nth k xs' [] = nth k xs []).
                 { rewrite Hkb. apply nth_app_l. lia. }
                 assert (Hik : nth k is' dinstr = nth k instrs dinstr).
                 { rewrite Hka. apply nth_app_l. lia. }
                 assert (Hic : nth c is' dinstr =
                               {| i_col := c; i_steps := S steps; i_src := Some k; i_vols := vt |}).
                 { rewrite Ha. subst c. apply nth_app_here. }
                 assert (Hxc : nth c xs' [] = serial_x vm vt (nth k xs [])).
                 { rewrite Hb. subst c. rewrite <- L. apply nth_app_here. }
                 unfold serial_col. rewrite Hic, Hxc. cbn [i_col i_steps i_src i_vols].
                 split; [reflexivity|]. split; [exact Hok|].
                 exists k. rewrite Hik, Hxk. split; [lia|]. split; [reflexivity|]. split; [now rewrite Hs|].
                 split; [exact Hv|]. split; [reflexivity|].
                 intros k'' Hlt. destruct (Hkeep k'' ltac:(lia)) as (_ & Hx'').
                 rewrite Hx''. rewrite nth_app_l by lia. now apply Hleft.
              ** replace (c + S j) with (S c + j) by lia. apply Hnew. cbn [length] in Hj. lia.
        -- rewrite !app_length. cbn [length]. lia.
        -- rewrite app_length. cbn [length]. lia.
        -- cbn [length] in Hfull. lia.
      * apply serial_length in H; [|exact L]. cbn [length] in Hfull. lia.
Qed.

(* ------------------------------------------------------------------------------------------ *)
(** * the whole planner *)

(** structure of a returned plan: [n1] columns from the stock, then serial columns *)
Definition plan_ok (ideal : list (list Q)) (stock : Q) (vmax : list Q) (mt : Q) (p : dplan) (n1 : nat) : Prop :=
  dp_vmax p = vmax /\ length (dp_instr p) = length ideal /\ length (dp_x p) = length ideal /\
  length ideal <= length vmax /\ n1 <= length ideal /\
  (forall c, c < n1 ->
     stock_col stock mt (nth c ideal []) (nth c vmax 0%Q) (nth c (dp_instr p) dinstr) (nth c (dp_x p) []) c) /\
  (forall c, n1 <= c < length ideal ->
     serial_col mt (nth c ideal []) (nth c vmax 0%Q) (dp_instr p) (dp_x p) c) /\
  (n1 < length ideal -> vols_ok mt (stock_vols stock (nth n1 vmax 0%Q) (nth n1 ideal [])) = false).

Lemma plan_core_ok ideal stock vmax mt p :
  plan_core ideal stock vmax mt = Ok p -> exists n1, plan_ok ideal stock vmax mt p n1.
Proof.
  unfold plan_core. intro H.
  destruct (from_stock 0 ideal vmax stock mt) as [i1 x1] eqn:E1.
  destruct (serial (length i1) (skipn (length i1) ideal) (skipn (length i1) vmax) mt i1 x1)
    as [is xs] eqn:E2.
  destruct (length xs <? length ideal) eqn:E3; [discriminate|].
  apply Nat.ltb_ge in E3. inversion H; subst p; clear H.
  destruct (from_stock_spec _ _ _ _ _ _ _ E1) as (L1 & L2 & L3 & Hst & Hmax).
  destruct (serial_length _ _ _ _ _ _ _ _ E2 L1) as (M1 & M2 & M3 & M4).
  rewrite skipn_length in M3, M4.
  assert (Hlen : length is = length i1 + length (skipn (length i1) ideal)).
  { rewrite skipn_length. lia. }
  destruct (serial_spec _ _ _ _ _ _ _ _ E2 L1 eq_refl Hlen) as (Hkeep & Hnew).
  exists (length i1). unfold plan_ok. cbn [dp_vmax dp_instr dp_x].
  split; [reflexivity|]. split; [lia|]. split; [lia|]. split; [lia|]. split; [lia|]. split; [|split].
  - intros c Hc. destruct (Hkeep c Hc) as (Ha & Hb). rewrite Ha, Hb.
    apply (Hst c Hc).
  - intros c Hc. specialize (Hnew (c - length i1)). rewrite skipn_length in Hnew.
    rewrite !nth_skipn_add in Hnew. replace (length i1 + (c - length i1)) with c in Hnew by lia.
    apply Hnew. lia.
  - intro Hlt. apply Hmax; lia.
Qed.

Lemma plan_core_err ideal stock vmax mt e : plan_core ideal stock vmax mt = Err e -> e = EValue.
Proof.
  unfold plan_core. intro H.
  destruct (from_stock 0 ideal vmax stock mt) as [i1 x1].
  destruct (serial (length i1) (skipn (length i1) ideal) (skipn (length i1) vmax) mt i1 x1) as [is xs].
  destruct (length xs <? length ideal); [|discriminate]. now inversion H.
Qed.

Lemma dilution_plan_err sg mo C vmax ideal stock mt e :
  dilution_plan sg mo C vmax ideal stock mt = Err e -> e = EValue.
Proof.
  unfold dilution_plan. intro H.
  destruct (negb sg); [now inversion H|].
  destruct (negb (length match flattenF vmax with [x] => repeat x C | l => l end =? C));
    [now inversion H|].
  destruct (negb mo); [now inversion H|]. now apply plan_core_err in H.
Qed.
