(** Lemmas about the dilution-series planner [plan_core] / [dilution_plan] and the operations issued
    by [to_worklist] (C14). *)
From Robo Require Import Prelude Str Wells Utils Labware Tips Records Partition Params Worklist EvoCmd
  Program Dilution.
From Coq Require Import Lqa.

(* ------------------------------------------------------------------------------------------ *)
(** * list helpers *)

Lemma nth_map_lt {A B} (f : A -> B) (l : list A) (d : A) (d' : B) :
  forall r, r < length l -> nth r (map f l) d' = f (nth r l d).
Proof.
  induction l as [|a l IH]; intros r Hr; cbn [length] in Hr; [lia|].
  destruct r as [|r]; cbn [map nth]; [reflexivity|]. apply IH. lia.
Qed.

Lemma zip_len {A B} (l1 : list A) : forall (l2 : list B),
  length (zip l1 l2) = Nat.min (length l1) (length l2).
Proof.
  induction l1 as [|a l1 IH]; intros [|b l2]; cbn [zip length Nat.min]; try reflexivity.
  now rewrite IH.
Qed.

Lemma nth_zip {A B} (l1 : list A) (d1 : A) (d2 : B) : forall (l2 : list B) r,
  r < length l1 -> r < length l2 -> nth r (zip l1 l2) (d1, d2) = (nth r l1 d1, nth r l2 d2).
Proof.
  induction l1 as [|a l1 IH]; intros [|b l2] r H1 H2; cbn [length] in *; try lia.
  destruct r as [|r]; cbn [zip nth]; [reflexivity|]. apply IH; lia.
Qed.

Lemma forallb_nth {A} (f : A -> bool) (l : list A) (d : A) r :
  forallb f l = true -> r < length l -> f (nth r l d) = true.
Proof.
  intros H Hr. rewrite forallb_forall in H. apply H. now apply nth_In.
Qed.

Lemma nth_skipn_add {A} (d : A) : forall n (l : list A) j, nth j (skipn n l) d = nth (n + j) l d.
Proof.
  induction n as [|n IH]; intros l j; [reflexivity|].
  destruct l as [|a l]; cbn [skipn Nat.add nth]; [now destruct j|]. apply IH.
Qed.

Lemma nth_app_l {A} (l l' : list A) d j : j < length l -> nth j (l ++ l') d = nth j l d.
Proof. intro H. now apply app_nth1. Qed.

Lemma nth_app_here {A} (l : list A) a d : nth (length l) (l ++ [a]) d = a.
Proof. rewrite app_nth2 by lia. now rewrite Nat.sub_diag. Qed.

(* ------------------------------------------------------------------------------------------ *)
(** * the pieces of the planner, named *)

Definition dinstr : instr := {| i_col := 0; i_steps := 0; i_src := None; i_vols := [] |}.

(** all volumes reach min_transfer *)
Definition vols_ok (mt : Q) (vt : list Z) : bool := forallb (fun v => Qgeb (inject_Z v) mt) vt.
(** volumes / achieved concentrations of a column prepared from the stock *)
Definition stock_vols (stock vm : Q) (col : list Q) : list Z := map (fun x => Qrint (vm * x / stock)%Q) col.
Definition stock_x (stock vm : Q) (vt : list Z) : list Q := map (fun v => Qred (inject_Z v / vm * stock)%Q) vt.
(** volumes / achieved concentrations of a column diluted from a column with concentrations [x] *)
Definition serial_vols (vm : Q) (col x : list Q) : list Z :=
  map (fun p => Qceiling (vm * fst p / snd p)%Q) (zip col x).
Definition serial_x (vm : Q) (vt : list Z) (x : list Q) : list Q :=
  map (fun p => Qred (inject_Z (fst p) * snd p / vm)%Q) (zip vt x).

Lemma from_stock_cons c col rest vm vrest stock mt :
  from_stock c (col :: rest) (vm :: vrest) stock mt =
  if vols_ok mt (stock_vols stock vm col) then
    let '(is, xs) := from_stock (S c) rest vrest stock mt in
    ({| i_col := c; i_steps := 0; i_src := None; i_vols := stock_vols stock vm col |} :: is,
     stock_x stock vm (stock_vols stock vm col) :: xs)
  else ([], []).
Proof. reflexivity. Qed.

Lemma find_source_cons k i irest x xrest col vm mt :
  find_source k (i :: irest) (x :: xrest) col vm mt =
  if vols_ok mt (serial_vols vm col x) then Some (k, i_steps i, serial_vols vm col x)
  else find_source (S k) irest xrest col vm mt.
Proof. reflexivity. Qed.

Lemma serial_cons c col rest vm vrest mt instrs xs :
  serial c (col :: rest) (vm :: vrest) mt instrs xs =
  match find_source 0 instrs xs col vm mt with
  | Some (k, steps, vt) =>
      serial (S c) rest vrest mt
        (instrs ++ [{| i_col := c; i_steps := S steps; i_src := Some k; i_vols := vt |}])
        (xs ++ [serial_x vm vt (nth k xs [])])
  | None => serial (S c) rest vrest mt instrs xs
  end.
Proof. reflexivity. Qed.

(** what the plan says about a column prepared from the stock ... *)
Definition stock_col (stock mt : Q) (col : list Q) (vm : Q) (i : instr) (x : list Q) (c : nat) : Prop :=
  i_col i = c /\ i_steps i = 0 /\ i_src i = None /\
  i_vols i = stock_vols stock vm col /\ vols_ok mt (i_vols i) = true /\
  x = stock_x stock vm (i_vols i).

(** ... and about a column prepared by serial dilution: the source [k] is an earlier column, the
    leftmost one all of whose volumes reach min_transfer *)
Definition serial_col (mt : Q) (col : list Q) (vm : Q) (is : list instr) (xs : list (list Q)) (c : nat) : Prop :=
  i_col (nth c is dinstr) = c /\ vols_ok mt (i_vols (nth c is dinstr)) = true /\
  exists k, k < c /\ i_src (nth c is dinstr) = Some k /\
    i_steps (nth c is dinstr) = S (i_steps (nth k is dinstr)) /\
    i_vols (nth c is dinstr) = serial_vols vm col (nth k xs []) /\
    nth c xs [] = serial_x vm (i_vols (nth c is dinstr)) (nth k xs []) /\
    forall k', k' < k -> vols_ok mt (serial_vols vm col (nth k' xs [])) = false.

(* ------------------------------------------------------------------------------------------ *)
(** * stage 1 *)

Lemma from_stock_spec : forall cols vms c stock mt is xs,
  from_stock c cols vms stock mt = (is, xs) ->
  length xs = length is /\ length is <= length cols /\ length is <= length vms /\
  (forall j, j < length is ->
     stock_col stock mt (nth j cols []) (nth j vms 0%Q) (nth j is dinstr) (nth j xs []) (c + j)) /\
  (length is < length cols -> length is < length vms ->
     vols_ok mt (stock_vols stock (nth (length is) vms 0%Q) (nth (length is) cols [])) = false).
Proof.
  induction cols as [|col rest IH]; intros vms c stock mt is xs H.
  - cbn in H. inversion H; subst is xs. cbn [length].
    split; [reflexivity|]. split; [lia|]. split; [lia|]. split; [intros j Hj; lia|intros H1; lia].
  - destruct vms as [|vm vrest].
    + cbn in H. inversion H; subst is xs. cbn [length].
      split; [reflexivity|]. split; [lia|]. split; [lia|]. split; [intros j Hj; lia|intros H1 H2; lia].
    + rewrite from_stock_cons in H.
      destruct (vols_ok mt (stock_vols stock vm col)) eqn:E.
      * destruct (from_stock (S c) rest vrest stock mt) as [is0 xs0] eqn:E0.
        inversion H; subst is xs; clear H.
        destruct (IH _ _ _ _ _ _ E0) as (L1 & L2 & L3 & Hall & Hmax).
        cbn [length]. split; [lia|]. split; [lia|]. split; [lia|]. split.
        -- intros [|j] Hj; cbn [nth].
           ++ unfold stock_col. cbn [i_col i_steps i_src i_vols]. rewrite Nat.add_0_r.
              repeat split; assumption.
           ++ replace (c + S j) with (S c + j) by lia. apply Hall. lia.
        -- intros H1 H2. cbn [nth]. apply Hmax; lia.
      * inversion H; subst is xs. cbn [length nth].
        split; [reflexivity|]. split; [lia|]. split; [lia|]. split; [intros j Hj; lia|].
        intros _ _. exact E.
Qed.

(* ------------------------------------------------------------------------------------------ *)
(** * stage 2 *)

Lemma find_source_spec : forall instrs xs k0 col vm mt k steps vt,
  find_source k0 instrs xs col vm mt = Some (k, steps, vt) ->
  exists k', k = k0 + k' /\ k' < length instrs /\ k' < length xs /\
    steps = i_steps (nth k' instrs dinstr) /\ vt = serial_vols vm col (nth k' xs []) /\
    vols_ok mt vt = true /\
    forall k'', k'' < k' -> vols_ok mt (serial_vols vm col (nth k'' xs [])) = false.
Proof.
  induction instrs as [|i irest IH]; intros xs k0 col vm mt k steps vt H.
  - cbn in H. discriminate.
  - destruct xs as [|x xrest]; [cbn in H; discriminate|].
    rewrite find_source_cons in H.
    destruct (vols_ok mt (serial_vols vm col x)) eqn:E.
    + inversion H; subst k steps vt. exists 0. cbn [length nth].
      split; [lia|]. split; [lia|]. split; [lia|]. split; [reflexivity|]. split; [reflexivity|].
      split; [exact E|]. intros k'' Hk. lia.
    + destruct (IH _ _ _ _ _ _ _ _ H) as (k' & Hk & L1 & L2 & Hs & Hv & Hok & Hleft).
      exists (S k'). cbn [length nth].
      split; [lia|]. split; [lia|]. split; [lia|]. split; [exact Hs|]. split; [exact Hv|].
      split; [exact Hok|]. intros [|k''] Hlt; [exact E|]. apply Hleft. lia.
Qed.

(** lengths: at most one new column per input column *)
Lemma serial_length : forall cols vms c mt instrs xs is' xs',
  serial c cols vms mt instrs xs = (is', xs') -> length xs = length instrs ->
  length xs' = length is' /\ length instrs <= length is' /\
  length is' <= length instrs + length cols /\ length is' <= length instrs + length vms.
Proof.
  induction cols as [|col rest IH]; intros vms c mt instrs xs is' xs' H L.
  - cbn in H. inversion H; subst is' xs'. cbn [length]. lia.
  - destruct vms as [|vm vrest].
    + cbn in H. inversion H; subst is' xs'. cbn [length]. lia.
    + rewrite serial_cons in H.
      destruct (find_source 0 instrs xs col vm mt) as [[[k steps] vt]|] eqn:E.
      * apply IH in H; [|rewrite !app_length; cbn [length]; lia].
        rewrite app_length in H. cbn [length] in *. lia.
      * apply IH in H; [|exact L]. cbn [length]. lia.
Qed.

(** if no column was skipped, the accumulated columns are kept and every new column is a
    well-formed serial column *)
Lemma serial_spec : forall cols vms c mt instrs xs is' xs',
  serial c cols vms mt instrs xs = (is', xs') -> length xs = length instrs -> c = length instrs ->
  length is' = c + length cols ->
  (forall j, j < c -> nth j is' dinstr = nth j instrs dinstr /\ nth j xs' [] = nth j xs []) /\
  (forall j, j < length cols -> serial_col mt (nth j cols []) (nth j vms 0%Q) is' xs' (c + j)).
Proof.
  induction cols as [|col rest IH]; intros vms c mt instrs xs is' xs' H L Hc Hfull.
  - cbn in H. inversion H; subst is' xs'. split; [intros j Hj; split; reflexivity|].
    intros j Hj. cbn [length] in Hj. lia.
  - destruct vms as [|vm vrest].
    + cbn in H. inversion H; subst is' xs'. cbn [length] in Hfull. lia.
    + rewrite serial_cons in H.
      destruct (find_source 0 instrs xs col vm mt) as [[[k steps] vt]|] eqn:E.
      * apply find_source_spec in E.
        destruct E as (k' & Hk & K1 & K2 & Hs & Hv & Hok & Hleft). cbn [Nat.add] in Hk. subst k'.
        apply IH in H.
        -- destruct H as (Hkeep & Hnew). split.
           ++ intros j Hj. destruct (Hkeep j ltac:(lia)) as (Ha & Hb).
              rewrite Ha, Hb. rewrite !nth_app_l by lia. split; reflexivity.
           ++ intros [|j] Hj; cbn [nth].
              ** rewrite Nat.add_0_r.
                 destruct (Hkeep c ltac:(lia)) as (Ha & Hb).
                 destruct (Hkeep k ltac:(lia)) as (Hka & Hkb).
                 assert (Hxk : nth k xs' [] = nth k xs []).
                 { rewrite Hkb. apply nth_app_l. lia. }
                 assert (Hik : nth k is' dinstr = nth k instrs dinstr).
                 { rewrite Hka. apply nth_app_l. lia. }
                 assert (Hic : nth c is' dinstr =
                               {| i_col := c; i_steps := S steps; i_src := Some k; i_vols := vt |}).
                 { rewrite Ha. subst c. apply nth_app_here. }
                 assert (Hxc : nth c xs' [] = serial_x vm vt (nth k xs [])).
                 { rewrite Hb. subst c. rewrite <- L. apply nth_app_here. }
                 unfold serial_col. rewrite Hic, Hxc. cbn [i_col i_steps i_src i_vols].
                 split; [reflexivity|]. split; [exact Hok|].
                 exists k. rewrite Hik, Hxk. split; [lia|]. split; [reflexivity|]. split; [now rewrite Hs|].
                 split; [exact Hv|]. split; [reflexivity|].
                 intros k'' Hlt. destruct (Hkeep k'' ltac:(lia)) as (_ & Hx'').
                 rewrite Hx''. rewrite nth_app_l by lia. now apply Hleft.
              ** replace (c + S j) with (S c + j) by lia. apply Hnew. cbn [length] in Hj. lia.
        -- rewrite !app_length. cbn [length]. lia.
        -- rewrite app_length. cbn [length]. lia.
        -- cbn [length] in Hfull. lia.
      * apply serial_length in H; [|exact L]. cbn [length] in Hfull. lia.
Qed.

(* ------------------------------------------------------------------------------------------ *)
(** * the whole planner *)

(** structure of a returned plan: [n1] columns from the stock, then serial columns *)
Definition plan_ok (ideal : list (list Q)) (stock : Q) (vmax : list Q) (mt : Q) (p : dplan) (n1 : nat) : Prop :=
  dp_vmax p = vmax /\ length (dp_instr p) = length ideal /\ length (dp_x p) = length ideal /\
  length ideal <= length vmax /\ n1 <= length ideal /\
  (forall c, c < n1 ->
     stock_col stock mt (nth c ideal []) (nth c vmax 0%Q) (nth c (dp_instr p) dinstr) (nth c (dp_x p) []) c) /\
  (forall c, n1 <= c < length ideal ->
     serial_col mt (nth c ideal []) (nth c vmax 0%Q) (dp_instr p) (dp_x p) c) /\
  (n1 < length ideal -> vols_ok mt (stock_vols stock (nth n1 vmax 0%Q) (nth n1 ideal [])) = false).

Lemma plan_core_ok ideal stock vmax mt p :
  plan_core ideal stock vmax mt = Ok p -> exists n1, plan_ok ideal stock vmax mt p n1.
Proof.
  unfold plan_core. intro H.
  destruct (from_stock 0 ideal vmax stock mt) as [i1 x1] eqn:E1.
  destruct (serial (length i1) (skipn (length i1) ideal) (skipn (length i1) vmax) mt i1 x1)
    as [is xs] eqn:E2.
  destruct (length xs <? length ideal) eqn:E3; [discriminate|].
  apply Nat.ltb_ge in E3. inversion H; subst p; clear H.
  destruct (from_stock_spec _ _ _ _ _ _ _ E1) as (L1 & L2 & L3 & Hst & Hmax).
  destruct (serial_length _ _ _ _ _ _ _ _ E2 L1) as (M1 & M2 & M3 & M4).
  rewrite skipn_length in M3, M4.
  assert (Hlen : length is = length i1 + length (skipn (length i1) ideal)).
  { rewrite skipn_length. lia. }
  destruct (serial_spec _ _ _ _ _ _ _ _ E2 L1 eq_refl Hlen) as (Hkeep & Hnew).
  exists (length i1). unfold plan_ok. cbn [dp_vmax dp_instr dp_x].
  split; [reflexivity|]. split; [lia|]. split; [lia|]. split; [lia|]. split; [lia|]. split; [|split].
  - intros c Hc. destruct (Hkeep c Hc) as (Ha & Hb). rewrite Ha, Hb.
    apply (Hst c Hc).
  - intros c Hc. specialize (Hnew (c - length i1)). rewrite skipn_length in Hnew.
    rewrite !nth_skipn_add in Hnew. replace (length i1 + (c - length i1)) with c in Hnew by lia.
    apply Hnew. lia.
  - intro Hlt. apply Hmax; lia.
Qed.

Lemma plan_core_err ideal stock vmax mt e : plan_core ideal stock vmax mt = Err e -> e = EValue.
Proof.
  unfold plan_core. intro H.
  destruct (from_stock 0 ideal vmax stock mt) as [i1 x1].
  destruct (serial (length i1) (skipn (length i1) ideal) (skipn (length i1) vmax) mt i1 x1) as [is xs].
  destruct (length xs <? length ideal); [|discriminate]. now inversion H.
Qed.

Lemma dilution_plan_err sg mo C vmax ideal stock mt e :
  dilution_plan sg mo C vmax ideal stock mt = Err e -> e = EValue.
Proof.
  unfold dilution_plan. intro H.
  destruct (negb sg); [now inversion H|].
  destruct (negb (length match flattenF vmax with [x] => repeat x C | l => l end =? C));
    [now inversion H|].
  destruct (negb mo); [now inversion H|]. now apply plan_core_err in H.
Qed.

(* ------------------------------------------------------------------------------------------ *)
(** * pointwise view of a plan *)

(** planned volume / reported concentration / target of well (r, c); source and steps of column c *)
Definition pvol (p : dplan) (c r : nat) : Z := nth r (i_vols (nth c (dp_instr p) dinstr)) 0%Z.
Definition pconc (p : dplan) (c r : nat) : Q := nth r (nth c (dp_x p) []) 0%Q.
Definition ptarget (ideal : list (list Q)) (c r : nat) : Q := nth r (nth c ideal []) 0%Q.
Definition psrc (p : dplan) (c : nat) : option nat := i_src (nth c (dp_instr p) dinstr).
Definition psteps (p : dplan) (c : nat) : nat := i_steps (nth c (dp_instr p) dinstr).

Lemma plan_lengths ideal stock vmax mt p n1 R :
  plan_ok ideal stock vmax mt p n1 -> Forall (fun col => length col = R) ideal ->
  forall c, c < length ideal ->
  length (i_vols (nth c (dp_instr p) dinstr)) = R /\ length (nth c (dp_x p) []) = R.
Proof.
  intros (Hv & L1 & L2 & L3 & Hn & Hst & Hser & _) Hrect c.
  induction c as [c IH] using lt_wf_ind. intro Hc.
  assert (Hcol : length (nth c ideal []) = R).
  { apply (proj1 (Forall_nth _ ideal) Hrect c [] Hc). }
  destruct (Nat.lt_ge_cases c n1) as [Hlt|Hge].
  - destruct (Hst c Hlt) as (_ & _ & _ & Hvol & _ & Hx). rewrite Hx, Hvol.
    unfold stock_x, stock_vols. rewrite !map_length. split; exact Hcol.
  - destruct (Hser c (conj Hge Hc)) as (_ & _ & k & Hk & _ & _ & Hvol & Hx & _).
    destruct (IH k Hk ltac:(lia)) as (_ & Lk).
    rewrite Hx, Hvol. unfold serial_x, serial_vols.
    rewrite !map_length, !zip_len, !map_length, !zip_len, Lk, Hcol. lia.
Qed.

Section Pointwise.
Local Open Scope Q_scope.

Lemma plan_pointwise ideal stock vmax mt p n1 R :
  plan_ok ideal stock vmax mt p n1 -> Forall (fun col => length col = R) ideal ->
  forall c r, (c < length ideal)%nat -> (r < R)%nat ->
  mt <= inject_Z (pvol p c r) /\
  (((c < n1)%nat /\ psrc p c = None /\ psteps p c = 0%nat /\
     pvol p c r = Qrint (nth c vmax 0 * ptarget ideal c r / stock) /\
     pconc p c r == inject_Z (pvol p c r) / nth c vmax 0 * stock) \/
   ((n1 <= c)%nat /\ exists k, (k < c)%nat /\ psrc p c = Some k /\ psteps p c = S (psteps p k) /\
     pvol p c r = Qceiling (nth c vmax 0 * ptarget ideal c r / pconc p k r) /\
     pconc p c r == inject_Z (pvol p c r) * pconc p k r / nth c vmax 0)).
Proof.
  intros Hok Hrect c r Hc Hr.
  pose proof (plan_lengths _ _ _ _ _ _ _ Hok Hrect) as Hlen.
  destruct Hok as (Hv & L1 & L2 & L3 & Hn & Hst & Hser & _).
  destruct (Hlen c Hc) as (Lv & Lx).
  assert (Hcol : length (nth c ideal []) = R).
  { apply (proj1 (Forall_nth _ ideal) Hrect c [] Hc). }
  destruct (Nat.lt_ge_cases c n1) as [Hlt|Hge].
  - destruct (Hst c Hlt) as (_ & Hs0 & Hsrc & Hvol & Hvok & Hx). split.
    { apply Qle_bool_iff. apply (forallb_nth _ _ 0%Z r) in Hvok; [exact Hvok|lia]. }
    left. split; [exact Hlt|]. split; [exact Hsrc|]. split; [exact Hs0|]. split.
    + unfold pvol, ptarget. rewrite Hvol. unfold stock_vols.
      rewrite (nth_map_lt _ _ 0) by lia. reflexivity.
    + unfold pconc. rewrite Hx. unfold stock_x.
      rewrite (nth_map_lt _ _ 0%Z) by lia. apply Qred_correct.
  - destruct (Hser c (conj Hge Hc)) as (_ & Hvok & k & Hk & Hsrc & Hsteps & Hvol & Hx & _).
    destruct (Hlen k ltac:(lia)) as (_ & Lxk). split.
    { apply Qle_bool_iff. apply (forallb_nth _ _ 0%Z r) in Hvok; [exact Hvok|lia]. }
    right. split; [exact Hge|]. exists k.
    split; [exact Hk|]. split; [exact Hsrc|]. split; [exact Hsteps|]. split.
    + unfold pvol, ptarget, pconc. rewrite Hvol. unfold serial_vols.
      rewrite (nth_map_lt _ _ (0, 0)) by (rewrite zip_len; lia).
      rewrite nth_zip by lia. reflexivity.
    + unfold pconc at 1. rewrite Hx. unfold serial_x.
      rewrite (nth_map_lt _ _ (0%Z, 0)) by (rewrite zip_len; lia).
      rewrite nth_zip by lia. apply Qred_correct.
Qed.

End Pointwise.

(* ------------------------------------------------------------------------------------------ *)
(** * C14: the planner *)

Lemma c14_complete ideal stock vmax mt :
  (forall p, plan_core ideal stock vmax mt = Ok p ->
     dp_vmax p = vmax /\ length (dp_instr p) = length ideal /\ length (dp_x p) = length ideal /\
     length ideal <= length vmax /\
     forall c, c < length ideal -> i_col (nth c (dp_instr p) dinstr) = c) /\
  (forall e, plan_core ideal stock vmax mt = Err e -> e = EValue).
Proof.
  split; [|intros e; apply plan_core_err].
  intros p H. destruct (plan_core_ok _ _ _ _ _ H) as (n1 & Hv & L1 & L2 & L3 & Hn & Hst & Hser & _).
  split; [exact Hv|]. split; [exact L1|]. split; [exact L2|]. split; [exact L3|].
  intros c Hc. destruct (Nat.lt_ge_cases c n1) as [Hlt|Hge].
  - now destruct (Hst c Hlt) as (Hcol & _).
  - now destruct (Hser c (conj Hge Hc)) as (Hcol & _).
Qed.

Lemma c14_shape ideal stock vmax mt p R :
  plan_core ideal stock vmax mt = Ok p -> Forall (fun col => length col = R) ideal ->
  forall c, c < length ideal ->
  length (i_vols (nth c (dp_instr p) dinstr)) = R /\ length (nth c (dp_x p) []) = R.
Proof.
  intros H Hrect. destruct (plan_core_ok _ _ _ _ _ H) as (n1 & Hok).
  exact (plan_lengths _ _ _ _ _ _ _ Hok Hrect).
Qed.

Lemma c14_order ideal stock vmax mt p :
  plan_core ideal stock vmax mt = Ok p ->
  exists n1, n1 <= length ideal /\
  forall c, c < length ideal ->
    (c < n1 /\ psrc p c = None /\ psteps p c = 0) \/
    (n1 <= c /\ exists k, k < c /\ psrc p c = Some k /\ psteps p c = S (psteps p k)).
Proof.
  intro H. destruct (plan_core_ok _ _ _ _ _ H) as (n1 & Hv & L1 & L2 & L3 & Hn & Hst & Hser & _).
  exists n1. split; [exact Hn|]. intros c Hc.
  destruct (Nat.lt_ge_cases c n1) as [Hlt|Hge].
  - left. destruct (Hst c Hlt) as (_ & Hs0 & Hsrc & _). now split.
  - right. destruct (Hser c (conj Hge Hc)) as (_ & _ & k & Hk & Hsrc & Hsteps & _).
    split; [exact Hge|]. exists k. now split.
Qed.

Section PlannerQ.
Local Open Scope Q_scope.

Lemma Qrint_bounds q : q - (1#2) <= inject_Z (Qrint q) /\ inject_Z (Qrint q) <= q + (1#2).
Proof.
  unfold Qrint. pose proof (Qfloor_le q) as H1. pose proof (Qlt_floor q) as H2.
  rewrite inject_Z_plus in H2. change (inject_Z 1) with 1 in H2.
  destruct (Qcompare (q - inject_Z (Qfloor q)) (1#2)) eqn:E.
  - apply Qeq_alt in E. destruct (Z.even (Qfloor q)).
    + lra.
    + rewrite inject_Z_plus. change (inject_Z 1) with 1. lra.
  - apply Qlt_alt in E. lra.
  - apply Qgt_alt in E. rewrite inject_Z_plus. change (inject_Z 1) with 1. lra.
Qed.

Lemma Qceiling_bounds q : q <= inject_Z (Qceiling q) /\ inject_Z (Qceiling q) < q + 1.
Proof.
  split; [apply Qle_ceiling|].
  pose proof (Qceiling_lt q) as H.
  replace (Qceiling q - 1)%Z with (Qceiling q + (-1))%Z in H by lia.
  rewrite inject_Z_plus in H. change (inject_Z (-1)) with (-1 # 1) in H. lra.
Qed.

Lemma Z_le_of_Q_half (v n : Z) : inject_Z v <= inject_Z n + (1#2) -> (v <= n)%Z.
Proof.
  intro H. assert (H' : inject_Z v < inject_Z (n + 1)).
  { rewrite inject_Z_plus. change (inject_Z 1) with 1. lra. }
  rewrite <- Zlt_Qlt in H'. lia.
Qed.

Lemma Z_le_of_Q_lt1 (v n : Z) : inject_Z v < inject_Z n + 1 -> (v <= n)%Z.
Proof.
  intro H. assert (H' : inject_Z v < inject_Z (n + 1)).
  { rewrite inject_Z_plus. change (inject_Z 1) with 1. lra. }
  rewrite <- Zlt_Qlt in H'. lia.
Qed.

Lemma div_le_self vm t s : 0 <= vm -> 0 < s -> t <= s -> vm * t / s <= vm.
Proof. intros Hvm Hs Ht. apply Qle_shift_div_r; [exact Hs|]. nra. Qed.

Lemma vmax_pos_nth (vmax : list Q) c : Forall (fun v => 0 < v) vmax -> (c < length vmax)%nat -> 0 < nth c vmax 0.
Proof. intros H Hc. apply (proj1 (Forall_nth _ vmax) H c 0 Hc). Qed.

Variables (ideal : list (list Q)) (stock : Q) (vmax : list Q) (mt : Q) (p : dplan) (R : nat).
Hypothesis Hplan : plan_core ideal stock vmax mt = Ok p.
Hypothesis Hrect : Forall (fun col => length col = R) ideal.

Lemma c14_whole_min c r : (c < length ideal)%nat -> (r < R)%nat -> mt <= inject_Z (pvol p c r).
Proof.
  intros Hc Hr. destruct (plan_core_ok _ _ _ _ _ Hplan) as (n1 & Hok).
  now destruct (plan_pointwise _ _ _ _ _ _ _ Hok Hrect c r Hc Hr) as (Hmin & _).
Qed.

(** the reported concentrations are the ones implied by the instructions *)
Lemma c14_x c r : (c < length ideal)%nat -> (r < R)%nat ->
  match psrc p c with
  | None => pconc p c r == inject_Z (pvol p c r) / nth c vmax 0 * stock
  | Some k => (k < c)%nat /\ pconc p c r == inject_Z (pvol p c r) * pconc p k r / nth c vmax 0
  end.
Proof.
  intros Hc Hr. destruct (plan_core_ok _ _ _ _ _ Hplan) as (n1 & Hok).
  destruct (plan_pointwise _ _ _ _ _ _ _ Hok Hrect c r Hc Hr)
    as (_ & [(_ & Hsrc & _ & _ & Hx)|(_ & k & Hk & Hsrc & _ & _ & Hx)]); rewrite Hsrc.
  - exact Hx.
  - split; [exact Hk|exact Hx].
Qed.

(** all reported concentrations are positive *)
Lemma c14_x_pos : 0 < mt -> 0 < stock -> Forall (fun v => 0 < v) vmax ->
  forall c r, (c < length ideal)%nat -> (r < R)%nat -> 0 < pconc p c r.
Proof.
  intros Hmt Hstock Hvm c. induction c as [c IH] using lt_wf_ind. intros r Hc Hr.
  destruct (plan_core_ok _ _ _ _ _ Hplan) as (n1 & Hok).
  assert (Hvc : 0 < nth c vmax 0).
  { apply vmax_pos_nth; [exact Hvm|]. destruct Hok as (_ & _ & _ & L3 & _). lia. }
  destruct (plan_pointwise _ _ _ _ _ _ _ Hok Hrect c r Hc Hr)
    as (Hmin & [(_ & _ & _ & _ & Hx)|(_ & k & Hk & _ & _ & _ & Hx)]); rewrite Hx.
  - apply Qmult_lt_0_compat; [|exact Hstock]. apply Qlt_shift_div_l; [exact Hvc|]. lra.
  - pose proof (IH k Hk r ltac:(lia) Hr) as Hxk.
    apply Qlt_shift_div_l; [exact Hvc|]. rewrite Qmult_0_l.
    apply Qmult_lt_0_compat; [lra|exact Hxk].
Qed.

(** the plan is within rounding of the ideal table *)
Lemma c14_near_target : 0 < mt -> 0 < stock -> Forall (fun v => 0 < v) vmax ->
  forall c r, (c < length ideal)%nat -> (r < R)%nat ->
  match psrc p c with
  | None => Qabs (inject_Z (pvol p c r) - nth c vmax 0 * ptarget ideal c r / stock) <= 1#2
  | Some k => (k < c)%nat /\ 0 < pconc p k r /\
      0 <= inject_Z (pvol p c r) - nth c vmax 0 * ptarget ideal c r / pconc p k r /\
      inject_Z (pvol p c r) - nth c vmax 0 * ptarget ideal c r / pconc p k r < 1
  end.
Proof.
  intros Hmt Hstock Hvm c r Hc Hr. destruct (plan_core_ok _ _ _ _ _ Hplan) as (n1 & Hok).
  destruct (plan_pointwise _ _ _ _ _ _ _ Hok Hrect c r Hc Hr)
    as (_ & [(_ & Hsrc & _ & Hv & _)|(_ & k & Hk & Hsrc & _ & Hv & _)]); rewrite Hsrc.
  - rewrite Hv. apply Qabs_Qle_condition.
    destruct (Qrint_bounds (nth c vmax 0 * ptarget ideal c r / stock)) as (H1 & H2). split; lra.
  - split; [exact Hk|]. split; [apply c14_x_pos; try assumption; lia|].
    rewrite Hv. destruct (Qceiling_bounds (nth c vmax 0 * ptarget ideal c r / pconc p k r)) as (H1 & H2).
    split; lra.
Qed.

(** what holds instead of [v <= vmax] *)
Lemma c14_vmax_partial : 0 < mt -> 0 < stock -> Forall (fun v => 0 < v) vmax ->
  forall c r, (c < length ideal)%nat -> (r < R)%nat ->
  match psrc p c with
  | None =>
      inject_Z (pvol p c r) <= nth c vmax 0 * ptarget ideal c r / stock + (1#2) /\
      forall n : Z, nth c vmax 0 == inject_Z n -> ptarget ideal c r <= stock -> (pvol p c r <= n)%Z
  | Some k =>
      (k < c)%nat /\
      inject_Z (pvol p c r) < nth c vmax 0 * ptarget ideal c r / pconc p k r + 1 /\
      forall n : Z, nth c vmax 0 == inject_Z n -> ptarget ideal c r <= pconc p k r -> (pvol p c r <= n)%Z
  end.
Proof.
  intros Hmt Hstock Hvm c r Hc Hr. destruct (plan_core_ok _ _ _ _ _ Hplan) as (n1 & Hok).
  assert (Hvc : 0 < nth c vmax 0).
  { apply vmax_pos_nth; [exact Hvm|]. destruct Hok as (_ & _ & _ & L3 & _). lia. }
  destruct (plan_pointwise _ _ _ _ _ _ _ Hok Hrect c r Hc Hr)
    as (_ & [(_ & Hsrc & _ & Hv & _)|(_ & k & Hk & Hsrc & _ & Hv & _)]); rewrite Hsrc.
  - destruct (Qrint_bounds (nth c vmax 0 * ptarget ideal c r / stock)) as (H1 & H2).
    rewrite <- Hv in H1, H2. split; [exact H2|].
    intros n Hn Ht. apply Z_le_of_Q_half.
    pose proof (div_le_self (nth c vmax 0) (ptarget ideal c r) stock ltac:(lra) Hstock Ht) as H3. lra.
  - assert (Hxk : 0 < pconc p k r) by (apply c14_x_pos; try assumption; lia).
    destruct (Qceiling_bounds (nth c vmax 0 * ptarget ideal c r / pconc p k r)) as (H1 & H2).
    rewrite <- Hv in H1, H2. split; [exact Hk|]. split; [exact H2|].
    intros n Hn Ht. apply Z_le_of_Q_lt1.
    pose proof (div_le_self (nth c vmax 0) (ptarget ideal c r) (pconc p k r) ltac:(lra) Hxk Ht) as H3. lra.
Qed.

End PlannerQ.

(* ------------------------------------------------------------------------------------------ *)
(** * v_stock, v_diluent *)

Definition Zsum (l : list Z) : Z := fold_right Z.add 0%Z l.
(** column prepared directly from the stock *)
Definition stock_prepared (i : instr) : bool := match i_src i with None => true | Some _ => false end.
(** all volumes of the plan / of the stock-prepared columns *)
Definition all_vols (p : dplan) : list Z := concat (map i_vols (dp_instr p)).
Definition stock_vols_of (p : dplan) : list Z := concat (map i_vols (filter stock_prepared (dp_instr p))).

Lemma Zsum_app l1 l2 : Zsum (l1 ++ l2) = (Zsum l1 + Zsum l2)%Z.
Proof.
  induction l1 as [|x l1 IH]; unfold Zsum in *; cbn [app fold_right]; [reflexivity|]. rewrite IH. lia.
Qed.

Lemma v_stock_filter_gen (l : list instr) :
  (forall i, In i l -> (i_steps i =? 0) = stock_prepared i) ->
  fold_right (fun i acc => if i_steps i =? 0 then (fold_right Z.add 0 (i_vols i) + acc)%Z else acc) 0%Z l
  = Zsum (concat (map i_vols (filter stock_prepared l))).
Proof.
  induction l as [|i l IH]; intro H; [reflexivity|].
  cbn [fold_right filter]. rewrite (H i (or_introl eq_refl)).
  rewrite IH by (intros j Hj; apply H; now right).
  destruct (stock_prepared i); [|reflexivity].
  cbn [map concat]. rewrite Zsum_app. reflexivity.
Qed.

Lemma plan_instr_nth ideal stock vmax mt p i :
  plan_core ideal stock vmax mt = Ok p -> In i (dp_instr p) ->
  exists c, c < length ideal /\ nth c (dp_instr p) dinstr = i /\ i_col i = c.
Proof.
  intros H Hi. destruct (proj1 (c14_complete ideal stock vmax mt) p H) as (_ & L1 & _ & _ & Hcol).
  destruct (In_nth _ _ dinstr Hi) as (c & Hc & Hn). exists c. rewrite L1 in Hc.
  split; [exact Hc|]. split; [exact Hn|]. rewrite <- Hn. now apply Hcol.
Qed.

Lemma c14_v_stock ideal stock vmax mt p :
  plan_core ideal stock vmax mt = Ok p -> v_stock p = Zsum (stock_vols_of p).
Proof.
  intro H. unfold v_stock, stock_vols_of. apply v_stock_filter_gen. intros i Hi.
  destruct (plan_instr_nth _ _ _ _ _ _ H Hi) as (c & Hc & Hn & _).
  destruct (c14_order _ _ _ _ _ H) as (n1 & _ & Hord).
  unfold stock_prepared.
  destruct (Hord c Hc) as [(_ & Hsrc & Hst)|(_ & k & _ & Hsrc & Hst)];
    unfold psrc, psteps in Hsrc, Hst; rewrite Hn in Hsrc, Hst; rewrite Hsrc, Hst; reflexivity.
Qed.

(** every planned volume reaches min_transfer (no assumption on the shape of [ideal]) *)
Lemma plan_vols_min ideal stock vmax mt p :
  plan_core ideal stock vmax mt = Ok p ->
  forall i v, In i (dp_instr p) -> In v (i_vols i) -> (mt <= inject_Z v)%Q.
Proof.
  intros H i v Hi Hv. destruct (plan_instr_nth _ _ _ _ _ _ H Hi) as (c & Hc & Hn & _).
  destruct (plan_core_ok _ _ _ _ _ H) as (n1 & _ & _ & _ & _ & _ & Hst & Hser & _).
  assert (Hok : vols_ok mt (i_vols i) = true).
  { destruct (Nat.lt_ge_cases c n1) as [Hlt|Hge].
    - destruct (Hst c Hlt) as (_ & _ & _ & _ & Hok & _). now rewrite Hn in Hok.
    - destruct (Hser c (conj Hge Hc)) as (_ & Hok & _). now rewrite Hn in Hok. }
  unfold vols_ok in Hok. rewrite forallb_forall in Hok. apply Qle_bool_iff. exact (Hok v Hv).
Qed.

Section Sums.
Local Open Scope Q_scope.

Lemma Qsum_cons x l : Qsum (x :: l) == x + Qsum l.
Proof. unfold Qsum. cbn [fold_right]. reflexivity. Qed.

Lemma Qsum_scale (k : Q) l : Qsum (map (fun v => k * v) l) == k * Qsum l.
Proof.
  induction l as [|x l IH]; [unfold Qsum; cbn [map fold_right]; ring|].
  cbn [map]. rewrite !Qsum_cons, IH. ring.
Qed.

Lemma c14_v_diluent (R : nat) (p : dplan) :
  v_diluent R p == inject_Z (Z.of_nat R) * Qsum (dp_vmax p) - inject_Z (v_stock p).
Proof. unfold v_diluent. rewrite Qsum_scale. reflexivity. Qed.

End Sums.

(* ------------------------------------------------------------------------------------------ *)
(** * the planner is greedy: stock as long as possible, then the leftmost usable source *)

Lemma forallb_false_nth {A} (f : A -> bool) (d : A) (l : list A) :
  forallb f l = false -> exists r, r < length l /\ f (nth r l d) = false.
Proof.
  induction l as [|x l IH]; intro H; cbn [forallb] in H; [discriminate|].
  destruct (f x) eqn:E.
  - destruct (IH H) as (r & Hr & Hf). exists (S r). cbn [length nth]. split; [lia|exact Hf].
  - exists 0. cbn [length nth]. split; [lia|exact E].
Qed.

Lemma Qgeb_false a b : Qgeb a b = false -> (a < b)%Q.
Proof.
  unfold Qgeb. intro H. apply Qnot_le_lt. intro C. apply Qle_bool_iff in C. congruence.
Qed.

Lemma c14_greedy ideal stock vmax mt p R :
  plan_core ideal stock vmax mt = Ok p -> Forall (fun col => length col = R) ideal ->
  exists n1, n1 <= length ideal /\
  (forall c, c < length ideal -> (c < n1 <-> psrc p c = None)) /\
  (n1 < length ideal ->
     exists r, r < R /\ (inject_Z (Qrint (nth n1 vmax 0 * ptarget ideal n1 r / stock)) < mt)%Q) /\
  (forall c k k', c < length ideal -> psrc p c = Some k -> k' < k ->
     exists r, r < R /\ (inject_Z (Qceiling (nth c vmax 0 * ptarget ideal c r / pconc p k' r)) < mt)%Q).
Proof.
  intros H Hrect. destruct (plan_core_ok _ _ _ _ _ H) as (n1 & Hok).
  pose proof (plan_lengths _ _ _ _ _ _ _ Hok Hrect) as Hlen.
  destruct Hok as (Hv & L1 & L2 & L3 & Hn & Hst & Hser & Hmax).
  assert (Hcol : forall c, c < length ideal -> length (nth c ideal []) = R).
  { intros c Hc. apply (proj1 (Forall_nth _ ideal) Hrect c [] Hc). }
  exists n1. split; [exact Hn|]. split; [|split].
  - intros c Hc. destruct (Nat.lt_ge_cases c n1) as [Hlt|Hge].
    + destruct (Hst c Hlt) as (_ & _ & Hsrc & _). split; [intros _; exact Hsrc|intros _; exact Hlt].
    + destruct (Hser c (conj Hge Hc)) as (_ & _ & k & _ & Hsrc & _).
      unfold psrc. rewrite Hsrc. split; [lia|discriminate].
  - intro Hlt. specialize (Hmax Hlt). unfold vols_ok in Hmax.
    destruct (forallb_false_nth _ 0%Z _ Hmax) as (r & Hr & Hf).
    unfold stock_vols in Hr, Hf. rewrite map_length, (Hcol n1 Hlt) in Hr.
    rewrite (nth_map_lt _ _ 0%Q) in Hf by (rewrite (Hcol n1 Hlt); exact Hr).
    exists r. split; [exact Hr|]. apply Qgeb_false. exact Hf.
  - intros c k k' Hc Hsrc Hk'.
    destruct (Nat.lt_ge_cases c n1) as [Hlt|Hge].
    { destruct (Hst c Hlt) as (_ & _ & Hnone & _). unfold psrc in Hsrc. congruence. }
    destruct (Hser c (conj Hge Hc)) as (_ & _ & k0 & Hk0 & Hsrc0 & _ & _ & _ & Hleft).
    unfold psrc in Hsrc. rewrite Hsrc0 in Hsrc. inversion Hsrc; subst k0.
    specialize (Hleft k' Hk'). unfold vols_ok in Hleft.
    destruct (forallb_false_nth _ 0%Z _ Hleft) as (r & Hr & Hf).
    destruct (Hlen k' ltac:(lia)) as (_ & Lk').
    unfold serial_vols in Hr, Hf. rewrite map_length, zip_len, (Hcol c Hc), Lk', Nat.min_id in Hr.
    rewrite (nth_map_lt _ _ (0%Q, 0%Q)) in Hf by (rewrite zip_len, (Hcol c Hc), Lk', Nat.min_id; exact Hr).
    rewrite nth_zip in Hf by (rewrite ?(Hcol c Hc), ?Lk'; exact Hr).
    exists r. split; [exact Hr|]. apply Qgeb_false. exact Hf.
Qed.

(* ------------------------------------------------------------------------------------------ *)
(** * the two false clauses (F11a, F11b) *)

(** total volume the plan draws from well (r, k) for later columns *)
Definition drawn (p : dplan) (k r : nat) : Z :=
  Zsum (map (fun i => nth r (i_vols i) 0%Z)
            (filter (fun i => match i_src i with Some s => s =? k | None => false end) (dp_instr p))).

Section Witnesses.
Local Open Scope Q_scope.

(** F11a, per-column vmax: 6 uL are planned into a 5 uL column *)
Definition w_a_ideal : list (list Q) := [[32#5; 63#10]; [31#5; 61#10]].
Definition w_a_vmax : list Q := [10; 5].
(** F11a, non-integer vmax *)
Definition w_a'_ideal : list (list Q) := [[1]].
Definition w_a'_vmax : list Q := [7#2].
(** F11b: columns 1 and 2 are both diluted from column 0 *)
Definition w_b_ideal : list (list Q) := [[10]; [8]; [32#5]].
Definition w_b_vmax : list Q := [1000; 1000; 1000].

Lemma c14_vmax_refuted :
  exists ideal stock vmax mt p R c r,
    plan_core ideal stock vmax mt = Ok p /\
    length vmax = length ideal /\ Forall (fun col => length col = R) ideal /\
    0 < mt /\ 0 < stock /\ Forall (fun v => 0 < v) vmax /\
    Forall (Forall (fun x => 0 < x /\ x <= stock)) ideal /\
    (c < length ideal)%nat /\ (r < R)%nat /\
    nth c vmax 0 < inject_Z (pvol p c r).
Proof.
  exists w_a_ideal, 10, w_a_vmax, 4.
  eexists. exists 2%nat, 1%nat, 0%nat.
  split; [vm_compute; reflexivity|].
  split; [reflexivity|]. split; [repeat constructor|]. split; [reflexivity|]. split; [reflexivity|].
  split; [repeat constructor|]. split; [repeat constructor; discriminate|].
  split; [cbn; lia|]. split; [lia|]. vm_compute. reflexivity.
Qed.

Lemma c14_vmax_refuted_fractional :
  exists ideal stock vmax mt p R c r,
    plan_core ideal stock vmax mt = Ok p /\
    length vmax = length ideal /\ Forall (fun col => length col = R) ideal /\
    0 < mt /\ 0 < stock /\ Forall (fun v => 0 < v) vmax /\
    Forall (Forall (fun x => 0 < x /\ x <= stock)) ideal /\
    (c < length ideal)%nat /\ (r < R)%nat /\ psrc p c = None /\
    nth c vmax 0 < inject_Z (pvol p c r).
Proof.
  exists w_a'_ideal, 1, w_a'_vmax, 1.
  eexists. exists 1%nat, 0%nat, 0%nat.
  split; [vm_compute; reflexivity|].
  split; [reflexivity|]. split; [repeat constructor|]. split; [reflexivity|]. split; [reflexivity|].
  split; [repeat constructor|]. split; [repeat constructor; discriminate|].
  split; [cbn; lia|]. split; [lia|]. split; [reflexivity|]. vm_compute. reflexivity.
Qed.

Lemma c14_budget_refuted :
  exists ideal stock vmax mt p R k r,
    plan_core ideal stock vmax mt = Ok p /\
    length vmax = length ideal /\ Forall (fun col => length col = R) ideal /\
    0 < mt /\ 0 < stock /\ Forall (fun v => 0 < v) vmax /\
    Forall (Forall (fun x => 0 < x /\ x <= stock)) ideal /\
    (k < length ideal)%nat /\ (r < R)%nat /\
    nth k vmax 0 < inject_Z (drawn p k r).
Proof.
  exists w_b_ideal, 1000, w_b_vmax, 10.
  eexists. exists 1%nat, 0%nat, 0%nat.
  split; [vm_compute; reflexivity|].
  split; [reflexivity|]. split; [repeat constructor|]. split; [reflexivity|]. split; [reflexivity|].
  split; [repeat constructor|]. split; [repeat constructor; discriminate|].
  split; [cbn; lia|]. split; [lia|]. vm_compute. reflexivity.
Qed.

End Witnesses.

(** what holds of the volume budget: a single dilution step never takes more than its source column
    holds, if both columns have the same whole-microlitre vmax and the target is not above the
    concentration of the source *)
Lemma c14_budget_partial ideal stock vmax mt p R :
  plan_core ideal stock vmax mt = Ok p -> Forall (fun col => length col = R) ideal ->
  (0 < mt)%Q -> (0 < stock)%Q -> Forall (fun v => (0 < v)%Q) vmax ->
  forall c k r (n : Z), c < length ideal -> r < R -> psrc p c = Some k ->
  (nth c vmax 0 == inject_Z n)%Q -> (nth k vmax 0 == inject_Z n)%Q ->
  (ptarget ideal c r <= pconc p k r)%Q ->
  (inject_Z (pvol p c r) <= nth k vmax 0)%Q.
Proof.
  intros H Hrect Hmt Hstock Hvm c k r n Hc Hr Hsrc Hn Hk Ht.
  pose proof (c14_vmax_partial _ _ _ _ _ _ H Hrect Hmt Hstock Hvm c r Hc Hr) as Hp.
  rewrite Hsrc in Hp. destruct Hp as (_ & _ & Hp). specialize (Hp n Hn Ht).
  rewrite Hk. now rewrite <- Zle_Qle.
Qed.

(* ------------------------------------------------------------------------------------------ *)
(** * to_worklist: the operations issued for one instruction *)

Lemma flat_map_src_filter {B} (col : nat) (g : instr -> list B) (l : list instr) :
  flat_map (fun j => match i_src j with
                     | Some s => if s =? col then g j else []
                     | None => []
                     end) l
  = flat_map g (filter (fun j => match i_src j with Some s => s =? col | None => false end) l).
Proof.
  induction l as [|j l IH]; [reflexivity|]. cbn [flat_map filter]. rewrite IH.
  destruct (i_src j) as [s|]; [|reflexivity]. destruct (s =? col); reflexivity.
Qed.

Section Ops.
Variables (a : twl_args) (p : dplan) (wmax : Q) (gs gd : geom).
Local Open Scope string_scope.

Definition col_wells (c : nat) : arr string := A1 (column_wells (tw_R a) c).
Definition vm_of (i : instr) : Q := nth (i_col i) (dp_vmax p) 0%Q.
Definition feeds (c : nat) (j : instr) : bool := match i_src j with Some s => (s =? c)%nat | None => false end.

Definition stock_op (i : instr) : op :=
  OTransfer (tw_stock a) (A1 (cycle_wells (tw_R a) (trough_column_wells gs (tw_stock_column a))))
            (tw_plate a) (col_wells (i_col i)) (A1 (map inject_Z (i_vols i)))
            (Some "Distribute from stock") (SInt 1) "auto" (kw_lc (tw_lc_stock a)).
Definition dilute_op (i : instr) : op :=
  OTransfer (tw_diluent a) (A1 (cycle_wells (tw_R a) (trough_column_wells gd (tw_diluent_column a))))
            (tw_plate a) (col_wells (i_col i))
            (A1 (map (fun v => Qred (vm_of i - v)%Q) (map inject_Z (i_vols i))))
            (Some ("Dilute column " ++ dec (i_col i))) (SInt 1) "auto" (kw_lc (tw_lc_diluent a)).
Definition mix_volume (i : instr) : Q :=
  let mv := (vm_of i * tw_mix_volume a)%Q in if Qle_bool wmax mv then wmax else Qred mv.
Definition needs_mix (i : instr) : bool :=
  existsb (fun v => Qltb (tw_mix_threshold a * vm_of i)%Q v) (map inject_Z (i_vols i)).
Definition mix_op (i : instr) (ws : scheme) : op :=
  OTransfer (tw_plate a) (col_wells (i_col i)) (tw_plate a) (col_wells (i_col i)) (A0 (mix_volume i))
            (Some ("Mix column " ++ dec (i_col i) ++ " with "
                   ++ decZ (round2c (mix_volume i / vm_of i)%Q) ++ " % of its volume"))
            ws "auto" (kw_lc (tw_lc_mix a)).
Definition serial_op (i j : instr) : op :=
  OTransfer (tw_plate a) (col_wells (i_col i)) (tw_plate a) (col_wells (i_col j))
            (A1 (map inject_Z (i_vols j)))
            (Some ("Transfer columns " ++ dec (i_col i) ++ " -> " ++ dec (i_col j) ++ " for later dilution step"))
            (SInt 1) "auto" (kw_lc (tw_lc_transfer a)).
Definition dest_op (i : instr) (d : nat) : op :=
  OTransfer (tw_plate a) (col_wells (i_col i)) d (col_wells (i_col i)) (A0 (tw_v_destination a))
            (Some ("Transfer column " ++ dec (i_col i) ++ " to the destination plate"))
            (SInt 1) "auto" (kw_lc (tw_lc_transfer a)).

Definition stock_part (i : instr) : list op :=
  match i_src i with None => [stock_op i; OCommit] | Some _ => [] end.
Definition dilute_part (i : instr) : list op := [dilute_op i; OCommit].
Definition mix_part (i : instr) : list op :=
  if needs_mix i then
    flat_map (fun r => [mix_op i (if (r <? tw_mix_repeat a - 1)%nat then tw_mix_wash a else SInt 1); OCommit])
             (seq 0 (tw_mix_repeat a))
  else [].
Definition serial_part (i : instr) : list op :=
  flat_map (fun j => [serial_op i j; OCommit]) (filter (feeds (i_col i)) (dp_instr p)).
Definition dest_part (i : instr) : list op :=
  match tw_dest a with Some d => [dest_op i d; OCommit] | None => [] end.

Lemma c14_exec_structure (i : instr) :
  instr_ops a p wmax gs gd i =
  (stock_part i ++ dilute_part i ++ mix_part i ++ serial_part i ++ dest_part i)%list.
Proof.
  unfold instr_ops. cbv zeta. rewrite flat_map_src_filter. reflexivity.
Qed.

Lemma mix_part_length (i : instr) :
  length (mix_part i) = if needs_mix i then 2 * tw_mix_repeat a else 0%nat.
Proof.
  unfold mix_part. destruct (needs_mix i); [|reflexivity].
  rewrite <- (seq_length (tw_mix_repeat a) 0) at 2.
  generalize (seq 0 (tw_mix_repeat a)) as l. intro l.
  induction l as [|r l IH]; [reflexivity|].
  cbn [flat_map app length]. rewrite IH. lia.
Qed.

End Ops.

(** the serial transfers out of column c go to later columns of the plan *)
Lemma c14_serial_later ideal stock vmax mt p c j :
  plan_core ideal stock vmax mt = Ok p -> In j (filter (feeds c) (dp_instr p)) ->
  i_src j = Some c /\ c < i_col j /\ i_col j < length ideal /\ nth (i_col j) (dp_instr p) dinstr = j.
Proof.
  intros H Hj. apply filter_In in Hj. destruct Hj as (Hin & Hf).
  destruct (plan_instr_nth _ _ _ _ _ _ H Hin) as (m & Hm & Hn & Hcol).
  unfold feeds in Hf. destruct (i_src j) as [s|] eqn:Es; [|discriminate].
  apply Nat.eqb_eq in Hf. subst s.
  destruct (c14_order _ _ _ _ _ H) as (n1 & _ & Hord).
  destruct (Hord m Hm) as [(_ & Hsrc & _)|(_ & k & Hk & Hsrc & _)];
    unfold psrc in Hsrc; rewrite Hn, Es in Hsrc; [discriminate|].
  inversion Hsrc; subst k. rewrite Hcol. repeat split; try assumption.
Qed.

(* ------------------------------------------------------------------------------------------ *)
(** * to_worklist: refusals, and the link between run_instrs and the list of operations *)

Lemma to_worklist_missing s a p C :
  nth_error (st_lw s) (tw_plate a) = None \/ nth_error (st_lw s) (tw_stock a) = None \/
  nth_error (st_lw s) (tw_diluent a) = None ->
  to_worklist s a p C = (s, Some EReject).
Proof.
  unfold to_worklist. intros [H|[H|H]]; rewrite H.
  - reflexivity.
  - destruct (nth_error (st_lw s) (tw_plate a)); reflexivity.
  - destruct (nth_error (st_lw s) (tw_plate a)); [|reflexivity].
    destruct (nth_error (st_lw s) (tw_stock a)); reflexivity.
Qed.

(** the destination plate, if any, is missing or too small *)
Definition dest_bad (s : state) (a : twl_args) (C : nat) : Prop :=
  exists d, tw_dest a = Some d /\
    match nth_error (st_lw s) d with
    | Some DP => n_row_ids (lw_geom DP) < tw_R a \/ g_cols (lw_geom DP) < C
    | None => True
    end.

Lemma to_worklist_cases s a p C P St D :
  nth_error (st_lw s) (tw_plate a) = Some P -> nth_error (st_lw s) (tw_stock a) = Some St ->
  nth_error (st_lw s) (tw_diluent a) = Some D ->
  ((n_row_ids (lw_geom P) < tw_R a \/ g_cols (lw_geom P) < C) -> to_worklist s a p C = (s, Some EValue)) /\
  (dest_bad s a C -> to_worklist s a p C = (s, Some EValue)) /\
  ((is_trough (lw_geom St) = false \/ is_trough (lw_geom D) = false) ->
     to_worklist s a p C = (s, Some EValue)) /\
  (tw_R a <= n_row_ids (lw_geom P) -> C <= g_cols (lw_geom P) -> ~ dest_bad s a C ->
   is_trough (lw_geom St) = true -> is_trough (lw_geom D) = true ->
   to_worklist s a p C = run_instrs s a p (lw_geom St) (lw_geom D) (dp_instr p)).
Proof.
  intros HP HS HD. unfold to_worklist. rewrite HP, HS, HD.
  split; [|split; [|split]].
  - intros Hsmall.
    assert (E : (n_row_ids (lw_geom P) <? tw_R a) || (g_cols (lw_geom P) <? C) = true).
    { apply orb_true_iff. destruct Hsmall as [H|H]; [left|right]; now apply Nat.ltb_lt. }
    rewrite E. reflexivity.
  - intros (d & Hd & Hbad).
    destruct ((n_row_ids (lw_geom P) <? tw_R a) || (g_cols (lw_geom P) <? C)); [reflexivity|].
    rewrite Hd. destruct (nth_error (st_lw s) d) as [DP|]; [|reflexivity].
    assert (E : (n_row_ids (lw_geom DP) <? tw_R a) || (g_cols (lw_geom DP) <? C) = true).
    { apply orb_true_iff. destruct Hbad as [H|H]; [left|right]; now apply Nat.ltb_lt. }
    rewrite E. reflexivity.
  - intros Htr.
    destruct ((n_row_ids (lw_geom P) <? tw_R a) || (g_cols (lw_geom P) <? C)); [reflexivity|].
    match goal with |- (if ?b then _ else _) = _ => destruct b end; [reflexivity|].
    assert (E : negb (is_trough (lw_geom St)) || negb (is_trough (lw_geom D)) = true).
    { apply orb_true_iff. destruct Htr as [H|H]; rewrite H; [left|right]; reflexivity. }
    rewrite E. reflexivity.
  - intros HR HC Hdest HtS HtD.
    assert (E1 : (n_row_ids (lw_geom P) <? tw_R a) || (g_cols (lw_geom P) <? C) = false).
    { apply orb_false_iff. split; apply Nat.ltb_ge; assumption. }
    rewrite E1, HtS, HtD. cbn [negb orb].
    destruct (tw_dest a) as [d|] eqn:Ed; [|reflexivity].
    destruct (nth_error (st_lw s) d) as [DP|] eqn:EDP.
    + destruct ((n_row_ids (lw_geom DP) <? tw_R a) || (g_cols (lw_geom DP) <? C)) eqn:E2; [|reflexivity].
      exfalso. apply Hdest. exists d. split; [exact Ed|]. rewrite EDP.
      apply orb_true_iff in E2. destruct E2 as [H|H]; [left|right]; now apply Nat.ltb_lt.
    + exfalso. apply Hdest. exists d. split; [exact Ed|]. now rewrite EDP.
Qed.

Lemma run_ops_app l1 : forall s l2,
  run_ops s (l1 ++ l2) =
  match run_ops s l1 with
  | (s1, None) => run_ops s1 l2
  | (s1, Some e) => (s1, Some e)
  end.
Proof.
  induction l1 as [|o l1 IH]; intros s l2; [reflexivity|].
  cbn [app run_ops]. destruct (step s o) as [s1 [e|]]; [reflexivity|]. apply IH.
Qed.

(** all operations of the plan, the i-th instruction issued with [max_volume = nth i wms] *)
Definition plan_ops (a : twl_args) (p : dplan) (gs gd : geom) (is : list instr) (wms : list Q) : list op :=
  flat_map (fun iw => instr_ops a p (snd iw) gs gd (fst iw)) (zip is wms).

(** a run of the plan without refusal is a run of its operations, in order *)
Lemma run_instrs_ops a p gs gd : forall is s s',
  run_instrs s a p gs gd is = (s', None) ->
  exists wms, length wms = length is /\ run_ops s (plan_ops a p gs gd is wms) = (s', None).
Proof.
  induction is as [|i is IH]; intros s s' H.
  - cbn in H. inversion H; subst s'. exists []. split; reflexivity.
  - cbn [run_instrs] in H. destruct (negb (column_ready s a i)); [discriminate|].
    destruct (run_ops s (instr_ops a p (w_max (st_wl s)) gs gd i)) as [s1 [e|]] eqn:E; [discriminate|].
    destruct (IH _ _ H) as (wms & L & Hrun).
    exists (w_max (st_wl s) :: wms). split; [cbn [length]; lia|].
    unfold plan_ops in *. cbn [zip flat_map fst snd]. rewrite run_ops_app, E. exact Hrun.
Qed.

(* ------------------------------------------------------------------------------------------ *)
(** * requested volumes *)

(** total volume of one [transfer] call, with the broadcasting of [transfer] *)
Definition transfer_total (sw dw : arr string) (vs : arr Q) : Q :=
  let n := Nat.max (length (flattenF sw)) (Nat.max (length (flattenF dw)) (length (flattenF vs))) in
  Qsum (broadcast (flattenF vs) n).
(** volume an operation requests from labware [k] *)
Definition requested (k : nat) (o : op) : Q :=
  match o with
  | OTransfer ks sw _ dw vs _ _ _ _ => if ks =? k then transfer_total sw dw vs else 0%Q
  | _ => 0%Q
  end.
Definition requested_all (k : nat) (ops : list op) : Q := Qsum (map (requested k) ops).
(** volumes of the serially diluted columns *)
Definition serial_vols_of (p : dplan) : list Z :=
  concat (map i_vols (filter (fun i => negb (stock_prepared i)) (dp_instr p))).

Lemma broadcast_self {A} (l : list A) : broadcast l (length l) = l.
Proof. destruct l as [|x [|y t]]; reflexivity. Qed.

Lemma transfer_total_A1 sw dw vs : length sw <= length vs -> length dw = length vs ->
  transfer_total (A1 sw) (A1 dw) (A1 vs) = Qsum vs.
Proof.
  intros H1 H2. unfold transfer_total. cbn [flattenF].
  replace (Nat.max (length sw) (Nat.max (length dw) (length vs))) with (length vs) by lia.
  now rewrite broadcast_self.
Qed.

Lemma cycle_wells_le n l : length (cycle_wells n l) <= n.
Proof. unfold cycle_wells. apply firstn_le_length. Qed.

Lemma column_wells_length R c : length (column_wells R c) = R.
Proof. unfold column_wells. now rewrite map_length, seq_length. Qed.

Lemma all_vols_split (l : list instr) :
  Zsum (concat (map i_vols l)) =
  (Zsum (concat (map i_vols (filter stock_prepared l))) +
   Zsum (concat (map i_vols (filter (fun i => negb (stock_prepared i)) l))))%Z.
Proof.
  induction l as [|i l IH]; [reflexivity|].
  cbn [map concat filter]. rewrite Zsum_app, IH.
  destruct (stock_prepared i); cbn [negb map concat]; rewrite Zsum_app; lia.
Qed.

Lemma Zsum_nonneg l : Forall (fun v => (0 <= v)%Z) l -> (0 <= Zsum l)%Z.
Proof.
  induction 1 as [|x l Hx Hl IH]; [cbn; lia|]. unfold Zsum in *. cbn [fold_right]. lia.
Qed.

Section Requested.
Local Open Scope Q_scope.

Lemma Qsum_app' l1 l2 : Qsum (l1 ++ l2) == Qsum l1 + Qsum l2.
Proof.
  induction l1 as [|x l1 IH]; [unfold Qsum at 2; cbn [app fold_right]; ring|].
  cbn [app]. rewrite !Qsum_cons, IH. ring.
Qed.

Lemma Qsum_nil : Qsum [] == 0.
Proof. reflexivity. Qed.

Lemma Qsum_map_ext {A} (f g : A -> Q) l :
  (forall x, In x l -> f x == g x) -> Qsum (map f l) == Qsum (map g l).
Proof.
  induction l as [|x l IH]; intro H; [reflexivity|].
  cbn [map]. rewrite !Qsum_cons, (H x (or_introl eq_refl)), IH; [reflexivity|].
  intros y Hy. apply H. now right.
Qed.

Lemma Qsum_inject l : Qsum (map inject_Z l) == inject_Z (Zsum l).
Proof.
  induction l as [|x l IH]; [reflexivity|].
  cbn [map]. rewrite Qsum_cons, IH. unfold Zsum. cbn [fold_right]. rewrite inject_Z_plus. reflexivity.
Qed.

Lemma Qsum_fill vm l :
  Qsum (map (fun v => Qred (vm - v)) (map inject_Z l)) == inject_Z (Z.of_nat (length l)) * vm - inject_Z (Zsum l).
Proof.
  induction l as [|x l IH].
  - unfold Qsum, Zsum. cbn [map fold_right length Z.of_nat]. ring.
  - cbn [map length]. rewrite Qsum_cons, IH, Qred_correct.
    rewrite Nat2Z.inj_succ. unfold Z.succ. rewrite inject_Z_plus.
    unfold Zsum. cbn [fold_right]. rewrite inject_Z_plus. ring.
Qed.

Lemma requested_all_app k l1 l2 :
  requested_all k (l1 ++ l2) == requested_all k l1 + requested_all k l2.
Proof. unfold requested_all. rewrite map_app. apply Qsum_app'. Qed.

Lemma requested_all_zero k ops : (forall o, In o ops -> requested k o = 0) -> requested_all k ops == 0.
Proof.
  induction ops as [|o ops IH]; intro H; [reflexivity|].
  unfold requested_all in *. cbn [map]. rewrite Qsum_cons, (H o (or_introl eq_refl)), IH; [ring|].
  intros o' Ho'. apply H. now right.
Qed.

Lemma requested_all_flat_map {A} k (f : A -> list op) l :
  requested_all k (flat_map f l) == Qsum (map (fun x => requested_all k (f x)) l).
Proof.
  induction l as [|x l IH]; [reflexivity|].
  cbn [flat_map map]. rewrite requested_all_app, Qsum_cons, IH. reflexivity.
Qed.

Variables (a : twl_args) (p : dplan) (gs gd : geom).

(** nothing but the first two transfers touches the troughs *)
Lemma plate_parts_zero k wmax i : tw_plate a <> k ->
  requested_all k (mix_part a p wmax i ++ serial_part a p i ++ dest_part a i) == 0.
Proof.
  intro Hk. apply Nat.eqb_neq in Hk. apply requested_all_zero. intros o Ho.
  apply in_app_or in Ho. destruct Ho as [Ho|Ho]; [|apply in_app_or in Ho; destruct Ho as [Ho|Ho]].
  - unfold mix_part in Ho. destruct (needs_mix a p i); [|destruct Ho].
    apply in_flat_map in Ho. destruct Ho as (r & _ & [Ho|[Ho|[]]]); subst o; [|reflexivity].
    unfold mix_op. cbn [requested]. now rewrite Hk.
  - unfold serial_part in Ho.
    apply in_flat_map in Ho. destruct Ho as (j & _ & [Ho|[Ho|[]]]); subst o; [|reflexivity].
    unfold serial_op. cbn [requested]. now rewrite Hk.
  - unfold dest_part in Ho. destruct (tw_dest a) as [d|]; [|destruct Ho].
    destruct Ho as [Ho|[Ho|[]]]; subst o; [|reflexivity].
    unfold dest_op. cbn [requested]. now rewrite Hk.
Qed.

Hypothesis Hps : tw_plate a <> tw_stock a.
Hypothesis Hpd : tw_plate a <> tw_diluent a.
Hypothesis Hsd : tw_stock a <> tw_diluent a.

Lemma instr_requested_stock wmax i : length (i_vols i) = tw_R a ->
  requested_all (tw_stock a) (instr_ops a p wmax gs gd i) ==
  if stock_prepared i then inject_Z (Zsum (i_vols i)) else 0.
Proof.
  intro HR. rewrite c14_exec_structure, requested_all_app.
  rewrite (requested_all_app _ (dilute_part a p gd i)), plate_parts_zero by exact Hps.
  assert (Hd : requested_all (tw_stock a) (dilute_part a p gd i) == 0).
  { apply requested_all_zero. intros o [Ho|[Ho|[]]]; subst o; [|reflexivity].
    unfold dilute_op. cbn [requested].
    assert (E : (tw_diluent a =? tw_stock a) = false) by (apply Nat.eqb_neq; congruence).
    now rewrite E. }
  rewrite Hd. unfold stock_part, stock_prepared. destruct (i_src i) as [k|].
  - unfold requested_all. cbn [map]. rewrite Qsum_nil. ring.
  - unfold requested_all. cbn [map]. rewrite !Qsum_cons, Qsum_nil.
    unfold stock_op. cbn [requested]. rewrite Nat.eqb_refl.
    unfold col_wells. rewrite transfer_total_A1.
    + rewrite Qsum_inject. ring.
    + rewrite map_length, HR. apply cycle_wells_le.
    + now rewrite map_length, column_wells_length.
Qed.

Lemma instr_requested_diluent wmax i : length (i_vols i) = tw_R a ->
  requested_all (tw_diluent a) (instr_ops a p wmax gs gd i) ==
  inject_Z (Z.of_nat (tw_R a)) * vm_of p i - inject_Z (Zsum (i_vols i)).
Proof.
  intro HR. rewrite c14_exec_structure, requested_all_app.
  rewrite (requested_all_app _ (dilute_part a p gd i)), plate_parts_zero by exact Hpd.
  assert (Hs : requested_all (tw_diluent a) (stock_part a gs i) == 0).
  { apply requested_all_zero. unfold stock_part. destruct (i_src i) as [k|]; [intros o []|].
    intros o [Ho|[Ho|[]]]; subst o; [|reflexivity].
    unfold stock_op. cbn [requested].
    assert (E : (tw_stock a =? tw_diluent a) = false) by (apply Nat.eqb_neq; congruence).
    now rewrite E. }
  rewrite Hs. unfold dilute_part, requested_all. cbn [map]. rewrite !Qsum_cons, Qsum_nil.
  unfold dilute_op. cbn [requested]. rewrite Nat.eqb_refl.
  unfold col_wells. rewrite transfer_total_A1.
  - rewrite Qsum_fill, HR. ring.
  - rewrite !map_length, HR. apply cycle_wells_le.
  - now rewrite !map_length, column_wells_length.
Qed.

End Requested.

Lemma zip_In_fst {A B} (l : list A) : forall (m : list B) x, In x (zip l m) -> In (fst x) l.
Proof.
  induction l as [|y l IH]; intros m x H; [destruct H|].
  destruct m as [|z m]; [destruct H|]. cbn [zip In] in H. destruct H as [H|H].
  - subst x. now left.
  - right. exact (IH _ _ H).
Qed.

Lemma map_fst_zip_len {A B C} (f : A -> C) (l : list A) : forall (m : list B),
  length m = length l -> map (fun iw => f (fst iw)) (zip l m) = map f l.
Proof.
  induction l as [|y l IH]; intros [|z m] H; cbn [length] in H; try lia; [reflexivity|].
  cbn [zip map fst]. f_equal. apply IH. lia.
Qed.

Section Totals.
Local Open Scope Q_scope.

Lemma stock_total (l : list instr) :
  Qsum (map (fun i => if stock_prepared i then inject_Z (Zsum (i_vols i)) else 0) l) ==
  inject_Z (Zsum (concat (map i_vols (filter stock_prepared l)))).
Proof.
  induction l as [|i l IH]; [reflexivity|].
  cbn [map filter]. rewrite Qsum_cons, IH. destruct (stock_prepared i).
  - cbn [map concat]. rewrite Zsum_app, inject_Z_plus. reflexivity.
  - ring.
Qed.

Lemma diluent_total (k : Q) (f : instr -> Q) (l : list instr) :
  Qsum (map (fun i => k * f i - inject_Z (Zsum (i_vols i))) l) ==
  k * Qsum (map f l) - inject_Z (Zsum (concat (map i_vols l))).
Proof.
  induction l as [|i l IH]; [unfold Qsum, Zsum; cbn [map concat fold_right]; ring|].
  cbn [map concat]. rewrite !Qsum_cons, IH, Zsum_app, inject_Z_plus. ring.
Qed.

Lemma vm_of_plan ideal stock vmax mt p :
  plan_core ideal stock vmax mt = Ok p -> length vmax = length ideal ->
  map (vm_of p) (dp_instr p) = vmax.
Proof.
  intros H L. destruct (proj1 (c14_complete ideal stock vmax mt) p H) as (Hv & L1 & _ & _ & Hcol).
  apply (nth_ext _ _ 0 0); [rewrite map_length; lia|].
  intros n Hn. rewrite map_length in Hn. rewrite (nth_map_lt _ _ dinstr) by exact Hn.
  unfold vm_of. rewrite Hv, Hcol by lia. reflexivity.
Qed.

Lemma c14_exec_requested ideal stock vmax mt p R a gs gd wms :
  plan_core ideal stock vmax mt = Ok p -> Forall (fun col => length col = R) ideal ->
  length vmax = length ideal -> tw_R a = R ->
  tw_plate a <> tw_stock a -> tw_plate a <> tw_diluent a -> tw_stock a <> tw_diluent a ->
  length wms = length (dp_instr p) ->
  requested_all (tw_stock a) (plan_ops a p gs gd (dp_instr p) wms) == inject_Z (v_stock p) /\
  requested_all (tw_diluent a) (plan_ops a p gs gd (dp_instr p) wms) ==
    inject_Z (Z.of_nat R) * Qsum vmax - inject_Z (Zsum (all_vols p)) /\
  requested_all (tw_diluent a) (plan_ops a p gs gd (dp_instr p) wms) ==
    v_diluent R p - inject_Z (Zsum (serial_vols_of p)) /\
  (0 <= mt -> requested_all (tw_diluent a) (plan_ops a p gs gd (dp_instr p) wms) <= v_diluent R p).
Proof.
  intros H Hrect Lv HR Hps Hpd Hsd Lw.
  assert (Hlen : forall i, In i (dp_instr p) -> length (i_vols i) = tw_R a).
  { intros i Hi. destruct (plan_instr_nth _ _ _ _ _ _ H Hi) as (c & Hc & Hn & _).
    destruct (c14_shape _ _ _ _ _ _ H Hrect c Hc) as (Lc & _). rewrite Hn in Lc. now rewrite HR. }
  assert (Hst : requested_all (tw_stock a) (plan_ops a p gs gd (dp_instr p) wms) == inject_Z (v_stock p)).
  { unfold plan_ops. rewrite requested_all_flat_map.
    rewrite (Qsum_map_ext _ (fun iw => if stock_prepared (fst iw) then inject_Z (Zsum (i_vols (fst iw))) else 0)).
    - rewrite (map_fst_zip_len (fun i => if stock_prepared i then inject_Z (Zsum (i_vols i)) else 0)) by exact Lw.
      rewrite stock_total, (c14_v_stock _ _ _ _ _ H). reflexivity.
    - intros iw Hiw. apply instr_requested_stock; try assumption. apply Hlen. exact (zip_In_fst _ _ _ Hiw). }
  assert (Hdi : requested_all (tw_diluent a) (plan_ops a p gs gd (dp_instr p) wms) ==
                inject_Z (Z.of_nat R) * Qsum vmax - inject_Z (Zsum (all_vols p))).
  { unfold plan_ops. rewrite requested_all_flat_map.
    rewrite (Qsum_map_ext _ (fun iw => inject_Z (Z.of_nat (tw_R a)) * vm_of p (fst iw)
                                        - inject_Z (Zsum (i_vols (fst iw))))).
    - rewrite (map_fst_zip_len (fun i => inject_Z (Z.of_nat (tw_R a)) * vm_of p i - inject_Z (Zsum (i_vols i))))
        by exact Lw.
      rewrite diluent_total, (vm_of_plan _ _ _ _ _ H Lv), HR. reflexivity.
    - intros iw Hiw. apply instr_requested_diluent; try assumption. apply Hlen. exact (zip_In_fst _ _ _ Hiw). }
  assert (Hsplit : Zsum (all_vols p) = (v_stock p + Zsum (serial_vols_of p))%Z).
  { unfold all_vols, serial_vols_of. rewrite all_vols_split, (c14_v_stock _ _ _ _ _ H). reflexivity. }
  assert (Hvd : v_diluent R p == inject_Z (Z.of_nat R) * Qsum vmax - inject_Z (v_stock p)).
  { rewrite c14_v_diluent. destruct (proj1 (c14_complete ideal stock vmax mt) p H) as (Hv & _).
    rewrite Hv. reflexivity. }
  split; [exact Hst|]. split; [exact Hdi|]. split.
  - rewrite Hdi, Hvd, Hsplit, inject_Z_plus. ring.
  - intro Hmt. rewrite Hdi, Hvd, Hsplit, inject_Z_plus.
    assert (Hnn : (0 <= Zsum (serial_vols_of p))%Z).
    { apply Zsum_nonneg. apply Forall_forall. intros v Hv. unfold serial_vols_of in Hv.
      apply in_concat in Hv. destruct Hv as (vs & Hvs & Hv).
      apply in_map_iff in Hvs. destruct Hvs as (i & Hi & Hin). subst vs.
      apply filter_In in Hin. destruct Hin as (Hin & _).
      pose proof (plan_vols_min _ _ _ _ _ H i v Hin Hv) as Hm.
      assert (H0 : 0 <= inject_Z v) by lra. now rewrite <- (Zle_Qle 0) in H0. }
    rewrite (Zle_Qle 0) in Hnn. change (inject_Z 0) with 0 in Hnn. lra.
Qed.

End Totals.

(* ------------------------------------------------------------------------------------------ *)
(** * the argument checks of __init__ in front of the planner *)

(** vmax as one value per column: a scalar is repeated *)
Definition vmax_columns (C : nat) (vmax : arr Q) : list Q :=
  match flattenF vmax with [x] => repeat x C | l => l end.

Lemma dilution_plan_ok sg mo C vmax ideal stock mt p :
  dilution_plan sg mo C vmax ideal stock mt = Ok p ->
  sg = true /\ mo = true /\ length (vmax_columns C vmax) = C /\
  plan_core ideal stock (vmax_columns C vmax) mt = Ok p.
Proof.
  unfold dilution_plan. fold (vmax_columns C vmax). intro H.
  destruct sg; [|discriminate]. cbn [negb] in H.
  destruct (length (vmax_columns C vmax) =? C) eqn:E; [|discriminate]. cbn [negb] in H.
  destruct mo; [|discriminate]. cbn [negb] in H. apply Nat.eqb_eq in E.
  repeat split; assumption.
Qed.

Lemma dilution_plan_refuses sg mo C vmax ideal stock mt :
  sg = false \/ mo = false \/ length (vmax_columns C vmax) <> C ->
  dilution_plan sg mo C vmax ideal stock mt = Err EValue.
Proof.
  unfold dilution_plan. fold (vmax_columns C vmax). intros [H|[H|H]].
  - subst sg. reflexivity.
  - subst mo. destruct (negb sg); [reflexivity|].
    destruct (negb (length (vmax_columns C vmax) =? C)); reflexivity.
  - apply Nat.eqb_neq in H. rewrite H. destruct (negb sg); reflexivity.
Qed.

Lemma c14_v_stock_diluent ideal stock vmax mt p :
  plan_core ideal stock vmax mt = Ok p ->
  v_stock p = Zsum (stock_vols_of p) /\
  forall R, (v_diluent R p == inject_Z (Z.of_nat R) * Qsum vmax - inject_Z (v_stock p))%Q.
Proof.
  intro H. split; [exact (c14_v_stock _ _ _ _ _ H)|]. intro R.
  destruct (proj1 (c14_complete ideal stock vmax mt) p H) as (Hv & _).
  rewrite <- Hv. apply c14_v_diluent.
Qed.
