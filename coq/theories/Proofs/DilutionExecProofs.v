(** C14, state level: the volume ledger of [transfer] ("C04 for transfers") and the volumes a successful
    [to_worklist] leaves in the stock trough, the diluent trough and the dilution plate. *)
From Robo Require Import Prelude Str Wells Utils Labware Tips Records Partition Params Worklist EvoCmd
  Program Dilution Invariants Mixing WellsProofs LabwareProofs PartitionProofs MixingProofs PlanProofs
  RefinementProofs DilutionProofs.
From Coq Require Import Lqa Permutation.
#[local] Open Scope Q_scope.

(* ------------------------------------------------------------------------------------------ *)
(** * sums of the volumes of the triples selected by their (source, destination) *)

Definition gsum (q : string * string -> bool) (T : list triple) : Q :=
  Qsum (map snd (filter (fun t => q (fst t)) T)).

(** well [w] of labware [L] is the real well with flat index [i] *)
Definition idx_is (L : labware) (i : nat) (w : string) : bool :=
  match lw_index L w with Some k => (k =? i)%nat | None => false end.

(** total volume the triples take out of / put into the well with flat index [i] of [L] *)
Definition well_out (L : labware) (i : nat) (T : list triple) : Q :=
  Qsum (map snd (filter (fun t => idx_is L i (fst (fst t))) T)).
Definition well_in (L : labware) (i : nat) (T : list triple) : Q :=
  Qsum (map snd (filter (fun t => idx_is L i (snd (fst t))) T)).

Lemma well_out_gsum L i T : well_out L i T = gsum (fun sd => idx_is L i (fst sd)) T.
Proof. reflexivity. Qed.
Lemma well_in_gsum L i T : well_in L i T = gsum (fun sd => idx_is L i (snd sd)) T.
Proof. reflexivity. Qed.

Lemma gsum_nil q : gsum q [] == 0.
Proof. reflexivity. Qed.

Lemma gsum_cons q t T : gsum q (t :: T) == (if q (fst t) then snd t else 0) + gsum q T.
Proof.
  unfold gsum. cbn [filter]. destruct (q (fst t)); cbn [map]; [apply Qsum_cons|]. ring.
Qed.

Lemma gsum_app q T1 T2 : gsum q (T1 ++ T2) == gsum q T1 + gsum q T2.
Proof. unfold gsum. rewrite filter_app, map_app. apply Qsum_app'. Qed.

Lemma gsum_perm q T T' : Permutation T T' -> gsum q T == gsum q T'.
Proof.
  induction 1 as [|x l l' Hp IH|x y l|l l' l'' Hp1 IH1 Hp2 IH2].
  - reflexivity.
  - rewrite !gsum_cons, IH. reflexivity.
  - rewrite !gsum_cons. ring.
  - rewrite IH1. exact IH2.
Qed.

Lemma gsum_ext q q' T : (forall t, In t T -> q (fst t) = q' (fst t)) -> gsum q T == gsum q' T.
Proof.
  induction T as [|t T IH]; intro H; [reflexivity|].
  rewrite !gsum_cons, (H t (or_introl eq_refl)), IH; [reflexivity|].
  intros t' Ht'. apply H. right. exact Ht'.
Qed.

Lemma gsum_const_map q s d (l : list Q) :
  gsum q (map (fun v => (s, d, v)) l) == if q (s, d) then Qsum l else 0.
Proof.
  induction l as [|x l IH]; cbn [map].
  - rewrite gsum_nil. destruct (q (s, d)); reflexivity.
  - rewrite gsum_cons, IH. cbn [fst snd]. destruct (q (s, d)); [rewrite Qsum_cons; reflexivity|ring].
Qed.

Lemma gsum_triple_steps q a m t : 0 < m -> 0 <= snd t ->
  gsum q (triple_steps a m t) == if q (fst t) then snd t else 0.
Proof.
  intros Hm Hv. rewrite triple_steps_map, (vol_list_pos a m (snd t) Hm Hv), gsum_const_map.
  destruct t as [[s d] v]. cbn [fst snd] in *.
  destruct (q (s, d)); [|reflexivity].
  destruct (Qltb 0 v) eqn:E.
  - apply vol_list_sum; [exact Hm|apply Qltb_true; exact E].
  - apply Qltb_false in E. unfold Qsum. cbn [fold_right]. lra.
Qed.

(** the planned steps move, per selected (source, destination), what the triples request *)
Lemma gsum_plan q a m mode T : 0 < m -> Forall (fun t => 0 <= snd t) T ->
  gsum q (steps_of (plan a m mode T)) == gsum q T.
Proof.
  intros Hm Hall. rewrite (gsum_perm q _ _ (plan_steps_perm a m mode T)).
  induction Hall as [|t r Ht Hr IH]; cbn [flat_map]; [reflexivity|].
  rewrite gsum_app, gsum_cons, IH, (gsum_triple_steps q a m t Hm Ht). reflexivity.
Qed.

(* ------------------------------------------------------------------------------------------ *)
(** * one pipetting step *)

Lemma vol_at_log L label i : vol_at (log L label) i = vol_at L i.
Proof. reflexivity. Qed.

Lemma wf_shape0_nth s k L : wf_state s -> nth_error (st_lw s) k = Some L -> shape0 L.
Proof. intros Hwf HL. apply wf_shape_shape0. exact (proj1 (wf_nth _ _ _ Hwf HL)). Qed.

Lemma exec_step_vols s ks kd sw dw v ws kw s' :
  exec_step s ks kd sw dw v ws kw = (s', None) -> wf_state s ->
  exists Ls Ld i_s i_d,
    nth_error (st_lw s) ks = Some Ls /\ nth_error (st_lw s) kd = Some Ld /\
    lw_index Ls sw = Some i_s /\ lw_index Ld dw = Some i_d /\ 0 <= v /\
    length (st_lw s') = length (st_lw s) /\
    forall j L, nth_error (st_lw s) j = Some L ->
      exists L', nth_error (st_lw s') j = Some L' /\ lw_geom L' = lw_geom L /\
        forall i, vol_at L' i == vol_at L i
                               - (if ((j =? ks) && (i_s =? i))%nat then v else 0)
                               + (if ((j =? kd) && (i_d =? i))%nat then v else 0).
Proof.
  intros H Hwf.
  destruct (exec_step_state _ _ _ _ _ _ _ _ _ H)
    as (Ls & i_s & Ld1 & i_d & HLs & His & _ & Hv & HLd1 & Hid & _ & Hst).
  pose proof (nth_error_lt _ _ _ HLs) as Hks.
  pose proof (wf_shape0_nth _ _ _ Hwf HLs) as HshS.
  pose proof (lw_index_bound _ _ _ HshS His) as Hbs.
  set (Ls' := log (rem_one Ls i_s v) None) in *.
  assert (HgS : lw_geom Ls' = lw_geom Ls) by reflexivity.
  assert (HvS : forall i, vol_at Ls' i == vol_at Ls i - (if (i_s =? i)%nat then v else 0)).
  { intro i. unfold Ls'. rewrite vol_at_log, vol_at_rem_one by exact Hbs.
    destruct (i_s =? i)%nat; ring. }
  assert (HshS' : shape0 Ls').
  { change (shape0 (rem_one Ls i_s v)). exact (shape0_frame _ _ (rem_one_frame Ls i_s v) HshS). }
  assert (Hsh1 : shape0 Ld1 /\ exists Ld, nth_error (st_lw s) kd = Some Ld /\ lw_geom Ld1 = lw_geom Ld /\
            forall i, vol_at Ld1 i == vol_at Ld i - (if ((kd =? ks) && (i_s =? i))%nat then v else 0)).
  { destruct (Nat.eqb_spec kd ks) as [->|Hne].
    - rewrite RefinementProofs.nth_error_upd_same in HLd1 by exact Hks. injection HLd1 as <-.
      split; [exact HshS'|]. exists Ls. split; [exact HLs|]. split; [exact HgS|].
      intro i. cbn [andb]. apply HvS.
    - rewrite nth_error_upd_other in HLd1 by (intro E; apply Hne; symmetry; exact E).
      split; [exact (wf_shape0_nth _ _ _ Hwf HLd1)|]. exists Ld1. split; [exact HLd1|]. split; [reflexivity|].
      intro i. cbn [andb]. ring. }
  destruct Hsh1 as (Hsh1 & Ld & HLd & HgD & HvD).
  pose proof (lw_index_bound _ _ _ Hsh1 Hid) as Hbd.
  set (Ld' := log (add_one Ld1 i_d v (Some (wca (lw_comp Ls) i_s))) None) in *.
  assert (HgD' : lw_geom Ld' = lw_geom Ld).
  { rewrite <- HgD. exact (proj1 (proj2 (add_one_frame Ld1 i_d v (Some (wca (lw_comp Ls) i_s))))). }
  assert (HvD' : forall i, vol_at Ld' i == vol_at Ld i - (if ((kd =? ks) && (i_s =? i))%nat then v else 0)
                                         + (if (i_d =? i)%nat then v else 0)).
  { intro i. unfold Ld'. rewrite vol_at_log, vol_at_add_one by exact Hbd. rewrite HvD. reflexivity. }
  assert (Hkd : (kd < length (st_lw s))%nat) by (eapply nth_error_lt; exact HLd).
  exists Ls, Ld, i_s, i_d.
  split; [exact HLs|]. split; [exact HLd|]. split; [exact His|].
  split; [rewrite <- (lw_index_geom Ld1 Ld dw HgD); exact Hid|]. split; [exact Hv|].
  split; [rewrite Hst, !upd_length; reflexivity|].
  intros j L HL. rewrite Hst.
  destruct (Nat.eqb_spec j kd) as [->|Hjd].
  - rewrite HLd in HL. injection HL as <-.
    exists Ld'. split; [apply RefinementProofs.nth_error_upd_same; rewrite upd_length; exact Hkd|].
    split; [exact HgD'|]. intro i. rewrite HvD'. cbn [andb]. reflexivity.
  - rewrite nth_error_upd_other by (intro E; apply Hjd; symmetry; exact E).
    destruct (Nat.eqb_spec j ks) as [->|Hjs].
    + rewrite HLs in HL. injection HL as <-.
      exists Ls'. split; [apply RefinementProofs.nth_error_upd_same; exact Hks|]. split; [exact HgS|].
      intro i. rewrite HvS. cbn [andb]. ring.
    + rewrite nth_error_upd_other by (intro E; apply Hjs; symmetry; exact E).
      exists L. split; [exact HL|]. split; [reflexivity|]. intro i. cbn [andb]. ring.
Qed.

(* ------------------------------------------------------------------------------------------ *)
(** * a run of actions *)

(** labware list [lws'] is [lws] after moving the triples [T] from labware [ks] to labware [kd] *)
Definition ledger_rel (ks kd : nat) (T : list triple) (lws lws' : list labware) : Prop :=
  length lws' = length lws /\
  forall j L, nth_error lws j = Some L ->
    exists L', nth_error lws' j = Some L' /\ lw_geom L' = lw_geom L /\
      forall i, vol_at L' i == vol_at L i - (if (j =? ks)%nat then well_out L i T else 0)
                                          + (if (j =? kd)%nat then well_in L i T else 0).

Lemma idx_is_geom L1 L2 i w : lw_geom L1 = lw_geom L2 -> idx_is L1 i w = idx_is L2 i w.
Proof. intro H. unfold idx_is. rewrite (lw_index_geom L1 L2 w H). reflexivity. Qed.

Lemma well_out_geom L1 L2 i T : lw_geom L1 = lw_geom L2 -> well_out L1 i T = well_out L2 i T.
Proof.
  intro H. unfold well_out. f_equal. f_equal. apply filter_ext. intro t. apply idx_is_geom. exact H.
Qed.

Lemma well_in_geom L1 L2 i T : lw_geom L1 = lw_geom L2 -> well_in L1 i T = well_in L2 i T.
Proof.
  intro H. unfold well_in. f_equal. f_equal. apply filter_ext. intro t. apply idx_is_geom. exact H.
Qed.

Lemma well_out_cons L i s d v T :
  well_out L i ((s, d, v) :: T) == (if idx_is L i s then v else 0) + well_out L i T.
Proof. rewrite !well_out_gsum, gsum_cons. reflexivity. Qed.

Lemma well_in_cons L i s d v T :
  well_in L i ((s, d, v) :: T) == (if idx_is L i d then v else 0) + well_in L i T.
Proof. rewrite !well_in_gsum, gsum_cons. reflexivity. Qed.

Lemma exec_ledger ks kd ws kw acts : forall s s',
  exec s ks kd acts ws kw = (s', None) -> wf_state s ->
  ledger_rel ks kd (steps_of acts) (st_lw s) (st_lw s').
Proof.
  induction acts as [|[sw dw v|] acts IH]; intros s s' H Hwf.
  - cbn [exec] in H. injection H as <-. split; [reflexivity|]. intros j L HL.
    exists L. split; [exact HL|]. split; [reflexivity|]. intro i.
    unfold well_out, well_in, steps_of. cbn [flat_map filter map]. unfold Qsum. cbn [fold_right].
    destruct (j =? ks)%nat; destruct (j =? kd)%nat; ring.
  - cbn [exec] in H.
    destruct (exec_step s ks kd sw dw v ws kw) as [s1 [e|]] eqn:E; [discriminate|].
    pose proof (exec_step_wf' _ _ _ _ _ _ _ _ _ _ E Hwf) as Hwf1.
    destruct (exec_step_vols _ _ _ _ _ _ _ _ _ E Hwf)
      as (Ls & Ld & i_s & i_d & HLs & HLd & His & Hid & Hv & Hlen1 & Hstep).
    destruct (IH _ _ H Hwf1) as (Hlen2 & Hrest).
    split; [rewrite Hlen2; exact Hlen1|].
    intros j L HL. destruct (Hstep j L HL) as (L1 & HL1 & Hg1 & Hv1).
    destruct (Hrest j L1 HL1) as (L' & HL' & Hg' & Hv').
    exists L'. split; [exact HL'|]. split; [rewrite Hg'; exact Hg1|].
    intro i. rewrite Hv', Hv1.
    rewrite (well_out_geom L1 L i _ Hg1), (well_in_geom L1 L i _ Hg1).
    change (steps_of (Step sw dw v :: acts)) with ((sw, dw, v) :: steps_of acts).
    destruct (Nat.eqb_spec j ks) as [Ejs|Hjs]; destruct (Nat.eqb_spec j kd) as [Ejd|Hjd]; cbn [andb].
    + rewrite well_out_cons, well_in_cons. subst ks kd.
      rewrite HLs in HL. injection HL as <-. rewrite HLd in HLs. injection HLs as <-.
      unfold idx_is. rewrite His, Hid. ring.
    + rewrite well_out_cons. subst ks.
      rewrite HLs in HL. injection HL as <-. unfold idx_is. rewrite His. ring.
    + rewrite well_in_cons. subst kd.
      rewrite HLd in HL. injection HL as <-. unfold idx_is. rewrite Hid. ring.
    + ring.
  - cbn [exec] in H. change (steps_of (Commit :: acts)) with (steps_of acts).
    exact (IH _ _ H (wf_set_wl _ _ Hwf)).
Qed.

(* ------------------------------------------------------------------------------------------ *)
(** * transfer *)

Lemma ledger_rel_sums ks kd T T' lws lws' :
  (forall L i, well_out L i T == well_out L i T') -> (forall L i, well_in L i T == well_in L i T') ->
  ledger_rel ks kd T lws lws' -> ledger_rel ks kd T' lws lws'.
Proof.
  intros Ho Hi (Hlen & H). split; [exact Hlen|]. intros j L HL.
  destruct (H j L HL) as (L' & HL' & Hg & Hv). exists L'. split; [exact HL'|]. split; [exact Hg|].
  intro i. rewrite Hv. destruct (j =? ks)%nat; destruct (j =? kd)%nat; rewrite ?Ho, ?Hi; reflexivity.
Qed.

Lemma ledger_rel_condense ks kd T lws s2 k n lab :
  ledger_rel ks kd T lws (st_lw s2) -> ledger_rel ks kd T lws (st_lw (condense_at s2 k n lab)).
Proof.
  intros (Hlen & H). unfold condense_at.
  destruct (nth_error (st_lw s2) k) as [Lk|] eqn:Ek; [|split; assumption].
  cbn [set_lw st_lw]. split; [rewrite upd_length; exact Hlen|].
  intros j L HL. destruct (H j L HL) as (L' & HL' & Hg & Hv).
  destruct (Nat.eq_dec k j) as [->|Hne].
  - rewrite Ek in HL'. injection HL' as <-.
    destruct (condense_obs Lk n lab) as (_ & O2 & _ & _ & O5).
    exists (condense_log Lk n lab).
    split; [apply RefinementProofs.nth_error_upd_same; eapply nth_error_lt; exact Ek|].
    split; [rewrite O2; exact Hg|].
    intro i. unfold vol_at at 1. rewrite O5. exact (Hv i).
  - exists L'. split; [rewrite nth_error_upd_other by exact Hne; exact HL'|]. split; [exact Hg|exact Hv].
Qed.

Lemma existsb_false_forall {A} (f : A -> bool) l : existsb f l = false -> forall x, In x l -> f x = false.
Proof.
  intros H x Hx. destruct (f x) eqn:E; [|reflexivity].
  assert (C : existsb f l = true) by (apply existsb_exists; exists x; split; assumption). congruence.
Qed.

(** "C04 for transfers": an accepted transfer changes every well by what the requested triples say;
    the worklist configuration is unchanged; the arguments were compatible *)
Theorem transfer_ledger s ks swells kd dwells vols label ws pb kw s' :
  transfer s ks swells kd dwells vols label ws pb kw = (s', None) -> wf_state s -> 0 < w_max (st_wl s) ->
  ledger_rel ks kd (t_triples swells dwells vols) (st_lw s) (st_lw s') /\
  same_cfg (st_wl s) (st_wl s') /\
  length (t_src swells dwells vols) = length (t_dst swells dwells vols) /\
  length (t_dst swells dwells vols) = length (t_vol swells dwells vols) /\
  (forall v, In v (t_vol swells dwells vols) -> 0 <= v) /\
  exists Ls Ld, nth_error (st_lw s) ks = Some Ls /\ nth_error (st_lw s) kd = Some Ld /\
    (forall w, In w (t_src swells dwells vols) -> lw_index Ls w <> None) /\
    (forall w, In w (t_dst swells dwells vols) -> lw_index Ld w <> None).
Proof.
  unfold transfer. cbv zeta. fold (t_n swells dwells vols).
  fold (t_src swells dwells vols). fold (t_dst swells dwells vols). fold (t_vol swells dwells vols).
  fold (t_triples swells dwells vols).
  intros H Hwf Hm.
  assert (Hdev : w_dev (st_wl s) <> BaseDev).
  { intro E. rewrite E in H. discriminate. }
  assert (H' : match nth_error (st_lw s) ks, nth_error (st_lw s) kd with
               | Some Ls, Some Ld =>
                   if negb ((length (t_src swells dwells vols) =? length (t_dst swells dwells vols))%nat
                            && (length (t_dst swells dwells vols) =? length (t_vol swells dwells vols))%nat)
                   then (s, Some EReject)
                   else if existsb (fun v => Qltb v 0) (t_vol swells dwells vols) then (s, Some EReject)
                   else if existsb (fun w => match lw_index Ls w with None => true | Some _ => false end)
                                   (t_src swells dwells vols)
                           || existsb (fun w => match lw_index Ld w with None => true | Some _ => false end)
                                      (t_dst swells dwells vols)
                   then (s, Some EReject)
                   else
                     match optimize_partition_by (is_trough (lw_geom Ls)) (is_trough (lw_geom Ld)) pb with
                     | Err e => (s, Some EReject)
                     | Ok mode =>
                         match comment (st_wl s) label with
                         | (w, Some e) => (set_wl s w, Some e)
                         | (w, None) =>
                             let triples := t_triples swells dwells vols in
                             let m := w_max w in
                             let acts := plan (w_autosplit w) m mode triples in
                             match exec (set_wl s w) ks kd acts ws kw with
                             | (s', Some e) => (s', Some e)
                             | (s', None) =>
                                 let lab := lvh_label label (lvh_extra (w_autosplit w) m triples) in
                                 let n := n_steps acts in
                                 if (ks =? kd)%nat then (condense_at s' ks (2 * n) lab, None)
                                 else (condense_at (condense_at s' ks n lab) kd n lab, None)
                             end
                         end
                     end
               | _, _ => (s, Some EReject)
               end = (s', None)).
  { destruct (w_dev (st_wl s)); [exact H|exact H|congruence]. }
  clear H. cbv zeta in H'.
  destruct (nth_error (st_lw s) ks) as [Ls|] eqn:Eks; [|discriminate].
  destruct (nth_error (st_lw s) kd) as [Ld|] eqn:Ekd; [|discriminate].
  match type of H' with (if ?c then _ else _) = _ => destruct c eqn:E1; [discriminate|] end.
  match type of H' with (if ?c then _ else _) = _ => destruct c eqn:E2; [discriminate|] end.
  match type of H' with (if ?c then _ else _) = _ => destruct c eqn:E3; [discriminate|] end.
  destruct (optimize_partition_by (is_trough (lw_geom Ls)) (is_trough (lw_geom Ld)) pb)
    as [mode|eo] eqn:Eo; [|discriminate].
  destruct (comment (st_wl s) label) as [w oc] eqn:Ec.
  pose proof (comment_cfg _ _ _ _ Ec) as HC.
  destruct oc as [ec|]; [discriminate|].
  match type of H' with context [exec ?s0 ?k1 ?k2 ?acts ?w1 ?w2] =>
    destruct (exec s0 k1 k2 acts w1 w2) as [s2 oe] eqn:Ee end.
  destruct oe as [ee|]; [discriminate|].
  apply negb_false_iff, andb_true_iff in E1. destruct E1 as [E1a E1b].
  apply Nat.eqb_eq in E1a. apply Nat.eqb_eq in E1b.
  apply orb_false_iff in E3. destruct E3 as [E3a E3b].
  assert (Hnn : forall v, In v (t_vol swells dwells vols) -> 0 <= v).
  { intros v Hv. apply (existsb_false_forall _ _ E2) in Hv. apply Qltb_false. exact Hv. }
  assert (Hall : Forall (fun t : triple => 0 <= snd t) (t_triples swells dwells vols)).
  { apply Forall_forall. intros [sd v] Ht. apply zip_In in Ht. cbn [snd]. apply Hnn. exact (proj2 Ht). }
  assert (Hmw : 0 < w_max w) by (rewrite (proj1 HC); exact Hm).
  pose proof (exec_ledger _ _ _ _ _ _ _ Ee (wf_set_wl _ _ Hwf)) as Hled. cbn [set_wl st_lw] in Hled.
  apply (ledger_rel_sums _ _ _ (t_triples swells dwells vols)) in Hled.
  2: { intros L i. rewrite !well_out_gsum. apply gsum_plan; assumption. }
  2: { intros L i. rewrite !well_in_gsum. apply gsum_plan; assumption. }
  assert (Hcfg2 : same_cfg (st_wl s) (st_wl s2)).
  { apply (same_cfg_trans _ w); [exact HC|].
    apply exec_records in Ee; [|intros sw0 dw0 v0; apply plan_steps_pos].
    exact (proj1 (proj2 Ee)). }
  split; [|split; [|split; [exact E1a|split; [exact E1b|split; [exact Hnn|]]]]].
  - destruct (ks =? kd)%nat; injection H' as <-; repeat apply ledger_rel_condense; exact Hled.
  - destruct (ks =? kd)%nat; injection H' as <-; rewrite ?condense_at_wl; exact Hcfg2.
  - exists Ls, Ld. split; [reflexivity|]. split; [reflexivity|]. split.
    + intros x Hx. apply (existsb_false_forall _ _ E3a) in Hx. destruct (lw_index Ls x); [discriminate|discriminate].
    + intros x Hx. apply (existsb_false_forall _ _ E3b) in Hx. destruct (lw_index Ld x); [discriminate|discriminate].
Qed.

(* ------------------------------------------------------------------------------------------ *)
(** * a run of transfers and commits *)

Definition tc_op (o : op) : Prop :=
  match o with OTransfer _ _ _ _ _ _ _ _ _ | OCommit => True | _ => False end.

(** net volume an operation adds to the well with flat index [i] of labware number [j] (= [L]) *)
Definition op_delta (L : labware) (j : nat) (o : op) (i : nat) : Q :=
  match o with
  | OTransfer ks sw kd dw vs _ _ _ _ =>
      (if (j =? kd)%nat then well_in L i (t_triples sw dw vs) else 0)
      - (if (j =? ks)%nat then well_out L i (t_triples sw dw vs) else 0)
  | _ => 0
  end.
Definition ops_delta (L : labware) (j : nat) (ops : list op) (i : nat) : Q :=
  Qsum (map (fun o => op_delta L j o i) ops).

(** the arguments of an accepted transfer are compatible with the labware *)
Definition op_args_ok (lws : list labware) (o : op) : Prop :=
  match o with
  | OTransfer ks sw kd dw vs _ _ _ _ =>
      length (t_src sw dw vs) = length (t_dst sw dw vs) /\
      length (t_dst sw dw vs) = length (t_vol sw dw vs) /\
      (forall v, In v (t_vol sw dw vs) -> 0 <= v) /\
      exists Ls Ld, nth_error lws ks = Some Ls /\ nth_error lws kd = Some Ld /\
        (forall w, In w (t_src sw dw vs) -> lw_index Ls w <> None) /\
        (forall w, In w (t_dst sw dw vs) -> lw_index Ld w <> None)
  | _ => True
  end.

Lemma ops_delta_cons L j o ops i : ops_delta L j (o :: ops) i == op_delta L j o i + ops_delta L j ops i.
Proof. unfold ops_delta. cbn [map]. apply Qsum_cons. Qed.

Lemma ops_delta_app L j l1 l2 i : ops_delta L j (l1 ++ l2) i == ops_delta L j l1 i + ops_delta L j l2 i.
Proof. unfold ops_delta. rewrite map_app. apply Qsum_app'. Qed.

Lemma ops_delta_nil L j i : ops_delta L j [] i == 0.
Proof. reflexivity. Qed.

Lemma op_delta_geom L1 L2 j o i : lw_geom L1 = lw_geom L2 -> op_delta L1 j o i = op_delta L2 j o i.
Proof.
  intro H. destruct o; try reflexivity. cbn [op_delta].
  rewrite (well_in_geom L1 L2 i _ H), (well_out_geom L1 L2 i _ H). reflexivity.
Qed.

Lemma ops_delta_geom L1 L2 j ops i : lw_geom L1 = lw_geom L2 -> ops_delta L1 j ops i = ops_delta L2 j ops i.
Proof.
  intro H. unfold ops_delta. f_equal. apply map_ext. intro o. apply op_delta_geom. exact H.
Qed.

(** the labware of [lws'] have the geometries of those of [lws] *)
Definition same_geoms (lws lws' : list labware) : Prop :=
  length lws' = length lws /\
  forall j L, nth_error lws j = Some L -> exists L', nth_error lws' j = Some L' /\ lw_geom L' = lw_geom L.

Lemma same_geoms_back lws lws' j L' : same_geoms lws lws' -> nth_error lws' j = Some L' ->
  exists L, nth_error lws j = Some L /\ lw_geom L' = lw_geom L.
Proof.
  intros (Hlen & H) HL'. pose proof (nth_error_lt _ _ _ HL') as Hj. rewrite Hlen in Hj.
  destruct (nth_error lws j) as [L|] eqn:E; [|apply nth_error_None in E; lia].
  exists L. split; [reflexivity|]. destruct (H j L E) as (L2 & HL2 & Hg). rewrite HL' in HL2.
  injection HL2 as <-. exact Hg.
Qed.

Lemma op_args_ok_back lws lws' o : same_geoms lws lws' -> op_args_ok lws' o -> op_args_ok lws o.
Proof.
  intros Hsg. destruct o; try (intros _; exact I). cbn [op_args_ok].
  intros (H1 & H2 & H3 & Ls' & Ld' & HLs & HLd & Hs & Hd).
  destruct (same_geoms_back _ _ _ _ Hsg HLs) as (Ls & HLs0 & Hgs).
  destruct (same_geoms_back _ _ _ _ Hsg HLd) as (Ld & HLd0 & Hgd).
  split; [exact H1|]. split; [exact H2|]. split; [exact H3|].
  exists Ls, Ld. split; [exact HLs0|]. split; [exact HLd0|]. split.
  - intros w Hw. rewrite <- (lw_index_geom Ls' Ls w Hgs). apply Hs. exact Hw.
  - intros w Hw. rewrite <- (lw_index_geom Ld' Ld w Hgd). apply Hd. exact Hw.
Qed.

Lemma run_ops_ledger ops : forall s s',
  Forall tc_op ops -> run_ops s ops = (s', None) -> wf_state s -> 0 < w_max (st_wl s) ->
  wf_state s' /\ w_max (st_wl s') = w_max (st_wl s) /\
  Forall (op_args_ok (st_lw s)) ops /\
  length (st_lw s') = length (st_lw s) /\
  forall j L, nth_error (st_lw s) j = Some L ->
    exists L', nth_error (st_lw s') j = Some L' /\ lw_geom L' = lw_geom L /\
      forall i, vol_at L' i == vol_at L i + ops_delta L j ops i.
Proof.
  induction ops as [|o ops IH]; intros s s' Htc H Hwf Hm.
  - cbn [run_ops] in H. injection H as <-. split; [exact Hwf|]. split; [reflexivity|].
    split; [constructor|]. split; [reflexivity|].
    intros j L HL. exists L. split; [exact HL|]. split; [reflexivity|]. intro i. rewrite ops_delta_nil. ring.
  - cbn [run_ops] in H. destruct (step s o) as [s1 [e|]] eqn:E; [discriminate|].
    inversion Htc as [|o' ops' Ho Hops]; subst o' ops'.
    pose proof (step_wf' _ _ _ _ E Hwf) as Hwf1.
    assert (Hstep : w_max (st_wl s1) = w_max (st_wl s) /\ op_args_ok (st_lw s) o /\
                    length (st_lw s1) = length (st_lw s) /\
                    forall j L, nth_error (st_lw s) j = Some L ->
                      exists L1, nth_error (st_lw s1) j = Some L1 /\ lw_geom L1 = lw_geom L /\
                        forall i, vol_at L1 i == vol_at L i + op_delta L j o i).
    { destruct o; try (destruct Ho).
      - cbn [step] in E.
        destruct (transfer_ledger _ _ _ _ _ _ _ _ _ _ _ E Hwf Hm)
          as ((Hlen & Hled) & Hcfg & A1 & A2 & A3 & A4).
        split; [exact (proj1 Hcfg)|]. split; [cbn [op_args_ok]; auto|]. split; [exact Hlen|].
        intros j L HL. destruct (Hled j L HL) as (L1 & HL1 & Hg & Hv).
        exists L1. split; [exact HL1|]. split; [exact Hg|]. intro i. rewrite Hv. cbn [op_delta]. ring.
      - cbn [step] in E. unfold on_wl, commit in E. injection E as <-.
        split; [reflexivity|]. split; [exact I|]. split; [reflexivity|].
        intros j L HL. exists L. split; [exact HL|]. split; [reflexivity|].
        intro i. cbn [op_delta]. ring. }
    destruct Hstep as (Hm1 & Hok & Hlen1 & Hstep).
    assert (Hm1' : 0 < w_max (st_wl s1)) by (rewrite Hm1; exact Hm).
    destruct (IH _ _ Hops H Hwf1 Hm1') as (Hwf' & Hm' & Hoks & Hlen' & Hrest).
    assert (Hsg : same_geoms (st_lw s) (st_lw s1)).
    { split; [exact Hlen1|]. intros j L HL. destruct (Hstep j L HL) as (L1 & HL1 & Hg & _).
      exists L1. split; assumption. }
    split; [exact Hwf'|]. split; [rewrite Hm'; exact Hm1|]. split.
    { constructor; [exact Hok|]. eapply Forall_impl; [|exact Hoks].
      intros o' Ho'. eapply op_args_ok_back; eassumption. }
    split; [rewrite Hlen'; exact Hlen1|].
    intros j L HL. destruct (Hstep j L HL) as (L1 & HL1 & Hg1 & Hv1).
    destruct (Hrest j L1 HL1) as (L' & HL' & Hg' & Hv').
    exists L'. split; [exact HL'|]. split; [rewrite Hg'; exact Hg1|].
    intro i. rewrite Hv', Hv1, ops_delta_cons, (ops_delta_geom L1 L j ops i Hg1). ring.
Qed.

(* ------------------------------------------------------------------------------------------ *)
(** * sums over index ranges *)

Lemma Qsum_zero {A} (f : A -> Q) l : (forall x, In x l -> f x == 0) -> Qsum (map f l) == 0.
Proof.
  induction l as [|x l IH]; intro H; [reflexivity|].
  cbn [map]. rewrite Qsum_cons, (H x (or_introl eq_refl)), IH; [ring|].
  intros y Hy. apply H. right. exact Hy.
Qed.

Lemma Qsum_indicator (g : nat -> Q) r n : forall a,
  Qsum (map (fun k => if (k =? r)%nat then g k else 0) (seq a n)) ==
  if ((a <=? r) && (r <? a + n))%nat then g r else 0.
Proof.
  induction n as [|n IH]; intro a.
  - cbn [seq map]. destruct (a <=? r)%nat eqn:E1; cbn [andb]; [|reflexivity].
    destruct (r <? a + 0)%nat eqn:E2; [|reflexivity].
    apply Nat.leb_le in E1. apply Nat.ltb_lt in E2. lia.
  - cbn [seq map]. rewrite Qsum_cons, IH.
    destruct (Nat.eqb_spec a r) as [->|Hne].
    + assert (E1 : (S r <=? r)%nat = false) by (apply Nat.leb_gt; lia).
      assert (E2 : (r <=? r)%nat = true) by (apply Nat.leb_le; lia).
      assert (E3 : (r <? r + S n)%nat = true) by (apply Nat.ltb_lt; lia).
      rewrite E1, E2, E3. cbn [andb]. ring.
    + assert (E : (S a <=? r)%nat = (a <=? r)%nat).
      { destruct (a <=? r)%nat eqn:E1; [apply Nat.leb_le in E1; apply Nat.leb_le; lia|].
        apply Nat.leb_gt in E1. apply Nat.leb_gt. lia. }
      rewrite E. replace (S a + n)%nat with (a + S n)%nat by lia.
      destruct ((a <=? r) && (r <? a + S n))%nat; ring.
Qed.

Lemma Qsum_indicator0 (g : nat -> Q) r n : (r < n)%nat ->
  Qsum (map (fun k => if (k =? r)%nat then g k else 0) (seq 0 n)) == g r.
Proof.
  intro H. rewrite Qsum_indicator. cbn [Nat.leb andb Nat.add].
  apply Nat.ltb_lt in H. rewrite H. reflexivity.
Qed.

Lemma Qsum_filter_if {A} (f : A -> bool) (g : A -> Q) l :
  Qsum (map g (filter f l)) == Qsum (map (fun x => if f x then g x else 0) l).
Proof.
  induction l as [|x l IH]; [reflexivity|]. cbn [filter map]. rewrite Qsum_cons.
  destruct (f x); [cbn [map]; rewrite Qsum_cons, IH; reflexivity|rewrite IH; ring].
Qed.

Lemma list_as_seq {A} (d : A) (l : list A) : l = map (fun m => nth m l d) (seq 0 (length l)).
Proof.
  apply (nth_ext _ _ d d); [rewrite map_length, seq_length; reflexivity|].
  intros n Hn. rewrite (nth_map_lt _ _ 0%nat) by (rewrite seq_length; exact Hn).
  rewrite seq_nth by exact Hn. reflexivity.
Qed.

(** a sum over the instructions of a plan, selected by their column *)
Lemma Qsum_by_col (l : list instr) (f : instr -> Q) c :
  (forall m, (m < length l)%nat -> i_col (nth m l dinstr) = m) -> (c < length l)%nat ->
  Qsum (map (fun x => if (i_col x =? c)%nat then f x else 0) l) == f (nth c l dinstr).
Proof.
  intros Hcol Hc. rewrite (list_as_seq dinstr l) at 1. rewrite map_map.
  rewrite (Qsum_map_ext _ (fun m => if (m =? c)%nat then f (nth m l dinstr) else 0)).
  - apply Qsum_indicator0. exact Hc.
  - intros m Hm. apply in_seq in Hm. rewrite Hcol by lia. reflexivity.
Qed.

Lemma zip3_seq (A B : list string) (V : list Q) : forall n,
  length A = n -> length B = n -> length V = n ->
  zip (zip A B) V = map (fun k => (nth k A EmptyString, nth k B EmptyString, nth k V 0)) (seq 0 n).
Proof.
  revert B V. induction A as [|x A IH]; intros B V n HA HB HV.
  - cbn [length] in HA. subst n. reflexivity.
  - destruct B as [|y B]; [cbn [length] in *; lia|]. destruct V as [|v V]; [cbn [length] in *; lia|].
    destruct n as [|n]; [cbn [length] in HA; lia|]. cbn [length] in HA, HB, HV.
    cbn [zip seq map nth]. f_equal. rewrite <- seq_shift, map_map.
    rewrite (IH B V n) by lia. reflexivity.
Qed.

Lemma gsum_map {A} q (f : A -> triple) l :
  gsum q (map f l) == Qsum (map (fun k => if q (fst (f k)) then snd (f k) else 0) l).
Proof.
  induction l as [|x l IH]; [reflexivity|]. cbn [map]. rewrite gsum_cons, Qsum_cons, IH. reflexivity.
Qed.

Lemma gsum_zip3 q (A B : list string) (V : list Q) n :
  length A = n -> length B = n -> length V = n ->
  gsum q (zip (zip A B) V) ==
  Qsum (map (fun k => if q (nth k A EmptyString, nth k B EmptyString) then nth k V 0 else 0) (seq 0 n)).
Proof. intros HA HB HV. rewrite (zip3_seq A B V n HA HB HV), gsum_map. reflexivity. Qed.

Lemma nth_repeat_lt {A} (x d : A) n r : (r < n)%nat -> nth r (repeat x n) d = x.
Proof.
  revert r. induction n as [|n IH]; intros r Hr; [lia|].
  destruct r as [|r]; [reflexivity|]. cbn [repeat nth]. apply IH. lia.
Qed.

Lemma In_broadcast {A} (l : list A) n x : In x (broadcast l n) -> In x l.
Proof.
  destruct l as [|y [|z t]]; cbn [broadcast]; intro H; try exact H.
  apply repeat_spec in H. subst x. left. reflexivity.
Qed.

(** every source well is the real well [k]: the whole volume leaves well [k] *)
Lemma well_out_const L i k (A B : list string) : forall (V : list Q),
  (forall w, In w A -> lw_index L w = Some k) -> length A = length B -> length B = length V ->
  well_out L i (zip (zip A B) V) == if (k =? i)%nat then Qsum V else 0.
Proof.
  revert B. induction A as [|x A IH]; intros B V Hk HA HB.
  - destruct B; [|cbn [length] in HA; lia]. destruct V; [|cbn [length] in HB; lia].
    cbn [zip]. destruct (k =? i)%nat; reflexivity.
  - destruct B as [|y B]; [cbn [length] in HA; lia|]. destruct V as [|v V]; [cbn [length] in HB; lia|].
    cbn [zip]. rewrite well_out_cons, IH.
    + unfold idx_is. rewrite (Hk x (or_introl eq_refl)). destruct (k =? i)%nat; [rewrite Qsum_cons; reflexivity|ring].
    + intros w Hw. apply Hk. right. exact Hw.
    + cbn [length] in HA. lia.
    + cbn [length] in HB. lia.
Qed.

(** source and destination well coincide in every triple: nothing changes *)
Lemma well_in_out_diag L i (T : list triple) :
  (forall t, In t T -> fst (fst t) = snd (fst t)) -> well_in L i T == well_out L i T.
Proof.
  intro H. rewrite well_in_gsum, well_out_gsum. apply gsum_ext. intros t Ht.
  cbn beta. rewrite (H t Ht). reflexivity.
Qed.

Lemma zip_diag {A} (l : list A) a b : In (a, b) (zip l l) -> a = b.
Proof.
  induction l as [|x l IH]; cbn [zip In]; [intros []|]. intros [H|H]; [congruence|exact (IH H)].
Qed.

(* ------------------------------------------------------------------------------------------ *)
(** * wells of plates and troughs *)

Lemma plate_lw_index P r c :
  g_vrows (lw_geom P) = None -> (r < n_row_ids (lw_geom P))%nat -> (c < g_cols (lw_geom P))%nat ->
  lw_index P (well_id r c) = Some (r * g_cols (lw_geom P) + c)%nat.
Proof.
  intros Hv Hr Hc. unfold lw_index. rewrite well_index_ok by assumption. rewrite Hv. reflexivity.
Qed.

Lemma plate_idx_is P r c r' c' :
  g_vrows (lw_geom P) = None -> (r' < n_row_ids (lw_geom P))%nat ->
  (c' < g_cols (lw_geom P))%nat -> (c < g_cols (lw_geom P))%nat ->
  idx_is P (r * g_cols (lw_geom P) + c) (well_id r' c') = ((r' =? r) && (c' =? c))%nat.
Proof.
  intros Hv Hr' Hc' Hc. unfold idx_is. rewrite plate_lw_index by assumption.
  set (g := g_cols (lw_geom P)) in *.
  destruct (Nat.eqb_spec (r' * g + c') (r * g + c)) as [E|E].
  - rewrite (Nat.mul_comm r' g), (Nat.mul_comm r g) in E.
    destruct (Nat.div_mod_unique g r' r c' c Hc' Hc E) as [-> ->].
    rewrite !Nat.eqb_refl. reflexivity.
  - destruct (Nat.eqb_spec r' r) as [->|Hr]; [|reflexivity].
    destruct (Nat.eqb_spec c' c) as [->|Hcc]; [congruence|reflexivity].
Qed.

(** in a trough every row letter of a column is the same real well *)
Lemma trough_lw_index L v r c :
  g_vrows (lw_geom L) = Some v -> (r < n_row_ids (lw_geom L))%nat ->
  lw_index L (well_id r c) <> None -> lw_index L (well_id r c) = Some c /\ (c < g_cols (lw_geom L))%nat.
Proof.
  intros Hv Hr Hne. unfold lw_index in *.
  destruct (well_index (lw_geom L) (well_id r c)) as [rc|] eqn:E; [|congruence].
  destruct (well_index_domain _ _ _ E) as (r' & c' & Hr' & Hc' & Hid & _).
  pose proof (n_row_ids_le (lw_geom L)) as Hle.
  destruct (well_id_injective r c r' c' ltac:(lia) ltac:(lia) Hid) as [_ <-].
  rewrite well_index_ok in E by assumption. rewrite Hv in E. injection E as <-.
  split; [reflexivity|exact Hc'].
Qed.

Lemma column_wells_nth R col k : (k < R)%nat -> nth k (column_wells R col) EmptyString = well_id k col.
Proof.
  intro Hk. unfold column_wells. rewrite (nth_map_lt _ _ 0%nat) by (rewrite seq_length; exact Hk).
  rewrite seq_nth by exact Hk. reflexivity.
Qed.

Lemma cycle_wells_In n l w : In w (cycle_wells n l) -> In w l.
Proof.
  unfold cycle_wells. intro H. apply firstn_In in H. apply in_concat in H.
  destruct H as (x & Hx & Hw). apply repeat_spec in Hx. subst x. exact Hw.
Qed.

Lemma concat_repeat_length {A} (l : list A) k : length (concat (repeat l k)) = (k * length l)%nat.
Proof. induction k as [|k IH]; [reflexivity|]. cbn [repeat concat]. rewrite app_length, IH. lia. Qed.

Lemma cycle_wells_length n l : l <> [] -> length (cycle_wells n l) = n.
Proof.
  intro Hl. unfold cycle_wells. apply firstn_length_le. rewrite concat_repeat_length.
  assert (Hlen : length l <> 0%nat) by (destruct l; [congruence|discriminate]).
  pose proof (Nat.mul_succ_div_gt n (length l) Hlen) as H. lia.
Qed.

Lemma trough_column_wells_In g col w : In w (trough_column_wells g col) ->
  exists r, (r < n_row_ids g)%nat /\ w = well_id r col.
Proof.
  unfold trough_column_wells. intro H. apply in_map_iff in H. destruct H as (r & <- & Hr).
  apply in_seq in Hr. exists r. split; [lia|reflexivity].
Qed.

Lemma broadcast_len {A} (l : list A) n : length l = n -> broadcast l n = l.
Proof. intros <-. apply broadcast_self. Qed.

Lemma t_triples_A1 sw dw vs n : length sw = n -> length dw = n -> length vs = n ->
  t_triples (A1 sw) (A1 dw) (A1 vs) = zip (zip sw dw) vs.
Proof.
  intros H1 H2 H3. unfold t_triples, t_src, t_dst, t_vol, t_n. cbn [flattenF].
  rewrite H1, H2, H3, !Nat.max_id, !broadcast_len by assumption. reflexivity.
Qed.

Lemma t_triples_A1_A0 sw dw v n : (1 <= n)%nat -> length sw = n -> length dw = n ->
  t_triples (A1 sw) (A1 dw) (A0 v) = zip (zip sw dw) (repeat v n).
Proof.
  intros Hn H1 H2. unfold t_triples, t_src, t_dst, t_vol, t_n. cbn [flattenF length].
  rewrite H1, H2. replace (Nat.max n (Nat.max n 1)) with n by lia.
  rewrite !broadcast_len by assumption. reflexivity.
Qed.

Lemma t_triples_diag sw vs t : In t (t_triples sw sw vs) -> fst (fst t) = snd (fst t).
Proof.
  unfold t_triples. destruct t as [[x y] v]. intro H. apply zip_In in H. destruct H as [H _].
  cbn [fst snd]. unfold t_src, t_dst in H. exact (zip_diag _ _ _ H).
Qed.

(* ------------------------------------------------------------------------------------------ *)
(** * what the transfers of one instruction do to a well of the plate *)

Section PlateWell.
Variables (P : labware) (R r c : nat).
Hypothesis HPv : g_vrows (lw_geom P) = None.
Hypothesis HR : (R <= n_row_ids (lw_geom P))%nat.
Hypothesis Hr : (r < R)%nat.
Hypothesis Hc : (c < g_cols (lw_geom P))%nat.

Definition pidx : nat := (r * g_cols (lw_geom P) + c)%nat.

Lemma plate_col_sum (V : list Q) col : (col < g_cols (lw_geom P))%nat ->
  Qsum (map (fun k => if idx_is P pidx (well_id k col) then nth k V 0 else 0) (seq 0 R)) ==
  if (col =? c)%nat then nth r V 0 else 0.
Proof.
  intro Hcol.
  rewrite (Qsum_map_ext _ (fun k => if (k =? r)%nat then (if (col =? c)%nat then nth k V 0 else 0) else 0)).
  - rewrite Qsum_indicator0 by exact Hr. reflexivity.
  - intros k Hk. apply in_seq in Hk. unfold pidx. rewrite plate_idx_is by (assumption || lia).
    destruct (k =? r)%nat; destruct (col =? c)%nat; reflexivity.
Qed.

Lemma well_in_plate_col (A : list string) (V : list Q) col :
  length A = R -> length V = R -> (col < g_cols (lw_geom P))%nat ->
  well_in P pidx (zip (zip A (column_wells R col)) V) == if (col =? c)%nat then nth r V 0 else 0.
Proof.
  intros HA HV Hcol. rewrite well_in_gsum, (gsum_zip3 _ A (column_wells R col) V R HA (column_wells_length R col) HV).
  cbn [snd]. rewrite <- (plate_col_sum V col Hcol). apply Qsum_map_ext.
  intros k Hk. apply in_seq in Hk. rewrite column_wells_nth by lia. reflexivity.
Qed.

Lemma well_out_plate_col (B : list string) (V : list Q) col :
  length B = R -> length V = R -> (col < g_cols (lw_geom P))%nat ->
  well_out P pidx (zip (zip (column_wells R col) B) V) == if (col =? c)%nat then nth r V 0 else 0.
Proof.
  intros HB HV Hcol. rewrite well_out_gsum, (gsum_zip3 _ (column_wells R col) B V R (column_wells_length R col) HB HV).
  cbn [fst]. rewrite <- (plate_col_sum V col Hcol). apply Qsum_map_ext.
  intros k Hk. apply in_seq in Hk. rewrite column_wells_nth by lia. reflexivity.
Qed.

End PlateWell.

Lemma nth_inject r l : nth r (map inject_Z l) 0 = inject_Z (nth r l 0%Z).
Proof. exact (map_nth inject_Z l 0%Z r). Qed.

Lemma ops_delta_flat_map {A} L k (f : A -> list op) l i :
  ops_delta L k (flat_map f l) i == Qsum (map (fun x => ops_delta L k (f x) i) l).
Proof.
  induction l as [|x l IH]; [reflexivity|].
  cbn [flat_map map]. rewrite ops_delta_app, Qsum_cons, IH. reflexivity.
Qed.

Lemma Qsum_minus {A} (f g : A -> Q) l :
  Qsum (map (fun x => f x - g x) l) == Qsum (map f l) - Qsum (map g l).
Proof.
  induction l as [|x l IH]; [unfold Qsum; cbn [map fold_right]; ring|].
  cbn [map]. rewrite !Qsum_cons, IH. ring.
Qed.

Lemma Qsum_if_const {A} (b : bool) (h : A -> Q) l :
  Qsum (map (fun x => if b then h x else 0) l) == if b then Qsum (map h l) else 0.
Proof. destruct b; [reflexivity|]. apply Qsum_zero. intros x _. reflexivity. Qed.

Lemma drawn_Qsum p k r :
  inject_Z (drawn p k r) ==
  Qsum (map (fun j => inject_Z (nth r (i_vols j) 0%Z)) (filter (feeds k) (dp_instr p))).
Proof.
  unfold drawn. rewrite <- Qsum_inject, map_map. reflexivity.
Qed.

Section InstrPlate.
Variables (a : twl_args) (p : dplan) (gs gd : geom) (P : labware) (r c : nat).
Hypothesis HPv : g_vrows (lw_geom P) = None.
Hypothesis HR : (tw_R a <= n_row_ids (lw_geom P))%nat.
Hypothesis Hr : (r < tw_R a)%nat.
Hypothesis Hc : (c < g_cols (lw_geom P))%nat.
Hypothesis Hps : tw_plate a <> tw_stock a.
Hypothesis Hpd : tw_plate a <> tw_diluent a.
Hypothesis Hdest : forall d, tw_dest a = Some d -> d <> tw_plate a.
Hypothesis Hgs : trough_column_wells gs (tw_stock_column a) <> [].
Hypothesis Hgd : trough_column_wells gd (tw_diluent_column a) <> [].

Let i := pidx P r c.
Let pl := tw_plate a.

Lemma stock_op_plate x : length (i_vols x) = tw_R a -> (i_col x < g_cols (lw_geom P))%nat ->
  op_delta P pl (stock_op a gs x) i == if (i_col x =? c)%nat then inject_Z (nth r (i_vols x) 0%Z) else 0.
Proof.
  intros Hlen Hcol. unfold stock_op, col_wells, pl. cbn [op_delta]. rewrite Nat.eqb_refl.
  assert (E : (tw_plate a =? tw_stock a)%nat = false) by (apply Nat.eqb_neq; exact Hps). rewrite E.
  rewrite (t_triples_A1 _ _ _ (tw_R a));
    [|apply cycle_wells_length; exact Hgs|apply column_wells_length|rewrite map_length; exact Hlen].
  unfold i. rewrite well_in_plate_col;
    [|assumption|assumption|assumption|assumption|apply cycle_wells_length; exact Hgs
     |rewrite map_length; exact Hlen|exact Hcol].
  rewrite nth_inject. destruct (i_col x =? c)%nat; ring.
Qed.

Lemma dilute_op_plate x : length (i_vols x) = tw_R a -> (i_col x < g_cols (lw_geom P))%nat ->
  op_delta P pl (dilute_op a p gd x) i ==
  if (i_col x =? c)%nat then vm_of p x - inject_Z (nth r (i_vols x) 0%Z) else 0.
Proof.
  intros Hlen Hcol. unfold dilute_op, col_wells, pl. cbn [op_delta]. rewrite Nat.eqb_refl.
  assert (E : (tw_plate a =? tw_diluent a)%nat = false) by (apply Nat.eqb_neq; exact Hpd). rewrite E.
  rewrite (t_triples_A1 _ _ _ (tw_R a));
    [|apply cycle_wells_length; exact Hgd|apply column_wells_length|rewrite !map_length; exact Hlen].
  unfold i. rewrite well_in_plate_col;
    [|assumption|assumption|assumption|assumption|apply cycle_wells_length; exact Hgd
     |rewrite !map_length; exact Hlen|exact Hcol].
  destruct (i_col x =? c)%nat; [|ring].
  rewrite (nth_map_lt _ _ 0) by (rewrite map_length, Hlen; exact Hr).
  rewrite Qred_correct, nth_inject. ring.
Qed.

Lemma mix_op_plate wm x ws : op_delta P pl (mix_op a p wm x ws) i == 0.
Proof.
  unfold mix_op, pl. cbn [op_delta]. rewrite Nat.eqb_refl.
  rewrite well_in_out_diag; [ring|]. intros t Ht. exact (t_triples_diag _ _ _ Ht).
Qed.

Lemma serial_op_plate x j :
  length (i_vols j) = tw_R a -> (i_col x < g_cols (lw_geom P))%nat -> (i_col j < g_cols (lw_geom P))%nat ->
  op_delta P pl (serial_op a x j) i ==
  (if (i_col j =? c)%nat then inject_Z (nth r (i_vols j) 0%Z) else 0)
  - (if (i_col x =? c)%nat then inject_Z (nth r (i_vols j) 0%Z) else 0).
Proof.
  intros Hlen Hcx Hcj. unfold serial_op, col_wells, pl. cbn [op_delta]. rewrite Nat.eqb_refl.
  rewrite (t_triples_A1 _ _ _ (tw_R a));
    [|apply column_wells_length|apply column_wells_length|rewrite map_length; exact Hlen].
  unfold i. rewrite well_in_plate_col;
    [|assumption|assumption|assumption|assumption|apply column_wells_length
     |rewrite map_length; exact Hlen|exact Hcj].
  rewrite well_out_plate_col;
    [|assumption|assumption|assumption|assumption|apply column_wells_length
     |rewrite map_length; exact Hlen|exact Hcx].
  rewrite nth_inject. reflexivity.
Qed.

Lemma dest_op_plate x d : tw_dest a = Some d -> (i_col x < g_cols (lw_geom P))%nat ->
  op_delta P pl (dest_op a x d) i == - (if (i_col x =? c)%nat then tw_v_destination a else 0).
Proof.
  intros Hd Hcx. unfold dest_op, col_wells, pl. cbn [op_delta].
  assert (E : (tw_plate a =? d)%nat = false).
  { apply Nat.eqb_neq. intro E. exact (Hdest d Hd (eq_sym E)). }
  rewrite E, Nat.eqb_refl.
  rewrite (t_triples_A1_A0 _ _ _ (tw_R a)); [|lia|apply column_wells_length|apply column_wells_length].
  unfold i. rewrite well_out_plate_col;
    [|assumption|assumption|assumption|assumption|apply column_wells_length|apply repeat_length|exact Hcx].
  rewrite nth_repeat_lt by exact Hr. ring.
Qed.

(** net change of plate well (r, c) by the operations of instruction [x] *)
Definition instr_plate_delta (x : instr) : Q :=
  (if (i_col x =? c)%nat then
     vm_of p x - (if stock_prepared x then 0 else inject_Z (nth r (i_vols x) 0%Z))
     - inject_Z (drawn p (i_col x) r)
     - (match tw_dest a with Some _ => tw_v_destination a | None => 0 end)
   else 0)
  + Qsum (map (fun j => if (i_col j =? c)%nat then inject_Z (nth r (i_vols j) 0%Z) else 0)
              (filter (feeds (i_col x)) (dp_instr p))).

Lemma instr_ops_plate wm x :
  length (i_vols x) = tw_R a -> (i_col x < g_cols (lw_geom P))%nat ->
  (forall j, In j (filter (feeds (i_col x)) (dp_instr p)) ->
     length (i_vols j) = tw_R a /\ (i_col j < g_cols (lw_geom P))%nat) ->
  ops_delta P pl (instr_ops a p wm gs gd x) i == instr_plate_delta x.
Proof.
  intros Hlen Hcx Hfed. rewrite c14_exec_structure, !ops_delta_app.
  assert (E1 : ops_delta P pl (stock_part a gs x) i ==
               if (i_col x =? c)%nat then (if stock_prepared x then inject_Z (nth r (i_vols x) 0%Z) else 0) else 0).
  { unfold stock_part, stock_prepared. destruct (i_src x) as [k|].
    - rewrite ops_delta_nil. destruct (i_col x =? c)%nat; reflexivity.
    - rewrite !ops_delta_cons, ops_delta_nil, (stock_op_plate x Hlen Hcx). cbn [op_delta].
      destruct (i_col x =? c)%nat; ring. }
  assert (E2 : ops_delta P pl (dilute_part a p gd x) i ==
               if (i_col x =? c)%nat then vm_of p x - inject_Z (nth r (i_vols x) 0%Z) else 0).
  { unfold dilute_part. rewrite !ops_delta_cons, ops_delta_nil, (dilute_op_plate x Hlen Hcx). cbn [op_delta]. ring. }
  assert (E3 : ops_delta P pl (mix_part a p wm x) i == 0).
  { unfold mix_part. destruct (needs_mix a p x); [|reflexivity].
    rewrite ops_delta_flat_map. apply Qsum_zero. intros k _.
    rewrite !ops_delta_cons, ops_delta_nil, mix_op_plate. cbn [op_delta]. ring. }
  assert (E4 : ops_delta P pl (serial_part a p x) i ==
               Qsum (map (fun j => if (i_col j =? c)%nat then inject_Z (nth r (i_vols j) 0%Z) else 0)
                         (filter (feeds (i_col x)) (dp_instr p)))
               - (if (i_col x =? c)%nat then inject_Z (drawn p (i_col x) r) else 0)).
  { unfold serial_part. rewrite ops_delta_flat_map.
    rewrite (Qsum_map_ext _ (fun j => (if (i_col j =? c)%nat then inject_Z (nth r (i_vols j) 0%Z) else 0)
                                      - (if (i_col x =? c)%nat then inject_Z (nth r (i_vols j) 0%Z) else 0))).
    - rewrite Qsum_minus, Qsum_if_const. destruct (i_col x =? c)%nat; [rewrite drawn_Qsum|]; reflexivity.
    - intros j Hj. destruct (Hfed j Hj) as (Hlj & Hcj).
      rewrite !ops_delta_cons, ops_delta_nil, (serial_op_plate x j Hlj Hcx Hcj). cbn [op_delta]. ring. }
  assert (E5 : ops_delta P pl (dest_part a x) i ==
               - (if (i_col x =? c)%nat
                  then (match tw_dest a with Some _ => tw_v_destination a | None => 0 end) else 0)).
  { unfold dest_part. remember (tw_dest a) as od eqn:Ed in |- *. destruct od as [d|].
    - rewrite !ops_delta_cons, ops_delta_nil, (dest_op_plate x d (eq_sym Ed) Hcx). cbn [op_delta]. ring.
    - rewrite ops_delta_nil. destruct (i_col x =? c)%nat; ring. }
  rewrite E1, E2, E3, E4, E5. unfold instr_plate_delta.
  destruct (i_col x =? c)%nat; destruct (stock_prepared x); ring.
Qed.

End InstrPlate.

(* ------------------------------------------------------------------------------------------ *)
(** * what a list of transfers does to a trough column *)

Lemma lw_index_col_bound L r c : (r < 26)%nat -> lw_index L (well_id r c) <> None -> (c < g_cols (lw_geom L))%nat.
Proof.
  intros Hr Hne. unfold lw_index in Hne.
  destruct (well_index (lw_geom L) (well_id r c)) as [rc|] eqn:E; [|congruence].
  destruct (well_index_domain _ _ _ E) as (r' & c' & Hr' & Hc' & Hid & _).
  pose proof (n_row_ids_le (lw_geom L)) as Hle.
  destruct (well_id_injective r c r' c' Hr ltac:(lia) Hid) as [_ <-]. exact Hc'.
Qed.

(** labware [kt] is never a destination, and as a source only with wells of its column [tcol] *)
Definition draws_only_column (kt : nat) (g : geom) (tcol : nat) (o : op) : Prop :=
  match o with
  | OTransfer ks sw kd dw vs _ _ _ _ =>
      kd <> kt /\ (ks = kt -> forall w, In w (flattenF sw) -> In w (trough_column_wells g tcol))
  | _ => True
  end.

Lemma trough_delta_op lws kt T v tcol o i :
  nth_error lws kt = Some T -> g_vrows (lw_geom T) = Some v ->
  draws_only_column kt (lw_geom T) tcol o -> op_args_ok lws o ->
  op_delta T kt o i == - (if (i =? tcol)%nat then requested kt o else 0).
Proof.
  intros HT Hv Hd Hok. destruct o; try (cbn [op_delta requested]; destruct (i =? tcol)%nat; ring).
  cbn [op_delta requested draws_only_column op_args_ok] in *.
  destruct Hd as (Hkd & Hsrc). destruct Hok as (L1 & L2 & L3 & Ls & Ld & HLs & HLd & Hrs & Hrd).
  assert (E : (kt =? kd)%nat = false) by (apply Nat.eqb_neq; congruence). rewrite E.
  rewrite (Nat.eqb_sym kt ks).
  destruct (Nat.eqb_spec ks kt) as [->|Hne]; [|destruct (i =? tcol)%nat; ring].
  rewrite HT in HLs. injection HLs as <-.
  unfold t_triples. rewrite (well_out_const T i tcol).
  - rewrite (Nat.eqb_sym tcol i). unfold transfer_total. fold (t_n swells dwells vols). fold (t_vol swells dwells vols).
    destruct (i =? tcol)%nat; ring.
  - intros w Hw. pose proof (Hrs w Hw) as Hne.
    apply In_broadcast in Hw. apply (Hsrc eq_refl) in Hw.
    destruct (trough_column_wells_In _ _ _ Hw) as (r & Hr & ->).
    exact (proj1 (trough_lw_index T v r tcol Hv Hr Hne)).
  - exact L1.
  - exact L2.
Qed.

Lemma trough_delta_ops lws kt T v tcol i ops :
  nth_error lws kt = Some T -> g_vrows (lw_geom T) = Some v ->
  Forall (draws_only_column kt (lw_geom T) tcol) ops -> Forall (op_args_ok lws) ops ->
  ops_delta T kt ops i == - (if (i =? tcol)%nat then requested_all kt ops else 0).
Proof.
  intros HT Hv Hd Hok. induction ops as [|o ops IH].
  - rewrite ops_delta_nil. unfold requested_all. cbn [map]. destruct (i =? tcol)%nat; reflexivity.
  - inversion Hd as [|o1 l1 Hd1 Hd2]; subst o1 l1. inversion Hok as [|o2 l2 Hok1 Hok2]; subst o2 l2.
    rewrite ops_delta_cons, (IH Hd2 Hok2), (trough_delta_op lws kt T v tcol o i HT Hv Hd1 Hok1).
    unfold requested_all. cbn [map]. destruct (i =? tcol)%nat; [rewrite Qsum_cons|]; ring.
Qed.

(** the operations of one instruction, by kind *)
Lemma instr_ops_In a p wm gs gd x o : In o (instr_ops a p wm gs gd x) ->
  o = OCommit \/ o = stock_op a gs x \/ o = dilute_op a p gd x \/ (exists ws, o = mix_op a p wm x ws) \/
  (exists j, In j (filter (feeds (i_col x)) (dp_instr p)) /\ o = serial_op a x j) \/
  (exists d, tw_dest a = Some d /\ o = dest_op a x d).
Proof.
  rewrite c14_exec_structure. intro H.
  apply in_app_or in H. destruct H as [H|H].
  { unfold stock_part in H. destruct (i_src x); [destruct H|].
    destruct H as [H|[H|[]]]; subst o; auto. }
  apply in_app_or in H. destruct H as [H|H].
  { destruct H as [H|[H|[]]]; subst o; auto. }
  apply in_app_or in H. destruct H as [H|H].
  { unfold mix_part in H. destruct (needs_mix a p x); [|destruct H].
    apply in_flat_map in H. destruct H as (k & _ & [H|[H|[]]]); subst o; [|auto].
    right. right. right. left. eexists. reflexivity. }
  apply in_app_or in H. destruct H as [H|H].
  { unfold serial_part in H. apply in_flat_map in H. destruct H as (j & Hj & [H|[H|[]]]); subst o; [|auto].
    right. right. right. right. left. exists j. split; [exact Hj|reflexivity]. }
  unfold dest_part in H. destruct (tw_dest a) as [d|]; [|destruct H].
  destruct H as [H|[H|[]]]; subst o; [|auto].
  right. right. right. right. right. exists d. split; reflexivity.
Qed.

Lemma plan_ops_In a p gs gd is wms o : In o (plan_ops a p gs gd is wms) ->
  exists x wm, In x is /\ In o (instr_ops a p wm gs gd x).
Proof.
  unfold plan_ops. intro H. apply in_flat_map in H. destruct H as ([x wm] & Hin & Ho).
  exists x, wm. split; [exact (zip_In_fst _ _ _ Hin)|exact Ho].
Qed.

Lemma plan_ops_tc a p gs gd is wms : Forall tc_op (plan_ops a p gs gd is wms).
Proof.
  apply Forall_forall. intros o Ho. destruct (plan_ops_In _ _ _ _ _ _ _ Ho) as (x & wm & _ & Hin).
  destruct (instr_ops_In _ _ _ _ _ _ _ Hin) as [->|[->|[->|[(ws & ->)|[(j & _ & ->)|(d & _ & ->)]]]]]; exact I.
Qed.

Lemma plan_ops_stock_column a p gs gd is wms :
  tw_plate a <> tw_stock a -> tw_stock a <> tw_diluent a ->
  (forall d, tw_dest a = Some d -> d <> tw_stock a) ->
  Forall (draws_only_column (tw_stock a) gs (tw_stock_column a)) (plan_ops a p gs gd is wms).
Proof.
  intros Hps Hsd Hds. apply Forall_forall. intros o Ho.
  destruct (plan_ops_In _ _ _ _ _ _ _ Ho) as (x & wm & _ & Hin).
  destruct (instr_ops_In _ _ _ _ _ _ _ Hin) as [->|[->|[->|[(ws & ->)|[(j & _ & ->)|(d & Hd & ->)]]]]];
    cbn [draws_only_column stock_op dilute_op mix_op serial_op dest_op flattenF]; try exact I.
  - split; [exact Hps|]. intros _ w Hw. exact (cycle_wells_In _ _ _ Hw).
  - split; [exact Hps|]. intro E. congruence.
  - split; [exact Hps|]. intro E. congruence.
  - split; [exact Hps|]. intro E. congruence.
  - split; [exact (Hds d Hd)|]. intro E. congruence.
Qed.

Lemma plan_ops_diluent_column a p gs gd is wms :
  tw_plate a <> tw_diluent a -> tw_stock a <> tw_diluent a ->
  (forall d, tw_dest a = Some d -> d <> tw_diluent a) ->
  Forall (draws_only_column (tw_diluent a) gd (tw_diluent_column a)) (plan_ops a p gs gd is wms).
Proof.
  intros Hpd Hsd Hdd. apply Forall_forall. intros o Ho.
  destruct (plan_ops_In _ _ _ _ _ _ _ Ho) as (x & wm & _ & Hin).
  destruct (instr_ops_In _ _ _ _ _ _ _ Hin) as [->|[->|[->|[(ws & ->)|[(j & _ & ->)|(d & Hd & ->)]]]]];
    cbn [draws_only_column stock_op dilute_op mix_op serial_op dest_op flattenF]; try exact I.
  - split; [exact Hpd|]. intro E. congruence.
  - split; [exact Hpd|]. intros _ w Hw. exact (cycle_wells_In _ _ _ Hw).
  - split; [exact Hpd|]. intro E. congruence.
  - split; [exact Hpd|]. intro E. congruence.
  - split; [exact (Hdd d Hd)|]. intro E. congruence.
Qed.

(* ------------------------------------------------------------------------------------------ *)
(** * the whole plan: what arrives in plate well (r, c) *)

Lemma Qsum_plus {A} (f g : A -> Q) l :
  Qsum (map (fun x => f x + g x) l) == Qsum (map f l) + Qsum (map g l).
Proof.
  induction l as [|x l IH]; [unfold Qsum; cbn [map fold_right]; ring|].
  cbn [map]. rewrite !Qsum_cons, IH. ring.
Qed.

(* ------------------------------------------------------------------------------------------ *)
(** * requests by trough column (stock and diluent may be two columns of ONE trough) *)

(** the well id names a well of column [col] (any row letter) *)
Definition in_column (col : nat) (w : string) : bool :=
  match id_rc w with Some rc => (snd rc =? col)%nat | None => false end.
(** volume one [transfer] call requests from the wells of column [col] of its source labware *)
Definition column_total (col : nat) (sw dw : arr string) (vs : arr Q) : Q :=
  gsum (fun sd => in_column col (fst sd)) (t_triples sw dw vs).
Definition requested_col (k col : nat) (o : op) : Q :=
  match o with
  | OTransfer ks sw _ dw vs _ _ _ _ => if (ks =? k)%nat then column_total col sw dw vs else 0
  | _ => 0
  end.
Definition requested_col_all (k col : nat) (ops : list op) : Q := Qsum (map (requested_col k col) ops).

Lemma in_column_well_id r c col : (r < 26)%nat -> in_column col (well_id r c) = (c =? col)%nat.
Proof. intro Hr. unfold in_column. rewrite id_rc_well_id by exact Hr. reflexivity. Qed.

Lemma gsum_src_const (q : string -> bool) (b : bool) (A B : list string) : forall (V : list Q),
  (forall w, In w A -> q w = b) -> length A = length B -> length B = length V ->
  gsum (fun sd => q (fst sd)) (zip (zip A B) V) == if b then Qsum V else 0.
Proof.
  revert B. induction A as [|x A IH]; intros B V Hq HA HB.
  - destruct B; [|cbn [length] in HA; lia]. destruct V; [|cbn [length] in HB; lia].
    cbn [zip]. rewrite gsum_nil. destruct b; reflexivity.
  - destruct B as [|y B]; [cbn [length] in HA; lia|]. destruct V as [|v V]; [cbn [length] in HB; lia|].
    cbn [zip]. rewrite gsum_cons, IH.
    + cbn [fst snd]. rewrite (Hq x (or_introl eq_refl)). destruct b; [rewrite Qsum_cons; reflexivity|ring].
    + intros w Hw. apply Hq. right. exact Hw.
    + cbn [length] in HA. lia.
    + cbn [length] in HB. lia.
Qed.

Lemma requested_col_all_app k col l1 l2 :
  requested_col_all k col (l1 ++ l2) == requested_col_all k col l1 + requested_col_all k col l2.
Proof. unfold requested_col_all. rewrite map_app. apply Qsum_app'. Qed.

Lemma requested_col_all_cons k col o l :
  requested_col_all k col (o :: l) == requested_col k col o + requested_col_all k col l.
Proof. unfold requested_col_all. cbn [map]. apply Qsum_cons. Qed.

Lemma requested_col_all_nil k col : requested_col_all k col [] == 0.
Proof. reflexivity. Qed.

Lemma requested_col_all_zero k col ops :
  (forall o, In o ops -> requested_col k col o == 0) -> requested_col_all k col ops == 0.
Proof. intro H. unfold requested_col_all. apply Qsum_zero. exact H. Qed.

Lemma requested_col_all_flat_map {A} k col (f : A -> list op) l :
  requested_col_all k col (flat_map f l) == Qsum (map (fun x => requested_col_all k col (f x)) l).
Proof.
  induction l as [|x l IH]; [reflexivity|].
  cbn [flat_map map]. rewrite requested_col_all_app, Qsum_cons, IH. reflexivity.
Qed.

Lemma trough_wells_ne g col : (0 < n_row_ids g)%nat -> trough_column_wells g col <> [].
Proof.
  intro H. unfold trough_column_wells. destruct (n_row_ids g) as [|n]; [lia|]. cbn [seq map]. discriminate.
Qed.

Lemma trough_cycle_in_column g tcol col n w :
  In w (cycle_wells n (trough_column_wells g tcol)) -> in_column col w = (tcol =? col)%nat.
Proof.
  intro Hw. apply cycle_wells_In in Hw. destruct (trough_column_wells_In _ _ _ Hw) as (r & Hr & ->).
  apply in_column_well_id. pose proof (n_row_ids_le g) as Hle. lia.
Qed.

(** a transfer from column [tcol] of a trough into a plate column requests everything from that column *)
Lemma trough_transfer_col a g tcol col (V : list Q) cx :
  (0 < n_row_ids g)%nat -> length V = tw_R a ->
  column_total col (A1 (cycle_wells (tw_R a) (trough_column_wells g tcol))) (col_wells a cx) (A1 V) ==
  if (tcol =? col)%nat then Qsum V else 0.
Proof.
  intros Hg LV. unfold column_total, col_wells.
  rewrite (t_triples_A1 _ _ _ (tw_R a));
    [|apply cycle_wells_length; apply trough_wells_ne; exact Hg|apply column_wells_length|exact LV].
  apply gsum_src_const.
  - intros w Hw. exact (trough_cycle_in_column _ _ _ _ _ Hw).
  - rewrite column_wells_length. apply cycle_wells_length. apply trough_wells_ne. exact Hg.
  - rewrite column_wells_length. symmetry. exact LV.
Qed.

Section RequestedCol.
Variables (a : twl_args) (p : dplan) (gs gd : geom) (k col : nat).
Hypothesis Hpk : tw_plate a <> k.
Hypothesis Hgs : (0 < n_row_ids gs)%nat.
Hypothesis Hgd : (0 < n_row_ids gd)%nat.

(** nothing but the first two transfers of an instruction draws from a trough *)
Lemma plate_parts_col_zero wmax i :
  requested_col_all k col (mix_part a p wmax i ++ serial_part a p i ++ dest_part a i) == 0.
Proof.
  pose proof Hpk as Hk. apply Nat.eqb_neq in Hk. apply requested_col_all_zero. intros o Ho.
  apply in_app_or in Ho. destruct Ho as [Ho|Ho]; [|apply in_app_or in Ho; destruct Ho as [Ho|Ho]].
  - unfold mix_part in Ho. destruct (needs_mix a p i); [|destruct Ho].
    apply in_flat_map in Ho. destruct Ho as (r & _ & [Ho|[Ho|[]]]); subst o; [|reflexivity].
    unfold mix_op. cbn [requested_col]. rewrite Hk. reflexivity.
  - unfold serial_part in Ho.
    apply in_flat_map in Ho. destruct Ho as (j & _ & [Ho|[Ho|[]]]); subst o; [|reflexivity].
    unfold serial_op. cbn [requested_col]. rewrite Hk. reflexivity.
  - unfold dest_part in Ho. destruct (tw_dest a) as [d|]; [|destruct Ho].
    destruct Ho as [Ho|[Ho|[]]]; subst o; [|reflexivity].
    unfold dest_op. cbn [requested_col]. rewrite Hk. reflexivity.
Qed.

(** what one instruction requests from column [col] of labware [k] *)
Lemma instr_requested_col wmax i : length (i_vols i) = tw_R a ->
  requested_col_all k col (instr_ops a p wmax gs gd i) ==
  (if ((tw_stock a =? k) && (tw_stock_column a =? col))%nat
   then (if stock_prepared i then inject_Z (Zsum (i_vols i)) else 0) else 0)
  + (if ((tw_diluent a =? k) && (tw_diluent_column a =? col))%nat
     then inject_Z (Z.of_nat (tw_R a)) * vm_of p i - inject_Z (Zsum (i_vols i)) else 0).
Proof.
  intro HR. rewrite c14_exec_structure, requested_col_all_app.
  rewrite (requested_col_all_app _ _ (dilute_part a p gd i)), plate_parts_col_zero.
  assert (E1 : requested_col_all k col (stock_part a gs i) ==
               if ((tw_stock a =? k) && (tw_stock_column a =? col))%nat
               then (if stock_prepared i then inject_Z (Zsum (i_vols i)) else 0) else 0).
  { unfold stock_part, stock_prepared. destruct (i_src i) as [k0|].
    - rewrite requested_col_all_nil. destruct ((tw_stock a =? k) && (tw_stock_column a =? col))%nat; reflexivity.
    - rewrite !requested_col_all_cons, requested_col_all_nil. unfold stock_op. cbn [requested_col].
      destruct (tw_stock a =? k)%nat; cbn [andb]; [|ring].
      rewrite (trough_transfer_col a gs) by (try assumption; rewrite map_length; exact HR).
      destruct (tw_stock_column a =? col)%nat; [rewrite Qsum_inject|]; ring. }
  assert (E2 : requested_col_all k col (dilute_part a p gd i) ==
               if ((tw_diluent a =? k) && (tw_diluent_column a =? col))%nat
               then inject_Z (Z.of_nat (tw_R a)) * vm_of p i - inject_Z (Zsum (i_vols i)) else 0).
  { unfold dilute_part. rewrite !requested_col_all_cons, requested_col_all_nil. unfold dilute_op. cbn [requested_col].
    destruct (tw_diluent a =? k)%nat; cbn [andb]; [|ring].
    rewrite (trough_transfer_col a gd) by (try assumption; rewrite !map_length; exact HR).
    destruct (tw_diluent_column a =? col)%nat; [rewrite Qsum_fill, HR|]; ring. }
  rewrite E1, E2. ring.
Qed.

End RequestedCol.

(** the amount of diluent the plan needs: R * sum vmax - (all planned volumes) *)
Lemma diluent_amount_facts ideal stock vmax mt p R :
  plan_core ideal stock vmax mt = Ok p ->
  inject_Z (Z.of_nat R) * Qsum vmax - inject_Z (Zsum (all_vols p))
    == v_diluent R p - inject_Z (Zsum (serial_vols_of p)) /\
  (0 <= mt -> inject_Z (Z.of_nat R) * Qsum vmax - inject_Z (Zsum (all_vols p)) <= v_diluent R p).
Proof.
  intro H.
  assert (Hsplit : Zsum (all_vols p) = (v_stock p + Zsum (serial_vols_of p))%Z).
  { unfold all_vols, serial_vols_of. rewrite all_vols_split, (c14_v_stock _ _ _ _ _ H). reflexivity. }
  assert (Hvd : v_diluent R p == inject_Z (Z.of_nat R) * Qsum vmax - inject_Z (v_stock p)).
  { rewrite c14_v_diluent. destruct (proj1 (c14_complete ideal stock vmax mt) p H) as (Hv & _).
    rewrite Hv. reflexivity. }
  split.
  - rewrite Hvd, Hsplit, inject_Z_plus. ring.
  - intro Hmt. rewrite Hvd, Hsplit, inject_Z_plus.
    assert (Hnn : (0 <= Zsum (serial_vols_of p))%Z).
    { apply Zsum_nonneg. apply Forall_forall. intros v Hv. unfold serial_vols_of in Hv.
      apply in_concat in Hv. destruct Hv as (vs & Hvs & Hv).
      apply in_map_iff in Hvs. destruct Hvs as (i & Hi & Hin). subst vs.
      apply filter_In in Hin. destruct Hin as (Hin & _).
      pose proof (plan_vols_min _ _ _ _ _ H i v Hin Hv) as Hm.
      assert (H0 : 0 <= inject_Z v) by lra. rewrite <- (Zle_Qle 0) in H0. exact H0. }
    rewrite (Zle_Qle 0) in Hnn. change (inject_Z 0) with 0 in Hnn. lra.
Qed.

(** what the whole plan requests from column [col] of labware [k] (not the plate) *)
Lemma plan_requested_col ideal stock vmax mt p R a gs gd wms k col :
  plan_core ideal stock vmax mt = Ok p -> Forall (fun c => length c = R) ideal ->
  length vmax = length ideal -> tw_R a = R -> tw_plate a <> k ->
  (0 < n_row_ids gs)%nat -> (0 < n_row_ids gd)%nat -> length wms = length (dp_instr p) ->
  requested_col_all k col (plan_ops a p gs gd (dp_instr p) wms) ==
  (if ((tw_stock a =? k) && (tw_stock_column a =? col))%nat then inject_Z (v_stock p) else 0)
  + (if ((tw_diluent a =? k) && (tw_diluent_column a =? col))%nat
     then inject_Z (Z.of_nat R) * Qsum vmax - inject_Z (Zsum (all_vols p)) else 0).
Proof.
  intros H Hrect Lv HR Hpk Hgs Hgd Lw.
  assert (Hlen : forall i, In i (dp_instr p) -> length (i_vols i) = tw_R a).
  { intros i Hi. destruct (plan_instr_nth _ _ _ _ _ _ H Hi) as (c & Hc & Hn & _).
    destruct (c14_shape _ _ _ _ _ _ H Hrect c Hc) as (Lc & _). rewrite Hn in Lc. rewrite HR. exact Lc. }
  unfold plan_ops. rewrite requested_col_all_flat_map.
  set (bs := ((tw_stock a =? k) && (tw_stock_column a =? col))%nat).
  set (bd := ((tw_diluent a =? k) && (tw_diluent_column a =? col))%nat).
  rewrite (Qsum_map_ext _ (fun iw =>
             (if bs then (if stock_prepared (fst iw) then inject_Z (Zsum (i_vols (fst iw))) else 0) else 0)
             + (if bd then inject_Z (Z.of_nat (tw_R a)) * vm_of p (fst iw) - inject_Z (Zsum (i_vols (fst iw))) else 0))).
  - rewrite Qsum_plus, !Qsum_if_const.
    rewrite (map_fst_zip_len (fun i => if stock_prepared i then inject_Z (Zsum (i_vols i)) else 0)) by exact Lw.
    rewrite (map_fst_zip_len (fun i => inject_Z (Z.of_nat (tw_R a)) * vm_of p i - inject_Z (Zsum (i_vols i))))
      by exact Lw.
    assert (E1 : Qsum (map (fun i => if stock_prepared i then inject_Z (Zsum (i_vols i)) else 0) (dp_instr p))
                 == inject_Z (v_stock p)).
    { rewrite stock_total, (c14_v_stock _ _ _ _ _ H). reflexivity. }
    assert (E2 : Qsum (map (fun i => inject_Z (Z.of_nat (tw_R a)) * vm_of p i - inject_Z (Zsum (i_vols i)))
                           (dp_instr p))
                 == inject_Z (Z.of_nat R) * Qsum vmax - inject_Z (Zsum (all_vols p))).
    { rewrite diluent_total, (vm_of_plan _ _ _ _ _ H Lv), HR. reflexivity. }
    destruct bs; destruct bd; rewrite ?E1, ?E2; reflexivity.
  - intros iw Hiw. cbn [fst snd]. apply instr_requested_col; try assumption.
    apply Hlen. exact (zip_In_fst _ _ _ Hiw).
Qed.

(** C14_exec_requested, column-wise: valid when stock and diluent are two labware OR two columns of one *)
Theorem c14_exec_requested_columns ideal stock vmax mt p R a gs gd wms :
  plan_core ideal stock vmax mt = Ok p -> Forall (fun c => length c = R) ideal ->
  length vmax = length ideal -> tw_R a = R ->
  tw_plate a <> tw_stock a -> tw_plate a <> tw_diluent a ->
  (tw_stock a <> tw_diluent a \/ tw_stock_column a <> tw_diluent_column a) ->
  (0 < n_row_ids gs)%nat -> (0 < n_row_ids gd)%nat ->
  length wms = length (dp_instr p) ->
  requested_col_all (tw_stock a) (tw_stock_column a) (plan_ops a p gs gd (dp_instr p) wms)
    == inject_Z (v_stock p) /\
  requested_col_all (tw_diluent a) (tw_diluent_column a) (plan_ops a p gs gd (dp_instr p) wms)
    == inject_Z (Z.of_nat R) * Qsum vmax - inject_Z (Zsum (all_vols p)) /\
  requested_col_all (tw_diluent a) (tw_diluent_column a) (plan_ops a p gs gd (dp_instr p) wms)
    == v_diluent R p - inject_Z (Zsum (serial_vols_of p)) /\
  (0 <= mt -> requested_col_all (tw_diluent a) (tw_diluent_column a) (plan_ops a p gs gd (dp_instr p) wms)
              <= v_diluent R p).
Proof.
  intros H Hrect Lv HR Hps Hpd Hsd Hgs Hgd Lw.
  destruct (diluent_amount_facts ideal stock vmax mt p R H) as (F1 & F2).
  assert (Eds : ((tw_diluent a =? tw_stock a) && (tw_diluent_column a =? tw_stock_column a))%nat = false).
  { destruct (Nat.eqb_spec (tw_diluent a) (tw_stock a)) as [E1|N1]; [|reflexivity].
    destruct (Nat.eqb_spec (tw_diluent_column a) (tw_stock_column a)) as [E2|N2]; [|reflexivity].
    exfalso. destruct Hsd as [Hn|Hn]; apply Hn; symmetry; assumption. }
  assert (Esd : ((tw_stock a =? tw_diluent a) && (tw_stock_column a =? tw_diluent_column a))%nat = false).
  { rewrite (Nat.eqb_sym (tw_stock a)), (Nat.eqb_sym (tw_stock_column a)). exact Eds. }
  assert (Hst : requested_col_all (tw_stock a) (tw_stock_column a) (plan_ops a p gs gd (dp_instr p) wms)
                == inject_Z (v_stock p)).
  { rewrite (plan_requested_col ideal stock vmax mt p R a gs gd wms _ _ H Hrect Lv HR Hps Hgs Hgd Lw).
    rewrite !Nat.eqb_refl, Eds. cbn [andb]. ring. }
  assert (Hdi : requested_col_all (tw_diluent a) (tw_diluent_column a) (plan_ops a p gs gd (dp_instr p) wms)
                == inject_Z (Z.of_nat R) * Qsum vmax - inject_Z (Zsum (all_vols p))).
  { rewrite (plan_requested_col ideal stock vmax mt p R a gs gd wms _ _ H Hrect Lv HR Hpd Hgs Hgd Lw).
    rewrite !Nat.eqb_refl, Esd. cbn [andb]. ring. }
  split; [exact Hst|]. split; [exact Hdi|]. split.
  - rewrite Hdi. exact F1.
  - intro Hmt. rewrite Hdi. exact (F2 Hmt).
Qed.

(* ------------------------------------------------------------------------------------------ *)
(** * what a list of transfers does to a trough: by real well = column *)

Lemma trough_idx_in_column T v w i :
  g_vrows (lw_geom T) = Some v -> lw_index T w <> None -> idx_is T i w = in_column i w.
Proof.
  intros Hv Hne. unfold idx_is. unfold lw_index in *.
  destruct (well_index (lw_geom T) w) as [rc|] eqn:E; [|congruence].
  destruct (well_index_domain _ _ _ E) as (r & c & Hr & Hc & Hw & Hrc). subst w rc.
  rewrite Hv. unfold flat_index. cbn [fst snd].
  pose proof (n_row_ids_le (lw_geom T)) as Hle. rewrite in_column_well_id by lia.
  rewrite Nat.mul_0_l, Nat.add_0_l. reflexivity.
Qed.

(** labware [kt] is never a destination *)
Definition not_into (kt : nat) (o : op) : Prop :=
  match o with OTransfer _ _ kd _ _ _ _ _ _ => kd <> kt | _ => True end.

Lemma trough_delta_op_col lws kt T v o i :
  nth_error lws kt = Some T -> g_vrows (lw_geom T) = Some v -> not_into kt o -> op_args_ok lws o ->
  op_delta T kt o i == - requested_col kt i o.
Proof.
  intros HT Hv Hd Hok. destruct o; try (cbn [op_delta requested_col]; ring).
  cbn [op_delta requested_col not_into op_args_ok] in *.
  destruct Hok as (L1 & L2 & L3 & Ls & Ld & HLs & HLd & Hrs & Hrd).
  assert (E : (kt =? kd)%nat = false) by (apply Nat.eqb_neq; congruence). rewrite E.
  rewrite (Nat.eqb_sym kt ks).
  destruct (Nat.eqb_spec ks kt) as [->|Hne]; [|ring].
  rewrite HT in HLs. injection HLs as <-.
  unfold column_total. rewrite well_out_gsum.
  rewrite (gsum_ext _ (fun sd => in_column i (fst sd))); [ring|].
  intros t Ht. cbn beta. apply (trough_idx_in_column T v); [exact Hv|]. apply Hrs.
  unfold t_triples in Ht. destruct t as [[x y] vv]. apply zip_In in Ht. destruct Ht as [Ht _].
  apply zip_In in Ht. exact (proj1 Ht).
Qed.

Lemma trough_delta_ops_col lws kt T v i ops :
  nth_error lws kt = Some T -> g_vrows (lw_geom T) = Some v ->
  Forall (not_into kt) ops -> Forall (op_args_ok lws) ops ->
  ops_delta T kt ops i == - requested_col_all kt i ops.
Proof.
  intros HT Hv Hd Hok. induction ops as [|o ops IH].
  - rewrite ops_delta_nil, requested_col_all_nil. ring.
  - inversion Hd as [|o1 l1 Hd1 Hd2]; subst o1 l1. inversion Hok as [|o2 l2 Hok1 Hok2]; subst o2 l2.
    rewrite ops_delta_cons, (IH Hd2 Hok2), (trough_delta_op_col lws kt T v o i HT Hv Hd1 Hok1),
      requested_col_all_cons. ring.
Qed.

Lemma plan_ops_not_into a p gs gd is wms kt :
  tw_plate a <> kt -> (forall d, tw_dest a = Some d -> d <> kt) ->
  Forall (not_into kt) (plan_ops a p gs gd is wms).
Proof.
  intros Hp Hdk. apply Forall_forall. intros o Ho.
  destruct (plan_ops_In _ _ _ _ _ _ _ Ho) as (x & wm & _ & Hin).
  destruct (instr_ops_In _ _ _ _ _ _ _ Hin) as [->|[->|[->|[(ws & ->)|[(j & _ & ->)|(d & Hd & ->)]]]]];
    cbn [not_into stock_op dilute_op mix_op serial_op dest_op]; try exact I; try exact Hp.
  exact (Hdk d Hd).
Qed.

Lemma plate_total ideal stock vmax mt p a r c :
  plan_core ideal stock vmax mt = Ok p -> (c < length ideal)%nat ->
  Qsum (map (instr_plate_delta a p r c) (dp_instr p)) ==
  nth c vmax 0 - inject_Z (drawn p c r)
  - (match tw_dest a with Some _ => tw_v_destination a | None => 0 end).
Proof.
  intros H Hc.
  destruct (proj1 (c14_complete ideal stock vmax mt) p H) as (Hv & L1 & _ & _ & Hcol).
  assert (Hcol' : forall m, (m < length (dp_instr p))%nat -> i_col (nth m (dp_instr p) dinstr) = m).
  { intros m Hm. apply Hcol. rewrite <- L1. exact Hm. }
  assert (Hc' : (c < length (dp_instr p))%nat) by (rewrite L1; exact Hc).
  set (xc := nth c (dp_instr p) dinstr).
  set (W := fun j : instr => inject_Z (nth r (i_vols j) 0%Z)).
  unfold instr_plate_delta. rewrite Qsum_plus.
  rewrite (Qsum_by_col (dp_instr p)
             (fun x => vm_of p x - (if stock_prepared x then 0 else inject_Z (nth r (i_vols x) 0%Z))
                       - inject_Z (drawn p (i_col x) r)
                       - (match tw_dest a with Some _ => tw_v_destination a | None => 0 end)) c Hcol' Hc').
  fold xc.
  assert (E2 : Qsum (map (fun x => Qsum (map (fun j => if (i_col j =? c)%nat then W j else 0)
                                             (filter (feeds (i_col x)) (dp_instr p)))) (dp_instr p))
               == if stock_prepared xc then 0 else W xc).
  { rewrite (Qsum_map_ext _ (fun x => if feeds (i_col x) xc then W xc else 0)).
    - unfold stock_prepared, feeds. destruct (i_src xc) as [s|] eqn:Es.
      + rewrite (Qsum_map_ext _ (fun x => if (i_col x =? s)%nat then W xc else 0)).
        * apply (Qsum_by_col (dp_instr p) (fun _ => W xc) s Hcol').
          destruct (c14_order _ _ _ _ _ H) as (n1 & _ & Hord).
          destruct (Hord c Hc) as [(_ & Hsrc & _)|(_ & k & Hk & Hsrc & _)];
            unfold psrc in Hsrc; fold xc in Hsrc; rewrite Es in Hsrc; [discriminate|].
          injection Hsrc as ->. lia.
        * intros x _. rewrite Nat.eqb_sym. reflexivity.
      + apply Qsum_zero. intros x _. reflexivity.
    - intros x _. rewrite Qsum_filter_if.
      rewrite (Qsum_map_ext _ (fun j => if (i_col j =? c)%nat then (if feeds (i_col x) j then W j else 0) else 0)).
      + apply (Qsum_by_col (dp_instr p) (fun j => if feeds (i_col x) j then W j else 0) c Hcol' Hc').
      + intros j _. destruct (feeds (i_col x) j); destruct (i_col j =? c)%nat; reflexivity. }
  unfold W in E2. rewrite E2. unfold vm_of.
  assert (Exc : i_col xc = c) by (apply Hcol'; exact Hc').
  rewrite Exc, Hv. destruct (stock_prepared xc); ring.
Qed.

Lemma In_broadcast_ge {A} (l : list A) n x : In x l -> (length l <= n)%nat -> In x (broadcast l n).
Proof.
  destruct l as [|y [|z t]]; cbn [broadcast]; intros H Hn; try exact H.
  destruct H as [<-|[]]. cbn [length] in Hn. destruct n as [|n]; [lia|]. left. reflexivity.
Qed.

(* ------------------------------------------------------------------------------------------ *)
(** * C14_exec_volumes *)

Theorem c14_exec_volumes ideal stock vmax mt p R a C s s' P St D :
  plan_core ideal stock vmax mt = Ok p -> Forall (fun col => length col = R) ideal ->
  length vmax = length ideal -> tw_R a = R ->
  to_worklist s a p C = (s', None) -> wf_state s -> 0 < w_max (st_wl s) ->
  tw_plate a <> tw_stock a -> tw_plate a <> tw_diluent a ->
  (forall d, tw_dest a = Some d -> d <> tw_plate a /\ d <> tw_stock a /\ d <> tw_diluent a) ->
  nth_error (st_lw s) (tw_plate a) = Some P -> nth_error (st_lw s) (tw_stock a) = Some St ->
  nth_error (st_lw s) (tw_diluent a) = Some D ->
  is_trough (lw_geom P) = false ->
  (forall r c, (r < R)%nat -> (c < length ideal)%nat -> vol_at P (r * g_cols (lw_geom P) + c) == 0) ->
  exists P' St' D',
    nth_error (st_lw s') (tw_plate a) = Some P' /\ nth_error (st_lw s') (tw_stock a) = Some St' /\
    nth_error (st_lw s') (tw_diluent a) = Some D' /\
    lw_geom P' = lw_geom P /\ lw_geom St' = lw_geom St /\ lw_geom D' = lw_geom D /\
    (forall i, vol_at St' i == vol_at St i
       - (if (i =? tw_stock_column a)%nat then inject_Z (v_stock p) else 0)
       - (if ((tw_diluent a =? tw_stock a) && (i =? tw_diluent_column a))%nat
          then inject_Z (Z.of_nat R) * Qsum vmax - inject_Z (Zsum (all_vols p)) else 0)) /\
    (forall i, vol_at D' i == vol_at D i
       - (if (i =? tw_diluent_column a)%nat
          then inject_Z (Z.of_nat R) * Qsum vmax - inject_Z (Zsum (all_vols p)) else 0)
       - (if ((tw_stock a =? tw_diluent a) && (i =? tw_stock_column a))%nat then inject_Z (v_stock p) else 0)) /\
    (0 <= mt -> inject_Z (Z.of_nat R) * Qsum vmax - inject_Z (Zsum (all_vols p)) <= v_diluent R p) /\
    (forall r c, (r < R)%nat -> (c < length ideal)%nat ->
       lw_index P (well_id r c) = Some (r * g_cols (lw_geom P) + c)%nat /\
       vol_at P' (r * g_cols (lw_geom P) + c) ==
         nth c vmax 0 - inject_Z (drawn p c r)
         - (match tw_dest a with Some _ => tw_v_destination a | None => 0 end)).
Proof.
  intros Hplan Hrect Lv HR Hrun Hwf Hm Hps Hpd Hdest HP HSt HD HPt Hempty.
  (* the checks of to_worklist *)
  unfold to_worklist in Hrun. rewrite HP, HSt, HD in Hrun.
  destruct ((n_row_ids (lw_geom P) <? tw_R a)%nat || (g_cols (lw_geom P) <? C)%nat) eqn:E1; [discriminate|].
  match type of Hrun with (if ?b then _ else _) = _ => destruct b; [discriminate|] end.
  destruct (negb (is_trough (lw_geom St)) || negb (is_trough (lw_geom D))) eqn:E3; [discriminate|].
  apply orb_false_iff in E1. destruct E1 as [E1 _]. apply Nat.ltb_ge in E1.
  apply orb_false_iff in E3. destruct E3 as [E3a E3b].
  apply negb_false_iff in E3a. apply negb_false_iff in E3b.
  unfold is_trough in E3a, E3b, HPt.
  destruct (g_vrows (lw_geom St)) as [vs|] eqn:EvS; [|discriminate].
  destruct (g_vrows (lw_geom D)) as [vd|] eqn:EvD; [|discriminate].
  destruct (g_vrows (lw_geom P)) as [vp|] eqn:EvP; [discriminate|].
  clear E3a E3b HPt.
  (* the run as a list of operations *)
  destruct (run_instrs_ops _ _ _ _ _ _ _ Hrun) as (wms & Lw & Hops).
  set (ops := plan_ops a p (lw_geom St) (lw_geom D) (dp_instr p) wms) in *.
  destruct (run_ops_ledger ops _ _ (plan_ops_tc _ _ _ _ _ _) Hops Hwf Hm)
    as (_ & _ & Hoks & _ & Hled).
  assert (HnS : (0 < n_row_ids (lw_geom St))%nat).
  { destruct (n_row_ids_trough _ _ (wf_geom_nth _ _ _ Hwf HSt) EvS) as (En & Hn1 & _). lia. }
  assert (HnD : (0 < n_row_ids (lw_geom D))%nat).
  { destruct (n_row_ids_trough _ _ (wf_geom_nth _ _ _ Hwf HD) EvD) as (En & Hn1 & _). lia. }
  pose proof (fun k col Hk => plan_requested_col ideal stock vmax mt p R a (lw_geom St) (lw_geom D) wms k col
                                Hplan Hrect Lv HR Hk HnS HnD Lw) as Hreq.
  fold ops in Hreq.
  destruct (Hled _ _ HP) as (P' & HP' & HgP & HvP).
  destruct (Hled _ _ HSt) as (St' & HSt' & HgS & HvS).
  destruct (Hled _ _ HD) as (D' & HD' & HgD & HvD).
  exists P', St', D'.
  split; [exact HP'|]. split; [exact HSt'|]. split; [exact HD'|].
  split; [exact HgP|]. split; [exact HgS|]. split; [exact HgD|].
  split; [|split; [|split]].
  - intro i. rewrite HvS.
    rewrite (trough_delta_ops_col (st_lw s) (tw_stock a) St vs i ops HSt EvS);
      [|apply plan_ops_not_into; [exact Hps|intros d Hd; exact (proj1 (proj2 (Hdest d Hd)))]|exact Hoks].
    rewrite (Hreq (tw_stock a) i Hps), Nat.eqb_refl, (Nat.eqb_sym (tw_stock_column a) i),
      (Nat.eqb_sym (tw_diluent_column a) i). cbn [andb].
    destruct (i =? tw_stock_column a)%nat; destruct ((tw_diluent a =? tw_stock a) && (i =? tw_diluent_column a))%nat; ring.
  - intro i. rewrite HvD.
    rewrite (trough_delta_ops_col (st_lw s) (tw_diluent a) D vd i ops HD EvD);
      [|apply plan_ops_not_into; [exact Hpd|intros d Hd; exact (proj2 (proj2 (Hdest d Hd)))]|exact Hoks].
    rewrite (Hreq (tw_diluent a) i Hpd), Nat.eqb_refl, (Nat.eqb_sym (tw_stock_column a) i),
      (Nat.eqb_sym (tw_diluent_column a) i). cbn [andb].
    destruct (i =? tw_diluent_column a)%nat; destruct ((tw_stock a =? tw_diluent a) && (i =? tw_stock_column a))%nat; ring.
  - exact (proj2 (diluent_amount_facts ideal stock vmax mt p R Hplan)).
  - intros r c Hr Hc.
    pose proof (n_row_ids_le (lw_geom P)) as Hle26.
    assert (HR' : (tw_R a <= n_row_ids (lw_geom P))%nat) by exact E1.
    assert (Hr' : (r < tw_R a)%nat) by (rewrite HR; exact Hr).
    destruct (proj1 (c14_complete ideal stock vmax mt) p Hplan) as (Hv & L1 & _ & _ & Hcol).
    assert (HgS0 : trough_column_wells (lw_geom St) (tw_stock_column a) <> []).
    { destruct (n_row_ids_trough _ _ (wf_geom_nth _ _ _ Hwf HSt) EvS) as (En & Hn1 & _).
      unfold trough_column_wells. rewrite En. destruct vs as [|vs']; [lia|]. discriminate. }
    assert (HgD0 : trough_column_wells (lw_geom D) (tw_diluent_column a) <> []).
    { destruct (n_row_ids_trough _ _ (wf_geom_nth _ _ _ Hwf HD) EvD) as (En & Hn1 & _).
      unfold trough_column_wells. rewrite En. destruct vd as [|vd']; [lia|]. discriminate. }
    assert (Hlenx : forall x, In x (dp_instr p) -> length (i_vols x) = tw_R a).
    { intros x Hx. destruct (plan_instr_nth _ _ _ _ _ _ Hplan Hx) as (m & Hm' & Hn & _).
      destruct (c14_shape _ _ _ _ _ _ Hplan Hrect m Hm') as (Lc & _). rewrite Hn in Lc. rewrite HR. exact Lc. }
    (* every column of the plan exists on the plate: its dilution transfer was accepted *)
    assert (Hcolx : forall x, In x (dp_instr p) -> (i_col x < g_cols (lw_geom P))%nat).
    { intros x Hx. destruct (zip_In_l (dp_instr p) wms x Lw Hx) as (wm & Hin).
      assert (Hop : In (dilute_op a p (lw_geom D) x) ops).
      { unfold ops, plan_ops. apply in_flat_map. exists (x, wm). split; [exact Hin|].
        cbn [fst snd]. rewrite c14_exec_structure. apply in_or_app. right. left. reflexivity. }
      rewrite Forall_forall in Hoks. specialize (Hoks _ Hop).
      unfold dilute_op in Hoks. cbn [op_args_ok] in Hoks.
      destruct Hoks as (_ & _ & _ & Ls & Ld & _ & HLd & _ & Hres). rewrite HP in HLd. injection HLd as <-.
      apply (lw_index_col_bound P 0); [lia|]. apply Hres.
      unfold t_dst, col_wells. cbn [flattenF]. apply In_broadcast_ge.
      - unfold column_wells. apply in_map_iff. exists 0%nat. split; [reflexivity|]. apply in_seq. lia.
      - rewrite column_wells_length. unfold t_n. cbn [flattenF]. rewrite column_wells_length. lia. }
    assert (Hcg : (c < g_cols (lw_geom P))%nat).
    { rewrite <- (Hcol c Hc). apply Hcolx. apply nth_In. rewrite L1. exact Hc. }
    split; [apply plate_lw_index; [exact EvP|lia|exact Hcg]|].
    rewrite HvP, (Hempty r c Hr Hc).
    unfold ops, plan_ops. rewrite ops_delta_flat_map.
    rewrite (Qsum_map_ext _ (fun iw => instr_plate_delta a p r c (fst iw))).
    + rewrite (map_fst_zip_len (instr_plate_delta a p r c)) by exact Lw.
      rewrite (plate_total ideal stock vmax mt p a r c Hplan Hc). ring.
    + intros [x wm] Hin. cbn [fst snd]. pose proof (zip_In_fst _ _ _ Hin) as Hx. cbn [fst] in Hx.
      apply (instr_ops_plate a p (lw_geom St) (lw_geom D) P r c EvP HR' Hr' Hcg Hps Hpd
               (fun d Hd => proj1 (Hdest d Hd)) HgS0 HgD0 wm x (Hlenx x Hx) (Hcolx x Hx)).
      intros j Hj. apply filter_In in Hj. destruct Hj as (Hj & _). split; [exact (Hlenx j Hj)|exact (Hcolx j Hj)].
Qed.

(* ------------------------------------------------------------------------------------------ *)
(** * the destination plate: volumes *)

Lemma op_delta_other L j ks sw kd dw vs lab ws pb kw i :
  j <> ks -> j <> kd -> op_delta L j (OTransfer ks sw kd dw vs lab ws pb kw) i == 0.
Proof.
  intros H1 H2. cbn [op_delta]. apply Nat.eqb_neq in H1. apply Nat.eqb_neq in H2. rewrite H1, H2. ring.
Qed.

Lemma ops_delta_zero L j ops i : (forall o, In o ops -> op_delta L j o i == 0) -> ops_delta L j ops i == 0.
Proof. intro H. unfold ops_delta. apply Qsum_zero. exact H. Qed.

(** everything an instruction does before the transfer to the destination plate leaves labware [d] alone *)
Lemma pre_dest_untouched a p gs gd d wm x o :
  d <> tw_plate a -> d <> tw_stock a -> d <> tw_diluent a ->
  In o (stock_part a gs x ++ dilute_part a p gd x ++ mix_part a p wm x ++ serial_part a p x) ->
  o = OCommit \/
  exists ks sw kd dw vs lab ws pb kw, o = OTransfer ks sw kd dw vs lab ws pb kw /\ d <> ks /\ d <> kd.
Proof.
  intros Hdp Hds Hdd H. apply in_app_or in H. destruct H as [H|H].
  { unfold stock_part in H. destruct (i_src x); [destruct H|].
    destruct H as [H|[H|[]]]; subst o; [right|left; reflexivity].
    unfold stock_op. do 9 eexists. split; [reflexivity|]. split; assumption. }
  apply in_app_or in H. destruct H as [H|H].
  { destruct H as [H|[H|[]]]; subst o; [right|left; reflexivity].
    unfold dilute_op. do 9 eexists. split; [reflexivity|]. split; assumption. }
  apply in_app_or in H. destruct H as [H|H].
  { unfold mix_part in H. destruct (needs_mix a p x); [|destruct H].
    apply in_flat_map in H. destruct H as (k0 & _ & [H|[H|[]]]); subst o; [right|left; reflexivity].
    unfold mix_op. do 9 eexists. split; [reflexivity|]. split; assumption. }
  unfold serial_part in H. apply in_flat_map in H. destruct H as (j & _ & [H|[H|[]]]); subst o; [right|left; reflexivity].
  unfold serial_op. do 9 eexists. split; [reflexivity|]. split; assumption.
Qed.

Lemma instr_ops_split a p wm gs gd x :
  instr_ops a p wm gs gd x =
  ((stock_part a gs x ++ dilute_part a p gd x ++ mix_part a p wm x ++ serial_part a p x) ++ dest_part a x)%list.
Proof. rewrite c14_exec_structure, <- !app_assoc. reflexivity. Qed.

Section InstrDest.
Variables (a : twl_args) (p : dplan) (gs gd : geom) (DP : labware) (d r c : nat).
Hypothesis HDv : g_vrows (lw_geom DP) = None.
Hypothesis HDR : (tw_R a <= n_row_ids (lw_geom DP))%nat.
Hypothesis Hr : (r < tw_R a)%nat.
Hypothesis Hc : (c < g_cols (lw_geom DP))%nat.
Hypothesis Hd : tw_dest a = Some d.
Hypothesis Hdp : d <> tw_plate a.
Hypothesis Hds : d <> tw_stock a.
Hypothesis Hdd : d <> tw_diluent a.

(** net change of well (r, c) of the destination plate by the operations of instruction [x] *)
Lemma instr_ops_dest wm x : (i_col x < g_cols (lw_geom DP))%nat ->
  ops_delta DP d (instr_ops a p wm gs gd x) (pidx DP r c) ==
  if (i_col x =? c)%nat then tw_v_destination a else 0.
Proof.
  intro Hcx. rewrite instr_ops_split, ops_delta_app.
  rewrite (ops_delta_zero DP d (stock_part a gs x ++ dilute_part a p gd x ++ mix_part a p wm x ++ serial_part a p x)).
  2: { intros o Ho.
       destruct (pre_dest_untouched a p gs gd d wm x o Hdp Hds Hdd Ho)
         as [->|(ks & sw & kd & dw & vs & lab & ws & pb & kw & -> & H1 & H2)]; [reflexivity|].
       apply op_delta_other; assumption. }
  unfold dest_part. rewrite Hd. rewrite !ops_delta_cons, ops_delta_nil.
  unfold dest_op, col_wells. cbn [op_delta]. rewrite Nat.eqb_refl.
  assert (E : (d =? tw_plate a)%nat = false) by (apply Nat.eqb_neq; exact Hdp). rewrite E.
  rewrite (t_triples_A1_A0 _ _ _ (tw_R a)); [|lia|apply column_wells_length|apply column_wells_length].
  rewrite well_in_plate_col;
    [|assumption|assumption|assumption|assumption|apply column_wells_length|apply repeat_length|exact Hcx].
  rewrite nth_repeat_lt by exact Hr. destruct (i_col x =? c)%nat; ring.
Qed.

End InstrDest.

(** every column of the plan exists on the destination plate: its transfer there was accepted *)
Lemma plan_cols_on_dest a p gs gd wms lws d DP :
  length wms = length (dp_instr p) -> (1 <= tw_R a)%nat -> tw_dest a = Some d ->
  Forall (op_args_ok lws) (plan_ops a p gs gd (dp_instr p) wms) ->
  nth_error lws d = Some DP ->
  forall x, In x (dp_instr p) -> (i_col x < g_cols (lw_geom DP))%nat.
Proof.
  intros Lw HR1 Hd Hoks HDP x Hx. destruct (zip_In_l (dp_instr p) wms x Lw Hx) as (wm & Hin).
  assert (Hop : In (dest_op a x d) (plan_ops a p gs gd (dp_instr p) wms)).
  { unfold plan_ops. apply in_flat_map. exists (x, wm). split; [exact Hin|].
    cbn [fst snd]. rewrite instr_ops_split. apply in_or_app. right.
    unfold dest_part. rewrite Hd. left. reflexivity. }
  rewrite Forall_forall in Hoks. specialize (Hoks _ Hop).
  unfold dest_op in Hoks. cbn [op_args_ok] in Hoks.
  destruct Hoks as (_ & _ & _ & Ls & Ld & _ & HLd & _ & Hres). rewrite HDP in HLd. injection HLd as <-.
  apply (lw_index_col_bound DP 0); [lia|]. apply Hres.
  unfold t_dst, col_wells. cbn [flattenF]. apply In_broadcast_ge.
  - unfold column_wells. apply in_map_iff. exists 0%nat. split; [reflexivity|]. apply in_seq. lia.
  - rewrite column_wells_length. unfold t_n. cbn [flattenF]. rewrite column_wells_length. lia.
Qed.

(** after [to_worklist] with a destination plate [d] (not a trough, different from the three other
    labware): every well (r, c) of the destination plate received exactly [v_destination] *)
Theorem c14_exec_destination_volumes ideal stock vmax mt p R a C s s' d DP :
  plan_core ideal stock vmax mt = Ok p -> Forall (fun col => length col = R) ideal -> tw_R a = R ->
  to_worklist s a p C = (s', None) -> wf_state s -> 0 < w_max (st_wl s) ->
  tw_dest a = Some d -> d <> tw_plate a -> d <> tw_stock a -> d <> tw_diluent a ->
  nth_error (st_lw s) d = Some DP -> is_trough (lw_geom DP) = false ->
  exists DP', nth_error (st_lw s') d = Some DP' /\ lw_geom DP' = lw_geom DP /\
    forall r c, (r < R)%nat -> (c < length ideal)%nat ->
      lw_index DP (well_id r c) = Some (r * g_cols (lw_geom DP) + c)%nat /\
      vol_at DP' (r * g_cols (lw_geom DP) + c) ==
        vol_at DP (r * g_cols (lw_geom DP) + c) + tw_v_destination a.
Proof.
  intros Hplan Hrect HR Hrun Hwf Hm Hd Hdp Hds Hdd HDP HDt.
  unfold to_worklist in Hrun.
  destruct (nth_error (st_lw s) (tw_plate a)) as [P|] eqn:HP; [|discriminate].
  destruct (nth_error (st_lw s) (tw_stock a)) as [St|] eqn:HSt; [|discriminate].
  destruct (nth_error (st_lw s) (tw_diluent a)) as [D|] eqn:HD; [|discriminate].
  destruct ((n_row_ids (lw_geom P) <? tw_R a)%nat || (g_cols (lw_geom P) <? C)%nat) eqn:E1; [discriminate|].
  rewrite Hd in Hrun. cbv beta iota in Hrun. rewrite HDP in Hrun.
  destruct ((n_row_ids (lw_geom DP) <? tw_R a)%nat || (g_cols (lw_geom DP) <? C)%nat) eqn:E2; [discriminate|].
  destruct (negb (is_trough (lw_geom St)) || negb (is_trough (lw_geom D))) eqn:E3; [discriminate|].
  apply orb_false_iff in E2. destruct E2 as [E2 _]. apply Nat.ltb_ge in E2.
  unfold is_trough in HDt. destruct (g_vrows (lw_geom DP)) as [vp|] eqn:EvP; [discriminate|]. clear HDt.
  destruct (run_instrs_ops _ _ _ _ _ _ _ Hrun) as (wms & Lw & Hops).
  set (ops := plan_ops a p (lw_geom St) (lw_geom D) (dp_instr p) wms) in *.
  destruct (run_ops_ledger ops _ _ (plan_ops_tc _ _ _ _ _ _) Hops Hwf Hm) as (_ & _ & Hoks & _ & Hled).
  destruct (Hled _ _ HDP) as (DP' & HDP' & HgD & HvD).
  exists DP'. split; [exact HDP'|]. split; [exact HgD|].
  intros r c Hr Hc.
  assert (Hr' : (r < tw_R a)%nat) by (rewrite HR; exact Hr).
  destruct (proj1 (c14_complete ideal stock vmax mt) p Hplan) as (_ & L1 & _ & _ & Hcol).
  assert (Hcol' : forall m, (m < length (dp_instr p))%nat -> i_col (nth m (dp_instr p) dinstr) = m).
  { intros m Hm'. apply Hcol. rewrite <- L1. exact Hm'. }
  assert (Hc' : (c < length (dp_instr p))%nat) by (rewrite L1; exact Hc).
  pose proof (plan_cols_on_dest a p _ _ wms _ d DP Lw ltac:(lia) Hd Hoks HDP) as Hcolx.
  assert (Hcg : (c < g_cols (lw_geom DP))%nat).
  { rewrite <- (Hcol c Hc). apply Hcolx. apply nth_In. exact Hc'. }
  pose proof (n_row_ids_le (lw_geom DP)) as Hle26.
  split; [apply plate_lw_index; [exact EvP|lia|exact Hcg]|].
  rewrite HvD. unfold ops, plan_ops. rewrite ops_delta_flat_map.
  rewrite (Qsum_map_ext _ (fun iw => if (i_col (fst iw) =? c)%nat then tw_v_destination a else 0)).
  - rewrite (map_fst_zip_len (fun x => if (i_col x =? c)%nat then tw_v_destination a else 0)) by exact Lw.
    rewrite (Qsum_by_col (dp_instr p) (fun _ => tw_v_destination a) c Hcol' Hc'). reflexivity.
  - intros [x wm] Hin. cbn [fst snd]. pose proof (zip_In_fst _ _ _ Hin) as Hx. cbn [fst] in Hx.
    exact (instr_ops_dest a p (lw_geom St) (lw_geom D) DP d r c EvP E2 Hr' Hcg Hd Hdp Hds Hdd wm x (Hcolx x Hx)).
Qed.

(* ------------------------------------------------------------------------------------------ *)
(** * C14_transfer_ledger: statement-level form and the necessity of [0 < max_volume] *)

Lemma c14_transfer_ledger s ks sw kd dw vols label ws pb kw s' :
  transfer s ks sw kd dw vols label ws pb kw = (s', None) -> wf_state s -> 0 < w_max (st_wl s) ->
  length (st_lw s') = length (st_lw s) /\
  forall j L, nth_error (st_lw s) j = Some L ->
    exists L', nth_error (st_lw s') j = Some L' /\ lw_geom L' = lw_geom L /\
      forall i, vol_at L' i == vol_at L i
                             - (if (j =? ks)%nat then well_out L i (t_triples sw dw vols) else 0)
                             + (if (j =? kd)%nat then well_in L i (t_triples sw dw vols) else 0).
Proof. intros H Hwf Hm. exact (proj1 (transfer_ledger _ _ _ _ _ _ _ _ _ _ _ H Hwf Hm)). Qed.

(** with a negative max_volume and auto_split, [partition_volume] yields one non-positive piece, no
    step is planned, the transfer "succeeds" and nothing moves *)
Definition neg_max_state : state :=
  {| st_lw := [ex_plate]; st_wl := init_wl Evo (-(2)) true false |}.

Lemma c14_transfer_ledger_refuted :
  exists s ks sw kd dw vols label ws pb kw s' L L',
    transfer s ks sw kd dw vols label ws pb kw = (s', None) /\ wf_state s /\
    nth_error (st_lw s) ks = Some L /\ nth_error (st_lw s') ks = Some L' /\
    ~ vol_at L' 0 == vol_at L 0
                     - (if (ks =? ks)%nat then well_out L 0 (t_triples sw dw vols) else 0)
                     + (if (ks =? kd)%nat then well_in L 0 (t_triples sw dw vols) else 0).
Proof.
  exists neg_max_state, 0%nat, (A0 "A01"%string), 0%nat, (A0 "A02"%string), (A0 5), None, (SInt 1),
         "auto"%string, kw_default.
  eexists. exists ex_plate. eexists.
  split; [vm_compute; reflexivity|].
  split; [constructor; [exact ex_plate_wf|constructor]|].
  split; [reflexivity|]. split; [reflexivity|].
  vm_compute. intro H. discriminate H.
Qed.

(* ------------------------------------------------------------------------------------------ *)
(** * tracked fractions: one pipetting step *)

Section Fractions.
Variable k : string.   (* the component that is followed *)

Lemma frac_log L label i : frac (log L label) k i = frac L k i.
Proof. reflexivity. Qed.

Lemma frac_rem_one L i0 v i : frac (rem_one L i0 v) k i = frac L k i.
Proof. reflexivity. Qed.

Lemma mix_inv_parts L : mix_inv L ->
  MixingProofs.arrays_len (n_wells (lw_geom L)) (lw_comp L) /\ NoDup (map fst (lw_comp L)) /\
  (forall i, 0 <= frac L k i) /\ (forall i, 0 <= vol_at L i) /\ shape0 L.
Proof.
  intros [HV HC]. pose proof HC as (HL & ND & _ & _).
  split; [exact HL|]. split; [exact ND|]. split; [intro i; exact (proj1 (comp_inv_frac L k i HC))|].
  split; [intro i; exact (vol_base_vol_at L i HV)|].
  destruct HV as (Hg & Hlen & _). split; assumption.
Qed.

(** volumes and fractions of [k] after one accepted step of a positive volume *)
Lemma exec_step_full s ks kd sw dw v ws kw s' :
  exec_step s ks kd sw dw v ws kw = (s', None) -> st_inv s -> wf_state s -> 0 < v ->
  exists Ls Ld i_s i_d,
    nth_error (st_lw s) ks = Some Ls /\ nth_error (st_lw s) kd = Some Ld /\
    lw_index Ls sw = Some i_s /\ lw_index Ld dw = Some i_d /\ v <= vol_at Ls i_s /\
    forall j L, nth_error (st_lw s) j = Some L ->
      exists L', nth_error (st_lw s') j = Some L' /\ lw_geom L' = lw_geom L /\
        (forall i, vol_at L' i == vol_at L i
                               - (if ((j =? ks) && (i_s =? i))%nat then v else 0)
                               + (if ((j =? kd) && (i_d =? i))%nat then v else 0)) /\
        (forall i, ~ (j = kd /\ i = i_d) -> frac L' k i = frac L k i) /\
        (j = kd -> vol_at L' i_d * frac L' k i_d ==
                   (vol_at L i_d - (if ((ks =? kd) && (i_s =? i_d))%nat then v else 0)) * frac L k i_d
                   + v * frac Ls k i_s).
Proof.
  intros H HI Hwf Hv.
  destruct (exec_step_state _ _ _ _ _ _ _ _ _ H)
    as (Ls & i_s & Ld1 & i_d & HLs & His & Hchk & _ & HLd1 & Hid & _ & Hst).
  pose proof (nth_error_lt _ _ _ HLs) as Hks.
  pose proof (st_inv_nth _ _ _ HI HLs) as HIs.
  destruct (mix_inv_parts Ls HIs) as (HLS & NDS & HfS & HvS & HshS).
  pose proof (lw_index_bound _ _ _ HshS His) as Hbs.
  apply Qltb_false in Hchk. rewrite Qred_correct in Hchk.
  assert (Hmin : 0 <= lw_min Ls) by (destruct HIs as [(_ & _ & Hm & _) _]; exact Hm).
  assert (Hle : v <= vol_at Ls i_s) by lra.
  set (Ls' := log (rem_one Ls i_s v) None) in *.
  assert (HIs' : mix_inv Ls').
  { apply log_inv. change (mix_inv (rem_step Ls i_s v)). apply rem_step_inv; [exact HIs|].
    rewrite Qred_correct. exact Hchk. }
  assert (HvS' : forall i, vol_at Ls' i == vol_at Ls i - (if (i_s =? i)%nat then v else 0)).
  { intro i. unfold Ls'. rewrite vol_at_log, vol_at_rem_one by exact Hbs. destruct (i_s =? i)%nat; ring. }
  (* the destination labware as the dispense finds it *)
  assert (HD1 : mix_inv Ld1 /\ exists Ld, nth_error (st_lw s) kd = Some Ld /\ lw_geom Ld1 = lw_geom Ld /\
            (forall i, frac Ld1 k i = frac Ld k i) /\
            forall i, vol_at Ld1 i == vol_at Ld i - (if ((kd =? ks) && (i_s =? i))%nat then v else 0)).
  { destruct (Nat.eqb_spec kd ks) as [->|Hne].
    - rewrite RefinementProofs.nth_error_upd_same in HLd1 by exact Hks. injection HLd1 as <-.
      split; [exact HIs'|]. exists Ls. split; [exact HLs|]. split; [reflexivity|]. split; [intro i; reflexivity|].
      intro i. cbn [andb]. apply HvS'.
    - rewrite nth_error_upd_other in HLd1 by (intro E; apply Hne; symmetry; exact E).
      split; [exact (st_inv_nth _ _ _ HI HLd1)|]. exists Ld1. split; [exact HLd1|]. split; [reflexivity|].
      split; [intro i; reflexivity|]. intro i. cbn [andb]. ring. }
  destruct HD1 as (HI1 & Ld & HLd & HgD & HfD & HvD).
  destruct (mix_inv_parts Ld1 HI1) as (HL1 & ND1 & Hf1 & Hv1 & Hsh1).
  pose proof (lw_index_bound _ _ _ Hsh1 Hid) as Hbd.
  assert (Hbd' : (i_d < n_wells (lw_geom Ld1))%nat) by (rewrite <- (proj2 Hsh1); exact Hbd).
  set (c := RefinementProofs.wca (lw_comp Ls) i_s) in *.
  assert (Hc : c = MixingProofs.wca (lw_comp Ls) i_s) by reflexivity.
  assert (NDc : NoDup (map fst c)) by (rewrite Hc; apply MixingProofs.wca_NoDup; exact NDS).
  assert (Hcg : cget k c == frac Ls k i_s).
  { rewrite Hc, wca_get_pfrac by exact NDS. apply pfrac_nonneg. apply HfS. }
  set (Ld' := log (add_one Ld1 i_d v (Some c)) None) in *.
  assert (HgD' : lw_geom Ld' = lw_geom Ld).
  { rewrite <- HgD. exact (proj1 (proj2 (add_one_frame Ld1 i_d v (Some c)))). }
  assert (HvD' : forall i, vol_at Ld' i == vol_at Ld1 i + (if (i_d =? i)%nat then v else 0)).
  { intro i. unfold Ld'. rewrite vol_at_log. apply vol_at_add_one. exact Hbd. }
  assert (HfD' : forall i, i <> i_d -> frac Ld' k i = frac Ld k i).
  { intros i Hi. unfold Ld'. rewrite frac_log. change (add_one Ld1 i_d v (Some c)) with (add_step Ld1 i_d v (Some c)).
    rewrite add_step_frac_other by assumption. apply HfD. }
  assert (Hnz : ~ vol_at Ld1 i_d + v == 0) by (pose proof (Hv1 i_d); lra).
  assert (HaD' : vol_at Ld' i_d * frac Ld' k i_d == vol_at Ld1 i_d * frac Ld k i_d + v * frac Ls k i_s).
  { rewrite HvD', Nat.eqb_refl. unfold Ld'. rewrite frac_log.
    change (add_one Ld1 i_d v (Some c)) with (add_step Ld1 i_d v (Some c)).
    rewrite add_step_frac_same by (try assumption; apply Hf1).
    rewrite Hcg, HfD. field. exact Hnz. }
  assert (Hkd : (kd < length (st_lw s))%nat) by (eapply nth_error_lt; exact HLd).
  exists Ls, Ld, i_s, i_d.
  split; [exact HLs|]. split; [exact HLd|]. split; [exact His|].
  split; [rewrite <- (lw_index_geom Ld1 Ld dw HgD); exact Hid|]. split; [exact Hle|].
  intros j L HL. rewrite Hst.
  destruct (Nat.eqb_spec j kd) as [Ejd|Hjd].
  - subst j. rewrite HLd in HL. injection HL as <-.
    exists Ld'. split; [apply RefinementProofs.nth_error_upd_same; rewrite upd_length; exact Hkd|].
    split; [exact HgD'|]. split; [|split].
    + intro i. rewrite HvD', HvD. cbn [andb]. reflexivity.
    + intros i Hn. apply HfD'. intro E. apply Hn. split; [reflexivity|exact E].
    + intros _. rewrite HaD', HvD. rewrite (Nat.eqb_sym ks kd). reflexivity.
  - rewrite nth_error_upd_other by (intro E; apply Hjd; symmetry; exact E).
    destruct (Nat.eqb_spec j ks) as [Ejs|Hjs].
    + subst j. rewrite HLs in HL. injection HL as <-.
      exists Ls'. split; [apply RefinementProofs.nth_error_upd_same; exact Hks|]. split; [reflexivity|].
      split; [|split].
      * intro i. rewrite HvS'. cbn [andb]. ring.
      * intros i _. reflexivity.
      * intro E. congruence.
    + rewrite nth_error_upd_other by (intro E; apply Hjs; symmetry; exact E).
      exists L. split; [exact HL|]. split; [reflexivity|]. split; [|split].
      * intro i. cbn [andb]. ring.
      * intros i _. reflexivity.
      * intro E. congruence.
Qed.

End Fractions.

(* ------------------------------------------------------------------------------------------ *)
(** * tracked fractions: a run of actions *)

Section FractionsExec.
Variable k : string.

(** a well that is no destination keeps its fractions *)
Lemma exec_frame ks kd ws kw acts : forall s s',
  exec s ks kd acts ws kw = (s', None) -> st_inv s -> wf_state s -> Forall step_pos acts ->
  forall j L, nth_error (st_lw s) j = Some L ->
    exists L', nth_error (st_lw s') j = Some L' /\ lw_geom L' = lw_geom L /\
      forall i, (j = kd -> forall t, In t (steps_of acts) -> idx_is L i (snd (fst t)) = false) ->
                frac L' k i = frac L k i.
Proof.
  induction acts as [|[sw dw v|] acts IH]; intros s s' H HI Hwf Hpos j L HL.
  - cbn [exec] in H. injection H as <-. exists L. split; [exact HL|]. split; reflexivity.
  - cbn [exec] in H. destruct (exec_step s ks kd sw dw v ws kw) as [s1 [e|]] eqn:E; [discriminate|].
    inversion Hpos as [|a0 l0 Hv Hpos']; subst a0 l0. cbn [step_pos] in Hv.
    pose proof (exec_step_wf' _ _ _ _ _ _ _ _ _ _ E Hwf) as Hwf1.
    pose proof (exec_step_inv s ks kd sw dw v ws kw HI) as HI1. rewrite E in HI1. cbn [fst] in HI1.
    destruct (exec_step_full k _ _ _ _ _ _ _ _ _ E HI Hwf Hv)
      as (Ls & Ld & i_s & i_d & HLs & HLd & His & Hid & _ & Hstep).
    destruct (Hstep j L HL) as (L1 & HL1 & Hg1 & _ & Hf1 & _).
    destruct (IH _ _ H HI1 Hwf1 Hpos' j L1 HL1) as (L' & HL' & Hg' & Hf').
    exists L'. split; [exact HL'|]. split; [rewrite Hg'; exact Hg1|].
    intros i Hnd. change (steps_of (Step sw dw v :: acts)) with ((sw, dw, v) :: steps_of acts) in Hnd.
    rewrite Hf'.
    + apply Hf1. intros [Ej Ei]. subst j i. rewrite HLd in HL. injection HL as <-.
      specialize (Hnd eq_refl (sw, dw, v) (or_introl eq_refl)). cbn [fst snd] in Hnd.
      unfold idx_is in Hnd. rewrite Hid, Nat.eqb_refl in Hnd. discriminate.
    + intros Ej t Ht. rewrite (idx_is_geom L1 L i _ Hg1). apply (Hnd Ej). right. exact Ht.
  - cbn [exec] in H. inversion Hpos as [|a0 l0 _ Hpos']; subst a0 l0.
    exact (IH _ _ H HI (wf_set_wl _ _ Hwf) Hpos' j L HL).
Qed.

(** all liquid that arrives in well [i0] of the destination comes from the real well [a0] of the
    source, which receives nothing, and [i0] gives nothing away: the amount of [k] in [i0] grows by
    (volume received) * (fraction in [a0]) *)
Lemma exec_uniform ks kd ws kw i0 a0 acts : forall s s' Ls Ld,
  exec s ks kd acts ws kw = (s', None) -> st_inv s -> wf_state s -> Forall step_pos acts ->
  nth_error (st_lw s) ks = Some Ls -> nth_error (st_lw s) kd = Some Ld ->
  (forall t, In t (steps_of acts) -> idx_is Ld i0 (snd (fst t)) = true -> lw_index Ls (fst (fst t)) = Some a0) ->
  (ks = kd -> forall t, In t (steps_of acts) -> idx_is Ld a0 (snd (fst t)) = false) ->
  (ks = kd -> forall t, In t (steps_of acts) -> idx_is Ls i0 (fst (fst t)) = false) ->
  exists Ld', nth_error (st_lw s') kd = Some Ld' /\
    vol_at Ld' i0 * frac Ld' k i0 ==
    vol_at Ld i0 * frac Ld k i0 + well_in Ld i0 (steps_of acts) * frac Ls k a0.
Proof.
  induction acts as [|[sw dw v|] acts IH]; intros s s' Ls Ld H HI Hwf Hpos HLs HLd H1 H2 H3.
  - cbn [exec] in H. injection H as <-. exists Ld. split; [exact HLd|].
    unfold well_in, steps_of. cbn [flat_map filter map]. unfold Qsum. cbn [fold_right]. ring.
  - cbn [exec] in H. destruct (exec_step s ks kd sw dw v ws kw) as [s1 [e|]] eqn:E; [discriminate|].
    inversion Hpos as [|a1 l1 Hv Hpos']; subst a1 l1. cbn [step_pos] in Hv.
    pose proof (exec_step_wf' _ _ _ _ _ _ _ _ _ _ E Hwf) as Hwf1.
    pose proof (exec_step_inv s ks kd sw dw v ws kw HI) as HI1. rewrite E in HI1. cbn [fst] in HI1.
    destruct (exec_step_full k _ _ _ _ _ _ _ _ _ E HI Hwf Hv)
      as (Ls0 & Ld0 & i_s & i_d & HLs0 & HLd0 & His & Hid & _ & Hstep).
    rewrite HLs in HLs0. injection HLs0 as <-. rewrite HLd in HLd0. injection HLd0 as <-.
    change (steps_of (Step sw dw v :: acts)) with ((sw, dw, v) :: steps_of acts) in *.
    destruct (Hstep ks Ls HLs) as (Ls1 & HLs1 & HgS & _ & HfS & _).
    destruct (Hstep kd Ld HLd) as (Ld1 & HLd1 & HgD & HvD & HfD & HaD).
    (* the source well a0 is not the destination of this step *)
    assert (Ha0 : frac Ls1 k a0 = frac Ls k a0).
    { apply HfS. intros [Ek Ea]. specialize (H2 Ek (sw, dw, v) (or_introl eq_refl)). cbn [fst snd] in H2.
      unfold idx_is in H2. rewrite Hid, Ea, Nat.eqb_refl in H2. discriminate. }
    (* well i0 is not the source of this step *)
    assert (Hi0 : ks = kd -> i_s <> i0).
    { intros Ek Ei. specialize (H3 Ek (sw, dw, v) (or_introl eq_refl)). cbn [fst snd] in H3.
      unfold idx_is in H3. rewrite His, Ei, Nat.eqb_refl in H3. discriminate. }
    destruct (IH s1 s' Ls1 Ld1 H HI1 Hwf1 Hpos' HLs1 HLd1) as (Ld' & HLd' & Hamt).
    { intros t Ht Hd. rewrite (lw_index_geom Ls1 Ls _ HgS). apply H1; [right; exact Ht|].
      rewrite <- (idx_is_geom Ld1 Ld i0 _ HgD). exact Hd. }
    { intros Ek t Ht. rewrite (idx_is_geom Ld1 Ld a0 _ HgD). apply (H2 Ek). right. exact Ht. }
    { intros Ek t Ht. rewrite (idx_is_geom Ls1 Ls i0 _ HgS). apply (H3 Ek). right. exact Ht. }
    exists Ld'. split; [exact HLd'|]. rewrite Hamt, (well_in_geom Ld1 Ld i0 _ HgD), Ha0, well_in_cons.
    unfold idx_is at 1. rewrite Hid.
    destruct (Nat.eqb_spec i_d i0) as [Ed|Nd].
    + subst i0. rewrite (HaD eq_refl).
      assert (Esrc : i_s = a0).
      { specialize (H1 (sw, dw, v) (or_introl eq_refl)). cbn [fst snd] in H1.
        unfold idx_is in H1. rewrite Hid, Nat.eqb_refl in H1. specialize (H1 eq_refl).
        rewrite His in H1. injection H1 as ->. reflexivity. }
      assert (Eself : ((ks =? kd) && (i_s =? i_d))%nat = false).
      { destruct (Nat.eqb_spec ks kd) as [Ek|Nk]; [|reflexivity]. cbn [andb].
        apply Nat.eqb_neq. exact (Hi0 Ek). }
      rewrite Eself, Esrc. ring.
    + rewrite (HfD i0) by (intros [_ Ei]; apply Nd; symmetry; exact Ei).
      rewrite (HvD i0). rewrite Nat.eqb_refl. cbn [andb].
      assert (E1 : (i_d =? i0)%nat = false) by (apply Nat.eqb_neq; exact Nd). rewrite E1.
      assert (E2 : ((kd =? ks) && (i_s =? i0))%nat = false).
      { destruct (Nat.eqb_spec kd ks) as [Ek|Nk]; [|reflexivity]. cbn [andb].
        apply Nat.eqb_neq. exact (Hi0 (eq_sym Ek)). }
      rewrite E2. ring.
  - cbn [exec] in H. inversion Hpos as [|a1 l1 _ Hpos']; subst a1 l1.
    change (steps_of (Commit :: acts)) with (steps_of acts) in *.
    exact (IH _ _ Ls Ld H HI (wf_set_wl _ _ Hwf) Hpos' HLs HLd H1 H2 H3).
Qed.

(** every step puts the liquid back where it came from: nothing changes *)
Lemma exec_diag ks ws kw acts : forall s s',
  exec s ks ks acts ws kw = (s', None) -> st_inv s -> wf_state s -> Forall step_pos acts ->
  (forall t, In t (steps_of acts) -> fst (fst t) = snd (fst t)) ->
  forall j L, nth_error (st_lw s) j = Some L ->
    exists L', nth_error (st_lw s') j = Some L' /\ lw_geom L' = lw_geom L /\
      forall i, vol_at L' i == vol_at L i /\ frac L' k i == frac L k i.
Proof.
  induction acts as [|[sw dw v|] acts IH]; intros s s' H HI Hwf Hpos Hdiag j L HL.
  - cbn [exec] in H. injection H as <-. exists L. split; [exact HL|]. split; [reflexivity|].
    intro i. split; reflexivity.
  - cbn [exec] in H. destruct (exec_step s ks ks sw dw v ws kw) as [s1 [e|]] eqn:E; [discriminate|].
    inversion Hpos as [|a1 l1 Hv Hpos']; subst a1 l1. cbn [step_pos] in Hv.
    pose proof (exec_step_wf' _ _ _ _ _ _ _ _ _ _ E Hwf) as Hwf1.
    pose proof (exec_step_inv s ks ks sw dw v ws kw HI) as HI1. rewrite E in HI1. cbn [fst] in HI1.
    change (steps_of (Step sw dw v :: acts)) with ((sw, dw, v) :: steps_of acts) in Hdiag.
    pose proof (Hdiag (sw, dw, v) (or_introl eq_refl)) as Esd. cbn [fst snd] in Esd. subst dw.
    destruct (exec_step_full k _ _ _ _ _ _ _ _ _ E HI Hwf Hv)
      as (Ls & Ld & i_s & i_d & HLs & HLd & His & Hid & Hle & Hstep).
    rewrite HLs in HLd. injection HLd as <-. rewrite His in Hid. injection Hid as <-.
    destruct (Hstep j L HL) as (L1 & HL1 & Hg1 & Hv1 & Hf1 & Ha1).
    destruct (IH _ _ H HI1 Hwf1 Hpos' (fun t Ht => Hdiag t (or_intror Ht)) j L1 HL1) as (L' & HL' & Hg' & Hsame).
    exists L'. split; [exact HL'|]. split; [rewrite Hg'; exact Hg1|].
    intro i. destruct (Hsame i) as (Hvi & Hfi). rewrite Hvi, Hfi, (Hv1 i).
    split; [destruct ((j =? ks) && (i_s =? i))%nat; ring|].
    destruct (Nat.eq_dec j ks) as [Ej|Nj]; [destruct (Nat.eq_dec i i_s) as [Ei|Ni]|].
    + subst j i. rewrite HLs in HL. injection HL as <-.
      specialize (Ha1 eq_refl). rewrite !Nat.eqb_refl in Ha1. cbn [andb] in Ha1.
      assert (Hvs : vol_at L1 i_s == vol_at Ls i_s).
      { rewrite (Hv1 i_s), !Nat.eqb_refl. cbn [andb]. ring. }
      rewrite Hvs in Ha1.
      assert (Hnz : ~ vol_at Ls i_s == 0) by lra.
      apply (Qmult_inj_l _ _ (vol_at Ls i_s) Hnz). rewrite Ha1. ring.
    + rewrite (Hf1 i) by (intros [_ Ei]; exact (Ni Ei)). reflexivity.
    + rewrite (Hf1 i) by (intros [Ej _]; exact (Nj Ej)). reflexivity.
  - cbn [exec] in H. inversion Hpos as [|a1 l1 _ Hpos']; subst a1 l1.
    exact (IH _ _ H HI (wf_set_wl _ _ Hwf) Hpos' Hdiag j L HL).
Qed.

End FractionsExec.

(* ------------------------------------------------------------------------------------------ *)
(** * tracked fractions: transfer *)

(** same geometry, volumes and component table *)
Definition same_cv (L2 L' : labware) : Prop :=
  lw_geom L' = lw_geom L2 /\ lw_vols L' = lw_vols L2 /\ lw_comp L' = lw_comp L2.

Lemma condense_at_nth s k0 n lab j L2 : nth_error (st_lw s) j = Some L2 ->
  exists L', nth_error (st_lw (condense_at s k0 n lab)) j = Some L' /\ same_cv L2 L'.
Proof.
  intro HL. unfold condense_at. destruct (nth_error (st_lw s) k0) as [Lk|] eqn:Ek.
  - cbn [set_lw st_lw]. destruct (Nat.eq_dec k0 j) as [->|Hne].
    + rewrite Ek in HL. injection HL as <-. exists (condense_log Lk n lab).
      split; [apply RefinementProofs.nth_error_upd_same; eapply nth_error_lt; exact Ek|].
      destruct (condense_log_comp Lk n lab) as (C1 & C2 & C3). repeat split; assumption.
    + exists L2. split; [rewrite nth_error_upd_other by exact Hne; exact HL|repeat split].
  - exists L2. split; [exact HL|repeat split].
Qed.

Lemma same_cv_trans L1 L2 L3 : same_cv L1 L2 -> same_cv L2 L3 -> same_cv L1 L3.
Proof. intros (A1 & A2 & A3) (B1 & B2 & B3). repeat split; congruence. Qed.

(** an accepted transfer is the execution of its plan, followed by log condensation *)
Lemma transfer_exec_form s ks swells kd dwells vols label ws pb kw s' :
  transfer s ks swells kd dwells vols label ws pb kw = (s', None) ->
  exists Ls Ld mode w s2,
    nth_error (st_lw s) ks = Some Ls /\ nth_error (st_lw s) kd = Some Ld /\
    same_cfg (st_wl s) w /\
    exec (set_wl s w) ks kd (plan (w_autosplit w) (w_max w) mode (t_triples swells dwells vols)) ws kw
      = (s2, None) /\
    (forall v, In v (t_vol swells dwells vols) -> 0 <= v) /\
    forall j L2, nth_error (st_lw s2) j = Some L2 ->
      exists L', nth_error (st_lw s') j = Some L' /\ same_cv L2 L'.
Proof.
  unfold transfer. cbv zeta. fold (t_n swells dwells vols).
  fold (t_src swells dwells vols). fold (t_dst swells dwells vols). fold (t_vol swells dwells vols).
  fold (t_triples swells dwells vols).
  intro H.
  destruct (w_dev (st_wl s)) eqn:Edev; [| |discriminate].
  all: destruct (nth_error (st_lw s) ks) as [Ls|] eqn:Eks; [|discriminate].
  all: destruct (nth_error (st_lw s) kd) as [Ld|] eqn:Ekd; [|discriminate].
  all: match type of H with (if ?c then _ else _) = _ => destruct c; [discriminate|] end.
  all: match type of H with (if ?c then _ else _) = _ => destruct c eqn:E2; [discriminate|] end.
  all: match type of H with (if ?c then _ else _) = _ => destruct c; [discriminate|] end.
  all: destruct (optimize_partition_by (is_trough (lw_geom Ls)) (is_trough (lw_geom Ld)) pb)
         as [mode|eo] eqn:Eo; [|discriminate].
  all: destruct (comment (st_wl s) label) as [w oc] eqn:Ec.
  all: pose proof (comment_cfg _ _ _ _ Ec) as HC.
  all: destruct oc as [ec|]; [discriminate|].
  all: match type of H with context [exec ?s0 ?k1 ?k2 ?acts ?w1 ?w2] =>
         destruct (exec s0 k1 k2 acts w1 w2) as [s2 oe] eqn:Ee end.
  all: destruct oe as [ee|]; [discriminate|].
  all: exists Ls, Ld, mode, w, s2.
  all: split; [reflexivity|]. all: split; [reflexivity|]. all: split; [exact HC|]. all: split; [exact Ee|].
  all: split; [intros v Hv; apply (existsb_false_forall _ _ E2) in Hv; apply Qltb_false; exact Hv|].
  all: intros j L2 HL2.
  all: destruct (ks =? kd)%nat; injection H as <-.
  all: try (apply condense_at_nth; exact HL2).
  all: destruct (condense_at_nth s2 ks (n_steps (plan (w_autosplit w) (w_max w) mode (t_triples swells dwells vols)))
               (lvh_label label (lvh_extra (w_autosplit w) (w_max w) (t_triples swells dwells vols))) j L2 HL2)
         as (L3 & HL3 & Hcv3).
  all: destruct (condense_at_nth _ kd (n_steps (plan (w_autosplit w) (w_max w) mode (t_triples swells dwells vols)))
               (lvh_label label (lvh_extra (w_autosplit w) (w_max w) (t_triples swells dwells vols))) j L3 HL3)
         as (L4 & HL4 & Hcv4).
  all: exists L4; split; [exact HL4|exact (same_cv_trans _ _ _ Hcv3 Hcv4)].
Qed.

Lemma plan_step_triple a m mode T t : In t (steps_of (plan a m mode T)) -> exists t0, In t0 T /\ fst t0 = fst t.
Proof.
  destruct t as [[sw dw] v]. intro H. apply steps_of_In in H. apply plan_step_origin in H.
  destruct H as (v0 & Hin & _). exists (sw, dw, v0). split; [exact Hin|reflexivity].
Qed.

Section FractionsTransfer.
Variable k : string.

Lemma frac_same_cv L2 L' i : same_cv L2 L' -> frac L' k i = frac L2 k i /\ vol_at L' i = vol_at L2 i.
Proof. intros (_ & Hv & Hc). unfold frac, vol_at. rewrite Hv, Hc. split; reflexivity. Qed.

(** a well that is no destination of the transfer keeps its fractions *)
Lemma transfer_frame s ks sw kd dw vols label ws pb kw s' :
  transfer s ks sw kd dw vols label ws pb kw = (s', None) -> st_inv s -> wf_state s ->
  forall j L, nth_error (st_lw s) j = Some L ->
    exists L', nth_error (st_lw s') j = Some L' /\
      forall i, (j = kd -> forall t, In t (t_triples sw dw vols) -> idx_is L i (snd (fst t)) = false) ->
                frac L' k i = frac L k i.
Proof.
  intros H HI Hwf j L HL.
  destruct (transfer_exec_form _ _ _ _ _ _ _ _ _ _ _ H) as (Ls & Ld & mode & w & s2 & _ & _ & _ & He & _ & Hcv).
  destruct (exec_frame k _ _ _ _ _ _ _ He (st_inv_set_wl s w HI) (wf_set_wl _ _ Hwf) (plan_pos _ _ _ _) j L HL)
    as (L2 & HL2 & _ & Hf2).
  destruct (Hcv j L2 HL2) as (L' & HL' & Hcv').
  exists L'. split; [exact HL'|]. intros i Hnd.
  rewrite (proj1 (frac_same_cv L2 L' i Hcv')). apply Hf2.
  intros Ej t Ht. destruct (plan_step_triple _ _ _ _ _ Ht) as (t0 & Ht0 & E0).
  rewrite <- E0. exact (Hnd Ej t0 Ht0).
Qed.

(** all liquid arriving in well [i0] comes from the real well [a0], which receives nothing, and
    [i0] gives nothing away *)
Lemma transfer_uniform s ks sw kd dw vols label ws pb kw s' i0 a0 Ls Ld :
  transfer s ks sw kd dw vols label ws pb kw = (s', None) -> st_inv s -> wf_state s ->
  0 < w_max (st_wl s) ->
  nth_error (st_lw s) ks = Some Ls -> nth_error (st_lw s) kd = Some Ld ->
  (forall t, In t (t_triples sw dw vols) -> idx_is Ld i0 (snd (fst t)) = true ->
             lw_index Ls (fst (fst t)) = Some a0) ->
  (ks = kd -> forall t, In t (t_triples sw dw vols) -> idx_is Ld a0 (snd (fst t)) = false) ->
  (ks = kd -> forall t, In t (t_triples sw dw vols) -> idx_is Ls i0 (fst (fst t)) = false) ->
  exists Ld', nth_error (st_lw s') kd = Some Ld' /\
    vol_at Ld' i0 * frac Ld' k i0 ==
    vol_at Ld i0 * frac Ld k i0 + well_in Ld i0 (t_triples sw dw vols) * frac Ls k a0.
Proof.
  intros H HI Hwf Hm HLs HLd H1 H2 H3.
  destruct (transfer_exec_form _ _ _ _ _ _ _ _ _ _ _ H) as (Ls0 & Ld0 & mode & w & s2 & _ & _ & HC & He & Hnn & Hcv).
  destruct (exec_uniform k ks kd ws kw i0 a0 _ _ _ Ls Ld He (st_inv_set_wl s w HI) (wf_set_wl _ _ Hwf)
              (plan_pos _ _ _ _) HLs HLd) as (Ld2 & HLd2 & Hamt).
  { intros t Ht Hd. destruct (plan_step_triple _ _ _ _ _ Ht) as (t0 & Ht0 & E0).
    rewrite <- E0 in *. exact (H1 t0 Ht0 Hd). }
  { intros Ek t Ht. destruct (plan_step_triple _ _ _ _ _ Ht) as (t0 & Ht0 & E0). rewrite <- E0. exact (H2 Ek t0 Ht0). }
  { intros Ek t Ht. destruct (plan_step_triple _ _ _ _ _ Ht) as (t0 & Ht0 & E0). rewrite <- E0. exact (H3 Ek t0 Ht0). }
  destruct (Hcv kd Ld2 HLd2) as (Ld' & HLd' & Hcv').
  exists Ld'. split; [exact HLd'|].
  destruct (frac_same_cv Ld2 Ld' i0 Hcv') as (-> & ->). rewrite Hamt.
  assert (Hall : Forall (fun t : triple => 0 <= snd t) (t_triples sw dw vols)).
  { apply Forall_forall. intros [sd v] Ht. apply zip_In in Ht. cbn [snd]. apply Hnn. exact (proj2 Ht). }
  assert (Hmw : 0 < w_max w) by (rewrite (proj1 HC); exact Hm).
  rewrite !well_in_gsum, (gsum_plan _ _ _ _ _ Hmw Hall). reflexivity.
Qed.

(** source and destination well coincide in every triple: volumes and fractions stay *)
Lemma transfer_diag s ks sw vols label ws pb kw s' :
  transfer s ks sw ks sw vols label ws pb kw = (s', None) -> st_inv s -> wf_state s ->
  forall j L, nth_error (st_lw s) j = Some L ->
    exists L', nth_error (st_lw s') j = Some L' /\
      forall i, vol_at L' i == vol_at L i /\ frac L' k i == frac L k i.
Proof.
  intros H HI Hwf j L HL.
  destruct (transfer_exec_form _ _ _ _ _ _ _ _ _ _ _ H) as (Ls & Ld & mode & w & s2 & _ & _ & _ & He & _ & Hcv).
  destruct (exec_diag k _ _ _ _ _ _ He (st_inv_set_wl s w HI) (wf_set_wl _ _ Hwf) (plan_pos _ _ _ _)) with (j := j) (L := L)
    as (L2 & HL2 & _ & Hsame).
  { intros t Ht. destruct (plan_step_triple _ _ _ _ _ Ht) as (t0 & Ht0 & E0). rewrite <- E0.
    exact (t_triples_diag _ _ _ Ht0). }
  { exact HL. }
  destruct (Hcv j L2 HL2) as (L' & HL' & Hcv').
  exists L'. split; [exact HL'|]. intro i.
  destruct (frac_same_cv L2 L' i Hcv') as (-> & ->). exact (Hsame i).
Qed.

End FractionsTransfer.

(* ------------------------------------------------------------------------------------------ *)
(** * tracked fractions during [to_worklist] *)

Lemma zip3_In (A B : list string) (V : list Q) n t :
  length A = n -> length B = n -> length V = n -> In t (zip (zip A B) V) ->
  exists m, (m < n)%nat /\ t = (nth m A EmptyString, nth m B EmptyString, nth m V 0).
Proof.
  intros HA HB HV H. rewrite (zip3_seq A B V n HA HB HV) in H. apply in_map_iff in H.
  destruct H as (m & <- & Hm). apply in_seq in Hm. exists m. split; [lia|reflexivity].
Qed.

Section Concentration.
Variables (k : string) (a : twl_args) (p : dplan).
Variables (ideal : list (list Q)) (stock : Q) (vmax : list Q) (mt : Q).
Variables (P0 St0 D0 : labware) (vs vd : nat).
Hypothesis Hplan : plan_core ideal stock vmax mt = Ok p.
Hypothesis Hrect : Forall (fun col => length col = tw_R a) ideal.
Hypothesis Lv : length vmax = length ideal.
Hypothesis Hps : tw_plate a <> tw_stock a.
Hypothesis Hpd : tw_plate a <> tw_diluent a.
Hypothesis Hdest : forall d, tw_dest a = Some d -> d <> tw_plate a /\ d <> tw_stock a /\ d <> tw_diluent a.
Hypothesis HPv : g_vrows (lw_geom P0) = None.
Hypothesis HR : (tw_R a <= n_row_ids (lw_geom P0))%nat.
Hypothesis HC : (length ideal <= g_cols (lw_geom P0))%nat.
Hypothesis HvS : g_vrows (lw_geom St0) = Some vs.
Hypothesis HvD : g_vrows (lw_geom D0) = Some vd.
Hypothesis HgS : wf_geom (lw_geom St0).
Hypothesis HgD : wf_geom (lw_geom D0).

Let g := g_cols (lw_geom P0).
Let gs := lw_geom St0.
Let gd := lw_geom D0.
Let pl := tw_plate a.

(** volume / fraction of [k] in well [i] of labware [j] *)
Definition lwv (s : state) (j i : nat) : Q :=
  match nth_error (st_lw s) j with Some L => vol_at L i | None => 0 end.
Definition lwf (s : state) (j i : nat) : Q :=
  match nth_error (st_lw s) j with Some L => frac L k i | None => 0 end.
Definition PV (s : state) (r c : nat) : Q := lwv s pl (r * g + c).
Definition PF (s : state) (r c : nat) : Q := lwf s pl (r * g + c).
Definition SF (s : state) : Q := lwf s (tw_stock a) (tw_stock_column a).
Definition DF (s : state) : Q := lwf s (tw_diluent a) (tw_diluent_column a).

Definition Good (s : state) : Prop :=
  wf_state s /\ st_inv s /\ 0 < w_max (st_wl s) /\
  (exists P, nth_error (st_lw s) pl = Some P /\ lw_geom P = lw_geom P0) /\
  (exists St, nth_error (st_lw s) (tw_stock a) = Some St /\ lw_geom St = lw_geom St0) /\
  (exists D, nth_error (st_lw s) (tw_diluent a) = Some D /\ lw_geom D = lw_geom D0).

Lemma good_transfer s ks sw kd dw vols label ws pb kw s' :
  transfer s ks sw kd dw vols label ws pb kw = (s', None) -> Good s -> Good s'.
Proof.
  intros H (Hwf & HI & Hm & (P & HP & HgP) & (St & HSt & HgSt) & (D & HD & HgDd)).
  destruct (transfer_ledger _ _ _ _ _ _ _ _ _ _ _ H Hwf Hm) as ((_ & Hled) & Hcfg & _).
  split; [pose proof (transfer_wf s ks sw kd dw vols label ws pb kw Hwf) as Hw; rewrite H in Hw; exact Hw|].
  split; [pose proof (transfer_inv s ks sw kd dw vols label ws pb kw HI) as Hi; rewrite H in Hi; exact Hi|].
  split; [rewrite (proj1 Hcfg); exact Hm|].
  split; [|split].
  - destruct (Hled _ _ HP) as (P' & HP' & Hg & _). exists P'. split; [exact HP'|congruence].
  - destruct (Hled _ _ HSt) as (S' & HS' & Hg & _). exists S'. split; [exact HS'|congruence].
  - destruct (Hled _ _ HD) as (D' & HD' & Hg & _). exists D'. split; [exact HD'|congruence].
Qed.

Lemma good_commit s s' : step s OCommit = (s', None) -> Good s ->
  Good s' /\ st_lw s' = st_lw s.
Proof.
  cbn [step]. unfold on_wl, commit. intro H. injection H as <-. intro HG. split; [exact HG|reflexivity].
Qed.

Lemma lwv_eq s j L i : nth_error (st_lw s) j = Some L -> lwv s j i = vol_at L i.
Proof. intro H. unfold lwv. rewrite H. reflexivity. Qed.
Lemma lwf_eq s j L i : nth_error (st_lw s) j = Some L -> lwf s j i = frac L k i.
Proof. intro H. unfold lwf. rewrite H. reflexivity. Qed.

(** volumes of any transfer, in accessor form *)
Lemma transfer_lwv s ks sw kd dw vols label ws pb kw s' j L i :
  transfer s ks sw kd dw vols label ws pb kw = (s', None) -> Good s ->
  nth_error (st_lw s) j = Some L ->
  lwv s' j i == lwv s j i + op_delta L j (OTransfer ks sw kd dw vols label ws pb kw) i.
Proof.
  intros H (Hwf & _ & Hm & _) HL.
  destruct (transfer_ledger _ _ _ _ _ _ _ _ _ _ _ H Hwf Hm) as ((_ & Hled) & _).
  destruct (Hled _ _ HL) as (L' & HL' & _ & Hv).
  rewrite (lwv_eq s' j L' i HL'), (lwv_eq s j L i HL), Hv. cbn [op_delta]. ring.
Qed.

(** fractions of a labware that is not the destination *)
Lemma transfer_lwf_other s ks sw kd dw vols label ws pb kw s' j i :
  transfer s ks sw kd dw vols label ws pb kw = (s', None) -> Good s -> j <> kd ->
  (j < length (st_lw s))%nat -> lwf s' j i = lwf s j i.
Proof.
  intros H (Hwf & HI & _) Hne Hj.
  destruct (nth_error (st_lw s) j) as [L|] eqn:HL; [|apply nth_error_None in HL; lia].
  destruct (transfer_frame k _ _ _ _ _ _ _ _ _ _ _ H HI Hwf j L HL) as (L' & HL' & Hf).
  rewrite (lwf_eq s' j L' i HL'), (lwf_eq s j L i HL). apply Hf. intro E. congruence.
Qed.


Lemma trough_wells_nonempty L v col : wf_geom (lw_geom L) -> g_vrows (lw_geom L) = Some v ->
  trough_column_wells (lw_geom L) col <> [].
Proof.
  intros Hg Hv. destruct (n_row_ids_trough _ _ Hg Hv) as (En & Hn1 & _).
  unfold trough_column_wells. rewrite En. destruct v as [|v']; [lia|]. discriminate.
Qed.

Let cyc_s := cycle_wells (tw_R a) (trough_column_wells gs (tw_stock_column a)).
Let cyc_d := cycle_wells (tw_R a) (trough_column_wells gd (tw_diluent_column a)).

Lemma cyc_s_length : length cyc_s = tw_R a.
Proof. apply cycle_wells_length. exact (trough_wells_nonempty St0 vs _ HgS HvS). Qed.
Lemma cyc_d_length : length cyc_d = tw_R a.
Proof. apply cycle_wells_length. exact (trough_wells_nonempty D0 vd _ HgD HvD). Qed.

(** facts about a plate with the geometry of [P0] *)
Section PlateNow.
Variable P : labware.
Hypothesis HgP : lw_geom P = lw_geom P0.

Lemma pidx_now r c : pidx P r c = (r * g + c)%nat.
Proof. unfold pidx, g. rewrite HgP. reflexivity. Qed.

Lemma plate_idx_now r c r' c' : (r' < tw_R a)%nat -> (c' < g)%nat -> (c < g)%nat ->
  idx_is P (r * g + c) (well_id r' c') = ((r' =? r) && (c' =? c))%nat.
Proof.
  intros Hr' Hc' Hc. unfold g in *. rewrite <- HgP.
  apply plate_idx_is; rewrite HgP; [exact HPv|lia|exact Hc'|exact Hc].
Qed.

Lemma well_in_col_now (A : list string) (V : list Q) col r c :
  (r < tw_R a)%nat -> (c < g)%nat -> (col < g)%nat -> length A = tw_R a -> length V = tw_R a ->
  well_in P (r * g + c) (zip (zip A (column_wells (tw_R a) col)) V) == if (col =? c)%nat then nth r V 0 else 0.
Proof.
  intros Hr Hc Hcol HA HV. rewrite <- pidx_now. unfold g in *.
  apply well_in_plate_col; try assumption; rewrite HgP; assumption.
Qed.

Lemma well_out_col_now (B : list string) (V : list Q) col r c :
  (r < tw_R a)%nat -> (c < g)%nat -> (col < g)%nat -> length B = tw_R a -> length V = tw_R a ->
  well_out P (r * g + c) (zip (zip (column_wells (tw_R a) col) B) V) == if (col =? c)%nat then nth r V 0 else 0.
Proof.
  intros Hr Hc Hcol HB HV. rewrite <- pidx_now. unfold g in *.
  apply well_out_plate_col; try assumption; rewrite HgP; assumption.
Qed.

(** the destinations of a transfer into column [col] are the wells of that column, in order *)
Lemma col_dst_not (A : list string) (V : list Q) col r c t :
  (r < tw_R a)%nat -> (c < g)%nat -> (col < g)%nat -> length A = tw_R a -> length V = tw_R a ->
  c <> col -> In t (zip (zip A (column_wells (tw_R a) col)) V) -> idx_is P (r * g + c) (snd (fst t)) = false.
Proof.
  intros Hr Hc Hcol HA HV Hne Ht.
  destruct (zip3_In _ _ _ _ _ HA (column_wells_length _ _) HV Ht) as (m & Hm & ->). cbn [fst snd].
  rewrite column_wells_nth by exact Hm. rewrite plate_idx_now by assumption.
  destruct (Nat.eqb_spec col c) as [E|_]; [congruence|]. apply andb_false_r.
Qed.

End PlateNow.


Lemma t_src_A1 sw dw (ws : list Q) n : length sw = n -> length dw = n -> length ws = n ->
  t_src (A1 sw) (A1 dw) (A1 ws) = sw.
Proof.
  intros H1 H2 H3. unfold t_src, t_n. cbn [flattenF]. rewrite H1, H2, H3, !Nat.max_id.
  apply broadcast_len. exact H1.
Qed.

Lemma good_plate s : Good s -> exists P, nth_error (st_lw s) pl = Some P /\ lw_geom P = lw_geom P0.
Proof. intros (_ & _ & _ & HP & _). exact HP. Qed.

(** a transfer from column [tcol] of a trough (labware [kt]) into column [cx] of the plate *)
Lemma trough_col_effect s s' kt T0 vt tcol cyc cx (W : list Q) label ws kw :
  transfer s kt (A1 cyc) pl (col_wells a cx) (A1 W) label ws "auto" kw = (s', None) -> Good s ->
  kt <> pl -> (exists T, nth_error (st_lw s) kt = Some T /\ lw_geom T = lw_geom T0) ->
  g_vrows (lw_geom T0) = Some vt ->
  (forall w, In w cyc -> In w (trough_column_wells (lw_geom T0) tcol)) ->
  length cyc = tw_R a -> length W = tw_R a -> (cx < g)%nat ->
  Good s' /\
  (forall j i, j <> pl -> (j < length (st_lw s))%nat -> lwf s' j i = lwf s j i) /\
  (forall r c, (r < tw_R a)%nat -> (c < g)%nat ->
     PV s' r c == PV s r c + (if (cx =? c)%nat then nth r W 0 else 0)) /\
  (forall r c, (r < tw_R a)%nat -> (c < g)%nat -> c <> cx -> PF s' r c = PF s r c) /\
  (forall r, (r < tw_R a)%nat ->
     PV s' r cx * PF s' r cx == PV s r cx * PF s r cx + nth r W 0 * lwf s kt tcol).
Proof.
  intros H HG Hkt (T & HT & HgT) Hvt Hcyc Lc LW Hcx.
  pose proof HG as (Hwf & HI & Hm & (P & HP & HgP) & _).
  assert (ET : t_triples (A1 cyc) (col_wells a cx) (A1 W) = zip (zip cyc (column_wells (tw_R a) cx)) W).
  { unfold col_wells. apply (t_triples_A1 _ _ _ (tw_R a)); [exact Lc|apply column_wells_length|exact LW]. }
  assert (Ekt : (pl =? kt)%nat = false) by (apply Nat.eqb_neq; congruence).
  split; [exact (good_transfer _ _ _ _ _ _ _ _ _ _ _ H HG)|]. split; [|split; [|split]].
  - intros j i Hj Hlt. exact (transfer_lwf_other _ _ _ _ _ _ _ _ _ _ _ j i H HG Hj Hlt).
  - intros r c Hr Hc. unfold PV. rewrite (transfer_lwv _ _ _ _ _ _ _ _ _ _ _ pl P _ H HG HP).
    cbn [op_delta]. rewrite Nat.eqb_refl, Ekt, ET, (well_in_col_now P HgP) by assumption. ring.
  - intros r c Hr Hc Hne. unfold PF.
    destruct (transfer_frame k _ _ _ _ _ _ _ _ _ _ _ H HI Hwf pl P HP) as (P' & HP' & Hf).
    rewrite (lwf_eq s' pl P' _ HP'), (lwf_eq s pl P _ HP). apply Hf. intros _ t Ht. rewrite ET in Ht.
    exact (col_dst_not P HgP cyc W cx r c t Hr Hc Hcx Lc LW Hne Ht).
  - intros r Hr.
    destruct (transfer_ledger _ _ _ _ _ _ _ _ _ _ _ H Hwf Hm)
      as (_ & _ & _ & _ & _ & Ls & Ld & HLs & HLd & Hres & _).
    rewrite HT in HLs. injection HLs as <-.
    destruct (transfer_uniform k _ _ _ _ _ _ _ _ _ _ _ (r * g + cx)%nat tcol T P H HI Hwf Hm HT HP)
      as (P' & HP' & Hamt).
    + intros t Ht _. rewrite ET in Ht.
      destruct (zip3_In _ _ _ _ _ Lc (column_wells_length _ _) LW Ht) as (m & Hm' & ->). cbn [fst snd].
      assert (Hin : In (nth m cyc EmptyString) cyc) by (apply nth_In; rewrite Lc; exact Hm').
      pose proof (Hres _ ltac:(unfold col_wells; rewrite (t_src_A1 _ _ _ (tw_R a) Lc (column_wells_length _ _) LW); exact Hin)) as Hne.
      destruct (trough_column_wells_In _ _ _ (Hcyc _ Hin)) as (r' & Hr' & Ew). rewrite Ew in *.
      assert (HvT : g_vrows (lw_geom T) = Some vt) by (rewrite HgT; exact Hvt).
      rewrite <- HgT in Hr'. exact (proj1 (trough_lw_index T vt r' tcol HvT Hr' Hne)).
    + intro E. congruence.
    + intro E. congruence.
    + unfold PV, PF. rewrite (lwv_eq s' pl P' _ HP'), (lwf_eq s' pl P' _ HP'), (lwv_eq s pl P _ HP), (lwf_eq s pl P _ HP).
      rewrite Hamt, ET, (well_in_col_now P HgP) by assumption. rewrite Nat.eqb_refl.
      rewrite (lwf_eq s kt T _ HT). reflexivity.
Qed.


Lemma plate_lw_index_now P r c : lw_geom P = lw_geom P0 -> (r < tw_R a)%nat -> (c < g)%nat ->
  lw_index P (well_id r c) = Some (r * g + c)%nat.
Proof.
  intros HgP Hr Hc. unfold g in *. rewrite <- HgP. apply plate_lw_index; rewrite HgP; [exact HPv|lia|exact Hc].
Qed.

Lemma transfer_length s ks sw kd dw vols label ws pb kw s' :
  transfer s ks sw kd dw vols label ws pb kw = (s', None) -> Good s -> length (st_lw s') = length (st_lw s).
Proof.
  intros H (Hwf & _ & Hm & _).
  exact (proj1 (proj1 (transfer_ledger _ _ _ _ _ _ _ _ _ _ _ H Hwf Hm))).
Qed.

(** a mixing transfer: a column onto itself *)
Lemma mix_effect s s' cx mv label ws kw :
  transfer s pl (col_wells a cx) pl (col_wells a cx) (A0 mv) label ws "auto" kw = (s', None) -> Good s ->
  Good s' /\
  forall j i, (j < length (st_lw s))%nat -> lwv s' j i == lwv s j i /\ lwf s' j i == lwf s j i.
Proof.
  intros H HG. pose proof HG as (Hwf & HI & _).
  split; [exact (good_transfer _ _ _ _ _ _ _ _ _ _ _ H HG)|].
  intros j i Hj. destruct (nth_error (st_lw s) j) as [L|] eqn:HL; [|apply nth_error_None in HL; lia].
  destruct (transfer_diag k _ _ _ _ _ _ _ _ _ H HI Hwf j L HL) as (L' & HL' & Hsame).
  rewrite (lwv_eq s' j L' i HL'), (lwf_eq s' j L' i HL'), (lwv_eq s j L i HL), (lwf_eq s j L i HL).
  exact (Hsame i).
Qed.

(** the transfer from column [cx] to column [cj] of the plate *)
Lemma serial_effect s s' cx cj (W : list Q) label ws kw :
  transfer s pl (col_wells a cx) pl (col_wells a cj) (A1 W) label ws "auto" kw = (s', None) -> Good s ->
  cx <> cj -> (cx < g)%nat -> (cj < g)%nat -> length W = tw_R a ->
  Good s' /\
  (forall j i, j <> pl -> (j < length (st_lw s))%nat -> lwf s' j i = lwf s j i) /\
  (forall r c, (r < tw_R a)%nat -> (c < g)%nat ->
     PV s' r c == PV s r c + (if (cj =? c)%nat then nth r W 0 else 0) - (if (cx =? c)%nat then nth r W 0 else 0)) /\
  (forall r c, (r < tw_R a)%nat -> (c < g)%nat -> c <> cj -> PF s' r c = PF s r c) /\
  (forall r, (r < tw_R a)%nat ->
     PV s' r cj * PF s' r cj == PV s r cj * PF s r cj + nth r W 0 * PF s r cx).
Proof.
  intros H HG Hne Hcx Hcj LW.
  pose proof HG as (Hwf & HI & Hm & (P & HP & HgP) & _).
  assert (ET : t_triples (col_wells a cx) (col_wells a cj) (A1 W) =
               zip (zip (column_wells (tw_R a) cx) (column_wells (tw_R a) cj)) W).
  { unfold col_wells. apply (t_triples_A1 _ _ _ (tw_R a)); [apply column_wells_length|apply column_wells_length|exact LW]. }
  split; [exact (good_transfer _ _ _ _ _ _ _ _ _ _ _ H HG)|]. split; [|split; [|split]].
  - intros j i Hj Hlt. exact (transfer_lwf_other _ _ _ _ _ _ _ _ _ _ _ j i H HG Hj Hlt).
  - intros r c Hr Hc. unfold PV. rewrite (transfer_lwv _ _ _ _ _ _ _ _ _ _ _ pl P _ H HG HP).
    cbn [op_delta]. rewrite Nat.eqb_refl, ET.
    rewrite (well_in_col_now P HgP) by (try assumption; apply column_wells_length).
    rewrite (well_out_col_now P HgP) by (try assumption; apply column_wells_length). ring.
  - intros r c Hr Hc Hnc. unfold PF.
    destruct (transfer_frame k _ _ _ _ _ _ _ _ _ _ _ H HI Hwf pl P HP) as (P' & HP' & Hf).
    rewrite (lwf_eq s' pl P' _ HP'), (lwf_eq s pl P _ HP). apply Hf. intros _ t Ht. rewrite ET in Ht.
    exact (col_dst_not P HgP _ W cj r c t Hr Hc Hcj (column_wells_length _ _) LW Hnc Ht).
  - intros r Hr.
    destruct (transfer_uniform k _ _ _ _ _ _ _ _ _ _ _ (r * g + cj)%nat (r * g + cx)%nat P P H HI Hwf Hm HP HP)
      as (P' & HP' & Hamt).
    + intros t Ht Hd. rewrite ET in Ht.
      destruct (zip3_In _ _ _ _ _ (column_wells_length _ _) (column_wells_length _ _) LW Ht) as (m & Hm' & ->).
      cbn [fst snd] in *. rewrite column_wells_nth in * by exact Hm'.
      rewrite (plate_idx_now P HgP) in Hd by assumption.
      apply andb_true_iff in Hd. destruct Hd as [Hd _]. apply Nat.eqb_eq in Hd. subst m.
      apply plate_lw_index_now; assumption.
    + intros _ t Ht. rewrite ET in Ht.
      destruct (zip3_In _ _ _ _ _ (column_wells_length _ _) (column_wells_length _ _) LW Ht) as (m & Hm' & ->).
      cbn [fst snd]. rewrite column_wells_nth by exact Hm'. rewrite (plate_idx_now P HgP) by assumption.
      destruct (Nat.eqb_spec cj cx) as [E|_]; [congruence|]. apply andb_false_r.
    + intros _ t Ht. rewrite ET in Ht.
      destruct (zip3_In _ _ _ _ _ (column_wells_length _ _) (column_wells_length _ _) LW Ht) as (m & Hm' & ->).
      cbn [fst snd]. rewrite column_wells_nth by exact Hm'. rewrite (plate_idx_now P HgP) by assumption.
      destruct (Nat.eqb_spec cx cj) as [E|_]; [congruence|]. apply andb_false_r.
    + unfold PV, PF. rewrite (lwv_eq s' pl P' _ HP'), (lwf_eq s' pl P' _ HP'), !(lwv_eq s pl P _ HP), !(lwf_eq s pl P _ HP).
      rewrite Hamt, ET, (well_in_col_now P HgP) by (try assumption; apply column_wells_length).
      rewrite Nat.eqb_refl. reflexivity.
Qed.

(** the transfer of column [cx] to the destination plate *)
Lemma dest_effect s s' cx d vdst label ws kw :
  transfer s pl (col_wells a cx) d (col_wells a cx) (A0 vdst) label ws "auto" kw = (s', None) -> Good s ->
  d <> pl -> (cx < g)%nat ->
  Good s' /\
  (forall j i, j <> d -> (j < length (st_lw s))%nat -> lwf s' j i = lwf s j i) /\
  (forall r c, (r < tw_R a)%nat -> (c < g)%nat ->
     PV s' r c == PV s r c - (if (cx =? c)%nat then vdst else 0)).
Proof.
  intros H HG Hd Hcx.
  pose proof HG as (Hwf & HI & Hm & (P & HP & HgP) & _).
  split; [exact (good_transfer _ _ _ _ _ _ _ _ _ _ _ H HG)|]. split.
  - intros j i Hj Hlt. exact (transfer_lwf_other _ _ _ _ _ _ _ _ _ _ _ j i H HG Hj Hlt).
  - intros r c Hr Hc. unfold PV. rewrite (transfer_lwv _ _ _ _ _ _ _ _ _ _ _ pl P _ H HG HP).
    cbn [op_delta]. rewrite Nat.eqb_refl.
    assert (E : (pl =? d)%nat = false) by (apply Nat.eqb_neq; congruence). rewrite E.
    unfold col_wells.
    rewrite (t_triples_A1_A0 _ _ _ (tw_R a)); [|lia|apply column_wells_length|apply column_wells_length].
    rewrite (well_out_col_now P HgP) by (try assumption; try apply column_wells_length; apply repeat_length).
    rewrite nth_repeat_lt by exact Hr. ring.
Qed.


(* ---- columns of the plate during the run ---- *)

(** everything is as before (up to ==) *)
Definition AllSame (s s' : state) : Prop :=
  length (st_lw s') = length (st_lw s) /\
  forall j i, (j < length (st_lw s))%nat -> lwv s' j i == lwv s j i /\ lwf s' j i == lwf s j i.

Lemma AllSame_refl s : AllSame s s.
Proof. split; [reflexivity|]. intros j i _. split; reflexivity. Qed.

Lemma AllSame_trans s1 s2 s3 : AllSame s1 s2 -> AllSame s2 s3 -> AllSame s1 s3.
Proof.
  intros (L1 & H1) (L2 & H2). split; [congruence|]. intros j i Hj.
  destruct (H1 j i Hj) as (A1 & A2). destruct (H2 j i ltac:(rewrite L1; exact Hj)) as (B1 & B2).
  split; [rewrite B1; exact A1|rewrite B2; exact A2].
Qed.

Lemma commit_same s s' : step s OCommit = (s', None) -> Good s -> Good s' /\ st_lw s' = st_lw s.
Proof. exact (good_commit s s'). Qed.

Definition Vq (c r : nat) : Q := inject_Z (pvol p c r).
Definition srcconc (c r : nat) : Q := match psrc p c with None => stock | Some k0 => pconc p k0 r end.

Definition Same (s s' : state) (c : nat) : Prop :=
  forall r, (r < tw_R a)%nat -> PV s' r c == PV s r c /\ PF s' r c == PF s r c.
Definition Empty (s : state) (c : nat) : Prop := forall r, (r < tw_R a)%nat -> PV s r c == 0.
Definition Fed (s : state) (c : nat) : Prop :=
  forall r, (r < tw_R a)%nat -> PV s r c == Vq c r /\ PV s r c * PF s r c * stock == Vq c r * srcconc c r.
Definition Done (s : state) (c : nat) : Prop := forall r, (r < tw_R a)%nat -> PF s r c * stock == pconc p c r.

Lemma Same_refl s c : Same s s c.
Proof. intros r _. split; reflexivity. Qed.
Lemma Same_trans s1 s2 s3 c : Same s1 s2 c -> Same s2 s3 c -> Same s1 s3 c.
Proof.
  intros H1 H2 r Hr. destruct (H1 r Hr) as (A1 & A2). destruct (H2 r Hr) as (B1 & B2).
  split; [rewrite B1; exact A1|rewrite B2; exact A2].
Qed.
Lemma Same_Empty s s' c : Same s s' c -> Empty s c -> Empty s' c.
Proof. intros H HE r Hr. rewrite (proj1 (H r Hr)). exact (HE r Hr). Qed.
Lemma Same_Fed s s' c : Same s s' c -> Fed s c -> Fed s' c.
Proof.
  intros H HF r Hr. destruct (H r Hr) as (A1 & A2). destruct (HF r Hr) as (F1 & F2).
  split; [rewrite A1; exact F1|rewrite A1, A2; exact F2].
Qed.
Lemma Same_Done s s' c : Same s s' c -> Done s c -> Done s' c.
Proof. intros H HD r Hr. rewrite (proj2 (H r Hr)). exact (HD r Hr). Qed.

Lemma good_lengths s : Good s ->
  (pl < length (st_lw s))%nat /\ (tw_stock a < length (st_lw s))%nat /\ (tw_diluent a < length (st_lw s))%nat.
Proof.
  intros (_ & _ & _ & (P & HP & _) & (St & HSt & _) & (D & HD & _)).
  split; [|split]; eapply nth_error_lt; eassumption.
Qed.

Lemma AllSame_Same s s' c : Good s -> AllSame s s' -> Same s s' c.
Proof. intros HG (_ & H) r _. unfold PV, PF. apply H. exact (proj1 (good_lengths s HG)). Qed.

Lemma st_lw_same_access s s' : st_lw s' = st_lw s -> AllSame s s'.
Proof.
  intro E. split; [rewrite E; reflexivity|]. intros j i _. unfold lwv, lwf. rewrite E. split; reflexivity.
Qed.

(** the mixing transfers of one instruction *)
Lemma mix_ops_effect x (f : nat -> scheme) mv lab : forall (l : list nat) s s',
  run_ops s (flat_map (fun r => [OTransfer pl (col_wells a (i_col x)) pl (col_wells a (i_col x)) (A0 mv)
                                           lab (f r) "auto" (kw_lc (tw_lc_mix a)); OCommit]) l) = (s', None) ->
  Good s -> Good s' /\ AllSame s s'.
Proof.
  induction l as [|r0 l IH]; intros s s' H HG.
  - cbn [flat_map run_ops] in H. injection H as <-. split; [exact HG|apply AllSame_refl].
  - cbn [flat_map app] in H. cbn [run_ops] in H.
    destruct (step s _) as [s1 [e|]] eqn:E1; [discriminate|].
    destruct (step s1 OCommit) as [s2 [e|]] eqn:E2; [discriminate|].
    cbn [step] in E1. destruct (mix_effect _ _ _ _ _ _ _ E1 HG) as (HG1 & Hs1).
    destruct (commit_same _ _ E2 HG1) as (HG2 & Hs2).
    destruct (IH _ _ H HG2) as (HG' & Hs').
    split; [exact HG'|].
    apply (AllSame_trans s s1); [split; [exact (transfer_length _ _ _ _ _ _ _ _ _ _ _ E1 HG)|exact Hs1]|].
    apply (AllSame_trans s1 s2); [exact (st_lw_same_access _ _ Hs2)|exact Hs'].
Qed.


Lemma stock_ne_pl : tw_stock a <> pl.
Proof. intro E. apply Hps. symmetry. exact E. Qed.
Lemma dil_ne_pl : tw_diluent a <> pl.
Proof. intro E. apply Hpd. symmetry. exact E. Qed.

Lemma acc_ext s s' : st_lw s' = st_lw s ->
  (forall r c, PV s' r c = PV s r c /\ PF s' r c = PF s r c) /\ SF s' = SF s /\ DF s' = DF s.
Proof. intro E. unfold PV, PF, SF, DF, lwv, lwf. rewrite E. repeat split. Qed.

(** the transfers out of column [i_col x] into the columns prepared from it *)
Lemma serial_ops_effect x : forall (js : list instr) s s',
  run_ops s (flat_map (fun j => [serial_op a x j; OCommit]) js) = (s', None) -> Good s ->
  (i_col x < g)%nat ->
  (forall j, In j js -> (i_col j < g)%nat /\ i_col j <> i_col x /\ length (i_vols j) = tw_R a) ->
  NoDup (map i_col js) ->
  Good s' /\ SF s' = SF s /\ DF s' = DF s /\
  (forall r c, (r < tw_R a)%nat -> (c < g)%nat -> ~ In c (map i_col js) -> PF s' r c = PF s r c) /\
  (forall r c, (r < tw_R a)%nat -> (c < g)%nat -> c <> i_col x -> ~ In c (map i_col js) ->
     PV s' r c == PV s r c) /\
  (forall j, In j js -> forall r, (r < tw_R a)%nat ->
     PV s' r (i_col j) == PV s r (i_col j) + inject_Z (nth r (i_vols j) 0%Z) /\
     PV s' r (i_col j) * PF s' r (i_col j) ==
       PV s r (i_col j) * PF s r (i_col j) + inject_Z (nth r (i_vols j) 0%Z) * PF s r (i_col x)).
Proof.
  induction js as [|j js IH]; intros s s' H HG Hcx Hjs ND.
  - cbn [flat_map run_ops] in H. injection H as <-.
    split; [exact HG|]. split; [reflexivity|]. split; [reflexivity|].
    split; [intros; reflexivity|]. split; [intros; reflexivity|]. intros j [].
  - cbn [flat_map app] in H. cbn [run_ops] in H.
    destruct (step s (serial_op a x j)) as [s1 [e|]] eqn:E1; [discriminate|].
    destruct (step s1 OCommit) as [s2 [e|]] eqn:E2; [discriminate|].
    destruct (Hjs j (or_introl eq_refl)) as (Hcj & Hne & Lj).
    unfold serial_op in E1. cbn [step] in E1.
    destruct (serial_effect _ _ (i_col x) (i_col j) (map inject_Z (i_vols j)) _ _ _ E1 HG
                (fun E => Hne (eq_sym E)) Hcx Hcj ltac:(rewrite map_length; exact Lj))
      as (HG1 & Hfr1 & HPV1 & HPF1 & Hamt1).
    destruct (commit_same _ _ E2 HG1) as (HG2 & Hs2).
    destruct (acc_ext _ _ Hs2) as (Hacc & HaccS & HaccD).
    cbn [map] in ND. inversion ND as [|c0 l0 Hnotin ND']; subst c0 l0.
    destruct (IH _ _ H HG2 Hcx (fun j' Hj' => Hjs j' (or_intror Hj')) ND')
      as (HG' & HS' & HD' & HPF' & HPV' & Hfed').
    destruct (good_lengths s HG) as (_ & Hls & Hld).
    split; [exact HG'|].
    split; [rewrite HS', HaccS; unfold SF; apply Hfr1; [exact stock_ne_pl|exact Hls]|].
    split; [rewrite HD', HaccD; unfold DF; apply Hfr1; [exact dil_ne_pl|exact Hld]|].
    split; [|split].
    + intros r c Hr Hc Hnin. cbn [map In] in Hnin.
      rewrite HPF' by (try assumption; tauto). rewrite (proj2 (Hacc r c)).
      apply HPF1; try assumption. intro E. apply Hnin. left. symmetry. exact E.
    + intros r c Hr Hc Hnx Hnin. cbn [map In] in Hnin.
      rewrite HPV' by (try assumption; tauto). rewrite (proj1 (Hacc r c)), (HPV1 r c Hr Hc).
      destruct (Nat.eqb_spec (i_col j) c) as [E|_]; [exfalso; apply Hnin; left; exact E|].
      destruct (Nat.eqb_spec (i_col x) c) as [E|_]; [exfalso; apply Hnx; symmetry; exact E|]. ring.
    + intros j' [<-|Hj'] r Hr.
      * (* the column just served is not touched by the later transfers *)
        assert (Hpf : PF s' r (i_col j) = PF s1 r (i_col j)).
        { rewrite HPF' by assumption. exact (proj2 (Hacc r (i_col j))). }
        assert (Hpv : PV s' r (i_col j) == PV s1 r (i_col j)).
        { rewrite HPV' by assumption. rewrite (proj1 (Hacc r (i_col j))). reflexivity. }
        rewrite Hpf, Hpv, (Hamt1 r Hr), (HPV1 r (i_col j) Hr Hcj), nth_inject, Nat.eqb_refl.
        destruct (Nat.eqb_spec (i_col x) (i_col j)) as [E|_]; [exfalso; exact (Hne (eq_sym E))|].
        split; ring.
      * destruct (Hjs j' (or_intror Hj')) as (Hcj' & Hne' & Lj').
        assert (Hdiff : i_col j <> i_col j').
        { intro E. apply Hnotin. rewrite E. apply in_map. exact Hj'. }
        destruct (Hfed' j' Hj' r Hr) as (F1 & F2).
        rewrite F2, F1, !(proj1 (Hacc r _)), !(proj2 (Hacc r _)).
        rewrite (HPV1 r (i_col j') Hr Hcj').
        rewrite (HPF1 r (i_col j') Hr Hcj' (fun E => Hdiff (eq_sym E))).
        rewrite (HPF1 r (i_col x) Hr Hcx (fun E => Hne (eq_sym E))).
        destruct (Nat.eqb_spec (i_col j) (i_col j')) as [E|_]; [exfalso; exact (Hdiff E)|].
        destruct (Nat.eqb_spec (i_col x) (i_col j')) as [E|_]; [exfalso; exact (Hne' (eq_sym E))|].
        split; ring.
Qed.


Lemma NoDup_map_filter {A B} (f : A -> B) (q : A -> bool) l : NoDup (map f l) -> NoDup (map f (filter q l)).
Proof.
  induction l as [|x l IH]; intro H; [constructor|]. cbn [map] in H. inversion H as [|y l0 Hn Hl]; subst y l0.
  cbn [filter]. destruct (q x); [|exact (IH Hl)]. cbn [map]. constructor; [|exact (IH Hl)].
  intro Hin. apply Hn. apply in_map_iff in Hin. destruct Hin as (z & Ez & Hz). apply filter_In in Hz.
  apply in_map_iff. exists z. split; [exact Ez|exact (proj1 Hz)].
Qed.

(** facts about the instruction of column [n] *)
Lemma plan_col_facts n : (n < length ideal)%nat ->
  let x := nth n (dp_instr p) dinstr in
  In x (dp_instr p) /\ i_col x = n /\ length (i_vols x) = tw_R a /\ (n < g)%nat /\
  vm_of p x = nth n vmax 0 /\ i_src x = psrc p n.
Proof.
  intros Hn x.
  destruct (proj1 (c14_complete ideal stock vmax mt) p Hplan) as (Hv & L1 & _ & _ & Hcol).
  split; [apply nth_In; rewrite L1; exact Hn|]. split; [exact (Hcol n Hn)|].
  split; [exact (proj1 (c14_shape _ _ _ _ _ _ Hplan Hrect n Hn))|]. split; [unfold g; lia|].
  split; [unfold vm_of, x; rewrite (Hcol n Hn), Hv; reflexivity|reflexivity].
Qed.

Lemma NoDup_cols : NoDup (map i_col (dp_instr p)).
Proof.
  destruct (proj1 (c14_complete ideal stock vmax mt) p Hplan) as (_ & L1 & _ & _ & Hcol).
  assert (E : map i_col (dp_instr p) = seq 0 (length (dp_instr p))).
  { apply (nth_ext _ _ 0%nat 0%nat); [rewrite map_length, seq_length; reflexivity|].
    intros m Hm. rewrite map_length in Hm. rewrite (nth_map_lt _ _ dinstr) by exact Hm.
    rewrite seq_nth by exact Hm. apply Hcol. rewrite <- L1. exact Hm. }
  rewrite E. apply seq_NoDup.
Qed.

Lemma fed_facts n j : (n < length ideal)%nat -> In j (filter (feeds n) (dp_instr p)) ->
  (i_col j < g)%nat /\ i_col j <> n /\ length (i_vols j) = tw_R a /\
  (i_col j < length ideal)%nat /\ psrc p (i_col j) = Some n /\ nth (i_col j) (dp_instr p) dinstr = j.
Proof.
  intros Hn Hj. destruct (c14_serial_later _ _ _ _ _ _ _ Hplan Hj) as (Hsrc & Hlt & Hlen & Hnth).
  split; [unfold g; lia|]. split; [lia|].
  split; [rewrite <- Hnth; exact (proj1 (c14_shape _ _ _ _ _ _ Hplan Hrect _ Hlen))|].
  split; [exact Hlen|]. split; [unfold psrc; rewrite Hnth; exact Hsrc|exact Hnth].
Qed.

Lemma fed_member n c : (n < length ideal)%nat -> (c < length ideal)%nat -> psrc p c = Some n ->
  In (nth c (dp_instr p) dinstr) (filter (feeds n) (dp_instr p)).
Proof.
  intros Hn Hc Hsrc. destruct (proj1 (c14_complete ideal stock vmax mt) p Hplan) as (_ & L1 & _).
  apply filter_In. split; [apply nth_In; rewrite L1; exact Hc|].
  unfold feeds. unfold psrc in Hsrc. rewrite Hsrc. apply Nat.eqb_refl.
Qed.


(** phase 1: the column is filled from its source (stock trough, or nothing to do) *)
Lemma phase_stock s s1 n : (n < length ideal)%nat ->
  run_ops s (stock_part a gs (nth n (dp_instr p) dinstr)) = (s1, None) ->
  Good s -> SF s == 1 -> DF s == 0 ->
  (psrc p n = None -> Empty s n) -> (psrc p n <> None -> Fed s n) ->
  Good s1 /\ SF s1 == 1 /\ DF s1 == 0 /\ Fed s1 n /\
  (forall c, (c < g)%nat -> c <> n -> Same s s1 c).
Proof.
  intros Hn H HG HS HD HE HF.
  destruct (plan_col_facts n Hn) as (Hin & Hcol & Hlen & Hng & Hvm & Hsrc).
  set (x := nth n (dp_instr p) dinstr) in *.
  unfold stock_part in H. destruct (i_src x) as [k0|] eqn:Esrc.
  - cbn [run_ops] in H. injection H as <-.
    split; [exact HG|]. split; [exact HS|]. split; [exact HD|].
    split; [apply HF; rewrite <- Hsrc; discriminate|]. intros c _ _. apply Same_refl.
  - cbn [run_ops] in H.
    destruct (step s (stock_op a gs x)) as [sa [e|]] eqn:E1; [discriminate|].
    destruct (step sa OCommit) as [sb [e|]] eqn:E2; [discriminate|]. injection H as <-.
    unfold stock_op in E1. cbn [step] in E1. rewrite Hcol in E1.
    pose proof HG as (_ & _ & _ & _ & HSt & _).
    destruct (trough_col_effect s sa (tw_stock a) St0 vs (tw_stock_column a) cyc_s n (map inject_Z (i_vols x))
                _ _ _ E1 HG stock_ne_pl HSt HvS (fun w Hw => cycle_wells_In _ _ _ Hw) cyc_s_length
                ltac:(rewrite map_length; exact Hlen) Hng)
      as (HGa & Hfr & HPV & HPF & Hamt).
    destruct (commit_same _ _ E2 HGa) as (HGb & Hsb).
    destruct (acc_ext _ _ Hsb) as (Hacc & HaccS & HaccD).
    destruct (good_lengths s HG) as (_ & Hls & Hld).
    split; [exact HGb|].
    split; [rewrite HaccS; unfold SF; rewrite (Hfr _ _ stock_ne_pl Hls); exact HS|].
    split; [rewrite HaccD; unfold DF; rewrite (Hfr _ _ dil_ne_pl Hld); exact HD|].
    split.
    + intros r Hr. rewrite (proj1 (Hacc r n)), (proj2 (Hacc r n)).
      pose proof (HE ltac:(rewrite <- Hsrc; reflexivity) r Hr) as He.
      rewrite (Hamt r Hr), (HPV r n Hr Hng), Nat.eqb_refl, nth_inject, He.
      fold (SF s). rewrite HS. unfold srcconc. rewrite <- Hsrc. unfold Vq, pvol. fold x. split; ring.
    + intros c Hc Hne r Hr. rewrite (proj1 (Hacc r c)), (proj2 (Hacc r c)).
      rewrite (HPV r c Hr Hc), (HPF r c Hr Hc Hne).
      destruct (Nat.eqb_spec n c) as [E|_]; [congruence|]. split; [ring|reflexivity].
Qed.

(** phase 2: the column is filled up with diluent *)
Lemma phase_dilute s s2 n : (n < length ideal)%nat -> ~ nth n vmax 0 == 0 ->
  run_ops s (dilute_part a p gd (nth n (dp_instr p) dinstr)) = (s2, None) ->
  Good s -> SF s == 1 -> DF s == 0 -> Fed s n ->
  Good s2 /\ SF s2 == 1 /\ DF s2 == 0 /\ Done s2 n /\
  (forall c, (c < g)%nat -> c <> n -> Same s s2 c).
Proof.
  intros Hn Hvmnz H HG HS HD HF.
  destruct (plan_col_facts n Hn) as (Hin & Hcol & Hlen & Hng & Hvm & Hsrc).
  set (x := nth n (dp_instr p) dinstr) in *.
  unfold dilute_part in H. cbn [run_ops] in H.
  destruct (step s (dilute_op a p gd x)) as [sa [e|]] eqn:E1; [discriminate|].
  destruct (step sa OCommit) as [sb [e|]] eqn:E2; [discriminate|]. injection H as <-.
  unfold dilute_op in E1. cbn [step] in E1. rewrite Hcol in E1.
  pose proof HG as (_ & _ & _ & _ & _ & HDl).
  destruct (trough_col_effect s sa (tw_diluent a) D0 vd (tw_diluent_column a) cyc_d n
              (map (fun v => Qred (vm_of p x - v)) (map inject_Z (i_vols x)))
              _ _ _ E1 HG dil_ne_pl HDl HvD (fun w Hw => cycle_wells_In _ _ _ Hw) cyc_d_length
              ltac:(rewrite !map_length; exact Hlen) Hng)
    as (HGa & Hfr & HPV & HPF & Hamt).
  destruct (commit_same _ _ E2 HGa) as (HGb & Hsb).
  destruct (acc_ext _ _ Hsb) as (Hacc & HaccS & HaccD).
  destruct (good_lengths s HG) as (_ & Hls & Hld).
  split; [exact HGb|].
  split; [rewrite HaccS; unfold SF; rewrite (Hfr _ _ stock_ne_pl Hls); exact HS|].
  split; [rewrite HaccD; unfold DF; rewrite (Hfr _ _ dil_ne_pl Hld); exact HD|].
  split.
  - intros r Hr. rewrite (proj2 (Hacc r n)).
    destruct (HF r Hr) as (F1 & F2).
    assert (EW : nth r (map (fun v => Qred (vm_of p x - v)) (map inject_Z (i_vols x))) 0 == nth n vmax 0 - Vq n r).
    { rewrite (nth_map_lt _ _ 0) by (rewrite map_length, Hlen; exact Hr).
      rewrite Qred_correct, nth_inject, Hvm. unfold Vq, pvol. fold x. reflexivity. }
    pose proof (HPV r n Hr Hng) as Hv2. rewrite Nat.eqb_refl, EW, F1 in Hv2.
    pose proof (Hamt r Hr) as Ha2. rewrite EW in Ha2. fold (DF s) in Ha2. rewrite HD in Ha2.
    (* vmax * (fraction * stock) == V * srcconc, and the same for the reported concentration *)
    assert (Hlhs : nth n vmax 0 * (PF sa r n * stock) == Vq n r * srcconc n r).
    { rewrite <- F2. assert (Hvv : PV sa r n == nth n vmax 0) by (rewrite Hv2; ring).
      rewrite <- Hvv. setoid_replace (PV sa r n * (PF sa r n * stock)) with (PV sa r n * PF sa r n * stock) by ring.
      rewrite Ha2. ring. }
    assert (Hrhs : nth n vmax 0 * pconc p n r == Vq n r * srcconc n r).
    { pose proof (c14_x ideal stock vmax mt p (tw_R a) Hplan Hrect n r Hn Hr) as Hx.
      unfold srcconc, Vq. destruct (psrc p n) as [k0|].
      - destruct Hx as (_ & Hx). rewrite Hx. field. exact Hvmnz.
      - rewrite Hx. field. exact Hvmnz. }
    apply (Qmult_inj_l _ _ (nth n vmax 0) Hvmnz). rewrite Hlhs, Hrhs. reflexivity.
  - intros c Hc Hne r Hr. rewrite (proj1 (Hacc r c)), (proj2 (Hacc r c)).
    rewrite (HPV r c Hr Hc), (HPF r c Hr Hc Hne).
    destruct (Nat.eqb_spec n c) as [E|_]; [congruence|]. split; [ring|reflexivity].
Qed.


(** phase 3: mixing changes nothing *)
Lemma phase_mix s s3 wm x :
  run_ops s (mix_part a p wm x) = (s3, None) -> Good s -> Good s3 /\ AllSame s s3.
Proof.
  intros H HG. unfold mix_part in H. destruct (needs_mix a p x).
  - unfold mix_op in H. exact (mix_ops_effect x _ _ _ _ _ _ H HG).
  - cbn [run_ops] in H. injection H as <-. split; [exact HG|apply AllSame_refl].
Qed.

Lemma AllSame_SD s s' : Good s -> AllSame s s' -> SF s' == SF s /\ DF s' == DF s.
Proof.
  intros HG (_ & H). destruct (good_lengths s HG) as (_ & Hls & Hld). unfold SF, DF.
  split; [exact (proj2 (H _ _ Hls))|exact (proj2 (H _ _ Hld))].
Qed.

(** phase 4: the columns prepared from column [n] receive their volumes *)
Lemma phase_serial s s4 n : (n < length ideal)%nat ->
  run_ops s (serial_part a p (nth n (dp_instr p) dinstr)) = (s4, None) ->
  Good s -> Done s n ->
  (forall c, (c < length ideal)%nat -> psrc p c = Some n -> Empty s c) ->
  Good s4 /\ SF s4 = SF s /\ DF s4 = DF s /\ Done s4 n /\
  (forall c, (c < length ideal)%nat -> psrc p c = Some n -> Fed s4 c) /\
  (forall c, (c < length ideal)%nat -> c <> n -> psrc p c <> Some n -> Same s s4 c).
Proof.
  intros Hn H HG HDn HE.
  destruct (plan_col_facts n Hn) as (Hin & Hcol & Hlen & Hng & Hvm & Hsrc).
  set (x := nth n (dp_instr p) dinstr) in *.
  unfold serial_part in H. rewrite Hcol in H.
  destruct (serial_ops_effect x _ _ _ H HG ltac:(rewrite Hcol; exact Hng)) as (HG4 & HS4 & HD4 & HPF & HPV & Hfed).
  { intros j Hj. destruct (fed_facts n j Hn Hj) as (F1 & F2 & F3 & _). rewrite Hcol. auto. }
  { apply NoDup_map_filter. exact NoDup_cols. }
  assert (Hnotin : forall c, (c < length ideal)%nat -> psrc p c <> Some n ->
                     ~ In c (map i_col (filter (feeds n) (dp_instr p)))).
  { intros c Hc Hns Hinc. apply in_map_iff in Hinc. destruct Hinc as (j & Ej & Hj).
    destruct (fed_facts n j Hn Hj) as (_ & _ & _ & _ & Hp & _). rewrite Ej in Hp. exact (Hns Hp). }
  assert (Hnn : psrc p n <> Some n).
  { intro E. pose proof (c14_x ideal stock vmax mt p (tw_R a) Hplan Hrect n) as Hx.
    destruct (c14_order _ _ _ _ _ Hplan) as (n1 & _ & Hord).
    destruct (Hord n Hn) as [(_ & Hs & _)|(_ & k0 & Hk & Hs & _)]; rewrite E in Hs; [discriminate|].
    injection Hs as <-. lia. }
  split; [exact HG4|]. split; [exact HS4|]. split; [exact HD4|]. split; [|split].
  - intros r Hr. rewrite (HPF r n Hr Hng (Hnotin n Hn Hnn)). exact (HDn r Hr).
  - intros c Hc Hsc r Hr.
    pose proof (fed_member n c Hn Hc Hsc) as Hj. set (j := nth c (dp_instr p) dinstr) in *.
    destruct (fed_facts n j Hn Hj) as (_ & _ & _ & _ & _ & Hnth).
    assert (Ecj : i_col j = c).
    { destruct (proj1 (c14_complete ideal stock vmax mt) p Hplan) as (_ & _ & _ & _ & Hc0). exact (Hc0 c Hc). }
    destruct (Hfed j Hj r Hr) as (F1 & F2). rewrite Ecj in F1, F2. rewrite Hcol in F2.
    pose proof (HE c Hc Hsc r Hr) as He. rewrite He in F1, F2.
    unfold Vq, pvol. fold j. split; [rewrite F1; ring|].
    rewrite F2. unfold srcconc. rewrite Hsc.
    setoid_replace ((0 * PF s r c + inject_Z (nth r (i_vols j) 0%Z) * PF s r n) * stock)
      with (inject_Z (nth r (i_vols j) 0%Z) * (PF s r n * stock)) by ring.
    rewrite (HDn r Hr). reflexivity.
  - intros c Hc Hne Hns r Hr.
    assert (Hcg : (c < g)%nat) by (unfold g; lia).
    rewrite (HPF r c Hr Hcg (Hnotin c Hc Hns)).
    rewrite (HPV r c Hr Hcg ltac:(rewrite Hcol; exact Hne) (Hnotin c Hc Hns)). split; reflexivity.
Qed.

(** phase 5: the transfer to the destination plate takes liquid away, nothing else *)
Lemma phase_dest s s5 n : (n < length ideal)%nat ->
  run_ops s (dest_part a (nth n (dp_instr p) dinstr)) = (s5, None) -> Good s ->
  Good s5 /\ SF s5 = SF s /\ DF s5 = DF s /\
  (forall r c, (r < tw_R a)%nat -> (c < g)%nat -> PF s5 r c = PF s r c) /\
  (forall r c, (r < tw_R a)%nat -> (c < g)%nat -> c <> n -> PV s5 r c == PV s r c).
Proof.
  intros Hn H HG.
  destruct (plan_col_facts n Hn) as (Hin & Hcol & Hlen & Hng & Hvm & Hsrc).
  set (x := nth n (dp_instr p) dinstr) in *.
  revert H. unfold dest_part. remember (tw_dest a) as od eqn:Ed in |- *. destruct od as [d|]; intro H.
  - cbn [run_ops] in H.
    destruct (step s (dest_op a x d)) as [sa [e|]] eqn:E1; [discriminate|].
    destruct (step sa OCommit) as [sb [e|]] eqn:E2; [discriminate|]. injection H as <-.
    unfold dest_op in E1. cbn [step] in E1. rewrite Hcol in E1.
    destruct (Hdest d (eq_sym Ed)) as (Hd1 & Hd2 & Hd3).
    destruct (dest_effect _ _ n d _ _ _ _ E1 HG Hd1 Hng) as (HGa & Hfr & HPV).
    destruct (commit_same _ _ E2 HGa) as (HGb & Hsb).
    destruct (acc_ext _ _ Hsb) as (Hacc & HaccS & HaccD).
    destruct (good_lengths s HG) as (Hlp & Hls & Hld).
    split; [exact HGb|].
    split; [rewrite HaccS; unfold SF; apply Hfr; [congruence|exact Hls]|].
    split; [rewrite HaccD; unfold DF; apply Hfr; [congruence|exact Hld]|].
    split.
    + intros r c Hr Hc. rewrite (proj2 (Hacc r c)). unfold PF. apply Hfr; [|exact Hlp].
      intro E. apply Hd1. symmetry. exact E.
    + intros r c Hr Hc Hne. rewrite (proj1 (Hacc r c)), (HPV r c Hr Hc).
      destruct (Nat.eqb_spec n c) as [E|_]; [congruence|]. ring.
  - cbn [run_ops] in H. injection H as <-.
    split; [exact HG|]. split; [reflexivity|]. split; [reflexivity|]. split; intros; reflexivity.
Qed.


Lemma psrc_lt c k0 : (c < length ideal)%nat -> psrc p c = Some k0 -> (k0 < c)%nat.
Proof.
  intros Hc Hs. destruct (c14_order _ _ _ _ _ Hplan) as (n1 & _ & Hord).
  destruct (Hord c Hc) as [(_ & Hs' & _)|(_ & k1 & Hk & Hs' & _)]; rewrite Hs in Hs'; [discriminate|].
  injection Hs' as <-. exact Hk.
Qed.

(** all operations of the instruction of column [n] *)
Lemma instr_effect s s' wm n :
  (n < length ideal)%nat -> ~ nth n vmax 0 == 0 ->
  run_ops s (instr_ops a p wm gs gd (nth n (dp_instr p) dinstr)) = (s', None) ->
  Good s -> SF s == 1 -> DF s == 0 ->
  (psrc p n = None -> Empty s n) -> (psrc p n <> None -> Fed s n) ->
  (forall c, (c < length ideal)%nat -> psrc p c = Some n -> Empty s c) ->
  Good s' /\ SF s' == 1 /\ DF s' == 0 /\ Done s' n /\
  (forall c, (c < length ideal)%nat -> psrc p c = Some n -> Fed s' c) /\
  (forall c, (c < length ideal)%nat -> c <> n -> psrc p c <> Some n -> Same s s' c).
Proof.
  intros Hn Hvm H HG HS HD HE HF HEf.
  destruct (plan_col_facts n Hn) as (_ & _ & _ & Hng & _).
  rewrite c14_exec_structure, run_ops_app in H.
  destruct (run_ops s (stock_part a gs (nth n (dp_instr p) dinstr))) as [s1 [e|]] eqn:E1; [discriminate|].
  rewrite run_ops_app in H.
  destruct (run_ops s1 (dilute_part a p gd (nth n (dp_instr p) dinstr))) as [s2 [e|]] eqn:E2; [discriminate|].
  rewrite run_ops_app in H.
  destruct (run_ops s2 (mix_part a p wm (nth n (dp_instr p) dinstr))) as [s3 [e|]] eqn:E3; [discriminate|].
  rewrite run_ops_app in H.
  destruct (run_ops s3 (serial_part a p (nth n (dp_instr p) dinstr))) as [s4 [e|]] eqn:E4; [discriminate|].
  destruct (phase_stock _ _ n Hn E1 HG HS HD HE HF) as (HG1 & HS1 & HD1 & HF1 & Hsame1).
  destruct (phase_dilute _ _ n Hn Hvm E2 HG1 HS1 HD1 HF1) as (HG2 & HS2 & HD2 & HDn2 & Hsame2).
  destruct (phase_mix _ _ _ _ E3 HG2) as (HG3 & Hall3).
  destruct (AllSame_SD _ _ HG2 Hall3) as (HS3 & HD3).
  assert (Hother3 : forall c, (c < g)%nat -> c <> n -> Same s s3 c).
  { intros c Hc Hne. apply (Same_trans s s1); [exact (Hsame1 c Hc Hne)|].
    apply (Same_trans s1 s2); [exact (Hsame2 c Hc Hne)|exact (AllSame_Same _ _ c HG2 Hall3)]. }
  assert (Hcg : forall c, (c < length ideal)%nat -> (c < g)%nat) by (intros c Hc; unfold g; lia).
  assert (Hfedne : forall c, (c < length ideal)%nat -> psrc p c = Some n -> c <> n).
  { intros c Hc Hs E. subst c. pose proof (psrc_lt n n Hn Hs). lia. }
  destruct (phase_serial _ _ n Hn E4 HG3 (Same_Done _ _ n (AllSame_Same _ _ n HG2 Hall3) HDn2))
    as (HG4 & HS4 & HD4 & HDn4 & Hfed4 & Hsame4).
  { intros c Hc Hs. exact (Same_Empty _ _ c (Hother3 c (Hcg c Hc) (Hfedne c Hc Hs)) (HEf c Hc Hs)). }
  destruct (phase_dest _ _ n Hn H HG4) as (HG5 & HS5 & HD5 & HPF5 & HPV5).
  assert (Hsame5 : forall c, (c < g)%nat -> c <> n -> Same s4 s' c).
  { intros c Hc Hne r Hr. rewrite (HPF5 r c Hr Hc), (HPV5 r c Hr Hc Hne). split; reflexivity. }
  split; [exact HG5|].
  split; [rewrite HS5, HS4, HS3; exact HS2|]. split; [rewrite HD5, HD4, HD3; exact HD2|].
  split; [|split].
  - intros r Hr. rewrite (HPF5 r n Hr Hng). exact (HDn4 r Hr).
  - intros c Hc Hs. exact (Same_Fed _ _ c (Hsame5 c (Hcg c Hc) (Hfedne c Hc Hs)) (Hfed4 c Hc Hs)).
  - intros c Hc Hne Hns. apply (Same_trans s s3); [exact (Hother3 c (Hcg c Hc) Hne)|].
    apply (Same_trans s3 s4); [exact (Hsame4 c Hc Hne Hns)|exact (Hsame5 c (Hcg c Hc) Hne)].
Qed.

(** state of the plate when the instructions of columns < n have been executed *)
Definition Inv (s : state) (n : nat) : Prop :=
  SF s == 1 /\ DF s == 0 /\
  (forall c, (c < n)%nat -> (c < length ideal)%nat -> Done s c) /\
  (forall c, (n <= c)%nat -> (c < length ideal)%nat ->
     match psrc p c with
     | Some k0 => if (k0 <? n)%nat then Fed s c else Empty s c
     | None => Empty s c
     end).

Lemma skipn_nth_cons {A} (d : A) (l : list A) : forall n, (n < length l)%nat ->
  skipn n l = nth n l d :: skipn (S n) l.
Proof.
  induction l as [|y l IH]; intros n Hn; [cbn [length] in Hn; lia|].
  destruct n as [|n]; [reflexivity|]. cbn [skipn nth]. apply IH. cbn [length] in Hn. lia.
Qed.

(** the instruction of column [n] advances the invariant *)
Lemma inv_step s s1 wm n : (n < length ideal)%nat -> ~ nth n vmax 0 == 0 ->
  run_ops s (instr_ops a p wm gs gd (nth n (dp_instr p) dinstr)) = (s1, None) ->
  Good s -> Inv s n -> Good s1 /\ Inv s1 (S n).
Proof.
  intros Hn Hvmn E1 HG HInv.
  destruct HInv as (HS & HD & HDone & Hrest).
  destruct (instr_effect _ _ _ n Hn Hvmn E1 HG HS HD) as (HG1 & HS1 & HD1 & HDn & Hfed & Hsame).
  { intro Hs. pose proof (Hrest n (le_n n) Hn) as Hr. rewrite Hs in Hr. exact Hr. }
  { intro Hs. pose proof (Hrest n (le_n n) Hn) as Hr. destruct (psrc p n) as [k0|] eqn:Es; [|congruence].
    pose proof (psrc_lt n k0 Hn Es) as Hk. apply Nat.ltb_lt in Hk. rewrite Hk in Hr. exact Hr. }
  { intros c Hc Hs. pose proof (psrc_lt c n Hc Hs) as Hlt.
    pose proof (Hrest c ltac:(lia) Hc) as Hr. rewrite Hs, Nat.ltb_irrefl in Hr. exact Hr. }
  split; [exact HG1|].
  split; [exact HS1|]. split; [exact HD1|]. split.
  + intros c Hc Hcl. destruct (Nat.eq_dec c n) as [->|Hne]; [exact HDn|].
    apply (Same_Done s s1 c); [|apply HDone; [lia|exact Hcl]].
    apply Hsame; [exact Hcl|exact Hne|]. intro Hs. pose proof (psrc_lt c n Hcl Hs). lia.
  + intros c Hc Hcl. pose proof (Hrest c ltac:(lia) Hcl) as Hr.
    destruct (psrc p c) as [k0|] eqn:Es.
    * destruct (Nat.eq_dec k0 n) as [->|Hkn].
      -- assert (E : (n <? S n)%nat = true) by (apply Nat.ltb_lt; lia). rewrite E. exact (Hfed c Hcl Es).
      -- assert (Hss : Same s s1 c).
         { apply Hsame; [exact Hcl|lia|]. intro E. rewrite Es in E. injection E as E. exact (Hkn E). }
         destruct (k0 <? n)%nat eqn:Ek.
         ++ apply Nat.ltb_lt in Ek. assert (E : (k0 <? S n)%nat = true) by (apply Nat.ltb_lt; lia).
            rewrite E. exact (Same_Fed _ _ c Hss Hr).
         ++ apply Nat.ltb_ge in Ek. assert (E : (k0 <? S n)%nat = false) by (apply Nat.ltb_ge; lia).
            rewrite E. exact (Same_Empty _ _ c Hss Hr).
    * apply (Same_Empty s s1 c); [|exact Hr]. apply Hsame; [exact Hcl|lia|]. rewrite Es. discriminate.
Qed.

Lemma plan_effect : forall m n wms s s',
  (n + m = length ideal)%nat -> length wms = m ->
  (forall c, (c < length ideal)%nat -> ~ nth c vmax 0 == 0) ->
  run_ops s (plan_ops a p gs gd (skipn n (dp_instr p)) wms) = (s', None) ->
  Good s -> Inv s n -> Good s' /\ Inv s' (length ideal).
Proof.
  destruct (proj1 (c14_complete ideal stock vmax mt) p Hplan) as (_ & L1 & _).
  induction m as [|m IH]; intros n wms s s' Hnm Lw Hvm H HG HInv.
  - assert (n = length ideal) by lia. subst n.
    rewrite skipn_all2 in H by lia. unfold plan_ops in H. cbn [zip flat_map run_ops] in H.
    injection H as <-. split; assumption.
  - assert (Hn : (n < length ideal)%nat) by lia.
    rewrite (skipn_nth_cons dinstr) in H by (rewrite L1; exact Hn).
    destruct wms as [|wm wms]; [discriminate|]. cbn [length] in Lw.
    unfold plan_ops in H. cbn [zip flat_map fst snd] in H. fold (plan_ops a p gs gd (skipn (S n) (dp_instr p)) wms) in H.
    rewrite run_ops_app in H.
    destruct (run_ops s (instr_ops a p wm gs gd (nth n (dp_instr p) dinstr))) as [s1 [e|]] eqn:E1; [discriminate|].
    destruct (inv_step _ _ _ n Hn (Hvm n Hn) E1 HG HInv) as (HG1 & HInv1).
    apply (IH (S n) wms s1 s'); [lia|lia|exact Hvm|exact H|exact HG1|exact HInv1].
Qed.

(* ---- the destination plate ---- *)

Section Destination.
Variables (d : nat) (DP0 : labware).
Hypothesis Hd : tw_dest a = Some d.
Hypothesis HDv : g_vrows (lw_geom DP0) = None.
Hypothesis HDR : (tw_R a <= n_row_ids (lw_geom DP0))%nat.
Hypothesis HDC : (length ideal <= g_cols (lw_geom DP0))%nat.
Hypothesis Hvdst : 0 < tw_v_destination a.

Let gD := g_cols (lw_geom DP0).

(** volume / fraction of [k] in well (r, c) of the destination plate *)
Definition DV (s : state) (r c : nat) : Q := lwv s d (r * gD + c).
Definition DFr (s : state) (r c : nat) : Q := lwf s d (r * gD + c).
Definition GoodD (s : state) : Prop :=
  exists DP, nth_error (st_lw s) d = Some DP /\ lw_geom DP = lw_geom DP0.

Lemma d_ne_pl : d <> pl.
Proof. exact (proj1 (Hdest d Hd)). Qed.

Lemma goodD_transfer s ks sw kd dw vols label ws pb kw s' :
  transfer s ks sw kd dw vols label ws pb kw = (s', None) -> Good s -> GoodD s -> GoodD s'.
Proof.
  intros H (Hwf & _ & Hm & _) (DP & HDP & Hg).
  destruct (transfer_ledger _ _ _ _ _ _ _ _ _ _ _ H Hwf Hm) as ((_ & Hled) & _).
  destruct (Hled _ _ HDP) as (DP' & HDP' & Hg' & _). exists DP'. split; [exact HDP'|congruence].
Qed.

(** a transfer that does not involve labware [d] leaves it alone *)
Lemma transfer_frame_d s ks sw kd dw vols label ws pb kw s' :
  transfer s ks sw kd dw vols label ws pb kw = (s', None) -> Good s -> GoodD s -> d <> ks -> d <> kd ->
  forall i, lwv s' d i == lwv s d i /\ lwf s' d i = lwf s d i.
Proof.
  intros H HG (DP & HDP & _) H1 H2 i. split.
  - rewrite (transfer_lwv _ _ _ _ _ _ _ _ _ _ _ d DP i H HG HDP), op_delta_other by assumption. ring.
  - apply (transfer_lwf_other _ _ _ _ _ _ _ _ _ _ _ d i H HG H2). eapply nth_error_lt. exact HDP.
Qed.

Definition untouched (o : op) : Prop :=
  o = OCommit \/
  exists ks sw kd dw vl lab ws pb kw, o = OTransfer ks sw kd dw vl lab ws pb kw /\ d <> ks /\ d <> kd.

Lemma run_ops_frame_d ops : forall s s',
  (forall o, In o ops -> untouched o) -> run_ops s ops = (s', None) -> Good s -> GoodD s ->
  Good s' /\ GoodD s' /\ forall i, lwv s' d i == lwv s d i /\ lwf s' d i = lwf s d i.
Proof.
  induction ops as [|o ops IH]; intros s s' Hu H HG HGD.
  - cbn [run_ops] in H. injection H as <-. split; [exact HG|]. split; [exact HGD|]. intro i. split; reflexivity.
  - cbn [run_ops] in H. destruct (step s o) as [s1 [e|]] eqn:E; [discriminate|].
    assert (Hstep : Good s1 /\ GoodD s1 /\ forall i, lwv s1 d i == lwv s d i /\ lwf s1 d i = lwf s d i).
    { destruct (Hu o (or_introl eq_refl)) as [->|(ks & sw & kd & dw & vl & lab & ws & pb & kw & -> & H1 & H2)].
      - destruct (good_commit _ _ E HG) as (HG1 & Hlw). split; [exact HG1|].
        split; [unfold GoodD; rewrite Hlw; exact HGD|]. intro i. unfold lwv, lwf. rewrite Hlw. split; reflexivity.
      - cbn [step] in E. split; [exact (good_transfer _ _ _ _ _ _ _ _ _ _ _ E HG)|].
        split; [exact (goodD_transfer _ _ _ _ _ _ _ _ _ _ _ E HG HGD)|].
        exact (transfer_frame_d _ _ _ _ _ _ _ _ _ _ _ E HG HGD H1 H2). }
    destruct Hstep as (HG1 & HGD1 & Hf1).
    destruct (IH _ _ (fun o' Ho' => Hu o' (or_intror Ho')) H HG1 HGD1) as (HG' & HGD' & Hf').
    split; [exact HG'|]. split; [exact HGD'|]. intro i.
    destruct (Hf1 i) as (A1 & A2). destruct (Hf' i) as (B1 & B2).
    split; [rewrite B1; exact A1|rewrite B2; exact A2].
Qed.

(** the transfer of column [cx] of the plate to the destination plate, seen from the destination *)
Lemma dest_effect_d s s' cx lab ws kw :
  transfer s pl (col_wells a cx) d (col_wells a cx) (A0 (tw_v_destination a)) lab ws "auto" kw = (s', None) ->
  Good s -> GoodD s -> (cx < g)%nat -> (cx < gD)%nat ->
  Good s' /\ GoodD s' /\
  (forall r c, PF s' r c = PF s r c) /\
  (forall r c, (r < tw_R a)%nat -> (c < gD)%nat ->
     DV s' r c == DV s r c + (if (cx =? c)%nat then tw_v_destination a else 0)) /\
  (forall r c, (r < tw_R a)%nat -> (c < gD)%nat -> c <> cx -> DFr s' r c = DFr s r c) /\
  (forall r, (r < tw_R a)%nat ->
     DV s' r cx * DFr s' r cx == DV s r cx * DFr s r cx + tw_v_destination a * PF s r cx).
Proof.
  intros H HG HGD Hcx HcxD. pose proof HGD as (DP & HDP & HgDP).
  pose proof HG as (Hwf & HI & Hm & (P & HP & HgP) & _).
  assert (ET : (1 <= tw_R a)%nat -> t_triples (col_wells a cx) (col_wells a cx) (A0 (tw_v_destination a)) =
               zip (zip (column_wells (tw_R a) cx) (column_wells (tw_R a) cx)) (repeat (tw_v_destination a) (tw_R a))).
  { intro H1. unfold col_wells. apply t_triples_A1_A0; [exact H1|apply column_wells_length|apply column_wells_length]. }
  assert (Hidx : forall r c m cc, (m < tw_R a)%nat -> (cc < gD)%nat -> (c < gD)%nat ->
                   idx_is DP (r * gD + c) (well_id m cc) = ((m =? r) && (cc =? c))%nat).
  { intros r c m cc Hm' Hcc Hc. unfold gD in *. rewrite <- HgDP.
    apply plate_idx_is; rewrite HgDP; [exact HDv|lia|exact Hcc|exact Hc]. }
  assert (Hwin : forall r c, (r < tw_R a)%nat -> (c < gD)%nat ->
                   well_in DP (r * gD + c)
                     (zip (zip (column_wells (tw_R a) cx) (column_wells (tw_R a) cx)) (repeat (tw_v_destination a) (tw_R a)))
                   == if (cx =? c)%nat then tw_v_destination a else 0).
  { intros r c Hr Hc.
    replace (r * gD + c)%nat with (pidx DP r c) by (unfold pidx, gD; rewrite HgDP; reflexivity).
    unfold gD in *.
    rewrite (well_in_plate_col DP (tw_R a) r c);
      [|rewrite HgDP; exact HDv|rewrite HgDP; exact HDR|exact Hr|rewrite HgDP; exact Hc
       |apply column_wells_length|apply repeat_length|rewrite HgDP; exact HcxD].
    rewrite nth_repeat_lt by exact Hr. reflexivity. }
  assert (Epd : (d =? pl)%nat = false) by (apply Nat.eqb_neq; exact d_ne_pl).
  split; [exact (good_transfer _ _ _ _ _ _ _ _ _ _ _ H HG)|].
  split; [exact (goodD_transfer _ _ _ _ _ _ _ _ _ _ _ H HG HGD)|].
  split; [|split; [|split]].
  - intros r c. unfold PF. apply (transfer_lwf_other _ _ _ _ _ _ _ _ _ _ _ pl _ H HG).
    + intro E. apply d_ne_pl. symmetry. exact E.
    + exact (proj1 (good_lengths s HG)).
  - intros r c Hr Hc. unfold DV. rewrite (transfer_lwv _ _ _ _ _ _ _ _ _ _ _ d DP _ H HG HDP).
    cbn [op_delta]. rewrite Nat.eqb_refl, Epd, (ET ltac:(lia)), (Hwin r c Hr Hc). ring.
  - intros r c Hr Hc Hne. unfold DFr.
    destruct (transfer_frame k _ _ _ _ _ _ _ _ _ _ _ H HI Hwf d DP HDP) as (DP' & HDP' & Hf).
    rewrite (lwf_eq s' d DP' _ HDP'), (lwf_eq s d DP _ HDP). apply Hf. intros _ t Ht.
    rewrite (ET ltac:(lia)) in Ht.
    destruct (zip3_In _ _ _ _ _ (column_wells_length _ _) (column_wells_length _ _) (repeat_length _ _) Ht)
      as (m & Hm' & ->).
    cbn [fst snd]. rewrite column_wells_nth by exact Hm'. rewrite Hidx by assumption.
    destruct (Nat.eqb_spec cx c) as [E|_]; [congruence|]. apply andb_false_r.
  - intros r Hr.
    destruct (transfer_uniform k _ _ _ _ _ _ _ _ _ _ _ (r * gD + cx)%nat (r * g + cx)%nat P DP H HI Hwf Hm HP HDP)
      as (DP' & HDP' & Hamt).
    + intros t Ht Hdst. rewrite (ET ltac:(lia)) in Ht.
      destruct (zip3_In _ _ _ _ _ (column_wells_length _ _) (column_wells_length _ _) (repeat_length _ _) Ht)
        as (m & Hm' & ->).
      cbn [fst snd] in *. rewrite column_wells_nth in * by exact Hm'.
      rewrite Hidx in Hdst by assumption.
      apply andb_true_iff in Hdst. destruct Hdst as [Hdst _]. apply Nat.eqb_eq in Hdst. subst m.
      apply plate_lw_index_now; assumption.
    + intro E. exfalso. apply d_ne_pl. symmetry. exact E.
    + intro E. exfalso. apply d_ne_pl. symmetry. exact E.
    + unfold DV, DFr, PF.
      rewrite (lwv_eq s' d DP' _ HDP'), (lwf_eq s' d DP' _ HDP'), (lwv_eq s d DP _ HDP), (lwf_eq s d DP _ HDP),
        (lwf_eq s pl P _ HP).
      rewrite Hamt, (ET ltac:(lia)), (Hwin r cx Hr HcxD), Nat.eqb_refl. reflexivity.
Qed.

(** the instruction of column [n], seen from the destination plate *)
Lemma instr_effect_dest s s' wm n :
  (n < length ideal)%nat ->
  run_ops s (instr_ops a p wm gs gd (nth n (dp_instr p) dinstr)) = (s', None) ->
  Good s -> GoodD s -> Done s' n ->
  GoodD s' /\
  (forall r c, (r < tw_R a)%nat -> (c < gD)%nat -> c <> n -> DV s' r c == DV s r c /\ DFr s' r c = DFr s r c) /\
  (forall r, (r < tw_R a)%nat ->
     DV s' r n == DV s r n + tw_v_destination a /\
     DV s' r n * DFr s' r n * stock == DV s r n * DFr s r n * stock + tw_v_destination a * pconc p n r).
Proof.
  intros Hn H HG HGD HDone.
  destruct (plan_col_facts n Hn) as (_ & Hcol & _ & Hng & _).
  set (x := nth n (dp_instr p) dinstr) in *.
  assert (HnD : (n < gD)%nat) by (unfold gD; lia).
  destruct (Hdest d Hd) as (Hdp & Hds & Hdd).
  rewrite instr_ops_split, run_ops_app in H.
  destruct (run_ops s (stock_part a gs x ++ dilute_part a p gd x ++ mix_part a p wm x ++ serial_part a p x))
    as [s4 [e|]] eqn:E4; [discriminate|].
  destruct (run_ops_frame_d _ _ _ (fun o Ho => pre_dest_untouched a p gs gd d wm x o Hdp Hds Hdd Ho) E4 HG HGD)
    as (HG4 & HGD4 & Hf4).
  unfold dest_part in H. rewrite Hd in H. cbn [run_ops] in H.
  destruct (step s4 (dest_op a x d)) as [sa [e|]] eqn:E1; [discriminate|].
  destruct (step sa OCommit) as [sb [e|]] eqn:E2; [discriminate|]. injection H as <-.
  unfold dest_op in E1. cbn [step] in E1. rewrite Hcol in E1.
  destruct (dest_effect_d _ _ n _ _ _ E1 HG4 HGD4 Hng HnD) as (HGa & HGDa & HPFa & HDVa & HDFa & Hamt).
  destruct (good_commit _ _ E2 HGa) as (HGb & Hsb).
  assert (HaccD : forall r c, DV sb r c = DV sa r c /\ DFr sb r c = DFr sa r c).
  { intros r c. unfold DV, DFr, lwv, lwf. rewrite Hsb. split; reflexivity. }
  assert (HaccP : forall r c, PF sb r c = PF sa r c).
  { intros r c. unfold PF, lwf. rewrite Hsb. reflexivity. }
  split; [unfold GoodD; rewrite Hsb; exact HGDa|]. split.
  - intros r c Hr Hc Hne. destruct (HaccD r c) as (-> & ->).
    rewrite (HDVa r c Hr Hc), (HDFa r c Hr Hc Hne).
    unfold DV, DFr. destruct (Hf4 (r * gD + c)%nat) as (-> & ->).
    destruct (Nat.eqb_spec n c) as [E|_]; [congruence|]. split; [ring|reflexivity].
  - intros r Hr. destruct (HaccD r n) as (-> & ->).
    pose proof (HDone r Hr) as Hdn. rewrite HaccP, HPFa in Hdn.
    rewrite (Hamt r Hr), (HDVa r n Hr HnD), Nat.eqb_refl.
    unfold DV, DFr. destruct (Hf4 (r * gD + n)%nat) as (-> & ->).
    split; [reflexivity|]. rewrite <- Hdn. ring.
Qed.

Definition DDone (s : state) (c : nat) : Prop :=
  forall r, (r < tw_R a)%nat -> DV s r c == tw_v_destination a /\ DFr s r c * stock == pconc p c r.
Definition DEmpty (s : state) (c : nat) : Prop := forall r, (r < tw_R a)%nat -> DV s r c == 0.
(** the destination plate when the instructions of columns < n have been executed *)
Definition DInv (s : state) (n : nat) : Prop :=
  (forall c, (c < n)%nat -> (c < length ideal)%nat -> DDone s c) /\
  (forall c, (n <= c)%nat -> (c < length ideal)%nat -> DEmpty s c).

Lemma plan_effect_dest : forall m n wms s s',
  (n + m = length ideal)%nat -> length wms = m ->
  (forall c, (c < length ideal)%nat -> ~ nth c vmax 0 == 0) ->
  run_ops s (plan_ops a p gs gd (skipn n (dp_instr p)) wms) = (s', None) ->
  Good s -> GoodD s -> Inv s n -> DInv s n ->
  Good s' /\ Inv s' (length ideal) /\ GoodD s' /\ DInv s' (length ideal).
Proof.
  destruct (proj1 (c14_complete ideal stock vmax mt) p Hplan) as (_ & L1 & _).
  induction m as [|m IH]; intros n wms s s' Hnm Lw Hvm H HG HGD HInv HDI.
  - assert (n = length ideal) by lia. subst n.
    rewrite skipn_all2 in H by lia. unfold plan_ops in H. cbn [zip flat_map run_ops] in H.
    injection H as <-. split; [exact HG|]. split; [exact HInv|]. split; [exact HGD|exact HDI].
  - assert (Hn : (n < length ideal)%nat) by lia.
    rewrite (skipn_nth_cons dinstr) in H by (rewrite L1; exact Hn).
    destruct wms as [|wm wms]; [discriminate|]. cbn [length] in Lw.
    unfold plan_ops in H. cbn [zip flat_map fst snd] in H. fold (plan_ops a p gs gd (skipn (S n) (dp_instr p)) wms) in H.
    rewrite run_ops_app in H.
    destruct (run_ops s (instr_ops a p wm gs gd (nth n (dp_instr p) dinstr))) as [s1 [e|]] eqn:E1; [discriminate|].
    destruct (inv_step _ _ _ n Hn (Hvm n Hn) E1 HG HInv) as (HG1 & HInv1).
    assert (HDone1 : Done s1 n).
    { destruct HInv1 as (_ & _ & HD1 & _). apply HD1; [lia|exact Hn]. }
    destruct (instr_effect_dest _ _ _ n Hn E1 HG HGD HDone1) as (HGD1 & Hother & Hcoln).
    destruct HDI as (HDD & HDE).
    apply (IH (S n) wms s1 s'); [lia|lia|exact Hvm|exact H|exact HG1|exact HGD1|exact HInv1|].
    assert (HcD : forall c, (c < length ideal)%nat -> (c < gD)%nat) by (intros c Hc; unfold gD; lia).
    split.
    + intros c Hc Hcl r Hr. destruct (Nat.eq_dec c n) as [->|Hne].
      * destruct (Hcoln r Hr) as (V1 & A1). pose proof (HDE n (le_n n) Hn r Hr) as He.
        rewrite He in V1, A1.
        assert (V1' : DV s1 r n == tw_v_destination a) by (rewrite V1; ring).
        split; [exact V1'|].
        assert (Hnz : ~ tw_v_destination a == 0) by lra.
        apply (Qmult_inj_l _ _ (tw_v_destination a) Hnz).
        rewrite V1' in A1.
        setoid_replace (tw_v_destination a * (DFr s1 r n * stock))
          with (tw_v_destination a * DFr s1 r n * stock) by ring.
        rewrite A1. ring.
      * destruct (Hother r c Hr (HcD c Hcl) Hne) as (V & F). rewrite V, F.
        exact (HDD c ltac:(lia) Hcl r Hr).
    + intros c Hc Hcl r Hr.
      destruct (Hother r c Hr (HcD c Hcl) ltac:(lia)) as (V & _). rewrite V.
      exact (HDE c ltac:(lia) Hcl r Hr).
Qed.

End Destination.

End Concentration.

(* ------------------------------------------------------------------------------------------ *)
(** * C14_exec_concentration *)

(** every column of the plan exists on the plate: its dilution transfer was accepted *)
Lemma plan_cols_on_plate a p gs gd wms lws P :
  length wms = length (dp_instr p) -> (1 <= tw_R a)%nat ->
  Forall (op_args_ok lws) (plan_ops a p gs gd (dp_instr p) wms) ->
  nth_error lws (tw_plate a) = Some P ->
  forall x, In x (dp_instr p) -> (i_col x < g_cols (lw_geom P))%nat.
Proof.
  intros Lw HR1 Hoks HP x Hx. destruct (zip_In_l (dp_instr p) wms x Lw Hx) as (wm & Hin).
  assert (Hop : In (dilute_op a p gd x) (plan_ops a p gs gd (dp_instr p) wms)).
  { unfold plan_ops. apply in_flat_map. exists (x, wm). split; [exact Hin|].
    cbn [fst snd]. rewrite c14_exec_structure. apply in_or_app. right. left. reflexivity. }
  rewrite Forall_forall in Hoks. specialize (Hoks _ Hop).
  unfold dilute_op in Hoks. cbn [op_args_ok] in Hoks.
  destruct Hoks as (_ & _ & _ & Ls & Ld & _ & HLd & _ & Hres). rewrite HP in HLd. injection HLd as <-.
  apply (lw_index_col_bound P 0); [lia|]. apply Hres.
  unfold t_dst, col_wells. cbn [flattenF]. apply In_broadcast_ge.
  - unfold column_wells. apply in_map_iff. exists 0%nat. split; [reflexivity|]. apply in_seq. lia.
  - rewrite column_wells_length. unfold t_n. cbn [flattenF]. rewrite column_wells_length. lia.
Qed.

Theorem c14_exec_concentration ideal stock vmax mt p R a C s s' P St D k :
  plan_core ideal stock vmax mt = Ok p -> Forall (fun col => length col = R) ideal ->
  length vmax = length ideal -> tw_R a = R -> Forall (fun v => 0 < v) vmax ->
  to_worklist s a p C = (s', None) -> wf_state s -> st_inv s -> 0 < w_max (st_wl s) ->
  tw_plate a <> tw_stock a -> tw_plate a <> tw_diluent a ->
  (forall d, tw_dest a = Some d -> d <> tw_plate a /\ d <> tw_stock a /\ d <> tw_diluent a) ->
  nth_error (st_lw s) (tw_plate a) = Some P -> nth_error (st_lw s) (tw_stock a) = Some St ->
  nth_error (st_lw s) (tw_diluent a) = Some D ->
  is_trough (lw_geom P) = false ->
  (forall r c, (r < R)%nat -> (c < length ideal)%nat -> vol_at P (r * g_cols (lw_geom P) + c) == 0) ->
  frac St k (tw_stock_column a) == 1 -> frac D k (tw_diluent_column a) == 0 ->
  exists P', nth_error (st_lw s') (tw_plate a) = Some P' /\
    forall r c, (r < R)%nat -> (c < length ideal)%nat ->
      frac P' k (r * g_cols (lw_geom P) + c) * stock == pconc p c r.
Proof.
  intros Hplan Hrect Lv HR Hpos Hrun Hwf HI Hm Hps Hpd Hdest HP HSt HD HPt Hempty HfS HfD.
  subst R.
  unfold to_worklist in Hrun. rewrite HP, HSt, HD in Hrun.
  destruct ((n_row_ids (lw_geom P) <? tw_R a)%nat || (g_cols (lw_geom P) <? C)%nat) eqn:E1; [discriminate|].
  match type of Hrun with (if ?b then _ else _) = _ => destruct b; [discriminate|] end.
  destruct (negb (is_trough (lw_geom St)) || negb (is_trough (lw_geom D))) eqn:E3; [discriminate|].
  apply orb_false_iff in E1. destruct E1 as [E1 _]. apply Nat.ltb_ge in E1.
  apply orb_false_iff in E3. destruct E3 as [E3a E3b].
  apply negb_false_iff in E3a. apply negb_false_iff in E3b.
  unfold is_trough in E3a, E3b, HPt.
  destruct (g_vrows (lw_geom St)) as [vs|] eqn:EvS; [|discriminate].
  destruct (g_vrows (lw_geom D)) as [vd|] eqn:EvD; [|discriminate].
  destruct (g_vrows (lw_geom P)) as [vp|] eqn:EvP; [discriminate|].
  clear E3a E3b HPt.
  destruct (run_instrs_ops _ _ _ _ _ _ _ Hrun) as (wms & Lw & Hops).
  destruct (run_ops_ledger _ _ _ (plan_ops_tc _ _ _ _ _ _) Hops Hwf Hm) as (_ & _ & Hoks & _ & Hled).
  destruct (Hled _ _ HP) as (P' & HP' & _ & _).
  exists P'. split; [exact HP'|]. intros r c Hr Hc.
  assert (HR1 : (1 <= tw_R a)%nat) by lia.
  pose proof (plan_cols_on_plate a p _ _ wms _ P Lw HR1 Hoks HP) as Hcolx.
  destruct (proj1 (c14_complete ideal stock vmax mt) p Hplan) as (_ & L1 & _ & _ & Hcol).
  assert (HC : (length ideal <= g_cols (lw_geom P))%nat).
  { destruct (Nat.eq_dec (length ideal) 0) as [E0|N0]; [lia|].
    assert (Hm' : (length ideal - 1 < length ideal)%nat) by lia.
    pose proof (Hcolx (nth (length ideal - 1) (dp_instr p) dinstr) ltac:(apply nth_In; rewrite L1; exact Hm')) as Hlt.
    rewrite (Hcol _ Hm') in Hlt. lia. }
  assert (HG : Good a P St D s).
  { split; [exact Hwf|]. split; [exact HI|]. split; [exact Hm|].
    split; [exists P; split; [exact HP|reflexivity]|].
    split; [exists St; split; [exact HSt|reflexivity]|exists D; split; [exact HD|reflexivity]]. }
  assert (HInv0 : Inv k a p ideal stock P s 0).
  { split; [unfold SF, lwf; rewrite HSt; exact HfS|]. split; [unfold DF, lwf; rewrite HD; exact HfD|].
    split; [intros c0 Hc0; lia|].
    intros c0 _ Hc0.
    assert (HE : Empty a P s c0).
    { intros r0 Hr0. unfold PV, lwv. rewrite HP. exact (Hempty r0 c0 Hr0 Hc0). }
    destruct (psrc p c0) as [k0|]; [|exact HE]. cbn [Nat.ltb Nat.leb]. exact HE. }
  destruct (plan_effect k a p ideal stock vmax mt P St D vs vd Hplan Hrect Lv Hps Hpd Hdest EvP E1 HC EvS EvD
              (wf_geom_nth _ _ _ Hwf HSt) (wf_geom_nth _ _ _ Hwf HD)
              (length ideal) 0%nat wms s s' ltac:(lia) ltac:(rewrite Lw; exact L1))
    as (_ & _ & _ & HDone & _).
  - intros c0 Hc0. pose proof (vmax_pos_nth vmax c0 Hpos ltac:(lia)). lra.
  - cbn [skipn]. exact Hops.
  - exact HG.
  - exact HInv0.
  - pose proof (HDone c Hc Hc r Hr) as Hd. unfold PF, lwf in Hd. rewrite HP' in Hd. exact Hd.
Qed.

(* ------------------------------------------------------------------------------------------ *)
(** * the destination plate: volume and tracked composition of every well *)

(** With a destination plate [d] (not a trough, different from the plate and the troughs) that is empty
    in the used region, and [0 < v_destination]: after the run every well (r, c) of the destination
    plate holds exactly [v_destination] with exactly the reported concentration x[c][r].  The transfer
    of column c to the destination is the last operation of instruction c (after the serial transfers
    out of column c), when the column has its final composition. *)
Theorem c14_exec_destination ideal stock vmax mt p R a C s s' P St D d DP k :
  plan_core ideal stock vmax mt = Ok p -> Forall (fun col => length col = R) ideal ->
  length vmax = length ideal -> tw_R a = R -> Forall (fun v => 0 < v) vmax ->
  to_worklist s a p C = (s', None) -> wf_state s -> st_inv s -> 0 < w_max (st_wl s) ->
  tw_plate a <> tw_stock a -> tw_plate a <> tw_diluent a ->
  tw_dest a = Some d -> d <> tw_plate a -> d <> tw_stock a -> d <> tw_diluent a ->
  nth_error (st_lw s) (tw_plate a) = Some P -> nth_error (st_lw s) (tw_stock a) = Some St ->
  nth_error (st_lw s) (tw_diluent a) = Some D -> nth_error (st_lw s) d = Some DP ->
  is_trough (lw_geom P) = false -> is_trough (lw_geom DP) = false ->
  (forall r c, (r < R)%nat -> (c < length ideal)%nat -> vol_at P (r * g_cols (lw_geom P) + c) == 0) ->
  (forall r c, (r < R)%nat -> (c < length ideal)%nat -> vol_at DP (r * g_cols (lw_geom DP) + c) == 0) ->
  frac St k (tw_stock_column a) == 1 -> frac D k (tw_diluent_column a) == 0 ->
  0 < tw_v_destination a ->
  exists DP', nth_error (st_lw s') d = Some DP' /\ lw_geom DP' = lw_geom DP /\
    forall r c, (r < R)%nat -> (c < length ideal)%nat ->
      lw_index DP (well_id r c) = Some (r * g_cols (lw_geom DP) + c)%nat /\
      vol_at DP' (r * g_cols (lw_geom DP) + c) == tw_v_destination a /\
      frac DP' k (r * g_cols (lw_geom DP) + c) * stock == pconc p c r.
Proof.
  intros Hplan Hrect Lv HR Hpos Hrun Hwf HI Hm Hps Hpd Hd Hdp Hds Hdd HP HSt HD HDP HPt HDt Hempty HemptyD
    HfS HfD Hvd.
  destruct (c14_exec_destination_volumes ideal stock vmax mt p R a C s s' d DP
              Hplan Hrect HR Hrun Hwf Hm Hd Hdp Hds Hdd HDP HDt) as (DP' & HDP' & HgDP' & Hvols).
  exists DP'. split; [exact HDP'|]. split; [exact HgDP'|].
  subst R.
  assert (Hdest : forall d0, tw_dest a = Some d0 -> d0 <> tw_plate a /\ d0 <> tw_stock a /\ d0 <> tw_diluent a).
  { intros d0 Hd0. rewrite Hd in Hd0. injection Hd0 as <-. split; [exact Hdp|]. split; [exact Hds|exact Hdd]. }
  unfold to_worklist in Hrun. rewrite HP, HSt, HD in Hrun.
  destruct ((n_row_ids (lw_geom P) <? tw_R a)%nat || (g_cols (lw_geom P) <? C)%nat) eqn:E1; [discriminate|].
  rewrite Hd in Hrun. cbv beta iota in Hrun. rewrite HDP in Hrun.
  destruct ((n_row_ids (lw_geom DP) <? tw_R a)%nat || (g_cols (lw_geom DP) <? C)%nat) eqn:E2; [discriminate|].
  destruct (negb (is_trough (lw_geom St)) || negb (is_trough (lw_geom D))) eqn:E3; [discriminate|].
  apply orb_false_iff in E1. destruct E1 as [E1 _]. apply Nat.ltb_ge in E1.
  apply orb_false_iff in E2. destruct E2 as [E2 _]. apply Nat.ltb_ge in E2.
  apply orb_false_iff in E3. destruct E3 as [E3a E3b].
  apply negb_false_iff in E3a. apply negb_false_iff in E3b.
  unfold is_trough in E3a, E3b, HPt, HDt.
  destruct (g_vrows (lw_geom St)) as [vs|] eqn:EvS; [|discriminate].
  destruct (g_vrows (lw_geom D)) as [vd|] eqn:EvD; [|discriminate].
  destruct (g_vrows (lw_geom P)) as [vp|] eqn:EvP; [discriminate|].
  destruct (g_vrows (lw_geom DP)) as [vq|] eqn:EvQ; [discriminate|].
  clear E3a E3b HPt HDt.
  destruct (run_instrs_ops _ _ _ _ _ _ _ Hrun) as (wms & Lw & Hops).
  destruct (run_ops_ledger _ _ _ (plan_ops_tc _ _ _ _ _ _) Hops Hwf Hm) as (_ & _ & Hoks & _ & _).
  intros r c Hr Hc.
  assert (HR1 : (1 <= tw_R a)%nat) by lia.
  pose proof (plan_cols_on_plate a p _ _ wms _ P Lw HR1 Hoks HP) as Hcolx.
  pose proof (plan_cols_on_dest a p _ _ wms _ d DP Lw HR1 Hd Hoks HDP) as HcolD.
  destruct (proj1 (c14_complete ideal stock vmax mt) p Hplan) as (_ & L1 & _ & _ & Hcol).
  assert (Hlast : forall (L : labware), (forall x, In x (dp_instr p) -> (i_col x < g_cols (lw_geom L))%nat) ->
                    (length ideal <= g_cols (lw_geom L))%nat).
  { intros L HL. destruct (Nat.eq_dec (length ideal) 0) as [E0|N0]; [lia|].
    assert (Hm' : (length ideal - 1 < length ideal)%nat) by lia.
    pose proof (HL (nth (length ideal - 1) (dp_instr p) dinstr) ltac:(apply nth_In; rewrite L1; exact Hm')) as Hlt.
    rewrite (Hcol _ Hm') in Hlt. lia. }
  pose proof (Hlast P Hcolx) as HC. pose proof (Hlast DP HcolD) as HCD.
  assert (HG : Good a P St D s).
  { split; [exact Hwf|]. split; [exact HI|]. split; [exact Hm|].
    split; [exists P; split; [exact HP|reflexivity]|].
    split; [exists St; split; [exact HSt|reflexivity]|exists D; split; [exact HD|reflexivity]]. }
  assert (HGD : GoodD d DP s) by (exists DP; split; [exact HDP|reflexivity]).
  assert (HInv0 : Inv k a p ideal stock P s 0).
  { split; [unfold SF, lwf; rewrite HSt; exact HfS|]. split; [unfold DF, lwf; rewrite HD; exact HfD|].
    split; [intros c0 Hc0; lia|].
    intros c0 _ Hc0.
    assert (HE : Empty a P s c0).
    { intros r0 Hr0. unfold PV, lwv. rewrite HP. exact (Hempty r0 c0 Hr0 Hc0). }
    destruct (psrc p c0) as [k0|]; [|exact HE]. cbn [Nat.ltb Nat.leb]. exact HE. }
  assert (HDInv0 : DInv k a p ideal stock d DP s 0).
  { split; [intros c0 Hc0; lia|].
    intros c0 _ Hc0 r0 Hr0. unfold DV, lwv. rewrite HDP. exact (HemptyD r0 c0 Hr0 Hc0). }
  destruct (plan_effect_dest k a p ideal stock vmax mt P St D vs vd Hplan Hrect Lv Hps Hpd Hdest EvP E1 HC EvS EvD
              (wf_geom_nth _ _ _ Hwf HSt) (wf_geom_nth _ _ _ Hwf HD) d DP Hd EvQ E2 HCD Hvd
              (length ideal) 0%nat wms s s' ltac:(lia) ltac:(rewrite Lw; exact L1))
    as (_ & _ & _ & HDD & _).
  - intros c0 Hc0. pose proof (vmax_pos_nth vmax c0 Hpos ltac:(lia)). lra.
  - cbn [skipn]. exact Hops.
  - exact HG.
  - exact HGD.
  - exact HInv0.
  - exact HDInv0.
  - destruct (Hvols r c Hr Hc) as (Hidx & Hv).
    split; [exact Hidx|].
    destruct (HDD c Hc Hc r Hr) as (V & F). unfold DV, DFr, lwv, lwf in V, F. rewrite HDP' in V, F.
    split; [exact V|exact F].
Qed.
