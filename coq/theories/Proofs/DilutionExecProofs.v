(** C14, state level: the volume ledger of [transfer] ("C04 for transfers") and the volumes a successful
    [to_worklist] leaves in the stock trough, the diluent trough and the dilution plate. *)
From Robo Require Import Prelude Str Wells Utils Labware Tips Records Partition Params Worklist EvoCmd
  Program Dilution Invariants WellsProofs LabwareProofs PartitionProofs PlanProofs RefinementProofs DilutionProofs.
From Coq Require Import Lqa Permutation.
#[local] Open Scope Q_scope.

(* ------------------------------------------------------------------------------------------ *)
(** * sums of the volumes of the triples selected by their (source, destination) *)

Definition gsum (q : string * string -> bool) (T : list triple) : Q :=
  Qsum (map snd (filter (fun t => q (fst t)) T)).

(** well [w] of labware [L] is the real well with flat index [i] *)
Definition idx_is (L : labware) (i : nat) (w : string) : bool :=
  match lw_index L w with Some k => (k =? i)%nat | None => false end.

(** total volume the triples take out of / put into the well with flat index [i] of [L] *)
Definition well_out (L : labware) (i : nat) (T : list triple) : Q :=
  Qsum (map snd (filter (fun t => idx_is L i (fst (fst t))) T)).
Definition well_in (L : labware) (i : nat) (T : list triple) : Q :=
  Qsum (map snd (filter (fun t => idx_is L i (snd (fst t))) T)).

Lemma well_out_gsum L i T : well_out L i T = gsum (fun sd => idx_is L i (fst sd)) T.
Proof. reflexivity. Qed.
Lemma well_in_gsum L i T : well_in L i T = gsum (fun sd => idx_is L i (snd sd)) T.
Proof. reflexivity. Qed.

Lemma gsum_nil q : gsum q [] == 0.
Proof. reflexivity. Qed.

Lemma gsum_cons q t T : gsum q (t :: T) == (if q (fst t) then snd t else 0) + gsum q T.
Proof.
  unfold gsum. cbn [filter]. destruct (q (fst t)); cbn [map]; [apply Qsum_cons|]. ring.
Qed.

Lemma gsum_app q T1 T2 : gsum q (T1 ++ T2) == gsum q T1 + gsum q T2.
Proof. unfold gsum. rewrite filter_app, map_app. apply Qsum_app'. Qed.

Lemma gsum_perm q T T' : Permutation T T' -> gsum q T == gsum q T'.
Proof.
  induction 1 as [|x l l' Hp IH|x y l|l l' l'' Hp1 IH1 Hp2 IH2].
  - reflexivity.
  - rewrite !gsum_cons, IH. reflexivity.
  - rewrite !gsum_cons. ring.
  - rewrite IH1. exact IH2.
Qed.

Lemma gsum_ext q q' T : (forall t, In t T -> q (fst t) = q' (fst t)) -> gsum q T == gsum q' T.
Proof.
  induction T as [|t T IH]; intro H; [reflexivity|].
  rewrite !gsum_cons, (H t (or_introl eq_refl)), IH; [reflexivity|].
  intros t' Ht'. apply H. right. exact Ht'.
Qed.

Lemma gsum_const_map q s d (l : list Q) :
  gsum q (map (fun v => (s, d, v)) l) == if q (s, d) then Qsum l else 0.
Proof.
  induction l as [|x l IH]; cbn [map].
  - rewrite gsum_nil. destruct (q (s, d)); reflexivity.
  - rewrite gsum_cons, IH. cbn [fst snd]. destruct (q (s, d)); [rewrite Qsum_cons; reflexivity|ring].
Qed.

Lemma gsum_triple_steps q a m t : 0 < m -> 0 <= snd t ->
  gsum q (triple_steps a m t) == if q (fst t) then snd t else 0.
Proof.
  intros Hm Hv. rewrite triple_steps_map, (vol_list_pos a m (snd t) Hm Hv), gsum_const_map.
  destruct t as [[s d] v]. cbn [fst snd] in *.
  destruct (q (s, d)); [|reflexivity].
  destruct (Qltb 0 v) eqn:E.
  - apply vol_list_sum; [exact Hm|apply Qltb_true; exact E].
  - apply Qltb_false in E. unfold Qsum. cbn [fold_right]. lra.
Qed.

(** the planned steps move, per selected (source, destination), what the triples request *)
Lemma gsum_plan q a m mode T : 0 < m -> Forall (fun t => 0 <= snd t) T ->
  gsum q (steps_of (plan a m mode T)) == gsum q T.
Proof.
  intros Hm Hall. rewrite (gsum_perm q _ _ (plan_steps_perm a m mode T)).
  induction Hall as [|t r Ht Hr IH]; cbn [flat_map]; [reflexivity|].
  rewrite gsum_app, gsum_cons, IH, (gsum_triple_steps q a m t Hm Ht). reflexivity.
Qed.

(* ------------------------------------------------------------------------------------------ *)
(** * one pipetting step *)

Lemma vol_at_log L label i : vol_at (log L label) i = vol_at L i.
Proof. reflexivity. Qed.

Lemma wf_shape0_nth s k L : wf_state s -> nth_error (st_lw s) k = Some L -> shape0 L.
Proof. intros Hwf HL. apply wf_shape_shape0. exact (proj1 (wf_nth _ _ _ Hwf HL)). Qed.

Lemma exec_step_vols s ks kd sw dw v ws kw s' :
  exec_step s ks kd sw dw v ws kw = (s', None) -> wf_state s ->
  exists Ls Ld i_s i_d,
    nth_error (st_lw s) ks = Some Ls /\ nth_error (st_lw s) kd = Some Ld /\
    lw_index Ls sw = Some i_s /\ lw_index Ld dw = Some i_d /\ 0 <= v /\
    length (st_lw s') = length (st_lw s) /\
    forall j L, nth_error (st_lw s) j = Some L ->
      exists L', nth_error (st_lw s') j = Some L' /\ lw_geom L' = lw_geom L /\
        forall i, vol_at L' i == vol_at L i
                               - (if ((j =? ks) && (i_s =? i))%nat then v else 0)
                               + (if ((j =? kd) && (i_d =? i))%nat then v else 0).
Proof.
  intros H Hwf.
  destruct (exec_step_state _ _ _ _ _ _ _ _ _ H)
    as (Ls & i_s & Ld1 & i_d & HLs & His & _ & Hv & HLd1 & Hid & _ & Hst).
  pose proof (nth_error_lt _ _ _ HLs) as Hks.
  pose proof (wf_shape0_nth _ _ _ Hwf HLs) as HshS.
  pose proof (lw_index_bound _ _ _ HshS His) as Hbs.
  set (Ls' := log (rem_one Ls i_s v) None) in *.
  assert (HgS : lw_geom Ls' = lw_geom Ls) by reflexivity.
  assert (HvS : forall i, vol_at Ls' i == vol_at Ls i - (if (i_s =? i)%nat then v else 0)).
  { intro i. unfold Ls'. rewrite vol_at_log, vol_at_rem_one by exact Hbs.
    destruct (i_s =? i)%nat; ring. }
  assert (HshS' : shape0 Ls').
  { change (shape0 (rem_one Ls i_s v)). exact (shape0_frame _ _ (rem_one_frame Ls i_s v) HshS). }
  assert (Hsh1 : shape0 Ld1 /\ exists Ld, nth_error (st_lw s) kd = Some Ld /\ lw_geom Ld1 = lw_geom Ld /\
            forall i, vol_at Ld1 i == vol_at Ld i - (if ((kd =? ks) && (i_s =? i))%nat then v else 0)).
  { destruct (Nat.eqb_spec kd ks) as [->|Hne].
    - rewrite RefinementProofs.nth_error_upd_same in HLd1 by exact Hks. injection HLd1 as <-.
      split; [exact HshS'|]. exists Ls. split; [exact HLs|]. split; [exact HgS|].
      intro i. cbn [andb]. apply HvS.
    - rewrite nth_error_upd_other in HLd1 by (intro E; apply Hne; symmetry; exact E).
      split; [exact (wf_shape0_nth _ _ _ Hwf HLd1)|]. exists Ld1. split; [exact HLd1|]. split; [reflexivity|].
      intro i. cbn [andb]. ring. }
  destruct Hsh1 as (Hsh1 & Ld & HLd & HgD & HvD).
  pose proof (lw_index_bound _ _ _ Hsh1 Hid) as Hbd.
  set (Ld' := log (add_one Ld1 i_d v (Some (wca (lw_comp Ls) i_s))) None) in *.
  assert (HgD' : lw_geom Ld' = lw_geom Ld).
  { rewrite <- HgD. exact (proj1 (proj2 (add_one_frame Ld1 i_d v (Some (wca (lw_comp Ls) i_s))))). }
  assert (HvD' : forall i, vol_at Ld' i == vol_at Ld i - (if ((kd =? ks) && (i_s =? i))%nat then v else 0)
                                         + (if (i_d =? i)%nat then v else 0)).
  { intro i. unfold Ld'. rewrite vol_at_log, vol_at_add_one by exact Hbd. rewrite HvD. reflexivity. }
  assert (Hkd : (kd < length (st_lw s))%nat) by (eapply nth_error_lt; exact HLd).
  exists Ls, Ld, i_s, i_d.
  split; [exact HLs|]. split; [exact HLd|]. split; [exact His|].
  split; [rewrite <- (lw_index_geom Ld1 Ld dw HgD); exact Hid|]. split; [exact Hv|].
  split; [rewrite Hst, !upd_length; reflexivity|].
  intros j L HL. rewrite Hst.
  destruct (Nat.eqb_spec j kd) as [->|Hjd].
  - rewrite HLd in HL. injection HL as <-.
    exists Ld'. split; [apply RefinementProofs.nth_error_upd_same; rewrite upd_length; exact Hkd|].
    split; [exact HgD'|]. intro i. rewrite HvD'. cbn [andb]. reflexivity.
  - rewrite nth_error_upd_other by (intro E; apply Hjd; symmetry; exact E).
    destruct (Nat.eqb_spec j ks) as [->|Hjs].
    + rewrite HLs in HL. injection HL as <-.
      exists Ls'. split; [apply RefinementProofs.nth_error_upd_same; exact Hks|]. split; [exact HgS|].
      intro i. rewrite HvS. cbn [andb]. ring.
    + rewrite nth_error_upd_other by (intro E; apply Hjs; symmetry; exact E).
      exists L. split; [exact HL|]. split; [reflexivity|]. intro i. cbn [andb]. ring.
Qed.

(* ------------------------------------------------------------------------------------------ *)
(** * a run of actions *)

(** labware list [lws'] is [lws] after moving the triples [T] from labware [ks] to labware [kd] *)
Definition ledger_rel (ks kd : nat) (T : list triple) (lws lws' : list labware) : Prop :=
  length lws' = length lws /\
  forall j L, nth_error lws j = Some L ->
    exists L', nth_error lws' j = Some L' /\ lw_geom L' = lw_geom L /\
      forall i, vol_at L' i == vol_at L i - (if (j =? ks)%nat then well_out L i T else 0)
                                          + (if (j =? kd)%nat then well_in L i T else 0).

Lemma idx_is_geom L1 L2 i w : lw_geom L1 = lw_geom L2 -> idx_is L1 i w = idx_is L2 i w.
Proof. intro H. unfold idx_is. rewrite (lw_index_geom L1 L2 w H). reflexivity. Qed.

Lemma well_out_geom L1 L2 i T : lw_geom L1 = lw_geom L2 -> well_out L1 i T = well_out L2 i T.
Proof.
  intro H. unfold well_out. f_equal. f_equal. apply filter_ext. intro t. apply idx_is_geom. exact H.
Qed.

Lemma well_in_geom L1 L2 i T : lw_geom L1 = lw_geom L2 -> well_in L1 i T = well_in L2 i T.
Proof.
  intro H. unfold well_in. f_equal. f_equal. apply filter_ext. intro t. apply idx_is_geom. exact H.
Qed.

Lemma well_out_cons L i s d v T :
  well_out L i ((s, d, v) :: T) == (if idx_is L i s then v else 0) + well_out L i T.
Proof. rewrite !well_out_gsum, gsum_cons. reflexivity. Qed.

Lemma well_in_cons L i s d v T :
  well_in L i ((s, d, v) :: T) == (if idx_is L i d then v else 0) + well_in L i T.
Proof. rewrite !well_in_gsum, gsum_cons. reflexivity. Qed.

Lemma exec_ledger ks kd ws kw acts : forall s s',
  exec s ks kd acts ws kw = (s', None) -> wf_state s ->
  ledger_rel ks kd (steps_of acts) (st_lw s) (st_lw s').
Proof.
  induction acts as [|[sw dw v|] acts IH]; intros s s' H Hwf.
  - cbn [exec] in H. injection H as <-. split; [reflexivity|]. intros j L HL.
    exists L. split; [exact HL|]. split; [reflexivity|]. intro i.
    unfold well_out, well_in, steps_of. cbn [flat_map filter map]. unfold Qsum. cbn [fold_right].
    destruct (j =? ks)%nat; destruct (j =? kd)%nat; ring.
  - cbn [exec] in H.
    destruct (exec_step s ks kd sw dw v ws kw) as [s1 [e|]] eqn:E; [discriminate|].
    pose proof (exec_step_wf' _ _ _ _ _ _ _ _ _ _ E Hwf) as Hwf1.
    destruct (exec_step_vols _ _ _ _ _ _ _ _ _ E Hwf)
      as (Ls & Ld & i_s & i_d & HLs & HLd & His & Hid & Hv & Hlen1 & Hstep).
    destruct (IH _ _ H Hwf1) as (Hlen2 & Hrest).
    split; [rewrite Hlen2; exact Hlen1|].
    intros j L HL. destruct (Hstep j L HL) as (L1 & HL1 & Hg1 & Hv1).
    destruct (Hrest j L1 HL1) as (L' & HL' & Hg' & Hv').
    exists L'. split; [exact HL'|]. split; [rewrite Hg'; exact Hg1|].
    intro i. rewrite Hv', Hv1.
    rewrite (well_out_geom L1 L i _ Hg1), (well_in_geom L1 L i _ Hg1).
    change (steps_of (Step sw dw v :: acts)) with ((sw, dw, v) :: steps_of acts).
    destruct (Nat.eqb_spec j ks) as [->|Hjs]; destruct (Nat.eqb_spec j kd) as [->|Hjd]; cbn [andb].
    + rewrite well_out_cons, well_in_cons.
      rewrite HLs in HL. injection HL as <-. rewrite HLd in HLs. injection HLs as <-.
      unfold idx_is. rewrite His, Hid. ring.
    + rewrite well_out_cons.
      rewrite HLs in HL. injection HL as <-. unfold idx_is. rewrite His. ring.
    + rewrite well_in_cons.
      rewrite HLd in HL. injection HL as <-. unfold idx_is. rewrite Hid. ring.
    + ring.
  - cbn [exec] in H. change (steps_of (Commit :: acts)) with (steps_of acts).
    exact (IH _ _ H (wf_set_wl _ _ Hwf)).
Qed.
