(** Refinement between the tracked labware state and an independent replay of the emitted worklist
    records (C01), and safety of the replay within the volume limits, also after a failed call (C03).
    The interpreter is Spec/Robot.v. *)
From Robo Require Import Prelude Str Wells Utils Labware Tips Records Partition Params Worklist EvoCmd
  Program Invariants Robot WellsProofs LabwareProofs.
From Coq Require Import Lqa Permutation Sorting.Sorted.
#[local] Open Scope Q_scope.

(* ------------------------------------------------------------------ lists *)

Lemma Forall2_nth_error_l {A B} (R : A -> B -> Prop) l1 l2 k x :
  Forall2 R l1 l2 -> nth_error l1 k = Some x -> exists y, nth_error l2 k = Some y /\ R x y.
Proof.
  intro H. revert k. induction H as [|a b r1 r2 Hab Hr IH]; intros k Hk.
  - destruct k; discriminate.
  - destruct k as [|k]; cbn [nth_error] in *.
    + injection Hk as <-. exists b. split; [reflexivity|exact Hab].
    + apply IH. exact Hk.
Qed.

Lemma Forall2_nth_error_r {A B} (R : A -> B -> Prop) l1 l2 k y :
  Forall2 R l1 l2 -> nth_error l2 k = Some y -> exists x, nth_error l1 k = Some x /\ R x y.
Proof.
  intro H. revert k. induction H as [|a b r1 r2 Hab Hr IH]; intros k Hk.
  - destruct k; discriminate.
  - destruct k as [|k]; cbn [nth_error] in *.
    + injection Hk as <-. exists a. split; [reflexivity|exact Hab].
    + apply IH. exact Hk.
Qed.

Lemma Forall2_upd {A B} (R : A -> B -> Prop) l1 l2 k x y :
  Forall2 R l1 l2 -> R x y -> Forall2 R (upd l1 k x) (upd l2 k y).
Proof.
  intro H. revert k. induction H as [|a b r1 r2 Hab Hr IH]; intros k Hxy.
  - destruct k; constructor.
  - destruct k as [|k]; cbn [upd]; constructor; auto.
Qed.

Lemma Forall2_upd_l {A B} (R : A -> B -> Prop) l1 l2 k x y :
  Forall2 R l1 l2 -> nth_error l2 k = Some y -> R x y -> Forall2 R (upd l1 k x) l2.
Proof.
  intro H. revert k. induction H as [|a b r1 r2 Hab Hr IH]; intros k Hk Hxy.
  - destruct k; discriminate.
  - destruct k as [|k]; cbn [upd nth_error] in *.
    + injection Hk as <-. constructor; assumption.
    + constructor; [exact Hab|]. apply IH; assumption.
Qed.

Lemma Forall2_length' {A B} (R : A -> B -> Prop) l1 l2 : Forall2 R l1 l2 -> length l1 = length l2.
Proof. intro H. induction H as [|a b r1 r2 _ _ IH]; cbn [length]; congruence. Qed.

Lemma Forall2_map_eq {A B C} (R : A -> B -> Prop) (f : A -> C) (g : B -> C) l1 l2 :
  Forall2 R l1 l2 -> (forall a b, R a b -> f a = g b) -> map f l1 = map g l2.
Proof.
  intros H Hfg. induction H as [|a b r1 r2 Hab _ IH]; cbn [map]; [reflexivity|].
  rewrite IH, (Hfg a b Hab). reflexivity.
Qed.

Lemma nth_error_upd_same {A} (l : list A) : forall k x, (k < length l)%nat -> nth_error (upd l k x) k = Some x.
Proof.
  induction l as [|y r IH]; intros [|k] x Hk; cbn [upd nth_error length] in *; try lia; [reflexivity|].
  apply IH. lia.
Qed.

Lemma nth_error_upd_other {A} (l : list A) : forall k j x, k <> j -> nth_error (upd l k x) j = nth_error l j.
Proof.
  induction l as [|y r IH]; intros [|k] [|j] x Hne; cbn [upd nth_error]; try reflexivity; try congruence.
  apply IH. congruence.
Qed.

Lemma upd_upd {A} (l : list A) : forall k x y, upd (upd l k x) k y = upd l k y.
Proof.
  induction l as [|z r IH]; intros [|k] x y; cbn [upd]; try reflexivity. rewrite IH. reflexivity.
Qed.

Lemma upd_same {A} (l : list A) : forall k x, nth_error l k = Some x -> upd l k x = l.
Proof.
  induction l as [|z r IH]; intros [|k] x H; cbn [upd nth_error] in *; try discriminate.
  - injection H as <-. reflexivity.
  - rewrite IH by exact H. reflexivity.
Qed.

Lemma map_upd {A B} (f : A -> B) (l : list A) : forall k x, map f (upd l k x) = upd (map f l) k (f x).
Proof.
  induction l as [|z r IH]; intros [|k] x; cbn [upd map]; try reflexivity. rewrite IH. reflexivity.
Qed.

Lemma nth_error_lt {A} (l : list A) k x : nth_error l k = Some x -> (k < length l)%nat.
Proof. intro H. apply nth_error_Some. congruence. Qed.

(* ------------------------------------------------------------------ Q comparisons respect == *)

Lemma Qltb_compat a a' b b' : a == a' -> b == b' -> Qltb a b = Qltb a' b'.
Proof.
  intros Ha Hb. destruct (Qltb a' b') eqn:E.
  - apply Qltb_true in E. apply Qltb_true_intro. lra.
  - apply Qltb_false in E. unfold Qltb. apply negb_false_iff. apply Qle_bool_iff. lra.
Qed.

Lemma Qgtb_compat a a' b b' : a == a' -> b == b' -> Qgtb a b = Qgtb a' b'.
Proof.
  intros Ha Hb. destruct (Qgtb a' b') eqn:E.
  - apply Qgtb_true in E. apply Qgtb_true_intro. lra.
  - apply Qgtb_false in E. unfold Qgtb. apply negb_false_iff. apply Qle_bool_iff. lra.
Qed.

Lemma Forall2_Qeq_nth l1 l2 j : Forall2 Qeq l1 l2 -> nth j l1 0 == nth j l2 0.
Proof.
  intro H. revert j. induction H as [|a b r1 r2 Hab _ IH]; intros [|j]; cbn [nth]; try reflexivity.
  - exact Hab.
  - apply IH.
Qed.

Lemma Forall2_Qeq_refl l : Forall2 Qeq l l.
Proof. induction l as [|a r IH]; constructor; [reflexivity|exact IH]. Qed.

Lemma Forall2_Qeq_upd_l l1 l2 i a : Forall2 Qeq l1 l2 -> a == nth i l2 0 -> Forall2 Qeq (upd l1 i a) l2.
Proof.
  intro H. revert i. induction H as [|x y r1 r2 Hxy Hr IH]; intros [|i] Ha; cbn [upd nth] in *;
    constructor; auto.
Qed.

(* ------------------------------------------------------------------ the refinement relation *)

(** a rack corresponds to a labware: same name, geometry and limits, volumes equal as rationals
    (the tracking normalises with [Qred], the interpreter does not) *)
Definition rack_sim (L : labware) (r : rack) : Prop :=
  rk_name r = lw_name L /\ rk_geom r = lw_geom L /\ rk_min r = lw_min L /\ rk_max r = lw_max L /\
  Forall2 Qeq (lw_vols L) (rk_vols r).

Definition sim_racks (lws : list labware) (rs : list rack) : Prop := Forall2 rack_sim lws rs.

(** the racks of the robot correspond one-to-one, in order, to the labware of the state;
    the content of the tip is not constrained *)
Definition sim (s : state) (rb : robot) : Prop := sim_racks (st_lw s) (rb_racks rb).

Lemma rack_sim_of L : rack_sim L (rack_of L).
Proof. unfold rack_sim, rack_of. cbn. repeat split. apply Forall2_Qeq_refl. Qed.

Lemma sim_racks_of lws : sim_racks lws (map rack_of lws).
Proof. induction lws as [|L r IH]; cbn [map]; constructor; [apply rack_sim_of|exact IH]. Qed.

Lemma sim_robot_of s : sim s (robot_of (st_lw s)).
Proof. apply sim_racks_of. Qed.

Lemma sim_names lws rs : sim_racks lws rs -> map rk_name rs = map lw_name lws.
Proof.
  intro H. symmetry. apply (Forall2_map_eq _ _ _ _ _ H). intros L r (Hn & _). symmetry. exact Hn.
Qed.

(** pointwise reading *)
Lemma sim_vol lws rs k L r j : sim_racks lws rs -> nth_error lws k = Some L -> nth_error rs k = Some r ->
  nth j (rk_vols r) 0 == vol_at L j.
Proof.
  intros H HL Hr. destruct (Forall2_nth_error_l _ _ _ _ _ H HL) as (r' & Hr' & (_ & _ & _ & _ & Hv)).
  rewrite Hr in Hr'. injection Hr' as <-. unfold vol_at. symmetry. apply Forall2_Qeq_nth. exact Hv.
Qed.

(** changes of a labware that the relation does not see *)
Definition same_obs (L L' : labware) : Prop :=
  lw_name L' = lw_name L /\ lw_geom L' = lw_geom L /\ lw_min L' = lw_min L /\ lw_max L' = lw_max L /\
  lw_vols L' = lw_vols L.

Lemma rack_sim_obs L L' r : same_obs L L' -> rack_sim L r -> rack_sim L' r.
Proof.
  intros (A1 & A2 & A3 & A4 & A5) (B1 & B2 & B3 & B4 & B5). unfold rack_sim.
  rewrite A1, A2, A3, A4, A5. repeat split; assumption.
Qed.

Lemma log_obs L label : same_obs L (log L label).
Proof. repeat split. Qed.

Lemma condense_obs L n label : same_obs L (condense_log L n label).
Proof. unfold condense_log. destruct (n <? 1)%nat; repeat split. Qed.

Lemma sim_racks_upd_obs lws rs k L L' :
  sim_racks (upd lws k L) rs -> same_obs L L' -> sim_racks (upd lws k L') rs.
Proof.
  intros H Hobs. destruct (Nat.lt_ge_cases k (length lws)) as [Hk|Hk].
  - pose proof (nth_error_upd_same lws k L Hk) as HL.
    destruct (Forall2_nth_error_l _ _ _ _ _ H HL) as (r & Hr & Hsim).
    rewrite <- (upd_upd lws k L L'). eapply Forall2_upd_l; [exact H|exact Hr|].
    eapply rack_sim_obs; eassumption.
  - assert (E : forall x, upd lws k x = lws).
    { clear -Hk. revert k Hk. induction lws as [|z r IH]; intros [|k] Hk x; cbn [upd length] in *;
        try reflexivity; try lia. rewrite IH by lia. reflexivity. }
    rewrite E in *. exact H.
Qed.

Lemma sim_condense_at s k n label rb : sim s rb -> sim (condense_at s k n label) rb.
Proof.
  intro H. unfold condense_at. destruct (nth_error (st_lw s) k) as [L|] eqn:E; [|exact H].
  unfold sim, set_lw. cbn [st_lw]. apply (sim_racks_upd_obs _ _ _ L).
  - rewrite upd_same by exact E. exact H.
  - apply condense_obs.
Qed.

(* ------------------------------------------------------------------ C01_find_rack *)

Lemma find_rack_nodup rs : NoDup (map rk_name rs) -> forall k r, nth_error rs k = Some r ->
  find_rack rs (rk_name r) = Some k.
Proof.
  induction rs as [|r0 rest IH]; intros ND k r Hk.
  - destruct k; discriminate.
  - cbn [map] in ND. inversion ND as [|x l Hnotin ND']; subst.
    destruct k as [|k]; cbn [nth_error] in Hk.
    + injection Hk as <-. cbn [find_rack]. rewrite String.eqb_refl. reflexivity.
    + cbn [find_rack]. destruct (String.eqb (rk_name r0) (rk_name r)) eqn:E.
      * apply String.eqb_eq in E. exfalso. apply Hnotin. rewrite E.
        apply in_map. eapply nth_error_In. exact Hk.
      * rewrite (IH ND' k r Hk). reflexivity.
Qed.

Lemma find_rack_sim lws rs k L : sim_racks lws rs -> NoDup (map lw_name lws) ->
  nth_error lws k = Some L ->
  exists r, find_rack rs (lw_name L) = Some k /\ nth_error rs k = Some r /\ rack_sim L r.
Proof.
  intros H ND HL. destruct (Forall2_nth_error_l _ _ _ _ _ H HL) as (r & Hr & Hsim).
  exists r. split; [|split; assumption].
  destruct Hsim as (Hn & _). rewrite <- Hn. apply find_rack_nodup; [|exact Hr].
  rewrite (sim_names _ _ H). exact ND.
Qed.

Lemma find_rack_of lws k L : NoDup (map lw_name lws) -> nth_error lws k = Some L ->
  find_rack (map rack_of lws) (lw_name L) = Some k.
Proof.
  intros ND HL. destruct (find_rack_sim _ _ _ _ (sim_racks_of lws) ND HL) as (r & Hf & _). exact Hf.
Qed.

(* ------------------------------------------------------------------ C01_unpos *)

Lemma n_row_ids_plate g : wf_geom g -> g_vrows g = None -> n_row_ids g = g_rows g.
Proof. intros (Hr & _) Hv. unfold n_row_ids. rewrite Hv. apply Nat.min_r. lia. Qed.

Lemma n_row_ids_trough g v : wf_geom g -> g_vrows g = Some v -> n_row_ids g = v /\ (1 <= v <= 26)%nat.
Proof.
  intros (_ & _ & Hv) E. rewrite E in Hv. unfold n_row_ids. rewrite E. split; [apply Nat.min_r; lia|lia].
Qed.

Lemma divmod_pos R r c : (r < R)%nat -> ((c * R + r) mod R = r /\ (c * R + r) / R = c)%nat.
Proof.
  intro Hr. assert (HR : R <> 0%nat) by lia.
  replace (c * R + r)%nat with (r + c * R)%nat by lia.
  rewrite Nat.mod_add by exact HR. rewrite Nat.div_add by exact HR.
  rewrite Nat.mod_small by exact Hr. rewrite Nat.div_small by exact Hr. split; lia.
Qed.

Lemma unpos_device d g s rc p : wf_geom g -> d <> BaseDev -> well_index g s = Some rc ->
  device_position d g s = Ok p -> unpos d g p = Some (flat_index g rc).
Proof.
  intros Hg Hd Hi Hp.
  destruct (well_index_domain _ _ _ Hi) as (r & c & Hr & Hc & -> & ->).
  assert (Hct : (c <? g_cols g)%nat = true) by (apply Nat.ltb_lt; exact Hc).
  destruct (g_vrows g) as [v|] eqn:Ev.
  - destruct (n_row_ids_trough g v Hg Ev) as [En Hv]. rewrite En in Hr.
    destruct (divmod_pos v r c Hr) as [_ Hdiv].
    destruct d; [| |congruence]; cbn [device_position] in Hp.
    + rewrite evo_position_ok in Hp by (rewrite ?En; assumption). rewrite Ev in Hp.
      injection Hp as <-. unfold unpos, pos_of. rewrite Ev. cbn [Nat.eqb Nat.add].
      replace (S (c * v + r) - 1)%nat with (c * v + r)%nat by lia.
      rewrite Hdiv, Hct. unfold flat_index. cbn [fst snd]. reflexivity.
    + rewrite fluent_position_ok in Hp by (rewrite ?En; assumption).
      unfold is_trough in Hp. rewrite Ev in Hp. injection Hp as <-.
      unfold unpos. rewrite Ev. cbn [Nat.eqb Nat.add].
      replace (S c - 1)%nat with c by lia. rewrite Hct. unfold flat_index. cbn [fst snd]. reflexivity.
  - pose proof (n_row_ids_plate g Hg Ev) as En. rewrite En in Hr.
    destruct (divmod_pos (g_rows g) r c Hr) as [Hmod Hdiv].
    assert (Hp' : p = pos_of (g_rows g) r c).
    { destruct d; [| |congruence]; cbn [device_position] in Hp.
      - rewrite evo_position_ok in Hp by (rewrite ?En; assumption). rewrite Ev, En in Hp. congruence.
      - rewrite fluent_position_ok in Hp by (rewrite ?En; assumption).
        unfold is_trough in Hp. rewrite Ev, En in Hp. congruence. }
    subst p. unfold unpos, pos_of. rewrite Ev. cbn [Nat.eqb Nat.add].
    replace (S (c * g_rows g + r) - 1)%nat with (c * g_rows g + r)%nat by lia.
    rewrite Hmod, Hdiv, Hct. unfold flat_index. cbn [fst snd]. reflexivity.
Qed.

Lemma unpos_evo g s rc p : wf_geom g -> well_index g s = Some rc ->
  device_position Evo g s = Ok p -> unpos Evo g p = Some (flat_index g rc).
Proof. intros Hg. apply unpos_device; [exact Hg|discriminate]. Qed.

Lemma unpos_fluent g s rc p : wf_geom g -> well_index g s = Some rc ->
  device_position Fluent g s = Ok p -> unpos Fluent g p = Some (flat_index g rc).
Proof. intros Hg. apply unpos_device; [exact Hg|discriminate]. Qed.

(** a known well has a position on both devices *)
Lemma device_position_defined d g s rc : wf_geom g -> d <> BaseDev -> well_index g s = Some rc ->
  exists p, device_position d g s = Ok p.
Proof.
  intros Hg Hd Hi. destruct (well_index_domain _ _ _ Hi) as (r & c & Hr & Hc & -> & _).
  destruct d; [| |congruence]; cbn [device_position].
  - rewrite evo_position_ok by assumption. eexists. reflexivity.
  - rewrite fluent_position_ok by assumption. eexists. reflexivity.
Qed.

Lemma lw_index_unpos d L w i p : wf_geom (lw_geom L) -> d <> BaseDev -> lw_index L w = Some i ->
  device_position d (lw_geom L) w = Ok p -> unpos d (lw_geom L) p = Some i.
Proof.
  intros Hg Hd Hi Hp. unfold lw_index in Hi.
  destruct (well_index (lw_geom L) w) as [rc|] eqn:E; [|discriminate]. injection Hi as <-.
  eapply unpos_device; eassumption.
Qed.

(* ------------------------------------------------------------------ record fields *)

Lemma emit_nil w : emit w [] = w.
Proof. destruct w as [recs m a dt dv]. unfold emit. cbn. rewrite app_nil_r. reflexivity. Qed.

Lemma emit_emit w a b : emit (emit w a) b = emit w (a ++ b).
Proof. unfold emit. cbn. rewrite app_assoc. reflexivity. Qed.

Lemma text_ok_PStr b s l : text_ok b (PStr s) = Some l -> l = s.
Proof.
  unfold text_ok. destruct (contains_char semi s); [discriminate|].
  destruct (b && (32 <? String.length s)%nat); [discriminate|]. congruence.
Qed.

Lemma check_position_ok p z : check_position p = Ok z -> p = PInt z /\ (0 <= z)%Z.
Proof.
  unfold check_position. destruct p as [z0|]; [|discriminate].
  destruct (z0 <? 0)%Z eqn:E; [discriminate|]. intro H. injection H as <-.
  apply Z.ltb_ge in E. split; [reflexivity|exact E].
Qed.

Lemma check_volume_ok pv m q : check_volume pv (Some m) = Ok q -> pv = PV (XQ q) /\ 0 <= q /\ q <= m.
Proof.
  unfold check_volume. destruct pv as [[v| | |]|]; try discriminate.
  destruct (Qltb v 0) eqn:E1; [discriminate|]. destruct (Qgtb v max_tecan_volume) eqn:E2; [discriminate|].
  destruct (Qgtb v m) eqn:E3; [discriminate|]. intro H. injection H as <-.
  apply Qltb_false in E1. apply Qgtb_false in E3. repeat split; assumption.
Qed.

Lemma check_volume_over v m : 0 <= v -> v <= max_tecan_volume -> m < v ->
  check_volume (PV (XQ v)) (Some m) = Err EInvalidOp.
Proof.
  intros H0 H1 H2. unfold check_volume.
  assert (E1 : Qltb v 0 = false).
  { unfold Qltb. apply negb_false_iff. apply Qle_bool_iff. exact H0. }
  assert (E2 : Qgtb v max_tecan_volume = false).
  { unfold Qgtb. apply negb_false_iff. apply Qle_bool_iff. exact H1. }
  rewrite E1, E2, (Qgtb_true_intro _ _ H2). reflexivity.
Qed.

Lemma prepare_ad_fields a m f : prepare_ad a (Some m) = Ok f ->
  x_rack_label a = PStr (ad_rack_label f) /\ x_position a = PInt (ad_position f) /\
  (0 <= ad_position f)%Z /\ x_volume a = PV (XQ (ad_volume f)) /\ 0 <= ad_volume f /\ ad_volume f <= m.
Proof.
  unfold prepare_ad. intro H.
  destruct (x_rack_label a) as [name|] eqn:E0; [|discriminate].
  destruct (text_ok true (PStr name)) as [label|] eqn:E1; [|discriminate].
  destruct (check_position (x_position a)) as [pos|e2] eqn:E2; [|discriminate].
  destruct (check_volume (x_volume a) (Some m)) as [v|e3] eqn:E3; [|discriminate].
  destruct (text_ok false (x_liquid_class a)) as [lc|]; [|discriminate].
  destruct (tip_mask (x_tip a)) as [mask|e5]; [|discriminate].
  destruct (text_ok true (x_rack_id a)) as [rid|]; [|discriminate].
  destruct (text_ok false (x_tube_id a)) as [tid|]; [|discriminate].
  destruct (text_ok true (x_rack_type a)) as [rty|]; [|discriminate].
  destruct (text_ok true (x_forced a)) as [frt|]; [|discriminate].
  injection H as <-. cbn [ad_rack_label ad_position ad_volume].
  apply text_ok_PStr in E1. subst label.
  apply check_position_ok in E2. destruct E2 as [E2 Hp].
  apply check_volume_ok in E3. destruct E3 as (E3 & Hv0 & Hvm).
  repeat split; assumption.
Qed.

Lemma prepare_ad_kw name pos v kw m f : prepare_ad (ad_of_kw name pos v kw) (Some m) = Ok f ->
  ad_rack_label f = name /\ Z.to_nat (ad_position f) = pos /\ ad_position f = Z.of_nat pos /\
  ad_volume f = v /\ 0 <= v /\ v <= m.
Proof.
  intro H. apply prepare_ad_fields in H. cbn [ad_of_kw x_rack_label x_position x_volume] in H.
  destruct H as (H1 & H2 & H3 & H4 & H5 & H6).
  injection H1 as H1. injection H2 as H2. injection H4 as H4.
  rewrite <- H1, <- H2, <- H4. rewrite Nat2Z.id. repeat split; try reflexivity; rewrite H4; assumption.
Qed.

(* ------------------------------------------------------------------ one record against one tracked update *)

Lemma upd_out {A} (l : list A) : forall i x, (length l <= i)%nat -> upd l i x = l.
Proof.
  induction l as [|z r IH]; intros [|i] x Hi; cbn [upd length] in *; try reflexivity; try lia.
  rewrite IH by lia. reflexivity.
Qed.

Lemma rack_sim_rem_one L r i v : rack_sim L r ->
  rack_sim (rem_one L i v) (set_rack_vol r i (nth i (rk_vols r) 0 - v)).
Proof.
  intros (H1 & H2 & H3 & H4 & H5). unfold rack_sim, rem_one, set_rack_vol.
  cbn [rk_name rk_geom rk_min rk_max rk_vols lw_name lw_geom lw_min lw_max lw_vols set_vols].
  repeat split; try assumption.
  apply Forall2_upd; [exact H5|]. rewrite Qred_correct. unfold vol_at.
  rewrite (Forall2_Qeq_nth _ _ i H5). reflexivity.
Qed.

Lemma do_aspirate_sim c d lws rb k L w i p v :
  sim_racks lws (rb_racks rb) -> NoDup (map lw_name lws) -> nth_error lws k = Some L ->
  wf_geom (lw_geom L) -> d <> BaseDev ->
  lw_index L w = Some i -> device_position d (lw_geom L) w = Ok p ->
  Qltb (Qred (vol_at L i - v)) (lw_min L) = false ->
  exists rb', do_aspirate c d rb (lw_name L) p v = Some rb' /\
              sim_racks (upd lws k (rem_one L i v)) (rb_racks rb').
Proof.
  intros Hsim ND HL Hg Hd Hi Hp Hchk.
  destruct (find_rack_sim _ _ _ _ Hsim ND HL) as (r & Hf & Hr & Hrs).
  pose proof Hrs as (H1 & H2 & H3 & H4 & H5).
  assert (Hu : unpos d (rk_geom r) p = Some i) by (rewrite H2; eapply lw_index_unpos; eassumption).
  unfold do_aspirate. rewrite Hf, Hr, Hu.
  assert (E : Qltb (nth i (rk_vols r) 0 - v) (rk_min r) = false).
  { rewrite <- Hchk. apply Qltb_compat; [|rewrite H3; reflexivity].
    rewrite Qred_correct. unfold vol_at. rewrite (Forall2_Qeq_nth _ _ i H5). reflexivity. }
  rewrite E, andb_false_r. eexists. split; [reflexivity|].
  unfold with_rack. cbn [rb_racks]. apply Forall2_upd; [exact Hsim|]. apply rack_sim_rem_one. exact Hrs.
Qed.

Lemma rack_sim_add_one L r i v oc comp : rack_sim L r ->
  rack_sim (add_one L i v oc)
    {| rk_name := rk_name r; rk_geom := rk_geom r; rk_min := rk_min r; rk_max := rk_max r;
       rk_vols := upd (rk_vols r) i (nth i (rk_vols r) 0 + v); rk_comp := comp |}.
Proof.
  intros (H1 & H2 & H3 & H4 & H5).
  destruct (add_one_frame L i v oc) as (F1 & F2 & F3 & F4 & _).
  unfold rack_sim. cbn [rk_name rk_geom rk_min rk_max rk_vols]. rewrite F1, F2, F3, F4, add_one_vols.
  repeat split; try assumption.
  apply Forall2_upd; [exact H5|]. rewrite Qred_correct. unfold vol_at.
  rewrite (Forall2_Qeq_nth _ _ i H5). reflexivity.
Qed.

Lemma do_dispense_sim c d lws rb k L w i p v oc :
  sim_racks lws (rb_racks rb) -> NoDup (map lw_name lws) -> nth_error lws k = Some L ->
  wf_geom (lw_geom L) -> d <> BaseDev ->
  lw_index L w = Some i -> device_position d (lw_geom L) w = Ok p ->
  Qgtb (Qred (vol_at L i + v)) (lw_max L) = false ->
  exists rb', do_dispense c d rb (lw_name L) p v = Some rb' /\
              sim_racks (upd lws k (add_one L i v oc)) (rb_racks rb').
Proof.
  intros Hsim ND HL Hg Hd Hi Hp Hchk.
  destruct (find_rack_sim _ _ _ _ Hsim ND HL) as (r & Hf & Hr & Hrs).
  pose proof Hrs as (H1 & H2 & H3 & H4 & H5).
  assert (Hu : unpos d (rk_geom r) p = Some i) by (rewrite H2; eapply lw_index_unpos; eassumption).
  unfold do_dispense. rewrite Hf, Hr, Hu.
  assert (E : Qgtb (nth i (rk_vols r) 0 + v) (rk_max r) = false).
  { rewrite <- Hchk. apply Qgtb_compat; [|rewrite H4; reflexivity].
    rewrite Qred_correct. unfold vol_at. rewrite (Forall2_Qeq_nth _ _ i H5). reflexivity. }
  rewrite E, andb_false_r. eexists. split; [reflexivity|].
  unfold with_rack. cbn [rb_racks]. apply Forall2_upd; [exact Hsim|]. apply rack_sim_add_one. exact Hrs.
Qed.

(** a zero volume changes the tracked labware only up to [==] *)
Lemma rack_sim_rem_zero L r i v : rack_sim L r -> v == 0 -> rack_sim (rem_one L i v) r.
Proof.
  intros (H1 & H2 & H3 & H4 & H5) Hv. unfold rack_sim, rem_one.
  cbn [lw_name lw_geom lw_min lw_max lw_vols set_vols].
  repeat split; try assumption.
  apply Forall2_Qeq_upd_l; [exact H5|]. rewrite Qred_correct. unfold vol_at.
  rewrite (Forall2_Qeq_nth _ _ i H5), Hv. ring.
Qed.

Lemma rack_sim_add_zero L r i v oc : rack_sim L r -> v == 0 -> rack_sim (add_one L i v oc) r.
Proof.
  intros (H1 & H2 & H3 & H4 & H5) Hv.
  destruct (add_one_frame L i v oc) as (F1 & F2 & F3 & F4 & _).
  unfold rack_sim. rewrite F1, F2, F3, F4, add_one_vols. repeat split; try assumption.
  apply Forall2_Qeq_upd_l; [exact H5|]. rewrite Qred_correct. unfold vol_at.
  rewrite (Forall2_Qeq_nth _ _ i H5), Hv. ring.
Qed.

(* ------------------------------------------------------------------ monotonicity of the loops *)

Lemma nth_upd_cases l i j x : nth j (upd l i x) 0 = if ((i =? j) && (i <? length l))%nat then x else nth j l 0.
Proof.
  destruct (Nat.eqb_spec i j) as [<-|Hne]; cbn [andb].
  - destruct (Nat.ltb_spec i (length l)) as [Hi|Hi].
    + apply nth_upd_same. exact Hi.
    + rewrite upd_out by exact Hi. reflexivity.
  - apply nth_upd_other. exact Hne.
Qed.

Lemma rem_one_le L i v j : 0 <= v -> vol_at (rem_one L i v) j <= vol_at L j.
Proof.
  intro Hv. unfold vol_at, rem_one. cbn [lw_vols set_vols]. rewrite nth_upd_cases.
  destruct ((i =? j) && (i <? length (lw_vols L)))%nat eqn:E; [|lra].
  apply andb_true_iff in E. destruct E as [E _]. apply Nat.eqb_eq in E. subst j.
  rewrite Qred_correct. unfold vol_at. lra.
Qed.

Lemma add_one_ge L i v oc j : 0 <= v -> vol_at L j <= vol_at (add_one L i v oc) j.
Proof.
  intro Hv. unfold vol_at at 2. rewrite add_one_vols, nth_upd_cases.
  destruct ((i =? j) && (i <? length (lw_vols L)))%nat eqn:E; [|unfold vol_at; lra].
  apply andb_true_iff in E. destruct E as [E _]. apply Nat.eqb_eq in E. subst j.
  rewrite Qred_correct. lra.
Qed.

Lemma rem_run_le L items L' e : rem_run L items L' e -> vols_ok_r items ->
  forall j, vol_at L' j <= vol_at L j.
Proof.
  intro H. induction H as [L|L w x rest Hi|L w x rest i Hi Hx|L w v rest i Hi Hg
                           |L w v rest i L' e Hi Hg Hr IH]; intros Hok j; try lra.
  inversion Hok as [|it r Hhd Htl]; subst. cbn [snd] in Hhd. apply vol_ok_XQ in Hhd.
  pose proof (IH Htl j) as H1. pose proof (rem_one_le L i v j Hhd) as H2. lra.
Qed.

Lemma add_run_ge L items L' e : add_run L items L' e -> vols_ok_a items ->
  forall j, vol_at L j <= vol_at L' j.
Proof.
  intro H. induction H as [L|L w x oc rest Hi|L w x oc rest i Hi Hx|L w v oc rest i Hi Hg
                           |L w v oc rest i L' e Hi Hg Hr IH]; intros Hok j; try lra.
  inversion Hok as [|it r Hhd Htl]; subst. cbn [fst snd] in Hhd. apply vol_ok_XQ in Hhd.
  pose proof (IH Htl j) as H1. pose proof (add_one_ge L i v oc j Hhd) as H2. lra.
Qed.

(* ------------------------------------------------------------------ emit_wells against the loops *)

Lemma names_upd lws k (L X : labware) : nth_error lws k = Some L -> lw_name X = lw_name L ->
  map lw_name (upd lws k X) = map lw_name lws.
Proof.
  intros HL Hn. rewrite map_upd, Hn. apply upd_same. apply map_nth_error. exact HL.
Qed.

Lemma xpos_false_zero v : vol_ok (XQ v) = true -> xpos (XQ v) = false -> v == 0.
Proof.
  intros H1 H2. apply vol_ok_XQ in H1. cbn [xpos] in H2. apply Qltb_false in H2. lra.
Qed.

Lemma interp_app c d a : forall rb b,
  interp c d rb (a ++ b) = match interp c d rb a with Some rb1 => interp c d rb1 b | None => None end.
Proof.
  induction a as [|r rest IH]; intros rb b; cbn [app interp]; [reflexivity|].
  destruct (interp1 c d rb r) as [rb1|]; [apply IH|reflexivity].
Qed.

(** The record loop of [aspirate] replayed against the removals the tracking has already accepted.
    [Lm] is the tracked labware after the removals whose records were emitted: all of them when the
    loop succeeds, a prefix when it stops at a refused record. *)
Lemma emit_remove_replay kw d k : d <> BaseDev -> forall items L L1 Lx w w' e lws rb,
  remove_loop L items = (L1, None) -> vols_ok_r items ->
  emit_wells true w Lx items kw = (w', e) -> lw_name Lx = lw_name L -> lw_geom Lx = lw_geom L ->
  w_dev w = d ->
  sim_racks lws (rb_racks rb) -> NoDup (map lw_name lws) -> nth_error lws k = Some L ->
  wf_geom (lw_geom L) ->
  exists new rb' Lm, w' = emit w new /\ interp true d rb new = Some rb' /\
    sim_racks (upd lws k Lm) (rb_racks rb') /\ (e = None -> Lm = L1) /\
    same_frame L Lm /\ (forall j, vol_at L1 j <= vol_at Lm j /\ vol_at Lm j <= vol_at L j).
Proof.
  intro Hd. induction items as [|[w0 x] rest IH]; intros L L1 Lx w w' e lws rb H Hok He Hn Hgm Hdev Hsim ND HL Hg.
  - cbn [remove_loop] in H. injection H as <-. cbn [emit_wells] in He. injection He as <- <-.
    exists [], rb, L. rewrite emit_nil, (upd_same _ _ _ HL).
    repeat split; try reflexivity; try assumption; lra.
  - pose proof (rem_run_le _ _ _ _ (remove_loop_run _ _ _ _ H) Hok) as Hle.
    assert (Hstop : forall e0, (w, Some e0) = (w', e) ->
      exists new rb' Lm, w' = emit w new /\ interp true d rb new = Some rb' /\
        sim_racks (upd lws k Lm) (rb_racks rb') /\ (e = None -> Lm = L1) /\
        same_frame L Lm /\ (forall j, vol_at L1 j <= vol_at Lm j /\ vol_at Lm j <= vol_at L j)).
    { intros e0 E. injection E as <- <-. exists [], rb, L. rewrite emit_nil, (upd_same _ _ _ HL).
      repeat split; try reflexivity; try assumption; try discriminate; try apply Hle; lra. }
    rewrite remove_loop_cons in H.
    destruct (lw_index L w0) as [i|] eqn:Ei; [|discriminate].
    destruct x as [v| | |]; try discriminate.
    destruct (Qltb (Qred (vol_at L i - v)) (lw_min L)) eqn:Eg; [discriminate|].
    inversion Hok as [|it r0 Hhd Htl]; subst it r0. cbn [snd] in Hhd.
    pose proof (vol_ok_XQ _ Hhd) as Hv0.
    assert (HL1 : nth_error (upd lws k (rem_one L i v)) k = Some (rem_one L i v))
      by (apply nth_error_upd_same; eapply nth_error_lt; exact HL).
    assert (ND1 : NoDup (map lw_name (upd lws k (rem_one L i v))))
      by (rewrite (names_upd _ _ L) by (exact HL || reflexivity); exact ND).
    cbn [emit_wells] in He. destruct (xpos (XQ v)) eqn:Ex.
    + rewrite Hdev, Hgm in He.
      destruct (device_position d (lw_geom L) w0) as [p|e1] eqn:Ep; [|apply (Hstop _ He)].
      unfold aspirate_well in He.
      destruct (prepare_ad (ad_of_kw (lw_name Lx) p (xq (XQ v)) kw) (Some (w_max w))) as [f|e2] eqn:Epa;
        [|apply (Hstop _ He)].
      destruct (prepare_ad_kw _ _ _ _ _ _ Epa) as (F1 & F2 & _ & F4 & _). cbn [xq] in F4.
      destruct (do_aspirate_sim true d lws rb k L w0 i p v Hsim ND HL Hg Hd Ei Ep Eg) as (rb1 & Hrb1 & Hsim1).
      destruct (IH (rem_one L i v) L1 Lx (emit w [RA f]) w' e _ rb1 H Htl He Hn Hgm Hdev Hsim1 ND1 HL1 Hg)
        as (new & rb' & Lm & Hw & Hint & Hs & HeN & Hfr & Hbd).
      exists (RA f :: new), rb', Lm. rewrite upd_upd in Hs.
      split; [rewrite Hw, emit_emit; reflexivity|]. split.
      { cbn [interp interp1]. rewrite F1, F2, F4, Hn, Hrb1. exact Hint. }
      split; [exact Hs|]. split; [exact HeN|]. split.
      { eapply same_frame_trans; [apply rem_one_frame|exact Hfr]. }
      intro j. destruct (Hbd j) as [B1 B2]. pose proof (rem_one_le L i v j Hv0). split; lra.
    + pose proof (xpos_false_zero v Hhd Ex) as Hz.
      assert (Hsim1 : sim_racks (upd lws k (rem_one L i v)) (rb_racks rb)).
      { destruct (Forall2_nth_error_l _ _ _ _ _ Hsim HL) as (r & Hr & Hrs).
        eapply Forall2_upd_l; [exact Hsim|exact Hr|]. apply rack_sim_rem_zero; assumption. }
      destruct (IH (rem_one L i v) L1 Lx w w' e _ rb H Htl He Hn Hgm Hdev Hsim1 ND1 HL1 Hg)
        as (new & rb' & Lm & Hw & Hint & Hs & HeN & Hfr & Hbd).
      exists new, rb', Lm. rewrite upd_upd in Hs.
      split; [exact Hw|]. split; [exact Hint|]. split; [exact Hs|]. split; [exact HeN|]. split.
      { eapply same_frame_trans; [apply rem_one_frame|exact Hfr]. }
      intro j. destruct (Hbd j) as [B1 B2]. pose proof (rem_one_le L i v j Hv0). split; lra.
Qed.

(** the same for [dispense]: [emit_wells false] against [add_loop] *)
Lemma emit_add_replay kw d k : d <> BaseDev -> forall (items : list aitem) L L1 Lx w w' e lws rb,
  add_loop L items = (L1, None) -> vols_ok_a items ->
  emit_wells false w Lx (map fst items) kw = (w', e) -> lw_name Lx = lw_name L -> lw_geom Lx = lw_geom L ->
  w_dev w = d ->
  sim_racks lws (rb_racks rb) -> NoDup (map lw_name lws) -> nth_error lws k = Some L ->
  wf_geom (lw_geom L) ->
  exists new rb' Lm, w' = emit w new /\ interp true d rb new = Some rb' /\
    sim_racks (upd lws k Lm) (rb_racks rb') /\ (e = None -> Lm = L1) /\
    same_frame L Lm /\ (forall j, vol_at L j <= vol_at Lm j /\ vol_at Lm j <= vol_at L1 j).
Proof.
  intro Hd. induction items as [|[[w0 x] oc] rest IH];
    intros L L1 Lx w w' e lws rb H Hok He Hn Hgm Hdev Hsim ND HL Hg.
  - cbn [add_loop] in H. injection H as <-. cbn [map emit_wells] in He. injection He as <- <-.
    exists [], rb, L. rewrite emit_nil, (upd_same _ _ _ HL).
    repeat split; try reflexivity; try assumption; lra.
  - pose proof (add_run_ge _ _ _ _ (add_loop_run _ _ _ _ H) Hok) as Hle.
    assert (Hstop : forall e0, (w, Some e0) = (w', e) ->
      exists new rb' Lm, w' = emit w new /\ interp true d rb new = Some rb' /\
        sim_racks (upd lws k Lm) (rb_racks rb') /\ (e = None -> Lm = L1) /\
        same_frame L Lm /\ (forall j, vol_at L j <= vol_at Lm j /\ vol_at Lm j <= vol_at L1 j)).
    { intros e0 E. injection E as <- <-. exists [], rb, L. rewrite emit_nil, (upd_same _ _ _ HL).
      repeat split; try reflexivity; try assumption; try discriminate; try apply Hle; lra. }
    rewrite add_loop_cons in H.
    destruct (lw_index L w0) as [i|] eqn:Ei; [|discriminate].
    destruct x as [v| | |]; try discriminate.
    destruct (Qgtb (Qred (vol_at L i + v)) (lw_max L)) eqn:Eg; [discriminate|].
    inversion Hok as [|it r0 Hhd Htl]; subst it r0. cbn [fst snd] in Hhd.
    pose proof (vol_ok_XQ _ Hhd) as Hv0.
    destruct (add_one_frame L i v oc) as (A1 & A2 & _).
    assert (HL1 : nth_error (upd lws k (add_one L i v oc)) k = Some (add_one L i v oc))
      by (apply nth_error_upd_same; eapply nth_error_lt; exact HL).
    assert (ND1 : NoDup (map lw_name (upd lws k (add_one L i v oc))))
      by (rewrite (names_upd _ _ L) by (exact HL || exact A1); exact ND).
    assert (Hn1 : lw_name Lx = lw_name (add_one L i v oc)) by congruence.
    assert (Hgm1 : lw_geom Lx = lw_geom (add_one L i v oc)) by congruence.
    assert (Hg1 : wf_geom (lw_geom (add_one L i v oc))) by (rewrite A2; exact Hg).
    cbn [map fst emit_wells] in He. destruct (xpos (XQ v)) eqn:Ex.
    + rewrite Hdev, Hgm in He.
      destruct (device_position d (lw_geom L) w0) as [p|e1] eqn:Ep; [|apply (Hstop _ He)].
      unfold dispense_well in He.
      destruct (prepare_ad (ad_of_kw (lw_name Lx) p (xq (XQ v)) kw) (Some (w_max w))) as [f|e2] eqn:Epa;
        [|apply (Hstop _ He)].
      destruct (prepare_ad_kw _ _ _ _ _ _ Epa) as (F1 & F2 & _ & F4 & _). cbn [xq] in F4.
      destruct (do_dispense_sim true d lws rb k L w0 i p v oc Hsim ND HL Hg Hd Ei Ep Eg)
        as (rb1 & Hrb1 & Hsim1).
      destruct (IH (add_one L i v oc) L1 Lx (emit w [RD f]) w' e _ rb1 H Htl He Hn1 Hgm1 Hdev Hsim1 ND1 HL1 Hg1)
        as (new & rb' & Lm & Hw & Hint & Hs & HeN & Hfr & Hbd).
      exists (RD f :: new), rb', Lm. rewrite upd_upd in Hs.
      split; [rewrite Hw, emit_emit; reflexivity|]. split.
      { cbn [interp interp1]. rewrite F1, F2, F4, Hn, Hrb1. exact Hint. }
      split; [exact Hs|]. split; [exact HeN|]. split.
      { eapply same_frame_trans; [apply add_one_frame|exact Hfr]. }
      intro j. destruct (Hbd j) as [B1 B2]. pose proof (add_one_ge L i v oc j Hv0). split; lra.
    + pose proof (xpos_false_zero v Hhd Ex) as Hz.
      assert (Hsim1 : sim_racks (upd lws k (add_one L i v oc)) (rb_racks rb)).
      { destruct (Forall2_nth_error_l _ _ _ _ _ Hsim HL) as (r & Hr & Hrs).
        eapply Forall2_upd_l; [exact Hsim|exact Hr|]. apply rack_sim_add_zero; assumption. }
      destruct (IH (add_one L i v oc) L1 Lx w w' e _ rb H Htl He Hn1 Hgm1 Hdev Hsim1 ND1 HL1 Hg1)
        as (new & rb' & Lm & Hw & Hint & Hs & HeN & Hfr & Hbd).
      exists new, rb', Lm. rewrite upd_upd in Hs.
      split; [exact Hw|]. split; [exact Hint|]. split; [exact Hs|]. split; [exact HeN|]. split.
      { eapply same_frame_trans; [apply add_one_frame|exact Hfr]. }
      intro j. destruct (Hbd j) as [B1 B2]. pose proof (add_one_ge L i v oc j Hv0). split; lra.
Qed.

(* ------------------------------------------------------------------ the relation after a failed call *)

Definition same_lims (L L' : labware) : Prop :=
  lw_name L' = lw_name L /\ lw_geom L' = lw_geom L /\ lw_min L' = lw_min L /\ lw_max L' = lw_max L /\
  length (lw_vols L') = length (lw_vols L).

Lemma same_lims_refl L : same_lims L L.
Proof. repeat split. Qed.
Lemma same_lims_trans L1 L2 L3 : same_lims L1 L2 -> same_lims L2 L3 -> same_lims L1 L3.
Proof. intros (A1 & A2 & A3 & A4 & A5) (B1 & B2 & B3 & B4 & B5). repeat split; congruence. Qed.
Lemma same_lims_sym L1 L2 : same_lims L1 L2 -> same_lims L2 L1.
Proof. intros (A1 & A2 & A3 & A4 & A5). repeat split; congruence. Qed.
Lemma same_frame_lims L L' : same_frame L L' -> same_lims L L'.
Proof. intros (A1 & A2 & A3 & A4 & _ & A6). repeat split; assumption. Qed.
Lemma same_obs_lims L L' : same_obs L L' -> same_lims L L'.
Proof. intros (A1 & A2 & A3 & A4 & A5). repeat split; try assumption. rewrite A5. reflexivity. Qed.

(** the rack has the frame of [L1] and every well holds a volume between the one of [L0] and the one of [L1] *)
Definition rack_between (L0 L1 : labware) (r : rack) : Prop :=
  rk_name r = lw_name L1 /\ rk_geom r = lw_geom L1 /\ rk_min r = lw_min L1 /\ rk_max r = lw_max L1 /\
  length (rk_vols r) = length (lw_vols L1) /\
  forall j, (vol_at L1 j <= nth j (rk_vols r) 0 /\ nth j (rk_vols r) 0 <= vol_at L0 j) \/
            (vol_at L0 j <= nth j (rk_vols r) 0 /\ nth j (rk_vols r) 0 <= vol_at L1 j).

Definition between_lws (l0 l1 : list labware) (rs : list rack) : Prop :=
  length l0 = length l1 /\ length rs = length l1 /\
  forall k L0 L1 r, nth_error l0 k = Some L0 -> nth_error l1 k = Some L1 -> nth_error rs k = Some r ->
    rack_between L0 L1 r.

(** [between s0 s1 rb]: the robot is somewhere between the tracked state before ([s0]) and after ([s1])
    a call, well by well *)
Definition between (s0 s1 : state) (rb : robot) : Prop := between_lws (st_lw s0) (st_lw s1) (rb_racks rb).

Lemma rack_between_mid L0 Lm L1 r : rack_sim Lm r -> same_lims Lm L1 ->
  (forall j, (vol_at L1 j <= vol_at Lm j /\ vol_at Lm j <= vol_at L0 j) \/
             (vol_at L0 j <= vol_at Lm j /\ vol_at Lm j <= vol_at L1 j)) ->
  rack_between L0 L1 r.
Proof.
  intros (S1 & S2 & S3 & S4 & S5) (M1 & M2 & M3 & M4 & M5) Hb. unfold rack_between.
  split; [congruence|]. split; [congruence|]. split; [congruence|]. split; [congruence|]. split.
  - rewrite <- (Forall2_length' _ _ _ S5). congruence.
  - intro j. pose proof (Forall2_Qeq_nth _ _ j S5) as Hq. fold (vol_at Lm j) in Hq.
    destruct (Hb j) as [[B1 B2]|[B1 B2]]; [left|right]; split; lra.
Qed.

Lemma rack_between_sim L0 L r : rack_sim L r -> rack_between L0 L r.
Proof.
  intro H. apply (rack_between_mid L0 L L r H (same_lims_refl L)).
  intro j. destruct (Qlt_le_dec (vol_at L0 j) (vol_at L j)) as [Hlt|Hle]; [right|left]; split; lra.
Qed.

Lemma between_of_sim l0 l1 rs : length l0 = length l1 -> sim_racks l1 rs -> between_lws l0 l1 rs.
Proof.
  intros Hlen Hs. split; [exact Hlen|]. split; [symmetry; apply (Forall2_length' _ _ _ Hs)|].
  intros k L0 L1 r H0 H1 Hr. destruct (Forall2_nth_error_l _ _ _ _ _ Hs H1) as (r' & Hr' & Hsim).
  rewrite Hr in Hr'. injection Hr' as <-. apply rack_between_sim. exact Hsim.
Qed.

Lemma between_mid lws rs k L0 Lm L1 :
  sim_racks (upd lws k Lm) rs -> nth_error lws k = Some L0 -> same_lims Lm L1 ->
  (forall j, (vol_at L1 j <= vol_at Lm j /\ vol_at Lm j <= vol_at L0 j) \/
             (vol_at L0 j <= vol_at Lm j /\ vol_at Lm j <= vol_at L1 j)) ->
  between_lws lws (upd lws k L1) rs.
Proof.
  intros Hs HL Hl Hb. pose proof (nth_error_lt _ _ _ HL) as Hk.
  split; [rewrite upd_length; reflexivity|].
  split; [rewrite <- (Forall2_length' _ _ _ Hs), !upd_length; reflexivity|].
  intros k' A B r HA HB Hr. destruct (Nat.eq_dec k k') as [<-|Hne].
  - rewrite HL in HA. injection HA as <-. rewrite nth_error_upd_same in HB by exact Hk. injection HB as <-.
    destruct (Forall2_nth_error_l _ _ _ _ _ Hs (nth_error_upd_same lws k Lm Hk)) as (r' & Hr' & Hsim).
    rewrite Hr in Hr'. injection Hr' as <-. eapply rack_between_mid; eassumption.
  - rewrite nth_error_upd_other in HB by exact Hne. rewrite HA in HB. injection HB as <-.
    assert (HA' : nth_error (upd lws k Lm) k' = Some A) by (rewrite nth_error_upd_other by exact Hne; exact HA).
    destruct (Forall2_nth_error_l _ _ _ _ _ Hs HA') as (r' & Hr' & Hsim).
    rewrite Hr in Hr'. injection Hr' as <-. apply rack_between_sim. exact Hsim.
Qed.

(* ------------------------------------------------------------------ remove / add, any outcome *)

Lemma remove_any L wells vols label L' e : remove L wells vols label = (L', e) ->
  same_lims L L' /\ forall j, vol_at L' j <= vol_at L j.
Proof.
  unfold remove. intro H.
  destruct (prep_wells_vols wells vols) as [wv|e0] eqn:Ep.
  - destruct (prep_wells_vols_ok _ _ _ Ep) as (Hwv & Hlen & Hok).
    destruct (remove_loop L wv) as [L1 e1] eqn:El. apply remove_loop_run in El.
    assert (Hokr : vols_ok_r wv) by (rewrite Hwv; apply zip_vols_ok; exact Hok).
    pose proof (same_frame_lims _ _ (rem_run_frame _ _ _ _ El)) as Hf.
    pose proof (rem_run_le _ _ _ _ El Hokr) as Hle.
    destruct e1 as [e1|]; injection H as <- <-; split; assumption.
  - injection H as <- <-. split; [apply same_lims_refl|]. intro j. lra.
Qed.

Lemma add_any L wells vols label comps L' e : add L wells vols label comps = (L', e) ->
  same_lims L L' /\ forall j, vol_at L j <= vol_at L' j.
Proof.
  unfold add. intro H.
  assert (Hid : same_lims L L /\ forall j, vol_at L j <= vol_at L j)
    by (split; [apply same_lims_refl|intro j; lra]).
  destruct (prep_wells_vols wells vols) as [wv|e0] eqn:Ep; [|injection H as <- <-; exact Hid].
  destruct (prep_wells_vols_ok _ _ _ Ep) as (Hwv & Hlen & Hok).
  match type of H with context [negb ?b] => destruct b end; cbn [negb] in H; [|injection H as <- <-; exact Hid].
  match type of H with context [add_loop L ?it] => set (items := it) in * end.
  destruct (add_loop L items) as [L1 e1] eqn:El. apply add_loop_run in El.
  assert (Hoka : vols_ok_a items)
    by (subst items; apply aitems_vols_ok; rewrite Hwv; apply zip_vols_ok; exact Hok).
  pose proof (same_frame_lims _ _ (add_run_frame _ _ _ _ El)) as Hf.
  pose proof (add_run_ge _ _ _ _ El Hoka) as Hle.
  destruct e1 as [e1|]; injection H as <- <-; split; assumption.
Qed.

Lemma broadcast_idem {A} (xs : list A) n : broadcast (broadcast xs n) n = broadcast xs n.
Proof.
  destruct xs as [|x [|y r]]; try reflexivity. cbn [broadcast]. destruct n as [|[|n]]; reflexivity.
Qed.

Lemma comment_spec w c w' e : comment w c = (w', e) ->
  exists ls, w' = emit w (map RC ls) /\ (e <> None -> ls = []).
Proof.
  unfold comment. intro H. destruct c as [s|].
  - destruct (String.eqb s ""); [injection H as <- <-; exists []; rewrite emit_nil; split; [reflexivity|congruence]|].
    destruct (contains_char semi s); injection H as <- <-.
    + exists []. rewrite emit_nil. split; [reflexivity|congruence].
    + eexists. split; [reflexivity|congruence].
  - injection H as <- <-. exists []. rewrite emit_nil. split; [reflexivity|congruence].
Qed.

Lemma interp_RC c d rb ls : interp c d rb (map RC ls) = Some rb.
Proof. induction ls as [|l r IH]; cbn [map interp interp1]; [reflexivity|exact IH]. Qed.

(* ------------------------------------------------------------------ aspirate / dispense *)

(** standing hypotheses on a program state *)
Definition good_state (s : state) : Prop :=
  wf_state s /\ NoDup (map lw_name (st_lw s)) /\ w_dev (st_wl s) <> BaseDev.

Lemma wf_geom_nth s k L : wf_state s -> nth_error (st_lw s) k = Some L -> wf_geom (lw_geom L).
Proof. intros HS HL. destruct (wf_nth _ _ _ HS HL) as [(Hg & _) _]. exact Hg. Qed.

Theorem aspirate_replay s k wells vols label kw s' e rb :
  good_state s -> sim s rb -> aspirate s k wells vols label kw = (s', e) ->
  exists new rb', st_wl s' = emit (st_wl s) new /\
    interp true (w_dev (st_wl s)) rb new = Some rb' /\
    (e = None -> sim s' rb') /\ between s s' rb'.
Proof.
  intros (HS & ND & Hd) Hsim H. unfold aspirate, wells_vols in H. cbv zeta in H.
  destruct (nth_error (st_lw s) k) as [L|] eqn:HL.
  2:{ injection H as <- <-. exists [], rb. rewrite emit_nil.
      split; [reflexivity|]. split; [reflexivity|]. split; [discriminate|].
      apply between_of_sim; [reflexivity|exact Hsim]. }
  cbv beta iota in H.
  set (ws := flattenF wells) in *. set (vs := broadcast (flattenF vols) (length ws)) in *.
  pose proof (wf_geom_nth _ _ _ HS HL) as Hg.
  (* the state when no record has been emitted: robot unchanged, tracking ahead *)
  assert (Hnone : forall L' w, same_lims L L' -> (forall j, vol_at L' j <= vol_at L j) -> w = st_wl s ->
    exists new rb', st_wl (set_wl (set_lw s k L') w) = emit (st_wl s) new /\
      interp true (w_dev (st_wl s)) rb new = Some rb' /\ between s (set_wl (set_lw s k L') w) rb').
  { intros L' w Hl Hle ->. exists [], rb. rewrite emit_nil. split; [reflexivity|]. split; [reflexivity|].
    unfold between. cbn [st_lw set_wl set_lw]. apply (between_mid _ _ _ L L L'); try assumption.
    - rewrite (upd_same _ _ _ HL). exact Hsim.
    - intro j. left. split; [apply Hle|lra]. }
  destruct (remove L (A1 ws) (A1 vs) label) as [L' [e1|]] eqn:Er.
  - injection H as <- <-. destruct (remove_any _ _ _ _ _ _ Er) as [Hl Hle].
    destruct (Hnone L' (st_wl s) Hl Hle eq_refl) as (new & rb' & A & B & C).
    exists new, rb'. split; [exact A|]. split; [exact B|]. split; [discriminate|exact C].
  - destruct (remove_any _ _ _ _ _ _ Er) as [Hl Hle].
    destruct (remove_accepted _ _ _ _ _ Er) as (L1 & Hlen & Hok & Hrun & HL').
    cbv zeta in Hlen, Hok, Hrun. rewrite !flattenF_A1 in Hlen, Hok, Hrun.
    unfold vs in Hlen, Hok, Hrun. rewrite broadcast_idem in Hlen, Hok, Hrun. fold vs in Hlen, Hok, Hrun.
    cbn [st_wl set_lw] in H.
    destruct (comment (st_wl s) label) as [w [e2|]] eqn:Ec.
    + injection H as <- <-. destruct (comment_spec _ _ _ _ Ec) as (ls & Hw & Hls).
      rewrite (Hls ltac:(discriminate)) in Hw. cbn [map] in Hw. rewrite emit_nil in Hw.
      destruct (Hnone L' w Hl Hle Hw) as (new & rb' & A & B & C).
      exists new, rb'. split; [exact A|]. split; [exact B|]. split; [discriminate|exact C].
    + destruct (comment_spec _ _ _ _ Ec) as (ls & Hw & _).
      destruct (emit_wells true w L' (zip ws vs) kw) as [w' e3] eqn:Ee. injection H as <- <-.
      pose proof Hl as (Hn' & Hg' & _).
      assert (Hdev : w_dev w = w_dev (st_wl s)) by (rewrite Hw; reflexivity).
      destruct (emit_remove_replay kw (w_dev (st_wl s)) k Hd (zip ws vs) L L1 L' w w' e3 (st_lw s) rb
                  (rem_run_loop _ _ _ _ Hrun) Hok Ee Hn' Hg' Hdev Hsim ND HL Hg)
        as (new & rb' & Lm & Hw' & Hint & Hs & HeN & Hfr & Hbd).
      exists (map RC ls ++ new)%list, rb'. cbn [st_wl set_wl].
      split; [rewrite Hw', Hw, emit_emit; reflexivity|]. split.
      { rewrite interp_app, interp_RC. exact Hint. }
      split.
      * intro E. rewrite (HeN E) in Hs. unfold sim. cbn [st_lw set_wl set_lw].
        rewrite HL'. eapply sim_racks_upd_obs; [exact Hs|apply log_obs].
      * unfold between. cbn [st_lw set_wl set_lw]. apply (between_mid _ _ _ L Lm L'); try assumption.
        -- eapply same_lims_trans; [apply same_lims_sym, same_frame_lims; exact Hfr|exact Hl].
        -- intro j. left. rewrite HL'. exact (Hbd j).
Qed.

Theorem dispense_replay s k wells vols label comps kw s' e rb :
  good_state s -> sim s rb -> dispense s k wells vols label comps kw = (s', e) ->
  exists new rb', st_wl s' = emit (st_wl s) new /\
    interp true (w_dev (st_wl s)) rb new = Some rb' /\
    (e = None -> sim s' rb') /\ between s s' rb'.
Proof.
  intros (HS & ND & Hd) Hsim H. unfold dispense, wells_vols in H. cbv zeta in H.
  destruct (nth_error (st_lw s) k) as [L|] eqn:HL.
  2:{ injection H as <- <-. exists [], rb. rewrite emit_nil.
      split; [reflexivity|]. split; [reflexivity|]. split; [discriminate|].
      apply between_of_sim; [reflexivity|exact Hsim]. }
  cbv beta iota in H.
  set (ws := flattenF wells) in *. set (vs := broadcast (flattenF vols) (length ws)) in *.
  pose proof (wf_geom_nth _ _ _ HS HL) as Hg.
  assert (Hnone : forall L' w, same_lims L L' -> (forall j, vol_at L j <= vol_at L' j) -> w = st_wl s ->
    exists new rb', st_wl (set_wl (set_lw s k L') w) = emit (st_wl s) new /\
      interp true (w_dev (st_wl s)) rb new = Some rb' /\ between s (set_wl (set_lw s k L') w) rb').
  { intros L' w Hl Hle ->. exists [], rb. rewrite emit_nil. split; [reflexivity|]. split; [reflexivity|].
    unfold between. cbn [st_lw set_wl set_lw]. apply (between_mid _ _ _ L L L'); try assumption.
    - rewrite (upd_same _ _ _ HL). exact Hsim.
    - intro j. right. split; [lra|apply Hle]. }
  destruct (add L (A1 ws) (A1 vs) label comps) as [L' [e1|]] eqn:Er.
  - injection H as <- <-. destruct (add_any _ _ _ _ _ _ _ Er) as [Hl Hle].
    destruct (Hnone L' (st_wl s) Hl Hle eq_refl) as (new & rb' & A & B & C).
    exists new, rb'. split; [exact A|]. split; [exact B|]. split; [discriminate|exact C].
  - destruct (add_any _ _ _ _ _ _ _ Er) as [Hl Hle].
    destruct (add_accepted _ _ _ _ _ _ Er) as (items & L1 & Hmap & Hlen & Hok & Hrun & HL').
    rewrite !flattenF_A1 in Hmap, Hlen.
    unfold vs in Hmap, Hlen. rewrite broadcast_idem in Hmap, Hlen. fold vs in Hmap, Hlen.
    cbn [st_wl set_lw] in H.
    destruct (comment (st_wl s) label) as [w [e2|]] eqn:Ec.
    + injection H as <- <-. destruct (comment_spec _ _ _ _ Ec) as (ls & Hw & Hls).
      rewrite (Hls ltac:(discriminate)) in Hw. cbn [map] in Hw. rewrite emit_nil in Hw.
      destruct (Hnone L' w Hl Hle Hw) as (new & rb' & A & B & C).
      exists new, rb'. split; [exact A|]. split; [exact B|]. split; [discriminate|exact C].
    + destruct (comment_spec _ _ _ _ Ec) as (ls & Hw & _).
      destruct (emit_wells false w L' (zip ws vs) kw) as [w' e3] eqn:Ee. injection H as <- <-.
      rewrite <- Hmap in Ee.
      pose proof Hl as (Hn' & Hg' & _).
      assert (Hdev : w_dev w = w_dev (st_wl s)) by (rewrite Hw; reflexivity).
      destruct (emit_add_replay kw (w_dev (st_wl s)) k Hd items L L1 L' w w' e3 (st_lw s) rb
                  (add_run_loop _ _ _ _ Hrun) Hok Ee Hn' Hg' Hdev Hsim ND HL Hg)
        as (new & rb' & Lm & Hw' & Hint & Hs & HeN & Hfr & Hbd).
      exists (map RC ls ++ new)%list, rb'. cbn [st_wl set_wl].
      split; [rewrite Hw', Hw, emit_emit; reflexivity|]. split.
      { rewrite interp_app, interp_RC. exact Hint. }
      split.
      * intro E. rewrite (HeN E) in Hs. unfold sim. cbn [st_lw set_wl set_lw].
        rewrite HL'. eapply sim_racks_upd_obs; [exact Hs|apply log_obs].
      * unfold between. cbn [st_lw set_wl set_lw]. apply (between_mid _ _ _ L Lm L'); try assumption.
        -- eapply same_lims_trans; [apply same_lims_sym, same_frame_lims; exact Hfr|exact Hl].
        -- intro j. right. rewrite HL'. exact (Hbd j).
Qed.

(** tracked volumes only go down in an [aspirate], only up in a [dispense]: with [between] this gives
    the direction (replayed volume >= tracked after a failed aspirate, <= after a failed dispense) *)
Lemma aspirate_down s k wells vols label kw s' e : aspirate s k wells vols label kw = (s', e) ->
  forall k' L L', nth_error (st_lw s) k' = Some L -> nth_error (st_lw s') k' = Some L' ->
  forall j, vol_at L' j <= vol_at L j.
Proof.
  intro H. unfold aspirate, wells_vols in H. cbv zeta in H.
  assert (Hid : forall k' L L', nth_error (st_lw s) k' = Some L -> nth_error (st_lw s) k' = Some L' ->
            forall j, vol_at L' j <= vol_at L j) by (intros k' L L' A B j; rewrite A in B; injection B as <-; lra).
  destruct (nth_error (st_lw s) k) as [L0|] eqn:HL; [|injection H as <- <-; exact Hid].
  cbv beta iota in H.
  destruct (remove L0 _ _ label) as [L1 e1] eqn:Er. destruct (remove_any _ _ _ _ _ _ Er) as [_ Hle].
  assert (Hupd : forall w k' L L', nth_error (st_lw s) k' = Some L ->
            nth_error (st_lw (set_wl (set_lw s k L1) w)) k' = Some L' -> forall j, vol_at L' j <= vol_at L j).
  { intros w k' L L' A B j. cbn [st_lw set_wl set_lw] in B. destruct (Nat.eq_dec k k') as [<-|Hne].
    - rewrite nth_error_upd_same in B by (eapply nth_error_lt; exact HL). injection B as <-.
      rewrite HL in A. injection A as <-. apply Hle.
    - rewrite nth_error_upd_other in B by exact Hne. rewrite A in B. injection B as <-. lra. }
  destruct e1 as [e1|]; [injection H as <- <-; apply (Hupd (st_wl s))|].
  cbn [st_wl set_lw] in H. destruct (comment (st_wl s) label) as [w [e2|]]; [injection H as <- <-; apply Hupd|].
  destruct (emit_wells true w L1 _ kw) as [w' e3]. injection H as <- <-. apply Hupd.
Qed.

Lemma dispense_up s k wells vols label comps kw s' e : dispense s k wells vols label comps kw = (s', e) ->
  forall k' L L', nth_error (st_lw s) k' = Some L -> nth_error (st_lw s') k' = Some L' ->
  forall j, vol_at L j <= vol_at L' j.
Proof.
  intro H. unfold dispense, wells_vols in H. cbv zeta in H.
  assert (Hid : forall k' L L', nth_error (st_lw s) k' = Some L -> nth_error (st_lw s) k' = Some L' ->
            forall j, vol_at L j <= vol_at L' j) by (intros k' L L' A B j; rewrite A in B; injection B as <-; lra).
  destruct (nth_error (st_lw s) k) as [L0|] eqn:HL; [|injection H as <- <-; exact Hid].
  cbv beta iota in H.
  destruct (add L0 _ _ label comps) as [L1 e1] eqn:Er. destruct (add_any _ _ _ _ _ _ _ Er) as [_ Hle].
  assert (Hupd : forall w k' L L', nth_error (st_lw s) k' = Some L ->
            nth_error (st_lw (set_wl (set_lw s k L1) w)) k' = Some L' -> forall j, vol_at L j <= vol_at L' j).
  { intros w k' L L' A B j. cbn [st_lw set_wl set_lw] in B. destruct (Nat.eq_dec k k') as [<-|Hne].
    - rewrite nth_error_upd_same in B by (eapply nth_error_lt; exact HL). injection B as <-.
      rewrite HL in A. injection A as <-. apply Hle.
    - rewrite nth_error_upd_other in B by exact Hne. rewrite A in B. injection B as <-. lra. }
  destruct e1 as [e1|]; [injection H as <- <-; apply (Hupd (st_wl s))|].
  cbn [st_wl set_lw] in H. destruct (comment (st_wl s) label) as [w [e2|]]; [injection H as <- <-; apply Hupd|].
  destruct (emit_wells false w L1 _ kw) as [w' e3]. injection H as <- <-. apply Hupd.
Qed.

(* ------------------------------------------------------------------ the interpreter keeps the racks' frames *)

Section Frames.
  Context {A : Type} (pr : rack -> A).
  Hypothesis Hpr : forall r r', rk_name r' = rk_name r -> rk_geom r' = rk_geom r -> pr r' = pr r.

  Lemma with_rack_proj rb k r r' tip : nth_error (rb_racks rb) k = Some r ->
    rk_name r' = rk_name r -> rk_geom r' = rk_geom r ->
    map pr (rb_racks (with_rack rb k r' tip)) = map pr (rb_racks rb).
  Proof.
    intros Hr Hn Hg. unfold with_rack. cbn [rb_racks]. rewrite map_upd, (Hpr r r' Hn Hg). apply upd_same.
    apply map_nth_error. exact Hr.
  Qed.

  Lemma do_aspirate_proj c d rb label p v rb' : do_aspirate c d rb label p v = Some rb' ->
    map pr (rb_racks rb') = map pr (rb_racks rb).
  Proof.
    unfold do_aspirate. intro H.
    destruct (find_rack (rb_racks rb) label) as [k|]; [|discriminate].
    destruct (nth_error (rb_racks rb) k) as [r|] eqn:Hr; [|discriminate].
    destruct (unpos d (rk_geom r) p) as [i|]; [|discriminate].
    destruct (c && _); [discriminate|]. injection H as <-.
    apply (with_rack_proj _ _ r); [exact Hr|reflexivity|reflexivity].
  Qed.

  Lemma do_dispense_proj c d rb label p v rb' : do_dispense c d rb label p v = Some rb' ->
    map pr (rb_racks rb') = map pr (rb_racks rb).
  Proof.
    unfold do_dispense. intro H.
    destruct (find_rack (rb_racks rb) label) as [k|]; [|discriminate].
    destruct (nth_error (rb_racks rb) k) as [r|] eqn:Hr; [|discriminate].
    destruct (unpos d (rk_geom r) p) as [i|]; [|discriminate].
    destruct (c && _); [discriminate|]. injection H as <-.
    apply (with_rack_proj _ _ r); [exact Hr|reflexivity|reflexivity].
  Qed.

  Lemma dispense_all_proj c d label v ps : forall rb rb', dispense_all c d rb label ps v = Some rb' ->
    map pr (rb_racks rb') = map pr (rb_racks rb).
  Proof.
    induction ps as [|p rest IH]; intros rb rb' H; cbn [dispense_all] in H.
    - injection H as <-. reflexivity.
    - destruct (do_dispense c d rb label p v) as [rb1|] eqn:E; [|discriminate].
      rewrite (IH _ _ H). eapply do_dispense_proj. exact E.
  Qed.

  Lemma do_reagent_proj c d rb f rb' : do_reagent c d rb f = Some rb' ->
    map pr (rb_racks rb') = map pr (rb_racks rb).
  Proof.
    unfold do_reagent. intro H.
    destruct (find_rack (rb_racks rb) (r_src_label f)) as [k|]; [|discriminate].
    destruct (nth_error (rb_racks rb) k) as [r|] eqn:Hr; [|discriminate].
    destruct (range_index d (rk_geom r) _ _) as [i|]; [|discriminate].
    destruct (c && _); [discriminate|].
    rewrite (dispense_all_proj _ _ _ _ _ _ _ H).
    apply (with_rack_proj _ _ r); [exact Hr|reflexivity|reflexivity].
  Qed.

  Lemma interp1_proj c d rb r rb' : interp1 c d rb r = Some rb' ->
    map pr (rb_racks rb') = map pr (rb_racks rb).
  Proof.
    destruct r; cbn [interp1]; intro H; try (injection H as <-; reflexivity).
    - eapply do_aspirate_proj. exact H.
    - eapply do_dispense_proj. exact H.
    - eapply do_reagent_proj. exact H.
  Qed.

  Lemma interp_proj c d recs : forall rb rb', interp c d rb recs = Some rb' ->
    map pr (rb_racks rb') = map pr (rb_racks rb).
  Proof.
    induction recs as [|r rest IH]; intros rb rb' H; cbn [interp] in H.
    - injection H as <-. reflexivity.
    - destruct (interp1 c d rb r) as [rb1|] eqn:E; [|discriminate].
      rewrite (IH _ _ H). eapply interp1_proj. exact E.
  Qed.
End Frames.

Lemma interp_names c d recs rb rb' : interp c d rb recs = Some rb' ->
  map rk_name (rb_racks rb') = map rk_name (rb_racks rb).
Proof. apply interp_proj. intros r r' Hn _. exact Hn. Qed.

Lemma interp_geoms c d recs rb rb' : interp c d rb recs = Some rb' ->
  map rk_geom (rb_racks rb') = map rk_geom (rb_racks rb).
Proof. apply interp_proj. intros r r' _ Hg. exact Hg. Qed.

Lemma sim_geoms lws rs : sim_racks lws rs -> map rk_geom rs = map lw_geom lws.
Proof.
  intro H. symmetry. apply (Forall2_map_eq _ _ _ _ _ H). intros L r (_ & Hg & _). symmetry. exact Hg.
Qed.

(** the checked interpreter only refuses more *)
Lemma do_aspirate_unchecked d rb label p v rb' : do_aspirate true d rb label p v = Some rb' ->
  do_aspirate false d rb label p v = Some rb'.
Proof.
  unfold do_aspirate. intro H.
  destruct (find_rack (rb_racks rb) label) as [k|]; [|discriminate].
  destruct (nth_error (rb_racks rb) k) as [r|]; [|discriminate].
  destruct (unpos d (rk_geom r) p) as [i|]; [|discriminate].
  cbn [andb] in *. destruct (Qltb _ _); [discriminate|exact H].
Qed.

Lemma do_dispense_unchecked d rb label p v rb' : do_dispense true d rb label p v = Some rb' ->
  do_dispense false d rb label p v = Some rb'.
Proof.
  unfold do_dispense. intro H.
  destruct (find_rack (rb_racks rb) label) as [k|]; [|discriminate].
  destruct (nth_error (rb_racks rb) k) as [r|]; [|discriminate].
  destruct (unpos d (rk_geom r) p) as [i|]; [|discriminate].
  cbn [andb] in *. destruct (Qgtb _ _); [discriminate|exact H].
Qed.

Lemma dispense_all_unchecked d label v ps : forall rb rb', dispense_all true d rb label ps v = Some rb' ->
  dispense_all false d rb label ps v = Some rb'.
Proof.
  induction ps as [|p rest IH]; intros rb rb' H; cbn [dispense_all] in *; [exact H|].
  destruct (do_dispense true d rb label p v) as [rb1|] eqn:E; [|discriminate].
  rewrite (do_dispense_unchecked _ _ _ _ _ _ E). apply IH. exact H.
Qed.

Lemma do_reagent_unchecked d rb f rb' : do_reagent true d rb f = Some rb' -> do_reagent false d rb f = Some rb'.
Proof.
  unfold do_reagent. intro H.
  destruct (find_rack (rb_racks rb) (r_src_label f)) as [k|]; [|discriminate].
  destruct (nth_error (rb_racks rb) k) as [r|]; [|discriminate].
  destruct (range_index d (rk_geom r) _ _) as [i|]; [|discriminate].
  cbn [andb] in *. destruct (Qltb _ _); [discriminate|]. apply dispense_all_unchecked. exact H.
Qed.

Lemma interp_unchecked d recs : forall rb rb', interp true d rb recs = Some rb' -> interp false d rb recs = Some rb'.
Proof.
  induction recs as [|r rest IH]; intros rb rb' H; cbn [interp] in *; [exact H|].
  destruct (interp1 true d rb r) as [rb1|] eqn:E; [|discriminate].
  assert (E' : interp1 false d rb r = Some rb1).
  { destruct r; cbn [interp1] in *; try exact E.
    - apply do_aspirate_unchecked. exact E.
    - apply do_dispense_unchecked. exact E.
    - apply do_reagent_unchecked. exact E. }
  rewrite E'. apply IH. exact H.
Qed.

(** records that do not move liquid *)
Definition quiet (r : srec) : bool := match r with RA _ | RD _ | RR _ => false | _ => true end.

Lemma interp_quiet c d recs : forall rb, forallb quiet recs = true ->
  exists rb', interp c d rb recs = Some rb' /\ rb_racks rb' = rb_racks rb.
Proof.
  induction recs as [|r rest IH]; intros rb H; cbn [interp forallb] in *.
  - exists rb. split; reflexivity.
  - apply andb_true_iff in H. destruct H as [Hr Hrest].
    destruct r; try discriminate; cbn [interp1];
      match goal with |- context [interp c d ?x rest] => destruct (IH x Hrest) as (rb' & A & B) end;
      exists rb'; (split; [exact A|exact B]).
Qed.

(** chaining: the standing hypotheses survive a replayed call *)
Lemma good_next c s s' rb rb' new : good_state s -> sim s rb ->
  st_wl s' = emit (st_wl s) new -> interp c (w_dev (st_wl s)) rb new = Some rb' -> sim s' rb' ->
  wf_state s' -> good_state s' /\ w_dev (st_wl s') = w_dev (st_wl s).
Proof.
  intros (HS & ND & Hd) Hsim Hw Hint Hsim' HS'.
  assert (Hdev : w_dev (st_wl s') = w_dev (st_wl s)) by (rewrite Hw; reflexivity).
  split; [|exact Hdev]. split; [exact HS'|]. split; [|rewrite Hdev; exact Hd].
  rewrite <- (sim_names _ _ Hsim'), (interp_names _ _ _ _ _ Hint), (sim_names _ _ Hsim). exact ND.
Qed.

(* ------------------------------------------------------------------ record-only operations *)

Ltac quiet_op H :=
  repeat match type of H with
         | context [if ?b then _ else _] => destruct b
         | context [match ?x with _ => _ end] => destruct x
         end;
  injection H as <- <-;
  first [ exists []; rewrite emit_nil; split; reflexivity
        | eexists; split; [reflexivity|reflexivity] ].

Lemma flush_spec w w' e : flush w = (w', e) -> exists new, w' = emit w new /\ forallb quiet new = true.
Proof. unfold flush. intro H. quiet_op H. Qed.

Lemma wash_spec w sc w' e : wash w sc = (w', e) -> exists new, w' = emit w new /\ forallb quiet new = true.
Proof. unfold wash. intro H. quiet_op H. Qed.

Lemma decontaminate_spec w w' e : decontaminate w = (w', e) ->
  exists new, w' = emit w new /\ forallb quiet new = true.
Proof. unfold decontaminate. intro H. quiet_op H. Qed.

Lemma commit_spec w w' e : commit w = (w', e) -> exists new, w' = emit w new /\ forallb quiet new = true.
Proof. unfold commit. intro H. quiet_op H. Qed.

Lemma set_diti_spec w i w' e : set_diti w i = (w', e) -> exists new, w' = emit w new /\ forallb quiet new = true.
Proof. unfold set_diti. intro H. quiet_op H. Qed.

Lemma comment_quiet w c w' e : comment w c = (w', e) -> exists new, w' = emit w new /\ forallb quiet new = true.
Proof.
  intro H. destruct (comment_spec _ _ _ _ H) as (ls & Hw & _). exists (map RC ls). split; [exact Hw|].
  clear. induction ls as [|l r IH]; [reflexivity|exact IH].
Qed.

Lemma tip_action_spec w ws w' e : tip_action w ws = (w', e) ->
  exists new, w' = emit w new /\ forallb quiet new = true.
Proof.
  unfold tip_action. intro H.
  destruct ws; try (eapply wash_spec; exact H); try (eapply flush_spec; exact H).
  - injection H as <- <-. exists []. rewrite emit_nil. split; reflexivity.
  - destruct (w_dev w); try (eapply flush_spec; exact H);
      injection H as <- <-; exists []; rewrite emit_nil; split; reflexivity.
Qed.

(** a record-only operation on a state *)
Lemma quiet_replay c s w' new rb : sim s rb -> w' = emit (st_wl s) new -> forallb quiet new = true ->
  exists rb', interp c (w_dev (st_wl s)) rb new = Some rb' /\ sim (set_wl s w') rb'.
Proof.
  intros Hsim Hw Hq. destruct (interp_quiet c (w_dev (st_wl s)) new rb Hq) as (rb' & A & B).
  exists rb'. split; [exact A|]. unfold sim. cbn [st_lw set_wl]. rewrite B. exact Hsim.
Qed.

(* ------------------------------------------------------------------ exec_step, exec, transfer *)

Theorem exec_step_replay s ks kd sw dw v ws kw s' e rb :
  good_state s -> sim s rb -> exec_step s ks kd sw dw v ws kw = (s', e) ->
  exists new rb', st_wl s' = emit (st_wl s) new /\
    interp true (w_dev (st_wl s)) rb new = Some rb' /\
    (e = None -> sim s' rb') /\
    (between s (fst (aspirate s ks (A0 sw) (A0 (XQ v)) None kw)) rb' \/
     between (fst (aspirate s ks (A0 sw) (A0 (XQ v)) None kw)) s' rb').
Proof.
  intros Hgood Hsim H. unfold exec_step in H.
  destruct (aspirate s ks (A0 sw) (A0 (XQ v)) None kw) as [s1 e1] eqn:Ea. cbn [fst].
  destruct (aspirate_replay _ _ _ _ _ _ _ _ _ Hgood Hsim Ea) as (n1 & rb1 & W1 & I1 & S1 & B1).
  destruct e1 as [e1|].
  { injection H as <- <-. exists n1, rb1. split; [exact W1|]. split; [exact I1|].
    split; [discriminate|left; exact B1]. }
  pose proof (S1 eq_refl) as Hs1.
  assert (HS1 : wf_state s1).
  { pose proof (aspirate_wf s ks (A0 sw) (A0 (XQ v)) None kw (proj1 Hgood)) as Hwf.
    rewrite Ea in Hwf. exact Hwf. }
  destruct (good_next _ _ _ _ _ _ Hgood Hsim W1 I1 Hs1 HS1) as [Hgood1 Hdev1].
  assert (Hstop : forall e0, (s1, Some e0) = (s', e) ->
    exists new rb', st_wl s' = emit (st_wl s) new /\ interp true (w_dev (st_wl s)) rb new = Some rb' /\
      (e = None -> sim s' rb') /\ (between s s1 rb' \/ between s1 s' rb')).
  { intros e0 E. injection E as <- <-. exists n1, rb1. split; [exact W1|]. split; [exact I1|].
    split; [discriminate|left; exact B1]. }
  destruct (nth_error (st_lw s1) ks) as [Ls|]; [|apply (Hstop _ H)].
  destruct (get_well_composition Ls sw) as [c0|e2]; [|apply (Hstop _ H)].
  destruct (dispense s1 kd (A0 dw) (A0 (XQ v)) None (Some [Some c0]) kw) as [s2 e3] eqn:Ed.
  destruct (dispense_replay _ _ _ _ _ _ _ _ _ _ Hgood1 Hs1 Ed) as (n2 & rb2 & W2 & I2 & S2 & B2).
  rewrite Hdev1 in I2.
  destruct e3 as [e3|].
  { injection H as <- <-. exists (n1 ++ n2)%list, rb2.
    split; [rewrite W2, W1, emit_emit; reflexivity|]. split; [rewrite interp_app, I1; exact I2|].
    split; [discriminate|right; exact B2]. }
  pose proof (S2 eq_refl) as Hs2.
  destruct (tip_action (st_wl s2) ws) as [w e4] eqn:Et. injection H as <- <-.
  destruct (tip_action_spec _ _ _ _ Et) as (n3 & W3 & Q3).
  destruct (quiet_replay true s2 w n3 rb2 Hs2 W3 Q3) as (rb3 & I3 & Hs3).
  assert (Hdev2 : w_dev (st_wl s2) = w_dev (st_wl s)) by (rewrite W2; exact Hdev1).
  rewrite Hdev2 in I3.
  exists (n1 ++ n2 ++ n3)%list, rb3. cbn [st_wl set_wl].
  split; [rewrite W3, W2, W1, !emit_emit; reflexivity|].
  split; [rewrite interp_app, I1, interp_app, I2; exact I3|].
  split; [intros _; exact Hs3|]. right.
  apply between_of_sim; [|exact Hs3]. destruct B2 as (Hlen & _). exact Hlen.
Qed.

Lemma exec_step_wf' s ks kd sw dw v ws kw s' e :
  exec_step s ks kd sw dw v ws kw = (s', e) -> wf_state s -> wf_state s'.
Proof.
  intros H HS. pose proof (exec_step_wf s ks kd sw dw v ws kw HS) as H1. rewrite H in H1. exact H1.
Qed.

Theorem exec_replay ks kd ws kw acts : forall s s' e rb,
  good_state s -> sim s rb -> exec s ks kd acts ws kw = (s', e) ->
  exists new rb', st_wl s' = emit (st_wl s) new /\
    interp true (w_dev (st_wl s)) rb new = Some rb' /\ (e = None -> sim s' rb').
Proof.
  induction acts as [|a rest IH]; intros s s' e rb Hgood Hsim H; cbn [exec] in H.
  - injection H as <- <-. exists [], rb. rewrite emit_nil. split; [reflexivity|]. split; [reflexivity|].
    intros _. exact Hsim.
  - destruct a as [sw dw v|].
    + destruct (exec_step s ks kd sw dw v ws kw) as [s1 e1] eqn:Es.
      destruct (exec_step_replay _ _ _ _ _ _ _ _ _ _ _ Hgood Hsim Es) as (n1 & rb1 & W1 & I1 & S1 & _).
      destruct e1 as [e1|].
      { injection H as <- <-. exists n1, rb1. split; [exact W1|]. split; [exact I1|discriminate]. }
      pose proof (S1 eq_refl) as Hs1.
      pose proof (exec_step_wf' _ _ _ _ _ _ _ _ _ _ Es (proj1 Hgood)) as HS1.
      destruct (good_next _ _ _ _ _ _ Hgood Hsim W1 I1 Hs1 HS1) as [Hgood1 Hdev1].
      destruct (IH _ _ _ _ Hgood1 Hs1 H) as (n2 & rb2 & W2 & I2 & S2). rewrite Hdev1 in I2.
      exists (n1 ++ n2)%list, rb2. split; [rewrite W2, W1, emit_emit; reflexivity|].
      split; [rewrite interp_app, I1; exact I2|exact S2].
    + cbn [commit fst] in H.
      assert (Hgood1 : good_state (set_wl s (emit (st_wl s) [RB]))) by exact Hgood.
      assert (Hs1 : sim (set_wl s (emit (st_wl s) [RB])) rb) by exact Hsim.
      destruct (IH _ _ _ _ Hgood1 Hs1 H) as (n2 & rb2 & W2 & I2 & S2).
      exists (RB :: n2), rb2. cbn [st_wl set_wl] in W2.
      split; [rewrite W2, emit_emit; reflexivity|]. split; [exact I2|exact S2].
Qed.

Theorem transfer_replay s ks swells kd dwells vols label ws pb kw s' e rb :
  good_state s -> sim s rb -> transfer s ks swells kd dwells vols label ws pb kw = (s', e) ->
  exists new rb', st_wl s' = emit (st_wl s) new /\
    interp true (w_dev (st_wl s)) rb new = Some rb' /\ (e = None -> sim s' rb').
Proof.
  intros Hgood Hsim H. unfold transfer in H. cbv zeta in H.
  assert (Hstop : forall e0, (s, Some e0) = (s', e) ->
    exists new rb', st_wl s' = emit (st_wl s) new /\ interp true (w_dev (st_wl s)) rb new = Some rb' /\
      (e = None -> sim s' rb')).
  { intros e0 E. injection E as <- <-. exists [], rb. rewrite emit_nil.
    split; [reflexivity|]. split; [reflexivity|discriminate]. }
  assert (Hmain :
    match nth_error (st_lw s) ks, nth_error (st_lw s) kd with
    | Some Ls, Some Ld =>
        let sw := flattenF swells in let dw := flattenF dwells in let vs := flattenF vols in
        let nmax := Nat.max (length sw) (Nat.max (length dw) (length vs)) in
        let sw := broadcast sw nmax in let dw := broadcast dw nmax in let vs := broadcast vs nmax in
        if negb ((length sw =? length dw)%nat && (length dw =? length vs)%nat) then (s, Some EReject)
        else if existsb (fun v => Qltb v 0) vs then (s, Some EReject)
        else if existsb (fun w => match lw_index Ls w with None => true | Some _ => false end) sw
                || existsb (fun w => match lw_index Ld w with None => true | Some _ => false end) dw
             then (s, Some EReject)
        else
          match optimize_partition_by (is_trough (lw_geom Ls)) (is_trough (lw_geom Ld)) pb with
          | Err e => (s, Some EReject)
          | Ok mode =>
              match comment (st_wl s) label with
              | (w, Some e) => (set_wl s w, Some e)
              | (w, None) =>
                  let triples := zip (zip sw dw) vs in
                  let m := w_max w in
                  let acts := plan (w_autosplit w) m mode triples in
                  match exec (set_wl s w) ks kd acts ws kw with
                  | (s', Some e) => (s', Some e)
                  | (s', None) =>
                      let lab := lvh_label label (lvh_extra (w_autosplit w) m triples) in
                      let n := n_steps acts in
                      if (ks =? kd)%nat then (condense_at s' ks (2 * n) lab, None)
                      else (condense_at (condense_at s' ks n lab) kd n lab, None)
                  end
              end
          end
    | _, _ => (s, Some EReject)
    end = (s', e)).
  { destruct (w_dev (st_wl s)) eqn:Ed; try exact H. destruct Hgood as (_ & _ & Hd). congruence. }
  clear H. cbv zeta in Hmain.
  destruct (nth_error (st_lw s) ks) as [Ls|]; [|apply (Hstop _ Hmain)].
  destruct (nth_error (st_lw s) kd) as [Ld|]; [|apply (Hstop _ Hmain)].
  destruct (negb _); [apply (Hstop _ Hmain)|].
  destruct (existsb _ _); [apply (Hstop _ Hmain)|].
  destruct (_ || _); [apply (Hstop _ Hmain)|].
  destruct (optimize_partition_by _ _ pb) as [mode|e0]; [|apply (Hstop _ Hmain)].
  destruct (comment (st_wl s) label) as [w e1] eqn:Ec.
  destruct (comment_quiet _ _ _ _ Ec) as (n0 & W0 & Q0).
  destruct (quiet_replay true s w n0 rb Hsim W0 Q0) as (rb0 & I0 & Hs0).
  destruct e1 as [e1|].
  { injection Hmain as <- <-. exists n0, rb0. split; [exact W0|]. split; [exact I0|discriminate]. }
  assert (Hgood0 : good_state (set_wl s w)).
  { destruct Hgood as (A & B & C). split; [exact A|]. split; [exact B|]. cbn [st_wl set_wl]. rewrite W0. exact C. }
  match type of Hmain with context [exec (set_wl s w) ks kd ?a ws kw] => set (acts := a) in * end.
  destruct (exec (set_wl s w) ks kd acts ws kw) as [s1 e2] eqn:Ee.
  destruct (exec_replay _ _ _ _ _ _ _ _ _ Hgood0 Hs0 Ee) as (n1 & rb1 & W1 & I1 & S1).
  cbn [st_wl set_wl] in W1, I1. rewrite W0 in I1. cbn [w_dev emit] in I1.
  assert (Hint : interp true (w_dev (st_wl s)) rb (n0 ++ n1) = Some rb1) by (rewrite interp_app, I0; exact I1).
  assert (Hw : st_wl s1 = emit (st_wl s) (n0 ++ n1)) by (rewrite W1, W0, emit_emit; reflexivity).
  destruct e2 as [e2|].
  { injection Hmain as <- <-. exists (n0 ++ n1)%list, rb1. split; [exact Hw|]. split; [exact Hint|discriminate]. }
  pose proof (S1 eq_refl) as Hs1.
  assert (Hwc : forall k n lab t, st_wl (condense_at t k n lab) = st_wl t).
  { intros k n lab t. unfold condense_at. destruct (nth_error (st_lw t) k); reflexivity. }
  destruct (ks =? kd)%nat; injection Hmain as <- <-; exists (n0 ++ n1)%list, rb1;
    (split; [rewrite ?Hwc; exact Hw|]); (split; [exact Hint|]); intros _; repeat apply sim_condense_at; exact Hs1.
Qed.

(* ------------------------------------------------------------------ sort_Z *)

Lemma insert_Z_perm x l : Permutation (insert_Z x l) (x :: l).
Proof.
  induction l as [|y r IH]; cbn [insert_Z]; [apply Permutation_refl|].
  destruct (y <=? x)%Z; [|apply Permutation_refl].
  eapply perm_trans; [apply perm_skip; exact IH|apply perm_swap].
Qed.

Lemma sort_Z_perm l : Permutation (sort_Z l) l.
Proof.
  unfold sort_Z.
  assert (H : forall acc, Permutation (fold_left (fun a x => insert_Z x a) l acc) (l ++ acc)).
  { induction l as [|x r IH]; intro acc; cbn [fold_left app]; [apply Permutation_refl|].
    eapply perm_trans; [apply IH|]. eapply perm_trans; [apply Permutation_app_head; apply insert_Z_perm|].
    apply Permutation_sym. apply Permutation_middle. }
  specialize (H []). rewrite app_nil_r in H. exact H.
Qed.

Lemma insert_Z_sorted x l : StronglySorted Z.le l -> StronglySorted Z.le (insert_Z x l).
Proof.
  induction l as [|y r IH]; intro H; cbn [insert_Z].
  - constructor; [constructor|constructor].
  - inversion H as [|y' r' Hr Hy]; subst. destruct (y <=? x)%Z eqn:E.
    + apply Z.leb_le in E. constructor; [apply IH; exact Hr|].
      apply (Permutation_Forall (Permutation_sym (insert_Z_perm x r))). constructor; assumption.
    + apply Z.leb_gt in E. constructor; [exact H|]. constructor; [lia|].
      eapply Forall_impl; [|exact Hy]. intros z Hz. cbv beta in Hz. lia.
Qed.

Lemma sort_Z_sorted l : StronglySorted Z.le (sort_Z l).
Proof.
  unfold sort_Z.
  assert (H : forall acc, StronglySorted Z.le acc ->
            StronglySorted Z.le (fold_left (fun a x => insert_Z x a) l acc)).
  { induction l as [|x r IH]; intros acc Ha; cbn [fold_left]; [exact Ha|].
    apply IH. apply insert_Z_sorted. exact Ha. }
  apply H. constructor.
Qed.

Lemma last_indep {A} (l : list A) d d' : l <> [] -> last l d = last l d'.
Proof.
  induction l as [|a r IH]; intro H; [congruence|].
  destruct r as [|b r']; [reflexivity|].
  change (last (a :: b :: r') d) with (last (b :: r') d).
  change (last (a :: b :: r') d') with (last (b :: r') d'). apply IH. discriminate.
Qed.

Lemma sorted_bounds p0 tl z : StronglySorted Z.le (p0 :: tl) -> In z (p0 :: tl) ->
  (p0 <= z <= last (p0 :: tl) p0)%Z.
Proof.
  revert p0 z. induction tl as [|y r IH]; intros p0 z H Hin.
  - destruct Hin as [<-|[]]. cbn [last]. lia.
  - inversion H as [|a b Hr Hy]; subst. inversion Hy as [|a b Hy1 Hy2]; subst.
    change (last (p0 :: y :: r) p0) with (last (y :: r) p0).
    rewrite (last_indep (y :: r) p0 y) by discriminate.
    pose proof (IH y y Hr (or_introl eq_refl)) as Hyl.
    destruct Hin as [<-|Hin]; [lia|]. pose proof (IH y z Hr Hin). lia.
Qed.

Lemma existsb_Zeqb z l : existsb (Z.eqb z) l = true <-> In z l.
Proof.
  rewrite existsb_exists. split.
  - intros (x & Hin & E). apply Z.eqb_eq in E. subst x. exact Hin.
  - intro Hin. exists z. split; [exact Hin|apply Z.eqb_refl].
Qed.

(** the destination positions the interpreter derives from start, end and exclusions of the R record
    that [distribute] writes are the positions of the destination wells *)
Lemma dsts_mem ps p0 tl : sort_Z (map Z.of_nat ps) = p0 :: tl ->
  let sorted := p0 :: tl in
  let plast := last sorted p0 in
  let excl := filter (fun z => negb (existsb (Z.eqb z) sorted))
                (map (fun i => (p0 + Z.of_nat i)%Z) (seq 0 (Z.to_nat (plast - p0 + 1)))) in
  forall p,
    In p (filter (fun p => negb (existsb (Z.eqb (Z.of_nat p)) (sort_Z excl)))
            (seq (Z.to_nat p0) (Z.to_nat plast + 1 - Z.to_nat p0))) <-> In p ps.
Proof.
  intros Hs sorted plast excl.
  pose proof (sort_Z_sorted (map Z.of_nat ps)) as Hsorted. rewrite Hs in Hsorted.
  assert (Hmem : forall z, In z sorted <-> In z (map Z.of_nat ps)).
  { intro z. unfold sorted. rewrite <- Hs. split; apply Permutation_in;
      [apply sort_Z_perm|apply Permutation_sym, sort_Z_perm]. }
  assert (Hbd : forall z, In z sorted -> (p0 <= z <= plast)%Z) by (intros z Hz; apply sorted_bounds; assumption).
  assert (Hp0 : (0 <= p0)%Z).
  { assert (Hin : In p0 (map Z.of_nat ps)) by (apply Hmem; left; reflexivity).
    apply in_map_iff in Hin. destruct Hin as (x & <- & _). lia. }
  assert (Hpl : (p0 <= plast)%Z) by (apply (Hbd p0); left; reflexivity).
  assert (Hexcl : forall z, In z (sort_Z excl) <-> ((p0 <= z <= plast)%Z /\ ~ In z sorted)).
  { intro z. split.
    - intro Hin. apply (Permutation_in _ (sort_Z_perm excl)) in Hin. unfold excl in Hin.
      apply filter_In in Hin. destruct Hin as [Hr Hn]. apply in_map_iff in Hr.
      destruct Hr as (i & <- & Hi). apply in_seq in Hi. split; [lia|].
      intro C. apply existsb_Zeqb in C. rewrite C in Hn. discriminate.
    - intros [Hr Hn]. apply (Permutation_in _ (Permutation_sym (sort_Z_perm excl))). unfold excl.
      apply filter_In. split.
      + apply in_map_iff. exists (Z.to_nat (z - p0)). split; [lia|]. apply in_seq. lia.
      + destruct (existsb (Z.eqb z) sorted) eqn:E; [|reflexivity]. apply existsb_Zeqb in E. contradiction. }
  intro p. rewrite filter_In, in_seq. split.
  - intros [Hr Hn]. destruct (existsb (Z.eqb (Z.of_nat p)) (sort_Z excl)) eqn:E; [discriminate|].
    assert (Hnot : ~ In (Z.of_nat p) (sort_Z excl)) by (intro C; apply existsb_Zeqb in C; congruence).
    rewrite Hexcl in Hnot.
    assert (Hin : In (Z.of_nat p) sorted).
    { destruct (in_dec Z.eq_dec (Z.of_nat p) sorted) as [Hy|Hno]; [exact Hy|]. exfalso. apply Hnot.
      split; [lia|exact Hno]. }
    apply Hmem in Hin. apply in_map_iff in Hin. destruct Hin as (x & Hx & Hin).
    apply Nat2Z.inj in Hx. subst x. exact Hin.
  - intro Hin. assert (Hs' : In (Z.of_nat p) sorted) by (apply Hmem; apply in_map; exact Hin).
    pose proof (Hbd _ Hs') as Hb. split; [lia|].
    destruct (existsb (Z.eqb (Z.of_nat p)) (sort_Z excl)) eqn:E; [|reflexivity].
    apply existsb_Zeqb in E. apply Hexcl in E. destruct E as [_ E]. contradiction.
Qed.

Lemma dsts_perm ps p0 tl : NoDup ps -> sort_Z (map Z.of_nat ps) = p0 :: tl ->
  let sorted := p0 :: tl in
  let plast := last sorted p0 in
  let excl := filter (fun z => negb (existsb (Z.eqb z) sorted))
                (map (fun i => (p0 + Z.of_nat i)%Z) (seq 0 (Z.to_nat (plast - p0 + 1)))) in
  Permutation
    (filter (fun p => negb (existsb (Z.eqb (Z.of_nat p)) (sort_Z excl)))
            (seq (Z.to_nat p0) (Z.to_nat plast + 1 - Z.to_nat p0)))
    ps.
Proof.
  intros ND Hs sorted plast excl.
  apply NoDup_Permutation; [apply NoDup_filter, seq_NoDup|exact ND|]. apply (dsts_mem ps p0 tl Hs).
Qed.

(* ------------------------------------------------------------------ pieces of the R record *)

(** the EVO-style source range of a trough column addresses the column's real well; under the Fluent
    numbering only when the trough has a single virtual row *)
Lemma range_index_src d g v col : wf_geom g -> g_vrows g = Some v -> (col < g_cols g)%nat ->
  (d = Evo \/ (d = Fluent /\ v = 1%nat)) ->
  range_index d g (1 + v * col) (1 + v * col + v - 1) = Some col.
Proof.
  intros Hg Ev Hc Hd. destruct (n_row_ids_trough g v Hg Ev) as [_ Hv].
  assert (Hct : (col <? g_cols g)%nat = true) by (apply Nat.ltb_lt; exact Hc).
  assert (Hu : forall t, (t < v)%nat -> unpos d g (1 + v * col + t) = Some col).
  { intros t Ht. unfold unpos. rewrite Ev. cbn [Nat.add Nat.eqb].
    replace (S (v * col + t) - 1)%nat with (col * v + t)%nat by lia.
    destruct Hd as [->|[-> ->]].
    - destruct (divmod_pos v t col Ht) as [_ Hdiv]. rewrite Hdiv, Hct. reflexivity.
    - replace (col * 1 + t)%nat with col by lia. rewrite Hct. reflexivity. }
  unfold range_index. pose proof (Hu 0%nat ltac:(lia)) as H0. rewrite Nat.add_0_r in H0. rewrite H0.
  replace (1 + v * col + v - 1 + 1 - (1 + v * col))%nat with v by lia.
  assert (Hall : forallb (fun p => match unpos d g p with Some j => (j =? col)%nat | None => false end)
                   (seq (1 + v * col) v) = true).
  { apply forallb_forall. intros p Hp. apply in_seq in Hp.
    replace p with (1 + v * col + (p - (1 + v * col)))%nat by lia. rewrite Hu by lia. apply Nat.eqb_refl. }
  rewrite Hall. reflexivity.
Qed.

Definition evs_of (v : Q) (idxs : list nat) : list event := map (fun i => (i, v)) idxs.

Lemma delta_evs_nonneg v idxs j : 0 <= v -> 0 <= delta (evs_of v idxs) j.
Proof.
  intro Hv. induction idxs as [|i r IH]; cbn [evs_of map delta]; [lra|]. fold (evs_of v r).
  destruct (i =? j)%nat; lra.
Qed.

Lemma delta_perm e1 e2 j : Permutation e1 e2 -> delta e1 j == delta e2 j.
Proof.
  intro H. induction H as [|[i v] l1 l2 _ IH|[i1 v1] [i2 v2] l|l1 l2 l3 _ IH1 _ IH2]; cbn [delta].
  - reflexivity.
  - rewrite IH. reflexivity.
  - ring.
  - rewrite IH1. exact IH2.
Qed.

Lemma Qgtb_false_intro a b : a <= b -> Qgtb a b = false.
Proof. intro H. unfold Qgtb. apply negb_false_iff. apply Qle_bool_iff. exact H. Qed.

Lemma Qltb_false_intro a b : b <= a -> Qltb a b = false.
Proof. intro H. unfold Qltb. apply negb_false_iff. apply Qle_bool_iff. exact H. Qed.

Lemma do_dispense_idx c d lws rb k L i p v oc :
  sim_racks lws (rb_racks rb) -> NoDup (map lw_name lws) -> nth_error lws k = Some L ->
  unpos d (lw_geom L) p = Some i ->
  Qgtb (Qred (vol_at L i + v)) (lw_max L) = false ->
  exists rb', do_dispense c d rb (lw_name L) p v = Some rb' /\
              sim_racks (upd lws k (add_one L i v oc)) (rb_racks rb').
Proof.
  intros Hsim ND HL Hp Hchk.
  destruct (find_rack_sim _ _ _ _ Hsim ND HL) as (r & Hf & Hr & Hrs).
  pose proof Hrs as (H1 & H2 & H3 & H4 & H5).
  assert (Hu : unpos d (rk_geom r) p = Some i) by (rewrite H2; exact Hp).
  unfold do_dispense. rewrite Hf, Hr, Hu.
  assert (E : Qgtb (nth i (rk_vols r) 0 + v) (rk_max r) = false).
  { rewrite <- Hchk. apply Qgtb_compat; [|rewrite H4; reflexivity].
    rewrite Qred_correct. unfold vol_at. rewrite (Forall2_Qeq_nth _ _ i H5). reflexivity. }
  rewrite E, andb_false_r. eexists. split; [reflexivity|].
  unfold with_rack. cbn [rb_racks]. apply Forall2_upd; [exact Hsim|]. apply rack_sim_add_one. exact Hrs.
Qed.

(** dispensing [v] at every position of [ps]: the rack ends with the ledger of the events *)
Lemma dispense_all_idx c d k v : 0 <= v -> forall ps idxs L lws rb,
  Forall2 (fun p i => unpos d (lw_geom L) p = Some i /\ (i < length (lw_vols L))%nat) ps idxs ->
  sim_racks lws (rb_racks rb) -> NoDup (map lw_name lws) -> nth_error lws k = Some L ->
  (forall j, vol_at L j + delta (evs_of v idxs) j <= lw_max L) ->
  exists rb' L', dispense_all c d rb (lw_name L) ps v = Some rb' /\
    sim_racks (upd lws k L') (rb_racks rb') /\ same_frame L L' /\
    forall j, vol_at L' j == vol_at L j + delta (evs_of v idxs) j.
Proof.
  intro Hv. induction ps as [|p ps IH]; intros idxs L lws rb HF Hsim ND HL Hbd.
  - inversion HF; subst. exists rb, L. cbn [dispense_all]. rewrite (upd_same _ _ _ HL).
    split; [reflexivity|]. split; [exact Hsim|]. split; [apply same_frame_refl|].
    intro j. cbn [evs_of map delta]. ring.
  - inversion HF as [|p' i ps' idxs' [Hp Hi] HF']; subst.
    assert (Hchk : Qgtb (Qred (vol_at L i + v)) (lw_max L) = false).
    { apply Qgtb_false_intro. rewrite Qred_correct. pose proof (Hbd i) as B.
      cbn [evs_of map delta] in B. fold (evs_of v idxs') in B. rewrite Nat.eqb_refl in B.
      pose proof (delta_evs_nonneg v idxs' i Hv). lra. }
    destruct (do_dispense_idx c d lws rb k L i p v None Hsim ND HL Hp Hchk) as (rb1 & Hrb1 & Hsim1).
    destruct (add_one_frame L i v None) as (A1 & A2 & A3 & A4 & A5 & A6).
    assert (HL1 : nth_error (upd lws k (add_one L i v None)) k = Some (add_one L i v None))
      by (apply nth_error_upd_same; eapply nth_error_lt; exact HL).
    assert (ND1 : NoDup (map lw_name (upd lws k (add_one L i v None))))
      by (rewrite (names_upd _ _ L) by (exact HL || exact A1); exact ND).
    assert (HF1 : Forall2 (fun p i0 => unpos d (lw_geom (add_one L i v None)) p = Some i0 /\
                                       (i0 < length (lw_vols (add_one L i v None)))%nat) ps idxs')
      by (rewrite A2, A6; exact HF').
    assert (Hbd1 : forall j, vol_at (add_one L i v None) j + delta (evs_of v idxs') j
                             <= lw_max (add_one L i v None)).
    { intro j. rewrite A4, (vol_at_add_one L i v None j Hi). pose proof (Hbd j) as B.
      cbn [evs_of map delta] in B. fold (evs_of v idxs') in B. lra. }
    destruct (IH idxs' _ _ rb1 HF1 Hsim1 ND1 HL1 Hbd1) as (rb' & L' & Hd & Hs & Hfr & Hvol).
    exists rb', L'. cbn [dispense_all]. rewrite Hrb1. rewrite A1 in Hd. rewrite upd_upd in Hs.
    split; [exact Hd|]. split; [exact Hs|]. split.
    + eapply same_frame_trans; [apply add_one_frame|exact Hfr].
    + intro j. rewrite Hvol, (vol_at_add_one L i v None j Hi).
      cbn [evs_of map delta]. fold (evs_of v idxs'). ring.
Qed.

(** index addressed by a position (total function used only where the position is known to be valid) *)
Definition uidx (d : device) (g : geom) (p : nat) : nat := match unpos d g p with Some i => i | None => 0%nat end.

Lemma events_of_positions d L v : shape0 L -> d <> BaseDev -> forall ws ps evs,
  positions_of d (lw_geom L) ws = Ok ps ->
  events_of L (zip ws (repeat (XQ v) (length ws))) = Some evs ->
  evs = evs_of v (map (uidx d (lw_geom L)) ps) /\
  Forall2 (fun p i => unpos d (lw_geom L) p = Some i /\ (i < length (lw_vols L))%nat)
          ps (map (uidx d (lw_geom L)) ps).
Proof.
  intros HS Hd. induction ws as [|w r IH]; intros ps evs Hp He.
  - cbn [positions_of] in Hp. injection Hp as <-. cbn in He. injection He as <-. split; constructor.
  - cbn [positions_of] in Hp. cbn [length repeat zip events_of] in He.
    destruct (device_position d (lw_geom L) w) as [p|e1] eqn:Ep; [|discriminate].
    destruct (positions_of d (lw_geom L) r) as [ps'|e2] eqn:Eps; [|discriminate].
    injection Hp as <-.
    destruct (lw_index L w) as [i|] eqn:Ei; [|discriminate].
    destruct (events_of L (zip r (repeat (XQ v) (length r)))) as [evs'|] eqn:Ee; [|discriminate].
    injection He as <-. destruct (IH ps' evs' eq_refl eq_refl) as [-> HF].
    pose proof (lw_index_unpos d L w i p (proj1 HS) Hd Ei Ep) as Hu.
    assert (Eu : uidx d (lw_geom L) p = i) by (unfold uidx; rewrite Hu; reflexivity).
    cbn [map evs_of]. rewrite Eu. split; [reflexivity|]. constructor; [|exact HF].
    split; [exact Hu|]. eapply lw_index_bound; eassumption.
Qed.

Lemma Forall2_map_perm {A B} (R : A -> B -> Prop) (f : A -> B) l l' :
  Forall2 R l (map f l) -> Permutation l' l -> Forall2 R l' (map f l').
Proof.
  intros HF HP.
  assert (H : forall x, In x l -> R x (f x)).
  { clear HP. induction l as [|a r IH]; intros x Hin; [contradiction|].
    cbn [map] in HF. inversion HF; subst. destruct Hin as [<-|Hin]; [assumption|apply IH; assumption]. }
  assert (H' : forall x, In x l' -> R x (f x)) by (intros x Hin; apply H; eapply Permutation_in; eassumption).
  clear -H'. induction l' as [|a r IH]; cbn [map]; constructor.
  - apply H'. left. reflexivity.
  - apply IH. intros x Hin. apply H'. right. exact Hin.
Qed.

Lemma Forall2_Qeq_of_nth l1 : forall l2, length l1 = length l2 ->
  (forall j, nth j l1 0 == nth j l2 0) -> Forall2 Qeq l1 l2.
Proof.
  induction l1 as [|a r IH]; intros [|b s] Hlen H; cbn [length] in Hlen; try discriminate; constructor.
  - exact (H 0%nat).
  - apply IH; [lia|]. intro j. exact (H (S j)).
Qed.

Lemma rack_sim_vols_eq L L' r : rack_sim L r -> same_lims L L' ->
  (forall j, vol_at L' j == vol_at L j) -> rack_sim L' r.
Proof.
  intros (H1 & H2 & H3 & H4 & H5) (M1 & M2 & M3 & M4 & M5) Hv. unfold rack_sim.
  split; [congruence|]. split; [congruence|]. split; [congruence|]. split; [congruence|].
  apply Forall2_Qeq_of_nth.
  - rewrite M5. apply (Forall2_length' _ _ _ H5).
  - intro j. rewrite <- (Forall2_Qeq_nth _ _ j H5). apply Hv.
Qed.

Lemma rack_sim_rem_one' L r i v v' : rack_sim L r -> v == v' ->
  rack_sim (rem_one L i v) (set_rack_vol r i (nth i (rk_vols r) 0 - v')).
Proof.
  intros (H1 & H2 & H3 & H4 & H5) Hv. unfold rack_sim, rem_one, set_rack_vol.
  cbn [rk_name rk_geom rk_min rk_max rk_vols lw_name lw_geom lw_min lw_max lw_vols set_vols].
  repeat split; try assumption.
  apply Forall2_upd; [exact H5|]. rewrite Qred_correct. unfold vol_at.
  rewrite (Forall2_Qeq_nth _ _ i H5), Hv. reflexivity.
Qed.

Lemma text_ok_inv b t l : text_ok b t = Some l -> t = PStr l.
Proof. destruct t as [s|]; [|discriminate]. intro H. apply text_ok_PStr in H. congruence. Qed.

Lemma reagent_distribution_spec w a w' e : reagent_distribution w a = (w', e) ->
  match e with
  | Some _ => w' = w
  | None => exists f v, w' = emit w [RR f] /\
       rd_src_label a = PStr (r_src_label f) /\ rd_dst_label a = PStr (r_dst_label f) /\
       rd_src_start a = PInt (r_src_start f) /\ rd_src_end a = PInt (r_src_end f) /\
       rd_dst_start a = PInt (r_dst_start f) /\ rd_dst_end a = PInt (r_dst_end f) /\
       r_exclude f = sort_Z (match rd_exclude a with Some l => l | None => [] end) /\
       rvol_pvol (rd_volume a) = PV (XQ v) /\ pynum_q (r_volume f) = v /\ 0 <= v /\ v <= w_max w
  end.
Proof.
  unfold reagent_distribution. intro H.
  destruct (if String.eqb (rd_direction a) "left_to_right" then Some false
            else if String.eqb (rd_direction a) "right_to_left" then Some true else None) as [dir|];
    [|injection H as <- <-; reflexivity].
  destruct (check_position (rd_src_start a)) as [ss|e1] eqn:P1; [|injection H as <- <-; reflexivity].
  destruct (check_position (rd_src_end a)) as [se|e2] eqn:P2; [|injection H as <- <-; reflexivity].
  destruct (check_position (rd_dst_start a)) as [ds|e3] eqn:P3; [|injection H as <- <-; reflexivity].
  destruct (check_position (rd_dst_end a)) as [de|e4] eqn:P4; [|injection H as <- <-; reflexivity].
  destruct ((rd_diti_reuse a <? 0) || (rd_multi_disp a <? 0))%Z; [injection H as <- <-; reflexivity|].
  destruct (existsb _ _); [injection H as <- <-; reflexivity|].
  destruct (text_ok true (rd_src_label a)) as [sl|] eqn:T1; [|injection H as <- <-; reflexivity].
  destruct (check_volume (rvol_pvol (rd_volume a)) (Some (w_max w))) as [v|ev] eqn:EV;
    [|injection H as <- <-; reflexivity].
  destruct (text_ok true (rd_src_id a)) as [sid|]; [|injection H as <- <-; reflexivity].
  destruct (text_ok true (rd_src_type a)) as [sty|]; [|injection H as <- <-; reflexivity].
  destruct (text_ok true (rd_dst_label a)) as [dl|] eqn:T2; [|injection H as <- <-; reflexivity].
  destruct (text_ok true (rd_dst_id a)) as [did|]; [|injection H as <- <-; reflexivity].
  destruct (text_ok true (rd_dst_type a)) as [dty|]; [|injection H as <- <-; reflexivity].
  destruct (text_ok false (rd_liquid_class a)) as [lc|]; [|injection H as <- <-; reflexivity].
  injection H as <- <-.
  apply check_position_ok in P1, P2, P3, P4. apply text_ok_inv in T1, T2.
  destruct (check_volume_ok _ _ _ EV) as (V1 & V2 & V3).
  eexists. exists v. split; [reflexivity|].
  cbn [r_src_label r_dst_label r_src_start r_src_end r_dst_start r_dst_end r_exclude r_volume].
  split; [exact T1|]. split; [exact T2|]. split; [apply P1|]. split; [apply P2|].
  split; [apply P3|]. split; [apply P4|]. split; [reflexivity|]. split; [exact V1|].
  split; [|split; assumption].
  destruct (rd_volume a) as [z|x|]; cbn [rvol_pvol pynum_q] in *; congruence.
Qed.

(* ------------------------------------------------------------------ distribute *)

Lemma st_wl_condense t k n l : st_wl (condense_at t k n l) = st_wl t.
Proof. unfold condense_at. destruct (nth_error (st_lw t) k); reflexivity. Qed.

Definition no_ad (r : srec) : bool := match r with RA _ | RD _ => false | _ => true end.

Lemma quiet_no_ad new : forallb quiet new = true -> forallb no_ad new = true.
Proof.
  intro H. apply forallb_forall. intros r Hin. rewrite forallb_forall in H. specialize (H r Hin).
  destruct r; try reflexivity; discriminate.
Qed.

(** [distribute] appends comment records and at most one R record; a failed call only comments *)
Lemma distribute_quiet_fail s ks kd dwells a s' e : distribute s ks kd dwells a = (s', e) ->
  exists new, st_wl s' = emit (st_wl s) new /\ forallb no_ad new = true /\
              (e <> None -> forallb quiet new = true).
Proof.
  unfold distribute. cbv zeta. intro H.
  repeat match type of H with
         | context [match ?x with _ => _ end] => destruct x eqn:?
         | context [if ?b then _ else _] => destruct b eqn:?
         end;
    injection H as <- <-; cbn [st_wl set_wl set_lw]; rewrite ?st_wl_condense; cbn [st_wl set_wl set_lw];
    try (exists []; rewrite emit_nil; split; [reflexivity|split; [reflexivity|intros _; reflexivity]]).
  all: match goal with Ec : comment _ _ = (_, _) |- _ =>
         rewrite ?st_wl_condense in Ec; cbn [st_wl set_wl set_lw] in Ec;
         destruct (comment_quiet _ _ _ _ Ec) as (nc & Wc & Qc) end.
  all: try (exists nc; split; [exact Wc|split; [apply quiet_no_ad; exact Qc|intros _; exact Qc]]).
  all: match goal with Er : reagent_distribution _ _ = (_, ?eo) |- _ =>
         pose proof (reagent_distribution_spec _ _ _ _ Er) as Hr; destruct eo as [eo|] end.
  all: try (subst; exists nc; split; [reflexivity|split; [apply quiet_no_ad; exact Qc|intros _; exact Qc]]).
  all: destruct Hr as (f & v & Hw & _); exists (nc ++ [RR f])%list;
    (split; [rewrite Hw, Wc, emit_emit; reflexivity|]);
    (split; [rewrite forallb_app, (quiet_no_ad _ Qc); reflexivity|intro C; congruence]).
Qed.

Lemma sim_racks_upd_rel lws rs k L L' :
  sim_racks (upd lws k L) rs -> (forall r, rack_sim L r -> rack_sim L' r) -> sim_racks (upd lws k L') rs.
Proof.
  intros H Hrel. destruct (Nat.lt_ge_cases k (length lws)) as [Hk|Hk].
  - pose proof (nth_error_upd_same lws k L Hk) as HL.
    destruct (Forall2_nth_error_l _ _ _ _ _ H HL) as (r & Hr & Hsim).
    rewrite <- (upd_upd lws k L L'). eapply Forall2_upd_l; [exact H|exact Hr|]. apply Hrel. exact Hsim.
  - rewrite upd_out in * by exact Hk. exact H.
Qed.

Lemma trough_src_index L v col : wf_geom (lw_geom L) -> g_vrows (lw_geom L) = Some v ->
  (col < g_cols (lw_geom L))%nat -> lw_index L (well_id 0 col) = Some col.
Proof.
  intros Hg Ev Hc. destruct (n_row_ids_trough _ v Hg Ev) as [En Hv].
  unfold lw_index. rewrite well_index_ok by (rewrite ?En; lia). rewrite Ev.
  unfold flat_index. cbn [fst snd]. f_equal.
Qed.

Definition distribute_dev_ok (s : state) (ks : nat) : Prop :=
  w_dev (st_wl s) = Evo \/
  (w_dev (st_wl s) = Fluent /\
   forall Ls, nth_error (st_lw s) ks = Some Ls -> g_vrows (lw_geom Ls) = Some 1%nat).

Definition dst_positions_distinct (s : state) (kd : nat) (dwells : arr string) : Prop :=
  forall Ld ps, nth_error (st_lw s) kd = Some Ld ->
    positions_of (w_dev (st_wl s)) (lw_geom Ld) (flattenF dwells) = Ok ps -> NoDup ps.

Lemma distribute_success s ks kd dwells a s' rb :
  good_state s -> sim s rb -> distribute_dev_ok s ks -> dst_positions_distinct s kd dwells ->
  distribute s ks kd dwells a = (s', None) ->
  exists new rb', st_wl s' = emit (st_wl s) new /\
    interp true (w_dev (st_wl s)) rb new = Some rb' /\ sim s' rb'.
Proof.
  intros Hgood Hsim Hdev Hnd H. pose proof Hgood as (HS & ND & Hd).
  unfold distribute in H. cbv zeta in H.
  destruct (nth_error (st_lw s) ks) as [Ls|] eqn:HLs; [|discriminate].
  destruct (nth_error (st_lw s) kd) as [Ld|] eqn:HLd; [|discriminate].
  destruct (g_vrows (lw_geom Ls)) as [vr|] eqn:Ev; [|discriminate].
  destruct (rvol_x (d_volume a)) as [xv|] eqn:Ex; [|discriminate].
  set (d := w_dev (st_wl s)) in *.
  set (col := Z.to_nat (d_source_column a)) in *.
  set (dw := flattenF dwells) in *.
  assert (Hxq : exists v, xv = XQ v).
  { destruct xv as [v| | |]; [eexists; reflexivity|discriminate|cbn in H; discriminate|].
    exfalso. cbv beta iota in H.
    destruct (existsb _ dw); [discriminate|].
    destruct (positions_of d (lw_geom Ld) dw) as [ps|e0]; [|discriminate].
    destruct (sort_Z (map Z.of_nat ps)) as [|p0 tl]; [discriminate|].
    destruct (negb (col <? g_cols (lw_geom Ls))%nat); [discriminate|].
    rewrite remove_bad_volume in H; [discriminate|].
    exists (xmul_nat XNInf (length ps)). split; [left; reflexivity|].
    unfold xmul_nat. destruct (length ps =? 0)%nat; reflexivity. }
  destruct Hxq as [v ->]. cbv beta iota in H.
  destruct (Qgtb v (w_max (st_wl s))) eqn:Egt; [discriminate|].
  destruct (existsb _ dw); [discriminate|].
  destruct (positions_of d (lw_geom Ld) dw) as [ps|e0] eqn:Eps; [|discriminate].
  destruct (sort_Z (map Z.of_nat ps)) as [|p0 tl] eqn:Esort; [discriminate|].
  destruct (negb (col <? g_cols (lw_geom Ls))%nat) eqn:Ecol; [discriminate|].
  apply negb_false_iff in Ecol. apply Nat.ltb_lt in Ecol.
  cbn [xmul_nat] in H.
  set (q := Qred (v * inject_Z (Z.of_nat (length ps)))) in *.
  destruct (remove Ls (A0 (well_id 0 col)) (A0 (XQ q)) (d_label a)) as [Ls' [e1|]] eqn:Erem; [discriminate|].
  destruct (get_well_composition Ls' (well_id 0 col)) as [c|e1]; [|discriminate].
  destruct (nth_error (st_lw (set_lw s ks Ls')) kd) as [Ld1|] eqn:HLd1; [|discriminate].
  destruct (add Ld1 (A1 dw) (A0 (XQ v)) (d_label a) (Some (repeat (Some c) (length ps))))
    as [Ld' [e2|]] eqn:Eadd; [discriminate|].
  set (s2 := set_lw (set_lw s ks Ls') kd Ld') in *.
  set (s2' := if (ks =? kd)%nat then condense_at s2 ks 2 (d_label a) else s2) in *.
  assert (Hw2' : st_wl s2' = st_wl s) by (unfold s2'; destruct (ks =? kd)%nat; rewrite ?st_wl_condense; reflexivity).
  destruct (comment (st_wl s2') (d_label a)) as [w1 [e3|]] eqn:Ec; [discriminate|].
  set (plast := last (p0 :: tl) p0) in *.
  set (excl := filter (fun z => negb (existsb (Z.eqb z) (p0 :: tl)))
                 (map (fun i => (p0 + Z.of_nat i)%Z) (seq 0 (Z.to_nat (plast - p0 + 1))))) in *.
  match type of H with context [reagent_distribution w1 ?x] => set (ra := x) in * end.
  destruct (reagent_distribution w1 ra) as [w2 e4] eqn:Er. injection H as <- ->.
  (* --- geometry of the source *)
  pose proof (wf_nth _ _ _ HS HLs) as HWs. pose proof (wf_nth _ _ _ HS HLd) as HWd.
  pose proof (wf_geom_nth _ _ _ HS HLs) as Hgs.
  destruct (n_row_ids_trough _ vr Hgs Ev) as [En Hvr].
  assert (Hdv : d = Evo \/ (d = Fluent /\ vr = 1%nat)).
  { destruct Hdev as [E|[E Hone]]; [left; exact E|right]. split; [exact E|].
    specialize (Hone Ls HLs). congruence. }
  pose proof (Hnd Ld ps HLd Eps) as NDps.
  (* --- the source removal *)
  destruct (remove_accepted _ _ _ _ _ Erem) as (L1s & _ & _ & Hruns & HLs').
  cbv zeta in Hruns. cbn [flattenF broadcast length repeat zip] in Hruns.
  apply rem_run_loop in Hruns. rewrite remove_loop_cons in Hruns.
  rewrite (trough_src_index Ls vr col Hgs Ev Ecol) in Hruns.
  destruct (Qltb (Qred (vol_at Ls col - q)) (lw_min Ls)) eqn:Echk; [discriminate|].
  cbn [remove_loop] in Hruns. injection Hruns as HL1s.
  (* --- the destination labware after the removal *)
  assert (HWs' : wf_labware Ls') by (apply (remove_wf' _ _ _ _ _ _ Erem); exact HWs).
  assert (HS1 : wf_state (set_lw s ks Ls')) by (apply wf_set_lw; assumption).
  pose proof (wf_nth _ _ _ HS1 HLd1) as HWd1.
  assert (Hlims1 : same_lims Ld Ld1).
  { cbn [st_lw set_lw] in HLd1. destruct (Nat.eq_dec ks kd) as [<-|Hne].
    - rewrite nth_error_upd_same in HLd1 by (eapply nth_error_lt; exact HLs). injection HLd1 as <-.
      rewrite HLs in HLd. injection HLd as <-. apply (remove_any _ _ _ _ _ _ Erem).
    - rewrite nth_error_upd_other in HLd1 by exact Hne. rewrite HLd in HLd1. injection HLd1 as <-.
      apply same_lims_refl. }
  destruct Hlims1 as (N1 & G1 & _).
  pose proof (wf_shape_shape0 _ (proj1 HWd1)) as HS0d1.
  (* --- the tracked additions as a ledger *)
  destruct (add_accepted _ _ _ _ _ _ Eadd) as (items & L1d & Hmap & _ & Hoka & Hrund & HLd').
  cbn [flattenF broadcast] in Hmap. fold dw in Hmap.
  destruct (add_run_ledger _ _ _ _ Hrund eq_refl HS0d1) as (evs & Hev & HJ).
  rewrite Hmap in Hev. rewrite <- G1 in Eps.
  destruct (events_of_positions d Ld1 v HS0d1 Hd dw ps evs Eps Hev) as [-> HFps].
  pose proof (add_wf' _ _ _ _ _ _ _ Eadd HWd1) as HWd'.
  destruct (add_any _ _ _ _ _ _ _ Eadd) as [Hlimsd _].
  (* --- the record *)
  destruct (comment_spec _ _ _ _ Ec) as (ls & Hw1 & _). rewrite Hw2' in Hw1.
  pose proof (reagent_distribution_spec _ _ _ _ Er) as Hspec. cbv beta iota in Hspec.
  destruct Hspec as (f & v' & Hwr & F1 & F2 & F3 & F4 & F5 & F6 & F7 & F8 & F9 & F10 & F11).
  unfold ra in F1, F2, F3, F4, F5, F6, F7, F8.
  cbn [rd_src_label rd_dst_label rd_src_start rd_src_end rd_dst_start rd_dst_end rd_exclude rd_volume] in *.
  injection F1 as F1. injection F2 as F2. injection F3 as F3. injection F4 as F4.
  injection F5 as F5. injection F6 as F6.
  rewrite En in F3, F4.
  assert (F3' : Z.to_nat (r_src_start f) = (1 + vr * col)%nat) by (rewrite <- F3; exact (Nat2Z.id (1 + vr * col))).
  assert (F4' : Z.to_nat (r_src_end f) = (1 + vr * col + vr - 1)%nat) by (rewrite <- F4; exact (Nat2Z.id (1 + vr * col + vr - 1))).
  assert (Hv' : v' = v).
  { destruct (d_volume a) as [z|x|]; cbn [rvol_pvol rvol_x] in *; congruence. }
  rewrite Hv' in F8, F9, F10, F11. clear Hv' v'.
  (* --- destination positions as the interpreter computes them *)
  pose proof (dsts_perm ps p0 tl NDps Esort) as Hperm. cbv zeta in Hperm. fold plast excl in Hperm.
  match type of Hperm with Permutation ?x _ => set (dsts := x) in * end.
  pose proof (Permutation_length Hperm) as Hlen.
  (* --- the robot: source *)
  destruct (find_rack_sim _ _ _ _ Hsim ND HLs) as (r & Hf & Hr & Hrs).
  pose proof Hrs as (R1 & R2 & R3 & R4 & R5).
  set (total := v * inject_Z (Z.of_nat (length dsts))).
  set (rb1 := with_rack rb ks (set_rack_vol r col (nth col (rk_vols r) 0 - total)) (Some (fractions_at r col))).
  assert (Hqt : q == total) by (unfold q, total; rewrite Qred_correct, Hlen; reflexivity).
  assert (Hsim1 : sim_racks (upd (st_lw s) ks Ls') (rb_racks rb1)).
  { apply (sim_racks_upd_obs _ _ _ (rem_one Ls col q)); [|rewrite HLs', <- HL1s; apply log_obs].
    unfold rb1, with_rack. cbn [rb_racks]. apply Forall2_upd; [exact Hsim|].
    apply rack_sim_rem_one'; assumption. }
  assert (ND1 : NoDup (map lw_name (upd (st_lw s) ks Ls'))).
  { rewrite (names_upd _ _ Ls); [exact ND|exact HLs|apply (remove_any _ _ _ _ _ _ Erem)]. }
  (* --- the robot: destinations *)
  set (u := uidx d (lw_geom Ld1)) in *.
  assert (HFd : Forall2 (fun p i => unpos d (lw_geom Ld1) p = Some i /\ (i < length (lw_vols Ld1))%nat)
                  dsts (map u dsts)) by (eapply Forall2_map_perm; eassumption).
  assert (Hdelta : forall j, delta (evs_of v (map u dsts)) j == delta (evs_of v (map u ps)) j).
  { intro j. apply delta_perm. unfold evs_of. apply Permutation_map. apply Permutation_map. exact Hperm. }
  assert (Hbound : forall j, vol_at Ld1 j + delta (evs_of v (map u dsts)) j <= lw_max Ld1).
  { intro j. rewrite Hdelta, <- HJ. destruct Hlimsd as (_ & _ & _ & M4 & _). rewrite <- M4.
    pose proof (vol_at_range Ld' j (proj2 HWd')) as [_ B].
    assert (E : vol_at Ld' j = vol_at L1d j) by (rewrite HLd'; reflexivity). rewrite <- E. exact B. }
  cbn [st_lw set_lw] in HLd1.
  destruct (dispense_all_idx true d kd v F10 dsts (map u dsts) Ld1 _ rb1 HFd Hsim1 ND1 HLd1 Hbound)
    as (rb' & L' & Hdall & Hsim' & Hfr' & Hvol').
  assert (Hsim2 : sim_racks (st_lw s2) (rb_racks rb')).
  { unfold s2. cbn [st_lw set_lw]. apply (sim_racks_upd_rel _ _ _ L'); [exact Hsim'|].
    intros r0 Hr0. apply (rack_sim_vols_eq L'); [exact Hr0| |].
    - eapply same_lims_trans; [apply same_lims_sym, same_frame_lims; exact Hfr'|exact Hlimsd].
    - intro j. rewrite Hvol', Hdelta, HLd'. apply HJ. }
  (* --- assemble *)
  exists (map RC ls ++ [RR f])%list, rb'. cbn [st_wl set_wl].
  split; [rewrite Hwr, Hw1, emit_emit; reflexivity|]. split.
  - rewrite interp_app, interp_RC. cbn [interp interp1].
    assert (Hdo : do_reagent true d rb f = Some rb'); [|rewrite Hdo; reflexivity].
    unfold do_reagent. rewrite <- F1, Hf, Hr, F3', F4', R2.
    rewrite (range_index_src d (lw_geom Ls) vr col Hgs Ev Ecol Hdv).
    rewrite <- F5, <- F6, F7, F9. fold dsts. fold total.
    assert (Echk' : Qltb (nth col (rk_vols r) 0 - total) (rk_min r) = false).
    { rewrite <- Echk. apply Qltb_compat; [|rewrite R3; reflexivity].
      rewrite Qred_correct, Hqt. unfold vol_at. rewrite (Forall2_Qeq_nth _ _ col R5). reflexivity. }
    rewrite Echk'. cbn [andb]. fold rb1. rewrite <- F2, <- N1. exact Hdall.
  - unfold sim. cbn [st_lw set_wl]. unfold s2'. destruct (ks =? kd)%nat; [apply sim_condense_at|]; exact Hsim2.
Qed.

Theorem distribute_replay s ks kd dwells a s' e rb :
  good_state s -> sim s rb -> distribute_dev_ok s ks -> dst_positions_distinct s kd dwells ->
  distribute s ks kd dwells a = (s', e) ->
  exists new rb', st_wl s' = emit (st_wl s) new /\
    interp true (w_dev (st_wl s)) rb new = Some rb' /\
    (e = None -> sim s' rb') /\ (e <> None -> sim s rb' /\ forallb quiet new = true).
Proof.
  intros Hgood Hsim Hdev Hnd H. destruct e as [e|].
  - destruct (distribute_quiet_fail _ _ _ _ _ _ _ H) as (new & Hw & _ & Hq).
    specialize (Hq ltac:(discriminate)).
    destruct (interp_quiet true (w_dev (st_wl s)) new rb Hq) as (rb' & A & B).
    exists new, rb'. split; [exact Hw|]. split; [exact A|]. split; [discriminate|].
    intros _. split; [|exact Hq]. unfold sim. rewrite B. exact Hsim.
  - destruct (distribute_success _ _ _ _ _ _ _ Hgood Hsim Hdev Hnd H) as (new & rb' & A & B & C).
    exists new, rb'. split; [exact A|]. split; [exact B|]. split; [intros _; exact C|congruence].
Qed.

(* ------------------------------------------------------------------ programs *)

(** the worklist operations of a program: the four pipetting calls and the record-only calls *)
Definition wl_op (o : op) : bool :=
  match o with
  | OAspirate _ _ _ _ _ | ODispense _ _ _ _ _ _ | OTransfer _ _ _ _ _ _ _ _ _ | ODistribute _ _ _ _
  | OComment _ | OWash _ | ODecon | OFlush | OCommit | OSetDiti _ => true
  | _ => false
  end.

(** side conditions of [distribute]: EVO numbering of the source range (or a one-row trough on Fluent),
    destination positions pairwise distinct; they only depend on device and geometry *)
Definition op_ok (s : state) (o : op) : Prop :=
  match o with
  | ODistribute ks kd dwells _ => distribute_dev_ok s ks /\ dst_positions_distinct s kd dwells
  | _ => True
  end.

Lemma on_wl_replay s f s' e rb :
  (forall w w' e, f w = (w', e) -> exists new, w' = emit w new /\ forallb quiet new = true) ->
  sim s rb -> on_wl s f = (s', e) ->
  exists new rb', st_wl s' = emit (st_wl s) new /\
    interp true (w_dev (st_wl s)) rb new = Some rb' /\ sim s' rb'.
Proof.
  intros Hf Hsim H. unfold on_wl in H. destruct (f (st_wl s)) as [w e0] eqn:E. injection H as <- <-.
  destruct (Hf _ _ _ E) as (new & Hw & Hq).
  destruct (quiet_replay true s w new rb Hsim Hw Hq) as (rb' & A & B).
  exists new, rb'. split; [exact Hw|]. split; [exact A|exact B].
Qed.

Theorem step_replay s o s' e rb :
  good_state s -> sim s rb -> wl_op o = true -> op_ok s o -> step s o = (s', e) ->
  exists new rb', st_wl s' = emit (st_wl s) new /\
    interp true (w_dev (st_wl s)) rb new = Some rb' /\ (e = None -> sim s' rb').
Proof.
  intros Hgood Hsim Hop Hok H.
  destruct o as [k wells vols label comps|k wells vols label|k n label|k wells vols label kw
                |k wells vols label comps kw|ks swells kd dwells vols label ws pb kw|ks kd dwells a
                |c|sch| | | |i|a|a|a|k a label|k a label comps|a]; try discriminate; cbn [step] in H.
  - destruct (aspirate_replay _ _ _ _ _ _ _ _ _ Hgood Hsim H) as (new & rb' & A & B & C & _).
    exists new, rb'. split; [exact A|]. split; [exact B|exact C].
  - destruct (dispense_replay _ _ _ _ _ _ _ _ _ _ Hgood Hsim H) as (new & rb' & A & B & C & _).
    exists new, rb'. split; [exact A|]. split; [exact B|exact C].
  - eapply transfer_replay; eassumption.
  - destruct Hok as [Hdev Hnd].
    destruct (distribute_replay _ _ _ _ _ _ _ _ Hgood Hsim Hdev Hnd H) as (new & rb' & A & B & C & _).
    exists new, rb'. split; [exact A|]. split; [exact B|exact C].
  - destruct (on_wl_replay s _ s' e rb (fun w w' e0 => comment_quiet w c w' e0) Hsim H) as (new & rb' & A & B & C).
    exists new, rb'. split; [exact A|]. split; [exact B|intros _; exact C].
  - destruct (on_wl_replay s _ s' e rb (fun w w' e0 => wash_spec w sch w' e0) Hsim H) as (new & rb' & A & B & C).
    exists new, rb'. split; [exact A|]. split; [exact B|intros _; exact C].
  - destruct (on_wl_replay s _ s' e rb decontaminate_spec Hsim H) as (new & rb' & A & B & C).
    exists new, rb'. split; [exact A|]. split; [exact B|intros _; exact C].
  - destruct (on_wl_replay s _ s' e rb flush_spec Hsim H) as (new & rb' & A & B & C).
    exists new, rb'. split; [exact A|]. split; [exact B|intros _; exact C].
  - destruct (on_wl_replay s _ s' e rb commit_spec Hsim H) as (new & rb' & A & B & C).
    exists new, rb'. split; [exact A|]. split; [exact B|intros _; exact C].
  - destruct (on_wl_replay s _ s' e rb (fun w w' e0 => set_diti_spec w i w' e0) Hsim H) as (new & rb' & A & B & C).
    exists new, rb'. split; [exact A|]. split; [exact B|intros _; exact C].
Qed.

(** [op_ok] only looks at the device and the geometries *)
Lemma op_ok_transport s0 s o : w_dev (st_wl s) = w_dev (st_wl s0) ->
  map lw_geom (st_lw s) = map lw_geom (st_lw s0) -> op_ok s0 o -> op_ok s o.
Proof.
  intros Hd Hg. destruct o; cbn [op_ok]; try (intros; exact I).
  assert (Hnth : forall k L, nth_error (st_lw s) k = Some L ->
            exists L0, nth_error (st_lw s0) k = Some L0 /\ lw_geom L0 = lw_geom L).
  { intros k L HL. pose proof (map_nth_error lw_geom _ _ HL) as H1. rewrite Hg in H1.
    destruct (nth_error (st_lw s0) k) as [L0|] eqn:E.
    - rewrite (map_nth_error lw_geom _ _ E) in H1. injection H1 as H1. exists L0. split; [reflexivity|exact H1].
    - apply nth_error_None in E. assert (Hlt : (k < length (map lw_geom (st_lw s0)))%nat)
        by (apply nth_error_Some; congruence). rewrite map_length in Hlt. lia. }
  intros [Hdev Hnd]. split.
  - destruct Hdev as [E|[E Hone]]; [left; congruence|right]. split; [congruence|].
    intros Ls HLs. destruct (Hnth _ _ HLs) as (L0 & HL0 & <-). apply Hone. exact HL0.
  - intros Ld ps HLd Hps. destruct (Hnth _ _ HLd) as (L0 & HL0 & Hg0).
    apply (Hnd L0 ps HL0). rewrite <- Hd, Hg0. exact Hps.
Qed.

Lemma run_cons s o r : run s (o :: r) =
  (fst (run (fst (step s o)) r), snd (step s o) :: snd (run (fst (step s o)) r)).
Proof.
  cbn [run]. destruct (step s o) as [s1 e]. cbn [fst snd]. destruct (run s1 r) as [s2 es]. reflexivity.
Qed.

Lemma run_app a : forall s b, run s (a ++ b) =
  (fst (run (fst (run s a)) b), (snd (run s a) ++ snd (run (fst (run s a)) b))%list).
Proof.
  induction a as [|o r IH]; intros s b.
  - cbn [app run fst snd]. destruct (run s b). reflexivity.
  - rewrite <- app_comm_cons, !run_cons, IH. cbn [fst snd]. reflexivity.
Qed.

Lemma step_wf' s o s' e : step s o = (s', e) -> wf_state s -> wf_state s'.
Proof. intros H HS. pose proof (step_wf s o HS) as H1. rewrite H in H1. exact H1. Qed.

(** all calls of the program succeed: the accumulated records replay to the tracked state *)
Theorem run_replay s0 ops : forall s rb,
  good_state s -> sim s rb -> w_dev (st_wl s) = w_dev (st_wl s0) ->
  map lw_geom (st_lw s) = map lw_geom (st_lw s0) ->
  forallb wl_op ops = true -> Forall (op_ok s0) ops ->
  Forall (fun e => e = None) (snd (run s ops)) ->
  exists new rb', st_wl (fst (run s ops)) = emit (st_wl s) new /\
    interp true (w_dev (st_wl s)) rb new = Some rb' /\ sim (fst (run s ops)) rb' /\
    good_state (fst (run s ops)) /\ w_dev (st_wl (fst (run s ops))) = w_dev (st_wl s0) /\
    map lw_geom (st_lw (fst (run s ops))) = map lw_geom (st_lw s0).
Proof.
  induction ops as [|o r IH]; intros s rb Hgood Hsim Hd Hg Hops Hok Hall.
  - exists [], rb. cbn [run fst]. rewrite emit_nil. repeat (split; [assumption || reflexivity|]). assumption.
  - rewrite run_cons in *. cbn [fst snd] in *. cbn [forallb] in Hops. apply andb_true_iff in Hops.
    destruct Hops as [Ho Hr]. inversion Hok as [|o' r' Hoko Hokr]; subst.
    inversion Hall as [|e' es' He Hes]; subst.
    destruct (step s o) as [s1 e1] eqn:Es. cbn [fst snd] in *. subst e1.
    destruct (step_replay _ _ _ _ _ Hgood Hsim Ho (op_ok_transport _ _ _ Hd Hg Hoko) Es)
      as (n1 & rb1 & W1 & I1 & S1).
    pose proof (S1 eq_refl) as Hs1.
    pose proof (step_wf' _ _ _ _ Es (proj1 Hgood)) as HS1.
    destruct (good_next _ _ _ _ _ _ Hgood Hsim W1 I1 Hs1 HS1) as [Hgood1 Hdev1].
    assert (Hg1 : map lw_geom (st_lw s1) = map lw_geom (st_lw s0)).
    { rewrite <- (sim_geoms _ _ Hs1), (interp_geoms _ _ _ _ _ I1), (sim_geoms _ _ Hsim). exact Hg. }
    assert (Hd1 : w_dev (st_wl s1) = w_dev (st_wl s0)) by congruence.
    destruct (IH s1 rb1 Hgood1 Hs1 Hd1 Hg1 Hr Hokr Hes) as (n2 & rb2 & W2 & I2 & S2 & G2 & D2 & M2).
    rewrite Hdev1 in I2.
    exists (n1 ++ n2)%list, rb2. split; [rewrite W2, W1, emit_emit; reflexivity|].
    split; [rewrite interp_app, I1; exact I2|]. repeat (split; [assumption|]). assumption.
Qed.

Theorem run_refines s0 ops :
  good_state s0 -> w_recs (st_wl s0) = [] ->
  forallb wl_op ops = true -> Forall (op_ok s0) ops ->
  Forall (fun e => e = None) (snd (run s0 ops)) ->
  exists rb, interp false (w_dev (st_wl s0)) (robot_of (st_lw s0)) (w_recs (st_wl (fst (run s0 ops)))) = Some rb /\
             sim (fst (run s0 ops)) rb.
Proof.
  intros Hgood Hrecs Hops Hok Hall.
  destruct (run_replay s0 ops s0 _ Hgood (sim_robot_of s0) eq_refl eq_refl Hops Hok Hall)
    as (new & rb & W & I & S & _).
  exists rb. rewrite W. cbn [w_recs emit]. rewrite Hrecs. cbn [app].
  split; [apply interp_unchecked; exact I|exact S].
Qed.

(** C03_prefix_safe: all calls but the last succeed, the last one is arbitrary *)
Theorem prefix_safe s0 ops0 o :
  good_state s0 -> w_recs (st_wl s0) = [] ->
  forallb wl_op (ops0 ++ [o]) = true -> Forall (op_ok s0) (ops0 ++ [o]) ->
  Forall (fun e => e = None) (snd (run s0 ops0)) ->
  exists rb, interp true (w_dev (st_wl s0)) (robot_of (st_lw s0))
               (w_recs (st_wl (fst (run s0 (ops0 ++ [o]))))) = Some rb.
Proof.
  intros Hgood Hrecs Hops Hok Hall.
  rewrite forallb_app in Hops. apply andb_true_iff in Hops. destruct Hops as [Hops0 Hopo].
  cbn [forallb] in Hopo. rewrite andb_true_r in Hopo.
  apply Forall_app in Hok. destruct Hok as [Hok0 Hoko]. inversion Hoko as [|o' r' Hoko' _]; subst.
  destruct (run_replay s0 ops0 s0 _ Hgood (sim_robot_of s0) eq_refl eq_refl Hops0 Hok0 Hall)
    as (n1 & rb1 & W1 & I1 & S1 & G1 & D1 & M1).
  rewrite run_app. cbn [fst]. set (s1 := fst (run s0 ops0)) in *.
  cbn [run]. destruct (step s1 o) as [s2 e2] eqn:Es. cbn [fst].
  destruct (step_replay _ _ _ _ _ G1 S1 Hopo (op_ok_transport _ _ _ D1 M1 Hoko') Es)
    as (n2 & rb2 & W2 & I2 & _).
  exists rb2. rewrite W2, W1, emit_emit. cbn [w_recs emit]. rewrite Hrecs. cbn [app].
  rewrite interp_app, I1. rewrite D1 in I2. exact I2.
Qed.

(* ------------------------------------------------------------------ C03: no step above the worklist's max_volume *)

Definition bounded_rec (m : Q) (r : srec) : Prop :=
  match r with RA f | RD f => 0 <= ad_volume f /\ ad_volume f <= m | _ => True end.

(** [w'] is [w] with more records, every new A / D record within [0, w_max w] *)
Definition emits_bounded (w w' : wstate) : Prop :=
  exists new, w' = emit w new /\ Forall (bounded_rec (w_max w)) new.

Lemma emits_bounded_refl w : emits_bounded w w.
Proof. exists []. rewrite emit_nil. split; [reflexivity|constructor]. Qed.

Lemma emits_bounded_trans w1 w2 w3 : emits_bounded w1 w2 -> emits_bounded w2 w3 -> emits_bounded w1 w3.
Proof.
  intros (n1 & -> & B1) (n2 & -> & B2). exists (n1 ++ n2)%list. rewrite emit_emit. split; [reflexivity|].
  apply Forall_app. split; [exact B1|exact B2].
Qed.

Lemma no_ad_bounded m new : forallb no_ad new = true -> Forall (bounded_rec m) new.
Proof.
  intro H. apply Forall_forall. intros r Hin. rewrite forallb_forall in H. specialize (H r Hin).
  destruct r; try exact I; discriminate.
Qed.

Lemma emits_no_ad w w' new : w' = emit w new -> forallb no_ad new = true -> emits_bounded w w'.
Proof. intros -> H. exists new. split; [reflexivity|apply no_ad_bounded; exact H]. Qed.

Lemma emits_quiet w w' : (exists new, w' = emit w new /\ forallb quiet new = true) -> emits_bounded w w'.
Proof. intros (new & Hw & Hq). eapply emits_no_ad; [exact Hw|apply quiet_no_ad; exact Hq]. Qed.

(** C03_steps_bounded, one record *)
Lemma aspirate_well_bounded w a w' e : aspirate_well w a = (w', e) ->
  match e with
  | None => exists f, w' = emit w [RA f] /\ 0 <= ad_volume f /\ ad_volume f <= w_max w
  | Some _ => w' = w
  end.
Proof.
  unfold aspirate_well. destruct (prepare_ad a (Some (w_max w))) as [f|e0] eqn:E; intro H; injection H as <- <-.
  - exists f. destruct (prepare_ad_fields _ _ _ E) as (_ & _ & _ & _ & H1 & H2). repeat split; assumption.
  - reflexivity.
Qed.

Lemma dispense_well_bounded w a w' e : dispense_well w a = (w', e) ->
  match e with
  | None => exists f, w' = emit w [RD f] /\ 0 <= ad_volume f /\ ad_volume f <= w_max w
  | Some _ => w' = w
  end.
Proof.
  unfold dispense_well. destruct (prepare_ad a (Some (w_max w))) as [f|e0] eqn:E; intro H; injection H as <- <-.
  - exists f. destruct (prepare_ad_fields _ _ _ E) as (_ & _ & _ & _ & H1 & H2). repeat split; assumption.
  - reflexivity.
Qed.

Lemma aspirate_well_emits w a w' e : aspirate_well w a = (w', e) -> emits_bounded w w'.
Proof.
  intro H. apply aspirate_well_bounded in H. destruct e as [e|].
  - subst. apply emits_bounded_refl.
  - destruct H as (f & -> & H1 & H2). exists [RA f]. split; [reflexivity|]. constructor; [split; assumption|constructor].
Qed.

Lemma dispense_well_emits w a w' e : dispense_well w a = (w', e) -> emits_bounded w w'.
Proof.
  intro H. apply dispense_well_bounded in H. destruct e as [e|].
  - subst. apply emits_bounded_refl.
  - destruct H as (f & -> & H1 & H2). exists [RD f]. split; [reflexivity|]. constructor; [split; assumption|constructor].
Qed.

(** C03_no_split_refused: a volume above the worklist's max_volume is refused with InvalidOperationError
    (when every other argument is acceptable) and nothing is appended *)
Lemma aspirate_well_refused w a v f0 : x_volume a = PV (XQ v) -> w_max w < v ->
  prepare_ad a None = Ok f0 -> aspirate_well w a = (w, Some EInvalidOp).
Proof.
  intros Hv Hlt H0. unfold aspirate_well, prepare_ad in *.
  destruct (text_ok true (x_rack_label a)) as [label|]; [|discriminate].
  destruct (check_position (x_position a)) as [pos|e2]; [|discriminate].
  rewrite Hv in *. unfold check_volume in *.
  destruct (Qltb v 0); [discriminate|]. destruct (Qgtb v max_tecan_volume); [discriminate|].
  rewrite (Qgtb_true_intro _ _ Hlt). reflexivity.
Qed.

Lemma dispense_well_refused w a v f0 : x_volume a = PV (XQ v) -> w_max w < v ->
  prepare_ad a None = Ok f0 -> dispense_well w a = (w, Some EInvalidOp).
Proof.
  intros Hv Hlt H0. unfold dispense_well, prepare_ad in *.
  destruct (text_ok true (x_rack_label a)) as [label|]; [|discriminate].
  destruct (check_position (x_position a)) as [pos|e2]; [|discriminate].
  rewrite Hv in *. unfold check_volume in *.
  destruct (Qltb v 0); [discriminate|]. destruct (Qgtb v max_tecan_volume); [discriminate|].
  rewrite (Qgtb_true_intro _ _ Hlt). reflexivity.
Qed.

(** whatever the other arguments are: above max_volume nothing is appended *)
Lemma aspirate_well_over_nothing w a v : x_volume a = PV (XQ v) -> w_max w < v ->
  exists e, aspirate_well w a = (w, Some e).
Proof.
  intros Hv Hlt. destruct (aspirate_well w a) as [w' [e|]] eqn:E.
  - pose proof (aspirate_well_bounded _ _ _ _ E) as H. cbv beta iota in H. subst w'. exists e. reflexivity.
  - exfalso. unfold aspirate_well in E. destruct (prepare_ad a (Some (w_max w))) as [f|e0] eqn:Ep; [|discriminate].
    destruct (prepare_ad_fields _ _ _ Ep) as (_ & _ & _ & F & _ & Hle). rewrite Hv in F. injection F as F.
    rewrite <- F in Hle. lra.
Qed.

Lemma emit_wells_emits asp kw L : forall items w w' e,
  emit_wells asp w L items kw = (w', e) -> emits_bounded w w'.
Proof.
  induction items as [|[well x] rest IH]; intros w w' e H; cbn [emit_wells] in H.
  - injection H as <- <-. apply emits_bounded_refl.
  - destruct (xpos x); [|eapply IH; exact H].
    destruct (device_position (w_dev w) (lw_geom L) well) as [pos|e0]; [|injection H as <- <-; apply emits_bounded_refl].
    destruct ((if asp then aspirate_well else dispense_well) w (ad_of_kw (lw_name L) pos (xq x) kw))
      as [w1 e1] eqn:E1.
    assert (H1 : emits_bounded w w1)
      by (destruct asp; [eapply aspirate_well_emits|eapply dispense_well_emits]; exact E1).
    destruct e1 as [e1|]; [injection H as <- <-; exact H1|].
    eapply emits_bounded_trans; [exact H1|eapply IH; exact H].
Qed.

Lemma aspirate_emits s k wells vols label kw s' e :
  aspirate s k wells vols label kw = (s', e) -> emits_bounded (st_wl s) (st_wl s').
Proof.
  unfold aspirate, wells_vols. cbv zeta. intro H.
  destruct (nth_error (st_lw s) k) as [L|]; [|injection H as <- <-; apply emits_bounded_refl].
  cbv beta iota in H. destruct (remove L _ _ label) as [L' [e1|]]; [injection H as <- <-; apply emits_bounded_refl|].
  cbn [st_wl set_lw] in H. destruct (comment (st_wl s) label) as [w e2] eqn:Ec.
  pose proof (emits_quiet _ _ (comment_quiet _ _ _ _ Ec)) as H1.
  destruct e2 as [e2|]; [injection H as <- <-; exact H1|].
  destruct (emit_wells true w L' _ kw) as [w' e3] eqn:Ee. injection H as <- <-. cbn [st_wl set_wl].
  eapply emits_bounded_trans; [exact H1|eapply emit_wells_emits; exact Ee].
Qed.

Lemma dispense_emits s k wells vols label comps kw s' e :
  dispense s k wells vols label comps kw = (s', e) -> emits_bounded (st_wl s) (st_wl s').
Proof.
  unfold dispense, wells_vols. cbv zeta. intro H.
  destruct (nth_error (st_lw s) k) as [L|]; [|injection H as <- <-; apply emits_bounded_refl].
  cbv beta iota in H. destruct (add L _ _ label comps) as [L' [e1|]]; [injection H as <- <-; apply emits_bounded_refl|].
  cbn [st_wl set_lw] in H. destruct (comment (st_wl s) label) as [w e2] eqn:Ec.
  pose proof (emits_quiet _ _ (comment_quiet _ _ _ _ Ec)) as H1.
  destruct e2 as [e2|]; [injection H as <- <-; exact H1|].
  destruct (emit_wells false w L' _ kw) as [w' e3] eqn:Ee. injection H as <- <-. cbn [st_wl set_wl].
  eapply emits_bounded_trans; [exact H1|eapply emit_wells_emits; exact Ee].
Qed.

Lemma exec_step_emits s ks kd sw dw v ws kw s' e :
  exec_step s ks kd sw dw v ws kw = (s', e) -> emits_bounded (st_wl s) (st_wl s').
Proof.
  unfold exec_step. intro H.
  destruct (aspirate s ks (A0 sw) (A0 (XQ v)) None kw) as [s1 e1] eqn:Ea.
  pose proof (aspirate_emits _ _ _ _ _ _ _ _ Ea) as H1.
  destruct e1 as [e1|]; [injection H as <- <-; exact H1|].
  destruct (nth_error (st_lw s1) ks) as [Ls|]; [|injection H as <- <-; exact H1].
  destruct (get_well_composition Ls sw) as [c|e2]; [|injection H as <- <-; exact H1].
  destruct (dispense s1 kd (A0 dw) (A0 (XQ v)) None (Some [Some c]) kw) as [s2 e3] eqn:Ed.
  pose proof (emits_bounded_trans _ _ _ H1 (dispense_emits _ _ _ _ _ _ _ _ _ Ed)) as H2.
  destruct e3 as [e3|]; [injection H as <- <-; exact H2|].
  destruct (tip_action (st_wl s2) ws) as [w e4] eqn:Et. injection H as <- <-. cbn [st_wl set_wl].
  eapply emits_bounded_trans; [exact H2|]. apply emits_quiet. eapply tip_action_spec. exact Et.
Qed.

Lemma exec_emits ks kd ws kw acts : forall s s' e,
  exec s ks kd acts ws kw = (s', e) -> emits_bounded (st_wl s) (st_wl s').
Proof.
  induction acts as [|a rest IH]; intros s s' e H; cbn [exec] in H.
  - injection H as <- <-. apply emits_bounded_refl.
  - destruct a as [sw dw v|].
    + destruct (exec_step s ks kd sw dw v ws kw) as [s1 e1] eqn:Es.
      pose proof (exec_step_emits _ _ _ _ _ _ _ _ _ _ Es) as H1.
      destruct e1 as [e1|]; [injection H as <- <-; exact H1|].
      eapply emits_bounded_trans; [exact H1|eapply IH; exact H].
    + apply IH in H. cbn [st_wl set_wl commit fst] in H.
      eapply emits_bounded_trans; [|exact H]. exists [RB]. split; [reflexivity|]. constructor; [exact I|constructor].
Qed.

Lemma transfer_emits s ks swells kd dwells vols label ws pb kw s' e :
  transfer s ks swells kd dwells vols label ws pb kw = (s', e) -> emits_bounded (st_wl s) (st_wl s').
Proof.
  unfold transfer. cbv zeta. intro H.
  assert (Hstop : forall e0, (s, Some e0) = (s', e) -> emits_bounded (st_wl s) (st_wl s'))
    by (intros e0 E; injection E as <- <-; apply emits_bounded_refl).
  destruct (w_dev (st_wl s)); try apply (Hstop _ H).
  all: destruct (nth_error (st_lw s) ks) as [Ls|]; [|apply (Hstop _ H)];
    destruct (nth_error (st_lw s) kd) as [Ld|]; [|apply (Hstop _ H)];
    destruct (negb _); [apply (Hstop _ H)|];
    destruct (existsb _ _); [apply (Hstop _ H)|];
    destruct (_ || _); [apply (Hstop _ H)|];
    destruct (optimize_partition_by _ _ pb) as [mode|e0]; [|apply (Hstop _ H)];
    destruct (comment (st_wl s) label) as [w e1] eqn:Ec;
    pose proof (emits_quiet _ _ (comment_quiet _ _ _ _ Ec)) as H1;
    (destruct e1 as [e1|]; [injection H as <- <-; exact H1|]);
    match type of H with context [exec ?st ?k1 ?k2 ?a ?sc ?kk] =>
      destruct (exec st k1 k2 a sc kk) as [s1 e2] eqn:Ee end;
    pose proof (emits_bounded_trans _ _ _ H1 (exec_emits _ _ _ _ _ _ _ _ Ee)) as H2;
    (destruct e2 as [e2|]; [injection H as <- <-; exact H2|]);
    destruct (ks =? kd)%nat; injection H as <- <-; rewrite ?st_wl_condense; exact H2.
Qed.

Lemma distribute_emits s ks kd dwells a s' e :
  distribute s ks kd dwells a = (s', e) -> emits_bounded (st_wl s) (st_wl s').
Proof.
  intro H. destruct (distribute_quiet_fail _ _ _ _ _ _ _ H) as (new & Hw & Hn & _).
  eapply emits_no_ad; eassumption.
Qed.

Lemma evo_aspirate_emits s k a label s' e :
  evo_aspirate s k a label = (s', e) -> emits_bounded (st_wl s) (st_wl s').
Proof.
  unfold evo_aspirate, wells_vols. cbv zeta. intro H.
  repeat match type of H with
         | context [match comment ?w ?l with _ => _ end] => destruct (comment w l) as [wc ec] eqn:Ec
         | context [match ?x with _ => _ end] => destruct x
         end;
    injection H as <- <-; cbn [st_wl set_wl set_lw]; try apply emits_bounded_refl;
    cbn [st_wl set_lw] in Ec; pose proof (emits_quiet _ _ (comment_quiet _ _ _ _ Ec)) as H1; try exact H1.
  eapply emits_bounded_trans; [exact H1|]. eexists. split; [reflexivity|]. constructor; [exact I|constructor].
Qed.

Lemma evo_dispense_emits s k a label comps s' e :
  evo_dispense s k a label comps = (s', e) -> emits_bounded (st_wl s) (st_wl s').
Proof.
  unfold evo_dispense, wells_vols. cbv zeta. intro H.
  repeat match type of H with
         | context [match comment ?w ?l with _ => _ end] => destruct (comment w l) as [wc ec] eqn:Ec
         | context [match ?x with _ => _ end] => destruct x
         end;
    injection H as <- <-; cbn [st_wl set_wl set_lw]; try apply emits_bounded_refl;
    cbn [st_wl set_lw] in Ec; pose proof (emits_quiet _ _ (comment_quiet _ _ _ _ Ec)) as H1; try exact H1.
  eapply emits_bounded_trans; [exact H1|]. eexists. split; [reflexivity|]. constructor; [exact I|constructor].
Qed.

Lemma evo_wash_emits s a s' e : evo_wash s a = (s', e) -> emits_bounded (st_wl s) (st_wl s').
Proof.
  unfold evo_wash. intro H. destruct (evo_wash_cmd a) as [cmd|e0]; injection H as <- <-.
  - eexists. split; [reflexivity|]. constructor; [exact I|constructor].
  - apply emits_bounded_refl.
Qed.

Lemma on_wl_emits s f s' e : (forall w w' e0, f w = (w', e0) -> emits_bounded w w') ->
  on_wl s f = (s', e) -> emits_bounded (st_wl s) (st_wl s').
Proof.
  intros Hf H. unfold on_wl in H. destruct (f (st_wl s)) as [w e0] eqn:E. injection H as <- <-.
  eapply Hf. exact E.
Qed.

Lemma on_lw_emits s k f s' e : on_lw s k f = (s', e) -> emits_bounded (st_wl s) (st_wl s').
Proof.
  unfold on_lw. intro H. destruct (nth_error (st_lw s) k) as [L|].
  - destruct (f L) as [L' e0]. injection H as <- <-. apply emits_bounded_refl.
  - injection H as <- <-. apply emits_bounded_refl.
Qed.

Lemma reagent_distribution_emits w a w' e : reagent_distribution w a = (w', e) -> emits_bounded w w'.
Proof.
  intro H. apply reagent_distribution_spec in H. destruct e as [e|].
  - subst. apply emits_bounded_refl.
  - destruct H as (f & v & -> & _). eexists. split; [reflexivity|]. constructor; [exact I|constructor].
Qed.

(** every operation of a program, accepted or rejected *)
Theorem step_emits s o s' e : step s o = (s', e) -> emits_bounded (st_wl s) (st_wl s').
Proof.
  destruct o as [k wells vols label comps|k wells vols label|k n label|k wells vols label kw
                |k wells vols label comps kw|ks swells kd dwells vols label ws pb kw|ks kd dwells a
                |c|sch| | | |i|a|a|a|k a label|k a label comps|a]; cbn [step]; intro H.
  - eapply on_lw_emits; exact H.
  - eapply on_lw_emits; exact H.
  - eapply on_lw_emits; exact H.
  - eapply aspirate_emits; exact H.
  - eapply dispense_emits; exact H.
  - eapply transfer_emits; exact H.
  - eapply distribute_emits; exact H.
  - eapply on_wl_emits; [|exact H]. intros w w' e0 E. apply emits_quiet. eapply comment_quiet. exact E.
  - eapply on_wl_emits; [|exact H]. intros w w' e0 E. apply emits_quiet. eapply wash_spec. exact E.
  - eapply on_wl_emits; [|exact H]. intros w w' e0 E. apply emits_quiet. eapply decontaminate_spec. exact E.
  - eapply on_wl_emits; [|exact H]. intros w w' e0 E. apply emits_quiet. eapply flush_spec. exact E.
  - eapply on_wl_emits; [|exact H]. intros w w' e0 E. apply emits_quiet. eapply commit_spec. exact E.
  - eapply on_wl_emits; [|exact H]. intros w w' e0 E. apply emits_quiet. eapply set_diti_spec. exact E.
  - eapply on_wl_emits; [|exact H]. intros w w' e0 E. eapply aspirate_well_emits. exact E.
  - eapply on_wl_emits; [|exact H]. intros w w' e0 E. eapply dispense_well_emits. exact E.
  - eapply on_wl_emits; [|exact H]. intros w w' e0 E. eapply reagent_distribution_emits. exact E.
  - destruct (w_dev (st_wl s)); try (injection H as <- <-; apply emits_bounded_refl).
    eapply evo_aspirate_emits; exact H.
  - destruct (w_dev (st_wl s)); try (injection H as <- <-; apply emits_bounded_refl).
    eapply evo_dispense_emits; exact H.
  - destruct (w_dev (st_wl s)); try (injection H as <- <-; apply emits_bounded_refl).
    eapply evo_wash_emits; exact H.
Qed.

Theorem run_emits ops : forall s, emits_bounded (st_wl s) (st_wl (fst (run s ops))).
Proof.
  induction ops as [|o r IH]; intro s.
  - cbn [run fst]. apply emits_bounded_refl.
  - rewrite run_cons. cbn [fst]. destruct (step s o) as [s1 e1] eqn:Es. cbn [fst].
    eapply emits_bounded_trans; [eapply step_emits; exact Es|apply IH].
Qed.

(** C03_steps_bounded for programs: starting from an empty worklist, every A / D record of every
    reachable worklist carries a volume in [0, max_volume] *)
Theorem run_steps_bounded s ops : w_recs (st_wl s) = [] ->
  w_max (st_wl (fst (run s ops))) = w_max (st_wl s) /\
  Forall (bounded_rec (w_max (st_wl s))) (w_recs (st_wl (fst (run s ops)))) /\
  step_volumes_le (w_max (st_wl s)) (w_recs (st_wl (fst (run s ops)))).
Proof.
  intro Hrecs. destruct (run_emits ops s) as (new & Hw & Hb). rewrite Hw. cbn [w_max w_recs emit].
  rewrite Hrecs. cbn [app]. split; [reflexivity|]. split; [exact Hb|].
  unfold step_volumes_le. eapply Forall_impl; [|exact Hb]. intros r Hr.
  destruct r; try exact I; apply Hr.
Qed.

(* ------------------------------------------------------------------ C01_addressing *)

(** the A / D record [r] addresses, on rack [name] with geometry [g], the well and volume of [wx] *)
Definition ad_addresses (d : device) (name : string) (g : geom) (asp : bool) (wx : string * xnum) (r : srec) : Prop :=
  exists f, r = (if asp then RA f else RD f) /\ ad_rack_label f = name /\
    device_position d g (fst wx) = Ok (Z.to_nat (ad_position f)) /\ (0 <= ad_position f)%Z /\
    xq (snd wx) = ad_volume f.

Lemma emit_wells_addressing asp kw L : forall items w w' e, emit_wells asp w L items kw = (w', e) ->
  exists new pre post, w' = emit w new /\
    filter (fun wx => xpos (snd wx)) items = (pre ++ post)%list /\ (e = None -> post = []) /\
    Forall2 (ad_addresses (w_dev w) (lw_name L) (lw_geom L) asp) pre new.
Proof.
  induction items as [|[well x] rest IH]; intros w w' e H; cbn [emit_wells] in H.
  - injection H as <- <-. exists [], [], []. rewrite emit_nil. repeat split; constructor.
  - cbn [filter snd].
    assert (Hstop : forall e0, (w, Some e0) = (w', e) -> xpos x = true ->
      exists new pre post, w' = emit w new /\
        (if xpos x then (well, x) :: filter (fun wx => xpos (snd wx)) rest
         else filter (fun wx => xpos (snd wx)) rest) = (pre ++ post)%list /\ (e = None -> post = []) /\
        Forall2 (ad_addresses (w_dev w) (lw_name L) (lw_geom L) asp) pre new).
    { intros e0 E Ex. injection E as <- <-. rewrite Ex. exists [], [], ((well, x) :: filter (fun wx => xpos (snd wx)) rest).
      rewrite emit_nil. split; [reflexivity|]. split; [reflexivity|]. split; [discriminate|constructor]. }
    destruct (xpos x) eqn:Ex; [|apply IH; exact H].
    destruct (device_position (w_dev w) (lw_geom L) well) as [pos|e0] eqn:Ep; [|apply (Hstop _ H eq_refl)].
    assert (Hrec : exists r, (forall f, prepare_ad (ad_of_kw (lw_name L) pos (xq x) kw) (Some (w_max w)) = Ok f ->
                     (if asp then aspirate_well else dispense_well) w (ad_of_kw (lw_name L) pos (xq x) kw)
                     = (emit w [if asp then RA f else RD f], None)) /\
                   (forall e1, prepare_ad (ad_of_kw (lw_name L) pos (xq x) kw) (Some (w_max w)) = Err e1 ->
                     (if asp then aspirate_well else dispense_well) w (ad_of_kw (lw_name L) pos (xq x) kw)
                     = (w, Some e1)) /\ r = tt).
    { exists tt. destruct asp; unfold aspirate_well, dispense_well; repeat split; intros f Hf; rewrite Hf; reflexivity. }
    destruct Hrec as (_ & Hok & Herr & _).
    destruct (prepare_ad (ad_of_kw (lw_name L) pos (xq x) kw) (Some (w_max w))) as [f|e1] eqn:Epa.
    + rewrite (Hok f eq_refl) in H.
      destruct (IH _ _ _ H) as (new & pre & post & Hw & Hf & Hn & HF).
      exists ((if asp then RA f else RD f) :: new), ((well, x) :: pre), post.
      split; [rewrite Hw, emit_emit; reflexivity|]. split; [rewrite Hf; reflexivity|]. split; [exact Hn|].
      constructor; [|exact HF].
      destruct (prepare_ad_kw _ _ _ _ _ _ Epa) as (F1 & F2 & F3 & F4 & _).
      exists f. cbn [fst snd]. split; [reflexivity|]. split; [exact F1|]. split; [rewrite F2; exact Ep|].
      split; [lia|symmetry; exact F4].
    + rewrite (Herr e1 eq_refl) in H. apply (Hstop _ H eq_refl).
Qed.

Lemma comment_None w : comment w None = (w, None).
Proof. reflexivity. Qed.

Theorem aspirate_addressing s k wells vols label kw s' e L :
  aspirate s k wells vols label kw = (s', e) -> nth_error (st_lw s) k = Some L ->
  exists ls new pre post, st_wl s' = emit (st_wl s) (map RC ls ++ new) /\ (label = None -> ls = []) /\
    filter (fun wx => xpos (snd wx))
           (zip (flattenF wells) (broadcast (flattenF vols) (length (flattenF wells)))) = (pre ++ post)%list /\
    (e = None -> post = []) /\
    Forall2 (ad_addresses (w_dev (st_wl s)) (lw_name L) (lw_geom L) true) pre new.
Proof.
  intros H HL. unfold aspirate, wells_vols in H. cbv zeta in H. rewrite HL in H. cbv beta iota in H.
  set (items := zip (flattenF wells) (broadcast (flattenF vols) (length (flattenF wells)))) in *.
  assert (Hstop : forall t e0, st_wl t = st_wl s -> (t, Some e0) = (s', e) ->
    exists ls new pre post, st_wl s' = emit (st_wl s) (map RC ls ++ new) /\ (label = None -> ls = []) /\
      filter (fun wx => xpos (snd wx)) items = (pre ++ post)%list /\ (e = None -> post = []) /\
      Forall2 (ad_addresses (w_dev (st_wl s)) (lw_name L) (lw_geom L) true) pre new).
  { intros t e0 Ht E. injection E as <- <-. exists [], [], [], (filter (fun wx => xpos (snd wx)) items).
    cbn [map app]. rewrite emit_nil. split; [exact Ht|]. split; [reflexivity|]. split; [reflexivity|].
    split; [discriminate|constructor]. }
  destruct (remove L _ _ label) as [L' [e1|]] eqn:Er; [apply (Hstop (set_lw s k L') _ eq_refl H)|].
  destruct (remove_any _ _ _ _ _ _ Er) as [(Hn & Hg & _) _].
  cbn [st_wl set_lw] in H. destruct (comment (st_wl s) label) as [w e2] eqn:Ec.
  destruct (comment_spec _ _ _ _ Ec) as (ls & Hw & Hls).
  destruct e2 as [e2|].
  { rewrite (Hls ltac:(discriminate)) in Hw. cbn [map] in Hw. rewrite emit_nil in Hw.
    apply (Hstop (set_wl (set_lw s k L') w) _ Hw H). }
  destruct (emit_wells true w L' items kw) as [w' e3] eqn:Ee. injection H as <- <-.
  destruct (emit_wells_addressing _ _ _ _ _ _ _ Ee) as (new & pre & post & Hw' & Hf & Hn' & HF).
  exists ls, new, pre, post. cbn [st_wl set_wl]. split; [rewrite Hw', Hw, emit_emit; reflexivity|].
  split.
  { intros ->. rewrite comment_None in Ec. injection Ec as Ec. rewrite <- Ec in Hw.
    destruct ls as [|l r]; [reflexivity|]. exfalso. apply (f_equal w_recs) in Hw. cbn [w_recs emit map] in Hw.
    apply (f_equal (@length srec)) in Hw. rewrite app_length in Hw. cbn [length] in Hw. lia. }
  split; [exact Hf|]. split; [exact Hn'|]. rewrite Hn, Hg, Hw in HF. exact HF.
Qed.

Theorem dispense_addressing s k wells vols label comps kw s' e L :
  dispense s k wells vols label comps kw = (s', e) -> nth_error (st_lw s) k = Some L ->
  exists ls new pre post, st_wl s' = emit (st_wl s) (map RC ls ++ new) /\ (label = None -> ls = []) /\
    filter (fun wx => xpos (snd wx))
           (zip (flattenF wells) (broadcast (flattenF vols) (length (flattenF wells)))) = (pre ++ post)%list /\
    (e = None -> post = []) /\
    Forall2 (ad_addresses (w_dev (st_wl s)) (lw_name L) (lw_geom L) false) pre new.
Proof.
  intros H HL. unfold dispense, wells_vols in H. cbv zeta in H. rewrite HL in H. cbv beta iota in H.
  set (items := zip (flattenF wells) (broadcast (flattenF vols) (length (flattenF wells)))) in *.
  assert (Hstop : forall t e0, st_wl t = st_wl s -> (t, Some e0) = (s', e) ->
    exists ls new pre post, st_wl s' = emit (st_wl s) (map RC ls ++ new) /\ (label = None -> ls = []) /\
      filter (fun wx => xpos (snd wx)) items = (pre ++ post)%list /\ (e = None -> post = []) /\
      Forall2 (ad_addresses (w_dev (st_wl s)) (lw_name L) (lw_geom L) false) pre new).
  { intros t e0 Ht E. injection E as <- <-. exists [], [], [], (filter (fun wx => xpos (snd wx)) items).
    cbn [map app]. rewrite emit_nil. split; [exact Ht|]. split; [reflexivity|]. split; [reflexivity|].
    split; [discriminate|constructor]. }
  destruct (add L _ _ label comps) as [L' [e1|]] eqn:Er; [apply (Hstop (set_lw s k L') _ eq_refl H)|].
  destruct (add_any _ _ _ _ _ _ _ Er) as [(Hn & Hg & _) _].
  cbn [st_wl set_lw] in H. destruct (comment (st_wl s) label) as [w e2] eqn:Ec.
  destruct (comment_spec _ _ _ _ Ec) as (ls & Hw & Hls).
  destruct e2 as [e2|].
  { rewrite (Hls ltac:(discriminate)) in Hw. cbn [map] in Hw. rewrite emit_nil in Hw.
    apply (Hstop (set_wl (set_lw s k L') w) _ Hw H). }
  destruct (emit_wells false w L' items kw) as [w' e3] eqn:Ee. injection H as <- <-.
  destruct (emit_wells_addressing _ _ _ _ _ _ _ Ee) as (new & pre & post & Hw' & Hf & Hn' & HF).
  exists ls, new, pre, post. cbn [st_wl set_wl]. split; [rewrite Hw', Hw, emit_emit; reflexivity|].
  split.
  { intros ->. rewrite comment_None in Ec. injection Ec as Ec. rewrite <- Ec in Hw.
    destruct ls as [|l r]; [reflexivity|]. exfalso. apply (f_equal w_recs) in Hw. cbn [w_recs emit map] in Hw.
    apply (f_equal (@length srec)) in Hw. rewrite app_length in Hw. cbn [length] in Hw. lia. }
  split; [exact Hf|]. split; [exact Hn'|]. rewrite Hn, Hg, Hw in HF. exact HF.
Qed.

Lemma aspirate_lims s k wells vols label kw s' e : aspirate s k wells vols label kw = (s', e) ->
  forall k' L, nth_error (st_lw s) k' = Some L ->
  exists L', nth_error (st_lw s') k' = Some L' /\ same_lims L L'.
Proof.
  intro H. unfold aspirate, wells_vols in H. cbv zeta in H.
  assert (Hid : forall k' L, nth_error (st_lw s) k' = Some L ->
            exists L', nth_error (st_lw s) k' = Some L' /\ same_lims L L')
    by (intros k' L A; exists L; split; [exact A|apply same_lims_refl]).
  destruct (nth_error (st_lw s) k) as [L0|] eqn:HL; [|injection H as <- <-; exact Hid].
  cbv beta iota in H.
  destruct (remove L0 _ _ label) as [L1 e1] eqn:Er. destruct (remove_any _ _ _ _ _ _ Er) as [Hl _].
  assert (Hupd : forall w k' L, nth_error (st_lw s) k' = Some L ->
            exists L', nth_error (st_lw (set_wl (set_lw s k L1) w)) k' = Some L' /\ same_lims L L').
  { intros w k' L A. cbn [st_lw set_wl set_lw]. destruct (Nat.eq_dec k k') as [<-|Hne].
    - rewrite nth_error_upd_same by (eapply nth_error_lt; exact HL). exists L1. split; [reflexivity|].
      rewrite HL in A. injection A as <-. exact Hl.
    - rewrite nth_error_upd_other by exact Hne. exists L. split; [exact A|apply same_lims_refl]. }
  destruct e1 as [e1|]; [injection H as <- <-; apply (Hupd (st_wl s))|].
  cbn [st_wl set_lw] in H. destruct (comment (st_wl s) label) as [w [e2|]]; [injection H as <- <-; apply Hupd|].
  destruct (emit_wells true w L1 _ kw) as [w' e3]. injection H as <- <-. apply Hupd.
Qed.

Theorem exec_step_addressing s ks kd sw dw v ws kw s' Ls Ld :
  exec_step s ks kd sw dw v ws kw = (s', None) ->
  nth_error (st_lw s) ks = Some Ls -> nth_error (st_lw s) kd = Some Ld ->
  exists newA newD tiprecs, st_wl s' = emit (st_wl s) (newA ++ newD ++ tiprecs) /\
    forallb quiet tiprecs = true /\
    Forall2 (ad_addresses (w_dev (st_wl s)) (lw_name Ls) (lw_geom Ls) true)
            (filter (fun wx => xpos (snd wx)) [(sw, XQ v)]) newA /\
    Forall2 (ad_addresses (w_dev (st_wl s)) (lw_name Ld) (lw_geom Ld) false)
            (filter (fun wx => xpos (snd wx)) [(dw, XQ v)]) newD.
Proof.
  intros H HLs HLd. unfold exec_step in H.
  destruct (aspirate s ks (A0 sw) (A0 (XQ v)) None kw) as [s1 [e1|]] eqn:Ea; [discriminate|].
  destruct (aspirate_addressing _ _ _ _ _ _ _ _ _ Ea HLs) as (ls1 & nA & pre1 & post1 & W1 & N1 & F1 & P1 & A1).
  rewrite (N1 eq_refl) in W1. cbn [map app] in W1. rewrite (P1 eq_refl), app_nil_r in F1.
  cbn [flattenF length broadcast repeat zip] in F1.
  destruct (aspirate_lims _ _ _ _ _ _ _ _ Ea kd Ld HLd) as (Ld1 & HLd1 & (Hn & Hg & _)).
  destruct (nth_error (st_lw s1) ks) as [Ls1|]; [|discriminate].
  destruct (get_well_composition Ls1 sw) as [c|e2]; [|discriminate].
  destruct (dispense s1 kd (A0 dw) (A0 (XQ v)) None (Some [Some c]) kw) as [s2 [e3|]] eqn:Ed; [discriminate|].
  destruct (dispense_addressing _ _ _ _ _ _ _ _ _ _ Ed HLd1) as (ls2 & nD & pre2 & post2 & W2 & N2 & F2 & P2 & A2).
  rewrite (N2 eq_refl) in W2. cbn [map app] in W2. rewrite (P2 eq_refl), app_nil_r in F2.
  cbn [flattenF length broadcast repeat zip] in F2.
  destruct (tip_action (st_wl s2) ws) as [w e4] eqn:Et. injection H as <- ->.
  destruct (tip_action_spec _ _ _ _ Et) as (n3 & W3 & Q3).
  exists nA, nD, n3. cbn [st_wl set_wl].
  split; [rewrite W3, W2, W1, !emit_emit; reflexivity|]. split; [exact Q3|].
  split; [rewrite F1; exact A1|]. rewrite F2, <- Hn, <- Hg. rewrite W1 in A2. exact A2.
Qed.

(** destination positions encoded by an R record: start .. end without the exclusions *)
Definition record_dsts (f : rfields) : list nat :=
  filter (fun p => negb (existsb (Z.eqb (Z.of_nat p)) (r_exclude f)))
         (seq (Z.to_nat (r_dst_start f)) (Z.to_nat (r_dst_end f) + 1 - Z.to_nat (r_dst_start f))).

Lemma seq_sorted n : forall a, StronglySorted lt (seq a n).
Proof.
  induction n as [|n IH]; intro a; cbn [seq]; constructor; [apply IH|].
  apply Forall_forall. intros x Hx. apply in_seq in Hx. lia.
Qed.

Lemma filter_sorted {A} (R : A -> A -> Prop) (p : A -> bool) l : StronglySorted R l -> StronglySorted R (filter p l).
Proof.
  induction 1 as [|a l Hl IH Ha]; cbn [filter]; [constructor|].
  destruct (p a); [|exact IH]. constructor; [exact IH|].
  apply Forall_forall. intros x Hx. apply filter_In in Hx. destruct Hx as [Hx _].
  rewrite Forall_forall in Ha. apply Ha. exact Hx.
Qed.

Lemma record_dsts_sorted f : StronglySorted lt (record_dsts f).
Proof. unfold record_dsts. apply filter_sorted. apply seq_sorted. Qed.

Theorem distribute_addressing s ks kd dwells a s' Ls Ld vr :
  distribute s ks kd dwells a = (s', None) -> wf_state s ->
  nth_error (st_lw s) ks = Some Ls -> nth_error (st_lw s) kd = Some Ld -> g_vrows (lw_geom Ls) = Some vr ->
  let col := Z.to_nat (d_source_column a) in
  exists ls f ps, st_wl s' = emit (st_wl s) (map RC ls ++ [RR f]) /\
    r_src_label f = lw_name Ls /\ r_dst_label f = lw_name Ld /\
    r_src_start f = Z.of_nat (1 + vr * col) /\ r_src_end f = Z.of_nat (vr * (col + 1)) /\
    (col < g_cols (lw_geom Ls))%nat /\
    positions_of (w_dev (st_wl s)) (lw_geom Ld) (flattenF dwells) = Ok ps /\
    (forall p, In p (record_dsts f) <-> In p ps) /\ StronglySorted lt (record_dsts f).
Proof.
  intros H HS HLs HLd Ev col. unfold distribute in H. cbv zeta in H.
  rewrite HLs, HLd, Ev in H. fold col in H.
  destruct (rvol_x (d_volume a)) as [xv|]; [|discriminate].
  pose proof (wf_geom_nth _ _ _ HS HLs) as Hgs.
  destruct (n_row_ids_trough _ vr Hgs Ev) as [En Hvr]. rewrite En in H.
  assert (Hbody : forall xv0,
    (if match xv0 with XQ v => Qgtb v (w_max (st_wl s)) | XPInf => true | _ => false end
     then (s, Some EInvalidOp)
     else
       if existsb (fun x => match lw_index Ld x with None => true | Some _ => false end) (flattenF dwells)
       then (s, Some EReject) else
       match positions_of (w_dev (st_wl s)) (lw_geom Ld) (flattenF dwells) with
       | Err e => (s, Some e)
       | Ok ps =>
           match sort_Z (map Z.of_nat ps) with
           | [] => (s, Some EReject)
           | p0 :: tl =>
               let sorted := p0 :: tl in
               let plast := last sorted p0 in
               let excl := filter (fun z => negb (existsb (Z.eqb z) sorted))
                                  (map (fun i => (p0 + Z.of_nat i)%Z) (seq 0 (Z.to_nat (plast - p0 + 1)))) in
               if negb (col <? g_cols (lw_geom Ls))%nat then (s, Some EReject) else
               match remove Ls (A0 (well_id 0 col)) (A0 (xmul_nat xv0 (length ps))) (d_label a) with
               | (Ls', Some e) => (set_lw s ks Ls', Some e)
               | (Ls', None) =>
                   let s1 := set_lw s ks Ls' in
                   match get_well_composition Ls' (well_id 0 col) with
                   | Err e => (s1, Some e)
                   | Ok c =>
                       match nth_error (st_lw s1) kd with
                       | None => (s1, Some EReject)
                       | Some Ld1 =>
                           match add Ld1 (A1 (flattenF dwells)) (A0 xv0) (d_label a)
                                     (Some (repeat (Some c) (length ps))) with
                           | (Ld', Some e) => (set_lw s1 kd Ld', Some e)
                           | (Ld', None) =>
                               let s2 := set_lw s1 kd Ld' in
                               let s2 := if (ks =? kd)%nat then condense_at s2 ks 2 (d_label a) else s2 in
                               match comment (st_wl s2) (d_label a) with
                               | (w1, Some e) => (set_wl s2 w1, Some e)
                               | (w1, None) =>
                                   let '(w2, e) := reagent_distribution w1
                                     {| rd_src_label := PStr (lw_name Ls);
                                        rd_src_start := PInt (Z.of_nat (1 + vr * col));
                                        rd_src_end := PInt (Z.of_nat (1 + vr * col + vr - 1));
                                        rd_dst_label := PStr (lw_name Ld);
                                        rd_dst_start := PInt p0; rd_dst_end := PInt plast;
                                        rd_volume := d_volume a;
                                        rd_diti_reuse := d_diti_reuse a;
                                        rd_multi_disp := d_multi_disp a;
                                        rd_exclude := Some excl;
                                        rd_liquid_class := d_liquid_class a;
                                        rd_direction := d_direction a;
                                        rd_src_id := d_src_id a; rd_src_type := d_src_type a;
                                        rd_dst_id := d_dst_id a; rd_dst_type := d_dst_type a |} in
                                   (set_wl s2 w2, e)
                               end
                           end
                       end
                   end
               end
           end
       end) = (s', None) ->
    exists ls f ps, st_wl s' = emit (st_wl s) (map RC ls ++ [RR f]) /\
      r_src_label f = lw_name Ls /\ r_dst_label f = lw_name Ld /\
      r_src_start f = Z.of_nat (1 + vr * col) /\ r_src_end f = Z.of_nat (vr * (col + 1)) /\
      (col < g_cols (lw_geom Ls))%nat /\
      positions_of (w_dev (st_wl s)) (lw_geom Ld) (flattenF dwells) = Ok ps /\
      (forall p, In p (record_dsts f) <-> In p ps) /\ StronglySorted lt (record_dsts f)).
  { intros xv0 Hb. match type of Hb with (if ?c then _ else _) = _ => destruct c end; [discriminate|]. clear xv H.
    destruct (existsb _ (flattenF dwells)); [discriminate|].
    destruct (positions_of (w_dev (st_wl s)) (lw_geom Ld) (flattenF dwells)) as [ps|e0] eqn:Eps; [|discriminate].
    destruct (sort_Z (map Z.of_nat ps)) as [|p0 tl] eqn:Esort; [discriminate|]. cbv zeta in Hb.
    destruct (negb (col <? g_cols (lw_geom Ls))%nat) eqn:Ecol; [discriminate|].
    apply negb_false_iff in Ecol. apply Nat.ltb_lt in Ecol.
    destruct (remove Ls _ _ (d_label a)) as [Ls' [e1|]]; [discriminate|].
    destruct (get_well_composition Ls' (well_id 0 col)) as [c|e1]; [|discriminate].
    destruct (nth_error (st_lw (set_lw s ks Ls')) kd) as [Ld1|]; [|discriminate].
    destruct (add Ld1 _ _ (d_label a) _) as [Ld' [e2|]]; [discriminate|].
    match type of Hb with context [comment (st_wl ?t) _] => set (s2' := t) in * end.
    assert (Hw2' : st_wl s2' = st_wl s)
      by (unfold s2'; destruct (ks =? kd)%nat; rewrite ?st_wl_condense; reflexivity).
    destruct (comment (st_wl s2') (d_label a)) as [w1 [e3|]] eqn:Ec; [discriminate|].
    match type of Hb with context [reagent_distribution w1 ?x] => set (ra := x) in * end.
    destruct (reagent_distribution w1 ra) as [w2 e4] eqn:Er. injection Hb as <- ->.
    destruct (comment_spec _ _ _ _ Ec) as (ls & Hw1 & _). rewrite Hw2' in Hw1.
    pose proof (reagent_distribution_spec _ _ _ _ Er) as Hspec. cbv beta iota in Hspec.
    destruct Hspec as (f & v' & Hwr & F1 & F2 & F3 & F4 & F5 & F6 & F7 & _).
    unfold ra in F1, F2, F3, F4, F5, F6, F7.
    cbn [rd_src_label rd_dst_label rd_src_start rd_src_end rd_dst_start rd_dst_end rd_exclude] in F1, F2, F3, F4, F5, F6, F7.
    injection F1 as F1. injection F2 as F2. injection F3 as F3. injection F4 as F4.
    injection F5 as F5. injection F6 as F6.
    exists ls, f, ps. cbn [st_wl set_wl]. split; [rewrite Hwr, Hw1, emit_emit; reflexivity|].
    split; [symmetry; exact F1|]. split; [symmetry; exact F2|].
    split; [rewrite <- F3; reflexivity|]. split; [rewrite <- F4; f_equal; lia|].
    split; [exact Ecol|]. split; [reflexivity|]. split; [|apply record_dsts_sorted].
    unfold record_dsts. rewrite F7, <- F5, <- F6. apply (dsts_mem ps p0 tl Esort). }
  destruct xv as [v| | |]; [exact (Hbody (XQ v) H)|discriminate|discriminate|exact (Hbody XNInf H)].
Qed.

(* ------------------------------------------------------------------ C01: the accepted calls, unchecked interpreter *)

Theorem aspirate_robot s k wells vols label kw s' rb :
  good_state s -> sim s rb -> aspirate s k wells vols label kw = (s', None) ->
  exists new rb', st_wl s' = emit (st_wl s) new /\
    interp false (w_dev (st_wl s)) rb new = Some rb' /\ sim s' rb'.
Proof.
  intros Hg Hs H. destruct (aspirate_replay _ _ _ _ _ _ _ _ _ Hg Hs H) as (new & rb' & A & B & C & _).
  exists new, rb'. split; [exact A|]. split; [apply interp_unchecked; exact B|apply C; reflexivity].
Qed.

Theorem dispense_robot s k wells vols label comps kw s' rb :
  good_state s -> sim s rb -> dispense s k wells vols label comps kw = (s', None) ->
  exists new rb', st_wl s' = emit (st_wl s) new /\
    interp false (w_dev (st_wl s)) rb new = Some rb' /\ sim s' rb'.
Proof.
  intros Hg Hs H. destruct (dispense_replay _ _ _ _ _ _ _ _ _ _ Hg Hs H) as (new & rb' & A & B & C & _).
  exists new, rb'. split; [exact A|]. split; [apply interp_unchecked; exact B|apply C; reflexivity].
Qed.

Theorem exec_step_robot s ks kd sw dw v ws kw s' rb :
  good_state s -> sim s rb -> exec_step s ks kd sw dw v ws kw = (s', None) ->
  exists new rb', st_wl s' = emit (st_wl s) new /\
    interp false (w_dev (st_wl s)) rb new = Some rb' /\ sim s' rb'.
Proof.
  intros Hg Hs H. destruct (exec_step_replay _ _ _ _ _ _ _ _ _ _ _ Hg Hs H) as (new & rb' & A & B & C & _).
  exists new, rb'. split; [exact A|]. split; [apply interp_unchecked; exact B|apply C; reflexivity].
Qed.

Theorem transfer_robot s ks swells kd dwells vols label ws pb kw s' rb :
  good_state s -> sim s rb -> transfer s ks swells kd dwells vols label ws pb kw = (s', None) ->
  exists new rb', st_wl s' = emit (st_wl s) new /\
    interp false (w_dev (st_wl s)) rb new = Some rb' /\ sim s' rb'.
Proof.
  intros Hg Hs H. destruct (transfer_replay _ _ _ _ _ _ _ _ _ _ _ _ _ Hg Hs H) as (new & rb' & A & B & C).
  exists new, rb'. split; [exact A|]. split; [apply interp_unchecked; exact B|apply C; reflexivity].
Qed.

Theorem distribute_robot s ks kd dwells a s' rb :
  good_state s -> sim s rb -> distribute_dev_ok s ks -> dst_positions_distinct s kd dwells ->
  distribute s ks kd dwells a = (s', None) ->
  exists new rb', st_wl s' = emit (st_wl s) new /\
    interp false (w_dev (st_wl s)) rb new = Some rb' /\ sim s' rb'.
Proof.
  intros Hg Hs Hd Hn H. destruct (distribute_success _ _ _ _ _ _ _ Hg Hs Hd Hn H) as (new & rb' & A & B & C).
  exists new, rb'. split; [exact A|]. split; [apply interp_unchecked; exact B|exact C].
Qed.

Theorem distribute_robot_evo s ks kd dwells a s' rb :
  good_state s -> sim s rb -> w_dev (st_wl s) = Evo -> dst_positions_distinct s kd dwells ->
  distribute s ks kd dwells a = (s', None) ->
  exists new rb', st_wl s' = emit (st_wl s) new /\ interp false Evo rb new = Some rb' /\ sim s' rb'.
Proof.
  intros Hg Hs Hd Hn H. rewrite <- Hd. apply (distribute_robot s ks kd dwells a); try assumption.
  left. exact Hd.
Qed.

Theorem distribute_robot_fluent_one_row s ks kd dwells a s' rb :
  good_state s -> sim s rb -> w_dev (st_wl s) = Fluent ->
  (forall Ls, nth_error (st_lw s) ks = Some Ls -> g_vrows (lw_geom Ls) = Some 1%nat) ->
  dst_positions_distinct s kd dwells ->
  distribute s ks kd dwells a = (s', None) ->
  exists new rb', st_wl s' = emit (st_wl s) new /\ interp false Fluent rb new = Some rb' /\ sim s' rb'.
Proof.
  intros Hg Hs Hd Hone Hn H. rewrite <- Hd. apply (distribute_robot s ks kd dwells a); try assumption.
  right. split; assumption.
Qed.

(* ------------------------------------------------------------------ concrete objects for the examples, F12 *)

#[local] Open Scope string_scope.

(** a trough with 4 virtual rows and 2 columns, 500 in each column *)
Definition ex_t4 : labware :=
  {| lw_name := "T4"; lw_geom := {| g_rows := 1; g_cols := 2; g_vrows := Some 4%nat |};
     lw_min := 0; lw_max := 1000; lw_vols := [500; 500];
     lw_comp := [("T4.column_01", [1; 0]); ("T4.column_02", [0; 1])];
     lw_hist := [(Some "initial", [500; 500])] |}.

(** a 2 x 2 plate, max 5000, A01 = 3000, B01 = 100 *)
Definition ex_big : labware :=
  {| lw_name := "big"; lw_geom := {| g_rows := 2; g_cols := 2; g_vrows := None |};
     lw_min := 0; lw_max := 5000; lw_vols := [3000; 0; 100; 0];
     lw_comp := [("big.A01", [1; 0; 0; 0]); ("big.B01", [0; 0; 1; 0])];
     lw_hist := [(Some "initial", [3000; 0; 100; 0])] |}.

Definition ex_dargs (col v : Z) : distargs :=
  {| d_source_column := col; d_volume := RVInt v; d_diti_reuse := 1; d_multi_disp := 1;
     d_liquid_class := PStr "W"; d_label := None; d_direction := "left_to_right";
     d_src_id := PStr ""; d_src_type := PStr ""; d_dst_id := PStr ""; d_dst_type := PStr "" |}.

Lemma ex_t4_wf : wf_labware ex_t4.
Proof.
  unfold wf_labware, wf_shape, wf_geom, vol_inv, ex_t4, n_wells.
  cbn [lw_geom lw_vols lw_comp lw_hist lw_min lw_max g_rows g_cols g_vrows length snd].
  repeat split; try lia; try lra; try discriminate; repeat constructor; try lra.
Qed.

Lemma ex_big_wf : wf_labware ex_big.
Proof.
  unfold wf_labware, wf_shape, wf_geom, vol_inv, ex_big, n_wells.
  cbn [lw_geom lw_vols lw_comp lw_hist lw_min lw_max g_rows g_cols g_vrows length snd].
  repeat split; try lia; try lra; try discriminate; repeat constructor; try lra.
Qed.

Definition ex_state (d : device) : state :=
  {| st_lw := [ex_big; ex_t4]; st_wl := init_wl d 950 true false |}.

Lemma ex_state_good d : d <> BaseDev -> good_state (ex_state d).
Proof.
  intro Hd. split; [|split; [|exact Hd]].
  - constructor; [exact ex_big_wf|constructor; [exact ex_t4_wf|constructor]].
  - cbn. constructor; [intros [C|[]]; discriminate|constructor; [intros []|constructor]].
Qed.

(** F12: on a FluentWorklist [distribute] still writes the source range in EVO numbering; for a
    trough with more than one virtual row the record does not address one real well *)
Lemma distribute_fluent_refuted :
  exists s ks kd dwells a s',
    good_state s /\ w_dev (st_wl s) = Fluent /\ dst_positions_distinct s kd dwells /\
    distribute s ks kd dwells a = (s', None) /\
    map render (w_recs (st_wl s')) = ["R;T4;;;5;8;big;;;3;4;10;W;1;1;0"] /\
    interp false Fluent (robot_of (st_lw s)) (w_recs (st_wl s')) = None.
Proof.
  exists (ex_state Fluent), 1%nat, 0%nat, (A1 ["A02"; "B02"]), (ex_dargs 1 10).
  eexists. split; [apply ex_state_good; discriminate|]. split; [reflexivity|]. split.
  - intros Ld ps HLd Hps. cbn in HLd. injection HLd as <-. vm_compute in Hps. injection Hps as <-.
    constructor; [intros [C|[]]; discriminate|constructor; [intros []|constructor]].
  - split; [vm_compute; reflexivity|]. split; vm_compute; reflexivity.
Qed.

#[local] Close Scope string_scope.

(* ------------------------------------------------------------------ composition: association lists *)

(** fraction of component [k] in real well [i]; 0 for an unknown component *)
Definition cfrac (comp : list (string * list Q)) (k : string) (i : nat) : Q :=
  match assoc_get k comp with Some a => nth i a 0 | None => 0 end.

Lemma assoc_get_set_same {A} k (v : A) l : assoc_get k (assoc_set k v l) = Some v.
Proof.
  induction l as [|[k1 v1] r IH]; cbn [assoc_set assoc_get].
  - rewrite String.eqb_refl. reflexivity.
  - destruct (String.eqb k1 k) eqn:E; cbn [assoc_get]; rewrite E; [reflexivity|exact IH].
Qed.

Lemma assoc_get_set_other {A} k k0 (v : A) l : k0 <> k -> assoc_get k (assoc_set k0 v l) = assoc_get k l.
Proof.
  intro Hne. induction l as [|[k1 v1] r IH]; cbn [assoc_set assoc_get].
  - destruct (String.eqb_spec k0 k); [contradiction|reflexivity].
  - destruct (String.eqb_spec k1 k0) as [->|N]; cbn [assoc_get].
    + destruct (String.eqb_spec k0 k); [contradiction|reflexivity].
    + destruct (String.eqb k1 k); [reflexivity|exact IH].
Qed.

Lemma assoc_get_None {A} k (l : list (string * A)) : assoc_get k l = None <-> ~ In k (map fst l).
Proof.
  induction l as [|[k1 v1] r IH]; cbn [assoc_get map fst In]; [tauto|].
  destruct (String.eqb_spec k1 k) as [->|N].
  - split; [discriminate|]. intro H. exfalso. apply H. left. reflexivity.
  - rewrite IH. split; [intros H [C|C]; [contradiction|apply H; exact C]|intros H C; apply H; right; exact C].
Qed.

Lemma assoc_get_In_key {A} k (l : list (string * A)) : In k (map fst l) -> exists v, assoc_get k l = Some v.
Proof.
  intro H. destruct (assoc_get k l) as [v|] eqn:E; [exists v; reflexivity|].
  apply assoc_get_None in E. contradiction.
Qed.

Lemma keys_assoc_set {A} k (v : A) l :
  map fst (assoc_set k v l) = if (match assoc_get k l with Some _ => true | None => false end)
                              then map fst l else (map fst l ++ [k])%list.
Proof.
  induction l as [|[k1 v1] r IH]; cbn [assoc_set assoc_get map fst app]; [reflexivity|].
  destruct (String.eqb_spec k1 k) as [->|N]; cbn [map fst]; [reflexivity|].
  rewrite IH. destruct (assoc_get k r); reflexivity.
Qed.

Lemma NoDup_snoc {A} (l : list A) x : NoDup l -> ~ In x l -> NoDup (l ++ [x]).
Proof.
  induction l as [|y r IH]; intros H Hx; cbn [app].
  - constructor; [intros []|constructor].
  - inversion H as [|y' r' Hy Hr]; subst. constructor.
    + intro C. apply in_app_or in C. destruct C as [C|[C|[]]]; [contradiction|]. subst. apply Hx. left. reflexivity.
    + apply IH; [exact Hr|]. intro C. apply Hx. right. exact C.
Qed.

Lemma assoc_set_NoDup {A} k (v : A) l : NoDup (map fst l) -> NoDup (map fst (assoc_set k v l)).
Proof.
  intro H. rewrite keys_assoc_set. destruct (assoc_get k l) as [x|] eqn:E; [exact H|].
  apply assoc_get_None in E. apply NoDup_snoc; assumption.
Qed.

Lemma assoc_get_app {A} k (l1 l2 : list (string * A)) :
  assoc_get k (l1 ++ l2) = match assoc_get k l1 with Some v => Some v | None => assoc_get k l2 end.
Proof.
  induction l1 as [|[k1 v1] r IH]; cbn [app assoc_get]; [reflexivity|].
  destruct (String.eqb k1 k); [reflexivity|exact IH].
Qed.

Lemma assoc_get_map_val {A B} (F : string -> A -> B) k (l : list (string * A)) :
  assoc_get k (map (fun ka => (fst ka, F (fst ka) (snd ka))) l) =
  match assoc_get k l with Some a => Some (F k a) | None => None end.
Proof.
  induction l as [|[k1 v1] r IH]; cbn [map assoc_get fst snd]; [reflexivity|].
  destruct (String.eqb_spec k1 k) as [->|N]; [reflexivity|exact IH].
Qed.

Lemma assoc_get_const {A} (x : A) k (ks : list string) :
  assoc_get k (map (fun k0 => (k0, x)) ks) = if existsb (String.eqb k) ks then Some x else None.
Proof.
  induction ks as [|k1 r IH]; cbn [map assoc_get existsb]; [reflexivity|].
  rewrite (String.eqb_sym k k1). destruct (String.eqb k1 k); cbn [orb]; [reflexivity|exact IH].
Qed.

Lemma fget_notin k (c : list (string * Q)) : ~ In k (map fst c) -> fget k c = 0.
Proof. intro H. unfold fget. apply assoc_get_None in H. rewrite H. reflexivity. Qed.

Definition arrays_len (n : nat) (comp : list (string * list Q)) : Prop :=
  Forall (fun ka => length (snd ka) = n) comp.

Lemma arrays_len_get n comp k a : arrays_len n comp -> assoc_get k comp = Some a -> length a = n.
Proof.
  intros HF H. destruct (assoc_get_In _ _ _ H) as [k' Hin].
  unfold arrays_len in HF. rewrite Forall_forall in HF. apply (HF (k', a) Hin).
Qed.

Lemma nth_repeat0 n j : nth j (repeat 0 n) 0 = 0.
Proof. revert j. induction n as [|n IH]; intros [|j]; cbn [repeat nth]; try reflexivity. apply IH. Qed.

(* ------------------------------------------------------------------ composition: the interpreter's mixing *)

Lemma mix_into_cfrac r i V v g k j :
  arrays_len (length (rk_vols r)) (rk_comp r) -> (i < length (rk_vols r))%nat -> ~ V + v == 0 ->
  cfrac (mix_into r i V v g) k j ==
  if (j =? i)%nat then (V * cfrac (rk_comp r) k i + v * fget k g) / (V + v) else cfrac (rk_comp r) k j.
Proof.
  intros HL Hi Hnz. unfold mix_into.
  destruct (Qeq_bool (V + v) 0) eqn:Ez; [apply Qeq_bool_iff in Ez; contradiction|].
  set (n := length (rk_vols r)) in *. set (old := rk_comp r) in *.
  set (newkeys := filter (fun k0 => match assoc_get k0 old with Some _ => false | None => true end) (map fst g)).
  unfold cfrac at 1.
  rewrite (assoc_get_map_val (fun k0 a => upd a i ((V * nth i a 0 + v * fget k0 g) / (V + v)))).
  rewrite assoc_get_app, assoc_get_const.
  destruct (assoc_get k old) as [a|] eqn:Ea.
  - pose proof (arrays_len_get _ _ _ _ HL Ea) as Hlen. unfold cfrac. rewrite Ea.
    destruct (Nat.eqb_spec j i) as [->|Hne].
    + rewrite nth_upd_same by lia. reflexivity.
    + rewrite nth_upd_other by congruence. reflexivity.
  - unfold cfrac. rewrite Ea. destruct (existsb (String.eqb k) newkeys) eqn:En.
    + destruct (Nat.eqb_spec j i) as [->|Hne].
      * rewrite nth_upd_same by (rewrite repeat_length; exact Hi). rewrite nth_repeat0. reflexivity.
      * rewrite nth_upd_other by congruence. rewrite nth_repeat0. reflexivity.
    + assert (Hg : fget k g = 0).
      { apply fget_notin. intro Hin. assert (C : In k newkeys) by (apply filter_In; split; [exact Hin|rewrite Ea; reflexivity]).
        assert (C' : existsb (String.eqb k) newkeys = true) by (apply existsb_exists; exists k; split; [exact C|apply String.eqb_refl]).
        congruence. }
      rewrite Hg. destruct (j =? i)%nat; [field; exact Hnz|reflexivity].
Qed.

Lemma NoDup_app_disj {A} (l1 l2 : list A) : NoDup l1 -> NoDup l2 -> (forall x, In x l1 -> ~ In x l2) ->
  NoDup (l1 ++ l2).
Proof.
  induction l1 as [|a r IH]; intros H1 H2 Hd; cbn [app]; [exact H2|].
  inversion H1 as [|a' r' Ha Hr]; subst. constructor.
  - intro C. apply in_app_or in C. destruct C as [C|C]; [contradiction|]. apply (Hd a); [left; reflexivity|exact C].
  - apply IH; [exact Hr|exact H2|]. intros x Hx. apply Hd. right. exact Hx.
Qed.

Lemma mix_into_inv r i V v g :
  arrays_len (length (rk_vols r)) (rk_comp r) -> NoDup (map fst (rk_comp r)) -> NoDup (map fst g) ->
  arrays_len (length (rk_vols r)) (mix_into r i V v g) /\ NoDup (map fst (mix_into r i V v g)).
Proof.
  intros HL ND NG. unfold mix_into. destruct (Qeq_bool (V + v) 0); [split; assumption|].
  set (newkeys := filter (fun k0 => match assoc_get k0 (rk_comp r) with Some _ => false | None => true end) (map fst g)).
  split.
  - unfold arrays_len. rewrite Forall_map. apply Forall_app. split.
    + eapply Forall_impl; [|exact HL]. intros ka Hka. cbn [snd]. rewrite upd_length. exact Hka.
    + rewrite Forall_map. apply Forall_forall. intros k0 _. cbn [snd]. rewrite upd_length. apply repeat_length.
  - rewrite map_map. cbn [fst]. rewrite map_app, map_map. cbn [fst]. rewrite map_id.
    apply NoDup_app_disj; [exact ND|apply NoDup_filter; exact NG|].
    intros x Hx Hn. apply filter_In in Hn. destruct Hn as [_ Hn].
    destruct (assoc_get_In_key _ _ Hx) as [a Ha]. rewrite Ha in Hn. discriminate.
Qed.

(* ------------------------------------------------------------------ composition: the model's mixing *)

Definition has_key {A} (k : string) (l : list (string * A)) : bool :=
  match assoc_get k l with Some _ => true | None => false end.

Lemma has_key_false {A} k (l : list (string * A)) : ~ In k (map fst l) -> has_key k l = false.
Proof. intro H. unfold has_key. apply assoc_get_None in H. rewrite H. reflexivity. Qed.

Definition wc_step (n i : nat) (comp : list (string * list Q)) (kf : string * Q) : list (string * list Q) :=
  assoc_set (fst kf) (upd (match assoc_get (fst kf) comp with Some a => a | None => repeat 0 n end) i (snd kf)) comp.

Lemma write_composition_fold L i c :
  lw_comp (write_composition L i c) = fold_left (wc_step (n_wells (lw_geom L)) i) c (lw_comp L).
Proof. reflexivity. Qed.

Lemma wc_step_len n i comp kf : arrays_len n comp -> arrays_len n (wc_step n i comp kf).
Proof.
  intro HL. unfold wc_step, arrays_len. apply assoc_set_Forall; [|exact HL].
  intro k'. cbn [snd]. rewrite upd_length. destruct (assoc_get (fst kf) comp) as [a|] eqn:E.
  - eapply arrays_len_get; eassumption.
  - apply repeat_length.
Qed.

Lemma wc_step_cfrac n i comp k0 x k j : arrays_len n comp -> (i < n)%nat ->
  cfrac (wc_step n i comp (k0, x)) k j = if (String.eqb k0 k && (j =? i)%nat)%bool then x else cfrac comp k j.
Proof.
  intros HL Hi. unfold wc_step, cfrac. cbn [fst snd].
  destruct (String.eqb_spec k0 k) as [->|Hne]; cbn [andb].
  - rewrite assoc_get_set_same.
    assert (Hlen : length (match assoc_get k comp with Some a => a | None => repeat 0 n end) = n).
    { destruct (assoc_get k comp) as [a|] eqn:E; [eapply arrays_len_get; eassumption|apply repeat_length]. }
    destruct (Nat.eqb_spec j i) as [->|Hj].
    + apply nth_upd_same. lia.
    + rewrite nth_upd_other by congruence. destruct (assoc_get k comp); [reflexivity|apply nth_repeat0].
  - rewrite assoc_get_set_other by exact Hne. reflexivity.
Qed.

Lemma wc_fold_len n i c : forall comp, arrays_len n comp -> arrays_len n (fold_left (wc_step n i) c comp).
Proof.
  induction c as [|kf r IH]; intros comp HL; cbn [fold_left]; [exact HL|]. apply IH. apply wc_step_len. exact HL.
Qed.

Lemma wc_fold_NoDup n i c : forall comp, NoDup (map fst comp) -> NoDup (map fst (fold_left (wc_step n i) c comp)).
Proof.
  induction c as [|kf r IH]; intros comp ND; cbn [fold_left]; [exact ND|]. apply IH.
  unfold wc_step. apply assoc_set_NoDup. exact ND.
Qed.

Lemma wc_fold_cfrac n i k j c : NoDup (map fst c) -> forall comp, arrays_len n comp -> (i < n)%nat ->
  cfrac (fold_left (wc_step n i) c comp) k j =
  if ((j =? i)%nat && has_key k c)%bool then fget k c else cfrac comp k j.
Proof.
  induction c as [|[k0 x] r IH]; intros ND comp HL Hi; cbn [fold_left].
  - unfold has_key. cbn [assoc_get]. rewrite andb_false_r. reflexivity.
  - cbn [map fst] in ND. inversion ND as [|k0' r' Hk0 Hr]; subst.
    rewrite (IH Hr _ (wc_step_len n i comp (k0, x) HL) Hi), (wc_step_cfrac n i comp k0 x k j HL Hi).
    unfold has_key, fget. cbn [assoc_get].
    destruct (String.eqb_spec k0 k) as [->|Hne]; cbn [andb].
    + apply assoc_get_None in Hk0. rewrite Hk0. rewrite andb_false_r, andb_true_r.
      destruct (j =? i)%nat; reflexivity.
    + reflexivity.
Qed.

(** [combine_composition] with a non-zero total *)
Definition mstep (vB : Q) (acc : composition) (kf : string * Q) : composition :=
  assoc_set (fst kf) (Qred (match assoc_get (fst kf) acc with Some x => x | None => 0 end + snd kf * vB)) acc.

Lemma combine_unfold vA cA vB cB : Qeq_bool (vA + vB) 0 = false ->
  combine_composition vA cA vB cB =
  map (fun kv => (fst kv, Qred (snd kv / (vA + vB))))
      (fold_left (mstep vB) cB (map (fun kf => (fst kf, snd kf * vA)) cA)).
Proof. intro H. unfold combine_composition. rewrite H. reflexivity. Qed.

Lemma mfold_fget vB k cB : NoDup (map fst cB) -> forall acc,
  fget k (fold_left (mstep vB) cB acc) == fget k acc + fget k cB * vB /\
  has_key k (fold_left (mstep vB) cB acc) = (has_key k acc || has_key k cB)%bool.
Proof.
  induction cB as [|[k0 f] r IH]; intros ND acc; cbn [fold_left].
  - unfold fget at 3, has_key at 3. cbn [assoc_get]. rewrite orb_false_r. split; [ring|reflexivity].
  - cbn [map fst] in ND. inversion ND as [|k0' r' Hk0 Hr]; subst.
    destruct (IH Hr (mstep vB acc (k0, f))) as [IH1 IH2]. rewrite IH1, IH2.
    unfold mstep, fget, has_key. cbn [fst snd assoc_get].
    destruct (String.eqb_spec k0 k) as [->|Hne].
    + rewrite assoc_get_set_same. apply assoc_get_None in Hk0. rewrite Hk0.
      rewrite Qred_correct. split; [ring|]. rewrite orb_true_r, orb_false_r. reflexivity.
    + rewrite assoc_get_set_other by exact Hne. split; reflexivity.
Qed.

Lemma mfold_NoDup vB cB : forall acc, NoDup (map fst acc) -> NoDup (map fst (fold_left (mstep vB) cB acc)).
Proof.
  induction cB as [|kf r IH]; intros acc ND; cbn [fold_left]; [exact ND|]. apply IH.
  unfold mstep. apply assoc_set_NoDup. exact ND.
Qed.

Lemma combine_fget vA cA vB cB k : ~ vA + vB == 0 -> NoDup (map fst cB) ->
  fget k (combine_composition vA cA vB cB) == (fget k cA * vA + fget k cB * vB) / (vA + vB) /\
  has_key k (combine_composition vA cA vB cB) = (has_key k cA || has_key k cB)%bool.
Proof.
  intros Hnz ND.
  assert (Ez : Qeq_bool (vA + vB) 0 = false).
  { destruct (Qeq_bool (vA + vB) 0) eqn:E; [apply Qeq_bool_iff in E; contradiction|reflexivity]. }
  rewrite (combine_unfold _ _ _ _ Ez).
  destruct (mfold_fget vB k cB ND (map (fun kf => (fst kf, snd kf * vA)) cA)) as [H1 H2].
  unfold fget, has_key in *.
  rewrite (assoc_get_map_val (fun _ x => Qred (x / (vA + vB)))).
  rewrite (assoc_get_map_val (fun _ x => x * vA)) in H1, H2.
  destruct (assoc_get k cA) as [a|]; destruct (assoc_get k cB) as [b|];
    destruct (assoc_get k (fold_left (mstep vB) cB (map (fun kf => (fst kf, snd kf * vA)) cA))) as [x|];
    cbn [orb] in H2; try discriminate; (split; [|reflexivity]).
  - rewrite Qred_correct, H1. reflexivity.
  - rewrite Qred_correct, H1. field. exact Hnz.
  - rewrite Qred_correct, H1. field. exact Hnz.
  - field. exact Hnz.
Qed.

Lemma combine_NoDup vA cA vB cB : NoDup (map fst cA) -> NoDup (map fst (combine_composition vA cA vB cB)).
Proof.
  intro ND. unfold combine_composition. destruct (Qeq_bool (vA + vB) 0); [exact ND|].
  rewrite map_map. cbn [fst]. apply mfold_NoDup. rewrite map_map. cbn [fst]. exact ND.
Qed.

(** [get_well_composition]: the components with a positive fraction *)
Definition wca (comp : list (string * list Q)) (i : nat) : composition :=
  flat_map (fun kf => let f := nth i (snd kf) 0 in if Qltb 0 f then [(fst kf, f)] else []) comp.

Lemma wca_keys comp i k : In k (map fst (wca comp i)) -> In k (map fst comp).
Proof.
  induction comp as [|[k1 a1] r IH]; cbn [wca flat_map map fst snd]; [tauto|].
  fold (wca r i). rewrite map_app. intro H. apply in_app_or in H. destruct H as [H|H].
  - destruct (Qltb 0 (nth i a1 0)); [|contradiction]. destruct H as [<-|[]]. left. reflexivity.
  - right. apply IH. exact H.
Qed.

Lemma wca_NoDup comp i : NoDup (map fst comp) -> NoDup (map fst (wca comp i)).
Proof.
  induction comp as [|[k1 a1] r IH]; cbn [wca flat_map map fst snd]; intro ND; [constructor|].
  fold (wca r i). inversion ND as [|k1' r' Hk1 Hr]; subst. rewrite map_app.
  apply NoDup_app_disj; [|apply IH; exact Hr|].
  - destruct (Qltb 0 (nth i a1 0)); [constructor; [intros []|constructor]|constructor].
  - intros x Hx Hn. destruct (Qltb 0 (nth i a1 0)); [|contradiction]. destruct Hx as [<-|[]].
    apply Hk1. eapply wca_keys. exact Hn.
Qed.

Lemma wca_get comp i k : NoDup (map fst comp) ->
  assoc_get k (wca comp i) = if Qltb 0 (cfrac comp k i) then Some (cfrac comp k i) else None.
Proof.
  induction comp as [|[k1 a1] r IH]; intro ND; cbn [wca flat_map fst snd].
  - reflexivity.
  - fold (wca r i). cbn [map fst] in ND. inversion ND as [|k1' r' Hk1 Hr]; subst.
    rewrite assoc_get_app. unfold cfrac at 1 2. cbn [assoc_get].
    destruct (String.eqb_spec k1 k) as [->|Hne].
    + assert (Hn : assoc_get k (wca r i) = None)
        by (apply assoc_get_None; intro C; apply Hk1; eapply wca_keys; exact C).
      destruct (Qltb 0 (nth i a1 0)); cbn [assoc_get]; [rewrite String.eqb_refl; reflexivity|exact Hn].
    + assert (E : assoc_get k (if Qltb 0 (nth i a1 0) then [(k1, nth i a1 0)] else []) = None).
      { destruct (Qltb 0 (nth i a1 0)); cbn [assoc_get]; [|reflexivity].
        destruct (String.eqb_spec k1 k); [contradiction|reflexivity]. }
      rewrite E. apply IH. exact Hr.
Qed.

Lemma fget_wca comp i k : NoDup (map fst comp) -> 0 <= cfrac comp k i -> fget k (wca comp i) == cfrac comp k i.
Proof.
  intros ND Hnn. unfold fget. rewrite wca_get by exact ND.
  destruct (Qltb 0 (cfrac comp k i)) eqn:E; [reflexivity|]. apply Qltb_false in E. lra.
Qed.

(** fractions of a well after one accepted addition of a liquid of known composition *)
Lemma add_one_cfrac L i v c k j :
  arrays_len (n_wells (lw_geom L)) (lw_comp L) -> (i < n_wells (lw_geom L))%nat ->
  NoDup (map fst (lw_comp L)) -> NoDup (map fst c) ->
  (forall k0, 0 <= cfrac (lw_comp L) k0 i) -> ~ vol_at L i + v == 0 ->
  cfrac (lw_comp (add_one L i v (Some c))) k j ==
  if (j =? i)%nat then (vol_at L i * cfrac (lw_comp L) k i + v * fget k c) / (vol_at L i + v)
  else cfrac (lw_comp L) k j.
Proof.
  intros HL Hi ND NC Hnn Hnz. unfold add_one. cbv zeta. rewrite write_composition_fold.
  cbn [lw_comp lw_geom set_vols].
  change (well_composition_at (set_vols L (upd (lw_vols L) i (Qred (vol_at L i + v)))) i) with (wca (lw_comp L) i).
  set (mixed := combine_composition (vol_at L i) (wca (lw_comp L) i) v c).
  assert (NM : NoDup (map fst mixed)) by (apply combine_NoDup, wca_NoDup; exact ND).
  rewrite (wc_fold_cfrac _ i k j mixed NM _ HL Hi).
  destruct (Nat.eqb_spec j i) as [->|Hj]; cbn [andb]; [|reflexivity].
  destruct (combine_fget (vol_at L i) (wca (lw_comp L) i) v c k Hnz NC) as [Hf Hh]. fold mixed in Hf, Hh.
  pose proof (fget_wca (lw_comp L) i k ND (Hnn k)) as Hwca.
  rewrite Hh. destruct (has_key k (wca (lw_comp L) i) || has_key k c)%bool eqn:E.
  - rewrite Hf, Hwca. field. exact Hnz.
  - apply orb_false_iff in E. destruct E as [E1 E2].
    assert (Hz : cfrac (lw_comp L) k i == 0).
    { unfold has_key in E1. rewrite wca_get in E1 by exact ND.
      destruct (Qltb 0 (cfrac (lw_comp L) k i)) eqn:Ep; [discriminate|]. apply Qltb_false in Ep.
      pose proof (Hnn k). lra. }
    assert (Hc0 : fget k c = 0).
    { unfold has_key in E2. unfold fget. destruct (assoc_get k c); [discriminate|reflexivity]. }
    rewrite Hz, Hc0. field. exact Hnz.
Qed.

(* ------------------------------------------------------------------ composition: one pipetting step *)

Lemma remove_single_ok L sw v label L' : remove L (A1 [sw]) (A1 [XQ v]) label = (L', None) ->
  exists i, lw_index L sw = Some i /\ Qltb (Qred (vol_at L i - v)) (lw_min L) = false /\ 0 <= v /\
            L' = log (rem_one L i v) label.
Proof.
  intro H. destruct (remove_accepted _ _ _ _ _ H) as (L1 & _ & Hok & Hrun & ->).
  cbv zeta in Hrun, Hok. cbn [flattenF broadcast length repeat zip] in Hrun, Hok.
  inversion Hok as [|it r0 Hv _]; subst. cbn [snd] in Hv. apply vol_ok_XQ in Hv.
  apply rem_run_loop in Hrun. rewrite remove_loop_cons in Hrun.
  destruct (lw_index L sw) as [i|]; [|discriminate].
  destruct (Qltb (Qred (vol_at L i - v)) (lw_min L)) eqn:E; [discriminate|].
  cbn [remove_loop] in Hrun. injection Hrun as <-. exists i. repeat split; assumption || reflexivity.
Qed.

Lemma add_single_ok L dw v label c L' : add L (A1 [dw]) (A1 [XQ v]) label (Some [Some c]) = (L', None) ->
  exists i, lw_index L dw = Some i /\ Qgtb (Qred (vol_at L i + v)) (lw_max L) = false /\ 0 <= v /\
            L' = log (add_one L i v (Some c)) label.
Proof.
  unfold add, prep_wells_vols. cbn [flattenF broadcast length repeat Nat.eqb negb forallb vol_ok].
  rewrite andb_true_r. destruct (Qle_bool 0 v) eqn:Ev; cbn [negb zip length Nat.eqb map fst snd]; [|discriminate].
  rewrite add_loop_cons. destruct (lw_index L dw) as [i|]; [|discriminate].
  destruct (Qgtb (Qred (vol_at L i + v)) (lw_max L)) eqn:E; [discriminate|].
  cbn [add_loop]. intro H. injection H as <-. exists i. apply Qle_bool_iff in Ev.
  repeat split; assumption || reflexivity.
Qed.

Lemma aspirate_single_state s ks sw v kw s1 :
  aspirate s ks (A0 sw) (A0 (XQ v)) None kw = (s1, None) ->
  exists Ls i, nth_error (st_lw s) ks = Some Ls /\ lw_index Ls sw = Some i /\
    Qltb (Qred (vol_at Ls i - v)) (lw_min Ls) = false /\ 0 <= v /\
    st_lw s1 = upd (st_lw s) ks (log (rem_one Ls i v) None).
Proof.
  unfold aspirate, wells_vols. destruct (nth_error (st_lw s) ks) as [Ls|]; [|discriminate].
  cbn [flattenF broadcast length repeat]. cbv beta zeta iota.
  destruct (remove Ls (A1 [sw]) (A1 [XQ v]) None) as [L' [e|]] eqn:Er; [discriminate|].
  destruct (remove_single_ok _ _ _ _ _ Er) as (i & Hi & Hc & Hv & ->).
  destruct (comment _ None) as [w [e|]]; [discriminate|].
  destruct (emit_wells true w _ _ kw) as [w' e']. intro H. injection H as <- _.
  exists Ls, i. repeat split; assumption || reflexivity.
Qed.

Lemma dispense_single_state s kd dw v c kw s2 :
  dispense s kd (A0 dw) (A0 (XQ v)) None (Some [Some c]) kw = (s2, None) ->
  exists Ld i, nth_error (st_lw s) kd = Some Ld /\ lw_index Ld dw = Some i /\
    Qgtb (Qred (vol_at Ld i + v)) (lw_max Ld) = false /\ 0 <= v /\
    st_lw s2 = upd (st_lw s) kd (log (add_one Ld i v (Some c)) None).
Proof.
  unfold dispense, wells_vols. destruct (nth_error (st_lw s) kd) as [Ld|]; [|discriminate].
  cbn [flattenF broadcast length repeat]. cbv beta zeta iota.
  destruct (add Ld (A1 [dw]) (A1 [XQ v]) None (Some [Some c])) as [L' [e|]] eqn:Er; [discriminate|].
  destruct (add_single_ok _ _ _ _ _ _ Er) as (i & Hi & Hc & Hv & ->).
  destruct (comment _ None) as [w [e|]]; [discriminate|].
  destruct (emit_wells false w _ _ kw) as [w' e']. intro H. injection H as <- _.
  exists Ld, i. repeat split; assumption || reflexivity.
Qed.

(** the labware list after a successful pipetting step *)
Lemma exec_step_state s ks kd sw dw v ws kw s' :
  exec_step s ks kd sw dw v ws kw = (s', None) ->
  exists Ls i_s Ld1 i_d,
    nth_error (st_lw s) ks = Some Ls /\ lw_index Ls sw = Some i_s /\
    Qltb (Qred (vol_at Ls i_s - v)) (lw_min Ls) = false /\ 0 <= v /\
    nth_error (upd (st_lw s) ks (log (rem_one Ls i_s v) None)) kd = Some Ld1 /\
    lw_index Ld1 dw = Some i_d /\ Qgtb (Qred (vol_at Ld1 i_d + v)) (lw_max Ld1) = false /\
    st_lw s' = upd (upd (st_lw s) ks (log (rem_one Ls i_s v) None)) kd
                   (log (add_one Ld1 i_d v (Some (wca (lw_comp Ls) i_s))) None).
Proof.
  unfold exec_step.
  destruct (aspirate s ks (A0 sw) (A0 (XQ v)) None kw) as [s1 [e|]] eqn:Ea; [discriminate|].
  destruct (aspirate_single_state _ _ _ _ _ _ Ea) as (Ls & i_s & HLs & His & Hcs & Hv & Hs1).
  assert (HL1 : nth_error (st_lw s1) ks = Some (log (rem_one Ls i_s v) None)).
  { rewrite Hs1. apply nth_error_upd_same. eapply nth_error_lt. exact HLs. }
  rewrite HL1. unfold get_well_composition.
  rewrite (lw_index_geom (log (rem_one Ls i_s v) None) Ls sw eq_refl), His.
  change (well_composition_at (log (rem_one Ls i_s v) None) i_s) with (wca (lw_comp Ls) i_s).
  destruct (dispense s1 kd (A0 dw) (A0 (XQ v)) None (Some [Some (wca (lw_comp Ls) i_s)]) kw) as [s2 [e|]] eqn:Ed;
    [discriminate|].
  destruct (dispense_single_state _ _ _ _ _ _ _ Ed) as (Ld1 & i_d & HLd & Hid & Hcd & _ & Hs2).
  destruct (tip_action (st_wl s2) ws) as [w e]. intro H. injection H as <- _.
  exists Ls, i_s, Ld1, i_d. cbn [st_lw set_wl]. rewrite <- Hs1. repeat split; assumption.
Qed.

Lemma do_aspirate_exact c d lws rb k L r i p v :
  sim_racks lws (rb_racks rb) -> NoDup (map lw_name lws) -> nth_error lws k = Some L ->
  nth_error (rb_racks rb) k = Some r -> unpos d (lw_geom L) p = Some i ->
  Qltb (Qred (vol_at L i - v)) (lw_min L) = false ->
  do_aspirate c d rb (lw_name L) p v =
  Some (with_rack rb k (set_rack_vol r i (nth i (rk_vols r) 0 - v)) (Some (fractions_at r i))).
Proof.
  intros Hsim ND HL Hr Hp Hchk.
  destruct (find_rack_sim _ _ _ _ Hsim ND HL) as (r' & Hf & Hr' & Hrs).
  rewrite Hr in Hr'. injection Hr' as <-. pose proof Hrs as (H1 & H2 & H3 & H4 & H5).
  assert (Hu : unpos d (rk_geom r) p = Some i) by (rewrite H2; exact Hp).
  unfold do_aspirate. rewrite Hf, Hr, Hu.
  assert (E : Qltb (nth i (rk_vols r) 0 - v) (rk_min r) = false).
  { rewrite <- Hchk. apply Qltb_compat; [|rewrite H3; reflexivity].
    rewrite Qred_correct. unfold vol_at. rewrite (Forall2_Qeq_nth _ _ i H5). reflexivity. }
  rewrite E, andb_false_r. reflexivity.
Qed.

Lemma do_dispense_exact c d lws rb k L r i p v :
  sim_racks lws (rb_racks rb) -> NoDup (map lw_name lws) -> nth_error lws k = Some L ->
  nth_error (rb_racks rb) k = Some r -> unpos d (lw_geom L) p = Some i ->
  Qgtb (Qred (vol_at L i + v)) (lw_max L) = false ->
  do_dispense c d rb (lw_name L) p v =
  Some (with_rack rb k
          {| rk_name := rk_name r; rk_geom := rk_geom r; rk_min := rk_min r; rk_max := rk_max r;
             rk_vols := upd (rk_vols r) i (nth i (rk_vols r) 0 + v);
             rk_comp := match rb_tip rb with
                        | Some g => mix_into r i (nth i (rk_vols r) 0) v g
                        | None => rk_comp r
                        end |} (rb_tip rb)).
Proof.
  intros Hsim ND HL Hr Hp Hchk.
  destruct (find_rack_sim _ _ _ _ Hsim ND HL) as (r' & Hf & Hr' & Hrs).
  rewrite Hr in Hr'. injection Hr' as <-. pose proof Hrs as (H1 & H2 & H3 & H4 & H5).
  assert (Hu : unpos d (rk_geom r) p = Some i) by (rewrite H2; exact Hp).
  unfold do_dispense. rewrite Hf, Hr, Hu.
  assert (E : Qgtb (nth i (rk_vols r) 0 + v) (rk_max r) = false).
  { rewrite <- Hchk. apply Qgtb_compat; [|rewrite H4; reflexivity].
    rewrite Qred_correct. unfold vol_at. rewrite (Forall2_Qeq_nth _ _ i H5). reflexivity. }
  rewrite E, andb_false_r. reflexivity.
Qed.

Lemma fget_fractions_at r i k : fget k (fractions_at r i) = cfrac (rk_comp r) k i.
Proof.
  unfold fget, fractions_at, cfrac.
  rewrite (assoc_get_map_val (fun _ a => nth i a 0)). destruct (assoc_get k (rk_comp r)); reflexivity.
Qed.

Lemma fractions_at_keys r i : map fst (fractions_at r i) = map fst (rk_comp r).
Proof. unfold fractions_at. rewrite map_map. reflexivity. Qed.

(** invariant of the tracked composition tables: distinct component names, no negative fraction *)
Definition cinv (L : labware) : Prop :=
  NoDup (map fst (lw_comp L)) /\ forall k j, 0 <= cfrac (lw_comp L) k j.

Definition cstate (s : state) : Prop := Forall cinv (st_lw s).

(** refinement including the compositions: every component has the same fraction in every well *)
Definition rack_csim (L : labware) (r : rack) : Prop :=
  rack_sim L r /\ arrays_len (length (rk_vols r)) (rk_comp r) /\ NoDup (map fst (rk_comp r)) /\
  forall k j, cfrac (rk_comp r) k j == cfrac (lw_comp L) k j.

Definition csim (s : state) (rb : robot) : Prop := Forall2 rack_csim (st_lw s) (rb_racks rb).

Lemma Forall2_imp {A B} (R R' : A -> B -> Prop) l1 l2 :
  (forall a b, R a b -> R' a b) -> Forall2 R l1 l2 -> Forall2 R' l1 l2.
Proof. intros Himp H. induction H as [|a b r1 r2 Hab _ IH]; constructor; auto. Qed.

Lemma csim_sim s rb : csim s rb -> sim s rb.
Proof. intro H. eapply Forall2_imp; [|exact H]. intros L r (Hs & _). exact Hs. Qed.


Lemma mix_formula_nonneg V v f g : 0 <= V -> 0 < v -> 0 <= f -> 0 <= g -> 0 <= (V * f + v * g) / (V + v).
Proof.
  intros HV Hv Hf Hg. apply Qle_shift_div_l; [lra|]. nra.
Qed.

Lemma nth_error_upd_some {A} (l : list A) k x j y : nth_error (upd l k x) j = Some y ->
  exists z, nth_error l j = Some z.
Proof.
  intro H. apply nth_error_lt in H. rewrite upd_length in H.
  destruct (nth_error l j) as [z|] eqn:E; [exists z; reflexivity|]. apply nth_error_None in E. lia.
Qed.

Theorem exec_step_csim s ks kd sw dw v ws kw s' rb :
  good_state s -> cstate s -> csim s rb -> 0 < v -> exec_step s ks kd sw dw v ws kw = (s', None) ->
  exists new rb', st_wl s' = emit (st_wl s) new /\
    interp true (w_dev (st_wl s)) rb new = Some rb' /\ csim s' rb' /\ cstate s'.
Proof.
  intros Hgood Hc Hcs Hv H. pose proof Hgood as (HS & ND & Hd). pose proof (csim_sim _ _ Hcs) as Hsim.
  destruct (exec_step_state _ _ _ _ _ _ _ _ _ H)
    as (Ls & i_s & Ld1 & i_d & HLs & His & Hchs & _ & HLd1 & Hid & Hchd & Hst).
  destruct (nth_error_upd_some _ _ _ _ _ HLd1) as [Ld HLd].
  set (d := w_dev (st_wl s)) in *.
  set (Ls' := log (rem_one Ls i_s v) None) in *.
  set (c := wca (lw_comp Ls) i_s) in *.
  set (Ld' := log (add_one Ld1 i_d v (Some c)) None) in *.
  assert (Hv0 : 0 <= v) by lra.
  (* --- the records *)
  destruct (exec_step_addressing _ _ _ _ _ _ _ _ _ _ _ H HLs HLd) as (nA & nD & n3 & W & Q3 & FA & FD).
  assert (Ex : xpos (XQ v) = true) by (cbn [xpos]; apply Qltb_true_intro; exact Hv).
  cbn [filter snd] in FA, FD. rewrite Ex in FA, FD.
  inversion FA as [|wx ra pre0 nA0 (fa & Era & A1 & A2 & A3 & A4) FA']; subst. inversion FA'; subst.
  inversion FD as [|wx rd pre0 nD0 (fd & Erd & D1 & D2 & D3 & D4) FD']; subst. inversion FD'; subst.
  cbn [fst snd xq] in A2, A4, D2, D4.
  (* --- well-formedness of the intermediate labware list *)
  pose proof (wf_nth _ _ _ HS HLs) as HWs.
  assert (HWs' : wf_labware Ls').
  { apply log_wf. destruct HWs as [Hsh Hvi]. split; [apply rem_one_shape; exact Hsh|].
    apply rem_one_vol_inv; assumption. }
  assert (HS1 : Forall wf_labware (upd (st_lw s) ks Ls')) by (apply Forall_upd; assumption).
  pose proof (Forall_nth_error _ _ _ _ HS1 HLd1) as HWd1.
  assert (Hc1 : Forall cinv (upd (st_lw s) ks Ls')).
  { apply Forall_upd; [exact Hc|]. exact (Forall_nth_error _ _ _ _ Hc HLs). }
  pose proof (Forall_nth_error _ _ _ _ Hc HLs) as (NDs & Hnns).
  pose proof (Forall_nth_error _ _ _ _ Hc1 HLd1) as (NDd & Hnnd).
  assert (Hlims1 : lw_name Ld1 = lw_name Ld /\ lw_geom Ld1 = lw_geom Ld).
  { destruct (Nat.eq_dec ks kd) as [<-|Hne].
    - rewrite nth_error_upd_same in HLd1 by (eapply nth_error_lt; exact HLs). injection HLd1 as <-.
      rewrite HLs in HLd. injection HLd as <-. split; reflexivity.
    - rewrite nth_error_upd_other in HLd1 by exact Hne. rewrite HLd in HLd1. injection HLd1 as <-.
      split; reflexivity. }
  destruct Hlims1 as [N1 G1].
  (* --- the robot: aspirate *)
  destruct (Forall2_nth_error_l _ _ _ _ _ Hcs HLs) as (r_s & Hr_s & (Hrs_s & HAs & HNs & HFs)).
  pose proof (lw_index_unpos d Ls sw i_s _ (proj1 (proj1 HWs)) Hd His A2) as Hus.
  set (r_s' := set_rack_vol r_s i_s (nth i_s (rk_vols r_s) 0 - v)).
  set (g := fractions_at r_s i_s).
  set (rb1 := with_rack rb ks r_s' (Some g)).
  assert (I1 : interp1 true d rb (RA fa) = Some rb1).
  { cbn [interp1]. rewrite A1, <- A4.
    apply (do_aspirate_exact true d (st_lw s) rb ks Ls r_s i_s); assumption. }
  assert (Hcs1 : Forall2 rack_csim (upd (st_lw s) ks Ls') (rb_racks rb1)).
  { unfold rb1, with_rack. cbn [rb_racks]. apply Forall2_upd; [exact Hcs|].
    split; [apply (rack_sim_obs (rem_one Ls i_s v)); [apply log_obs|apply rack_sim_rem_one; exact Hrs_s]|].
    unfold r_s', set_rack_vol. cbn [rk_vols rk_comp]. rewrite upd_length.
    split; [exact HAs|]. split; [exact HNs|exact HFs]. }
  assert (Hsim1 : sim_racks (upd (st_lw s) ks Ls') (rb_racks rb1)).
  { eapply Forall2_imp; [|exact Hcs1]. intros L r (Hx & _). exact Hx. }
  assert (ND1 : NoDup (map lw_name (upd (st_lw s) ks Ls'))) by (rewrite (names_upd _ _ Ls); [exact ND|exact HLs|reflexivity]).
  (* --- the robot: dispense *)
  destruct (Forall2_nth_error_l _ _ _ _ _ Hcs1 HLd1) as (r_d & Hr_d & (Hrs_d & HAd & HNd & HFd)).
  rewrite <- G1 in D2.
  pose proof (lw_index_unpos d Ld1 dw i_d _ (proj1 (proj1 HWd1)) Hd Hid D2) as Hud.
  set (V := nth i_d (rk_vols r_d) 0).
  set (r_d' := {| rk_name := rk_name r_d; rk_geom := rk_geom r_d; rk_min := rk_min r_d; rk_max := rk_max r_d;
                  rk_vols := upd (rk_vols r_d) i_d (V + v); rk_comp := mix_into r_d i_d V v g |}).
  set (rb2 := with_rack rb1 kd r_d' (Some g)).
  assert (I2 : interp1 true d rb1 (RD fd) = Some rb2).
  { cbn [interp1]. rewrite D1, <- D4, <- N1.
    rewrite (do_dispense_exact true d _ rb1 kd Ld1 r_d i_d _ v Hsim1 ND1 HLd1 Hr_d Hud Hchd). reflexivity. }
  destruct (interp_quiet true d n3 rb2 Q3) as (rb3 & I3 & R3).
  (* --- arithmetic facts *)
  pose proof Hrs_d as (_ & _ & _ & _ & Hvd).
  assert (HV : V == vol_at Ld1 i_d) by (unfold V, vol_at; symmetry; apply Forall2_Qeq_nth; exact Hvd).
  pose proof (vol_at_range Ld1 i_d (proj2 HWd1)) as [HV0 _].
  assert (Hnz : ~ vol_at Ld1 i_d + v == 0) by (intro C; lra).
  assert (Hnz' : ~ V + v == 0) by (intro C; lra).
  pose proof (lw_index_bound Ld1 dw i_d (wf_shape_shape0 _ (proj1 HWd1)) Hid) as Hid_lt.
  destruct (proj1 HWd1) as (_ & Hlen_d & Harr_d & _).
  assert (Hid_n : (i_d < n_wells (lw_geom Ld1))%nat) by (rewrite <- Hlen_d; exact Hid_lt).
  assert (Hid_r : (i_d < length (rk_vols r_d))%nat) by (rewrite <- (Forall2_length' _ _ _ Hvd); exact Hid_lt).
  assert (NC : NoDup (map fst c)) by (apply wca_NoDup; exact NDs).
  assert (Hgc : forall k, fget k g == fget k c).
  { intro k. unfold g, c. rewrite fget_fractions_at, HFs. symmetry. apply fget_wca; [exact NDs|apply Hnns]. }
  assert (Hfr : forall k j, cfrac (lw_comp (add_one Ld1 i_d v (Some c))) k j ==
            if (j =? i_d)%nat then (vol_at Ld1 i_d * cfrac (lw_comp Ld1) k i_d + v * fget k c) / (vol_at Ld1 i_d + v)
            else cfrac (lw_comp Ld1) k j).
  { intros k j. apply add_one_cfrac; try assumption. intro k0. apply Hnnd. }
  (* --- assemble *)
  exists ([RA fa] ++ [RD fd] ++ n3)%list, rb3. split; [exact W|]. split.
  { cbn [app interp]. rewrite I1, I2. exact I3. }
  split.
  - unfold csim. rewrite Hst, R3. unfold rb2, with_rack. cbn [rb_racks]. apply Forall2_upd; [exact Hcs1|].
    split; [apply (rack_sim_obs (add_one Ld1 i_d v (Some c))); [apply log_obs|apply rack_sim_add_one; exact Hrs_d]|].
    unfold r_d'. cbn [rk_vols rk_comp]. rewrite upd_length.
    assert (NG : NoDup (map fst g)) by (unfold g; rewrite fractions_at_keys; exact HNs).
    destruct (mix_into_inv r_d i_d V v g HAd HNd NG) as [MA MN].
    split; [exact MA|]. split; [exact MN|].
    intros k j. change (lw_comp Ld') with (lw_comp (add_one Ld1 i_d v (Some c))).
    rewrite (mix_into_cfrac r_d i_d V v g k j HAd Hid_r Hnz'), Hfr.
    destruct (j =? i_d)%nat; [|apply HFd]. rewrite HV, (HFd k i_d), (Hgc k). reflexivity.
  - unfold cstate. rewrite Hst. apply Forall_upd; [exact Hc1|]. split.
    + change (lw_comp Ld') with (lw_comp (add_one Ld1 i_d v (Some c))). unfold add_one. cbv zeta.
      rewrite write_composition_fold. apply wc_fold_NoDup. exact NDd.
    + intros k j. change (lw_comp Ld') with (lw_comp (add_one Ld1 i_d v (Some c))). rewrite Hfr.
      destruct (j =? i_d)%nat; [|apply Hnnd].
      apply mix_formula_nonneg; [exact HV0|exact Hv|apply Hnnd|].
      rewrite <- Hgc. unfold g. rewrite fget_fractions_at, HFs. apply Hnns.
Qed.

(* ------------------------------------------------------------------ composition: transfers and programs *)

Definition step_pos (a : action) : Prop := match a with Step _ _ v => 0 < v | Commit => True end.

Lemma plan_pos autosplit m mode triples : Forall step_pos (plan autosplit m mode triples).
Proof.
  unfold plan. apply Forall_flat_map. apply Forall_forall. intros grp _.
  unfold group_plan. cbv zeta. apply Forall_app. split.
  - apply Forall_flat_map. apply Forall_forall. intros p _. apply Forall_app. split.
    + unfold pass_steps. apply Forall_flat_map. apply Forall_forall. intros t _.
      destruct (nth_error (snd t) p) as [v|]; [|constructor].
      destruct (Qltb 0 v) eqn:E; [|constructor]. constructor; [|constructor]. apply Qltb_true. exact E.
    + destruct (_ && _ && _)%bool; [constructor; [exact I|constructor]|constructor].
  - destruct (1 <? _)%nat; [constructor; [exact I|constructor]|constructor].
Qed.

Lemma csim_set_wl s w rb : csim s rb -> csim (set_wl s w) rb.
Proof. intro H. exact H. Qed.

Lemma csim_racks s rb rb' : csim s rb -> rb_racks rb' = rb_racks rb -> csim s rb'.
Proof. intros H E. unfold csim. rewrite E. exact H. Qed.

Lemma rack_csim_obs L L' r : same_obs L L' -> lw_comp L' = lw_comp L -> rack_csim L r -> rack_csim L' r.
Proof.
  intros Ho Hc (H1 & H2 & H3 & H4). split; [eapply rack_sim_obs; eassumption|].
  split; [exact H2|]. split; [exact H3|]. rewrite Hc. exact H4.
Qed.

Lemma condense_comp L n label : lw_comp (condense_log L n label) = lw_comp L.
Proof. unfold condense_log. destruct (n <? 1)%nat; reflexivity. Qed.

Lemma csim_condense_at s k n label rb : csim s rb -> csim (condense_at s k n label) rb.
Proof.
  intro H. unfold condense_at. destruct (nth_error (st_lw s) k) as [L|] eqn:E; [|exact H].
  unfold csim, set_lw. cbn [st_lw].
  destruct (Forall2_nth_error_l _ _ _ _ _ H E) as (r & Hr & Hrc).
  eapply Forall2_upd_l; [exact H|exact Hr|].
  eapply rack_csim_obs; [apply condense_obs|apply condense_comp|exact Hrc].
Qed.

Lemma cstate_condense_at s k n label : cstate s -> cstate (condense_at s k n label).
Proof.
  intro H. unfold condense_at. destruct (nth_error (st_lw s) k) as [L|] eqn:E; [|exact H].
  unfold cstate, set_lw. cbn [st_lw]. apply Forall_upd; [exact H|].
  pose proof (Forall_nth_error _ _ _ _ H E) as Hc. unfold cinv. rewrite condense_comp. exact Hc.
Qed.

Theorem exec_csim ks kd ws kw acts : Forall step_pos acts -> forall s s' rb,
  good_state s -> cstate s -> csim s rb -> exec s ks kd acts ws kw = (s', None) ->
  exists new rb', st_wl s' = emit (st_wl s) new /\
    interp true (w_dev (st_wl s)) rb new = Some rb' /\ csim s' rb' /\ cstate s'.
Proof.
  induction acts as [|a rest IH]; intros Hpos s s' rb Hgood Hc Hcs H; cbn [exec] in H.
  - injection H as <-. exists [], rb. rewrite emit_nil. repeat (split; [reflexivity || assumption|]). assumption.
  - inversion Hpos as [|a' r' Ha Hrest]; subst. destruct a as [sw dw v|].
    + destruct (exec_step s ks kd sw dw v ws kw) as [s1 [e1|]] eqn:Es; [discriminate|].
      destruct (exec_step_csim _ _ _ _ _ _ _ _ _ _ Hgood Hc Hcs Ha Es) as (n1 & rb1 & W1 & I1 & S1 & C1).
      pose proof (exec_step_wf' _ _ _ _ _ _ _ _ _ _ Es (proj1 Hgood)) as HS1.
      destruct (good_next _ _ _ _ _ _ Hgood (csim_sim _ _ Hcs) W1 I1 (csim_sim _ _ S1) HS1) as [Hgood1 Hdev1].
      destruct (IH Hrest _ _ _ Hgood1 C1 S1 H) as (n2 & rb2 & W2 & I2 & S2 & C2). rewrite Hdev1 in I2.
      exists (n1 ++ n2)%list, rb2. split; [rewrite W2, W1, emit_emit; reflexivity|].
      split; [rewrite interp_app, I1; exact I2|]. split; assumption.
    + cbn [commit fst] in H.
      assert (Hgood1 : good_state (set_wl s (emit (st_wl s) [RB]))) by exact Hgood.
      destruct (IH Hrest _ _ rb Hgood1 Hc Hcs H) as (n2 & rb2 & W2 & I2 & S2 & C2).
      exists (RB :: n2), rb2. cbn [st_wl set_wl] in W2.
      split; [rewrite W2, emit_emit; reflexivity|]. split; [exact I2|]. split; assumption.
Qed.

Theorem transfer_csim s ks swells kd dwells vols label ws pb kw s' rb :
  good_state s -> cstate s -> csim s rb ->
  transfer s ks swells kd dwells vols label ws pb kw = (s', None) ->
  exists new rb', st_wl s' = emit (st_wl s) new /\
    interp true (w_dev (st_wl s)) rb new = Some rb' /\ csim s' rb' /\ cstate s'.
Proof.
  intros Hgood Hc Hcs H. unfold transfer in H. cbv zeta in H.
  destruct (w_dev (st_wl s)) eqn:Ed; [| |discriminate].
  all: destruct (nth_error (st_lw s) ks) as [Ls|]; [|discriminate];
    destruct (nth_error (st_lw s) kd) as [Ld|]; [|discriminate];
    destruct (negb _); [discriminate|];
    destruct (existsb _ _); [discriminate|];
    destruct (_ || _); [discriminate|];
    destruct (optimize_partition_by _ _ pb) as [mode|e0]; [|discriminate];
    destruct (comment (st_wl s) label) as [w [e1|]] eqn:Ec; [discriminate|];
    destruct (comment_quiet _ _ _ _ Ec) as (n0 & W0 & Q0);
    match type of H with context [exec ?st ?k1 ?k2 ?a ?sc ?kk] =>
      destruct (exec st k1 k2 a sc kk) as [s1 [e2|]] eqn:Ee; [discriminate|];
      assert (Hpos : Forall step_pos a) by apply plan_pos end.
  all: destruct (interp_quiet true (w_dev (st_wl s)) n0 rb Q0) as (rb0 & I0 & R0);
    assert (Hgood0 : good_state (set_wl s w))
      by (destruct Hgood as (A & B & C); split; [exact A|]; split; [exact B|]; cbn [st_wl set_wl]; rewrite W0; exact C);
    assert (Hcs0 : csim (set_wl s w) rb0) by (eapply csim_racks; [exact Hcs|exact R0]);
    destruct (exec_csim _ _ _ _ _ Hpos _ _ _ Hgood0 Hc Hcs0 Ee) as (n1 & rb1 & W1 & I1 & S1 & C1);
    cbn [st_wl set_wl] in W1, I1; rewrite W0 in I1; cbn [w_dev emit] in I1;
    assert (Hint : interp true (w_dev (st_wl s)) rb (n0 ++ n1) = Some rb1) by (rewrite interp_app, I0; exact I1);
    assert (Hw : st_wl s1 = emit (st_wl s) (n0 ++ n1)) by (rewrite W1, W0, emit_emit; reflexivity);
    rewrite Ed in Hint;
    destruct (ks =? kd)%nat; injection H as <-; exists (n0 ++ n1)%list, rb1; rewrite ?st_wl_condense;
    (split; [exact Hw|]); (split; [exact Hint|]);
    (split; [repeat apply csim_condense_at; exact S1|repeat apply cstate_condense_at; exact C1]).
Qed.

(** programs of transfers and record-only calls *)
Definition tr_op (o : op) : bool :=
  match o with
  | OTransfer _ _ _ _ _ _ _ _ _ | OComment _ | OWash _ | ODecon | OFlush | OCommit | OSetDiti _ => true
  | _ => false
  end.

Lemma on_wl_csim s f s' e rb :
  (forall w w' e, f w = (w', e) -> exists new, w' = emit w new /\ forallb quiet new = true) ->
  cstate s -> csim s rb -> on_wl s f = (s', e) ->
  exists new rb', st_wl s' = emit (st_wl s) new /\
    interp true (w_dev (st_wl s)) rb new = Some rb' /\ csim s' rb' /\ cstate s'.
Proof.
  intros Hf Hc Hcs H. unfold on_wl in H. destruct (f (st_wl s)) as [w e0] eqn:E. injection H as <- <-.
  destruct (Hf _ _ _ E) as (new & Hw & Hq).
  destruct (interp_quiet true (w_dev (st_wl s)) new rb Hq) as (rb' & A & B).
  exists new, rb'. split; [exact Hw|]. split; [exact A|]. split; [eapply csim_racks; [exact Hcs|exact B]|exact Hc].
Qed.

Theorem step_csim s o s' rb :
  good_state s -> cstate s -> csim s rb -> tr_op o = true -> step s o = (s', None) ->
  exists new rb', st_wl s' = emit (st_wl s) new /\
    interp true (w_dev (st_wl s)) rb new = Some rb' /\ csim s' rb' /\ cstate s'.
Proof.
  intros Hgood Hc Hcs Hop H.
  destruct o as [k wells vols label comps|k wells vols label|k n label|k wells vols label kw
                |k wells vols label comps kw|ks swells kd dwells vols label ws pb kw|ks kd dwells a
                |c|sch| | | |i|a|a|a|k a label|k a label comps|a]; try discriminate; cbn [step] in H.
  - eapply transfer_csim; eassumption.
  - apply (on_wl_csim s _ s' None rb (fun w w' e0 => comment_quiet w c w' e0) Hc Hcs H).
  - apply (on_wl_csim s _ s' None rb (fun w w' e0 => wash_spec w sch w' e0) Hc Hcs H).
  - apply (on_wl_csim s _ s' None rb decontaminate_spec Hc Hcs H).
  - apply (on_wl_csim s _ s' None rb flush_spec Hc Hcs H).
  - apply (on_wl_csim s _ s' None rb commit_spec Hc Hcs H).
  - apply (on_wl_csim s _ s' None rb (fun w w' e0 => set_diti_spec w i w' e0) Hc Hcs H).
Qed.

Theorem run_csim ops : forall s rb,
  good_state s -> cstate s -> csim s rb -> forallb tr_op ops = true ->
  Forall (fun e => e = None) (snd (run s ops)) ->
  exists new rb', st_wl (fst (run s ops)) = emit (st_wl s) new /\
    interp true (w_dev (st_wl s)) rb new = Some rb' /\ csim (fst (run s ops)) rb'.
Proof.
  induction ops as [|o r IH]; intros s rb Hgood Hc Hcs Hops Hall.
  - exists [], rb. cbn [run fst]. rewrite emit_nil. split; [reflexivity|]. split; [reflexivity|exact Hcs].
  - rewrite run_cons in *. cbn [fst snd] in *. cbn [forallb] in Hops. apply andb_true_iff in Hops.
    destruct Hops as [Ho Hr]. inversion Hall as [|e' es' He Hes]; subst.
    destruct (step s o) as [s1 e1] eqn:Es. cbn [fst snd] in *. subst e1.
    destruct (step_csim _ _ _ _ Hgood Hc Hcs Ho Es) as (n1 & rb1 & W1 & I1 & S1 & C1).
    pose proof (step_wf' _ _ _ _ Es (proj1 Hgood)) as HS1.
    destruct (good_next _ _ _ _ _ _ Hgood (csim_sim _ _ Hcs) W1 I1 (csim_sim _ _ S1) HS1) as [Hgood1 Hdev1].
    destruct (IH s1 rb1 Hgood1 C1 S1 Hr Hes) as (n2 & rb2 & W2 & I2 & S2). rewrite Hdev1 in I2.
    exists (n1 ++ n2)%list, rb2. split; [rewrite W2, W1, emit_emit; reflexivity|].
    split; [rewrite interp_app, I1; exact I2|exact S2].
Qed.

Lemma csim_robot_of s : wf_state s -> cstate s -> csim s (robot_of (st_lw s)).
Proof.
  intros HS Hc. unfold csim, robot_of. cbn [rb_racks]. unfold wf_state, cstate in *.
  induction (st_lw s) as [|L r IH]; cbn [map]; constructor.
  - inversion HS as [|L' r' [(Hg & Hlen & Harr & _) _] _]; subst. inversion Hc as [|L' r' [ND _] _]; subst.
    split; [apply rack_sim_of|]. unfold rack_of. cbn [rk_vols rk_comp].
    split; [unfold arrays_len; rewrite Hlen; exact Harr|]. split; [exact ND|]. intros k j. reflexivity.
  - inversion HS; subst. inversion Hc; subst. apply IH; assumption.
Qed.

(** C01_composition for programs of transfers: the replayed robot reports, for every component and every
    well, the fraction the Labware objects report *)
Theorem run_composition s0 ops :
  good_state s0 -> cstate s0 -> w_recs (st_wl s0) = [] -> forallb tr_op ops = true ->
  Forall (fun e => e = None) (snd (run s0 ops)) ->
  exists rb, interp false (w_dev (st_wl s0)) (robot_of (st_lw s0)) (w_recs (st_wl (fst (run s0 ops)))) = Some rb /\
             csim (fst (run s0 ops)) rb.
Proof.
  intros Hgood Hc Hrecs Hops Hall.
  destruct (run_csim ops s0 _ Hgood Hc (csim_robot_of s0 (proj1 Hgood) Hc) Hops Hall) as (new & rb & W & I & S).
  exists rb. rewrite W. cbn [w_recs emit]. rewrite Hrecs. cbn [app].
  split; [apply interp_unchecked; exact I|exact S].
Qed.

(** pointwise reading of [csim] *)
Lemma csim_fraction s rb k0 L r k j : csim s rb -> nth_error (st_lw s) k0 = Some L ->
  nth_error (rb_racks rb) k0 = Some r -> cfrac (rk_comp r) k j == cfrac (lw_comp L) k j.
Proof.
  intros H HL Hr. destruct (Forall2_nth_error_l _ _ _ _ _ H HL) as (r' & Hr' & (_ & _ & _ & Hf)).
  rewrite Hr in Hr'. injection Hr' as <-. apply Hf.
Qed.

(** the example state satisfies the composition invariant *)
Lemma nth_nonneg_4 a b c0 d0 j : 0 <= a -> 0 <= b -> 0 <= c0 -> 0 <= d0 -> 0 <= nth j [a; b; c0; d0] 0.
Proof. intros. destruct j as [|[|[|[|j]]]]; cbn [nth]; try assumption; destruct j; lra. Qed.

Lemma ex_state_cstate d : cstate (ex_state d).
Proof.
  unfold cstate, ex_state. cbn [st_lw]. constructor; [|constructor; [|constructor]].
  - split.
    + cbn. constructor; [intros [C|[]]; discriminate|constructor; [intros []|constructor]].
    + intros k j. unfold cfrac, ex_big. cbn [lw_comp assoc_get].
      destruct (String.eqb _ k); [apply nth_nonneg_4; lra|].
      destruct (String.eqb _ k); [apply nth_nonneg_4; lra|lra].
  - split.
    + cbn. constructor; [intros [C|[]]; discriminate|constructor; [intros []|constructor]].
    + intros k j. unfold cfrac, ex_t4. cbn [lw_comp assoc_get].
      destruct (String.eqb _ k); [destruct j as [|[|j]]; cbn [nth]; try lra; destruct j; lra|].
      destruct (String.eqb _ k); [destruct j as [|[|j]]; cbn [nth]; try lra; destruct j; lra|lra].
Qed.
