(** C05 lifted to whole programs ([Model/Program.v]: [op], [step], [run]): the composition invariants
    of Spec/Mixing.v hold in every state a program reaches, removals never change a composition,
    and programs of transfers / distributions neither create nor (when accepted) lose any component.
    Builds on Proofs/MixingProofs.v (the per-operation lemmas). *)
From Robo Require Import Prelude Str Wells Utils Labware Tips Records Partition Params Worklist
  EvoCmd Program Invariants Mixing WellsProofs MixingProofs.
From Coq Require Import Lqa.
#[local] Open Scope Q_scope.

(* ------------------------------------------------------------------ classes of operations
   (used in the statements of Props/C05.v) *)

(** the compositions an operation itself supplies: only [add], [dispense] and [evo_dispense] take
    caller-made compositions; transfers and distributions pass on what the source well holds *)
Definition op_comps (o : op) : option (option (list (option composition))) :=
  match o with
  | OAdd _ _ _ _ cs => Some cs
  | ODispense _ _ _ _ cs _ => Some cs
  | OEvoDisp _ _ _ cs => Some cs
  | _ => None
  end.

(** every composition the operation supplies is a dict of fractions ([comps_ok]) *)
Definition op_comps_ok (o : op) : Prop :=
  match op_comps o with Some cs => comps_ok cs | None => True end.

(** every liquid the operation brings in from outside has a complete composition ([comps_known]) *)
Definition op_comps_known (o : op) : Prop :=
  match op_comps o with Some cs => comps_known cs | None => True end.

(** operations that only take liquid out of wells *)
Definition op_removal (o : op) : Prop :=
  match o with
  | ORemove _ _ _ _ => True
  | OAspirate _ _ _ _ _ => True
  | OEvoAsp _ _ _ => True
  | _ => False
  end.

(** operations that only write records into the worklist (no labware is touched) *)
Definition op_record_only (o : op) : Prop :=
  match o with
  | OComment _ | OWash _ | ODecon | OFlush | OCommit | OSetDiti _
  | OAspWell _ | ODispWell _ | OReagent _ | OEvoWash _ => True
  | _ => False
  end.

(** operations that cannot write a composition: removals, [condense_log], record-only ones *)
Definition op_comp_neutral (o : op) : Prop :=
  match o with
  | OAdd _ _ _ _ _ => False
  | ODispense _ _ _ _ _ _ => False
  | OEvoDisp _ _ _ _ => False
  | OTransfer _ _ _ _ _ _ _ _ _ => False
  | ODistribute _ _ _ _ => False
  | _ => True
  end.

(** operations that move liquid only between wells of the labware set (or move none): no liquid
    enters from outside ([add], [dispense]) or leaves ([remove], [aspirate]) *)
Definition op_closed (o : op) : Prop :=
  match o with
  | OAdd _ _ _ _ _ => False
  | ORemove _ _ _ _ => False
  | OAspirate _ _ _ _ _ => False
  | ODispense _ _ _ _ _ _ => False
  | OEvoAsp _ _ _ => False
  | OEvoDisp _ _ _ _ => False
  | _ => True
  end.

(** the liquid-moving operations of a closed program were accepted *)
Definition moves_accepted (o : op) (e : option err) : Prop :=
  match o with
  | OTransfer _ _ _ _ _ _ _ _ _ => e = None
  | ODistribute _ _ _ _ => e = None
  | _ => True
  end.

Lemma op_closed_comps_ok o : op_closed o -> op_comps_ok o.
Proof. destruct o; intro H; try exact I; destruct H. Qed.

Lemma op_closed_comps_known o : op_closed o -> op_comps_known o.
Proof. destruct o; intro H; try exact I; destruct H. Qed.

Lemma op_removal_neutral o : op_removal o -> op_comp_neutral o.
Proof. destruct o; intro H; try exact I; destruct H. Qed.

Lemma op_record_only_neutral o : op_record_only o -> op_comp_neutral o.
Proof. destruct o; intro H; try exact I; destruct H. Qed.

(* ------------------------------------------------------------------ [on_lw], [on_wl], [run] *)

Lemma on_wl_st_lw s f : st_lw (fst (on_wl s f)) = st_lw s.
Proof. unfold on_wl. destruct (f (st_wl s)) as [w e]. reflexivity. Qed.

Lemma on_lw_st_lw s k f :
  st_lw (fst (on_lw s k f)) =
  match nth_error (st_lw s) k with Some L => upd (st_lw s) k (fst (f L)) | None => st_lw s end.
Proof.
  unfold on_lw. destruct (nth_error (st_lw s) k) as [L|]; [|reflexivity].
  destruct (f L) as [L' e]. reflexivity.
Qed.

Lemma on_lw_Forall (P : labware -> Prop) s k f : Forall P (st_lw s) ->
  (forall L, nth_error (st_lw s) k = Some L -> P (fst (f L))) ->
  Forall P (st_lw (fst (on_lw s k f))).
Proof.
  intros HP Hf. rewrite on_lw_st_lw. destruct (nth_error (st_lw s) k) as [L|] eqn:E; [|exact HP].
  apply Forall_upd'; [exact HP|]. apply Hf. reflexivity.
Qed.

Lemma evo_wash_st_lw s a : st_lw (fst (evo_wash s a)) = st_lw s.
Proof. unfold evo_wash. destruct (evo_wash_cmd a) as [cmd|e]; reflexivity. Qed.

(** a record-only operation leaves the labware list as it is *)
Lemma step_record_only s o : op_record_only o -> st_lw (fst (step s o)) = st_lw s.
Proof.
  destruct o; intro H; try (destruct H); cbn [step]; try apply on_wl_st_lw.
  destruct (w_dev (st_wl s)); try reflexivity. apply evo_wash_st_lw.
Qed.

Lemma step_condense s k n l : st_lw (fst (step s (OCondense k n l))) = st_lw (condense_at s k n l).
Proof.
  cbn [step]. unfold on_lw, condense_at. destruct (nth_error (st_lw s) k) as [L|]; reflexivity.
Qed.

Lemma run_fst_cons s o r : fst (run s (o :: r)) = fst (run (fst (step s o)) r).
Proof. cbn [run]. destruct (step s o) as [s1 e]. cbn [fst snd]. destruct (run s1 r) as [s2 es]. reflexivity. Qed.

Lemma run_snd_cons s o r : snd (run s (o :: r)) = snd (step s o) :: snd (run (fst (step s o)) r).
Proof. cbn [run]. destruct (step s o) as [s1 e]. cbn [fst snd]. destruct (run s1 r) as [s2 es]. reflexivity. Qed.

Lemma run_fst_app l1 : forall s l2, fst (run s (l1 ++ l2)) = fst (run (fst (run s l1)) l2).
Proof.
  induction l1 as [|o r IH]; intros s l2; [reflexivity|].
  rewrite <- app_comm_cons, !run_fst_cons. apply IH.
Qed.

Lemma run_snd_length ops : forall s, length (snd (run s ops)) = length ops.
Proof.
  induction ops as [|o r IH]; intro s; [reflexivity|].
  rewrite run_snd_cons. cbn [length]. rewrite IH. reflexivity.
Qed.

Lemma Forall_firstn' {A} (P : A -> Prop) (l : list A) : forall n, Forall P l -> Forall P (firstn n l).
Proof.
  induction l as [|x r IH]; intros n H; [destruct n; constructor|].
  destruct n as [|n]; [constructor|]. inversion H as [|x' r' Hx Hr]; subst.
  cbn [firstn]. constructor; [exact Hx|]. apply IH. exact Hr.
Qed.

Lemma firstn_S_nth_error {A} (l : list A) : forall n x, nth_error l n = Some x ->
  firstn (S n) l = (firstn n l ++ [x])%list.
Proof.
  induction l as [|y r IH]; intros n x E; [destruct n; discriminate|].
  destruct n as [|n]; cbn [nth_error] in E.
  - inversion E; subst. reflexivity.
  - change (firstn (S (S n)) (y :: r)) with (y :: firstn (S n) r). rewrite (IH n x E). reflexivity.
Qed.

(** the state after the first [n + 1] operations is one [step] after the state after the first [n] *)
Lemma run_prefix_step ops s n o : nth_error ops n = Some o ->
  fst (run s (firstn (S n) ops)) = fst (step (fst (run s (firstn n ops))) o).
Proof.
  intro E. rewrite (firstn_S_nth_error ops n o E), run_fst_app, run_fst_cons. reflexivity.
Qed.

(* ------------------------------------------------------------------ evo_aspirate / evo_dispense *)

Lemma evo_aspirate_st_lw s k a label :
  st_lw (fst (evo_aspirate s k a label)) =
  match nth_error (st_lw s) k with
  | None => st_lw s
  | Some L => upd (st_lw s) k
                (fst (remove L (A1 (flattenF (c_wells a)))
                        (A1 (broadcast (flattenF (evo_vols (c_volume a))) (length (flattenF (c_wells a)))))
                        label))
  end.
Proof.
  unfold evo_aspirate, wells_vols. destruct (nth_error (st_lw s) k) as [L|]; [|reflexivity].
  cbv beta zeta iota.
  destruct (remove L (A1 (flattenF (c_wells a)))
              (A1 (broadcast (flattenF (evo_vols (c_volume a))) (length (flattenF (c_wells a))))) label)
    as [L' [e|]]; [reflexivity|].
  destruct (comment (st_wl (set_lw s k L')) label) as [w [e|]]; [reflexivity|].
  destruct (evo_command "Aspirate" (n_row_ids (lw_geom L)) (g_cols (lw_geom L)) a (w_max w)) as [cmd|e];
    reflexivity.
Qed.

Lemma evo_dispense_st_lw s k a label comps :
  st_lw (fst (evo_dispense s k a label comps)) =
  match nth_error (st_lw s) k with
  | None => st_lw s
  | Some L => upd (st_lw s) k
                (fst (add L (A1 (flattenF (c_wells a)))
                        (A1 (broadcast (flattenF (evo_vols (c_volume a))) (length (flattenF (c_wells a)))))
                        label comps))
  end.
Proof.
  unfold evo_dispense, wells_vols. destruct (nth_error (st_lw s) k) as [L|]; [|reflexivity].
  cbv beta zeta iota.
  destruct (add L (A1 (flattenF (c_wells a)))
              (A1 (broadcast (flattenF (evo_vols (c_volume a))) (length (flattenF (c_wells a))))) label comps)
    as [L' [e|]]; [reflexivity|].
  destruct (comment (st_wl (set_lw s k L')) label) as [w [e|]]; [reflexivity|].
  destruct (evo_command "Dispense" (n_row_ids (lw_geom L)) (g_cols (lw_geom L)) a (w_max w)) as [cmd|e];
    reflexivity.
Qed.

Lemma evo_aspirate_comp s k a label :
  map lw_comp (st_lw (fst (evo_aspirate s k a label))) = map lw_comp (st_lw s).
Proof.
  rewrite evo_aspirate_st_lw. destruct (nth_error (st_lw s) k) as [L|] eqn:E; [|reflexivity].
  rewrite map_upd, remove_comp. apply upd_same_nth_error. rewrite nth_error_map, E. reflexivity.
Qed.

Lemma evo_aspirate_inv s k a label : st_inv s -> st_inv (fst (evo_aspirate s k a label)).
Proof.
  intro HI. unfold st_inv. rewrite evo_aspirate_st_lw.
  destruct (nth_error (st_lw s) k) as [L|] eqn:E; [|exact HI].
  apply Forall_upd'; [exact HI|]. apply remove_inv. exact (st_inv_nth s k L HI E).
Qed.

Lemma evo_dispense_inv s k a label comps : st_inv s -> comps_ok comps ->
  st_inv (fst (evo_dispense s k a label comps)).
Proof.
  intros HI HC. unfold st_inv. rewrite evo_dispense_st_lw.
  destruct (nth_error (st_lw s) k) as [L|] eqn:E; [|exact HI].
  apply Forall_upd'; [exact HI|]. apply add_inv; [exact (st_inv_nth s k L HI E)|exact HC].
Qed.

Lemma evo_aspirate_known s k a label : st_inv s -> st_known s ->
  st_known (fst (evo_aspirate s k a label)).
Proof.
  intros HI HK. unfold st_known. rewrite evo_aspirate_st_lw.
  destruct (nth_error (st_lw s) k) as [L|] eqn:E; [|exact HK].
  apply Forall_upd'; [exact HK|].
  apply remove_known_inv; [exact (st_inv_nth s k L HI E)|exact (st_known_nth s k L HK E)].
Qed.

Lemma evo_dispense_known s k a label comps : st_inv s -> st_known s -> comps_ok comps ->
  comps_known comps -> st_known (fst (evo_dispense s k a label comps)).
Proof.
  intros HI HK HC HKn. unfold st_known. rewrite evo_dispense_st_lw.
  destruct (nth_error (st_lw s) k) as [L|] eqn:E; [|exact HK].
  apply Forall_upd'; [exact HK|].
  apply add_known_inv; try assumption; [exact (st_inv_nth s k L HI E)|exact (st_known_nth s k L HK E)].
Qed.

(* ------------------------------------------------------------------ one step of a program *)

(** C05_step_invariant *)
Lemma step_inv s o : st_inv s -> op_comps_ok o -> st_inv (fst (step s o)).
Proof.
  intros HI HC.
  destruct o as [k ws vs l cs|k ws vs l|k n l|k ws vs l kw|k ws vs l cs kw|ks sw kd dw vs l sch pb kw
                |ks kd dw a|c|sch| | | |i|a|a|a|k a l|k a l cs|a];
    try (unfold st_inv; rewrite step_record_only by exact I; exact HI).
  - cbn [step]. apply on_lw_Forall; [exact HI|]. intros L E.
    apply add_inv; [exact (st_inv_nth s k L HI E)|exact HC].
  - cbn [step]. apply on_lw_Forall; [exact HI|]. intros L E.
    apply remove_inv. exact (st_inv_nth s k L HI E).
  - unfold st_inv. rewrite step_condense. apply condense_at_inv. exact HI.
  - cbn [step]. apply aspirate_inv. exact HI.
  - cbn [step]. apply dispense_inv; [exact HI|exact HC].
  - cbn [step]. apply transfer_inv. exact HI.
  - cbn [step]. apply distribute_inv. exact HI.
  - cbn [step]. destruct (w_dev (st_wl s)); try exact HI. apply evo_aspirate_inv. exact HI.
  - cbn [step]. destruct (w_dev (st_wl s)); try exact HI. apply evo_dispense_inv; [exact HI|exact HC].
Qed.

(** the step-level form of C05_run_known *)
Lemma step_known s o : st_inv s -> st_known s -> op_comps_ok o -> op_comps_known o ->
  st_known (fst (step s o)).
Proof.
  intros HI HK HC HN.
  destruct o as [k ws vs l cs|k ws vs l|k n l|k ws vs l kw|k ws vs l cs kw|ks sw kd dw vs l sch pb kw
                |ks kd dw a|c|sch| | | |i|a|a|a|k a l|k a l cs|a];
    try (unfold st_known; rewrite step_record_only by exact I; exact HK).
  - cbn [step]. apply on_lw_Forall; [exact HK|]. intros L E.
    apply add_known_inv; try assumption; [exact (st_inv_nth s k L HI E)|exact (st_known_nth s k L HK E)].
  - cbn [step]. apply on_lw_Forall; [exact HK|]. intros L E.
    apply remove_known_inv; [exact (st_inv_nth s k L HI E)|exact (st_known_nth s k L HK E)].
  - unfold st_known. rewrite step_condense. apply condense_at_known. exact HK.
  - cbn [step]. apply aspirate_known; assumption.
  - cbn [step]. apply dispense_known; assumption.
  - cbn [step]. apply transfer_known; assumption.
  - cbn [step]. apply distribute_known; assumption.
  - cbn [step]. destruct (w_dev (st_wl s)); try exact HK. apply evo_aspirate_known; assumption.
  - cbn [step]. destruct (w_dev (st_wl s)); try exact HK. apply evo_dispense_known; assumption.
Qed.

(** [condense_log] changes neither a volume nor a composition *)
Lemma condense_at_comp_vols s k n l :
  map lw_comp (st_lw (condense_at s k n l)) = map lw_comp (st_lw s) /\
  map lw_vols (st_lw (condense_at s k n l)) = map lw_vols (st_lw s).
Proof.
  unfold condense_at. destruct (nth_error (st_lw s) k) as [L|] eqn:E; [|split; reflexivity].
  destruct (condense_log_comp L n l) as (Ec & Ev & _). cbn [set_lw st_lw].
  split; rewrite map_upd; apply upd_same_nth_error; rewrite nth_error_map, E; cbn [option_map];
    [rewrite Ec|rewrite Ev]; reflexivity.
Qed.

Lemma step_condense_same s k n l :
  map lw_comp (st_lw (fst (step s (OCondense k n l)))) = map lw_comp (st_lw s) /\
  map lw_vols (st_lw (fst (step s (OCondense k n l)))) = map lw_vols (st_lw s).
Proof. rewrite step_condense. apply condense_at_comp_vols. Qed.

(** C05_run_removal_neutral, one step: removals, [condense_log] and record-only operations leave
    every composition table as it is, accepted or rejected *)
Lemma step_comp_neutral s o : op_comp_neutral o ->
  map lw_comp (st_lw (fst (step s o))) = map lw_comp (st_lw s).
Proof.
  destruct o as [k ws vs l cs|k ws vs l|k n l|k ws vs l kw|k ws vs l cs kw|ks sw kd dw vs l sch pb kw
                |ks kd dw a|c|sch| | | |i|a|a|a|k a l|k a l cs|a];
    intro H; try (destruct H); try (rewrite step_record_only by exact I; reflexivity).
  - cbn [step]. rewrite on_lw_st_lw. destruct (nth_error (st_lw s) k) as [L|] eqn:E; [|reflexivity].
    rewrite map_upd, remove_comp. apply upd_same_nth_error. rewrite nth_error_map, E. reflexivity.
  - apply step_condense_same.
  - cbn [step]. apply aspirate_comp.
  - cbn [step]. destruct (w_dev (st_wl s)); try reflexivity. apply evo_aspirate_comp.
Qed.

(* ------------------------------------------------------------------ whole programs: invariants *)

Lemma run_inv ops : forall s, st_inv s -> Forall op_comps_ok ops -> st_inv (fst (run s ops)).
Proof.
  induction ops as [|o r IH]; intros s HI HF; [exact HI|].
  inversion HF as [|o' r' Ho Hr]; subst. rewrite run_fst_cons. apply IH; [|exact Hr].
  apply step_inv; assumption.
Qed.

Lemma run_known ops : forall s, st_inv s -> st_known s -> Forall op_comps_ok ops ->
  Forall op_comps_known ops -> st_known (fst (run s ops)).
Proof.
  induction ops as [|o r IH]; intros s HI HK HF HN; [exact HK|].
  inversion HF as [|o' r' Ho Hr]; subst. inversion HN as [|o'' r'' Hn Hnr]; subst.
  rewrite run_fst_cons. apply IH; try assumption; [apply step_inv|apply step_known]; assumption.
Qed.

(** what [st_inv] says about the numbers of every labware of a state *)
Definition fractions_ok (L : labware) : Prop :=
  (forall k i, 0 <= frac L k i /\ frac L k i <= 1) /\
  (forall i, (i < n_wells (lw_geom L))%nat -> 0 <= well_sum L i /\ well_sum L i <= 1) /\
  (forall i, 0 <= vol_at L i).

Lemma mix_inv_fractions L : mix_inv L -> fractions_ok L.
Proof.
  intro HI. split; [|split].
  - intros k i. exact (comp_inv_frac L k i (proj2 HI)).
  - intros i Hi. exact (mix_inv_well_sum L i HI Hi).
  - intro i. exact (vol_base_vol_at L i (proj1 HI)).
Qed.

(** C05_run_invariant: every state a program reaches (the state after any prefix, the final state
    for [n >= length ops]) satisfies the invariant, hence all its fractions and well sums are in [0, 1] *)
Lemma run_invariant ops s n : st_inv s -> Forall op_comps_ok ops ->
  st_inv (fst (run s (firstn n ops))) /\
  forall L, In L (st_lw (fst (run s (firstn n ops)))) -> fractions_ok L.
Proof.
  intros HI HF.
  assert (H : st_inv (fst (run s (firstn n ops)))) by (apply run_inv; [exact HI|apply Forall_firstn'; exact HF]).
  split; [exact H|]. intros L HL. apply mix_inv_fractions. unfold st_inv in H.
  rewrite Forall_forall in H. apply H. exact HL.
Qed.

(** C05_run_known: in every reachable state the fractions of every non-empty well sum to exactly 1 *)
Lemma run_known_all ops s n : st_inv s -> st_known s -> Forall op_comps_ok ops ->
  Forall op_comps_known ops ->
  st_known (fst (run s (firstn n ops))) /\
  forall L, In L (st_lw (fst (run s (firstn n ops)))) ->
    forall i, (i < n_wells (lw_geom L))%nat -> ~ vol_at L i == 0 -> well_sum L i == 1.
Proof.
  intros HI HK HF HN.
  assert (H : st_known (fst (run s (firstn n ops))))
    by (apply run_known; try assumption; apply Forall_firstn'; assumption).
  split; [exact H|]. intros L HL. unfold st_known in H. rewrite Forall_forall in H. exact (H L HL).
Qed.

(** a state made of labware that came out of the constructors satisfies both invariants *)
Definition constructed (L : labware) : Prop :=
  (exists a, mk_labware a = Ok L) \/ (exists a, mk_trough a = Ok L).

Lemma constructed_inv lws w : Forall constructed lws ->
  st_inv {| st_lw := lws; st_wl := w |} /\ st_known {| st_lw := lws; st_wl := w |}.
Proof.
  intro H. unfold st_inv, st_known. cbn [st_lw].
  split; (eapply Forall_impl; [|exact H]); intros L [[a E]|[a E]].
  - exact (mk_labware_mix_inv a L E).
  - exact (mk_trough_mix_inv a L E).
  - exact (mk_labware_known a L E).
  - exact (mk_trough_known a L E).
Qed.

(** the top-level statement: from constructed labware, through any program *)
Lemma run_from_constructors lws w ops n : Forall constructed lws -> Forall op_comps_ok ops ->
  let s' := fst (run {| st_lw := lws; st_wl := w |} (firstn n ops)) in
  (forall L, In L (st_lw s') -> fractions_ok L) /\
  (Forall op_comps_known ops ->
   forall L, In L (st_lw s') ->
     forall i, (i < n_wells (lw_geom L))%nat -> ~ vol_at L i == 0 -> well_sum L i == 1).
Proof.
  intros HC HF. destruct (constructed_inv lws w HC) as [HI HK]. cbv zeta. split.
  - exact (proj2 (run_invariant ops _ n HI HF)).
  - intro HN. exact (proj2 (run_known_all ops _ n HI HK HF HN)).
Qed.

(** C05_run_removal_neutral: at whatever position of whatever program a removal ([ORemove],
    [OAspirate], [OEvoAsp]) stands, the composition tables after it are those before it *)
Lemma run_removal_neutral ops s n o : nth_error ops n = Some o -> op_comp_neutral o ->
  map lw_comp (st_lw (fst (run s (firstn (S n) ops)))) = map lw_comp (st_lw (fst (run s (firstn n ops)))).
Proof. intros E H. rewrite (run_prefix_step ops s n o E). apply step_comp_neutral. exact H. Qed.

(** a program that contains no addition, dispense, transfer or distribution changes no composition *)
Lemma run_comp_neutral ops : forall s, Forall op_comp_neutral ops ->
  map lw_comp (st_lw (fst (run s ops))) = map lw_comp (st_lw s).
Proof.
  induction ops as [|o r IH]; intros s HF; [reflexivity|].
  inversion HF as [|o' r' Ho Hr]; subst. rewrite run_fst_cons, (IH _ Hr). apply step_comp_neutral. exact Ho.
Qed.

(* ------------------------------------------------------------------ whole programs: conservation *)

(** one step of a closed program whose transfer / distribution was accepted *)
Lemma step_conserved s o k : st_inv s -> op_closed o -> moves_accepted o (snd (step s o)) ->
  total_amount (st_lw (fst (step s o))) k == total_amount (st_lw s) k.
Proof.
  intros HI HC HA.
  destruct o as [k0 ws vs l cs|k0 ws vs l|k0 n l|k0 ws vs l kw|k0 ws vs l cs kw|ks sw kd dw vs l sch pb kw
                |ks kd dw a|c|sch| | | |i|a|a|a|k0 a l|k0 a l cs|a];
    try (destruct HC); try (rewrite step_record_only by exact I; reflexivity).
  - rewrite step_condense, condense_at_amount. reflexivity.
  - cbn [step moves_accepted] in *.
    destruct (transfer s ks sw kd dw vs l sch pb kw) as [s' e] eqn:E. cbn [fst snd] in *. subst e.
    exact (transfer_conserved s ks sw kd dw vs l sch pb kw s' k HI E).
  - cbn [step moves_accepted] in *.
    destruct (distribute s ks kd dw a) as [s' e] eqn:E. cbn [fst snd] in *. subst e.
    exact (distribute_conserved s ks kd dw a s' k HI E).
Qed.

Lemma run_conserved_strong ops : forall s k, st_inv s -> Forall op_closed ops ->
  Forall2 moves_accepted ops (snd (run s ops)) ->
  total_amount (st_lw (fst (run s ops))) k == total_amount (st_lw s) k.
Proof.
  induction ops as [|o r IH]; intros s k HI HF HA; [reflexivity|].
  inversion HF as [|o' r' Ho Hr]; subst. rewrite run_snd_cons in HA.
  inversion HA as [|o'' e r'' es Hoe Hres]; subst. rewrite run_fst_cons.
  rewrite (IH (fst (step s o)) k); [apply step_conserved; assumption| |exact Hr|exact Hres].
  apply step_inv; [exact HI|]. apply op_closed_comps_ok. exact Ho.
Qed.

Lemma all_none_accepted ops : forall (es : list (option err)), length es = length ops ->
  Forall (fun e => e = None) es -> Forall2 moves_accepted ops es.
Proof.
  induction ops as [|o r IH]; intros es Hl HN.
  - destruct es as [|e es]; [constructor|discriminate].
  - destruct es as [|e es]; [discriminate|]. inversion HN as [|e' es' He Hes]; subst.
    constructor; [destruct o; cbn [moves_accepted]; trivial|]. apply IH; [|exact Hes].
    cbn [length] in Hl. injection Hl as Hl. exact Hl.
Qed.

(** C05_run_conserved *)
Lemma run_conserved ops s k : st_inv s -> Forall op_closed ops ->
  Forall (fun e => e = None) (snd (run s ops)) ->
  total_amount (st_lw (fst (run s ops))) k == total_amount (st_lw s) k.
Proof.
  intros HI HF HN. apply run_conserved_strong; try assumption.
  apply all_none_accepted; [apply run_snd_length|exact HN].
Qed.
