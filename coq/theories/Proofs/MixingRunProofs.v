(** C05 lifted to whole programs ([Model/Program.v]: [op], [step], [run]): the composition invariants
    of Spec/Mixing.v hold in every state a program reaches, removals never change a composition,
    and programs of transfers / distributions neither create nor (when accepted) lose any component.
    Builds on Proofs/MixingProofs.v (the per-operation lemmas). *)
From Robo Require Import Prelude Str Wells Utils Labware Tips Records Partition Params Worklist
  EvoCmd Program Invariants Mixing WellsProofs MixingProofs.
From Coq Require Import Lqa.
#[local] Open Scope Q_scope.

(* ------------------------------------------------------------------ classes of operations
   (used in the statements of Props/C05.v) *)

(** the compositions an operation itself supplies: only [add], [dispense] and [evo_dispense] take
    caller-made compositions; transfers and distributions pass on what the source well holds *)
Definition op_comps (o : op) : option (option (list (option composition))) :=
  match o with
  | OAdd _ _ _ _ cs => Some cs
  | ODispense _ _ _ _ cs _ => Some cs
  | OEvoDisp _ _ _ cs => Some cs
  | _ => None
  end.

(** every composition the operation supplies is a dict of fractions ([comps_ok]) *)
Definition op_comps_ok (o : op) : Prop :=
  match op_comps o with Some cs => comps_ok cs | None => True end.

(** every liquid the operation brings in from outside has a complete composition ([comps_known]) *)
Definition op_comps_known (o : op) : Prop :=
  match op_comps o with Some cs => comps_known cs | None => True end.

(** operations that only take liquid out of wells *)
Definition op_removal (o : op) : Prop :=
  match o with
  | ORemove _ _ _ _ => True
  | OAspirate _ _ _ _ _ => True
  | OEvoAsp _ _ _ => True
  | _ => False
  end.

(** operations that only write records into the worklist (no labware is touched) *)
Definition op_record_only (o : op) : Prop :=
  match o with
  | OComment _ | OWash _ | ODecon | OFlush | OCommit | OSetDiti _
  | OAspWell _ | ODispWell _ | OReagent _ | OEvoWash _ => True
  | _ => False
  end.

(** operations that cannot write a composition: removals, [condense_log], record-only ones *)
Definition op_comp_neutral (o : op) : Prop :=
  match o with
  | OAdd _ _ _ _ _ => False
  | ODispense _ _ _ _ _ _ => False
  | OEvoDisp _ _ _ _ => False
  | OTransfer _ _ _ _ _ _ _ _ _ => False
  | ODistribute _ _ _ _ => False
  | _ => True
  end.

(** operations that move liquid only between wells of the labware set (or move none): no liquid
    enters from outside ([add], [dispense]) or leaves ([remove], [aspirate]) *)
Definition op_closed (o : op) : Prop :=
  match o with
  | OAdd _ _ _ _ _ => False
  | ORemove _ _ _ _ => False
  | OAspirate _ _ _ _ _ => False
  | ODispense _ _ _ _ _ _ => False
  | OEvoAsp _ _ _ => False
  | OEvoDisp _ _ _ _ => False
  | _ => True
  end.

(** the liquid-moving operations of a closed program were accepted *)
Definition moves_accepted (o : op) (e : option err) : Prop :=
  match o with
  | OTransfer _ _ _ _ _ _ _ _ _ => e = None
  | ODistribute _ _ _ _ => e = None
  | _ => True
  end.

Lemma op_closed_comps_ok o : op_closed o -> op_comps_ok o.
Proof. destruct o; intro H; try exact I; destruct H. Qed.

Lemma op_closed_comps_known o : op_closed o -> op_comps_known o.
Proof. destruct o; intro H; try exact I; destruct H. Qed.

Lemma op_removal_neutral o : op_removal o -> op_comp_neutral o.
Proof. destruct o; intro H; try exact I; destruct H. Qed.

Lemma op_record_only_neutral o : op_record_only o -> op_comp_neutral o.
Proof. destruct o; intro H; try exact I; destruct H. Qed.

(* ------------------------------------------------------------------ [on_lw], [on_wl], [run] *)

Lemma on_wl_st_lw s f : st_lw (fst (on_wl s f)) = st_lw s.
Proof. unfold on_wl. destruct (f (st_wl s)) as [w e]. reflexivity. Qed.

Lemma on_lw_st_lw s k f :
  st_lw (fst (on_lw s k f)) =
  match nth_error (st_lw s) k with Some L => upd (st_lw s) k (fst (f L)) | None => st_lw s end.
Proof.
  unfold on_lw. destruct (nth_error (st_lw s) k) as [L|]; [|reflexivity].
  destruct (f L) as [L' e]. reflexivity.
Qed.

Lemma on_lw_Forall (P : labware -> Prop) s k f : Forall P (st_lw s) ->
  (forall L, nth_error (st_lw s) k = Some L -> P (fst (f L))) ->
  Forall P (st_lw (fst (on_lw s k f))).
Proof.
  intros HP Hf. rewrite on_lw_st_lw. destruct (nth_error (st_lw s) k) as [L|] eqn:E; [|exact HP].
  apply Forall_upd'; [exact HP|]. apply Hf. reflexivity.
Qed.

Lemma evo_wash_st_lw s a : st_lw (fst (evo_wash s a)) = st_lw s.
Proof. unfold evo_wash. destruct (evo_wash_cmd a) as [cmd|e]; reflexivity. Qed.

(** a record-only operation leaves the labware list as it is *)
Lemma step_record_only s o : op_record_only o -> st_lw (fst (step s o)) = st_lw s.
Proof.
  destruct o; intro H; try (destruct H); cbn [step]; try apply on_wl_st_lw.
  destruct (w_dev (st_wl s)); try reflexivity. apply evo_wash_st_lw.
Qed.

Lemma step_condense s k n l : st_lw (fst (step s (OCondense k n l))) = st_lw (condense_at s k n l).
Proof.
  cbn [step]. unfold on_lw, condense_at. destruct (nth_error (st_lw s) k) as [L|]; reflexivity.
Qed.

Lemma run_fst_cons s o r : fst (run s (o :: r)) = fst (run (fst (step s o)) r).
Proof. cbn [run]. destruct (step s o) as [s1 e]. cbn [fst snd]. destruct (run s1 r) as [s2 es]. reflexivity. Qed.

Lemma run_snd_cons s o r : snd (run s (o :: r)) = snd (step s o) :: snd (run (fst (step s o)) r).
Proof. cbn [run]. destruct (step s o) as [s1 e]. cbn [fst snd]. destruct (run s1 r) as [s2 es]. reflexivity. Qed.

Lemma run_fst_app l1 : forall s l2, fst (run s (l1 ++ l2)) = fst (run (fst (run s l1)) l2).
Proof.
  induction l1 as [|o r IH]; intros s l2; [reflexivity|].
  rewrite <- app_comm_cons, !run_fst_cons. apply IH.
Qed.

Lemma run_snd_length ops : forall s, length (snd (run s ops)) = length ops.
Proof.
  induction ops as [|o r IH]; intro s; [reflexivity|].
  rewrite run_snd_cons. cbn [length]. rewrite IH. reflexivity.
Qed.

Lemma Forall_firstn' {A} (P : A -> Prop) (l : list A) : forall n, Forall P l -> Forall P (firstn n l).
Proof.
  induction l as [|x r IH]; intros n H; [destruct n; constructor|].
  destruct n as [|n]; [constructor|]. inversion H as [|x' r' Hx Hr]; subst.
  cbn [firstn]. constructor; [exact Hx|]. apply IH. exact Hr.
Qed.

Lemma firstn_S_nth_error {A} (l : list A) : forall n x, nth_error l n = Some x ->
  firstn (S n) l = (firstn n l ++ [x])%list.
Proof.
  induction l as [|y r IH]; intros n x E; [destruct n; discriminate|].
  destruct n as [|n]; cbn [nth_error] in E.
  - inversion E; subst. reflexivity.
  - change (firstn (S (S n)) (y :: r)) with (y :: firstn (S n) r). rewrite (IH n x E). reflexivity.
Qed.

(** the state after the first [n + 1] operations is one [step] after the state after the first [n] *)
Lemma run_prefix_step ops s n o : nth_error ops n = Some o ->
  fst (run s (firstn (S n) ops)) = fst (step (fst (run s (firstn n ops))) o).
Proof.
  intro E. rewrite (firstn_S_nth_error ops n o E), run_fst_app, run_fst_cons. reflexivity.
Qed.

(* ------------------------------------------------------------------ evo_aspirate / evo_dispense *)

Lemma evo_aspirate_st_lw s k a label :
  st_lw (fst (evo_aspirate s k a label)) =
  match nth_error (st_lw s) k with
  | None => st_lw s
  | Some L => upd (st_lw s) k
                (fst (remove L (A1 (flattenF (c_wells a)))
                        (A1 (broadcast (flattenF (evo_vols (c_volume a))) (length (flattenF (c_wells a)))))
                        label))
  end.
Proof.
  unfold evo_aspirate, wells_vols. destruct (nth_error (st_lw s) k) as [L|]; [|reflexivity].
  cbv beta zeta iota.
  destruct (remove L (A1 (flattenF (c_wells a)))
              (A1 (broadcast (flattenF (evo_vols (c_volume a))) (length (flattenF (c_wells a))))) label)
    as [L' [e|]]; [reflexivity|].
  destruct (comment (st_wl (set_lw s k L')) label) as [w [e|]]; [reflexivity|].
  destruct (evo_command "Aspirate" (n_row_ids (lw_geom L)) (g_cols (lw_geom L)) a (w_max w)) as [cmd|e];
    reflexivity.
Qed.

Lemma evo_dispense_st_lw s k a label comps :
  st_lw (fst (evo_dispense s k a label comps)) =
  match nth_error (st_lw s) k with
  | None => st_lw s
  | Some L => upd (st_lw s) k
                (fst (add L (A1 (flattenF (c_wells a)))
                        (A1 (broadcast (flattenF (evo_vols (c_volume a))) (length (flattenF (c_wells a)))))
                        label comps))
  end.
Proof.
  unfold evo_dispense, wells_vols. destruct (nth_error (st_lw s) k) as [L|]; [|reflexivity].
  cbv beta zeta iota.
  destruct (add L (A1 (flattenF (c_wells a)))
              (A1 (broadcast (flattenF (evo_vols (c_volume a))) (length (flattenF (c_wells a))))) label comps)
    as [L' [e|]]; [reflexivity|].
  destruct (comment (st_wl (set_lw s k L')) label) as [w [e|]]; [reflexivity|].
  destruct (evo_command "Dispense" (n_row_ids (lw_geom L)) (g_cols (lw_geom L)) a (w_max w)) as [cmd|e];
    reflexivity.
Qed.

Lemma evo_aspirate_comp s k a label :
  map lw_comp (st_lw (fst (evo_aspirate s k a label))) = map lw_comp (st_lw s).
Proof.
  rewrite evo_aspirate_st_lw. destruct (nth_error (st_lw s) k) as [L|] eqn:E; [|reflexivity].
  rewrite map_upd, remove_comp. apply upd_same_nth_error. rewrite nth_error_map, E. reflexivity.
Qed.

Lemma evo_aspirate_inv s k a label : st_inv s -> st_inv (fst (evo_aspirate s k a label)).
Proof.
  intro HI. unfold st_inv. rewrite evo_aspirate_st_lw.
  destruct (nth_error (st_lw s) k) as [L|] eqn:E; [|exact HI].
  apply Forall_upd'; [exact HI|]. apply remove_inv. exact (st_inv_nth s k L HI E).
Qed.

Lemma evo_dispense_inv s k a label comps : st_inv s -> comps_ok comps ->
  st_inv (fst (evo_dispense s k a label comps)).
Proof.
  intros HI HC. unfold st_inv. rewrite evo_dispense_st_lw.
  destruct (nth_error (st_lw s) k) as [L|] eqn:E; [|exact HI].
  apply Forall_upd'; [exact HI|]. apply add_inv; [exact (st_inv_nth s k L HI E)|exact HC].
Qed.

Lemma evo_aspirate_known s k a label : st_inv s -> st_known s ->
  st_known (fst (evo_aspirate s k a label)).
Proof.
  intros HI HK. unfold st_known. rewrite evo_aspirate_st_lw.
  destruct (nth_error (st_lw s) k) as [L|] eqn:E; [|exact HK].
  apply Forall_upd'; [exact HK|].
  apply remove_known_inv; [exact (st_inv_nth s k L HI E)|exact (st_known_nth s k L HK E)].
Qed.

Lemma evo_dispense_known s k a label comps : st_inv s -> st_known s -> comps_ok comps ->
  comps_known comps -> st_known (fst (evo_dispense s k a label comps)).
Proof.
  intros HI HK HC HKn. unfold st_known. rewrite evo_dispense_st_lw.
  destruct (nth_error (st_lw s) k) as [L|] eqn:E; [|exact HK].
  apply Forall_upd'; [exact HK|].
  apply add_known_inv; try assumption; [exact (st_inv_nth s k L HI E)|exact (st_known_nth s k L HK E)].
Qed.

(* ------------------------------------------------------------------ one step of a program *)

(** C05_step_invariant *)
Lemma step_inv s o : st_inv s -> op_comps_ok o -> st_inv (fst (step s o)).
Proof.
  intros HI HC.
  destruct o as [k ws vs l cs|k ws vs l|k n l|k ws vs l kw|k ws vs l cs kw|ks sw kd dw vs l sch pb kw
                |ks kd dw a|c|sch| | | |i|a|a|a|k a l|k a l cs|a];
    try (unfold st_inv; rewrite step_record_only by exact I; exact HI).
  - cbn [step]. apply on_lw_Forall; [exact HI|]. intros L E.
    apply add_inv; [exact (st_inv_nth s k L HI E)|exact HC].
  - cbn [step]. apply on_lw_Forall; [exact HI|]. intros L E.
    apply remove_inv. exact (st_inv_nth s k L HI E).
  - unfold st_inv. rewrite step_condense. apply condense_at_inv. exact HI.
  - cbn [step]. apply aspirate_inv. exact HI.
  - cbn [step]. apply dispense_inv; [exact HI|exact HC].
  - cbn [step]. apply transfer_inv. exact HI.
  - cbn [step]. apply distribute_inv. exact HI.
  - cbn [step]. destruct (w_dev (st_wl s)); try exact HI. apply evo_aspirate_inv. exact HI.
  - cbn [step]. destruct (w_dev (st_wl s)); try exact HI. apply evo_dispense_inv; [exact HI|exact HC].
Qed.

(** the step-level form of C05_run_known *)
Lemma step_known s o : st_inv s -> st_known s -> op_comps_ok o -> op_comps_known o ->
  st_known (fst (step s o)).
Proof.
  intros HI HK HC HN.
  destruct o as [k ws vs l cs|k ws vs l|k n l|k ws vs l kw|k ws vs l cs kw|ks sw kd dw vs l sch pb kw
                |ks kd dw a|c|sch| | | |i|a|a|a|k a l|k a l cs|a];
    try (unfold st_known; rewrite step_record_only by exact I; exact HK).
  - cbn [step]. apply on_lw_Forall; [exact HK|]. intros L E.
    apply add_known_inv; try assumption; [exact (st_inv_nth s k L HI E)|exact (st_known_nth s k L HK E)].
  - cbn [step]. apply on_lw_Forall; [exact HK|]. intros L E.
    apply remove_known_inv; [exact (st_inv_nth s k L HI E)|exact (st_known_nth s k L HK E)].
  - unfold st_known. rewrite step_condense. apply condense_at_known. exact HK.
  - cbn [step]. apply aspirate_known; assumption.
  - cbn [step]. apply dispense_known; assumption.
  - cbn [step]. apply transfer_known; assumption.
  - cbn [step]. apply distribute_known; assumption.
  - cbn [step]. destruct (w_dev (st_wl s)); try exact HK. apply evo_aspirate_known; assumption.
  - cbn [step]. destruct (w_dev (st_wl s)); try exact HK. apply evo_dispense_known; assumption.
Qed.

(** [condense_log] changes neither a volume nor a composition *)
Lemma condense_at_comp_vols s k n l :
  map lw_comp (st_lw (condense_at s k n l)) = map lw_comp (st_lw s) /\
  map lw_vols (st_lw (condense_at s k n l)) = map lw_vols (st_lw s).
Proof.
  unfold condense_at. destruct (nth_error (st_lw s) k) as [L|] eqn:E; [|split; reflexivity].
  destruct (condense_log_comp L n l) as (Ec & Ev & _). cbn [set_lw st_lw].
  split; rewrite map_upd; apply upd_same_nth_error; rewrite nth_error_map, E; cbn [option_map];
    [rewrite Ec|rewrite Ev]; reflexivity.
Qed.

Lemma step_condense_same s k n l :
  map lw_comp (st_lw (fst (step s (OCondense k n l)))) = map lw_comp (st_lw s) /\
  map lw_vols (st_lw (fst (step s (OCondense k n l)))) = map lw_vols (st_lw s).
Proof. rewrite step_condense. apply condense_at_comp_vols. Qed.

(** C05_run_removal_neutral, one step: removals, [condense_log] and record-only operations leave
    every composition table as it is, accepted or rejected *)
Lemma step_comp_neutral s o : op_comp_neutral o ->
  map lw_comp (st_lw (fst (step s o))) = map lw_comp (st_lw s).
Proof.
  destruct o as [k ws vs l cs|k ws vs l|k n l|k ws vs l kw|k ws vs l cs kw|ks sw kd dw vs l sch pb kw
                |ks kd dw a|c|sch| | | |i|a|a|a|k a l|k a l cs|a];
    intro H; try (destruct H); try (rewrite step_record_only by exact I; reflexivity).
  - cbn [step]. rewrite on_lw_st_lw. destruct (nth_error (st_lw s) k) as [L|] eqn:E; [|reflexivity].
    rewrite map_upd, remove_comp. apply upd_same_nth_error. rewrite nth_error_map, E. reflexivity.
  - apply step_condense_same.
  - cbn [step]. apply aspirate_comp.
  - cbn [step]. destruct (w_dev (st_wl s)); try reflexivity. apply evo_aspirate_comp.
Qed.

(* ------------------------------------------------------------------ whole programs: invariants *)

Lemma run_inv ops : forall s, st_inv s -> Forall op_comps_ok ops -> st_inv (fst (run s ops)).
Proof.
  induction ops as [|o r IH]; intros s HI HF; [exact HI|].
  inversion HF as [|o' r' Ho Hr]; subst. rewrite run_fst_cons. apply IH; [|exact Hr].
  apply step_inv; assumption.
Qed.

Lemma run_known ops : forall s, st_inv s -> st_known s -> Forall op_comps_ok ops ->
  Forall op_comps_known ops -> st_known (fst (run s ops)).
Proof.
  induction ops as [|o r IH]; intros s HI HK HF HN; [exact HK|].
  inversion HF as [|o' r' Ho Hr]; subst. inversion HN as [|o'' r'' Hn Hnr]; subst.
  rewrite run_fst_cons. apply IH; try assumption; [apply step_inv|apply step_known]; assumption.
Qed.

(** what [st_inv] says about the numbers of every labware of a state *)
Definition fractions_ok (L : labware) : Prop :=
  (forall k i, 0 <= frac L k i /\ frac L k i <= 1) /\
  (forall i, (i < n_wells (lw_geom L))%nat -> 0 <= well_sum L i /\ well_sum L i <= 1) /\
  (forall i, 0 <= vol_at L i).

Lemma mix_inv_fractions L : mix_inv L -> fractions_ok L.
Proof.
  intro HI. split; [|split].
  - intros k i. exact (comp_inv_frac L k i (proj2 HI)).
  - intros i Hi. exact (mix_inv_well_sum L i HI Hi).
  - intro i. exact (vol_base_vol_at L i (proj1 HI)).
Qed.

(** C05_run_invariant: every state a program reaches (the state after any prefix, the final state
    for [n >= length ops]) satisfies the invariant, hence all its fractions and well sums are in [0, 1] *)
Lemma run_invariant ops s n : st_inv s -> Forall op_comps_ok ops ->
  st_inv (fst (run s (firstn n ops))) /\
  forall L, In L (st_lw (fst (run s (firstn n ops)))) -> fractions_ok L.
Proof.
  intros HI HF.
  assert (H : st_inv (fst (run s (firstn n ops)))) by (apply run_inv; [exact HI|apply Forall_firstn'; exact HF]).
  split; [exact H|]. intros L HL. apply mix_inv_fractions. unfold st_inv in H.
  rewrite Forall_forall in H. apply H. exact HL.
Qed.

(** C05_run_known: in every reachable state the fractions of every non-empty well sum to exactly 1 *)
Lemma run_known_all ops s n : st_inv s -> st_known s -> Forall op_comps_ok ops ->
  Forall op_comps_known ops ->
  st_known (fst (run s (firstn n ops))) /\
  forall L, In L (st_lw (fst (run s (firstn n ops)))) ->
    forall i, (i < n_wells (lw_geom L))%nat -> ~ vol_at L i == 0 -> well_sum L i == 1.
Proof.
  intros HI HK HF HN.
  assert (H : st_known (fst (run s (firstn n ops))))
    by (apply run_known; try assumption; apply Forall_firstn'; assumption).
  split; [exact H|]. intros L HL. unfold st_known in H. rewrite Forall_forall in H. exact (H L HL).
Qed.

(** a state made of labware that came out of the constructors satisfies both invariants *)
Definition constructed (L : labware) : Prop :=
  (exists a, mk_labware a = Ok L) \/ (exists a, mk_trough a = Ok L).

Lemma constructed_inv lws w : Forall constructed lws ->
  st_inv {| st_lw := lws; st_wl := w |} /\ st_known {| st_lw := lws; st_wl := w |}.
Proof.
  intro H. unfold st_inv, st_known. cbn [st_lw].
  split; (eapply Forall_impl; [|exact H]); intros L [[a E]|[a E]].
  - exact (mk_labware_mix_inv a L E).
  - exact (mk_trough_mix_inv a L E).
  - exact (mk_labware_known a L E).
  - exact (mk_trough_known a L E).
Qed.

(** the top-level statement: from constructed labware, through any program *)
Lemma run_from_constructors lws w ops n : Forall constructed lws -> Forall op_comps_ok ops ->
  let s' := fst (run {| st_lw := lws; st_wl := w |} (firstn n ops)) in
  (forall L, In L (st_lw s') -> fractions_ok L) /\
  (Forall op_comps_known ops ->
   forall L, In L (st_lw s') ->
     forall i, (i < n_wells (lw_geom L))%nat -> ~ vol_at L i == 0 -> well_sum L i == 1).
Proof.
  intros HC HF. destruct (constructed_inv lws w HC) as [HI HK]. cbv zeta. split.
  - exact (proj2 (run_invariant ops _ n HI HF)).
  - intro HN. exact (proj2 (run_known_all ops _ n HI HK HF HN)).
Qed.

(** C05_run_removal_neutral: at whatever position of whatever program a removal ([ORemove],
    [OAspirate], [OEvoAsp]) stands, the composition tables after it are those before it *)
Lemma run_removal_neutral ops s n o : nth_error ops n = Some o -> op_comp_neutral o ->
  map lw_comp (st_lw (fst (run s (firstn (S n) ops)))) = map lw_comp (st_lw (fst (run s (firstn n ops)))).
Proof. intros E H. rewrite (run_prefix_step ops s n o E). apply step_comp_neutral. exact H. Qed.

(** a program that contains no addition, dispense, transfer or distribution changes no composition *)
Lemma run_comp_neutral ops : forall s, Forall op_comp_neutral ops ->
  map lw_comp (st_lw (fst (run s ops))) = map lw_comp (st_lw s).
Proof.
  induction ops as [|o r IH]; intros s HF; [reflexivity|].
  inversion HF as [|o' r' Ho Hr]; subst. rewrite run_fst_cons, (IH _ Hr). apply step_comp_neutral. exact Ho.
Qed.

(* ------------------------------------------------------------------ whole programs: conservation *)

(** one step of a closed program whose transfer / distribution was accepted *)
Lemma step_conserved s o k : st_inv s -> op_closed o -> moves_accepted o (snd (step s o)) ->
  total_amount (st_lw (fst (step s o))) k == total_amount (st_lw s) k.
Proof.
  intros HI HC HA.
  destruct o as [k0 ws vs l cs|k0 ws vs l|k0 n l|k0 ws vs l kw|k0 ws vs l cs kw|ks sw kd dw vs l sch pb kw
                |ks kd dw a|c|sch| | | |i|a|a|a|k0 a l|k0 a l cs|a];
    try (destruct HC); try (rewrite step_record_only by exact I; reflexivity).
  - rewrite step_condense, condense_at_amount. reflexivity.
  - cbn [step moves_accepted] in *.
    destruct (transfer s ks sw kd dw vs l sch pb kw) as [s' e] eqn:E. cbn [fst snd] in *. subst e.
    exact (transfer_conserved s ks sw kd dw vs l sch pb kw s' k HI E).
  - cbn [step moves_accepted] in *.
    destruct (distribute s ks kd dw a) as [s' e] eqn:E. cbn [fst snd] in *. subst e.
    exact (distribute_conserved s ks kd dw a s' k HI E).
Qed.

Lemma run_conserved_strong ops : forall s k, st_inv s -> Forall op_closed ops ->
  Forall2 moves_accepted ops (snd (run s ops)) ->
  total_amount (st_lw (fst (run s ops))) k == total_amount (st_lw s) k.
Proof.
  induction ops as [|o r IH]; intros s k HI HF HA; [reflexivity|].
  inversion HF as [|o' r' Ho Hr]; subst. rewrite run_snd_cons in HA.
  inversion HA as [|o'' e r'' es Hoe Hres]; subst. rewrite run_fst_cons.
  rewrite (IH (fst (step s o)) k); [apply step_conserved; assumption| |exact Hr|exact Hres].
  apply step_inv; [exact HI|]. apply op_closed_comps_ok. exact Ho.
Qed.

Lemma all_none_accepted ops : forall (es : list (option err)), length es = length ops ->
  Forall (fun e => e = None) es -> Forall2 moves_accepted ops es.
Proof.
  induction ops as [|o r IH]; intros es Hl HN.
  - destruct es as [|e es]; [constructor|discriminate].
  - destruct es as [|e es]; [discriminate|]. inversion HN as [|e' es' He Hes]; subst.
    constructor; [destruct o; cbn [moves_accepted]; trivial|]. apply IH; [|exact Hes].
    cbn [length] in Hl. injection Hl as Hl. exact Hl.
Qed.

(** C05_run_conserved *)
Lemma run_conserved ops s k : st_inv s -> Forall op_closed ops ->
  Forall (fun e => e = None) (snd (run s ops)) ->
  total_amount (st_lw (fst (run s ops))) k == total_amount (st_lw s) k.
Proof.
  intros HI HF HN. apply run_conserved_strong; try assumption.
  apply all_none_accepted; [apply run_snd_length|exact HN].
Qed.

(* ------------------------------------------------------------------ rejected operations: nothing is created *)

(** A rejected [transfer] or [distribute] keeps the effects it had before the failure (as the
    library does): the liquid of the failing step may have left the source without reaching the
    destination.  Amounts are therefore not conserved by rejected calls, but they never grow. *)

Lemma remove_loop_no_gain items k : forall L, mix_inv L ->
  Forall (fun p => vol_ok (snd p) = true) items ->
  lw_amount (fst (remove_loop L items)) k <= lw_amount L k.
Proof.
  induction items as [|[w x] rest IH]; intros L HI HF; [apply Qle_refl|].
  inversion HF as [|p r Hx Hrest]; subst. cbn [snd] in Hx.
  rewrite remove_loop_cons'. destruct (lw_index L w) as [i|] eqn:Ei; [|apply Qle_refl].
  destruct x as [v| | |]; try apply Qle_refl.
  destruct (Qltb (Qred (vol_at L i - v)) (lw_min L)) eqn:E; [apply Qle_refl|].
  assert (Hi : (i < n_wells (lw_geom L))%nat)
    by (apply (lw_index_lt L w i); [exact (proj1 (proj1 HI))|exact Ei]).
  assert (HI' : mix_inv (rem_step L i v)) by (apply rem_step_inv; [exact HI|apply Qltb_false'; exact E]).
  eapply Qle_trans; [apply IH; assumption|].
  rewrite lw_amount_rem_step by (try exact Hi; apply HI).
  pose proof (vol_ok_XQ' v Hx) as Hv. pose proof (comp_inv_frac L k i (proj2 HI)) as [Hf _].
  assert (Hp : 0 <= v * frac L k i) by (apply Qmult_le_0_compat; assumption). lra.
Qed.

Lemma remove_no_gain L wells vols label k : mix_inv L ->
  lw_amount (fst (remove L wells vols label)) k <= lw_amount L k.
Proof.
  intro HI. unfold remove. destruct (prep_wells_vols wells vols) as [wv|e] eqn:EP; [|apply Qle_refl].
  pose proof (remove_loop_no_gain wv k L HI (prep_wells_vols_vol_ok _ _ _ EP)) as H.
  destruct (remove_loop L wv) as [L' [e|]]; cbn [fst] in *; exact H.
Qed.

Lemma items_amt_nonneg k items : Forall aitem_ok items -> 0 <= items_amt k items.
Proof.
  induction 1 as [|[[w x] oc] r [Hv Hoc] Hr IH]; cbn [items_amt]; [apply Qle_refl|].
  cbn [fst snd] in Hv, Hoc.
  assert (H0 : 0 <= match x, oc with XQ v, Some c => v * cget k c | _, _ => 0 end).
  { destruct x as [v| | |]; try apply Qle_refl. destruct oc as [c|]; [|apply Qle_refl].
    apply Qmult_le_0_compat; [apply vol_ok_XQ'; exact Hv|].
    destruct Hoc as (_ & HB & _).
    apply (cget_Forall (fun q => 0 <= q) k c); [|apply Qle_refl].
    eapply Forall_impl; [|exact HB]. intros kf [H _]. exact H. }
  lra.
Qed.

(** an [add_loop] of liquids of known composition, however far it gets, brings in at most the
    component amounts of its items *)
Lemma add_loop_no_excess items k : forall L, mix_inv L -> Forall aitem_ok items ->
  Forall (fun it => snd it <> None) items ->
  lw_amount (fst (add_loop L items)) k <= lw_amount L k + items_amt k items.
Proof.
  induction items as [|[[w x] oc] rest IH]; intros L HI HF HS.
  - cbn [add_loop fst items_amt]. lra.
  - pose proof (items_amt_nonneg k _ HF) as Hnn.
    inversion HF as [|it r [Hv Hoc] Hrest]; subst. cbn [fst snd] in Hv, Hoc.
    inversion HS as [|it r Hsome Hsrest]; subst. cbn [snd] in Hsome.
    rewrite add_loop_cons'. destruct (lw_index L w) as [i|] eqn:Ei; [|cbn [fst]; lra].
    destruct x as [v| | |]; try (cbn [fst]; lra).
    destruct (Qgtb (Qred (vol_at L i + v)) (lw_max L)); [cbn [fst]; lra|].
    destruct oc as [c|]; [|congruence].
    assert (Hi : (i < n_wells (lw_geom L))%nat) by (apply (lw_index_lt L w i); [apply HI|exact Ei]).
    pose proof (vol_ok_XQ' v Hv) as Hv0.
    eapply Qle_trans; [apply IH; try assumption; apply add_step_inv; assumption|].
    rewrite lw_amount_add_step by (try assumption; apply Hoc).
    cbn [items_amt]. lra.
Qed.

Lemma add_no_excess L wells vols label cs k bound : mix_inv L -> Forall ocomp_ok cs ->
  Forall (fun oc : option composition => oc <> None) cs -> 0 <= bound ->
  (forall wv, prep_wells_vols wells vols = Ok wv -> length cs = length wv ->
     items_amt k (map (fun p => (fst (fst p), snd (fst p), snd p)) (zip wv cs)) <= bound) ->
  lw_amount (fst (add L wells vols label (Some cs))) k <= lw_amount L k + bound.
Proof.
  intros HI HC HS Hb HB. unfold add.
  destruct (prep_wells_vols wells vols) as [wv|e] eqn:EP; [|cbn [fst]; lra].
  destruct (length cs =? length wv)%nat eqn:El; cbn [negb]; [|cbn [fst]; lra].
  apply Nat.eqb_eq in El. specialize (HB wv eq_refl El).
  set (items := map (fun p => (fst (fst p), snd (fst p), snd p)) (zip wv cs)) in *.
  pose proof (Forall_zip _ _ wv cs (prep_wells_vols_vol_ok _ _ _ EP) HC) as HZ.
  assert (HF : Forall aitem_ok items).
  { apply Forall_map. eapply Forall_impl; [|exact HZ]. intros [[w x] oc] [H1 H2]. split; assumption. }
  assert (HS' : Forall (fun it => snd it <> None) items).
  { apply Forall_map. pose proof (Forall_zip_r (fun oc : option composition => oc <> None) wv cs HS) as HZ2.
    eapply Forall_impl; [|exact HZ2]. intros [[w x] oc] H. exact H. }
  pose proof (add_loop_no_excess items k L HI HF HS') as H.
  destruct (add_loop L items) as [L' [e|]]; cbn [fst] in *; [lra|].
  change (lw_amount (log L' label) k) with (lw_amount L' k). lra.
Qed.

Lemma total_rem_step l ks Ls i v lab k : nth_error l ks = Some Ls -> mix_inv Ls ->
  (i < n_wells (lw_geom Ls))%nat ->
  total_amount (upd l ks (log (rem_step Ls i v) lab)) k == total_amount l k - v * frac Ls k i.
Proof.
  intros E HI Hi. rewrite (total_amount_upd l ks Ls _ k E).
  change (lw_amount (log (rem_step Ls i v) lab) k) with (lw_amount (rem_step Ls i v) k).
  rewrite lw_amount_rem_step by (try exact Hi; apply HI). ring.
Qed.

Lemma total_add_step l kd Ld i v c lab k : nth_error l kd = Some Ld -> mix_inv Ld ->
  (i < n_wells (lw_geom Ld))%nat -> 0 <= v -> NoDup (map fst c) ->
  total_amount (upd l kd (log (add_step Ld i v (Some c)) lab)) k == total_amount l k + v * cget k c.
Proof.
  intros E HI Hi Hv NC. rewrite (total_amount_upd l kd Ld _ k E).
  change (lw_amount (log (add_step Ld i v (Some c)) lab) k) with (lw_amount (add_step Ld i v (Some c)) k).
  rewrite lw_amount_add_step by assumption. ring.
Qed.

(** the labware list after a one-well [aspirate] / [dispense], accepted or rejected *)
Lemma aspirate_single_lw s ks sw v kw l' : l' = st_lw (fst (aspirate s ks (A0 sw) (A0 (XQ v)) None kw)) ->
  l' = st_lw s \/
  exists Ls i, nth_error (st_lw s) ks = Some Ls /\ lw_index Ls sw = Some i /\ 0 <= v /\
    lw_min Ls <= Qred (vol_at Ls i - v) /\ l' = upd (st_lw s) ks (log (rem_step Ls i v) None).
Proof.
  intro El. rewrite aspirate_st_lw in El.
  destruct (nth_error (st_lw s) ks) as [Ls|] eqn:ELs; [|left; exact El].
  cbn [flattenF broadcast length repeat] in El. rewrite remove_single in El.
  destruct (Qle_bool 0 v) eqn:Ev;
    [|left; rewrite El; apply upd_same_nth_error; exact ELs].
  destruct (lw_index Ls sw) as [i|] eqn:Ei;
    [|left; rewrite El; apply upd_same_nth_error; exact ELs].
  destruct (Qltb (Qred (vol_at Ls i - v)) (lw_min Ls)) eqn:Eu;
    [left; rewrite El; apply upd_same_nth_error; exact ELs|].
  right. exists Ls, i. split; [reflexivity|]. split; [exact Ei|].
  split; [apply Qle_bool_iff; exact Ev|]. split; [apply Qltb_false'; exact Eu|exact El].
Qed.

Lemma dispense_single_lw s kd dw v c kw l' :
  l' = st_lw (fst (dispense s kd (A0 dw) (A0 (XQ v)) None (Some [Some c]) kw)) ->
  l' = st_lw s \/
  exists Ld i, nth_error (st_lw s) kd = Some Ld /\ lw_index Ld dw = Some i /\ 0 <= v /\
    l' = upd (st_lw s) kd (log (add_step Ld i v (Some c)) None).
Proof.
  intro El. rewrite dispense_st_lw in El.
  destruct (nth_error (st_lw s) kd) as [Ld|] eqn:ELd; [|left; exact El].
  cbn [flattenF broadcast length repeat] in El. rewrite add_single in El.
  destruct (Qle_bool 0 v) eqn:Ev;
    [|left; rewrite El; apply upd_same_nth_error; exact ELd].
  destruct (lw_index Ld dw) as [i|] eqn:Ei;
    [|left; rewrite El; apply upd_same_nth_error; exact ELd].
  destruct (Qgtb (Qred (vol_at Ld i + v)) (lw_max Ld)) eqn:Eo;
    [left; rewrite El; apply upd_same_nth_error; exact ELd|].
  right. exists Ld, i. split; [reflexivity|]. split; [exact Ei|].
  split; [apply Qle_bool_iff; exact Ev|exact El].
Qed.

(** one pipetting step, accepted or rejected: either no amount changed, or exactly the aspirated
    liquid [v * frac] of every component was lost (taken from the source, never dispensed) *)
Lemma exec_step_amount s ks kd sw dw v ws kw k : st_inv s ->
  total_amount (st_lw (fst (exec_step s ks kd sw dw v ws kw))) k == total_amount (st_lw s) k \/
  exists Ls i, nth_error (st_lw s) ks = Some Ls /\ lw_index Ls sw = Some i /\ 0 <= v /\
    total_amount (st_lw (fst (exec_step s ks kd sw dw v ws kw))) k
    == total_amount (st_lw s) k - v * frac Ls k i.
Proof.
  intro HI. unfold exec_step.
  pose proof (aspirate_inv s ks (A0 sw) (A0 (XQ v)) None kw HI) as HI1.
  destruct (aspirate s ks (A0 sw) (A0 (XQ v)) None kw) as [s1 [e|]] eqn:EA; cbn [fst] in HI1.
  - cbn [fst].
    destruct (aspirate_single_lw s ks sw v kw (st_lw s1)) as [E|(Ls & i & ELs & Ei & Hv & Hmin & E)];
      [rewrite EA; reflexivity| |].
    + left. rewrite E. reflexivity.
    + right. exists Ls, i. split; [exact ELs|]. split; [exact Ei|]. split; [exact Hv|].
      rewrite E. pose proof (st_inv_nth s ks Ls HI ELs) as HLs.
      apply total_rem_step; [exact ELs|exact HLs|].
      apply (lw_index_lt Ls sw); [apply HLs|exact Ei].
  - destruct (aspirate_single s ks sw v kw s1 EA) as (Ls & i_s & ELs & Eis & Hv & Hmin & Es1).
    assert (EL1 : nth_error (st_lw s1) ks = Some (log (rem_step Ls i_s v) None)).
    { rewrite Es1, (nth_error_upd _ _ _ _ _ ELs), Nat.eqb_refl. reflexivity. }
    rewrite EL1. unfold get_well_composition.
    rewrite (lw_index_geom' (log (rem_step Ls i_s v) None) Ls sw eq_refl), Eis.
    rewrite well_composition_at_wca. cbn [log set_hist rem_step set_vols lw_comp].
    pose proof (st_inv_nth s ks Ls HI ELs) as HLs.
    assert (His : (i_s < n_wells (lw_geom Ls))%nat) by (apply (lw_index_lt Ls sw); [apply HLs|exact Eis]).
    assert (T1 : total_amount (st_lw s1) k == total_amount (st_lw s) k - v * frac Ls k i_s)
      by (rewrite Es1; apply total_rem_step; assumption).
    pose proof (wca_comp_ok Ls i_s HLs) as [(NC & _) _].
    pose proof (dispense_single_lw s1 kd dw v (wca (lw_comp Ls) i_s) kw) as HD.
    destruct (dispense s1 kd (A0 dw) (A0 (XQ v)) None (Some [Some (wca (lw_comp Ls) i_s)]) kw) as [s2 [e2|]];
      cbn [fst] in HD; [|destruct (tip_action (st_wl s2) ws) as [w e]]; cbn [fst set_wl st_lw];
      (destruct (HD (st_lw s2) eq_refl) as [E|(Ld & i_d & ELd & Eid & _ & E)];
       [right; exists Ls, i_s; split; [exact ELs|]; split; [exact Eis|]; split; [exact Hv|];
        rewrite E; exact T1
       |left; rewrite E;
        pose proof (st_inv_nth s1 kd Ld HI1 ELd) as HLd;
        assert (Hid : (i_d < n_wells (lw_geom Ld))%nat)
          by (apply (lw_index_lt Ld dw); [apply HLd|exact Eid]);
        rewrite (total_add_step (st_lw s1) kd Ld i_d v (wca (lw_comp Ls) i_s) None k ELd HLd Hid Hv NC);
        rewrite T1; rewrite (wca_get_pfrac Ls k i_s) by apply HLs;
        rewrite (pfrac_nonneg Ls k i_s) by apply (comp_inv_frac Ls k i_s (proj2 HLs)); ring]).
Qed.

(** ... and a rejected step is the only way to lose anything *)
Lemma exec_step_amount_cases s ks kd sw dw v ws kw k : st_inv s ->
  total_amount (st_lw (fst (exec_step s ks kd sw dw v ws kw))) k == total_amount (st_lw s) k \/
  snd (exec_step s ks kd sw dw v ws kw) <> None /\
  exists Ls i, nth_error (st_lw s) ks = Some Ls /\ lw_index Ls sw = Some i /\ 0 <= v /\
    total_amount (st_lw (fst (exec_step s ks kd sw dw v ws kw))) k
    == total_amount (st_lw s) k - v * frac Ls k i.
Proof.
  intro HI. destruct (exec_step s ks kd sw dw v ws kw) as [s' [e|]] eqn:E.
  - pose proof (exec_step_amount s ks kd sw dw v ws kw k HI) as H. rewrite E in H.
    destruct H as [H|H]; [left; exact H|right; split; [discriminate|exact H]].
  - left. cbn [fst]. exact (exec_step_conserved s ks kd sw dw v ws kw s' k HI E).
Qed.

Lemma exec_step_no_gain s ks kd sw dw v ws kw k : st_inv s ->
  total_amount (st_lw (fst (exec_step s ks kd sw dw v ws kw))) k <= total_amount (st_lw s) k.
Proof.
  intro HI. destruct (exec_step_amount s ks kd sw dw v ws kw k HI) as [H|(Ls & i & ELs & _ & Hv & H)];
    rewrite H; [apply Qle_refl|].
  pose proof (comp_inv_frac Ls k i (proj2 (st_inv_nth s ks Ls HI ELs))) as [Hf _].
  assert (Hp : 0 <= v * frac Ls k i) by (apply Qmult_le_0_compat; assumption). lra.
Qed.

Lemma exec_no_gain acts : forall s ks kd ws kw k, st_inv s ->
  total_amount (st_lw (fst (exec s ks kd acts ws kw))) k <= total_amount (st_lw s) k.
Proof.
  induction acts as [|a rest IH]; intros s ks kd ws kw k HI; [apply Qle_refl|].
  destruct a as [sw dw v|]; cbn [exec].
  - pose proof (exec_step_inv s ks kd sw dw v ws kw HI) as H1.
    pose proof (exec_step_no_gain s ks kd sw dw v ws kw k HI) as H2.
    destruct (exec_step s ks kd sw dw v ws kw) as [s' [e|]]; cbn [fst] in *; [exact H2|].
    eapply Qle_trans; [apply IH; exact H1|exact H2].
  - exact (IH (set_wl s (fst (commit (st_wl s)))) ks kd ws kw k HI).
Qed.

Lemma transfer_no_gain s ks swells kd dwells vols label ws pb kw k : st_inv s ->
  total_amount (st_lw (fst (transfer s ks swells kd dwells vols label ws pb kw))) k
  <= total_amount (st_lw s) k.
Proof.
  intro HI. unfold transfer.
  destruct (w_dev (st_wl s)); try apply Qle_refl;
  (destruct (nth_error (st_lw s) ks) as [Ls|]; [|apply Qle_refl];
   destruct (nth_error (st_lw s) kd) as [Ld|]; [|apply Qle_refl];
   cbv zeta;
   match goal with |- context [if negb ?b then _ else _] => destruct (negb b); [apply Qle_refl|] end;
   match goal with |- context [if existsb ?f ?l then _ else _] => destruct (existsb f l); [apply Qle_refl|] end;
   match goal with |- context [if ?a || ?b then _ else _] => destruct (a || b); [apply Qle_refl|] end;
   destruct (optimize_partition_by (is_trough (lw_geom Ls)) (is_trough (lw_geom Ld)) pb) as [mode|e];
     [|apply Qle_refl];
   destruct (comment (st_wl s) label) as [w [e|]]; [apply Qle_refl|];
   match goal with |- context [exec ?s0 ?a ?b ?acts ?c ?d] =>
     pose proof (exec_no_gain acts s0 a b c d k HI) as HE; destruct (exec s0 a b acts c d) as [s' [e|]] end;
   cbn [fst set_wl st_lw] in *; [exact HE|];
   match goal with |- context [if ?b then _ else _] => destruct b end; cbn [fst];
   rewrite ?condense_at_amount; exact HE).
Qed.

Lemma distribute_no_gain s ks kd dwells a k : st_inv s ->
  total_amount (st_lw (fst (distribute s ks kd dwells a))) k <= total_amount (st_lw s) k.
Proof.
  intro HI. unfold distribute.
  destruct (nth_error (st_lw s) ks) as [Ls|] eqn:ELs; [|apply Qle_refl].
  destruct (nth_error (st_lw s) kd) as [Ld|] eqn:ELd; [|apply Qle_refl].
  pose proof (st_inv_nth s ks Ls HI ELs) as HLs.
  destruct (g_vrows (lw_geom Ls)) as [vr|]; [|apply Qle_refl].
  destruct (rvol_x (d_volume a)) as [xv|]; [|apply Qle_refl].
  match goal with |- total_amount (st_lw (fst (match xv with XQ _ => ?B | _ => _ end))) k <= _ =>
    assert (HB : total_amount (st_lw (fst B)) k <= total_amount (st_lw s) k);
      [|destruct xv; [exact HB|apply Qle_refl|exact HB|exact HB]] end.
  match goal with |- context [if ?b then (s, Some EInvalidOp) else _] => destruct b; [apply Qle_refl|] end.
  cbv zeta.
  match goal with |- context [if existsb ?f ?l then (s, Some EReject) else _] =>
    destruct (existsb f l); [apply Qle_refl|] end.
  destruct (positions_of (w_dev (st_wl s)) (lw_geom Ld) (flattenF dwells)) as [ps|e]; [|apply Qle_refl].
  destruct (sort_Z (map Z.of_nat ps)) as [|p0 sorted']; [apply Qle_refl|].
  match goal with |- context [if negb ?b then _ else _] => destruct (negb b); [apply Qle_refl|] end.
  match goal with |- context [remove Ls ?w ?x ?lab] =>
    pose proof (remove_no_gain Ls w x lab k HLs) as HRG;
    destruct (remove Ls w x lab) as [Ls' [e|]] eqn:ER; cbn [fst] in HRG end.
  { (* the removal from the source column was rejected *)
    cbn [fst set_lw st_lw]. rewrite (total_amount_upd _ ks Ls Ls' k ELs). lra. }
  destruct (remove_A0_ok _ _ _ _ _ ER) as (V & i_s & EV & HV & Eis & Hmin & ELs').
  assert (His : (i_s < n_wells (lw_geom Ls))%nat)
    by (apply (lw_index_lt Ls (well_id 0 (Z.to_nat (d_source_column a))) i_s); [apply HLs|exact Eis]).
  assert (HLs' : mix_inv Ls') by (rewrite ELs'; apply log_inv; apply rem_step_inv; assumption).
  assert (HI1 : st_inv (set_lw s ks Ls'))
    by (unfold st_inv; cbn [set_lw st_lw]; apply Forall_upd'; [exact HI|exact HLs']).
  pose proof (comp_inv_frac Ls k i_s (proj2 HLs)) as [Hf _].
  assert (Hp : 0 <= V * frac Ls k i_s) by (apply Qmult_le_0_compat; assumption).
  assert (T1 : total_amount (st_lw (set_lw s ks Ls')) k == total_amount (st_lw s) k - V * frac Ls k i_s).
  { cbn [set_lw st_lw]. rewrite ELs'. apply total_rem_step; assumption. }
  match goal with |- context [get_well_composition Ls' ?w] =>
    destruct (get_well_composition Ls' w) as [c|e] eqn:EC end; [|cbn [fst]; rewrite T1; lra].
  assert (Ec : c = wca (lw_comp Ls) i_s).
  { unfold get_well_composition in EC. rewrite ELs' in EC.
    rewrite (lw_index_geom' (log (rem_step Ls i_s V) (d_label a)) Ls _ eq_refl), Eis in EC.
    rewrite well_composition_at_wca in EC. inversion EC. reflexivity. }
  pose proof (wca_comp_ok Ls i_s HLs) as [HC _]. rewrite <- Ec in HC.
  assert (Hc : cget k c == frac Ls k i_s).
  { rewrite Ec, (wca_get_pfrac Ls k i_s) by apply HLs. apply pfrac_nonneg. exact Hf. }
  destruct (nth_error (st_lw (set_lw s ks Ls')) kd) as [Ld1|] eqn:ELd1; [|cbn [fst]; rewrite T1; lra].
  pose proof (st_inv_nth _ kd Ld1 HI1 ELd1) as HLd1.
  (* the volume per destination is a number *)
  destruct xv as [q| | |]; unfold xmul_nat in EV; try (destruct (length ps =? 0)%nat; discriminate).
  assert (EV' : Qred (q * inject_Z (Z.of_nat (length ps))) = V) by congruence.
  match goal with |- context [add Ld1 ?w ?x ?lab (Some ?cs)] =>
    assert (HA : lw_amount (fst (add Ld1 w x lab (Some cs))) k <= lw_amount Ld1 k + V * frac Ls k i_s) end.
  { apply add_no_excess; try assumption.
    - apply Forall_forall. intros oc Hoc. apply repeat_spec in Hoc. subst oc. exact HC.
    - apply Forall_forall. intros oc Hoc. apply repeat_spec in Hoc. subst oc. discriminate.
    - intros wv EP Elen. rewrite repeat_length in Elen. rewrite Elen.
      rewrite (items_amt_const k q c wv (prep_A1_A0 _ _ _ EP)).
      rewrite <- Elen, <- EV', Qred_correct, Hc. apply Qle_lteq. right. ring. }
  match goal with |- context [add Ld1 ?w ?x ?lab ?cs] =>
    destruct (add Ld1 w x lab cs) as [Ld' [e|]]; cbn [fst] in HA end.
  { (* the addition was rejected, possibly after some of the wells were filled *)
    cbn [fst set_lw st_lw]. cbn [set_lw st_lw] in ELd1, T1.
    rewrite (total_amount_upd _ kd Ld1 Ld' k ELd1), T1. lra. }
  assert (Hfinal : total_amount (upd (upd (st_lw s) ks Ls') kd Ld') k <= total_amount (st_lw s) k).
  { cbn [set_lw st_lw] in ELd1, T1. rewrite (total_amount_upd _ kd Ld1 Ld' k ELd1), T1. lra. }
  destruct (ks =? kd)%nat;
  match goal with |- context [comment (st_wl ?s2) ?lab] =>
    destruct (comment (st_wl s2) lab) as [w1 [e|]] end;
  try match goal with |- context [reagent_distribution ?w ?args] =>
    destruct (reagent_distribution w args) as [w2 e2] end;
  cbn [fst set_wl st_lw]; rewrite ?condense_at_amount; cbn [set_lw st_lw]; exact Hfinal.
Qed.

(** one step of a closed program, accepted or rejected: no component amount grows *)
Lemma step_no_gain s o k : st_inv s -> op_closed o ->
  total_amount (st_lw (fst (step s o))) k <= total_amount (st_lw s) k.
Proof.
  intros HI HC.
  destruct o as [k0 ws vs l cs|k0 ws vs l|k0 n l|k0 ws vs l kw|k0 ws vs l cs kw|ks sw kd dw vs l sch pb kw
                |ks kd dw a|c|sch| | | |i|a|a|a|k0 a l|k0 a l cs|a];
    try (destruct HC); try (rewrite step_record_only by exact I; apply Qle_refl).
  - rewrite step_condense, condense_at_amount. apply Qle_refl.
  - cbn [step]. apply transfer_no_gain. exact HI.
  - cbn [step]. apply distribute_no_gain. exact HI.
Qed.

Lemma run_no_gain ops : forall s k, st_inv s -> Forall op_closed ops ->
  total_amount (st_lw (fst (run s ops))) k <= total_amount (st_lw s) k.
Proof.
  induction ops as [|o r IH]; intros s k HI HF; [apply Qle_refl|].
  inversion HF as [|o' r' Ho Hr]; subst. rewrite run_fst_cons.
  eapply Qle_trans; [apply IH; [|exact Hr]|apply step_no_gain; assumption].
  apply step_inv; [exact HI|]. apply op_closed_comps_ok. exact Ho.
Qed.

(* ------------------------------------------------------------------ the counterexample *)

#[local] Open Scope string_scope.

(** 200 of "stock" in A01, 50 in B01, at most 220 per well: moving the 200 to B01 overflows B01
    after A01 has been emptied *)
Definition cx_args : lw_args :=
  {| a_name := "P"; a_rows := PInt 2; a_cols := PInt 1; a_min := XQ 0; a_max := XQ 220;
     a_init := Some (A1 [XQ 200; XQ 50]); a_vrows := None;
     a_names := [("A01", Some "stock")] |}.
Definition cx_w0 : wstate :=
  {| w_recs := []; w_max := 950; w_autosplit := true; w_diti := false; w_dev := Evo |}.
Definition cx_op : op := OTransfer 0 (A0 "A01") 0 (A0 "B01") (A0 200) None SFlush "auto" kw_default.

(** conservation does NOT extend to rejected transfers *)
Lemma rejected_transfer_loses :
  exists s o k, st_inv s /\ op_closed o /\ snd (step s o) = Some EOverflow /\
    total_amount (st_lw s) k == 200 /\ total_amount (st_lw (fst (step s o))) k == 0.
Proof.
  destruct (mk_labware cx_args) as [L|e] eqn:E; [|vm_compute in E; discriminate].
  pose proof (mk_labware_mix_inv cx_args L E) as HL.
  exists {| st_lw := [L]; st_wl := cx_w0 |}, cx_op, "stock".
  split; [constructor; [exact HL|constructor]|]. split; [exact I|].
  vm_compute in E. inversion E; subst L. vm_compute. repeat split.
Qed.

(* ------------------------------------------------------------------ the classes, spelled out *)

Lemma op_classes_spec (o : op) :
  op_comps_ok o = match o with
                  | OAdd _ _ _ _ cs => comps_ok cs
                  | ODispense _ _ _ _ cs _ => comps_ok cs
                  | OEvoDisp _ _ _ cs => comps_ok cs
                  | _ => True
                  end /\
  op_comps_known o = match o with
                     | OAdd _ _ _ _ cs => comps_known cs
                     | ODispense _ _ _ _ cs _ => comps_known cs
                     | OEvoDisp _ _ _ cs => comps_known cs
                     | _ => True
                     end.
Proof. destruct o; split; reflexivity. Qed.

(* ------------------------------------------------------------------ a decision procedure for the
   hypotheses on caller-supplied compositions (for examples and for callers) *)

#[local] Close Scope string_scope.

Fixpoint nodupb (l : list string) : bool :=
  match l with [] => true | x :: r => negb (mem_str x r) && nodupb r end.

Lemma nodupb_NoDup l : nodupb l = true -> NoDup l.
Proof.
  induction l as [|x r IH]; intro H; [constructor|]. cbn [nodupb] in H.
  apply andb_prop in H. destruct H as [H1 H2]. constructor; [|apply IH; exact H2].
  apply mem_str_false. destruct (mem_str x r); [discriminate|reflexivity].
Qed.

Definition comp_okb (c : composition) : bool :=
  nodupb (map fst c) && forallb (fun kf => Qle_bool 0 (snd kf) && Qle_bool (snd kf) 1) c
  && Qle_bool (Qsum (map snd c)) 1.

Lemma comp_okb_ok c : comp_okb c = true -> comp_ok c.
Proof.
  unfold comp_okb. intro H. apply andb_prop in H. destruct H as [H H3].
  apply andb_prop in H. destruct H as [H1 H2].
  split; [apply nodupb_NoDup; exact H1|]. split; [|apply Qle_bool_iff; exact H3].
  apply Forall_forall. intros kf Hkf. rewrite forallb_forall in H2. specialize (H2 kf Hkf).
  apply andb_prop in H2. destruct H2 as [Ha Hb]. split; apply Qle_bool_iff; assumption.
Qed.

Definition comps_okb (comps : option (list (option composition))) : bool :=
  match comps with
  | Some cs => forallb (fun oc => match oc with Some c => comp_okb c | None => true end) cs
  | None => true
  end.

Definition comps_knownb (comps : option (list (option composition))) : bool :=
  match comps with
  | Some cs => forallb (fun oc => match oc with
                                  | Some c => Qeq_bool (Qsum (map snd c)) 1
                                  | None => false
                                  end) cs
  | None => false
  end.

Lemma comps_okb_ok comps : comps_okb comps = true -> comps_ok comps.
Proof.
  destruct comps as [cs|]; [|intros _; exact I]. cbn [comps_okb comps_ok]. intro H.
  apply Forall_forall. intros oc Hoc. rewrite forallb_forall in H. specialize (H oc Hoc).
  destruct oc as [c|]; [|exact I]. apply comp_okb_ok. exact H.
Qed.

Lemma comps_knownb_ok comps : comps_knownb comps = true -> comps_known comps.
Proof.
  destruct comps as [cs|]; [|discriminate]. cbn [comps_knownb comps_known]. intro H.
  apply Forall_forall. intros oc Hoc. rewrite forallb_forall in H. specialize (H oc Hoc).
  destruct oc as [c|]; [|discriminate]. apply Qeq_bool_iff. exact H.
Qed.

Definition op_comps_okb (o : op) : bool :=
  match op_comps o with Some cs => comps_okb cs | None => true end.
Definition op_comps_knownb (o : op) : bool :=
  match op_comps o with Some cs => comps_knownb cs | None => true end.

Lemma ops_check ops :
  (forallb op_comps_okb ops = true -> Forall op_comps_ok ops) /\
  (forallb op_comps_knownb ops = true -> Forall op_comps_known ops).
Proof.
  split; intro H; apply Forall_forall; intros o Ho; rewrite forallb_forall in H; specialize (H o Ho).
  - unfold op_comps_okb in H. unfold op_comps_ok. destruct (op_comps o) as [cs|]; [|exact I].
    apply comps_okb_ok. exact H.
  - unfold op_comps_knownb in H. unfold op_comps_known. destruct (op_comps o) as [cs|]; [|exact I].
    apply comps_knownb_ok. exact H.
Qed.
