(** Lemmas about well ids, the index map and the device-specific numbering (C08). *)
From Robo Require Import Prelude Str Wells.
From Coq Require Import DecimalString DecimalN DecimalPos.

(** * Decimal printing: digits only, never empty, parsed back *)

Lemma all_digits_string_of_uint d : all_digits (NilEmpty.string_of_uint d) = true.
Proof.
  induction d as [|d IH|d IH|d IH|d IH|d IH|d IH|d IH|d IH|d IH|d IH];
    cbn [NilEmpty.string_of_uint all_digits]; [reflexivity| | | | | | | | | |];
    rewrite IH; reflexivity.
Qed.

Lemma all_digits_decN n : all_digits (decN n) = true.
Proof. unfold decN. apply all_digits_string_of_uint. Qed.

Lemma to_uint_nonnil n : N.to_uint n <> Decimal.Nil.
Proof.
  destruct n as [|p]; [discriminate|]. exact (DecimalPos.Unsigned.to_uint_nonnil p).
Qed.

Lemma decN_nonempty n : decN n <> EmptyString.
Proof.
  unfold decN. pose proof (to_uint_nonnil n) as Hn.
  destruct (N.to_uint n) as [|d|d|d|d|d|d|d|d|d|d]; [congruence| | | | | | | | | |]; discriminate.
Qed.

Lemma parse_decN_nonempty s : s <> EmptyString ->
  parse_decN s = match NilEmpty.uint_of_string s with Some d => Some (N.of_uint d) | None => None end.
Proof. intro Hs. destruct s as [|a s']; [congruence|reflexivity]. Qed.

Lemma parse_decN_decN n : parse_decN (decN n) = Some n.
Proof.
  rewrite parse_decN_nonempty by apply decN_nonempty.
  unfold decN. rewrite NilEmpty.usu. rewrite DecimalN.Unsigned.of_to. reflexivity.
Qed.

(** a leading zero does not change the value *)
Lemma parse_decN_zero_decN n : parse_decN (String "0"%char (decN n)) = Some n.
Proof.
  rewrite parse_decN_nonempty by discriminate.
  cbn [NilEmpty.uint_of_string]. unfold decN. rewrite NilEmpty.usu.
  change (uint_of_char "0"%char (Some (N.to_uint n))) with (Some (Decimal.D0 (N.to_uint n))).
  cbv beta iota.
  change (N.of_uint (Decimal.D0 (N.to_uint n))) with (N.of_uint (N.to_uint n)).
  rewrite DecimalN.Unsigned.of_to. reflexivity.
Qed.

Lemma parse_decN_pad2N n : parse_decN (pad2N n) = Some n.
Proof.
  unfold pad2N. destruct (n <? 10)%N eqn:E; [apply parse_decN_zero_decN|apply parse_decN_decN].
Qed.

Lemma all_digits_pad2N n : all_digits (pad2N n) = true.
Proof.
  unfold pad2N. destruct (n <? 10)%N eqn:E; [|apply all_digits_decN].
  cbn [all_digits]. rewrite all_digits_decN. reflexivity.
Qed.

Lemma pad2N_nonempty n : pad2N n <> EmptyString.
Proof.
  unfold pad2N. destruct (n <? 10)%N eqn:E; [discriminate|apply decN_nonempty].
Qed.

Lemma pad2N_injective n m : pad2N n = pad2N m -> n = m.
Proof.
  intro H. pose proof (parse_decN_pad2N n) as Hn. rewrite H, parse_decN_pad2N in Hn. congruence.
Qed.

Lemma decN_injective n m : decN n = decN m -> n = m.
Proof.
  intro H. pose proof (parse_decN_decN n) as Hn. rewrite H, parse_decN_decN in Hn. congruence.
Qed.

(** * The regex split *)

Lemma is_digit_not_letter a : is_digit a = true -> is_letter a = false.
Proof.
  unfold is_digit, is_letter. cbv zeta. intro H.
  apply andb_true_iff in H. destruct H as [H1 H2].
  apply Nat.leb_le in H1. apply Nat.leb_le in H2.
  apply orb_false_iff. split; apply andb_false_iff; left; apply Nat.leb_gt; lia.
Qed.

Lemma split_letters_digits s : all_digits s = true -> split_letters s = (EmptyString, s).
Proof.
  destruct s as [|a s']; intro H; [reflexivity|].
  cbn [all_digits] in H. apply andb_true_iff in H. destruct H as [Ha _].
  cbn [split_letters]. rewrite (is_digit_not_letter a Ha). reflexivity.
Qed.

Lemma nat_of_ascii_row_letter r : r < 26 -> nat_of_ascii (row_letter r) = 65 + r.
Proof. intro Hr. unfold row_letter. apply nat_ascii_embedding. lia. Qed.

Lemma is_letter_row_letter r : r < 26 -> is_letter (row_letter r) = true.
Proof.
  intro Hr. unfold is_letter. cbv zeta. rewrite nat_of_ascii_row_letter by exact Hr.
  apply orb_true_iff. left. apply andb_true_iff. split; apply Nat.leb_le; lia.
Qed.

Lemma parse_id_letter_digits a d : is_letter a = true -> all_digits d = true -> d <> EmptyString ->
  parse_id (String a d) =
  match parse_decN d with Some n => Some (String a EmptyString, n) | None => None end.
Proof.
  intros Ha Hd Hne. unfold parse_id. cbn [split_letters]. rewrite Ha.
  rewrite (split_letters_digits d Hd).
  destruct d as [|b d']; [congruence|]. rewrite Hd. reflexivity.
Qed.

Lemma parse_id_well_id : forall r c, r < 26 ->
  parse_id (well_id r c) = Some (String (row_letter r) EmptyString, N.of_nat (c + 1)).
Proof.
  intros r c Hr. unfold well_id, pad2.
  rewrite parse_id_letter_digits;
    [|apply is_letter_row_letter; exact Hr|apply all_digits_pad2N|apply pad2N_nonempty].
  rewrite parse_decN_pad2N. reflexivity.
Qed.

(** * Injectivity of the id map *)

Lemma well_id_injective : forall r c r' c', r < 26 -> r' < 26 ->
  well_id r c = well_id r' c' -> r = r' /\ c = c'.
Proof.
  intros r c r' c' Hr Hr' H. unfold well_id, pad2 in H.
  injection H as Ha Hp.
  apply (f_equal nat_of_ascii) in Ha.
  rewrite !nat_of_ascii_row_letter in Ha by assumption.
  apply pad2N_injective in Hp. split; lia.
Qed.

(** * [id_rc]: exactly the canonical ids *)

Lemma id_rc_String a rest :
  id_rc (String a rest) =
  if ((65 <=? nat_of_ascii a) && (nat_of_ascii a <=? 90))%nat then
    if all_digits rest then
      match parse_decN rest with
      | Some col => if (1 <=? col)%N then
                      if String.eqb (well_id (nat_of_ascii a - 65) (N.to_nat col - 1)) (String a rest)
                      then Some (nat_of_ascii a - 65, N.to_nat col - 1) else None
                    else None
      | None => None
      end
    else None
  else None.
Proof. reflexivity. Qed.

Lemma id_rc_well_id : forall r c, r < 26 -> id_rc (well_id r c) = Some (r, c).
Proof.
  intros r c Hr.
  assert (E : well_id r c = String (row_letter r) (pad2N (N.of_nat (c + 1)))) by reflexivity.
  rewrite E at 1. rewrite id_rc_String. rewrite <- E.
  rewrite nat_of_ascii_row_letter by exact Hr.
  assert (E1 : ((65 <=? 65 + r) && (65 + r <=? 90))%nat = true)
    by (apply andb_true_iff; split; apply Nat.leb_le; lia).
  rewrite E1. rewrite all_digits_pad2N. rewrite parse_decN_pad2N.
  assert (E2 : (1 <=? N.of_nat (c + 1))%N = true) by (apply N.leb_le; lia).
  rewrite E2.
  replace (65 + r - 65) with r by lia.
  replace (N.to_nat (N.of_nat (c + 1)) - 1) with c by lia.
  rewrite String.eqb_refl. reflexivity.
Qed.

Lemma id_rc_inv : forall s r c, id_rc s = Some (r, c) -> s = well_id r c /\ r < 26.
Proof.
  intros s r c H. destruct s as [|a rest]; [discriminate|].
  rewrite id_rc_String in H.
  destruct ((65 <=? nat_of_ascii a) && (nat_of_ascii a <=? 90))%nat eqn:E1; [|discriminate].
  destruct (all_digits rest) eqn:E2; [|discriminate].
  destruct (parse_decN rest) as [col|] eqn:E3; [|discriminate].
  destruct (1 <=? col)%N eqn:E4; [|discriminate].
  destruct (String.eqb (well_id (nat_of_ascii a - 65) (N.to_nat col - 1)) (String a rest)) eqn:E5;
    [|discriminate].
  injection H as Hr Hc. apply String.eqb_eq in E5. subst r c.
  split; [symmetry; exact E5|].
  apply andb_true_iff in E1. destruct E1 as [E1a E1b].
  apply Nat.leb_le in E1a. apply Nat.leb_le in E1b. lia.
Qed.

(** * Row and column lookup *)

Lemma n_row_ids_le g : n_row_ids g <= 26.
Proof. unfold n_row_ids. apply Nat.le_min_l. Qed.

Lemma single_letter_row_ok g r : r < n_row_ids g ->
  single_letter_row g (String (row_letter r) EmptyString) = Some r.
Proof.
  intro Hr. pose proof (n_row_ids_le g) as Hle.
  unfold single_letter_row. cbv zeta. rewrite nat_of_ascii_row_letter by lia.
  assert (E : ((65 <=? 65 + r) && (65 + r <? 65 + n_row_ids g))%nat = true)
    by (apply andb_true_iff; split; [apply Nat.leb_le|apply Nat.ltb_lt]; lia).
  rewrite E. f_equal. lia.
Qed.

Lemma column_index_ok g c : c < g_cols g -> column_index g (N.of_nat (c + 1)) = Some c.
Proof.
  intro Hc. unfold column_index.
  assert (E : ((1 <=? N.of_nat (c + 1)) && (N.of_nat (c + 1) <=? N.of_nat (g_cols g)))%N = true)
    by (apply andb_true_iff; split; apply N.leb_le; lia).
  rewrite E. f_equal. lia.
Qed.

Lemma in_range_true g r c : r < n_row_ids g -> c < g_cols g ->
  ((r <? n_row_ids g) && (c <? g_cols g))%nat = true.
Proof. intros Hr Hc. apply andb_true_iff. split; apply Nat.ltb_lt; assumption. Qed.

Lemma evo_position_ok g r c : r < n_row_ids g -> c < g_cols g ->
  evo_position g (well_id r c) =
  Ok (pos_of (match g_vrows g with Some v => v | None => n_row_ids g end) r c).
Proof.
  intros Hr Hc. pose proof (n_row_ids_le g) as Hle. unfold evo_position.
  rewrite parse_id_well_id by lia. cbv beta iota.
  rewrite single_letter_row_ok by exact Hr. rewrite column_index_ok by exact Hc. reflexivity.
Qed.

Lemma fluent_position_ok g r c : r < n_row_ids g -> c < g_cols g ->
  fluent_position g (well_id r c) =
  Ok (if is_trough g then 1 + c else pos_of (n_row_ids g) r c).
Proof.
  intros Hr Hc. pose proof (n_row_ids_le g) as Hle. unfold fluent_position.
  rewrite parse_id_well_id by lia. cbv beta iota. rewrite column_index_ok by exact Hc.
  destruct (is_trough g) eqn:Et; [reflexivity|].
  change (str_head (well_id r c)) with (Some (row_letter r)). cbv beta iota.
  rewrite single_letter_row_ok by exact Hr. reflexivity.
Qed.

Lemma positions_attr_ok g r c : r < n_row_ids g -> c < g_cols g ->
  positions_attr g (well_id r c) =
  Some (pos_of (match g_vrows g with Some v => v | None => g_rows g end) r c).
Proof.
  intros Hr Hc. pose proof (n_row_ids_le g) as Hle. unfold positions_attr.
  rewrite id_rc_well_id by lia. rewrite in_range_true by assumption. reflexivity.
Qed.

Lemma well_index_ok g r c : r < n_row_ids g -> c < g_cols g ->
  well_index g (well_id r c) = Some (match g_vrows g with Some _ => 0 | None => r end, c).
Proof.
  intros Hr Hc. pose proof (n_row_ids_le g) as Hle. unfold well_index.
  rewrite id_rc_well_id by lia. rewrite in_range_true by assumption. reflexivity.
Qed.

(** * Plates and troughs *)

Local Notation plate R C := {| g_rows := R; g_cols := C; g_vrows := None |}.
Local Notation trough V C := {| g_rows := 1; g_cols := C; g_vrows := Some V |}.

Lemma plate_positions : forall R C r c, 1 <= R <= 26 -> r < R -> c < C ->
  evo_position (plate R C) (well_id r c) = Ok (1 + c * R + r) /\
  fluent_position (plate R C) (well_id r c) = Ok (1 + c * R + r) /\
  positions_attr (plate R C) (well_id r c) = Some (1 + c * R + r) /\
  well_index (plate R C) (well_id r c) = Some (r, c).
Proof.
  intros R C r c HR Hr Hc.
  assert (En : n_row_ids (plate R C) = R)
    by (unfold n_row_ids; cbn [g_vrows g_rows]; apply Nat.min_r; lia).
  assert (Hr' : r < n_row_ids (plate R C)) by (rewrite En; exact Hr).
  assert (Hc' : c < g_cols (plate R C)) by exact Hc.
  rewrite (evo_position_ok _ r c Hr' Hc'), (fluent_position_ok _ r c Hr' Hc'),
    (positions_attr_ok _ r c Hr' Hc'), (well_index_ok _ r c Hr' Hc').
  cbn [g_vrows g_rows is_trough]. rewrite En. unfold pos_of. repeat split.
Qed.

Lemma trough_positions : forall V C r c, 1 <= V <= 26 -> r < V -> c < C ->
  evo_position (trough V C) (well_id r c) = Ok (1 + c * V + r) /\
  fluent_position (trough V C) (well_id r c) = Ok (1 + c) /\
  positions_attr (trough V C) (well_id r c) = Some (1 + c * V + r) /\
  well_index (trough V C) (well_id r c) = Some (0, c).
Proof.
  intros V C r c HV Hr Hc.
  assert (En : n_row_ids (trough V C) = V)
    by (unfold n_row_ids; cbn [g_vrows g_rows]; apply Nat.min_r; lia).
  assert (Hr' : r < n_row_ids (trough V C)) by (rewrite En; exact Hr).
  assert (Hc' : c < g_cols (trough V C)) by exact Hc.
  rewrite (evo_position_ok _ r c Hr' Hc'), (fluent_position_ok _ r c Hr' Hc'),
    (positions_attr_ok _ r c Hr' Hc'), (well_index_ok _ r c Hr' Hc').
  cbn [g_vrows g_rows is_trough]. unfold pos_of. repeat split.
Qed.

(** * The numbering is a bijection *)

Lemma pos_of_bijection : forall R C, 0 < R ->
  (forall r c, r < R -> c < C -> 1 <= pos_of R r c <= R * C) /\
  (forall r c, r < R -> ((pos_of R r c - 1) mod R, (pos_of R r c - 1) / R) = (r, c)) /\
  (forall p, 1 <= p <= R * C ->
     (p - 1) mod R < R /\ (p - 1) / R < C /\ pos_of R ((p - 1) mod R) ((p - 1) / R) = p).
Proof.
  intros R C HR. assert (HR0 : R <> 0) by lia. unfold pos_of. split; [|split].
  - intros r c Hr Hc. split; [lia|nia].
  - intros r c Hr. replace (1 + c * R + r - 1) with (r + c * R) by lia.
    rewrite Nat.mod_add by exact HR0. rewrite Nat.mod_small by exact Hr.
    rewrite Nat.div_add by exact HR0. rewrite Nat.div_small by exact Hr. reflexivity.
  - intros p Hp. split; [|split].
    + apply Nat.mod_upper_bound. exact HR0.
    + apply Nat.div_lt_upper_bound; [exact HR0|lia].
    + pose proof (Nat.div_mod (p - 1) R HR0) as Hd. nia.
Qed.

(** * Tables *)

Lemma nth_map_seq {A} (f : nat -> A) d : forall n s i, i < n -> nth i (map f (seq s n)) d = f (s + i).
Proof.
  intros n s i Hi. rewrite (nth_indep _ d (f 0)) by (rewrite map_length, seq_length; exact Hi).
  rewrite map_nth. rewrite seq_nth by exact Hi. reflexivity.
Qed.

Lemma wells_table_nth : forall g r c, r < n_row_ids g -> c < g_cols g ->
  nth c (nth r (wells_table g) []) EmptyString = well_id r c.
Proof.
  intros g r c Hr Hc. unfold wells_table.
  rewrite (nth_map_seq _ [] (n_row_ids g) 0 r Hr).
  rewrite (nth_map_seq _ EmptyString (g_cols g) 0 c Hc). reflexivity.
Qed.

Lemma well_index_domain : forall g s rc, well_index g s = Some rc ->
  exists r c, r < n_row_ids g /\ c < g_cols g /\ s = well_id r c /\
              rc = (match g_vrows g with Some _ => 0 | None => r end, c).
Proof.
  intros g s rc H. unfold well_index in H.
  destruct (id_rc s) as [[r c]|] eqn:E; [|discriminate].
  destruct ((r <? n_row_ids g) && (c <? g_cols g))%nat eqn:E1; [|discriminate].
  apply andb_true_iff in E1. destruct E1 as [E1a E1b].
  apply Nat.ltb_lt in E1a. apply Nat.ltb_lt in E1b.
  apply id_rc_inv in E. destruct E as [Es _].
  exists r, c. repeat split; try assumption. congruence.
Qed.

(** [well_index] is defined exactly on the entries of the [wells] table *)
Lemma well_index_defined_iff : forall g s,
  (exists rc, well_index g s = Some rc) <->
  (exists r c, r < n_row_ids g /\ c < g_cols g /\ s = well_id r c).
Proof.
  intros g s. split.
  - intros [rc H]. apply well_index_domain in H. destruct H as [r [c [Hr [Hc [Hs _]]]]].
    exists r, c. repeat split; assumption.
  - intros [r [c [Hr [Hc Hs]]]]. subst s. rewrite well_index_ok by assumption.
    eexists. reflexivity.
Qed.

Lemma helpers_agree : forall R C,
  make_well_array R C = wells_table (plate R C) /\
  forall s, make_well_index R C s = well_index (plate R C) s.
Proof. intros R C. split; [reflexivity|intro s; reflexivity]. Qed.
